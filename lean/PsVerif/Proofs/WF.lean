import PsVerif.Model.Init
/-!
# Well-formed interpreter data and the data operators (C01, heap-invariant part)

`WF v` says that every view held anywhere in `v` lies inside a store of the right kind:

* every object on the operand stack, in every `.objs` cell, every dictionary value and
  every field of every `.cmap` cell is `objOK`: a view `(ref, off, len)` points to a cell
  of the right kind with `off + len ≤ size`; `.dict r` / `.cmapInfo r` point to cells of the
  right kind; `.builtin id` has a `knownBuiltin` id; and no object is the resource
  dictionary itself (`.dict r` requires `r ≠ roots.resources`);
* the dictionary stack has at least two entries; its entries and the stale entries
  `dictGhost` are `.dict` cells other than the resource dictionary;
* the seven `roots` are `.dict` cells; every value of the resource dictionary is a `.dict`;
* `cmapMappings = some r` points to a `.cmap` cell.

Main results (no operator is missing: all ids of `pureBuiltin` / `cmapBuiltin` are covered):

* `wf_newVM : WF newVM`;
* `pure_post` : for every operator of `pureBuiltin` started in a well-formed state the
  result is well-formed, the heap is only *extended* (`Ext`: cells keep kind and size, new
  cells are appended), `roots` is unchanged and the outcome is not `Err.panic`;
  `pure_wf` / `pure_ext` are its two halves.  One lemma `b…_post` per operator.
* `bind_ok` : the same for `bindProc` / `bindLoop` with any fuel; `bBind_no_fuel` : with the
  fuel `bBind` passes, `Res.fuel` is not an outcome; `pure_no_fuel` : no data operator
  returns `Res.fuel`.
* `known_dispatch` : a `knownBuiltin` id is one of the ten operators `callBuiltin` handles
  itself or is accepted by `pureBuiltin` (so the "unknown builtin" panic is excluded too).
-/
namespace PsVerif.Proofs.WF
open PsVerif.Model

set_option linter.unusedSimpArgs false
set_option linter.unusedVariables false

/-! ### shapes and heap extension -/

inductive Shape where
  | objs (n : Nat)
  | bytes (n : Nat)
  | dict
  | cmap
  deriving DecidableEq, Repr

def shape : Cell → Shape
  | .objs a => .objs a.size
  | .bytes a => .bytes a.size
  | .dict _ => .dict
  | .cmap _ => .cmap

def shapeAt (h : Array Cell) (r : Nat) : Option Shape := (h[r]?).map shape

/-- every cell keeps its kind, arrays and strings keep their size; new cells may appear -/
def Ext (h h' : Array Cell) : Prop := ∀ r s, shapeAt h r = some s → shapeAt h' r = some s

theorem Ext.refl (h : Array Cell) : Ext h h := fun _ _ e => e
theorem Ext.trans {a b c : Array Cell} (h1 : Ext a b) (h2 : Ext b c) : Ext a c :=
  fun r s e => h2 r s (h1 r s e)

/-! ### known builtins -/

def knownBuiltin (id : String) : Prop :=
  id ∈ systemOperators ∨ id ∈ cidInitKeys.map (fun n => "cid:" ++ n) ∨ id = "defaultErrorHandler"

instance (id : String) : Decidable (knownBuiltin id) := by unfold knownBuiltin; infer_instance

/-! ### objects, cells, heaps -/

/-- `o` is meaningful in heap `h`; `res` is the ref of the resource dictionary, which is
never handed out as an object -/
def objOK (h : Array Cell) (res : Nat) : Obj → Prop
  | .str r o l => ∃ n, shapeAt h r = some (.bytes n) ∧ o + l ≤ n
  | .arr r o l => ∃ n, shapeAt h r = some (.objs n) ∧ o + l ≤ n
  | .proc r o l => ∃ n, shapeAt h r = some (.objs n) ∧ o + l ≤ n
  | .dict r => shapeAt h r = some .dict ∧ r ≠ res
  | .cmapInfo r => shapeAt h r = some .cmap
  | .builtin id => knownBuiltin id
  | _ => True

theorem objOK_mono {h h' : Array Cell} {res : Nat} (e : Ext h h') {o : Obj} (ok : objOK h res o) :
    objOK h' res o := by
  cases o <;> simp only [objOK] at ok ⊢
  · obtain ⟨n, h1, h2⟩ := ok; exact ⟨n, e _ _ h1, h2⟩
  · obtain ⟨n, h1, h2⟩ := ok; exact ⟨n, e _ _ h1, h2⟩
  · obtain ⟨n, h1, h2⟩ := ok; exact ⟨n, e _ _ h1, h2⟩
  · exact ⟨e _ _ ok.1, ok.2⟩
  · exact ok
  · exact e _ _ ok

def cmapOK (h : Array Cell) (res : Nat) (c : CMapInfo) : Prop :=
  (∀ x ∈ c.codeSpaceRanges, objOK h res x.low ∧ objOK h res x.high) ∧
  (∀ x ∈ c.cidChars, objOK h res x.src ∧ objOK h res x.dst) ∧
  (∀ x ∈ c.cidRanges, objOK h res x.low ∧ objOK h res x.high ∧ objOK h res x.dst) ∧
  (∀ x ∈ c.bfChars, objOK h res x.src ∧ objOK h res x.dst) ∧
  (∀ x ∈ c.bfRanges, objOK h res x.low ∧ objOK h res x.high ∧ objOK h res x.dst) ∧
  (∀ x ∈ c.notdefChars, objOK h res x.src ∧ objOK h res x.dst) ∧
  (∀ x ∈ c.notdefRanges, objOK h res x.low ∧ objOK h res x.high ∧ objOK h res x.dst)

def cellOK (h : Array Cell) (res : Nat) : Cell → Prop
  | .objs a => ∀ o ∈ a, objOK h res o
  | .bytes _ => True
  | .dict d => ∀ p ∈ d, objOK h res p.2
  | .cmap c => cmapOK h res c

theorem cmapOK_mono {h h' : Array Cell} {res : Nat} (e : Ext h h') {c : CMapInfo} (ok : cmapOK h res c) :
    cmapOK h' res c := by
  obtain ⟨h1, h2, h3, h4, h5, h6, h7⟩ := ok
  refine ⟨?_, ?_, ?_, ?_, ?_, ?_, ?_⟩
  · intro x hx; exact ⟨objOK_mono e (h1 x hx).1, objOK_mono e (h1 x hx).2⟩
  · intro x hx; exact ⟨objOK_mono e (h2 x hx).1, objOK_mono e (h2 x hx).2⟩
  · intro x hx; exact ⟨objOK_mono e (h3 x hx).1, objOK_mono e (h3 x hx).2.1, objOK_mono e (h3 x hx).2.2⟩
  · intro x hx; exact ⟨objOK_mono e (h4 x hx).1, objOK_mono e (h4 x hx).2⟩
  · intro x hx; exact ⟨objOK_mono e (h5 x hx).1, objOK_mono e (h5 x hx).2.1, objOK_mono e (h5 x hx).2.2⟩
  · intro x hx; exact ⟨objOK_mono e (h6 x hx).1, objOK_mono e (h6 x hx).2⟩
  · intro x hx; exact ⟨objOK_mono e (h7 x hx).1, objOK_mono e (h7 x hx).2.1, objOK_mono e (h7 x hx).2.2⟩

theorem cellOK_mono {h h' : Array Cell} {res : Nat} (e : Ext h h') {c : Cell} (ok : cellOK h res c) :
    cellOK h' res c := by
  cases c <;> simp only [cellOK] at ok ⊢
  · intro o ho; exact objOK_mono e (ok o ho)
  · intro p hp; exact objOK_mono e (ok p hp)
  · exact cmapOK_mono e ok

def heapOK (h : Array Cell) (res : Nat) : Prop := ∀ c ∈ h, cellOK h res c

def dictAt (h : Array Cell) (r : Nat) : List (Name × Obj) :=
  match h[r]? with
  | some (.dict d) => d
  | _ => []

def objsAt (h : Array Cell) (r : Nat) : Array Obj :=
  match h[r]? with
  | some (.objs a) => a
  | _ => #[]

def bytesAt (h : Array Cell) (r : Nat) : Array UInt8 :=
  match h[r]? with
  | some (.bytes a) => a
  | _ => #[]

def cmapAt (h : Array Cell) (r : Nat) : CMapInfo :=
  match h[r]? with
  | some (.cmap c) => c
  | _ => {}

theorem getDict_eq (v : VM) (r : Nat) : v.getDict r = dictAt v.heap r := rfl
theorem getObjs_eq (v : VM) (r : Nat) : v.getObjs r = objsAt v.heap r := rfl
theorem getBytes_eq (v : VM) (r : Nat) : v.getBytes r = bytesAt v.heap r := rfl
theorem getCMap_eq (v : VM) (r : Nat) : v.getCMap r = cmapAt v.heap r := rfl

def isDictRef (h : Array Cell) (res : Nat) (r : Nat) : Prop := shapeAt h r = some .dict ∧ r ≠ res

/-- well-formed interpreter data -/
structure WF (v : VM) : Prop where
  stack : ∀ o ∈ v.stack, objOK v.heap v.roots.resources o
  heap : heapOK v.heap v.roots.resources
  dsLen : 2 ≤ v.dictStack.length
  ds : ∀ r ∈ v.dictStack, isDictRef v.heap v.roots.resources r
  ghost : ∀ r ∈ v.dictGhost, isDictRef v.heap v.roots.resources r
  rSystem : isDictRef v.heap v.roots.resources v.roots.systemDict
  rUser : isDictRef v.heap v.roots.resources v.roots.userDict
  rError : isDictRef v.heap v.roots.resources v.roots.errorDict
  rInternal : isDictRef v.heap v.roots.resources v.roots.internalDict
  rFont : isDictRef v.heap v.roots.resources v.roots.fontDirectory
  rCMap : isDictRef v.heap v.roots.resources v.roots.cmapDirectory
  rRes : shapeAt v.heap v.roots.resources = some .dict
  resVals : ∀ p ∈ dictAt v.heap v.roots.resources, ∃ r, p.2 = Obj.dict r
  cmap : ∀ r, v.cmapMappings = some r → shapeAt v.heap r = some .cmap


/-! ### heap changes: allocation and same-shape writes -/

theorem shapeAt_lt {h : Array Cell} {r : Nat} {s : Shape} (e : shapeAt h r = some s) : r < h.size := by
  unfold shapeAt at e
  cases hr : h[r]? with
  | none => simp [hr] at e
  | some c => exact (Array.getElem?_eq_some_iff.mp hr).1

theorem shapeAt_push (h : Array Cell) (c : Cell) (r : Nat) :
    shapeAt (h.push c) r = if r = h.size then some (shape c) else shapeAt h r := by
  unfold shapeAt
  rw [Array.getElem?_push]
  split <;> rfl

theorem shapeAt_set (h : Array Cell) (r r' : Nat) (c : Cell) :
    shapeAt (h.setIfInBounds r c) r' =
      if r = r' then (if r < h.size then some (shape c) else none) else shapeAt h r' := by
  unfold shapeAt
  rw [Array.getElem?_setIfInBounds]
  split
  · split <;> rfl
  · rfl

theorem ext_push (h : Array Cell) (c : Cell) : Ext h (h.push c) := by
  intro r s e
  have := shapeAt_lt e
  rw [shapeAt_push, if_neg (by omega)]
  exact e

theorem ext_set {h : Array Cell} {r : Nat} {c : Cell} (hs : shapeAt h r = some (shape c)) :
    Ext h (h.setIfInBounds r c) := by
  intro r' s e
  rw [shapeAt_set]
  split
  · next heq => subst heq; rw [if_pos (shapeAt_lt hs), ← hs, e]
  · exact e

theorem heapOK_push {h : Array Cell} {res : Nat} {c : Cell} (ok : heapOK h res) (okc : cellOK h res c) :
    heapOK (h.push c) res := by
  intro c' hc'
  rcases Array.mem_push.mp hc' with hm | rfl
  · exact cellOK_mono (ext_push h c) (ok c' hm)
  · exact cellOK_mono (ext_push h _) okc

theorem heapOK_set {h : Array Cell} {res r : Nat} {c : Cell} (ok : heapOK h res)
    (hs : shapeAt h r = some (shape c)) (okc : cellOK h res c) : heapOK (h.setIfInBounds r c) res := by
  intro c' hc'
  rcases Array.mem_or_eq_of_mem_setIfInBounds hc' with hm | rfl
  · exact cellOK_mono (ext_set hs) (ok c' hm)
  · exact cellOK_mono (ext_set hs) okc

theorem dictAt_push {h : Array Cell} {r : Nat} (c : Cell) (hr : r < h.size) : dictAt (h.push c) r = dictAt h r := by
  unfold dictAt
  rw [Array.getElem?_push, if_neg (by omega)]

theorem dictAt_set_ne {h : Array Cell} {r r' : Nat} (c : Cell) (hne : r ≠ r') :
    dictAt (h.setIfInBounds r c) r' = dictAt h r' := by
  unfold dictAt
  rw [Array.getElem?_setIfInBounds, if_neg hne]

theorem cell_of_shape_objs {h : Array Cell} {r n : Nat} (e : shapeAt h r = some (.objs n)) :
    ∃ a, h[r]? = some (.objs a) ∧ a.size = n ∧ objsAt h r = a := by
  unfold shapeAt at e
  cases hr : h[r]? with
  | none => simp [hr] at e
  | some c =>
    cases c <;> simp [hr, shape] at e
    exact ⟨_, rfl, e, by simp [objsAt, hr]⟩

theorem cell_of_shape_bytes {h : Array Cell} {r n : Nat} (e : shapeAt h r = some (.bytes n)) :
    ∃ a, h[r]? = some (.bytes a) ∧ a.size = n ∧ bytesAt h r = a := by
  unfold shapeAt at e
  cases hr : h[r]? with
  | none => simp [hr] at e
  | some c =>
    cases c <;> simp [hr, shape] at e
    exact ⟨_, rfl, e, by simp [bytesAt, hr]⟩

theorem cell_of_shape_dict {h : Array Cell} {r : Nat} (e : shapeAt h r = some .dict) :
    ∃ d, h[r]? = some (.dict d) ∧ dictAt h r = d := by
  unfold shapeAt at e
  cases hr : h[r]? with
  | none => simp [hr] at e
  | some c =>
    cases c <;> simp [hr, shape] at e
    exact ⟨_, rfl, by simp [dictAt, hr]⟩

theorem cell_of_shape_cmap {h : Array Cell} {r : Nat} (e : shapeAt h r = some .cmap) :
    ∃ c, h[r]? = some (.cmap c) ∧ cmapAt h r = c := by
  unfold shapeAt at e
  cases hr : h[r]? with
  | none => simp [hr] at e
  | some c =>
    cases c <;> simp [hr, shape] at e
    exact ⟨_, rfl, by simp [cmapAt, hr]⟩

theorem objsAt_ok {h : Array Cell} {res r n : Nat} (ok : heapOK h res) (e : shapeAt h r = some (.objs n)) :
    (objsAt h r).size = n ∧ ∀ o ∈ objsAt h r, objOK h res o := by
  obtain ⟨a, ha, hn, hq⟩ := cell_of_shape_objs e
  rw [hq]
  exact ⟨hn, ok _ (Array.mem_of_getElem? ha)⟩

theorem dictAt_ok {h : Array Cell} {res r : Nat} (ok : heapOK h res) (e : shapeAt h r = some .dict) :
    ∀ p ∈ dictAt h r, objOK h res p.2 := by
  obtain ⟨d, hd, hq⟩ := cell_of_shape_dict e
  rw [hq]
  exact ok _ (Array.mem_of_getElem? hd)

theorem cmapAt_ok {h : Array Cell} {res r : Nat} (ok : heapOK h res) (e : shapeAt h r = some .cmap) :
    cmapOK h res (cmapAt h r) := by
  obtain ⟨d, hd, hq⟩ := cell_of_shape_cmap e
  rw [hq]
  exact ok _ (Array.mem_of_getElem? hd)

theorem isDictRef_mono {h h' : Array Cell} {res r : Nat} (e : Ext h h') (ok : isDictRef h res r) :
    isDictRef h' res r := ⟨e _ _ ok.1, ok.2⟩

/-- the general frame rule: everything is checked against the old heap, except the stack -/
theorem WF.update' {v v' : VM} (h : WF v) (hr : v'.roots = v.roots)
    (hext : Ext v.heap v'.heap) (hheap : heapOK v'.heap v.roots.resources)
    (hres : dictAt v'.heap v.roots.resources = dictAt v.heap v.roots.resources)
    (hdl : 2 ≤ v'.dictStack.length)
    (hd : ∀ r ∈ v'.dictStack, isDictRef v'.heap v.roots.resources r)
    (hg : ∀ r ∈ v'.dictGhost, isDictRef v'.heap v.roots.resources r)
    (hc : ∀ r, v'.cmapMappings = some r → shapeAt v'.heap r = some .cmap)
    (hst : ∀ o ∈ v'.stack, objOK v'.heap v.roots.resources o) : WF v' where
  stack := by rw [hr]; exact hst
  heap := by rw [hr]; exact hheap
  dsLen := hdl
  ds := by rw [hr]; exact hd
  ghost := by rw [hr]; exact hg
  rSystem := by rw [hr]; exact isDictRef_mono hext h.rSystem
  rUser := by rw [hr]; exact isDictRef_mono hext h.rUser
  rError := by rw [hr]; exact isDictRef_mono hext h.rError
  rInternal := by rw [hr]; exact isDictRef_mono hext h.rInternal
  rFont := by rw [hr]; exact isDictRef_mono hext h.rFont
  rCMap := by rw [hr]; exact isDictRef_mono hext h.rCMap
  rRes := by rw [hr]; exact hext _ _ h.rRes
  resVals := by rw [hr, hres]; exact h.resVals
  cmap := hc

/-- frame rule for operators that leave the dictionary stack and the cmap pointer alone -/
theorem WF.update {v v' : VM} (h : WF v) (hr : v'.roots = v.roots)
    (hext : Ext v.heap v'.heap) (hheap : heapOK v'.heap v.roots.resources)
    (hres : dictAt v'.heap v.roots.resources = dictAt v.heap v.roots.resources)
    (hd : v'.dictStack = v.dictStack) (hg : v'.dictGhost = v.dictGhost)
    (hc : v'.cmapMappings = v.cmapMappings)
    (hst : ∀ o ∈ v'.stack, objOK v'.heap v.roots.resources o) : WF v' :=
  h.update' hr hext hheap hres (by rw [hd]; exact h.dsLen)
    (by rw [hd]; exact fun r hr => isDictRef_mono hext (h.ds r hr))
    (by rw [hg]; exact fun r hr => isDictRef_mono hext (h.ghost r hr))
    (by rw [hc]; exact fun r hr => hext _ _ (h.cmap r hr)) hst

/-! ### postcondition of an operator -/

def NoPanic (r : Res) : Prop := ∀ site, r ≠ .err (.panic site)

/-- what every data operator guarantees when started in a well-formed `v` -/
structure Post (v : VM) (p : VM × Res) : Prop where
  wf : WF p.1
  ext : Ext v.heap p.1.heap
  roots : p.1.roots = v.roots
  nopanic : NoPanic p.2

theorem noPanic_ok : NoPanic .ok := by intro s; simp
theorem noPanic_ps (n : ErrName) : NoPanic (.err (.ps n)) := by intro s; simp

/-- only the stack changed, into objects that are fine in the old heap -/
theorem Post.same {v v' : VM} {r : Res} (h : WF v) (hh : v'.heap = v.heap) (hr : v'.roots = v.roots)
    (hd : v'.dictStack = v.dictStack) (hg : v'.dictGhost = v.dictGhost)
    (hc : v'.cmapMappings = v.cmapMappings)
    (hst : ∀ o ∈ v'.stack, objOK v.heap v.roots.resources o) (hn : NoPanic r) : Post v (v', r) where
  wf := h.update hr (by rw [hh]; exact Ext.refl _) (by rw [hh]; exact h.heap) (by rw [hh]) hd hg hc
    (by rw [hh]; exact hst)
  ext := by show Ext v.heap v'.heap; rw [hh]; exact Ext.refl _
  roots := hr
  nopanic := hn


/-! ### operators that only rearrange the stack -/

/-- close a leaf whose result is `v` with another stack -/
macro "wf_leaf" h:ident : tactic =>
  `(tactic| (refine Post.same $h rfl rfl rfl rfl rfl ?_ (by first | exact noPanic_ok | exact noPanic_ps _ | (intro s; simp))
             have hs := WF.stack $h
             simp only [VM.push, List.forall_mem_cons] at hs ⊢
             first | (simp_all [objOK]; done) | grind [objOK]))

/-- an operator that only pops, pushes and permutes objects -/
macro "wf_triv" h:ident : tactic =>
  `(tactic| ((repeat' (first | split | dsimp only [psErr, okRes])) <;> wf_leaf $h))

theorem bMark_post (v : VM) (h : WF v) : Post v (bMark v) := by
  obtain ⟨st, ds, dg, hp, cm, c1, c2, c3, roots⟩ := v
  unfold bMark; wf_triv h

theorem bPop_post (v : VM) (h : WF v) : Post v (bPop v) := by
  obtain ⟨st, ds, dg, hp, cm, c1, c2, c3, roots⟩ := v
  unfold bPop; wf_triv h

theorem bDup_post (v : VM) (h : WF v) : Post v (bDup v) := by
  obtain ⟨st, ds, dg, hp, cm, c1, c2, c3, roots⟩ := v
  unfold bDup; wf_triv h

theorem bExch_post (v : VM) (h : WF v) : Post v (bExch v) := by
  obtain ⟨st, ds, dg, hp, cm, c1, c2, c3, roots⟩ := v
  unfold bExch; wf_triv h

theorem bCount_post (v : VM) (h : WF v) : Post v (bCount v) := by
  obtain ⟨st, ds, dg, hp, cm, c1, c2, c3, roots⟩ := v
  unfold bCount; wf_triv h

theorem bAbs_post (v : VM) (h : WF v) : Post v (bAbs v) := by
  obtain ⟨st, ds, dg, hp, cm, c1, c2, c3, roots⟩ := v
  unfold bAbs; wf_triv h

theorem arith_post (iop : Int → Int → Int) (ovf : Int → Int → Int → Bool) (fop : UInt64 → UInt64 → UInt64)
    (v : VM) (h : WF v) : Post v (arith iop ovf fop v) := by
  obtain ⟨st, ds, dg, hp, cm, c1, c2, c3, roots⟩ := v
  unfold arith; wf_triv h


theorem bAdd_post (v : VM) (h : WF v) : Post v (bAdd v) := arith_post _ _ _ v h
theorem bSub_post (v : VM) (h : WF v) : Post v (bSub v) := arith_post _ _ _ v h
theorem bMul_post (v : VM) (h : WF v) : Post v (bMul v) := arith_post _ _ _ v h

theorem bAnd_post (v : VM) (h : WF v) : Post v (bAnd v) := by
  obtain ⟨st, ds, dg, hp, cm, c1, c2, c3, roots⟩ := v
  unfold bAnd; wf_triv h

theorem bOr_post (v : VM) (h : WF v) : Post v (bOr v) := by
  obtain ⟨st, ds, dg, hp, cm, c1, c2, c3, roots⟩ := v
  unfold bOr; wf_triv h

theorem bNot_post (v : VM) (h : WF v) : Post v (bNot v) := by
  obtain ⟨st, ds, dg, hp, cm, c1, c2, c3, roots⟩ := v
  unfold bNot; wf_triv h

theorem bEqNe_post (neg : Bool) (v : VM) (h : WF v) : Post v (bEqNe neg v) := by
  obtain ⟨st, ds, dg, hp, cm, c1, c2, c3, roots⟩ := v
  unfold bEqNe; wf_triv h

theorem bEq_post (v : VM) (h : WF v) : Post v (bEq v) := bEqNe_post _ v h
theorem bNe_post (v : VM) (h : WF v) : Post v (bNe v) := bEqNe_post _ v h

theorem bKnown_post (v : VM) (h : WF v) : Post v (bKnown v) := by
  obtain ⟨st, ds, dg, hp, cm, c1, c2, c3, roots⟩ := v
  unfold bKnown; wf_triv h

theorem bMaxlength_post (v : VM) (h : WF v) : Post v (bMaxlength v) := by
  obtain ⟨st, ds, dg, hp, cm, c1, c2, c3, roots⟩ := v
  unfold bMaxlength; wf_triv h

theorem bLength_post (v : VM) (h : WF v) : Post v (bLength v) := by
  obtain ⟨st, ds, dg, hp, cm, c1, c2, c3, roots⟩ := v
  unfold bLength; wf_triv h

theorem bType_post (v : VM) (h : WF v) : Post v (bType v) := by
  obtain ⟨st, ds, dg, hp, cm, c1, c2, c3, roots⟩ := v
  unfold bType; wf_triv h

theorem bCurrentfile_post (v : VM) (h : WF v) : Post v (bCurrentfile v) := by
  obtain ⟨st, ds, dg, hp, cm, c1, c2, c3, roots⟩ := v
  unfold bCurrentfile; wf_triv h

theorem bClosefile_post (v : VM) (h : WF v) : Post v (bClosefile v) := by
  obtain ⟨st, ds, dg, hp, cm, c1, c2, c3, roots⟩ := v
  unfold bClosefile; wf_triv h

theorem bNop_post (v : VM) (h : WF v) : Post v (bNop v) := by
  obtain ⟨st, ds, dg, hp, cm, c1, c2, c3, roots⟩ := v
  unfold bNop; wf_triv h

theorem exit_post (v : VM) (h : WF v) : Post v (v, .err .exit) := by
  obtain ⟨st, ds, dg, hp, cm, c1, c2, c3, roots⟩ := v
  wf_leaf h

theorem stop_post (v : VM) (h : WF v) : Post v (v, .err .stop) := by
  obtain ⟨st, ds, dg, hp, cm, c1, c2, c3, roots⟩ := v
  wf_leaf h

theorem bInternaldict_post (v : VM) (h : WF v) : Post v (bInternaldict v) := by
  obtain ⟨st, ds, dg, hp, cm, c1, c2, c3, roots⟩ := v
  have hi := h.rInternal
  unfold isDictRef at hi
  unfold bInternaldict; wf_triv h


/-! ### look-ups -/

theorem splitAtMark_mem : ∀ (st acc : List Obj) {a b : List Obj}, splitAtMark acc st = some (a, b) →
    (∀ o ∈ a, o ∈ acc ∨ o ∈ st) ∧ (∀ o ∈ b, o ∈ st) := by
  intro st
  induction st with
  | nil => intro acc a b e; simp [splitAtMark] at e
  | cons x rest ih =>
    intro acc a b e
    by_cases hx : x = .mark
    · subst hx
      simp only [splitAtMark, Option.some.injEq, Prod.mk.injEq] at e
      obtain ⟨rfl, rfl⟩ := e
      exact ⟨fun o ho => Or.inl (by simpa using ho), fun o ho => List.mem_cons_of_mem _ ho⟩
    · have e' : splitAtMark (x :: acc) rest = some (a, b) := by
        cases x <;> first | exact absurd rfl hx | simpa [splitAtMark] using e
      obtain ⟨h1, h2⟩ := ih _ e'
      refine ⟨fun o ho => ?_, fun o ho => List.mem_cons_of_mem _ (h2 o ho)⟩
      rcases h1 o ho with h | h
      · rcases List.mem_cons.mp h with rfl | h
        · exact Or.inr (List.mem_cons_self)
        · exact Or.inl h
      · exact Or.inr (List.mem_cons_of_mem _ h)

theorem toMark_mem {st a b : List Obj} (e : toMark st = some (a, b)) :
    (∀ o ∈ a, o ∈ st) ∧ (∀ o ∈ b, o ∈ st) := by
  obtain ⟨h1, h2⟩ := splitAtMark_mem st [] e
  exact ⟨fun o ho => by simpa using h1 o ho, h2⟩

theorem dictLookup_mem {d : List (Name × Obj)} {k : Name} {x : Obj} (e : dictLookup d k = some x) :
    ∃ p ∈ d, p.2 = x := by
  unfold dictLookup at e
  split at e
  · next p hp => exact ⟨p, List.mem_of_find?_eq_some hp, by simpa using e⟩
  · simp at e

theorem dictGet_ok {v : VM} (h : WF v) {r : Nat} {k : Name} {x : Obj} (hr : shapeAt v.heap r = some .dict)
    (e : v.dictGet r k = some x) : objOK v.heap v.roots.resources x := by
  obtain ⟨p, hp, rfl⟩ := dictLookup_mem e
  exact dictAt_ok h.heap hr p hp

theorem lookupName_ok {v : VM} (h : WF v) {n : Name} {x : Obj} (e : lookupName v n = some x) :
    objOK v.heap v.roots.resources x := by
  obtain ⟨r, hr, hx⟩ := List.exists_of_findSome?_eq_some e
  exact dictGet_ok h (h.ds r hr).1 hx

theorem resGet_dict {v : VM} (h : WF v) {k : Name} {x : Obj} (e : v.dictGet v.roots.resources k = some x) :
    ∃ r, x = .dict r ∧ isDictRef v.heap v.roots.resources r := by
  have ok := dictGet_ok h h.rRes e
  obtain ⟨p, hp, rfl⟩ := dictLookup_mem e
  obtain ⟨r, hr⟩ := h.resVals p hp
  rw [hr] at ok ⊢
  exact ⟨r, rfl, ok⟩

theorem bCleartomark_post (v : VM) (h : WF v) : Post v (bCleartomark v) := by
  obtain ⟨st, ds, dg, hp, cm, c1, c2, c3, roots⟩ := v
  unfold bCleartomark
  dsimp only
  split
  · wf_leaf h
  · next a b e =>
    refine Post.same h rfl rfl rfl rfl rfl ?_ noPanic_ok
    exact fun o ho => h.stack o ((toMark_mem e).2 o ho)

theorem bLoad_post (v : VM) (h : WF v) : Post v (bLoad v) := by
  obtain ⟨st, ds, dg, hp, cm, c1, c2, c3, roots⟩ := v
  unfold bLoad
  dsimp only
  split
  · wf_leaf h
  · split
    · next x hx => have := lookupName_ok h hx; wf_leaf h
    · wf_leaf h
  · wf_leaf h

theorem bWhere_post (v : VM) (h : WF v) : Post v (bWhere v) := by
  obtain ⟨st, ds, dg, hp, cm, c1, c2, c3, roots⟩ := v
  unfold bWhere
  dsimp only
  split
  · wf_leaf h
  · split
    · next r hr =>
      have := h.ds r (List.mem_of_find?_eq_some hr)
      unfold isDictRef at this
      wf_leaf h
    · wf_leaf h
  · wf_leaf h

theorem bCurrentdict_post (v : VM) (h : WF v) : Post v (bCurrentdict v) := by
  obtain ⟨st, ds, dg, hp, cm, c1, c2, c3, roots⟩ := v
  unfold bCurrentdict
  dsimp only
  split
  · have := h.dsLen; simp at this
  · next d rest =>
    have := h.ds d (List.mem_cons_self)
    unfold isDictRef at this
    wf_leaf h

theorem bFindfont_post (v : VM) (h : WF v) : Post v (bFindfont v) := by
  obtain ⟨st, ds, dg, hp, cm, c1, c2, c3, roots⟩ := v
  unfold bFindfont
  dsimp only
  split
  · wf_leaf h
  · split
    · next x hx => have := dictGet_ok h h.rFont.1 hx; wf_leaf h
    · wf_leaf h
  · wf_leaf h

theorem bFindresource_post (v : VM) (h : WF v) : Post v (bFindresource v) := by
  obtain ⟨st, ds, dg, hp, cm, c1, c2, c3, roots⟩ := v
  unfold bFindresource
  dsimp only
  split
  · split
    · split
      · wf_leaf h
      · next catv hc =>
        obtain ⟨r, rfl, hr⟩ := resGet_dict h hc
        split
        · wf_leaf h
        · dsimp only
          split
          · next x hx => have := dictGet_ok h hr.1 hx; wf_leaf h
          · wf_leaf h
    · wf_leaf h
  · wf_leaf h


theorem bIndex_post (v : VM) (h : WF v) : Post v (bIndex v) := by
  obtain ⟨st, ds, dg, hp, cm, c1, c2, c3, roots⟩ := v
  unfold bIndex
  dsimp only
  split
  · split
    · split
      · wf_leaf h
      · next hnot =>
        split
        · next o ho =>
          have hm := List.mem_of_getElem? ho
          refine Post.same h rfl rfl rfl rfl rfl ?_ noPanic_ok
          intro x hx
          have hs := h.stack
          rcases List.mem_cons.mp hx with rfl | hx
          · exact hs _ (List.mem_cons_of_mem _ hm)
          · exact hs _ (List.mem_cons_of_mem _ hx)
        · next hnone =>
          exfalso
          rw [List.getElem?_eq_none_iff] at hnone
          simp only [List.length_cons] at hnot hnone
          omega
    · wf_leaf h
  · wf_leaf h

theorem bRoll_post (v : VM) (h : WF v) : Post v (bRoll v) := by
  obtain ⟨st, ds, dg, hp, cm, c1, c2, c3, roots⟩ := v
  unfold bRoll
  dsimp only
  split
  · next jo no rest =>
    split
    · split
      · wf_leaf h
      · split
        · split
          · wf_leaf h
          · refine Post.same h rfl rfl rfl rfl rfl ?_ noPanic_ok
            intro x hx
            have hs := h.stack
            apply hs; apply List.mem_cons_of_mem; apply List.mem_cons_of_mem
            simp only [List.mem_append] at hx
            rcases hx with (hx | hx) | hx
            · exact List.mem_of_mem_take (List.mem_of_mem_drop hx)
            · exact List.mem_of_mem_take (List.mem_of_mem_take hx)
            · exact List.mem_of_mem_drop hx
        · wf_leaf h
    · wf_leaf h
  · wf_leaf h

theorem bGetinterval_post (v : VM) (h : WF v) : Post v (bGetinterval v) := by
  obtain ⟨st, ds, dg, hp, cm, c1, c2, c3, roots⟩ := v
  unfold bGetinterval
  (repeat' (first | dsimp only [psErr, okRes] | split)) <;>
    first
    | (refine Post.same h rfl rfl rfl rfl rfl ?_ noPanic_ok
       have hs := h.stack
       simp only [List.forall_mem_cons, objOK] at hs ⊢
       obtain ⟨-, -, ⟨n, hn, hle⟩, hrest⟩ := hs
       exact ⟨⟨n, hn, by omega⟩, hrest⟩)
    | wf_leaf h

theorem bBegin_post (v : VM) (h : WF v) : Post v (bBegin v) := by
  obtain ⟨st, ds, dg, hp, cm, c1, c2, c3, roots⟩ := v
  unfold bBegin
  dsimp only
  split
  · wf_leaf h
  · next top rest =>
    split
    · wf_leaf h
    · have hs := h.stack
      simp only [List.forall_mem_cons] at hs
      split
      · next r =>
        refine ⟨?_, Ext.refl _, rfl, noPanic_ok⟩
        refine h.update' rfl (Ext.refl _) h.heap rfl ?_ ?_ ?_ h.cmap hs.2
        · have := h.dsLen; simp only [okRes, List.length_cons] at this ⊢; omega
        · intro x hx
          rcases List.mem_cons.mp hx with rfl | hx
          · exact hs.1
          · exact h.ds x hx
        · intro x hx
          exact h.ghost x (List.mem_of_mem_tail hx)
      · wf_leaf h

theorem bEnd_post (v : VM) (h : WF v) : Post v (bEnd v) := by
  obtain ⟨st, ds, dg, hp, cm, c1, c2, c3, roots⟩ := v
  rcases ds with _ | ⟨d, ds'⟩
  · have := h.dsLen; simp at this
  unfold bEnd
  dsimp only
  split
  · wf_leaf h
  · next hlen =>
    refine ⟨?_, Ext.refl _, rfl, noPanic_ok⟩
    have hds := h.ds
    dsimp only at hds
    refine h.update' rfl (Ext.refl _) h.heap rfl ?_ ?_ ?_ h.cmap h.stack
    · simp only [okRes, List.length_cons, List.tail_cons] at hlen ⊢; omega
    · intro x hx
      exact hds x (List.mem_cons_of_mem _ hx)
    · intro x hx
      rcases List.mem_cons.mp hx with rfl | hx
      · exact hds _ (List.mem_cons_self)
      · exact h.ghost x hx


/-! ### allocating operators -/

theorem shapeAt_push_self (h : Array Cell) (c : Cell) : shapeAt (h.push c) h.size = some (shape c) := by
  rw [shapeAt_push, if_pos rfl]

theorem objOK_push {h : Array Cell} {res : Nat} (c : Cell) {o : Obj} (ok : objOK h res o) :
    objOK (h.push c) res o := objOK_mono (ext_push h c) ok

/-- one cell was appended -/
theorem Post.alloc {v v' : VM} {c : Cell} (h : WF v) (okc : cellOK v.heap v.roots.resources c)
    (hh : v'.heap = v.heap.push c) (hr : v'.roots = v.roots)
    (hd : v'.dictStack = v.dictStack) (hg : v'.dictGhost = v.dictGhost)
    (hc : v'.cmapMappings = v.cmapMappings)
    (hst : ∀ o ∈ v'.stack, objOK (v.heap.push c) v.roots.resources o) : Post v (v', .ok) where
  wf := h.update hr (by rw [hh]; exact ext_push _ _) (by rw [hh]; exact heapOK_push h.heap okc)
    (by rw [hh]; exact dictAt_push _ (shapeAt_lt h.rRes)) hd hg hc (by rw [hh]; exact hst)
  ext := by show Ext v.heap v'.heap; rw [hh]; exact ext_push _ _
  roots := hr
  nopanic := noPanic_ok

theorem mem_of_mem_extract {α : Type} {a : Array α} {s e : Nat} {x : α} (h : x ∈ a.extract s e) : x ∈ a := by
  obtain ⟨i, hi, rfl⟩ := Array.mem_iff_getElem.mp h
  rw [Array.getElem_extract]
  exact Array.getElem_mem _

theorem dictInsert_mem {d : List (Name × Obj)} {k : Name} {x : Obj} {p : Name × Obj}
    (hp : p ∈ dictInsert d k x) : p ∈ d ∨ p = (k, x) := by
  unfold dictInsert at hp
  split at hp
  · obtain ⟨q, hq, rfl⟩ := List.mem_map.mp hp
    split
    · exact Or.inr rfl
    · exact Or.inl hq
  · rcases List.mem_append.mp hp with h | h
    · exact Or.inl h
    · exact Or.inr (by simpa using h)

theorem dictInsert_ok {P : Obj → Prop} {d : List (Name × Obj)} {k : Name} {x : Obj}
    (hd : ∀ p ∈ d, P p.2) (hx : P x) : ∀ p ∈ dictInsert d k x, P p.2 := by
  intro p hp
  rcases dictInsert_mem hp with h | rfl
  · exact hd p h
  · exact hx

theorem fillDict_ok {P : Obj → Prop} : ∀ (n : Nat) (l : List Obj) (d d' : List (Name × Obj)), l.length ≤ n →
    fillDict l d = some d' → (∀ o ∈ l, P o) → (∀ p ∈ d, P p.2) → ∀ p ∈ d', P p.2 := by
  intro n
  induction n with
  | zero =>
    intro l d d' hl e _ hd
    match l, hl, e with
    | [], _, e => simp only [fillDict, Option.some.injEq] at e; subst e; exact hd
  | succ n ih =>
    intro l d d' hl e hl' hd
    unfold fillDict at e
    split at e
    · simp only [Option.some.injEq] at e; subst e; exact hd
    · next k x rest =>
      simp only [List.forall_mem_cons] at hl'
      simp only [List.length_cons] at hl
      exact ih rest _ d' (by omega) e hl'.2.2 (dictInsert_ok hd hl'.2.1)
    · simp at e

theorem bListEnd_post (v : VM) (h : WF v) : Post v (bListEnd v) := by
  obtain ⟨st, ds, dg, hp, cm, c1, c2, c3, roots⟩ := v
  unfold bListEnd
  dsimp only
  split
  · wf_leaf h
  · next a b e =>
    obtain ⟨ha, hb⟩ := toMark_mem e
    have hs := h.stack
    refine Post.alloc (c := .objs a.reverse.toArray) h ?_ rfl rfl rfl rfl rfl ?_
    · simp only [cellOK, List.mem_toArray, List.mem_reverse]
      exact fun o ho => hs o (ha o ho)
    · simp only [VM.alloc, okRes, List.forall_mem_cons]
      refine ⟨?_, fun o ho => objOK_push _ (hs o (hb o ho))⟩
      simp only [objOK]
      exact ⟨_, shapeAt_push_self _ _, by simp [shape]⟩

theorem bDictEnd_post (v : VM) (h : WF v) : Post v (bDictEnd v) := by
  obtain ⟨st, ds, dg, hp, cm, c1, c2, c3, roots⟩ := v
  unfold bDictEnd
  dsimp only
  split
  · wf_leaf h
  · next a b e =>
    obtain ⟨ha, hb⟩ := toMark_mem e
    have hs := h.stack
    split
    · wf_leaf h
    · split
      · wf_leaf h
      · next d hd =>
        refine Post.alloc (c := .dict d) h ?_ rfl rfl rfl rfl rfl ?_
        · simp only [cellOK]
          refine fillDict_ok _ _ _ _ (Nat.le_refl _) hd ?_ (by simp)
          intro o ho
          exact hs o (ha o (List.mem_reverse.mp ho))
        · simp only [VM.alloc, okRes, List.forall_mem_cons]
          refine ⟨?_, fun o ho => objOK_push _ (hs o (hb o ho))⟩
          simp only [objOK]
          exact ⟨shapeAt_push_self _ _, Nat.ne_of_gt (shapeAt_lt h.rRes)⟩

theorem bArray_post (v : VM) (h : WF v) : Post v (bArray v) := by
  obtain ⟨st, ds, dg, hp, cm, c1, c2, c3, roots⟩ := v
  unfold bArray
  dsimp only
  split
  · wf_leaf h
  · next n rest =>
    have hs := h.stack
    simp only [List.forall_mem_cons] at hs
    split
    · wf_leaf h
    · split
      · wf_leaf h
      · refine Post.alloc (c := .objs (Array.replicate n.toNat .file)) h ?_ rfl rfl rfl rfl rfl ?_
        · simp only [cellOK, Array.mem_replicate]
          rintro o ⟨-, rfl⟩
          simp [objOK]
        · simp only [VM.alloc, okRes, VM.push, List.forall_mem_cons]
          refine ⟨?_, fun o ho => objOK_push _ (hs.2 o ho)⟩
          simp only [objOK]
          exact ⟨_, shapeAt_push_self _ _, by simp [shape]⟩
  · wf_leaf h

theorem bString_post (v : VM) (h : WF v) : Post v (bString v) := by
  obtain ⟨st, ds, dg, hp, cm, c1, c2, c3, roots⟩ := v
  unfold bString
  dsimp only
  split
  · wf_leaf h
  · next n rest =>
    have hs := h.stack
    simp only [List.forall_mem_cons] at hs
    split
    · wf_leaf h
    · split
      · wf_leaf h
      · refine Post.alloc (c := .bytes (Array.replicate n.toNat 0)) h ?_ rfl rfl rfl rfl rfl ?_
        · simp only [cellOK]
        · simp only [VM.alloc, okRes, VM.push, List.forall_mem_cons]
          refine ⟨?_, fun o ho => objOK_push _ (hs.2 o ho)⟩
          simp only [objOK]
          exact ⟨_, shapeAt_push_self _ _, by simp [shape]⟩
  · wf_leaf h

theorem bDict_post (v : VM) (h : WF v) : Post v (bDict v) := by
  obtain ⟨st, ds, dg, hp, cm, c1, c2, c3, roots⟩ := v
  unfold bDict
  dsimp only
  split
  · wf_leaf h
  · next n rest =>
    have hs := h.stack
    simp only [List.forall_mem_cons] at hs
    split
    · wf_leaf h
    · split
      · wf_leaf h
      · refine Post.alloc (c := .dict []) h ?_ rfl rfl rfl rfl rfl ?_
        · simp [cellOK]
        · simp only [VM.alloc, okRes, VM.push, List.forall_mem_cons]
          refine ⟨?_, fun o ho => objOK_push _ (hs.2 o ho)⟩
          simp only [objOK]
          exact ⟨shapeAt_push_self _ _, Nat.ne_of_gt (shapeAt_lt h.rRes)⟩
  · wf_leaf h

theorem bMatrix_post (v : VM) (h : WF v) : Post v (bMatrix v) := by
  obtain ⟨st, ds, dg, hp, cm, c1, c2, c3, roots⟩ := v
  unfold bMatrix
  dsimp only
  have hs := h.stack
  refine Post.alloc (c := .objs #[.int 1, .int 0, .int 0, .int 1, .int 0, .int 0]) h ?_ rfl rfl rfl rfl rfl ?_
  · simp [cellOK, objOK]
  · simp only [VM.alloc, okRes, VM.push, List.forall_mem_cons]
    refine ⟨?_, fun o ho => objOK_push _ (hs o ho)⟩
    simp only [objOK]
    exact ⟨_, shapeAt_push_self _ _, by simp [shape]⟩

theorem bCvx_post (v : VM) (h : WF v) : Post v (bCvx v) := by
  obtain ⟨st, ds, dg, hp, cm, c1, c2, c3, roots⟩ := v
  unfold bCvx
  dsimp only
  split
  · wf_leaf h
  · next r o l rest =>
    have hs := h.stack
    simp only [List.forall_mem_cons, objOK] at hs
    obtain ⟨⟨n, hn, hle⟩, hrest⟩ := hs
    obtain ⟨hsz, hok⟩ := objsAt_ok h.heap hn
    refine Post.alloc (c := .objs (VM.viewObjs _ r o l).toArray) h ?_ rfl rfl rfl rfl rfl ?_
    · simp only [cellOK, List.mem_toArray, VM.viewObjs, Array.mem_toList_iff]
      exact fun x hx => hok x (mem_of_mem_extract hx)
    · simp only [VM.alloc, okRes, List.forall_mem_cons]
      refine ⟨?_, fun o ho => objOK_push _ (hrest o ho)⟩
      simp only [objOK]
      refine ⟨_, shapeAt_push_self _ _, ?_⟩
      simp only [shape, VM.viewObjs, List.size_toArray, Array.length_toList, Array.size_extract, getObjs_eq]
      dsimp only at hsz ⊢
      omega
  · wf_leaf h


/-! ### writing operators -/

theorem ne_res_of_shape {v : VM} (h : WF v) {r : Nat} {s : Shape} (hs : shapeAt v.heap r = some s)
    (hd : s ≠ .dict) : r ≠ v.roots.resources := by
  rintro rfl
  rw [h.rRes] at hs
  exact hd (Option.some.inj hs).symm

/-- one cell was overwritten by a cell of the same shape -/
theorem Post.set {v v' : VM} {r : Nat} {c : Cell} {res : Res} (h : WF v)
    (hs : shapeAt v.heap r = some (shape c)) (okc : cellOK v.heap v.roots.resources c)
    (hne : r ≠ v.roots.resources)
    (hh : v'.heap = v.heap.setIfInBounds r c) (hr : v'.roots = v.roots)
    (hd : v'.dictStack = v.dictStack) (hg : v'.dictGhost = v.dictGhost)
    (hc : v'.cmapMappings = v.cmapMappings)
    (hst : ∀ o ∈ v'.stack, objOK v.heap v.roots.resources o) (hn : NoPanic res) : Post v (v', res) where
  wf := h.update hr (by rw [hh]; exact ext_set hs) (by rw [hh]; exact heapOK_set h.heap hs okc)
    (by rw [hh]; exact dictAt_set_ne _ hne) hd hg hc
    (by rw [hh]; exact fun o ho => objOK_mono (ext_set hs) (hst o ho))
  ext := by show Ext v.heap v'.heap; rw [hh]; exact ext_set hs
  roots := hr
  nopanic := hn

theorem Post.dictPut {v v' : VM} {r : Nat} {k : Name} {x : Obj} (h : WF v)
    (hr : isDictRef v.heap v.roots.resources r) (hx : objOK v.heap v.roots.resources x)
    (hh : v'.heap = (v.dictPut r k x).heap) (hro : v'.roots = v.roots)
    (hd : v'.dictStack = v.dictStack) (hg : v'.dictGhost = v.dictGhost)
    (hc : v'.cmapMappings = v.cmapMappings)
    (hst : ∀ o ∈ v'.stack, objOK v.heap v.roots.resources o) : Post v (v', .ok) :=
  Post.set (c := .dict (dictInsert (v.getDict r) k x)) h hr.1
    (dictInsert_ok (dictAt_ok h.heap hr.1) hx) hr.2 hh hro hd hg hc hst noPanic_ok

theorem writeAt_cons {α : Type} (a : Array α) (off : Nat) (x : α) (xs : List α) :
    writeAt a off (x :: xs) = writeAt (a.setIfInBounds off x) (off + 1) xs := rfl

theorem writeAt_size {α : Type} : ∀ (vals : List α) (a : Array α) (off : Nat), (writeAt a off vals).size = a.size := by
  intro vals
  induction vals with
  | nil => intro a off; rfl
  | cons x xs ih => intro a off; rw [writeAt_cons, ih, Array.size_setIfInBounds]

theorem writeAt_mem {α : Type} : ∀ (vals : List α) (a : Array α) (off : Nat) (x : α),
    x ∈ writeAt a off vals → x ∈ a ∨ x ∈ vals := by
  intro vals
  induction vals with
  | nil => intro a off x hx; exact Or.inl hx
  | cons y ys ih =>
    intro a off x hx
    rw [writeAt_cons] at hx
    rcases ih _ _ _ hx with h | h
    · rcases Array.mem_or_eq_of_mem_setIfInBounds h with h | rfl
      · exact Or.inl h
      · exact Or.inr (List.mem_cons_self)
    · exact Or.inr (List.mem_cons_of_mem _ h)

theorem viewObjs_ok {v : VM} (h : WF v) {r o l n : Nat} (hs : shapeAt v.heap r = some (.objs n)) :
    ∀ x ∈ v.viewObjs r o l, objOK v.heap v.roots.resources x := by
  intro x hx
  simp only [VM.viewObjs, Array.mem_toList_iff] at hx
  exact (objsAt_ok h.heap hs).2 x (mem_of_mem_extract hx)

theorem foldl_dictInsert_ok {P : Obj → Prop} : ∀ (src d : List (Name × Obj)),
    (∀ p ∈ src, P p.2) → (∀ p ∈ d, P p.2) →
    ∀ p ∈ src.foldl (fun acc kv => dictInsert acc kv.1 kv.2) d, P p.2 := by
  intro src
  induction src with
  | nil => intro d _ hd; exact hd
  | cons q qs ih =>
    intro d hs hd
    simp only [List.forall_mem_cons] at hs
    exact ih _ hs.2 (dictInsert_ok hd hs.1)

theorem Post.ite {v : VM} {c : Prop} [Decidable c] {a b : VM × Res} (ha : Post v a) (hb : Post v b) :
    Post v (if c then a else b) := by
  split <;> assumption

theorem bDef_post (v : VM) (h : WF v) : Post v (bDef v) := by
  obtain ⟨st, ds, dg, hp, cm, c1, c2, c3, roots⟩ := v
  unfold bDef
  dsimp only
  split
  · next x k rest =>
    have hs := h.stack
    simp only [List.forall_mem_cons] at hs
    split
    · split
      · have := h.dsLen; simp at this
      · next d _ =>
        exact Post.dictPut h (h.ds d List.mem_cons_self) hs.1 rfl rfl rfl rfl rfl hs.2.2
    · wf_leaf h
  · wf_leaf h

theorem bDefinefont_post (v : VM) (h : WF v) : Post v (bDefinefont v) := by
  obtain ⟨st, ds, dg, hp, cm, c1, c2, c3, roots⟩ := v
  unfold bDefinefont
  dsimp only
  split
  · next font k rest =>
    have hs := h.stack
    simp only [List.forall_mem_cons] at hs
    split
    · split
      · refine Post.dictPut h h.rFont hs.1 rfl rfl rfl rfl rfl ?_
        simp only [List.forall_mem_cons]
        exact ⟨hs.1, hs.2.2⟩
      · wf_leaf h
    · wf_leaf h
  · wf_leaf h

theorem bDefineresource_post (v : VM) (h : WF v) : Post v (bDefineresource v) := by
  obtain ⟨st, ds, dg, hp, cm, c1, c2, c3, roots⟩ := v
  unfold bDefineresource
  dsimp only
  split
  · next cls inst key rest =>
    have hs := h.stack
    simp only [List.forall_mem_cons] at hs
    split
    · split
      · split
        · next cd hcd =>
          obtain ⟨r, hr, hdr⟩ := resGet_dict h hcd
          cases hr
          refine Post.ite ?_ ?_
          · wf_leaf h
          · refine Post.dictPut h hdr hs.2.1 rfl rfl rfl rfl rfl ?_
            simp only [List.forall_mem_cons]
            exact ⟨hs.2.1, hs.2.2.2⟩
        · wf_leaf h
      · wf_leaf h
    · wf_leaf h
  · wf_leaf h


theorem put_objs {v v' : VM} {r o l : Nat} {i : Int} {x : Obj} (h : WF v)
    (hv : ∃ n, shapeAt v.heap r = some (.objs n) ∧ o + l ≤ n) (hx : objOK v.heap v.roots.resources x)
    (hh : v'.heap = v.heap.setIfInBounds r (.objs ((v.getObjs r).setIfInBounds (o + i.toNat) x)))
    (hr : v'.roots = v.roots) (hd : v'.dictStack = v.dictStack) (hg : v'.dictGhost = v.dictGhost)
    (hc : v'.cmapMappings = v.cmapMappings)
    (hst : ∀ o ∈ v'.stack, objOK v.heap v.roots.resources o) : Post v (v', .ok) := by
  obtain ⟨n, hn, hle⟩ := hv
  obtain ⟨hsz, hok⟩ := objsAt_ok h.heap hn
  refine Post.set h ?_ ?_ (ne_res_of_shape h hn (by simp)) hh hr hd hg hc hst noPanic_ok
  · simp only [shape, Array.size_setIfInBounds, getObjs_eq, hsz]; exact hn
  · intro y hy
    rcases Array.mem_or_eq_of_mem_setIfInBounds hy with hy | rfl
    · exact hok y hy
    · exact hx

theorem put_bytes {v v' : VM} {r n : Nat} {a : Array UInt8} {res : Res} (h : WF v)
    (hn : shapeAt v.heap r = some (.bytes n)) (ha : a.size = (v.getBytes r).size)
    (hh : v'.heap = v.heap.setIfInBounds r (.bytes a))
    (hr : v'.roots = v.roots) (hd : v'.dictStack = v.dictStack) (hg : v'.dictGhost = v.dictGhost)
    (hc : v'.cmapMappings = v.cmapMappings)
    (hst : ∀ o ∈ v'.stack, objOK v.heap v.roots.resources o) (hnp : NoPanic res) : Post v (v', res) := by
  obtain ⟨b, hb, hsz, hq⟩ := cell_of_shape_bytes hn
  refine Post.set h ?_ ?_ (ne_res_of_shape h hn (by simp)) hh hr hd hg hc hst hnp
  · rw [getBytes_eq, hq] at ha
    simp only [shape, ha, hsz]; exact hn
  · simp only [cellOK]

theorem put_writeAt {v v' : VM} {r n off : Nat} {vals : List Obj} (h : WF v)
    (hn : shapeAt v.heap r = some (.objs n)) (hvals : ∀ x ∈ vals, objOK v.heap v.roots.resources x)
    (hh : v'.heap = v.heap.setIfInBounds r (.objs (writeAt (v.getObjs r) off vals)))
    (hr : v'.roots = v.roots) (hd : v'.dictStack = v.dictStack) (hg : v'.dictGhost = v.dictGhost)
    (hc : v'.cmapMappings = v.cmapMappings)
    (hst : ∀ o ∈ v'.stack, objOK v.heap v.roots.resources o) : Post v (v', .ok) := by
  obtain ⟨hsz, hok⟩ := objsAt_ok h.heap hn
  refine Post.set h ?_ ?_ (ne_res_of_shape h hn (by simp)) hh hr hd hg hc hst noPanic_ok
  · simp only [shape, writeAt_size, getObjs_eq, hsz]; exact hn
  · intro y hy
    rcases writeAt_mem _ _ _ _ hy with hy | hy
    · exact hok y hy
    · exact hvals y hy

theorem bPut_post (v : VM) (h : WF v) : Post v (bPut v) := by
  obtain ⟨st, ds, dg, hp, cm, c1, c2, c3, roots⟩ := v
  unfold bPut
  dsimp only
  split
  · next value sel obj rest =>
    have hs := h.stack
    simp only [List.forall_mem_cons] at hs
    obtain ⟨hval, -, hobj, hrest⟩ := hs
    split
    · split
      · split
        · wf_leaf h
        · exact put_objs h hobj hval rfl rfl rfl rfl rfl hrest
      · wf_leaf h
    · split
      · split
        · wf_leaf h
        · exact put_objs h hobj hval rfl rfl rfl rfl rfl hrest
      · wf_leaf h
    · split
      · exact Post.dictPut h hobj hval rfl rfl rfl rfl rfl hrest
      · wf_leaf h
    · split
      · split
        · wf_leaf h
        · split
          · split
            · wf_leaf h
            · obtain ⟨n, hn, -⟩ := hobj
              exact put_bytes h hn (Array.size_setIfInBounds) rfl rfl rfl rfl rfl hrest noPanic_ok
          · wf_leaf h
      · wf_leaf h
    · wf_leaf h
  · wf_leaf h

theorem bPutinterval_post (v : VM) (h : WF v) : Post v (bPutinterval v) := by
  obtain ⟨st, ds, dg, hp, cm, c1, c2, c3, roots⟩ := v
  unfold bPutinterval
  dsimp only
  split
  · next src idx dst rest =>
    have hs := h.stack
    simp only [List.forall_mem_cons] at hs
    obtain ⟨hsrc, -, hdst, hrest⟩ := hs
    split
    · split
      · wf_leaf h
      · split
        · split
          · split
            · wf_leaf h
            · obtain ⟨n, hn, -⟩ := hdst
              obtain ⟨n2, hn2, -⟩ := hsrc
              exact put_writeAt h hn (viewObjs_ok h hn2) rfl rfl rfl rfl rfl hrest
          · wf_leaf h
        · split
          · split
            · wf_leaf h
            · obtain ⟨n, hn, -⟩ := hdst
              exact put_bytes h hn (writeAt_size _ _ _) rfl rfl rfl rfl rfl hrest noPanic_ok
          · wf_leaf h
        · wf_leaf h
    · wf_leaf h
  · wf_leaf h

theorem bCopy_post (v : VM) (h : WF v) : Post v (bCopy v) := by
  obtain ⟨st, ds, dg, hp, cm, c1, c2, c3, roots⟩ := v
  unfold bCopy
  dsimp only
  split
  · wf_leaf h
  · next n rest =>
    split
    · wf_leaf h
    · split
      · wf_leaf h
      · refine Post.same h rfl rfl rfl rfl rfl ?_ noPanic_ok
        have hs := h.stack
        simp only [List.forall_mem_cons] at hs
        intro x hx
        rcases List.mem_append.mp hx with hx | hx
        · exact hs.2 x (List.mem_of_mem_take hx)
        · exact hs.2 x hx
  · next b a rest _ =>
    have hs := h.stack
    simp only [List.forall_mem_cons] at hs
    obtain ⟨hb, ha, hrest⟩ := hs
    split
    · split
      · split
        · wf_leaf h
        · next hl =>
          obtain ⟨n, hn, hle⟩ := hb
          obtain ⟨n2, hn2, -⟩ := ha
          refine put_writeAt h hn (viewObjs_ok h hn2) rfl rfl rfl rfl rfl ?_
          simp only [VM.push, List.forall_mem_cons, objOK]
          exact ⟨⟨n, hn, by omega⟩, hrest⟩
      · wf_leaf h
    · split
      · refine Post.set (c := .dict _) h hb.1 ?_ hb.2 rfl rfl rfl rfl rfl ?_ noPanic_ok
        · exact foldl_dictInsert_ok _ _ (dictAt_ok h.heap ha.1) (dictAt_ok h.heap hb.1)
        · simp only [VM.push, List.forall_mem_cons]
          exact ⟨hb, hrest⟩
      · wf_leaf h
    · split
      · split
        · wf_leaf h
        · next hl =>
          obtain ⟨n, hn, hle⟩ := hb
          refine put_bytes h hn (writeAt_size _ _ _) rfl rfl rfl rfl rfl ?_ noPanic_ok
          simp only [VM.push, List.forall_mem_cons, objOK]
          exact ⟨⟨n, hn, by omega⟩, hrest⟩
      · wf_leaf h
    · wf_leaf h
  · wf_leaf h


/-! ### `bind` -/

theorem Post.refl {v : VM} (h : WF v) {r : Res} (hn : NoPanic r) : Post v (v, r) :=
  ⟨h, Ext.refl _, rfl, hn⟩

theorem Post.seq {v v1 : VM} {r1 : Res} {p : VM × Res} (h1 : Post v (v1, r1)) (h2 : Post v1 p) : Post v p :=
  ⟨h2.wf, Ext.trans h1.ext h2.ext, h2.roots.trans h1.roots, h2.nopanic⟩

theorem Post.withRes {v v1 : VM} {r1 : Res} (h1 : Post v (v1, r1)) {r : Res} (hn : NoPanic r) : Post v (v1, r) :=
  ⟨h1.wf, h1.ext, h1.roots, hn⟩

theorem noPanic_fuel : NoPanic .fuel := by intro s; simp

/-- overwrite one element of an `.objs` cell -/
theorem set_elem {v : VM} {ref n k : Nat} {x : Obj} {res : Res} (h : WF v)
    (hn : shapeAt v.heap ref = some (.objs n)) (hx : objOK v.heap v.roots.resources x) (hnp : NoPanic res) :
    Post v (v.setCell ref (.objs ((v.getObjs ref).setIfInBounds k x)), res) := by
  obtain ⟨hsz, hok⟩ := objsAt_ok h.heap hn
  refine Post.set h ?_ ?_ (ne_res_of_shape h hn (by simp)) rfl rfl rfl rfl rfl h.stack hnp
  · simp only [shape, Array.size_setIfInBounds, getObjs_eq, hsz]; exact hn
  · intro y hy
    rcases Array.mem_or_eq_of_mem_setIfInBounds hy with hy | rfl
    · exact hok y hy
    · exact hx

/-- `WF` does not look at the scratch set of `bind` -/
theorem wf_bindSeen {v : VM} (h : WF v) (x : List (Nat × Nat × Nat)) : WF { v with bindSeen := x } :=
  h.update rfl (Ext.refl _) h.heap rfl rfl rfl rfl h.stack

theorem post_bindSeen {v : VM} (h : WF v) (x : List (Nat × Nat × Nat)) {r : Res} (hn : NoPanic r) :
    Post v ({ v with bindSeen := x }, r) :=
  ⟨wf_bindSeen h x, Ext.refl _, rfl, hn⟩

def BindProcOK (fuel : Nat) : Prop :=
  ∀ (v : VM) (ref off len depth : Nat), WF v →
    (∃ n, shapeAt v.heap ref = some (.objs n) ∧ off + len ≤ n) → Post v (bindProc fuel v ref off len depth)

def BindLoopOK (fuel : Nat) : Prop :=
  ∀ (v : VM) (ref off depth i todo : Nat), WF v →
    (∃ n, shapeAt v.heap ref = some (.objs n) ∧ off + i + todo ≤ n) → Post v (bindLoop fuel v ref off depth i todo)

theorem bindLoop_step {fuel : Nat} (ihP : BindProcOK fuel) (ihL : BindLoopOK fuel) : BindLoopOK (fuel + 1) := by
  intro v ref off depth i todo h hv
  obtain ⟨n, hn, hle⟩ := hv
  cases todo with
  | zero => simp only [bindLoop]; exact Post.refl h noPanic_ok
  | succ todo =>
    simp only [bindLoop]
    obtain ⟨hsz, hok⟩ := objsAt_ok h.heap hn
    split
    · next hnone =>
      exfalso
      rw [Array.getElem?_eq_none_iff, getObjs_eq, hsz] at hnone
      omega
    · next elem he =>
      have helem : objOK v.heap v.roots.resources elem := hok elem (Array.mem_of_getElem? he)
      have hnext : ∃ n, shapeAt v.heap ref = some (.objs n) ∧ off + (i + 1) + todo ≤ n := ⟨n, hn, by omega⟩
      split
      · next nm =>
        split
        · next b hb =>
          have hbok := lookupName_ok h hb
          have p1 : Post v (v.setCell ref (.objs ((v.getObjs ref).setIfInBounds (off + i) (.builtin b))), .ok) :=
            set_elem h hn hbok noPanic_ok
          exact p1.seq (ihL _ ref off depth (i + 1) todo p1.wf ⟨n, p1.ext _ _ hn, by omega⟩)
        · exact ihL v ref off depth (i + 1) todo h hnext
      · next r o l =>
        obtain ⟨m, hm, hml⟩ := helem
        have p2 := ihP v r o l (depth + 1) h ⟨m, hm, hml⟩
        generalize bindProc fuel v r o l (depth + 1) = p at p2 ⊢
        obtain ⟨s2, res⟩ := p
        split
        · exact p2.seq (ihL s2 ref off depth (i + 1) todo p2.wf ⟨n, p2.ext _ _ hn, by omega⟩)
        · exact p2
      · exact ihL v ref off depth (i + 1) todo h hnext

theorem bindProc_step {fuel : Nat} (ihL : BindLoopOK fuel) : BindProcOK (fuel + 1) := by
  intro v ref off len depth h hv
  simp only [bindProc]
  split
  · exact Post.refl h (noPanic_ps _)
  · split
    · exact Post.refl h noPanic_ok
    · split
      · exact Post.refl h noPanic_ok
      · obtain ⟨n, hn, hle⟩ := hv
        exact (post_bindSeen h _ noPanic_ok).seq
          (ihL _ ref off depth 0 len (wf_bindSeen h _) ⟨n, hn, by omega⟩)

theorem bind_ok : ∀ fuel, BindProcOK fuel ∧ BindLoopOK fuel := by
  intro fuel
  induction fuel with
  | zero =>
    refine ⟨?_, ?_⟩
    · intro v ref off len depth h _; simp only [bindProc]; exact Post.refl h noPanic_fuel
    · intro v ref off depth i todo h _; simp only [bindLoop]; exact Post.refl h noPanic_fuel
  | succ n ih => exact ⟨bindProc_step ih.2, bindLoop_step ih.1 ih.2⟩

theorem bBind_post (v : VM) (h : WF v) : Post v (bBind v) := by
  unfold bBind
  split
  · exact Post.refl h (noPanic_ps _)
  · next r o l rest hst =>
    have hs := h.stack
    rw [hst] at hs
    have p0 : Post v ({ v with bindSeen := [] }, .ok) := post_bindSeen h [] noPanic_ok
    have p1 := (bind_ok ((heapSlots v + 2) * (maxBindDepth + 3))).1 { v with bindSeen := [] } r o l 0 p0.wf
      (hs _ List.mem_cons_self)
    generalize bindProc ((heapSlots v + 2) * (maxBindDepth + 3)) { v with bindSeen := [] } r o l 0 = p at p1 ⊢
    obtain ⟨s', res⟩ := p
    exact p0.seq (p1.seq (post_bindSeen p1.wf [] p1.nopanic))
  · exact Post.refl h (noPanic_ps _)

/-- `bind` leaves its scratch set empty -/
theorem bBind_bindSeen (v : VM) (h0 : v.bindSeen = []) : (bBind v).1.bindSeen = [] := by
  unfold bBind
  split
  · exact h0
  · rfl
  · exact h0

/-! ### the CIDInit operators -/

theorem bBegincmap_post (v : VM) (h : WF v) : Post v (bBegincmap v) := by
  obtain ⟨st, ds, dg, hp, cm, c1, c2, c3, roots⟩ := v
  unfold bBegincmap
  simp only [VM.alloc, okRes]
  have hext : Ext hp (hp.push (.cmap {})) := ext_push _ _
  refine ⟨?_, hext, rfl, noPanic_ok⟩
  refine h.update' rfl hext (heapOK_push h.heap ?_) (dictAt_push _ (shapeAt_lt h.rRes)) h.dsLen
    (fun r hr => isDictRef_mono hext (h.ds r hr)) (fun r hr => isDictRef_mono hext (h.ghost r hr)) ?_
    (fun o ho => objOK_mono hext (h.stack o ho))
  · simp [cellOK, cmapOK]
  · intro r hr
    simp only [Option.some.injEq] at hr
    subst hr
    exact shapeAt_push_self _ _

theorem Post.setCMap {v v' : VM} {r : Nat} {c : CMapInfo} {res : Res} (h : WF v)
    (hs : shapeAt v.heap r = some .cmap) (okc : cmapOK v.heap v.roots.resources c)
    (hh : v'.heap = v.heap.setIfInBounds r (.cmap c)) (hr : v'.roots = v.roots)
    (hd : v'.dictStack = v.dictStack) (hg : v'.dictGhost = v.dictGhost)
    (hc : v'.cmapMappings = v.cmapMappings)
    (hst : ∀ o ∈ v'.stack, objOK v.heap v.roots.resources o) (hn : NoPanic res) : Post v (v', res) :=
  Post.set (c := .cmap c) h hs okc (ne_res_of_shape h hs (by simp)) hh hr hd hg hc hst hn

theorem wf_clearCMap {v : VM} (h : WF v) : WF { v with cmapMappings := none } :=
  h.update' rfl (Ext.refl _) h.heap rfl h.dsLen h.ds h.ghost (by intro r hr; simp at hr) h.stack

theorem bUsecmap_post (v : VM) (h : WF v) : Post v (bUsecmap v) := by
  obtain ⟨st, ds, dg, hp, cm, c1, c2, c3, roots⟩ := v
  unfold bUsecmap withCMap
  dsimp only
  split
  · wf_leaf h
  · next r =>
    have hcm := h.cmap r rfl
    have hs := h.stack
    split
    · wf_leaf h
    · next n rest =>
      simp only [List.forall_mem_cons] at hs
      exact Post.setCMap (c := { cmapAt hp r with useCMap := n }) h hcm (cmapAt_ok h.heap hcm)
        rfl rfl rfl rfl rfl hs.2 noPanic_ok
    · wf_leaf h

theorem bBegincodespacerange_post (v : VM) (h : WF v) : Post v (bBegincodespacerange v) := by
  obtain ⟨st, ds, dg, hp, cm, c1, c2, c3, roots⟩ := v
  unfold bBegincodespacerange beginBlock withCMap; wf_triv h

theorem bBeginChars_post (v : VM) (h : WF v) : Post v (bBeginChars v) := by
  obtain ⟨st, ds, dg, hp, cm, c1, c2, c3, roots⟩ := v
  unfold bBeginChars beginBlock withCMap; wf_triv h

theorem bBeginRanges_post (v : VM) (h : WF v) : Post v (bBeginRanges v) := by
  obtain ⟨st, ds, dg, hp, cm, c1, c2, c3, roots⟩ := v
  unfold bBeginRanges beginBlock withCMap; wf_triv h

theorem collectPairs_ok {P : Obj → Prop} (s : VM) (chk : Bool) : ∀ (n : Nat) (l : List Obj) (es : List CodeSpaceRange),
    l.length ≤ n → collectPairs s chk l = .ok es → (∀ o ∈ l, P o) → ∀ x ∈ es, P x.low ∧ P x.high := by
  intro n
  induction n with
  | zero =>
    intro l es hl e _
    match l, hl, e with
    | [], _, e => simp only [collectPairs, Except.ok.injEq] at e; subst e; simp
  | succ n ih =>
    intro l es hl e hP
    unfold collectPairs at e
    split at e
    · cases e; simp
    · next lo hi rest =>
      simp only [List.forall_mem_cons] at hP
      simp only [List.length_cons] at hl
      split at e; · exact nomatch e
      split at e; · exact nomatch e
      split at e; · exact nomatch e
      split at e; · exact nomatch e
      cases hrec : collectPairs s chk rest with
      | error x => simp [hrec, bind, Except.bind] at e
      | ok r =>
        simp only [hrec, bind, Except.bind, pure, Except.pure, Except.ok.injEq] at e
        subst e
        simp only [List.forall_mem_cons]
        exact ⟨⟨hP.1, hP.2.1⟩, ih rest r (by omega) hrec hP.2.2⟩
    · cases e; simp

theorem collectChars_ok {P : Obj → Prop} (valOk : Obj → Bool) : ∀ (n : Nat) (l : List Obj) (es : List CharMap),
    l.length ≤ n → collectChars valOk l = .ok es → (∀ o ∈ l, P o) → ∀ x ∈ es, P x.src ∧ P x.dst := by
  intro n
  induction n with
  | zero =>
    intro l es hl e _
    match l, hl, e with
    | [], _, e => simp only [collectChars, Except.ok.injEq] at e; subst e; simp
  | succ n ih =>
    intro l es hl e hP
    unfold collectChars at e
    split at e
    · cases e; simp
    · next code val rest =>
      simp only [List.forall_mem_cons] at hP
      simp only [List.length_cons] at hl
      split at e; · exact nomatch e
      split at e; · exact nomatch e
      cases hrec : collectChars valOk rest with
      | error x => simp [hrec, bind, Except.bind] at e
      | ok r =>
        simp only [hrec, bind, Except.bind, pure, Except.pure, Except.ok.injEq] at e
        subst e
        simp only [List.forall_mem_cons]
        exact ⟨⟨hP.1, hP.2.1⟩, ih rest r (by omega) hrec hP.2.2⟩
    · cases e; simp

theorem collectRanges_ok {P : Obj → Prop} (s : VM) (valOk : Obj → Bool) : ∀ (n : Nat) (l : List Obj) (es : List RangeMap),
    l.length ≤ n → collectRanges s valOk l = .ok es → (∀ o ∈ l, P o) → ∀ x ∈ es, P x.low ∧ P x.high ∧ P x.dst := by
  intro n
  induction n with
  | zero =>
    intro l es hl e _
    match l, hl, e with
    | [], _, e => simp only [collectRanges, Except.ok.injEq] at e; subst e; simp
  | succ n ih =>
    intro l es hl e hP
    unfold collectRanges at e
    split at e
    · cases e; simp
    · next lo hi val rest =>
      simp only [List.forall_mem_cons] at hP
      simp only [List.length_cons] at hl
      split at e; · exact nomatch e
      split at e; · exact nomatch e
      split at e; · exact nomatch e
      split at e; · exact nomatch e
      cases hrec : collectRanges s valOk rest with
      | error x => simp [hrec, bind, Except.bind] at e
      | ok r =>
        simp only [hrec, bind, Except.bind, pure, Except.pure, Except.ok.injEq] at e
        subst e
        simp only [List.forall_mem_cons]
        exact ⟨⟨hP.1, hP.2.1, hP.2.2.1⟩, ih rest r (by omega) hrec hP.2.2.2⟩
    · cases e; simp

theorem stack_take_rev_ok {v : VM} (h : WF v) (n : Nat) :
    ∀ o ∈ (v.stack.take n).reverse, objOK v.heap v.roots.resources o :=
  fun o ho => h.stack o (List.mem_of_mem_take (List.mem_reverse.mp ho))

theorem stack_drop_ok {v : VM} (h : WF v) (n : Nat) :
    ∀ o ∈ v.stack.drop n, objOK v.heap v.roots.resources o :=
  fun o ho => h.stack o (List.mem_of_mem_drop ho)

theorem bEndcodespacerange_post (v : VM) (h : WF v) : Post v (bEndcodespacerange v) := by
  unfold bEndcodespacerange withCMap
  dsimp only
  split
  · exact Post.refl h (noPanic_ps _)
  · next r hr =>
    have hcm := h.cmap r hr
    split
    · exact Post.refl h (noPanic_ps _)
    · split
      · exact Post.refl h (noPanic_ps _)
      · next es hes =>
        have hok := collectPairs_ok (P := objOK v.heap v.roots.resources) v true _ _ _ (Nat.le_refl _) hes
          (stack_take_rev_ok h _)
        obtain ⟨k1, k2, k3, k4, k5, k6, k7⟩ := cmapAt_ok h.heap hcm
        refine Post.setCMap h hcm ?_ rfl rfl rfl rfl rfl (stack_drop_ok h _) noPanic_ok
        refine ⟨?_, k2, k3, k4, k5, k6, k7⟩
        intro x hx
        rcases List.mem_append.mp hx with hx | hx
        · exact k1 x hx
        · exact hok x hx

theorem endChars_post (valOk : Obj → Bool) (add : CMapInfo → List CharMap → CMapInfo)
    (hadd : ∀ (hp : Array Cell) (res : Nat) (c : CMapInfo) (es : List CharMap), cmapOK hp res c →
      (∀ x ∈ es, objOK hp res x.src ∧ objOK hp res x.dst) → cmapOK hp res (add c es))
    (v : VM) (h : WF v) : Post v (endChars valOk add v) := by
  unfold endChars withCMap
  dsimp only
  split
  · exact Post.refl h (noPanic_ps _)
  · next r hr =>
    have hcm := h.cmap r hr
    split
    · exact Post.refl h (noPanic_ps _)
    · split
      · exact Post.refl h (noPanic_ps _)
      · next es hes =>
        have hok := collectChars_ok (P := objOK v.heap v.roots.resources) valOk _ _ _ (Nat.le_refl _) hes
          (stack_take_rev_ok h _)
        exact Post.setCMap h hcm (hadd _ _ _ _ (cmapAt_ok h.heap hcm) hok) rfl rfl rfl rfl rfl
          (stack_drop_ok h _) noPanic_ok

theorem endRanges_post (valOk : Obj → Bool) (add : CMapInfo → List RangeMap → CMapInfo)
    (hadd : ∀ (hp : Array Cell) (res : Nat) (c : CMapInfo) (es : List RangeMap), cmapOK hp res c →
      (∀ x ∈ es, objOK hp res x.low ∧ objOK hp res x.high ∧ objOK hp res x.dst) → cmapOK hp res (add c es))
    (v : VM) (h : WF v) : Post v (endRanges valOk add v) := by
  unfold endRanges withCMap
  dsimp only
  split
  · exact Post.refl h (noPanic_ps _)
  · next r hr =>
    have hcm := h.cmap r hr
    split
    · exact Post.refl h (noPanic_ps _)
    · split
      · exact Post.refl h (noPanic_ps _)
      · next es hes =>
        have hok := collectRanges_ok (P := objOK v.heap v.roots.resources) v valOk _ _ _ (Nat.le_refl _) hes
          (stack_take_rev_ok h _)
        exact Post.setCMap h hcm (hadd _ _ _ _ (cmapAt_ok h.heap hcm) hok) rfl rfl rfl rfl rfl
          (stack_drop_ok h _) noPanic_ok

macro "cmap_add" : tactic =>
  `(tactic| (intro hp res c es hc hes
             obtain ⟨k1, k2, k3, k4, k5, k6, k7⟩ := hc
             refine ⟨?_, ?_, ?_, ?_, ?_, ?_, ?_⟩ <;>
               first
               | assumption
               | (intro x hx
                  rcases List.mem_append.mp hx with hx | hx
                  · first | exact k1 x hx | exact k2 x hx | exact k3 x hx | exact k4 x hx | exact k5 x hx
                          | exact k6 x hx | exact k7 x hx
                  · exact hes x hx)))

theorem bEndcidchar_post (v : VM) (h : WF v) : Post v (bEndcidchar v) :=
  endChars_post _ _ (by cmap_add) v h
theorem bEndbfchar_post (v : VM) (h : WF v) : Post v (bEndbfchar v) :=
  endChars_post _ _ (by cmap_add) v h
theorem bEndnotdefchar_post (v : VM) (h : WF v) : Post v (bEndnotdefchar v) :=
  endChars_post _ _ (by cmap_add) v h
theorem bEndcidrange_post (v : VM) (h : WF v) : Post v (bEndcidrange v) :=
  endRanges_post _ _ (by cmap_add) v h
theorem bEndbfrange_post (v : VM) (h : WF v) : Post v (bEndbfrange v) :=
  endRanges_post _ _ (by cmap_add) v h
theorem bEndnotdefrange_post (v : VM) (h : WF v) : Post v (bEndnotdefrange v) :=
  endRanges_post _ _ (by cmap_add) v h


theorem endcmap_core {v : VM} (h : WF v) {d r : Nat} {c' : CMapInfo}
    (hd : isDictRef v.heap v.roots.resources d) (hr : shapeAt v.heap r = some .cmap)
    (hc : cmapOK v.heap v.roots.resources c') :
    Post v ({ ((setCMap v r c').dictPut d "CodeMap" (.cmapInfo r)) with cmapMappings := none }, .ok) := by
  have p1 : Post v (setCMap v r c', .ok) := Post.setCMap h hr hc rfl rfl rfl rfl rfl h.stack noPanic_ok
  have hd1 : isDictRef (setCMap v r c').heap (setCMap v r c').roots.resources d := isDictRef_mono p1.ext hd
  have hx : objOK (setCMap v r c').heap (setCMap v r c').roots.resources (.cmapInfo r) := p1.ext _ _ hr
  have p2 : Post (setCMap v r c') ((setCMap v r c').dictPut d "CodeMap" (.cmapInfo r), .ok) :=
    Post.dictPut p1.wf hd1 hx rfl rfl rfl rfl rfl p1.wf.stack
  have p3 : Post ((setCMap v r c').dictPut d "CodeMap" (.cmapInfo r))
      ({ ((setCMap v r c').dictPut d "CodeMap" (.cmapInfo r)) with cmapMappings := none }, .ok) :=
    ⟨wf_clearCMap p2.wf, Ext.refl _, rfl, noPanic_ok⟩
  exact p1.seq (p2.seq p3)

theorem bEndcmap_post (v : VM) (h : WF v) : Post v (bEndcmap v) := by
  unfold bEndcmap
  split
  · next d ds r hds hcm =>
    dsimp only [okRes]
    refine endcmap_core h (h.ds d (by rw [hds]; exact List.mem_cons_self)) (h.cmap r hcm) ?_
    simp only [cmapOK, List.mem_mergeSort]
    exact cmapAt_ok h.heap (h.cmap r hcm)
  · exact Post.refl h (noPanic_ps _)


theorem bGet_post (v : VM) (h : WF v) : Post v (bGet v) := by
  obtain ⟨st, ds, dg, hp, cm, c1, c2, c3, roots⟩ := v
  unfold bGet
  dsimp only
  split
  · next sel obj rest =>
    have hs := h.stack
    simp only [List.forall_mem_cons] at hs
    obtain ⟨-, hobj, hrest⟩ := hs
    have getObjs_case : ∀ (r o l : Nat) (i : Int), (∃ n, shapeAt hp r = some (.objs n) ∧ o + l ≤ n) →
        ¬ (i < 0 ∨ i ≥ l) →
        ∃ x, (objsAt hp r)[o + i.toNat]? = some x ∧ objOK hp roots.resources x := by
      intro r o l i ⟨n, hn, hle⟩ hi
      obtain ⟨hsz, hok⟩ := objsAt_ok h.heap hn
      dsimp only at hsz hok
      have hlt : o + i.toNat < (objsAt hp r).size := by omega
      exact ⟨_, Array.getElem?_eq_getElem hlt, hok _ (Array.getElem_mem _)⟩
    split
    · split
      · split
        · wf_leaf h
        · next hi =>
          obtain ⟨x, hx, hxok⟩ := getObjs_case _ _ _ _ hobj hi
          simp only [getObjs_eq, hx]
          wf_leaf h
      · wf_leaf h
    · split
      · split
        · wf_leaf h
        · next hi =>
          obtain ⟨x, hx, hxok⟩ := getObjs_case _ _ _ _ hobj hi
          simp only [getObjs_eq, hx]
          wf_leaf h
      · wf_leaf h
    · split
      · split
        · next x hx => have := dictGet_ok h hobj.1 hx; wf_leaf h
        · wf_leaf h
      · wf_leaf h
    · next r o l =>
      split
      · next i =>
        split
        · wf_leaf h
        · next hi =>
          obtain ⟨n, hn, hle⟩ := hobj
          obtain ⟨a, ha, hsz, hq⟩ := cell_of_shape_bytes hn
          have hlt : o + i.toNat < (bytesAt hp r).size := by rw [hq, hsz]; omega
          simp only [getBytes_eq, Array.getElem?_eq_getElem hlt]
          wf_leaf h
      · wf_leaf h
    · wf_leaf h
  · wf_leaf h


/-! ### all data operators -/

theorem cmapBuiltin_post (id : String) (v : VM) (p : VM × Res) (h : WF v) (e : cmapBuiltin id v = some p) :
    Post v p := by
  unfold cmapBuiltin at e
  split at e <;> first
    | (have e' := Option.some.inj e
       rw [← e']
       first
       | exact bBegincmap_post v h | exact bEndcmap_post v h | exact bUsecmap_post v h
       | exact bBegincodespacerange_post v h | exact bEndcodespacerange_post v h
       | exact bBeginChars_post v h | exact bBeginRanges_post v h
       | exact bEndcidchar_post v h | exact bEndbfchar_post v h | exact bEndnotdefchar_post v h
       | exact bEndcidrange_post v h | exact bEndbfrange_post v h | exact bEndnotdefrange_post v h)
    | (simp at e; done)

theorem pure_post (id : String) (v : VM) (p : VM × Res) (h : WF v) (e : pureBuiltin id v = some p) :
    Post v p := by
  unfold pureBuiltin at e
  split at e <;> first
    | exact cmapBuiltin_post id v p h e
    | (have e' := Option.some.inj e
       rw [← e']
       first
       | exact bMark_post v h | exact bListEnd_post v h | exact bDictEnd_post v h | exact bAbs_post v h
       | exact bAdd_post v h | exact bAnd_post v h | exact bArray_post v h | exact bBegin_post v h
       | exact bBind_post v h | exact bCleartomark_post v h | exact bClosefile_post v h
       | exact bCopy_post v h | exact bCount_post v h | exact bCurrentdict_post v h
       | exact bCurrentfile_post v h | exact bCvx_post v h | exact bDef_post v h
       | exact bDefinefont_post v h | exact bDefineresource_post v h | exact bDict_post v h
       | exact bDup_post v h | exact bEnd_post v h | exact bEq_post v h | exact bExch_post v h
       | exact bNop_post v h | exact exit_post v h | exact stop_post v h | exact bFindfont_post v h
       | exact bFindresource_post v h | exact bGet_post v h | exact bGetinterval_post v h
       | exact bIndex_post v h | exact bInternaldict_post v h | exact bKnown_post v h
       | exact bLength_post v h | exact bLoad_post v h | exact bMatrix_post v h
       | exact bMaxlength_post v h | exact bMul_post v h | exact bNe_post v h | exact bNot_post v h
       | exact bOr_post v h | exact bPop_post v h | exact bPut_post v h | exact bPutinterval_post v h
       | exact bRoll_post v h | exact bString_post v h | exact bSub_post v h | exact bType_post v h
       | exact bWhere_post v h)


/-! ### the initial state -/

theorem stdEnc_length : standardEncoding.length = 256 := by decide +kernel

theorem shapeAt_init_dict (r : Nat) (hr : r < 11) (h4 : r ≠ 4) : shapeAt initHeap r = some .dict := by
  match r, hr, h4 with
  | 0, _, _ => rfl
  | 1, _, _ => rfl
  | 2, _, _ => rfl
  | 3, _, _ => rfl
  | 5, _, _ => rfl
  | 6, _, _ => rfl
  | 7, _, _ => rfl
  | 8, _, _ => rfl
  | 9, _, _ => rfl
  | 10, _, _ => rfl

theorem shapeAt_init_stdEnc : shapeAt initHeap 4 = some (.objs 256) := by
  have : shapeAt initHeap 4 = some (.objs (standardEncoding.map Obj.name).toArray.size) := rfl
  rw [this, List.size_toArray, List.length_map, stdEnc_length]

theorem init_dictRef (r : Nat) (hr : r < 11) (h4 : r ≠ 4) (h9 : r ≠ 9) : isDictRef initHeap 9 r :=
  ⟨shapeAt_init_dict r hr h4, h9⟩

theorem wf_newVM : WF newVM where
  stack := by intro o ho; simp [newVM] at ho
  heap := by
    show heapOK initHeap 9
    intro c hc
    simp only [initHeap, List.mem_toArray, List.mem_cons, List.not_mem_nil, or_false] at hc
    rcases hc with rfl | rfl | rfl | rfl | rfl | rfl | rfl | rfl | rfl | rfl | rfl
    · intro p hp
      rcases List.mem_append.mp hp with hp | hp
      · obtain ⟨n, hn, rfl⟩ := List.mem_map.mp hp
        exact Or.inl hn
      · simp only [List.mem_cons, List.not_mem_nil, or_false] at hp
        rcases hp with rfl | rfl | rfl | rfl | rfl | rfl | rfl
        · exact init_dictRef 2 (by decide) (by decide) (by decide)
        · trivial
        · exact init_dictRef 3 (by decide) (by decide) (by decide)
        · exact ⟨256, shapeAt_init_stdEnc, by decide⟩
        · trivial
        · exact init_dictRef 1 (by decide) (by decide) (by decide)
        · exact init_dictRef 0 (by decide) (by decide) (by decide)
    · intro p hp; simp at hp
    · intro p hp
      obtain ⟨n, hn, rfl⟩ := List.mem_map.mp hp
      exact Or.inr (Or.inr rfl)
    · intro p hp; simp at hp
    · intro o ho
      simp only [List.mem_toArray, List.mem_map] at ho
      obtain ⟨n, hn, rfl⟩ := ho
      trivial
    · intro p hp; simp at hp
    · intro p hp; simp at hp
    · intro p hp
      obtain ⟨n, hn, rfl⟩ := List.mem_map.mp hp
      exact Or.inr (Or.inl (List.mem_map.mpr ⟨n, hn, rfl⟩))
    · intro p hp
      simp only [List.mem_cons, List.not_mem_nil, or_false] at hp
      subst hp
      exact init_dictRef 7 (by decide) (by decide) (by decide)
    · intro p hp
      simp only [List.mem_cons, List.not_mem_nil, or_false] at hp
      rcases hp with rfl | rfl | rfl | rfl
      · exact init_dictRef 3 (by decide) (by decide) (by decide)
      · exact init_dictRef 6 (by decide) (by decide) (by decide)
      · exact init_dictRef 5 (by decide) (by decide) (by decide)
      · exact init_dictRef 8 (by decide) (by decide) (by decide)
    · intro p hp; simp at hp
  dsLen := by simp [newVM]
  ds := by
    intro r hr
    simp only [newVM, List.mem_cons, List.not_mem_nil, or_false] at hr
    rcases hr with rfl | rfl
    · exact init_dictRef 1 (by decide) (by decide) (by decide)
    · exact init_dictRef 0 (by decide) (by decide) (by decide)
  ghost := by intro r hr; simp [newVM] at hr
  rSystem := init_dictRef 0 (by decide) (by decide) (by decide)
  rUser := init_dictRef 1 (by decide) (by decide) (by decide)
  rError := init_dictRef 2 (by decide) (by decide) (by decide)
  rInternal := init_dictRef 10 (by decide) (by decide) (by decide)
  rFont := init_dictRef 3 (by decide) (by decide) (by decide)
  rCMap := init_dictRef 5 (by decide) (by decide) (by decide)
  rRes := shapeAt_init_dict 9 (by decide) (by decide)
  resVals := by
    intro p hp
    have : dictAt newVM.heap newVM.roots.resources =
        [("Font", .dict refFontDirectory), ("CIDFont", .dict refCIDFont), ("CMap", .dict refCMapDirectory),
         ("ProcSet", .dict refProcSet)] := rfl
    rw [this] at hp
    simp only [List.mem_cons, List.not_mem_nil, or_false] at hp
    rcases hp with rfl | rfl | rfl | rfl <;> exact ⟨_, rfl⟩
  cmap := by intro r hr; simp [newVM] at hr

/-! ### the main statements -/

/-- C01 for the data operators: from a well-formed state no operator of `pureBuiltin`
panics, and the state stays well-formed -/
theorem pure_wf (id : String) (v v' : VM) (r : Res) :
    WF v → pureBuiltin id v = some (v', r) → WF v' ∧ (∀ site, r ≠ .err (.panic site)) := by
  intro h e
  have p := pure_post id v (v', r) h e
  exact ⟨p.wf, p.nopanic⟩

/-- moreover the heap is only extended and the roots stay -/
theorem pure_ext (id : String) (v v' : VM) (r : Res) :
    WF v → pureBuiltin id v = some (v', r) → Ext v.heap v'.heap ∧ v'.roots = v.roots := by
  intro h e
  have p := pure_post id v (v', r) h e
  exact ⟨p.ext, p.roots⟩


/-! ### every known builtin is dispatched -/

/-- the operators `callBuiltin` handles itself (they re-enter the interpreter or touch the scanner) -/
def reentrantIds : List String :=
  ["exec", "if", "ifelse", "for", "repeat", "loop", "forall", "readstring", "defaultErrorHandler", "eexec"]

/-- a `builtin` value of a well-formed state never reaches the "unknown builtin" panic of
`callBuiltin`: its id is one of the control operators or an operator of `pureBuiltin` -/
theorem known_dispatch (id : String) (v : VM) (hk : knownBuiltin id) :
    id ∈ reentrantIds ∨ (pureBuiltin id v).isSome = true := by
  unfold knownBuiltin at hk
  simp only [systemOperators, cidInitKeys, List.map_cons, List.map_nil, List.mem_cons, List.not_mem_nil,
    or_false] at hk
  rcases hk with
    (rfl | rfl | rfl | rfl | rfl | rfl | rfl | rfl | rfl | rfl | rfl | rfl | rfl | rfl | rfl | rfl | rfl | rfl | rfl |
     rfl | rfl | rfl | rfl | rfl | rfl | rfl | rfl | rfl | rfl | rfl | rfl | rfl | rfl | rfl | rfl | rfl | rfl | rfl |
     rfl | rfl | rfl | rfl | rfl | rfl | rfl | rfl | rfl | rfl | rfl | rfl | rfl | rfl | rfl | rfl | rfl | rfl | rfl |
     rfl | rfl | rfl | rfl | rfl | rfl) |
    (rfl | rfl | rfl | rfl | rfl | rfl | rfl | rfl | rfl | rfl | rfl | rfl | rfl | rfl | rfl | rfl | rfl) | rfl
  all_goals first
    | (right; rfl)
    | (left; decide)


/-! ### the fuel `bBind` passes to `bindProc` is enough -/

def SameShape (h h' : Array Cell) : Prop := ∀ r, shapeAt h' r = shapeAt h r

theorem SameShape.refl (h : Array Cell) : SameShape h h := fun _ => rfl
theorem SameShape.trans {a b c : Array Cell} (h1 : SameShape a b) (h2 : SameShape b c) : SameShape a c :=
  fun r => (h2 r).trans (h1 r)

theorem sameShape_set {h : Array Cell} {r : Nat} {c : Cell} (hs : shapeAt h r = some (shape c)) :
    SameShape h (h.setIfInBounds r c) := by
  intro r'
  rw [shapeAt_set]
  split
  · next heq => subst heq; rw [if_pos (shapeAt_lt hs), hs]
  · rfl

/-- all `.objs` cells have at most `S` elements -/
def Bounded (S : Nat) (h : Array Cell) : Prop := ∀ r n, shapeAt h r = some (.objs n) → n ≤ S

theorem Bounded.of_same {S : Nat} {h h' : Array Cell} (hb : Bounded S h) (hs : SameShape h h') : Bounded S h' :=
  fun r n e => hb r n ((hs r).symm.trans e)

theorem set_elem_same {v : VM} {ref n k : Nat} {x : Obj} (hn : shapeAt v.heap ref = some (.objs n)) :
    SameShape v.heap (v.setCell ref (.objs ((v.getObjs ref).setIfInBounds k x))).heap := by
  obtain ⟨a, ha, hsz, hq⟩ := cell_of_shape_objs hn
  refine sameShape_set ?_
  simp only [shape, Array.size_setIfInBounds, getObjs_eq, hq, hsz]
  exact hn

def BindProcFuel (fuel : Nat) : Prop :=
  ∀ (v : VM) (ref off len depth k S : Nat), WF v →
    (∃ n, shapeAt v.heap ref = some (.objs n) ∧ off + len ≤ n) → Bounded S v.heap →
    depth + k = maxBindDepth + 2 → 1 ≤ k → k * (S + 2) ≤ fuel →
    (bindProc fuel v ref off len depth).2 ≠ .fuel ∧ SameShape v.heap (bindProc fuel v ref off len depth).1.heap

def BindLoopFuel (fuel : Nat) : Prop :=
  ∀ (v : VM) (ref off depth i todo k S : Nat), WF v →
    (∃ n, shapeAt v.heap ref = some (.objs n) ∧ off + i + todo ≤ n) → Bounded S v.heap →
    depth + k + 1 = maxBindDepth + 2 → 1 ≤ k → todo + 1 + k * (S + 2) ≤ fuel →
    (bindLoop fuel v ref off depth i todo).2 ≠ .fuel ∧
      SameShape v.heap (bindLoop fuel v ref off depth i todo).1.heap

theorem bindLoop_fuel_step {fuel : Nat} (ihP : BindProcFuel fuel) (ihL : BindLoopFuel fuel) :
    BindLoopFuel (fuel + 1) := by
  intro v ref off depth i todo k S h hv hb hk hk1 hfuel
  obtain ⟨n, hn, hle⟩ := hv
  cases todo with
  | zero => simp only [bindLoop]; exact ⟨by simp [okRes], SameShape.refl _⟩
  | succ todo =>
    simp only [bindLoop]
    obtain ⟨hsz, hok⟩ := objsAt_ok h.heap hn
    have hfuel' : todo + 1 + k * (S + 2) ≤ fuel := by omega
    split
    · next hnone =>
      exfalso
      rw [Array.getElem?_eq_none_iff, getObjs_eq, hsz] at hnone
      omega
    · next elem he =>
      have helem : objOK v.heap v.roots.resources elem := hok elem (Array.mem_of_getElem? he)
      have hnext : ∃ n, shapeAt v.heap ref = some (.objs n) ∧ off + (i + 1) + todo ≤ n := ⟨n, hn, by omega⟩
      split
      · next nm =>
        split
        · next b hb' =>
          have hbok := lookupName_ok h hb'
          have p1 : Post v (v.setCell ref (.objs ((v.getObjs ref).setIfInBounds (off + i) (.builtin b))), .ok) :=
            set_elem h hn hbok noPanic_ok
          have s1 := set_elem_same (k := off + i) (x := .builtin b) hn
          have q := ihL _ ref off depth (i + 1) todo k S p1.wf ⟨n, p1.ext _ _ hn, by omega⟩ (hb.of_same s1)
            hk hk1 hfuel'
          exact ⟨q.1, s1.trans q.2⟩
        · exact ihL v ref off depth (i + 1) todo k S h hnext hb hk hk1 hfuel'
      · next r o l =>
        obtain ⟨m, hm, hml⟩ := helem
        have p2 := (bind_ok fuel).1 v r o l (depth + 1) h ⟨m, hm, hml⟩
        have q2 := ihP v r o l (depth + 1) k S h ⟨m, hm, hml⟩ hb (by omega) hk1 (by omega)
        generalize bindProc fuel v r o l (depth + 1) = p at p2 q2 ⊢
        obtain ⟨s2, res⟩ := p
        dsimp only at q2
        split
        · have q := ihL s2 ref off depth (i + 1) todo k S p2.wf ⟨n, p2.ext _ _ hn, by omega⟩ (hb.of_same q2.2)
            hk hk1 hfuel'
          exact ⟨q.1, q2.2.trans q.2⟩
        · exact ⟨q2.1, q2.2⟩
      · exact ihL v ref off depth (i + 1) todo k S h hnext hb hk hk1 hfuel'

theorem bindProc_fuel_step {fuel : Nat} (ihL : BindLoopFuel fuel) : BindProcFuel (fuel + 1) := by
  intro v ref off len depth k S h hv hb hk hk1 hfuel
  simp only [bindProc]
  split
  · exact ⟨by simp [psErr], SameShape.refl _⟩
  · next hd =>
    split
    · exact ⟨by simp [okRes], SameShape.refl _⟩
    · split
      · exact ⟨by simp [okRes], SameShape.refl _⟩
      · obtain ⟨n, hn, hle⟩ := hv
        have hlen : len ≤ S := by have := hb ref n hn; omega
        obtain ⟨k', rfl⟩ : ∃ k', k = k' + 1 := ⟨k - 1, by omega⟩
        rw [Nat.succ_mul] at hfuel
        exact ihL _ ref off depth 0 len k' S (wf_bindSeen h _) ⟨n, hn, by omega⟩ hb (by omega) (by omega)
          (by omega)

theorem bind_fuel : ∀ fuel, BindProcFuel fuel ∧ BindLoopFuel fuel := by
  intro fuel
  induction fuel with
  | zero =>
    refine ⟨?_, ?_⟩
    · intro v ref off len depth k S _ _ _ _ hk1 hfuel
      exfalso
      have : 1 * (S + 2) ≤ k * (S + 2) := Nat.mul_le_mul_right _ hk1
      omega
    · intro v ref off depth i todo k S _ _ _ _ _ hfuel
      exfalso; omega
  | succ n ih => exact ⟨bindProc_fuel_step ih.2, bindLoop_fuel_step ih.1 ih.2⟩

theorem foldl_slots_ge (l : List Cell) (init : Nat) :
    init ≤ l.foldl (fun n c => match c with | .objs a => n + a.size + 1 | _ => n + 1) init := by
  induction l generalizing init with
  | nil => exact Nat.le_refl _
  | cons c cs ih =>
    simp only [List.foldl_cons]
    refine Nat.le_trans ?_ (ih _)
    split <;> omega

theorem foldl_slots_mem (l : List Cell) (init : Nat) (a : Array Obj) (hm : Cell.objs a ∈ l) :
    init + a.size + 1 ≤ l.foldl (fun n c => match c with | .objs a => n + a.size + 1 | _ => n + 1) init := by
  induction l generalizing init with
  | nil => simp at hm
  | cons c cs ih =>
    simp only [List.foldl_cons]
    rcases List.mem_cons.mp hm with rfl | hm
    · exact foldl_slots_ge cs _
    · refine Nat.le_trans ?_ (ih _ hm)
      split <;> omega

theorem bounded_heapSlots (v : VM) : Bounded (heapSlots v) v.heap := by
  intro r n e
  obtain ⟨a, ha, hsz, -⟩ := cell_of_shape_objs e
  have hm : Cell.objs a ∈ v.heap.toList := Array.mem_toList_iff.mpr (Array.mem_of_getElem? ha)
  have := foldl_slots_mem v.heap.toList 0 a hm
  rw [Array.foldl_toList] at this
  have h2 : 0 + a.size + 1 ≤ heapSlots v := this
  omega

/-- `bind` never runs out of the fuel the model gives it: `Res.fuel` is not an outcome of `bBind` -/
theorem bBind_no_fuel (v : VM) (h : WF v) : (bBind v).2 ≠ .fuel := by
  unfold bBind
  split
  · simp [psErr]
  · next r o l rest hst =>
    have hs := h.stack
    rw [hst] at hs
    have q := (bind_fuel ((heapSlots v + 2) * (maxBindDepth + 3))).1 { v with bindSeen := [] } r o l 0
      (maxBindDepth + 2) (heapSlots v) (wf_bindSeen h []) (hs _ List.mem_cons_self)
      (bounded_heapSlots v) (by omega) (by omega) (by simp only [maxBindDepth]; omega)
    generalize bindProc ((heapSlots v + 2) * (maxBindDepth + 3)) { v with bindSeen := [] } r o l 0 = p at q ⊢
    obtain ⟨s', res⟩ := p
    exact q.1
  · simp [psErr]


/-! ### no data operator runs out of fuel -/

theorem pure_no_fuel (id : String) (v : VM) (p : VM × Res) (h : WF v) (e : pureBuiltin id v = some p) :
    p.2 ≠ .fuel := by
  unfold pureBuiltin at e
  split at e <;> first
    | (have e' := Option.some.inj e
       rw [← e']
       first
       | exact bBind_no_fuel v h
       | (simp only [bMark, bListEnd, bDictEnd, bAbs, bAdd, bSub, bMul, arith, bAnd, bOr, bNot, bArray, bBegin,
            bCleartomark, bClosefile, bCopy, bCount, bCurrentdict, bCurrentfile, bCvx, bDef, bDefinefont,
            bDefineresource, bDict, bDup, bEnd, bEq, bNe, bEqNe, bExch, bNop, bFindfont, bFindresource, bGet,
            bGetinterval, bIndex, bInternaldict, bKnown, bLength, bLoad, bMatrix, bMaxlength, bPop, bPut,
            bPutinterval, bRoll, bString, bType, bWhere, VM.alloc]
          (repeat' (first | split | dsimp only)) <;> simp [psErr, okRes, VM.push]))
    | (unfold cmapBuiltin at e
       split at e <;> first
         | (have e' := Option.some.inj e
            rw [← e']
            simp only [bBegincmap, bEndcmap, bUsecmap, bBegincodespacerange, bEndcodespacerange, bBeginChars,
              bBeginRanges, bEndcidchar, bEndbfchar, bEndnotdefchar, bEndcidrange, bEndbfrange, bEndnotdefrange,
              endChars, endRanges, beginBlock, withCMap, VM.alloc]
            (repeat' (first | split | dsimp only)) <;> simp [psErr, okRes, VM.push])
         | (simp at e; done))

end PsVerif.Proofs.WF

#print axioms PsVerif.Proofs.WF.wf_newVM
#print axioms PsVerif.Proofs.WF.pure_post
#print axioms PsVerif.Proofs.WF.pure_wf
#print axioms PsVerif.Proofs.WF.pure_ext
#print axioms PsVerif.Proofs.WF.bind_ok
#print axioms PsVerif.Proofs.WF.bBind_no_fuel
#print axioms PsVerif.Proofs.WF.pure_no_fuel
#print axioms PsVerif.Proofs.WF.known_dispatch
