import PsVerif.Model.Init
/-!
# Well-formed interpreter data and the data operators (C01, heap-invariant part)

`WF v` says that every view held anywhere in `v` lies inside a store of the right kind.
From a well-formed `VM` no operator of `pureBuiltin` reaches an `Err.panic` outcome, and
the result is well-formed again (`pure_wf`).  In addition every operator only *extends*
the heap (`Ext`: cells keep kind and size, new cells are appended) and keeps `roots`
(`pure_post`), which is what the looping operators of `Interp.lean` need to keep their
views valid across calls.
-/
namespace PsVerif.Proofs.WF
open PsVerif.Model

/-! ### shapes and heap extension -/

inductive Shape where
  | objs (n : Nat)
  | bytes (n : Nat)
  | dict
  | cmap
  deriving DecidableEq, Repr

def shape : Cell → Shape
  | .objs a => .objs a.size
  | .bytes a => .bytes a.size
  | .dict _ => .dict
  | .cmap _ => .cmap

def shapeAt (h : Array Cell) (r : Nat) : Option Shape := (h[r]?).map shape

/-- every cell keeps its kind, arrays and strings keep their size; new cells may appear -/
def Ext (h h' : Array Cell) : Prop := ∀ r s, shapeAt h r = some s → shapeAt h' r = some s

theorem Ext.refl (h : Array Cell) : Ext h h := fun _ _ e => e
theorem Ext.trans {a b c : Array Cell} (h1 : Ext a b) (h2 : Ext b c) : Ext a c :=
  fun r s e => h2 r s (h1 r s e)

/-! ### known builtins -/

def knownBuiltin (id : String) : Prop :=
  id ∈ systemOperators ∨ id ∈ cidInitKeys.map (fun n => "cid:" ++ n) ∨ id = "defaultErrorHandler"

instance (id : String) : Decidable (knownBuiltin id) := by unfold knownBuiltin; infer_instance

/-! ### objects, cells, heaps -/

/-- `o` is meaningful in heap `h`; `res` is the ref of the resource dictionary, which is
never handed out as an object -/
def objOK (h : Array Cell) (res : Nat) : Obj → Prop
  | .str r o l => ∃ n, shapeAt h r = some (.bytes n) ∧ o + l ≤ n
  | .arr r o l => ∃ n, shapeAt h r = some (.objs n) ∧ o + l ≤ n
  | .proc r o l => ∃ n, shapeAt h r = some (.objs n) ∧ o + l ≤ n
  | .dict r => shapeAt h r = some .dict ∧ r ≠ res
  | .cmapInfo r => shapeAt h r = some .cmap
  | .builtin id => knownBuiltin id
  | _ => True

theorem objOK_mono {h h' : Array Cell} {res : Nat} (e : Ext h h') {o : Obj} (ok : objOK h res o) :
    objOK h' res o := by
  cases o <;> simp only [objOK] at ok ⊢
  · obtain ⟨n, h1, h2⟩ := ok; exact ⟨n, e _ _ h1, h2⟩
  · obtain ⟨n, h1, h2⟩ := ok; exact ⟨n, e _ _ h1, h2⟩
  · obtain ⟨n, h1, h2⟩ := ok; exact ⟨n, e _ _ h1, h2⟩
  · exact ⟨e _ _ ok.1, ok.2⟩
  · exact ok
  · exact e _ _ ok

def cmapOK (h : Array Cell) (res : Nat) (c : CMapInfo) : Prop :=
  (∀ x ∈ c.codeSpaceRanges, objOK h res x.low ∧ objOK h res x.high) ∧
  (∀ x ∈ c.cidChars, objOK h res x.src ∧ objOK h res x.dst) ∧
  (∀ x ∈ c.cidRanges, objOK h res x.low ∧ objOK h res x.high ∧ objOK h res x.dst) ∧
  (∀ x ∈ c.bfChars, objOK h res x.src ∧ objOK h res x.dst) ∧
  (∀ x ∈ c.bfRanges, objOK h res x.low ∧ objOK h res x.high ∧ objOK h res x.dst) ∧
  (∀ x ∈ c.notdefChars, objOK h res x.src ∧ objOK h res x.dst) ∧
  (∀ x ∈ c.notdefRanges, objOK h res x.low ∧ objOK h res x.high ∧ objOK h res x.dst)

def cellOK (h : Array Cell) (res : Nat) : Cell → Prop
  | .objs a => ∀ o ∈ a, objOK h res o
  | .bytes _ => True
  | .dict d => ∀ p ∈ d, objOK h res p.2
  | .cmap c => cmapOK h res c

theorem cmapOK_mono {h h' : Array Cell} {res : Nat} (e : Ext h h') {c : CMapInfo} (ok : cmapOK h res c) :
    cmapOK h' res c := by
  obtain ⟨h1, h2, h3, h4, h5, h6, h7⟩ := ok
  refine ⟨?_, ?_, ?_, ?_, ?_, ?_, ?_⟩
  · intro x hx; exact ⟨objOK_mono e (h1 x hx).1, objOK_mono e (h1 x hx).2⟩
  · intro x hx; exact ⟨objOK_mono e (h2 x hx).1, objOK_mono e (h2 x hx).2⟩
  · intro x hx; exact ⟨objOK_mono e (h3 x hx).1, objOK_mono e (h3 x hx).2.1, objOK_mono e (h3 x hx).2.2⟩
  · intro x hx; exact ⟨objOK_mono e (h4 x hx).1, objOK_mono e (h4 x hx).2⟩
  · intro x hx; exact ⟨objOK_mono e (h5 x hx).1, objOK_mono e (h5 x hx).2.1, objOK_mono e (h5 x hx).2.2⟩
  · intro x hx; exact ⟨objOK_mono e (h6 x hx).1, objOK_mono e (h6 x hx).2⟩
  · intro x hx; exact ⟨objOK_mono e (h7 x hx).1, objOK_mono e (h7 x hx).2.1, objOK_mono e (h7 x hx).2.2⟩

theorem cellOK_mono {h h' : Array Cell} {res : Nat} (e : Ext h h') {c : Cell} (ok : cellOK h res c) :
    cellOK h' res c := by
  cases c <;> simp only [cellOK] at ok ⊢
  · intro o ho; exact objOK_mono e (ok o ho)
  · intro p hp; exact objOK_mono e (ok p hp)
  · exact cmapOK_mono e ok

def heapOK (h : Array Cell) (res : Nat) : Prop := ∀ c ∈ h, cellOK h res c

def dictAt (h : Array Cell) (r : Nat) : List (Name × Obj) :=
  match h[r]? with
  | some (.dict d) => d
  | _ => []

def objsAt (h : Array Cell) (r : Nat) : Array Obj :=
  match h[r]? with
  | some (.objs a) => a
  | _ => #[]

def bytesAt (h : Array Cell) (r : Nat) : Array UInt8 :=
  match h[r]? with
  | some (.bytes a) => a
  | _ => #[]

def cmapAt (h : Array Cell) (r : Nat) : CMapInfo :=
  match h[r]? with
  | some (.cmap c) => c
  | _ => {}

theorem getDict_eq (v : VM) (r : Nat) : v.getDict r = dictAt v.heap r := rfl
theorem getObjs_eq (v : VM) (r : Nat) : v.getObjs r = objsAt v.heap r := rfl
theorem getBytes_eq (v : VM) (r : Nat) : v.getBytes r = bytesAt v.heap r := rfl
theorem getCMap_eq (v : VM) (r : Nat) : v.getCMap r = cmapAt v.heap r := rfl

def isDictRef (h : Array Cell) (res : Nat) (r : Nat) : Prop := shapeAt h r = some .dict ∧ r ≠ res

/-- well-formed interpreter data -/
structure WF (v : VM) : Prop where
  stack : ∀ o ∈ v.stack, objOK v.heap v.roots.resources o
  heap : heapOK v.heap v.roots.resources
  dsLen : 2 ≤ v.dictStack.length
  ds : ∀ r ∈ v.dictStack, isDictRef v.heap v.roots.resources r
  ghost : ∀ r ∈ v.dictGhost, isDictRef v.heap v.roots.resources r
  rSystem : isDictRef v.heap v.roots.resources v.roots.systemDict
  rUser : isDictRef v.heap v.roots.resources v.roots.userDict
  rError : isDictRef v.heap v.roots.resources v.roots.errorDict
  rInternal : isDictRef v.heap v.roots.resources v.roots.internalDict
  rFont : isDictRef v.heap v.roots.resources v.roots.fontDirectory
  rCMap : isDictRef v.heap v.roots.resources v.roots.cmapDirectory
  rRes : shapeAt v.heap v.roots.resources = some .dict
  resVals : ∀ p ∈ dictAt v.heap v.roots.resources, ∃ r, p.2 = Obj.dict r
  cmap : ∀ r, v.cmapMappings = some r → shapeAt v.heap r = some .cmap


/-! ### heap changes: allocation and same-shape writes -/

theorem shapeAt_lt {h : Array Cell} {r : Nat} {s : Shape} (e : shapeAt h r = some s) : r < h.size := by
  unfold shapeAt at e
  cases hr : h[r]? with
  | none => simp [hr] at e
  | some c => exact (Array.getElem?_eq_some_iff.mp hr).1

theorem shapeAt_push (h : Array Cell) (c : Cell) (r : Nat) :
    shapeAt (h.push c) r = if r = h.size then some (shape c) else shapeAt h r := by
  unfold shapeAt
  rw [Array.getElem?_push]
  split <;> rfl

theorem shapeAt_set (h : Array Cell) (r r' : Nat) (c : Cell) :
    shapeAt (h.setIfInBounds r c) r' =
      if r = r' then (if r < h.size then some (shape c) else none) else shapeAt h r' := by
  unfold shapeAt
  rw [Array.getElem?_setIfInBounds]
  split
  · split <;> rfl
  · rfl

theorem ext_push (h : Array Cell) (c : Cell) : Ext h (h.push c) := by
  intro r s e
  have := shapeAt_lt e
  rw [shapeAt_push, if_neg (by omega)]
  exact e

theorem ext_set {h : Array Cell} {r : Nat} {c : Cell} (hs : shapeAt h r = some (shape c)) :
    Ext h (h.setIfInBounds r c) := by
  intro r' s e
  rw [shapeAt_set]
  split
  · next heq => subst heq; rw [if_pos (shapeAt_lt hs), ← hs, e]
  · exact e

theorem heapOK_push {h : Array Cell} {res : Nat} {c : Cell} (ok : heapOK h res) (okc : cellOK h res c) :
    heapOK (h.push c) res := by
  intro c' hc'
  rcases Array.mem_push.mp hc' with hm | rfl
  · exact cellOK_mono (ext_push h c) (ok c' hm)
  · exact cellOK_mono (ext_push h _) okc

theorem heapOK_set {h : Array Cell} {res r : Nat} {c : Cell} (ok : heapOK h res)
    (hs : shapeAt h r = some (shape c)) (okc : cellOK h res c) : heapOK (h.setIfInBounds r c) res := by
  intro c' hc'
  rcases Array.mem_or_eq_of_mem_setIfInBounds hc' with hm | rfl
  · exact cellOK_mono (ext_set hs) (ok c' hm)
  · exact cellOK_mono (ext_set hs) okc

theorem dictAt_push {h : Array Cell} {r : Nat} (c : Cell) (hr : r < h.size) : dictAt (h.push c) r = dictAt h r := by
  unfold dictAt
  rw [Array.getElem?_push, if_neg (by omega)]

theorem dictAt_set_ne {h : Array Cell} {r r' : Nat} (c : Cell) (hne : r ≠ r') :
    dictAt (h.setIfInBounds r c) r' = dictAt h r' := by
  unfold dictAt
  rw [Array.getElem?_setIfInBounds, if_neg hne]

theorem cell_of_shape_objs {h : Array Cell} {r n : Nat} (e : shapeAt h r = some (.objs n)) :
    ∃ a, h[r]? = some (.objs a) ∧ a.size = n ∧ objsAt h r = a := by
  unfold shapeAt at e
  cases hr : h[r]? with
  | none => simp [hr] at e
  | some c =>
    cases c <;> simp [hr, shape] at e
    exact ⟨_, rfl, e, by simp [objsAt, hr]⟩

theorem cell_of_shape_bytes {h : Array Cell} {r n : Nat} (e : shapeAt h r = some (.bytes n)) :
    ∃ a, h[r]? = some (.bytes a) ∧ a.size = n ∧ bytesAt h r = a := by
  unfold shapeAt at e
  cases hr : h[r]? with
  | none => simp [hr] at e
  | some c =>
    cases c <;> simp [hr, shape] at e
    exact ⟨_, rfl, e, by simp [bytesAt, hr]⟩

theorem cell_of_shape_dict {h : Array Cell} {r : Nat} (e : shapeAt h r = some .dict) :
    ∃ d, h[r]? = some (.dict d) ∧ dictAt h r = d := by
  unfold shapeAt at e
  cases hr : h[r]? with
  | none => simp [hr] at e
  | some c =>
    cases c <;> simp [hr, shape] at e
    exact ⟨_, rfl, by simp [dictAt, hr]⟩

theorem cell_of_shape_cmap {h : Array Cell} {r : Nat} (e : shapeAt h r = some .cmap) :
    ∃ c, h[r]? = some (.cmap c) ∧ cmapAt h r = c := by
  unfold shapeAt at e
  cases hr : h[r]? with
  | none => simp [hr] at e
  | some c =>
    cases c <;> simp [hr, shape] at e
    exact ⟨_, rfl, by simp [cmapAt, hr]⟩

theorem objsAt_ok {h : Array Cell} {res r n : Nat} (ok : heapOK h res) (e : shapeAt h r = some (.objs n)) :
    (objsAt h r).size = n ∧ ∀ o ∈ objsAt h r, objOK h res o := by
  obtain ⟨a, ha, hn, hq⟩ := cell_of_shape_objs e
  rw [hq]
  exact ⟨hn, ok _ (Array.mem_of_getElem? ha)⟩

theorem dictAt_ok {h : Array Cell} {res r : Nat} (ok : heapOK h res) (e : shapeAt h r = some .dict) :
    ∀ p ∈ dictAt h r, objOK h res p.2 := by
  obtain ⟨d, hd, hq⟩ := cell_of_shape_dict e
  rw [hq]
  exact ok _ (Array.mem_of_getElem? hd)

theorem cmapAt_ok {h : Array Cell} {res r : Nat} (ok : heapOK h res) (e : shapeAt h r = some .cmap) :
    cmapOK h res (cmapAt h r) := by
  obtain ⟨d, hd, hq⟩ := cell_of_shape_cmap e
  rw [hq]
  exact ok _ (Array.mem_of_getElem? hd)

theorem isDictRef_mono {h h' : Array Cell} {res r : Nat} (e : Ext h h') (ok : isDictRef h res r) :
    isDictRef h' res r := ⟨e _ _ ok.1, ok.2⟩

/-- the general frame rule: everything is checked against the old heap, except the stack -/
theorem WF.update' {v v' : VM} (h : WF v) (hr : v'.roots = v.roots)
    (hext : Ext v.heap v'.heap) (hheap : heapOK v'.heap v.roots.resources)
    (hres : dictAt v'.heap v.roots.resources = dictAt v.heap v.roots.resources)
    (hdl : 2 ≤ v'.dictStack.length)
    (hd : ∀ r ∈ v'.dictStack, isDictRef v'.heap v.roots.resources r)
    (hg : ∀ r ∈ v'.dictGhost, isDictRef v'.heap v.roots.resources r)
    (hc : ∀ r, v'.cmapMappings = some r → shapeAt v'.heap r = some .cmap)
    (hst : ∀ o ∈ v'.stack, objOK v'.heap v.roots.resources o) : WF v' where
  stack := by rw [hr]; exact hst
  heap := by rw [hr]; exact hheap
  dsLen := hdl
  ds := by rw [hr]; exact hd
  ghost := by rw [hr]; exact hg
  rSystem := by rw [hr]; exact isDictRef_mono hext h.rSystem
  rUser := by rw [hr]; exact isDictRef_mono hext h.rUser
  rError := by rw [hr]; exact isDictRef_mono hext h.rError
  rInternal := by rw [hr]; exact isDictRef_mono hext h.rInternal
  rFont := by rw [hr]; exact isDictRef_mono hext h.rFont
  rCMap := by rw [hr]; exact isDictRef_mono hext h.rCMap
  rRes := by rw [hr]; exact hext _ _ h.rRes
  resVals := by rw [hr, hres]; exact h.resVals
  cmap := hc

/-- frame rule for operators that leave the dictionary stack and the cmap pointer alone -/
theorem WF.update {v v' : VM} (h : WF v) (hr : v'.roots = v.roots)
    (hext : Ext v.heap v'.heap) (hheap : heapOK v'.heap v.roots.resources)
    (hres : dictAt v'.heap v.roots.resources = dictAt v.heap v.roots.resources)
    (hd : v'.dictStack = v.dictStack) (hg : v'.dictGhost = v.dictGhost)
    (hc : v'.cmapMappings = v.cmapMappings)
    (hst : ∀ o ∈ v'.stack, objOK v'.heap v.roots.resources o) : WF v' :=
  h.update' hr hext hheap hres (by rw [hd]; exact h.dsLen)
    (by rw [hd]; exact fun r hr => isDictRef_mono hext (h.ds r hr))
    (by rw [hg]; exact fun r hr => isDictRef_mono hext (h.ghost r hr))
    (by rw [hc]; exact fun r hr => hext _ _ (h.cmap r hr)) hst

/-! ### postcondition of an operator -/

def NoPanic (r : Res) : Prop := ∀ site, r ≠ .err (.panic site)

/-- what every data operator guarantees when started in a well-formed `v` -/
structure Post (v : VM) (p : VM × Res) : Prop where
  wf : WF p.1
  ext : Ext v.heap p.1.heap
  roots : p.1.roots = v.roots
  nopanic : NoPanic p.2

theorem noPanic_ok : NoPanic .ok := by intro s; simp
theorem noPanic_ps (n : ErrName) : NoPanic (.err (.ps n)) := by intro s; simp

/-- only the stack changed, into objects that are fine in the old heap -/
theorem Post.same {v v' : VM} {r : Res} (h : WF v) (hh : v'.heap = v.heap) (hr : v'.roots = v.roots)
    (hd : v'.dictStack = v.dictStack) (hg : v'.dictGhost = v.dictGhost)
    (hc : v'.cmapMappings = v.cmapMappings)
    (hst : ∀ o ∈ v'.stack, objOK v.heap v.roots.resources o) (hn : NoPanic r) : Post v (v', r) where
  wf := h.update hr (by rw [hh]; exact Ext.refl _) (by rw [hh]; exact h.heap) (by rw [hh]) hd hg hc
    (by rw [hh]; exact hst)
  ext := by show Ext v.heap v'.heap; rw [hh]; exact Ext.refl _
  roots := hr
  nopanic := hn


/-! ### operators that only rearrange the stack -/

/-- close a leaf whose result is `v` with another stack -/
macro "wf_leaf" h:ident : tactic =>
  `(tactic| (refine Post.same $h rfl rfl rfl rfl rfl ?_ (by first | exact noPanic_ok | exact noPanic_ps _ | (intro s; simp))
             have hs := WF.stack $h
             simp only [VM.push, List.forall_mem_cons] at hs ⊢
             first | (simp_all [objOK]; done) | grind [objOK]))

/-- an operator that only pops, pushes and permutes objects -/
macro "wf_triv" h:ident : tactic =>
  `(tactic| ((repeat' (first | split | dsimp only [psErr, okRes])) <;> wf_leaf $h))

theorem bMark_post (v : VM) (h : WF v) : Post v (bMark v) := by
  obtain ⟨st, ds, dg, hp, cm, c1, c2, c3, roots⟩ := v
  unfold bMark; wf_triv h

theorem bPop_post (v : VM) (h : WF v) : Post v (bPop v) := by
  obtain ⟨st, ds, dg, hp, cm, c1, c2, c3, roots⟩ := v
  unfold bPop; wf_triv h

theorem bDup_post (v : VM) (h : WF v) : Post v (bDup v) := by
  obtain ⟨st, ds, dg, hp, cm, c1, c2, c3, roots⟩ := v
  unfold bDup; wf_triv h

theorem bExch_post (v : VM) (h : WF v) : Post v (bExch v) := by
  obtain ⟨st, ds, dg, hp, cm, c1, c2, c3, roots⟩ := v
  unfold bExch; wf_triv h

theorem bCount_post (v : VM) (h : WF v) : Post v (bCount v) := by
  obtain ⟨st, ds, dg, hp, cm, c1, c2, c3, roots⟩ := v
  unfold bCount; wf_triv h

theorem bAbs_post (v : VM) (h : WF v) : Post v (bAbs v) := by
  obtain ⟨st, ds, dg, hp, cm, c1, c2, c3, roots⟩ := v
  unfold bAbs; wf_triv h

theorem arith_post (iop : Int → Int → Int) (ovf : Int → Int → Int → Bool) (fop : UInt64 → UInt64 → UInt64)
    (v : VM) (h : WF v) : Post v (arith iop ovf fop v) := by
  obtain ⟨st, ds, dg, hp, cm, c1, c2, c3, roots⟩ := v
  unfold arith; wf_triv h


theorem bAdd_post (v : VM) (h : WF v) : Post v (bAdd v) := arith_post _ _ _ v h
theorem bSub_post (v : VM) (h : WF v) : Post v (bSub v) := arith_post _ _ _ v h
theorem bMul_post (v : VM) (h : WF v) : Post v (bMul v) := arith_post _ _ _ v h

theorem bAnd_post (v : VM) (h : WF v) : Post v (bAnd v) := by
  obtain ⟨st, ds, dg, hp, cm, c1, c2, c3, roots⟩ := v
  unfold bAnd; wf_triv h

theorem bOr_post (v : VM) (h : WF v) : Post v (bOr v) := by
  obtain ⟨st, ds, dg, hp, cm, c1, c2, c3, roots⟩ := v
  unfold bOr; wf_triv h

theorem bNot_post (v : VM) (h : WF v) : Post v (bNot v) := by
  obtain ⟨st, ds, dg, hp, cm, c1, c2, c3, roots⟩ := v
  unfold bNot; wf_triv h

theorem bEqNe_post (neg : Bool) (v : VM) (h : WF v) : Post v (bEqNe neg v) := by
  obtain ⟨st, ds, dg, hp, cm, c1, c2, c3, roots⟩ := v
  unfold bEqNe; wf_triv h

theorem bEq_post (v : VM) (h : WF v) : Post v (bEq v) := bEqNe_post _ v h
theorem bNe_post (v : VM) (h : WF v) : Post v (bNe v) := bEqNe_post _ v h

theorem bKnown_post (v : VM) (h : WF v) : Post v (bKnown v) := by
  obtain ⟨st, ds, dg, hp, cm, c1, c2, c3, roots⟩ := v
  unfold bKnown; wf_triv h

theorem bMaxlength_post (v : VM) (h : WF v) : Post v (bMaxlength v) := by
  obtain ⟨st, ds, dg, hp, cm, c1, c2, c3, roots⟩ := v
  unfold bMaxlength; wf_triv h

theorem bLength_post (v : VM) (h : WF v) : Post v (bLength v) := by
  obtain ⟨st, ds, dg, hp, cm, c1, c2, c3, roots⟩ := v
  unfold bLength; wf_triv h

theorem bType_post (v : VM) (h : WF v) : Post v (bType v) := by
  obtain ⟨st, ds, dg, hp, cm, c1, c2, c3, roots⟩ := v
  unfold bType; wf_triv h

theorem bCurrentfile_post (v : VM) (h : WF v) : Post v (bCurrentfile v) := by
  obtain ⟨st, ds, dg, hp, cm, c1, c2, c3, roots⟩ := v
  unfold bCurrentfile; wf_triv h

theorem bClosefile_post (v : VM) (h : WF v) : Post v (bClosefile v) := by
  obtain ⟨st, ds, dg, hp, cm, c1, c2, c3, roots⟩ := v
  unfold bClosefile; wf_triv h

theorem bNop_post (v : VM) (h : WF v) : Post v (bNop v) := by
  obtain ⟨st, ds, dg, hp, cm, c1, c2, c3, roots⟩ := v
  unfold bNop; wf_triv h

theorem exit_post (v : VM) (h : WF v) : Post v (v, .err .exit) := by
  obtain ⟨st, ds, dg, hp, cm, c1, c2, c3, roots⟩ := v
  wf_leaf h

theorem stop_post (v : VM) (h : WF v) : Post v (v, .err .stop) := by
  obtain ⟨st, ds, dg, hp, cm, c1, c2, c3, roots⟩ := v
  wf_leaf h

theorem bInternaldict_post (v : VM) (h : WF v) : Post v (bInternaldict v) := by
  obtain ⟨st, ds, dg, hp, cm, c1, c2, c3, roots⟩ := v
  have hi := h.rInternal
  unfold isDictRef at hi
  unfold bInternaldict; wf_triv h


/-! ### look-ups -/

theorem splitAtMark_mem : ∀ (st acc : List Obj) {a b : List Obj}, splitAtMark acc st = some (a, b) →
    (∀ o ∈ a, o ∈ acc ∨ o ∈ st) ∧ (∀ o ∈ b, o ∈ st) := by
  intro st
  induction st with
  | nil => intro acc a b e; simp [splitAtMark] at e
  | cons x rest ih =>
    intro acc a b e
    by_cases hx : x = .mark
    · subst hx
      simp only [splitAtMark, Option.some.injEq, Prod.mk.injEq] at e
      obtain ⟨rfl, rfl⟩ := e
      exact ⟨fun o ho => Or.inl (by simpa using ho), fun o ho => List.mem_cons_of_mem _ ho⟩
    · have e' : splitAtMark (x :: acc) rest = some (a, b) := by
        cases x <;> first | exact absurd rfl hx | simpa [splitAtMark] using e
      obtain ⟨h1, h2⟩ := ih _ e'
      refine ⟨fun o ho => ?_, fun o ho => List.mem_cons_of_mem _ (h2 o ho)⟩
      rcases h1 o ho with h | h
      · rcases List.mem_cons.mp h with rfl | h
        · exact Or.inr (List.mem_cons_self)
        · exact Or.inl h
      · exact Or.inr (List.mem_cons_of_mem _ h)

theorem toMark_mem {st a b : List Obj} (e : toMark st = some (a, b)) :
    (∀ o ∈ a, o ∈ st) ∧ (∀ o ∈ b, o ∈ st) := by
  obtain ⟨h1, h2⟩ := splitAtMark_mem st [] e
  exact ⟨fun o ho => by simpa using h1 o ho, h2⟩

theorem dictLookup_mem {d : List (Name × Obj)} {k : Name} {x : Obj} (e : dictLookup d k = some x) :
    ∃ p ∈ d, p.2 = x := by
  unfold dictLookup at e
  split at e
  · next p hp => exact ⟨p, List.mem_of_find?_eq_some hp, by simpa using e⟩
  · simp at e

theorem dictGet_ok {v : VM} (h : WF v) {r : Nat} {k : Name} {x : Obj} (hr : shapeAt v.heap r = some .dict)
    (e : v.dictGet r k = some x) : objOK v.heap v.roots.resources x := by
  obtain ⟨p, hp, rfl⟩ := dictLookup_mem e
  exact dictAt_ok h.heap hr p hp

theorem lookupName_ok {v : VM} (h : WF v) {n : Name} {x : Obj} (e : lookupName v n = some x) :
    objOK v.heap v.roots.resources x := by
  obtain ⟨r, hr, hx⟩ := List.exists_of_findSome?_eq_some e
  exact dictGet_ok h (h.ds r hr).1 hx

theorem resGet_dict {v : VM} (h : WF v) {k : Name} {x : Obj} (e : v.dictGet v.roots.resources k = some x) :
    ∃ r, x = .dict r ∧ isDictRef v.heap v.roots.resources r := by
  have ok := dictGet_ok h h.rRes e
  obtain ⟨p, hp, rfl⟩ := dictLookup_mem e
  obtain ⟨r, hr⟩ := h.resVals p hp
  rw [hr] at ok ⊢
  exact ⟨r, rfl, ok⟩

theorem bCleartomark_post (v : VM) (h : WF v) : Post v (bCleartomark v) := by
  obtain ⟨st, ds, dg, hp, cm, c1, c2, c3, roots⟩ := v
  unfold bCleartomark
  dsimp only
  split
  · wf_leaf h
  · next a b e =>
    refine Post.same h rfl rfl rfl rfl rfl ?_ noPanic_ok
    exact fun o ho => h.stack o ((toMark_mem e).2 o ho)

theorem bLoad_post (v : VM) (h : WF v) : Post v (bLoad v) := by
  obtain ⟨st, ds, dg, hp, cm, c1, c2, c3, roots⟩ := v
  unfold bLoad
  dsimp only
  split
  · wf_leaf h
  · split
    · next x hx => have := lookupName_ok h hx; wf_leaf h
    · wf_leaf h
  · wf_leaf h

theorem bWhere_post (v : VM) (h : WF v) : Post v (bWhere v) := by
  obtain ⟨st, ds, dg, hp, cm, c1, c2, c3, roots⟩ := v
  unfold bWhere
  dsimp only
  split
  · wf_leaf h
  · split
    · next r hr =>
      have := h.ds r (List.mem_of_find?_eq_some hr)
      unfold isDictRef at this
      wf_leaf h
    · wf_leaf h
  · wf_leaf h

theorem bCurrentdict_post (v : VM) (h : WF v) : Post v (bCurrentdict v) := by
  obtain ⟨st, ds, dg, hp, cm, c1, c2, c3, roots⟩ := v
  unfold bCurrentdict
  dsimp only
  split
  · have := h.dsLen; simp at this
  · next d rest =>
    have := h.ds d (List.mem_cons_self)
    unfold isDictRef at this
    wf_leaf h

theorem bFindfont_post (v : VM) (h : WF v) : Post v (bFindfont v) := by
  obtain ⟨st, ds, dg, hp, cm, c1, c2, c3, roots⟩ := v
  unfold bFindfont
  dsimp only
  split
  · wf_leaf h
  · split
    · next x hx => have := dictGet_ok h h.rFont.1 hx; wf_leaf h
    · wf_leaf h
  · wf_leaf h

theorem bFindresource_post (v : VM) (h : WF v) : Post v (bFindresource v) := by
  obtain ⟨st, ds, dg, hp, cm, c1, c2, c3, roots⟩ := v
  unfold bFindresource
  dsimp only
  split
  · split
    · split
      · wf_leaf h
      · next catv hc =>
        obtain ⟨r, rfl, hr⟩ := resGet_dict h hc
        split
        · wf_leaf h
        · dsimp only
          split
          · next x hx => have := dictGet_ok h hr.1 hx; wf_leaf h
          · wf_leaf h
    · wf_leaf h
  · wf_leaf h

end PsVerif.Proofs.WF
