import PsVerif.Proofs.T1RoundTrip
/-!
Helper lemmas for the stem-hint round trip (`Props/C20Stems.lean`).

* 16-bit wrap-around arithmetic (`wrap16` is a ring homomorphism onto the residues mod 65536);
* `run_hstem_pair_gen`/`run_vstem_pair_gen`: the decoder on `a w hstem` / `a w vstem` from ANY
  state with an empty operand stack (any side bearing, any hints read so far);
* `run_hstemsW`/`run_vstemsW`: lists of stems, for an encoder that is generic in the way the
  width operand is computed (`encodeStemsW wf`), so that the library's encoder (`wf a b = b - a`)
  and the seeded 16-bit variant (`wf a b = wrap16 (b - a)`) are instances of one lemma.
-/
namespace PsVerif.Proofs.C20Stems
open PsVerif.Model.T1Num PsVerif.Model.T1Encode PsVerif.Model.T1Decode
open PsVerif.Proofs.T1RoundTrip

/-! ## 16-bit arithmetic -/

theorem wrap16_range (x : Int) : -32768 ≤ wrap16 x ∧ wrap16 x ≤ 32767 := by
  unfold wrap16; simp only; split <;> omega

theorem wrap16_id (x : Int) (h : inInt16 x) : wrap16 x = x := by
  unfold inInt16 at h; unfold wrap16; simp only; split <;> omega

theorem wrap16_eq_self_iff (x : Int) : wrap16 x = x ↔ inInt16 x := by
  constructor
  · intro h; have := wrap16_range x; rw [h] at this; exact this
  · exact wrap16_id x

theorem wrap16_add_wrap16 (s a : Int) : wrap16 (s + wrap16 a) = wrap16 (s + a) := by
  unfold wrap16; simp only; split <;> split <;> split <;> omega

theorem wrap16_wrap16_add (x w : Int) : wrap16 (wrap16 x + wrap16 w) = wrap16 (x + w) := by
  unfold wrap16; simp only; split <;> split <;> split <;> split <;> omega

/-- a width reduced to 16 bits gives the same second edge -/
theorem wrap16_add_wrap16_sub (s a b : Int) : wrap16 (s + a + wrap16 (b - a)) = wrap16 (s + b) := by
  rw [wrap16_add_wrap16]; congr 1; omega

/-! ## encoders generic in the width operand -/

/-- `encodeStems` with the width operand computed by `wf a b` -/
def encodeStemsW (wf : Int → Int → Int) (op : Nat) : List Int → List Nat
  | a :: b :: rest => appendInt a ++ appendInt (wf a b) ++ appendOp op ++ encodeStemsW wf op rest
  | _ => []

theorem encodeStems_eq_W (op : Nat) : ∀ l : List Int, encodeStems op l = encodeStemsW (fun a b => b - a) op l
  | [] => rfl
  | [_] => rfl
  | a :: b :: l => by simp only [encodeStems, encodeStemsW, encodeStems_eq_W op l]

/-- what the decoder makes of `a (wf a b) stem` with side bearing `lsb` -/
def stemsDecW (wf : Int → Int → Int) (lsb : Int) : List Int → List Int
  | a :: b :: rest => wrap16 (lsb + a) :: wrap16 (lsb + a + wf a b) :: stemsDecW wf lsb rest
  | _ => []

/-- both operands of every stem can be written as 32-bit integers -/
def stemsFitW (wf : Int → Int → Int) : List Int → Bool
  | a :: b :: rest => decide (inInt32 a) && decide (inInt32 (wf a b)) && stemsFitW wf rest
  | _ => true

theorem stemsDecW_sub (lsb : Int) : ∀ l : List Int,
    stemsDecW (fun a b => b - a) lsb l = (stemsNorm l).map (fun e => wrap16 (lsb + e))
  | [] => rfl
  | [_] => rfl
  | a :: b :: l => by
    simp only [stemsDecW, stemsNorm, List.map_cons, stemsDecW_sub lsb l]
    congr 2; congr 1; omega

theorem stemsDecW_wrap (lsb : Int) : ∀ l : List Int,
    stemsDecW (fun a b => wrap16 (b - a)) lsb l = (stemsNorm l).map (fun e => wrap16 (lsb + e))
  | [] => rfl
  | [_] => rfl
  | a :: b :: l => by
    simp only [stemsDecW, stemsNorm, List.map_cons, stemsDecW_wrap lsb l, wrap16_add_wrap16_sub]

theorem stemsFitW_sub : ∀ l : List Int, stemsFit l = true → stemsFitW (fun a b => b - a) l = true
  | [], _ => rfl
  | [_], _ => rfl
  | a :: b :: l, h => by
    simp only [stemsFit, List.all_cons, Bool.and_eq_true, decide_eq_true_eq] at h
    obtain ⟨ha, hb, hl⟩ := h
    unfold inInt16 at ha hb
    simp only [stemsFitW, Bool.and_eq_true, decide_eq_true_eq]
    exact ⟨⟨by unfold inInt32; omega, by unfold inInt32; omega⟩, stemsFitW_sub l (by simpa [stemsFit] using hl)⟩

theorem stemsFitW_wrap : ∀ l : List Int, stemsFit l = true → stemsFitW (fun a b => wrap16 (b - a)) l = true
  | [], _ => rfl
  | [_], _ => rfl
  | a :: b :: l, h => by
    simp only [stemsFit, List.all_cons, Bool.and_eq_true, decide_eq_true_eq] at h
    obtain ⟨ha, hb, hl⟩ := h
    unfold inInt16 at ha
    have := wrap16_range (b - a)
    simp only [stemsFitW, Bool.and_eq_true, decide_eq_true_eq]
    exact ⟨⟨by unfold inInt32; omega, by unfold inInt32; omega⟩, stemsFitW_wrap l (by simpa [stemsFit] using hl)⟩

theorem stemsNorm_map_id (l : List Int) (lsb : Int)
    (h : ∀ e ∈ stemsNorm l, inInt16 (lsb + e)) :
    (stemsNorm l).map (fun e => wrap16 (lsb + e)) = (stemsNorm l).map (fun e => lsb + e) := by
  apply List.map_congr_left
  intro e he
  exact wrap16_id _ (h e he)

theorem mem_stemsNorm : ∀ (l : List Int) (e : Int), e ∈ stemsNorm l → e ∈ l
  | [], _, h => by simp [stemsNorm] at h
  | [_], _, h => by simp [stemsNorm] at h
  | a :: b :: l, e, h => by
    simp only [stemsNorm, List.mem_cons] at h ⊢
    rcases h with h | h | h
    · exact Or.inl h
    · exact Or.inr (Or.inl h)
    · exact Or.inr (Or.inr (mem_stemsNorm l e h))

/-! ## one stem, from any state -/

section
variable (subrs : List (List Nat)) (callers : List (List Nat))

theorem run_hstem_pair_gen (f : Nat) (d : DState) (a w : Int) (rest : List Nat)
    (ha : inInt32 a) (hw : inInt32 w) (hst : d.stack = []) (ho : d.numOps + 3 ≤ maxOps) :
    run subrs (f + 3) d (appendInt a ++ (appendInt w ++ (1 :: rest))) callers
      = run subrs f { d with numOps := d.numOps + 3,
                             res := { d.res with hstem := d.res.hstem ++
                               [wrap16 (d.lsbY + a), wrap16 (d.lsbY + a + w)] } } rest callers := by
  obtain ⟨stack, ps, flex, res, posX, posY, lsbX, lsbY, isClosed, inFlex, seacs, numOps⟩ := d
  simp only at hst ho ⊢
  subst hst
  rw [run_int subrs callers (f + 2) _ a ha _ (by simp [maxStack]) (by simp only; omega)]
  rw [run_int subrs callers (f + 1) _ w hw _ (by simp [maxStack]) (by simp only; omega)]
  rw [run_op_cont subrs callers f _
    { stack := [], ps := ps, flex := flex,
      res := { res with hstem := res.hstem ++ [wrap16 (lsbY + int16OfRound ((a : Int) : Rat)),
        wrap16 (wrap16 (lsbY + int16OfRound ((a : Int) : Rat)) + int16OfRound ((w : Int) : Rat))] },
      posX := posX, posY := posY, lsbX := lsbX, lsbY := lsbY, isClosed := isClosed, inFlex := inFlex,
      seacs := seacs, numOps := numOps + 1 + 1 + 1 } 1 rest
    (by omega) (by omega) (by simp [maxStack]) (by simp only; omega) rfl]
  rw [int16OfRound_intCast, int16OfRound_intCast, wrap16_add_wrap16, wrap16_wrap16_add]

theorem run_vstem_pair_gen (f : Nat) (d : DState) (a w : Int) (rest : List Nat)
    (ha : inInt32 a) (hw : inInt32 w) (hst : d.stack = []) (ho : d.numOps + 3 ≤ maxOps) :
    run subrs (f + 3) d (appendInt a ++ (appendInt w ++ (3 :: rest))) callers
      = run subrs f { d with numOps := d.numOps + 3,
                             res := { d.res with vstem := d.res.vstem ++
                               [wrap16 (d.lsbX + a), wrap16 (d.lsbX + a + w)] } } rest callers := by
  obtain ⟨stack, ps, flex, res, posX, posY, lsbX, lsbY, isClosed, inFlex, seacs, numOps⟩ := d
  simp only at hst ho ⊢
  subst hst
  rw [run_int subrs callers (f + 2) _ a ha _ (by simp [maxStack]) (by simp only; omega)]
  rw [run_int subrs callers (f + 1) _ w hw _ (by simp [maxStack]) (by simp only; omega)]
  rw [run_op_cont subrs callers f _
    { stack := [], ps := ps, flex := flex,
      res := { res with vstem := res.vstem ++ [wrap16 (lsbX + int16OfRound ((a : Int) : Rat)),
        wrap16 (wrap16 (lsbX + int16OfRound ((a : Int) : Rat)) + int16OfRound ((w : Int) : Rat))] },
      posX := posX, posY := posY, lsbX := lsbX, lsbY := lsbY, isClosed := isClosed, inFlex := inFlex,
      seacs := seacs, numOps := numOps + 1 + 1 + 1 } 3 rest
    (by omega) (by omega) (by simp [maxStack]) (by simp only; omega) rfl]
  rw [int16OfRound_intCast, int16OfRound_intCast, wrap16_add_wrap16, wrap16_wrap16_add]

/-! ## lists of stems, from any state -/

theorem run_hstemsW (wf : Int → Int → Int) (rest : List Nat) : ∀ (l : List Int) (f : Nat) (d : DState),
    stemsFitW wf l = true → d.stack = [] → d.numOps + stemTokens l ≤ maxOps →
    run subrs (f + stemTokens l) d (encodeStemsW wf 1 l ++ rest) callers
      = run subrs f { d with numOps := d.numOps + stemTokens l,
                             res := { d.res with hstem := d.res.hstem ++ stemsDecW wf d.lsbY l } } rest callers
  | [], f, d, _, _, _ => by simp [stemTokens, encodeStemsW, stemsDecW]
  | [a], f, d, _, _, _ => by simp [stemTokens, encodeStemsW, stemsDecW]
  | a :: b :: l, f, d, hfit, hst, ho => by
    simp only [stemsFitW, Bool.and_eq_true, decide_eq_true_eq] at hfit
    obtain ⟨⟨ha, hw⟩, hl⟩ := hfit
    simp only [stemTokens] at ho
    have eop : appendOp 1 = [1] := rfl
    simp only [stemTokens, encodeStemsW, stemsDecW, eop, List.append_assoc, List.cons_append, List.nil_append]
    have ef : f + (3 + stemTokens l) = (f + stemTokens l) + 3 := by omega
    rw [ef, run_hstem_pair_gen subrs callers _ d a (wf a b) _ ha hw hst (by omega)]
    rw [run_hstemsW wf rest l f _ hl (by exact hst) (by simp only; omega)]
    simp only [List.append_assoc, List.cons_append, List.nil_append, Nat.add_assoc]

theorem run_vstemsW (wf : Int → Int → Int) (rest : List Nat) : ∀ (l : List Int) (f : Nat) (d : DState),
    stemsFitW wf l = true → d.stack = [] → d.numOps + stemTokens l ≤ maxOps →
    run subrs (f + stemTokens l) d (encodeStemsW wf 3 l ++ rest) callers
      = run subrs f { d with numOps := d.numOps + stemTokens l,
                             res := { d.res with vstem := d.res.vstem ++ stemsDecW wf d.lsbX l } } rest callers
  | [], f, d, _, _, _ => by simp [stemTokens, encodeStemsW, stemsDecW]
  | [a], f, d, _, _, _ => by simp [stemTokens, encodeStemsW, stemsDecW]
  | a :: b :: l, f, d, hfit, hst, ho => by
    simp only [stemsFitW, Bool.and_eq_true, decide_eq_true_eq] at hfit
    obtain ⟨⟨ha, hw⟩, hl⟩ := hfit
    simp only [stemTokens] at ho
    have eop : appendOp 3 = [3] := rfl
    simp only [stemTokens, encodeStemsW, stemsDecW, eop, List.append_assoc, List.cons_append, List.nil_append]
    have ef : f + (3 + stemTokens l) = (f + stemTokens l) + 3 := by omega
    rw [ef, run_vstem_pair_gen subrs callers _ d a (wf a b) _ ha hw hst (by omega)]
    rw [run_vstemsW wf rest l f _ hl (by exact hst) (by simp only; omega)]
    simp only [List.append_assoc, List.cons_append, List.nil_append, Nat.add_assoc]

end

end PsVerif.Proofs.C20Stems
