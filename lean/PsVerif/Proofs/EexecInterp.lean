import PsVerif.Model.Interp
import PsVerif.Proofs.EexecStream
/-
Interpreter level of C05: the `eexec` operator of `Model/Interp.lean` run on an encrypted section has the effect
of the nested scan loop run on the plaintext. Statements and their reading: `Props/C05.lean`.

* `Call`, `Sub`, `Reach`: the calls of the thirteen functions of the mutual block that a run evaluates (the model
  keeps no trace, so the call tree is described by introduction rules with the model's own side conditions).
* `Bad`, `Safe`: the two events that end the correspondence — the `eexec` operator executed inside the section,
  the plain scanner running into the end of the plaintext — and their absence from a run.
* `StSim`, `Same`: interpreter states that differ only in `Sim`-related scanners; same result and related states.
* `allSim`: simultaneous induction on the fuel over all thirteen functions (`step_execOne` … `step_scanLoop`);
  the scanner is touched in three places only: `scanToken` (`SimM.scanToken`), the start check (`SimM.peekN`),
  `readstring` (`readstringCore_sim`, from `SimM.next` and `SimM.readN`).
* `eexec_operator_core`, `eexec_operator_binary`, `eexec_operator_hex`, `closeSection_at_end`.
-/
namespace PsVerif.Proofs.EexecInterp
open PsVerif.Model PsVerif.Proofs.EexecStream

/-! ### the calls of a run -/

/-- a call of one of the thirteen functions of the interpreter's mutual block -/
inductive Call where
  | one (f m : Nat) (s : State) (o : Obj) (e : Bool)
  | body (f m : Nat) (s : State) (o : Obj) (e : Bool)
  | tail (f m : Nat) (s : State) (o : Obj) (e c : Bool)
  | run (f m : Nat) (s : State) (ref off i todo : Nat)
  | call (f m : Nat) (s : State) (id : String)
  | forL (f m : Nat) (s : State) (v i l : Int) (p : Obj)
  | rep (f m : Nat) (s : State) (n : Nat) (p : Obj)
  | loop (f m : Nat) (s : State) (p : Obj)
  | fArr (f m : Nat) (s : State) (ref off i todo : Nat) (p : Obj)
  | fStr (f m : Nat) (s : State) (ref off i todo : Nat) (p : Obj)
  | fDict (f m : Nat) (s : State) (d : Nat) (ks : List Name) (p : Obj)
  | sRun (f m : Nat) (s : State)
  | sLoop (f m : Nat) (s : State)

/-- the start check of `scanRun` -/
def scanStart (s : State) : State × Option Err :=
  if s.checkStart then
    let (s1, r) := withScanner s (Scan.peekN 2 3)
    match r with
    | .ok head =>
      if head == [37, 33] then ({ s1 with checkStart := false }, none)
      else
        match (if head.length < 2 then s1.scanner.err else none) with
        | none | some .eof => (s1, some .noPS)
        | some e => (s1, some e)
    | .error e => (s1, some e)
  else (s, none)

/-- `Sub c c'`: evaluating the call `c` evaluates the call `c'` directly (the side conditions are those of the
model; states of later sub-calls are the results of the earlier ones) -/
inductive Sub : Call → Call → Prop where
  | one_t (f m s o) : Sub (.one (f + 1) m s o true)
      (.body f m { s with execDepth := s.execDepth + 1, hiDepth := max s.hiDepth (s.execDepth + 1) } o true)
  | one_f (f m s o) : Sub (.one (f + 1) m s o false) (.body f m s o false)
  | body (f m s o e) : Sub (.body (f + 1) m s o e) (.tail f m s o e e)
  | tail_name (f m s n e c v) : lookupName s.vm n = some v →
      Sub (.tail (f + 1) m s (.op n) e c) (.tail f m { s with numOps := s.numOps + 1 } v true c)
  | tail_builtin (f m s id e c) :
      Sub (.tail (f + 1) m s (.builtin id) e c) (.call f m { s with numOps := s.numOps + 1 } id)
  | tail_handler (f m s id e c s1 name handler) :
      callBuiltin f m { s with numOps := s.numOps + 1 } id = (s1, .err (.ps name)) →
      s1.vm.dictGet s1.vm.roots.errorDict name = some handler →
      Sub (.tail (f + 1) m s (.builtin id) e c)
        (.one f m { s1 with errors := name :: s1.errors, hiErrors := max s1.hiErrors (s1.errors.length + 1) } handler true)
  | tail_proc (f m s ref off len c) :
      Sub (.tail (f + 1) m s (.proc ref off len) true c)
        (.run f m (enterLevel c { s with numOps := s.numOps + 1 }) ref off 0 (len - 1))
  | tail_last (f m s ref off len c s1 last) :
      runBody f m (enterLevel c { s with numOps := s.numOps + 1 }) ref off 0 (len - 1) = (s1, .ok) →
      (s1.vm.getObjs ref)[off + (len - 1)]? = some last →
      Sub (.tail (f + 1) m s (.proc ref off len) true c) (.tail f m s1 last false true)
  | run_one (f m s ref off i todo tok) : (s.vm.getObjs ref)[off + i]? = some tok →
      Sub (.run (f + 1) m s ref off i (todo + 1)) (.one f m s tok false)
  | run_next (f m s ref off i todo tok s1) : (s.vm.getObjs ref)[off + i]? = some tok →
      execOne f m s tok false = (s1, .ok) →
      Sub (.run (f + 1) m s ref off i (todo + 1)) (.run f m s1 ref off (i + 1) todo)
  | exec_builtin (f m s b rest) : s.vm.stack = .builtin b :: rest →
      Sub (.call (f + 1) m s "exec") (.call f m (setStack s rest) b)
  | exec_proc (f m s o rest) : s.vm.stack = o :: rest →
      Sub (.call (f + 1) m s "exec") (.one f m (setStack s rest) o true)
  | if_ (f m s proc rest) : s.vm.stack = proc :: .bool true :: rest →
      Sub (.call (f + 1) m s "if") (.one f m (setStack s rest) proc true)
  | ifelse_t (f m s p1 p2 rest) : s.vm.stack = p2 :: p1 :: .bool true :: rest →
      Sub (.call (f + 1) m s "ifelse") (.one f m (setStack s rest) p1 true)
  | ifelse_f (f m s p1 p2 rest) : s.vm.stack = p2 :: p1 :: .bool false :: rest →
      Sub (.call (f + 1) m s "ifelse") (.one f m (setStack s rest) p2 true)
  | for_ (f m s proc lim inc ini rest) : s.vm.stack = proc :: .int lim :: .int inc :: .int ini :: rest →
      Sub (.call (f + 1) m s "for") (.forL f m (setStack s rest) ini inc lim proc)
  | repeat_ (f m s proc count rest) : s.vm.stack = proc :: .int count :: rest →
      Sub (.call (f + 1) m s "repeat") (.rep f m (setStack s rest) count.toNat proc)
  | loop_ (f m s proc rest) : s.vm.stack = proc :: rest →
      Sub (.call (f + 1) m s "loop") (.loop f m (setStack s rest) proc)
  | forall_arr (f m s proc r o l rest) : s.vm.stack = proc :: .arr r o l :: rest →
      Sub (.call (f + 1) m s "forall") (.fArr f m (setStack s rest) r o 0 l proc)
  | forall_str (f m s proc r o l rest) : s.vm.stack = proc :: .str r o l :: rest →
      Sub (.call (f + 1) m s "forall") (.fStr f m (setStack s rest) r o 0 l proc)
  | forall_dict (f m s proc d rest) : s.vm.stack = proc :: .dict d :: rest →
      Sub (.call (f + 1) m s "forall") (.fDict f m (setStack s rest) d (sortNames ((s.vm.getDict d).map (·.1))) proc)
  | forL_one (f m s v i l p) : Sub (.forL (f + 1) m s v i l p) (.one f m (pushS s (.int v)) p true)
  | forL_next (f m s v i l p s1) : execOne f m (pushS s (.int v)) p true = (s1, .ok) →
      Sub (.forL (f + 1) m s v i l p) (.forL f m s1 (wrap64 (v + i)) i l p)
  | rep_one (f m s n p) : Sub (.rep (f + 1) m s (n + 1) p) (.one f m s p true)
  | rep_next (f m s n p s1) : execOne f m s p true = (s1, .ok) →
      Sub (.rep (f + 1) m s (n + 1) p) (.rep f m s1 n p)
  | loop_one (f m s p) : Sub (.loop (f + 1) m s p) (.one f m s p true)
  | loop_next (f m s p s1) : execOne f m s p true = (s1, .ok) → Sub (.loop (f + 1) m s p) (.loop f m s1 p)
  | fArr_one (f m s ref off i todo p v) : (s.vm.getObjs ref)[off + i]? = some v →
      Sub (.fArr (f + 1) m s ref off i (todo + 1) p) (.one f m (pushS s v) p true)
  | fArr_next (f m s ref off i todo p v s1) : (s.vm.getObjs ref)[off + i]? = some v →
      execOne f m (pushS s v) p true = (s1, .ok) →
      Sub (.fArr (f + 1) m s ref off i (todo + 1) p) (.fArr f m s1 ref off (i + 1) todo p)
  | fStr_one (f m s ref off i todo p c) : (s.vm.getBytes ref)[off + i]? = some c →
      Sub (.fStr (f + 1) m s ref off i (todo + 1) p) (.one f m (pushS s (.int c.toNat)) p true)
  | fStr_next (f m s ref off i todo p c s1) : (s.vm.getBytes ref)[off + i]? = some c →
      execOne f m (pushS s (.int c.toNat)) p true = (s1, .ok) →
      Sub (.fStr (f + 1) m s ref off i (todo + 1) p) (.fStr f m s1 ref off (i + 1) todo p)
  | fDict_skip (f m s d k ks p) : s.vm.dictGet d k = none →
      Sub (.fDict (f + 1) m s d (k :: ks) p) (.fDict f m s d ks p)
  | fDict_one (f m s d k ks p v) : s.vm.dictGet d k = some v →
      Sub (.fDict (f + 1) m s d (k :: ks) p) (.one f m (setStack s (v :: .name k :: s.vm.stack)) p true)
  | fDict_next (f m s d k ks p v s1) : s.vm.dictGet d k = some v →
      execOne f m (setStack s (v :: .name k :: s.vm.stack)) p true = (s1, .ok) →
      Sub (.fDict (f + 1) m s d (k :: ks) p) (.fDict f m s1 d ks p)
  | sRun (f m s s1) : scanStart s = (s1, none) →
      Sub (.sRun (f + 1) m s) (.sLoop f m { s1 with scannerDepth := s1.scannerDepth + 1 })
  | sLoop_one (f m s s1 tok) : withScanner s Scan.scanToken = (s1, .ok tok) →
      Sub (.sLoop (f + 1) m s) (.one f m (objOfTok s1 tok).1 (objOfTok s1 tok).2 false)
  | sLoop_next (f m s s1 tok s3) : withScanner s Scan.scanToken = (s1, .ok tok) →
      execOne f m (objOfTok s1 tok).1 (objOfTok s1 tok).2 false = (s3, .ok) →
      Sub (.sLoop (f + 1) m s) (.sLoop f m s3)

/-- `c'` is evaluated in the course of evaluating `c` -/
inductive Reach : Call → Call → Prop where
  | refl (c) : Reach c c
  | step {c c' c''} : Sub c c' → Reach c' c'' → Reach c c''

/-- the events that end the correspondence between the encrypted and the plain run: the `eexec` operator is
executed inside the section (the encrypted side refuses it with `invalidaccess`, the plain side would start
decrypting), or the plain scanner runs into the end of the plaintext -/
def Bad : Call → Prop
  | .call (_ + 1) _ _ "eexec" => True
  | .call (_ + 1) _ s "readstring" => Exhausted (bReadstring s).1.scanner
  | .sLoop (_ + 1) _ s => Exhausted (withScanner s Scan.scanToken).1.scanner
  | .sRun (_ + 1) _ s => s.checkStart = true ∧ Exhausted (withScanner s (Scan.peekN 2 3)).1.scanner
  | _ => False

/-- no bad event in the evaluation of `c` -/
def Safe (c : Call) : Prop := ∀ c', Reach c c' → ¬ Bad c'

theorem Safe.sub {c c' : Call} (h : Safe c) (hs : Sub c c') : Safe c' :=
  fun c'' hr => h c'' (Reach.step hs hr)

theorem Safe.here {c : Call} (h : Safe c) : ¬ Bad c := h c (Reach.refl c)

theorem Safe.intro {c : Call} (hb : ¬ Bad c) (hs : ∀ c', Sub c c' → Safe c') : Safe c := by
  intro c' hr
  cases hr with
  | refl => exact hb
  | step h hr' => exact hs _ h c' hr'

/-! ### the simulation relation on interpreter states -/

section
variable {dl mode : Nat} {cipher rest : List UInt8}

/-- the two interpreter states agree in everything but the scanner, and the scanners are `Sim`-related -/
def StSim (dl mode : Nat) (cipher rest : List UInt8) (a b : State) : Prop :=
  SimL dl mode cipher rest a.scanner b.scanner ∧ a = { b with scanner := a.scanner }

/-- same result, related states -/
def Same (dl mode : Nat) (cipher rest : List UInt8) (pa pb : State × Res) : Prop :=
  pa.2 = pb.2 ∧ StSim dl mode cipher rest pa.1 pb.1

theorem StSim.of_sim {b : State} {se : Scanner} (h : SimL dl mode cipher rest se b.scanner) :
    StSim dl mode cipher rest { b with scanner := se } b := ⟨h, rfl⟩

theorem Same.mk' {a b : State} {r : Res} (h : StSim dl mode cipher rest a b) : Same dl mode cipher rest (a, r) (b, r) := ⟨rfl, h⟩

theorem Same.elim {pa pb : State × Res} (h : Same dl mode cipher rest pa pb) :
    ∃ sb se r, pa = ({ sb with scanner := se }, r) ∧ pb = (sb, r) ∧ SimL dl mode cipher rest se sb.scanner := by
  obtain ⟨sa, ra⟩ := pa
  obtain ⟨sb, rb⟩ := pb
  obtain ⟨hr, hs1, hs2⟩ := h
  dsimp only at hr hs1 hs2
  subst hr
  exact ⟨sb, sa.scanner, ra, by rw [← hs2], rfl, hs1⟩

theorem StSim.elim {a b : State} (h : StSim dl mode cipher rest a b) :
    ∃ se, a = { b with scanner := se } ∧ SimL dl mode cipher rest se b.scanner := ⟨a.scanner, h.2, h.1⟩

/-- what is proved for all functions of the mutual block at once -/
structure AllSim (dl mode : Nat) (cipher rest : List UInt8) (f m : Nat) : Prop where
  one : ∀ a b o e, StSim dl mode cipher rest a b → Safe (.one f m b o e) →
    Same dl mode cipher rest (execOne f m a o e) (execOne f m b o e)
  body : ∀ a b o e, StSim dl mode cipher rest a b → Safe (.body f m b o e) →
    Same dl mode cipher rest (execBody f m a o e) (execBody f m b o e)
  tail : ∀ a b o e c, StSim dl mode cipher rest a b → Safe (.tail f m b o e c) →
    Same dl mode cipher rest (execTail f m a o e c) (execTail f m b o e c)
  run : ∀ a b r o i n, StSim dl mode cipher rest a b → Safe (.run f m b r o i n) →
    Same dl mode cipher rest (runBody f m a r o i n) (runBody f m b r o i n)
  call : ∀ a b id, StSim dl mode cipher rest a b → Safe (.call f m b id) →
    Same dl mode cipher rest (callBuiltin f m a id) (callBuiltin f m b id)
  forL : ∀ a b v i l p, StSim dl mode cipher rest a b → Safe (.forL f m b v i l p) →
    Same dl mode cipher rest (forLoop f m a v i l p) (forLoop f m b v i l p)
  rep : ∀ a b n p, StSim dl mode cipher rest a b → Safe (.rep f m b n p) →
    Same dl mode cipher rest (repeatLoop f m a n p) (repeatLoop f m b n p)
  loop : ∀ a b p, StSim dl mode cipher rest a b → Safe (.loop f m b p) →
    Same dl mode cipher rest (loopLoop f m a p) (loopLoop f m b p)
  fArr : ∀ a b r o i n p, StSim dl mode cipher rest a b → Safe (.fArr f m b r o i n p) →
    Same dl mode cipher rest (forallArr f m a r o i n p) (forallArr f m b r o i n p)
  fStr : ∀ a b r o i n p, StSim dl mode cipher rest a b → Safe (.fStr f m b r o i n p) →
    Same dl mode cipher rest (forallStr f m a r o i n p) (forallStr f m b r o i n p)
  fDict : ∀ a b d ks p, StSim dl mode cipher rest a b → Safe (.fDict f m b d ks p) →
    Same dl mode cipher rest (forallDict f m a d ks p) (forallDict f m b d ks p)
  sRun : ∀ a b, StSim dl mode cipher rest a b → Safe (.sRun f m b) →
    Same dl mode cipher rest (scanRun f m a) (scanRun f m b)
  sLoop : ∀ a b, StSim dl mode cipher rest a b → Safe (.sLoop f m b) →
    Same dl mode cipher rest (scanLoop f m a) (scanLoop f m b)

theorem step_execOne {f m : Nat} (ih : AllSim dl mode cipher rest f m) (a b : State) (o : Obj) (e : Bool)
    (hs : StSim dl mode cipher rest a b) (hsafe : Safe (.one (f + 1) m b o e)) :
    Same dl mode cipher rest (execOne (f + 1) m a o e) (execOne (f + 1) m b o e) := by
  obtain ⟨se, rfl, hsim⟩ := hs.elim
  unfold execOne
  split
  · rename_i he
    subst he
    dsimp only
    split
    · exact Same.mk' ⟨hsim, rfl⟩
    · have h1 := ih.body { b with scanner := se, execDepth := b.execDepth + 1, hiDepth := max b.hiDepth (b.execDepth + 1) }
        { b with execDepth := b.execDepth + 1, hiDepth := max b.hiDepth (b.execDepth + 1) } o true ⟨hsim, rfl⟩
        (hsafe.sub (Sub.one_t f m b o))
      generalize execBody f m _ o true = pa at h1 ⊢
      generalize execBody f m _ o true = pb at h1 ⊢
      obtain ⟨sb, se1, r, rfl, rfl, hs1⟩ := h1.elim
      exact Same.mk' ⟨hs1, rfl⟩
  · rename_i he
    have he' : e = false := by simpa using he
    subst he'
    exact ih.body { b with scanner := se } b o false ⟨hsim, rfl⟩ (hsafe.sub (Sub.one_f f m b o))

theorem step_execBody {f m : Nat} (ih : AllSim dl mode cipher rest f m) (a b : State) (o : Obj) (e : Bool)
    (hs : StSim dl mode cipher rest a b) (hsafe : Safe (.body (f + 1) m b o e)) :
    Same dl mode cipher rest (execBody (f + 1) m a o e) (execBody (f + 1) m b o e) := by
  obtain ⟨se, rfl, hsim⟩ := hs.elim
  unfold execBody
  dsimp only
  repeat' split
  all_goals first
    | exact Same.mk' ⟨hsim, rfl⟩
    | exact ih.tail { b with scanner := se } b o e e ⟨hsim, rfl⟩ (hsafe.sub (Sub.body f m b o e))

/-- the common shape of the looping operators -/
def loopResult (p : State × Res) (next : State → State × Res) : State × Res :=
  match p with
  | (s1, r1) =>
    match r1 with
    | .err .exit => okS s1
    | .ok => next s1
    | _ => (s1, r1)

theorem same_loop {pa pb : State × Res} {na nb : State → State × Res}
    (h1 : Same dl mode cipher rest pa pb)
    (hn : ∀ sb se, pb = (sb, .ok) → SimL dl mode cipher rest se sb.scanner →
      Same dl mode cipher rest (na { sb with scanner := se }) (nb sb)) :
    Same dl mode cipher rest (loopResult pa na) (loopResult pb nb) := by
  obtain ⟨sb, se1, r, rfl, rfl, hs1⟩ := h1.elim
  unfold loopResult
  dsimp only
  split
  · exact Same.mk' ⟨hs1, rfl⟩
  · exact hn sb se1 rfl hs1
  · exact Same.mk' ⟨hs1, rfl⟩

theorem step_repeatLoop {f m : Nat} (ih : AllSim dl mode cipher rest f m) (a b : State) (k : Nat) (p : Obj)
    (hs : StSim dl mode cipher rest a b) (hsafe : Safe (.rep (f + 1) m b k p)) :
    Same dl mode cipher rest (repeatLoop (f + 1) m a k p) (repeatLoop (f + 1) m b k p) := by
  obtain ⟨se, rfl, hsim⟩ := hs.elim
  cases k with
  | zero => unfold repeatLoop; exact Same.mk' ⟨hsim, rfl⟩
  | succ k =>
    unfold repeatLoop
    exact same_loop (na := fun s1 => repeatLoop f m s1 k p) (nb := fun s1 => repeatLoop f m s1 k p)
      (ih.one _ b p true ⟨hsim, rfl⟩ (hsafe.sub (Sub.rep_one f m b k p)))
      (fun sb se' hb hs' => ih.rep _ sb k p ⟨hs', rfl⟩ (hsafe.sub (Sub.rep_next f m b k p sb hb)))

theorem step_loopLoop {f m : Nat} (ih : AllSim dl mode cipher rest f m) (a b : State) (p : Obj)
    (hs : StSim dl mode cipher rest a b) (hsafe : Safe (.loop (f + 1) m b p)) :
    Same dl mode cipher rest (loopLoop (f + 1) m a p) (loopLoop (f + 1) m b p) := by
  obtain ⟨se, rfl, hsim⟩ := hs.elim
  unfold loopLoop
  exact same_loop (na := fun s1 => loopLoop f m s1 p) (nb := fun s1 => loopLoop f m s1 p)
    (ih.one _ b p true ⟨hsim, rfl⟩ (hsafe.sub (Sub.loop_one f m b p)))
    (fun sb se' hb hs' => ih.loop _ sb p ⟨hs', rfl⟩ (hsafe.sub (Sub.loop_next f m b p sb hb)))

theorem step_forLoop {f m : Nat} (ih : AllSim dl mode cipher rest f m) (a b : State) (v i l : Int) (p : Obj)
    (hs : StSim dl mode cipher rest a b) (hsafe : Safe (.forL (f + 1) m b v i l p)) :
    Same dl mode cipher rest (forLoop (f + 1) m a v i l p) (forLoop (f + 1) m b v i l p) := by
  obtain ⟨se, rfl, hsim⟩ := hs.elim
  unfold forLoop
  split
  · exact Same.mk' ⟨hsim, rfl⟩
  · exact same_loop
      (na := fun s1 => if i > 0 ∧ v > maxInt64 - i ∨ i < 0 ∧ v < minInt64 - i then okS s1
        else forLoop f m s1 (wrap64 (v + i)) i l p)
      (nb := fun s1 => if i > 0 ∧ v > maxInt64 - i ∨ i < 0 ∧ v < minInt64 - i then okS s1
        else forLoop f m s1 (wrap64 (v + i)) i l p)
      (ih.one _ (pushS b (.int v)) p true ⟨hsim, rfl⟩ (hsafe.sub (Sub.forL_one f m b v i l p)))
      (fun sb se' hb hs' => by
        split
        · exact Same.mk' ⟨hs', rfl⟩
        · exact ih.forL _ sb _ i l p ⟨hs', rfl⟩ (hsafe.sub (Sub.forL_next f m b v i l p sb hb)))

theorem step_forallArr {f m : Nat} (ih : AllSim dl mode cipher rest f m) (a b : State) (r o i t : Nat) (p : Obj)
    (hs : StSim dl mode cipher rest a b) (hsafe : Safe (.fArr (f + 1) m b r o i t p)) :
    Same dl mode cipher rest (forallArr (f + 1) m a r o i t p) (forallArr (f + 1) m b r o i t p) := by
  obtain ⟨se, rfl, hsim⟩ := hs.elim
  cases t with
  | zero => unfold forallArr; exact Same.mk' ⟨hsim, rfl⟩
  | succ t =>
    unfold forallArr
    dsimp only
    split
    · exact Same.mk' ⟨hsim, rfl⟩
    · rename_i v hv
      exact same_loop (na := fun s1 => forallArr f m s1 r o (i + 1) t p) (nb := fun s1 => forallArr f m s1 r o (i + 1) t p)
        (ih.one _ (pushS b v) p true ⟨hsim, rfl⟩ (hsafe.sub (Sub.fArr_one f m b r o i t p v hv)))
        (fun sb se' hb hs' => ih.fArr _ sb r o (i + 1) t p ⟨hs', rfl⟩
          (hsafe.sub (Sub.fArr_next f m b r o i t p v sb hv hb)))

theorem step_forallStr {f m : Nat} (ih : AllSim dl mode cipher rest f m) (a b : State) (r o i t : Nat) (p : Obj)
    (hs : StSim dl mode cipher rest a b) (hsafe : Safe (.fStr (f + 1) m b r o i t p)) :
    Same dl mode cipher rest (forallStr (f + 1) m a r o i t p) (forallStr (f + 1) m b r o i t p) := by
  obtain ⟨se, rfl, hsim⟩ := hs.elim
  cases t with
  | zero => unfold forallStr; exact Same.mk' ⟨hsim, rfl⟩
  | succ t =>
    unfold forallStr
    dsimp only
    split
    · exact Same.mk' ⟨hsim, rfl⟩
    · rename_i c hc
      exact same_loop (na := fun s1 => forallStr f m s1 r o (i + 1) t p) (nb := fun s1 => forallStr f m s1 r o (i + 1) t p)
        (ih.one _ (pushS b (.int c.toNat)) p true ⟨hsim, rfl⟩ (hsafe.sub (Sub.fStr_one f m b r o i t p c hc)))
        (fun sb se' hb hs' => ih.fStr _ sb r o (i + 1) t p ⟨hs', rfl⟩
          (hsafe.sub (Sub.fStr_next f m b r o i t p c sb hc hb)))

theorem step_forallDict {f m : Nat} (ih : AllSim dl mode cipher rest f m) (a b : State) (d : Nat) (ks : List Name) (p : Obj)
    (hs : StSim dl mode cipher rest a b) (hsafe : Safe (.fDict (f + 1) m b d ks p)) :
    Same dl mode cipher rest (forallDict (f + 1) m a d ks p) (forallDict (f + 1) m b d ks p) := by
  obtain ⟨se, rfl, hsim⟩ := hs.elim
  cases ks with
  | nil => unfold forallDict; exact Same.mk' ⟨hsim, rfl⟩
  | cons k ks =>
    unfold forallDict
    dsimp only
    split
    · rename_i hk
      exact ih.fDict _ b d ks p ⟨hsim, rfl⟩ (hsafe.sub (Sub.fDict_skip f m b d k ks p hk))
    · rename_i v hv
      exact same_loop (na := fun s1 => forallDict f m s1 d ks p) (nb := fun s1 => forallDict f m s1 d ks p)
        (ih.one _ (setStack b (v :: .name k :: b.vm.stack)) p true ⟨hsim, rfl⟩
          (hsafe.sub (Sub.fDict_one f m b d k ks p v hv)))
        (fun sb se' hb hs' => ih.fDict _ sb d ks p ⟨hs', rfl⟩
          (hsafe.sub (Sub.fDict_next f m b d k ks p v sb hv hb)))

theorem step_runBody {f m : Nat} (ih : AllSim dl mode cipher rest f m) (a b : State) (r o i t : Nat)
    (hs : StSim dl mode cipher rest a b) (hsafe : Safe (.run (f + 1) m b r o i t)) :
    Same dl mode cipher rest (runBody (f + 1) m a r o i t) (runBody (f + 1) m b r o i t) := by
  obtain ⟨se, rfl, hsim⟩ := hs.elim
  cases t with
  | zero => unfold runBody; exact Same.mk' ⟨hsim, rfl⟩
  | succ t =>
    unfold runBody
    dsimp only
    split
    · exact Same.mk' ⟨hsim, rfl⟩
    · rename_i tok htok
      have h1 := ih.one { b with scanner := se } b tok false ⟨hsim, rfl⟩ (hsafe.sub (Sub.run_one f m b r o i t tok htok))
      generalize execOne f m { b with scanner := se } tok false = pa at h1 ⊢
      generalize hb : execOne f m b tok false = pb at h1 ⊢
      obtain ⟨sb, se1, r1, rfl, rfl, hs1⟩ := h1.elim
      dsimp only
      split
      · exact ih.run _ sb r o (i + 1) t ⟨hs1, rfl⟩ (hsafe.sub (Sub.run_next f m b r o i t tok sb htok hb))
      · exact Same.mk' ⟨hs1, rfl⟩

theorem withScanner_scanner {α : Type} (b : State) (m : Scan.SM α) :
    (withScanner b m).1.scanner = (m b.scanner).2 := by
  unfold withScanner
  generalize m b.scanner = p
  obtain ⟨r, sc⟩ := p
  rfl

theorem withScanner_sim {α : Type} {m : Scan.SM α} (hm : SimM m) {b : State} {se : Scanner}
    (hsim : SimL dl mode cipher rest se b.scanner) (hne : ¬ Exhausted (withScanner b m).1.scanner) :
    ∃ se', withScanner { b with scanner := se } m = ({ (withScanner b m).1 with scanner := se' }, (withScanner b m).2) ∧
      SimL dl mode cipher rest se' (withScanner b m).1.scanner := by
  rcases hm.1 dl mode cipher rest se b.scanner hsim with ⟨r, se', sp', h1, h2, h'⟩ | hex
  · refine ⟨se', ?_, ?_⟩
    · simp only [withScanner, h1, h2]
    · simp only [withScanner, h2]; exact h'
  · exact absurd (by rw [withScanner_scanner]; exact hex) hne

theorem objOfTok_sc (b : State) (sc : Scanner) (tok : Scan.Tok) :
    objOfTok { b with scanner := sc } tok = ({ (objOfTok b tok).1 with scanner := sc }, (objOfTok b tok).2) := by
  cases tok <;> rfl

theorem objOfTok_scanner (b : State) (tok : Scan.Tok) : (objOfTok b tok).1.scanner = b.scanner := by
  cases tok <;> rfl

theorem step_scanLoop {f m : Nat} (ih : AllSim dl mode cipher rest f m) (a b : State)
    (hs : StSim dl mode cipher rest a b) (hsafe : Safe (.sLoop (f + 1) m b)) :
    Same dl mode cipher rest (scanLoop (f + 1) m a) (scanLoop (f + 1) m b) := by
  obtain ⟨se, rfl, hsim⟩ := hs.elim
  obtain ⟨se1, e1, hs1⟩ := withScanner_sim SimM.scanToken hsim hsafe.here
  unfold scanLoop
  rw [e1]
  generalize hb : withScanner b Scan.scanToken = pb at hs1 ⊢
  obtain ⟨s1, r1⟩ := pb
  dsimp only at hs1 ⊢
  split
  · exact Same.mk' ⟨hs1, rfl⟩
  · exact Same.mk' ⟨hs1, rfl⟩
  · rename_i tok
    rw [objOfTok_sc]
    have hs2 : SimL dl mode cipher rest se1 (objOfTok s1 tok).1.scanner := by rw [objOfTok_scanner]; exact hs1
    have h3 := ih.one { (objOfTok s1 tok).1 with scanner := se1 } (objOfTok s1 tok).1 (objOfTok s1 tok).2 false
      ⟨hs2, rfl⟩ (hsafe.sub (Sub.sLoop_one f m b s1 tok hb))
    generalize execOne f m { (objOfTok s1 tok).1 with scanner := se1 } (objOfTok s1 tok).2 false = pa at h3 ⊢
    generalize hb3 : execOne f m (objOfTok s1 tok).1 (objOfTok s1 tok).2 false = pb3 at h3 ⊢
    obtain ⟨s3, se3, r3, rfl, rfl, hs3⟩ := h3.elim
    dsimp only
    split
    · exact ih.sLoop _ s3 ⟨hs3, rfl⟩ (hsafe.sub (Sub.sLoop_next f m b s1 tok s3 hb hb3))
    · exact Same.mk' ⟨hs3, rfl⟩

theorem scanRun_eq (f m : Nat) (s : State) :
    scanRun (f + 1) m s =
      match scanStart s with
      | (s1, some e) => (s1, .err e)
      | (s1, none) =>
        let (s2, r) := scanLoop f m { s1 with scannerDepth := s1.scannerDepth + 1 }
        ({ s2 with scannerDepth := s2.scannerDepth - 1 }, r) := by
  unfold scanRun scanStart
  rfl

theorem scanStart_sim {b : State} {se : Scanner} (hsim : SimL dl mode cipher rest se b.scanner)
    (hne : b.checkStart = true → ¬ Exhausted (withScanner b (Scan.peekN 2 3)).1.scanner) :
    ∃ se', scanStart { b with scanner := se } = ({ (scanStart b).1 with scanner := se' }, (scanStart b).2) ∧
      SimL dl mode cipher rest se' (scanStart b).1.scanner := by
  unfold scanStart
  dsimp only
  split
  · rename_i hcs
    obtain ⟨se1, e1, hs1⟩ := withScanner_sim (SimM.peekN 2 3) hsim (hne hcs)
    rw [e1]
    generalize withScanner b (Scan.peekN 2 3) = pb at hs1 ⊢
    obtain ⟨s1, r1⟩ := pb
    dsimp only at hs1 ⊢
    rw [hs1.err_eq]
    repeat' split
    all_goals exact ⟨se1, rfl, hs1⟩
  · exact ⟨se, rfl, hsim⟩

theorem step_scanRun {f m : Nat} (ih : AllSim dl mode cipher rest f m) (a b : State)
    (hs : StSim dl mode cipher rest a b) (hsafe : Safe (.sRun (f + 1) m b)) :
    Same dl mode cipher rest (scanRun (f + 1) m a) (scanRun (f + 1) m b) := by
  obtain ⟨se, rfl, hsim⟩ := hs.elim
  have hne : b.checkStart = true → ¬ Exhausted (withScanner b (Scan.peekN 2 3)).1.scanner :=
    fun hc hex => hsafe.here ⟨hc, hex⟩
  obtain ⟨se1, e1, hs1⟩ := scanStart_sim hsim hne
  rw [scanRun_eq, scanRun_eq, e1]
  generalize hb : scanStart b = pb at hs1 ⊢
  obtain ⟨s1, st⟩ := pb
  dsimp only at hs1 ⊢
  cases st with
  | some e => exact Same.mk' ⟨hs1, rfl⟩
  | none =>
    dsimp only
    have h2 := ih.sLoop { s1 with scanner := se1, scannerDepth := s1.scannerDepth + 1 }
      { s1 with scannerDepth := s1.scannerDepth + 1 } ⟨hs1, rfl⟩ (hsafe.sub (Sub.sRun f m b s1 hb))
    generalize scanLoop f m { s1 with scanner := se1, scannerDepth := s1.scannerDepth + 1 } = pa at h2 ⊢
    generalize scanLoop f m { s1 with scannerDepth := s1.scannerDepth + 1 } = pb2 at h2 ⊢
    obtain ⟨s2, se2, r2, rfl, rfl, hs2⟩ := h2.elim
    exact Same.mk' ⟨hs2, rfl⟩

theorem enterLevel_sc (c : Bool) (b : State) (sc : Scanner) :
    enterLevel c { b with scanner := sc } = { enterLevel c b with scanner := sc } := by
  cases c <;> rfl

theorem enterLevel_scanner (c : Bool) (b : State) : (enterLevel c b).scanner = b.scanner := by
  cases c <;> rfl

theorem same_leave {c : Bool} {pa pb : State × Res} (h : Same dl mode cipher rest pa pb) :
    Same dl mode cipher rest (leaveLevel c pa) (leaveLevel c pb) := by
  obtain ⟨sb, se1, r, rfl, rfl, hs1⟩ := h.elim
  cases c
  · exact Same.mk' ⟨hs1, rfl⟩
  · exact Same.mk' ⟨hs1, rfl⟩

theorem step_execTail {f m : Nat} (ih : AllSim dl mode cipher rest f m) (a b : State) (o : Obj) (e c : Bool)
    (hs : StSim dl mode cipher rest a b) (hsafe : Safe (.tail (f + 1) m b o e c)) :
    Same dl mode cipher rest (execTail (f + 1) m a o e c) (execTail (f + 1) m b o e c) := by
  obtain ⟨se, rfl, hsim⟩ := hs.elim
  unfold execTail
  dsimp only
  split
  · exact Same.mk' ⟨hsim, rfl⟩
  · split
    · -- a name
      rename_i n
      split
      · exact Same.mk' ⟨hsim, rfl⟩
      · rename_i v hv
        exact ih.tail { b with scanner := se, numOps := b.numOps + 1 } { b with numOps := b.numOps + 1 } v true c
          ⟨hsim, rfl⟩ (hsafe.sub (Sub.tail_name f m b n e c v hv))
    · -- a builtin
      rename_i id
      have h1 := ih.call { b with scanner := se, numOps := b.numOps + 1 } { b with numOps := b.numOps + 1 } id
        ⟨hsim, rfl⟩ (hsafe.sub (Sub.tail_builtin f m b id e c))
      generalize callBuiltin f m { b with scanner := se, numOps := b.numOps + 1 } id = pa at h1 ⊢
      generalize hb : callBuiltin f m { b with numOps := b.numOps + 1 } id = pb at h1 ⊢
      obtain ⟨s1, se1, r1, rfl, rfl, hs1⟩ := h1.elim
      dsimp only
      split
      · rename_i name
        split
        · split
          · rename_i handler hh
            have h3 := ih.one
              { s1 with scanner := se1, errors := name :: s1.errors, hiErrors := max s1.hiErrors (s1.errors.length + 1) }
              { s1 with errors := name :: s1.errors, hiErrors := max s1.hiErrors (s1.errors.length + 1) } handler true
              ⟨hs1, rfl⟩ (hsafe.sub (Sub.tail_handler f m b id e c s1 name handler hb hh))
            generalize execOne f m _ handler true = pa3 at h3 ⊢
            generalize execOne f m _ handler true = pb3 at h3 ⊢
            obtain ⟨s3, se3, r3, rfl, rfl, hs3⟩ := h3.elim
            exact Same.mk' ⟨hs3, rfl⟩
          · exact Same.mk' ⟨hs1, rfl⟩
        · exact Same.mk' ⟨hs1, rfl⟩
      · exact Same.mk' ⟨hs1, rfl⟩
    · -- a procedure
      rename_i ref off len
      split
      · rename_i he
        subst he
        split
        · exact Same.mk' ⟨hsim, rfl⟩
        · split
          · exact Same.mk' ⟨hsim, rfl⟩
          · apply same_leave
            have ee : enterLevel c { b with scanner := se, numOps := b.numOps + 1 } =
                { enterLevel c { b with numOps := b.numOps + 1 } with scanner := se } := by cases c <;> rfl
            rw [ee]
            have hse : SimL dl mode cipher rest se (enterLevel c { b with numOps := b.numOps + 1 }).scanner := by
              rw [enterLevel_scanner]; exact hsim
            have h1 := ih.run { enterLevel c { b with numOps := b.numOps + 1 } with scanner := se }
              (enterLevel c { b with numOps := b.numOps + 1 }) ref off 0 (len - 1) ⟨hse, rfl⟩
              (hsafe.sub (Sub.tail_proc f m b ref off len c))
            generalize runBody f m { enterLevel c { b with numOps := b.numOps + 1 } with scanner := se } ref off 0 (len - 1) = pa at h1 ⊢
            generalize hb : runBody f m (enterLevel c { b with numOps := b.numOps + 1 }) ref off 0 (len - 1) = pb at h1 ⊢
            obtain ⟨s1, se1, r1, rfl, rfl, hs1⟩ := h1.elim
            dsimp only
            split
            · split
              · rename_i last hl
                exact ih.tail { s1 with scanner := se1 } s1 last false true ⟨hs1, rfl⟩
                  (hsafe.sub (Sub.tail_last f m b ref off len c s1 last hb hl))
              · exact Same.mk' ⟨hs1, rfl⟩
            · exact Same.mk' ⟨hs1, rfl⟩
      · exact Same.mk' ⟨hsim, rfl⟩
    · exact Same.mk' ⟨hsim, rfl⟩

theorem readstringCore_sim (vm : VM) (d : Nat) {se sp : Scanner} (h : SimL dl mode cipher rest se sp) :
    (∃ se', readstringCore vm se d = ((readstringCore vm sp d).1, se', (readstringCore vm sp d).2.2) ∧
      SimL dl mode cipher rest se' (readstringCore vm sp d).2.1) ∨ Exhausted (readstringCore vm sp d).2.1 := by
  unfold readstringCore
  split
  · split
    · dsimp only
      split
      · exact Or.inl ⟨se, rfl, h⟩
      · rename_i l _ _
        rcases SimM.next.1 dl mode cipher rest se sp h with ⟨r1, se2, sp2, e1, e2, h2⟩ | hex
        · rw [e1, e2]
          dsimp only
          split
          · exact Or.inl ⟨se2, rfl, h2⟩
          · rcases (SimM.readN l []).1 dl mode cipher rest se2 sp2 h2 with ⟨r2, se3, sp3, e3, e4, h3⟩ | hex2
            · rw [e3, e4]
              dsimp only
              repeat' split
              all_goals exact Or.inl ⟨se3, rfl, h3⟩
            · right
              generalize Scan.readN l [] sp2 = q at hex2 ⊢
              obtain ⟨r2, sc3⟩ := q
              dsimp only at hex2 ⊢
              repeat' split
              all_goals exact hex2
        · right
          generalize Scan.next sp = q at hex ⊢
          obtain ⟨r1, sc2⟩ := q
          dsimp only at hex ⊢
          split
          · exact hex
          · have hex2 := (SimM.readN l []).2 sc2 hex
            generalize Scan.readN l [] sc2 = q at hex2 ⊢
            obtain ⟨r2, sc3⟩ := q
            dsimp only at hex2 ⊢
            repeat' split
            all_goals exact hex2
    · exact Or.inl ⟨se, rfl, h⟩
  · exact Or.inl ⟨se, rfl, h⟩

theorem bReadstring_sim {b : State} {se : Scanner} (hsim : SimL dl mode cipher rest se b.scanner)
    (hne : ¬ Exhausted (bReadstring b).1.scanner) :
    Same dl mode cipher rest (bReadstring { b with scanner := se }) (bReadstring b) := by
  rcases readstringCore_sim b.vm b.scannerDepth hsim with ⟨se', e, hs'⟩ | hex
  · unfold bReadstring
    dsimp only
    rw [e]
    exact Same.mk' ⟨hs', rfl⟩
  · exact absurd hex hne

theorem step_callBuiltin {f m : Nat} (ih : AllSim dl mode cipher rest f m) (a b : State) (id : String)
    (hs : StSim dl mode cipher rest a b) (hsafe : Safe (.call (f + 1) m b id)) :
    Same dl mode cipher rest (callBuiltin (f + 1) m a id) (callBuiltin (f + 1) m b id) := by
  obtain ⟨se, rfl, hsim⟩ := hs.elim
  unfold callBuiltin
  dsimp only
  split
  · -- exec
    split
    · exact Same.mk' ⟨hsim, rfl⟩
    · rename_i obj rest hst
      split
      · rename_i bi
        exact ih.call { setStack b rest with scanner := se } (setStack b rest) bi ⟨hsim, rfl⟩
          (hsafe.sub (Sub.exec_builtin f m b bi rest hst))
      · exact ih.one { setStack b rest with scanner := se } (setStack b rest) _ true ⟨hsim, rfl⟩
          (hsafe.sub (Sub.exec_proc f m b _ rest hst))
      · exact Same.mk' ⟨hsim, rfl⟩
  · -- if
    split
    · rename_i proc c rest hst
      split
      · rename_i cond
        split
        · rename_i hc
          subst hc
          exact ih.one { setStack b rest with scanner := se } (setStack b rest) proc true ⟨hsim, rfl⟩
            (hsafe.sub (Sub.if_ f m b proc rest hst))
        · exact Same.mk' ⟨hsim, rfl⟩
      · exact Same.mk' ⟨hsim, rfl⟩
    · exact Same.mk' ⟨hsim, rfl⟩
  · -- ifelse
    split
    · rename_i p2 p1 c rest hst
      split
      · rename_i cond
        split
        · rename_i hc
          subst hc
          exact ih.one { setStack b rest with scanner := se } (setStack b rest) p1 true ⟨hsim, rfl⟩
            (hsafe.sub (Sub.ifelse_t f m b p1 p2 rest hst))
        · rename_i hc
          have hc' : cond = false := by simpa using hc
          subst hc'
          exact ih.one { setStack b rest with scanner := se } (setStack b rest) p2 true ⟨hsim, rfl⟩
            (hsafe.sub (Sub.ifelse_f f m b p1 p2 rest hst))
      · exact Same.mk' ⟨hsim, rfl⟩
    · exact Same.mk' ⟨hsim, rfl⟩
  · -- for
    split
    · rename_i proc lim inc ini rest hst
      split
      · split
        · split
          · exact ih.forL { setStack b rest with scanner := se } (setStack b rest) _ _ _ proc ⟨hsim, rfl⟩
              (hsafe.sub (Sub.for_ f m b proc _ _ _ rest hst))
          · exact Same.mk' ⟨hsim, rfl⟩
        · exact Same.mk' ⟨hsim, rfl⟩
      · exact Same.mk' ⟨hsim, rfl⟩
    · exact Same.mk' ⟨hsim, rfl⟩
  · -- repeat
    split
    · rename_i proc c rest hst
      split
      · split
        · exact Same.mk' ⟨hsim, rfl⟩
        · split
          · exact ih.rep { setStack b rest with scanner := se } (setStack b rest) _ _ ⟨hsim, rfl⟩
              (hsafe.sub (Sub.repeat_ f m b _ _ rest hst))
          · exact Same.mk' ⟨hsim, rfl⟩
      · exact Same.mk' ⟨hsim, rfl⟩
    · exact Same.mk' ⟨hsim, rfl⟩
  · -- loop
    split
    · exact Same.mk' ⟨hsim, rfl⟩
    · rename_i proc rest hst
      exact ih.loop { setStack b rest with scanner := se } (setStack b rest) proc ⟨hsim, rfl⟩
        (hsafe.sub (Sub.loop_ f m b proc rest hst))
  · -- forall
    split
    · rename_i proc obj rest hst
      split
      · split
        · exact ih.fArr { setStack b rest with scanner := se } (setStack b rest) _ _ 0 _ _ ⟨hsim, rfl⟩
            (hsafe.sub (Sub.forall_arr f m b _ _ _ _ rest hst))
        · exact ih.fStr { setStack b rest with scanner := se } (setStack b rest) _ _ 0 _ _ ⟨hsim, rfl⟩
            (hsafe.sub (Sub.forall_str f m b _ _ _ _ rest hst))
        · exact ih.fDict { setStack b rest with scanner := se } (setStack b rest) _ _ _ ⟨hsim, rfl⟩
            (hsafe.sub (Sub.forall_dict f m b _ _ rest hst))
        · exact Same.mk' ⟨hsim, rfl⟩
      · exact Same.mk' ⟨hsim, rfl⟩
    · exact Same.mk' ⟨hsim, rfl⟩
  · -- readstring
    exact bReadstring_sim hsim hsafe.here
  · -- defaultErrorHandler
    unfold defaultErrorHandler
    dsimp only
    split
    · exact Same.mk' ⟨hsim, rfl⟩
    · exact Same.mk' ⟨hsim, rfl⟩
  · -- eexec
    exact absurd trivial hsafe.here
  · -- data operators
    split
    · exact Same.mk' ⟨hsim, rfl⟩
    · exact Same.mk' ⟨hsim, rfl⟩

/-- **the interpreter cannot tell an eexec section from its plaintext**: every function of the mutual block, run on
states that differ only in `Sim`-related scanners, returns the same result and related states, as long as the plain
run meets no `Bad` event -/
theorem allSim (m : Nat) : ∀ f, AllSim dl mode cipher rest f m := by
  intro f
  induction f with
  | zero =>
    constructor
    · intro a b o e hs _; unfold execOne; exact Same.mk' hs
    · intro a b o e hs _; unfold execBody; exact Same.mk' hs
    · intro a b o e c hs _; unfold execTail; exact Same.mk' hs
    · intro a b r o i n hs _; unfold runBody; exact Same.mk' hs
    · intro a b id hs _; unfold callBuiltin; exact Same.mk' hs
    · intro a b v i l p hs _; unfold forLoop; exact Same.mk' hs
    · intro a b n p hs _; unfold repeatLoop; exact Same.mk' hs
    · intro a b p hs _; unfold loopLoop; exact Same.mk' hs
    · intro a b r o i n p hs _; unfold forallArr; exact Same.mk' hs
    · intro a b r o i n p hs _; unfold forallStr; exact Same.mk' hs
    · intro a b d ks p hs _; unfold forallDict; exact Same.mk' hs
    · intro a b hs _; unfold scanRun; exact Same.mk' hs
    · intro a b hs _; unfold scanLoop; exact Same.mk' hs
  | succ f ih =>
    exact ⟨step_execOne ih, step_execBody ih, step_execTail ih, step_runBody ih, step_callBuiltin ih, step_forLoop ih,
      step_repeatLoop ih, step_loopLoop ih, step_forallArr ih, step_forallStr ih, step_forallDict ih, step_scanRun ih,
      step_scanLoop ih⟩

/-! ### the `eexec` operator -/

/-- what the `eexec` operator returns when the nested scan loop over the plaintext ended in the state `bF` with the
result `rF`: everything but the scanner and the dictionary stack is `bF`; the dictionary stack is cut back to its
old height `k`; the scanner is the encrypted-side scanner `seF`, with decryption switched off if the section was
closed (`closefile` or the end of the input). -/
def closeSection (k : Nat) (bF : State) (rF : Res) (seF : Scanner) : State × Res :=
  match rF with
  | .ok | .err .eof => okS { bF with vm := truncDictStack bF.vm k, scanner := { seF with eexec := 0 } }
  | _ => ({ bF with vm := truncDictStack bF.vm k, scanner := seF }, rF)

/-- the interpreter state in which the plaintext is executed: `.file` popped, systemdict pushed, plain scanner -/
def plainState (a0 : State) (st : List Obj) (sp : Scanner) : State :=
  { a0 with vm := pushDict { a0.vm with stack := st } a0.vm.roots.systemDict, scanner := sp }

/-- **C05 on the model, generic form**: if `beginEexec` leaves a scanner `s1` that is `Sim`-related to the plain
scanner over `plain`, the `eexec` operator does what the nested scan loop `scanRun` does on the plaintext (with
systemdict pushed), and then cuts the dictionary stack back — provided the plain run meets no `Bad` event. -/
theorem eexec_operator_core (fuel m : Nat) (a0 : State) (st : List Obj) (s1 sp1 : Scanner)
    (hst : a0.vm.stack = .file :: st) (hdepth : a0.scannerDepth ≠ 0)
    (hbegin : Scan.beginEexec a0.scanner = (.ok (), s1))
    (hsim : SimL dl mode cipher rest s1 sp1)
    (hsafe : Safe (.sRun fuel m (plainState a0 st sp1))) :
    ∃ seF, SimL dl mode cipher rest seF (scanRun fuel m (plainState a0 st sp1)).1.scanner ∧
      callBuiltin (fuel + 1) m a0 "eexec" =
        closeSection a0.vm.dictStack.length (scanRun fuel m (plainState a0 st sp1)).1
          (scanRun fuel m (plainState a0 st sp1)).2 seF := by
  have h1 := (allSim (dl := dl) (mode := mode) (cipher := cipher) (rest := rest) m fuel).sRun
    { plainState a0 st sp1 with scanner := s1 } (plainState a0 st sp1) ⟨hsim, rfl⟩ hsafe
  generalize hb : scanRun fuel m (plainState a0 st sp1) = pb at h1 ⊢
  generalize ha : scanRun fuel m { plainState a0 st sp1 with scanner := s1 } = pa at h1
  obtain ⟨bF, seF, rF, rfl, rfl, hsF⟩ := h1.elim
  refine ⟨seF, hsF, ?_⟩
  have hd : (a0.scannerDepth == 0) = false := by simpa using hdepth
  unfold callBuiltin
  simp only [hst, hd]
  have hw : withScanner { a0 with vm := pushDict { a0.vm with stack := st } a0.vm.roots.systemDict } Scan.beginEexec =
      ({ plainState a0 st sp1 with scanner := s1 }, .ok ()) := by
    simp only [withScanner, hbegin, plainState]
  simp only [Bool.false_eq_true, if_false]
  rw [hw]
  dsimp only
  rw [ha]
  dsimp only
  unfold closeSection
  cases rF with
  | err e => cases e <;> rfl
  | _ => rfl

/-- when the section was closed (`closefile`, or the scan loop ran to the end) and every plaintext byte has been
decrypted, the scanner the operator leaves is the plain run's final scanner continued with the clear text `rest`
(only `src`, the cipher register and — by the constant `dl` — the line counter differ from the plain scanner) -/
theorem closeSection_at_end_line {k : Nat} {bF : State} {rF : Res} {seF : Scanner}
    (h : SimL dl mode cipher rest seF bF.scanner) (hend : bF.scanner.src = []) (hr : rF = .ok ∨ rF = .err .eof) :
    closeSection k bF rF seF =
      okS { bF with vm := truncDictStack bF.vm k,
                    scanner := { bF.scanner with src := rest, r := seF.r, line := bF.scanner.line + dl } } := by
  have e : ({ seF with eexec := 0 } : Scanner) =
      { bF.scanner with src := rest, r := seF.r, line := bF.scanner.line + dl } := by
    have h1 := h.endEexec_at_end_line hend
    rw [endEexec_run] at h1
    exact (Prod.mk.inj h1).2
  unfold closeSection
  rcases hr with rfl | rfl
  · dsimp only; rw [e]
  · dsimp only; rw [e]

/-- … with equal line counters (only `src` and the cipher register differ from the plain scanner) -/
theorem closeSection_at_end {mode : Nat} {cipher rest : List UInt8} {k : Nat} {bF : State} {rF : Res} {seF : Scanner}
    (h : Sim mode cipher rest seF bF.scanner) (hend : bF.scanner.src = []) (hr : rF = .ok ∨ rF = .err .eof) :
    closeSection k bF rF seF =
      okS { bF with vm := truncDictStack bF.vm k, scanner := { bF.scanner with src := rest, r := seF.r } } :=
  closeSection_at_end_line h hend hr

/-- the plain scanner that stands at the beginning of the plaintext: the line counter of the clear scanner `s0`
advanced over `skipped` (white space and the decrypted random prefix), column 0, `crSeen` off, nothing peeked,
source `plain` -/
def plainStart (s0 : Scanner) (skipped : List UInt8) (r : UInt16) (plain : List UInt8) : Scanner :=
  { ov [] plain 0 r false (bumps s0 skipped) with col := 0, crSeen := false }

theorem plainOf_afterBegin (s0 : Scanner) (mode : Nat) (skipped : List UInt8) (r : UInt16) (src plain : List UInt8) :
    plainOf (afterBegin s0 mode skipped r src) plain = plainStart s0 skipped r plain := rfl

open PsVerif.Model.Cipher in
/-- **C05 on the model, binary sections.** Let the interpreter be about to execute `eexec`: `.file` on top of the
operand stack, a scanner installed, and the pending input of the (clear) scanner `ws ++ cipher ++ rest` with
`cipher = encrypt 55665 (pre ++ plain)` legal for the binary form. Let `b0` be the state in which the plaintext is
executed: `.file` popped, systemdict pushed, and the plain scanner over `plain` (same position, peek buffer empty).
If the run of the scan loop on `b0` meets no `Bad` event (`Safe`), then the operator returns `closeSection …`: the
result and every field of the state except the scanner are those of the plain run, with the dictionary stack cut
back to its height before the operator; the scanner is `Sim`-related to the plain run's final scanner. -/
theorem eexec_operator_binary (fuel m : Nat) (a0 : State) (st : List Obj) (ws pre plain rest : List UInt8)
    (hst : a0.vm.stack = .file :: st) (hdepth : a0.scannerDepth ≠ 0)
    (hc : Clear a0.scanner) (hpk : a0.scanner.peek.length ≤ 4) (hpre : pre.length = 4)
    (hws : ∀ x ∈ ws, Scan.isEexecSpace x = true)
    (hlegal : BinaryLegal (encrypt eexecR (pre ++ plain)))
    (hs : a0.scanner.peek ++ a0.scanner.src = ws ++ binaryLayout (encrypt eexecR (pre ++ plain)) ++ rest)
    (hsafe : Safe (.sRun fuel m (plainState a0 st
      (plainStart a0.scanner (ws ++ pre) (stateAfter eexecR ((encrypt eexecR (pre ++ plain)).take 4)) plain)))) :
    ∃ seF, Sim 2 (encrypt eexecR (pre ++ plain)) rest seF
        (scanRun fuel m (plainState a0 st
          (plainStart a0.scanner (ws ++ pre) (stateAfter eexecR ((encrypt eexecR (pre ++ plain)).take 4)) plain))).1.scanner ∧
      callBuiltin (fuel + 1) m a0 "eexec" =
        closeSection a0.vm.dictStack.length
          (scanRun fuel m (plainState a0 st
            (plainStart a0.scanner (ws ++ pre) (stateAfter eexecR ((encrypt eexecR (pre ++ plain)).take 4)) plain))).1
          (scanRun fuel m (plainState a0 st
            (plainStart a0.scanner (ws ++ pre) (stateAfter eexecR ((encrypt eexecR (pre ++ plain)).take 4)) plain))).2
          seF := by
  obtain ⟨s1, hb, hs1, hsim⟩ := eexec_begin_binary a0.scanner ws pre plain rest hc hpk hpre hws hlegal hs
  subst hs1
  rw [plainOf_afterBegin] at hsim
  exact eexec_operator_core fuel m a0 st _ _ hst hdepth hb hsim hsafe

open PsVerif.Model.Cipher in
/-- **C05 on the model, hexadecimal sections**: the same for every legal hexadecimal layout `t` of the cipher text;
`t'` is what is left of the layout after the random prefix. -/
theorem eexec_operator_hex (fuel m : Nat) (a0 : State) (st : List Obj) (ws pre plain t rest : List UInt8)
    (hst : a0.vm.stack = .file :: st) (hdepth : a0.scannerDepth ≠ 0)
    (hc : Clear a0.scanner) (hpk : a0.scanner.peek.length ≤ 4) (hpre : pre.length = 4)
    (hws : ∀ x ∈ ws, Scan.isEexecSpace x = true)
    (hlay : HexLayout (encrypt eexecR (pre ++ plain)) t)
    (hs : a0.scanner.peek ++ a0.scanner.src = ws ++ t ++ rest)
    (hsafe : Safe (.sRun fuel m (plainState a0 st
      (plainStart a0.scanner (ws ++ pre) (stateAfter eexecR ((encrypt eexecR (pre ++ plain)).take 4)) plain)))) :
    ∃ seF, Sim 1 (encrypt eexecR (pre ++ plain)) rest seF
        (scanRun fuel m (plainState a0 st
          (plainStart a0.scanner (ws ++ pre) (stateAfter eexecR ((encrypt eexecR (pre ++ plain)).take 4)) plain))).1.scanner ∧
      callBuiltin (fuel + 1) m a0 "eexec" =
        closeSection a0.vm.dictStack.length
          (scanRun fuel m (plainState a0 st
            (plainStart a0.scanner (ws ++ pre) (stateAfter eexecR ((encrypt eexecR (pre ++ plain)).take 4)) plain))).1
          (scanRun fuel m (plainState a0 st
            (plainStart a0.scanner (ws ++ pre) (stateAfter eexecR ((encrypt eexecR (pre ++ plain)).take 4)) plain))).2
          seF := by
  obtain ⟨s1, t', hb, ht', hs1, hsim⟩ := eexec_begin_hex a0.scanner ws pre plain t rest hc hpk hpre hws hlay hs
  subst hs1
  rw [plainOf_afterBegin] at hsim
  exact eexec_operator_core fuel m a0 st _ _ hst hdepth hb hsim hsafe

end

/-! ### independence of the random prefix -/

section
open PsVerif.Model.Cipher

/-- **binary sections, plain run independent of the prefix**: as `eexec_operator_binary`, with the plain scanner
`plainStart0 a0.scanner ws plain` (column 0, `crSeen` off, line counter after `ws`), which does not mention `pre` -/
theorem eexec_operator_binary0 (fuel m : Nat) (a0 : State) (st : List Obj) (ws pre plain rest : List UInt8)
    (hst : a0.vm.stack = .file :: st) (hdepth : a0.scannerDepth ≠ 0)
    (hc : Clear a0.scanner) (hpk : a0.scanner.peek.length ≤ 4) (hpre : pre.length = 4)
    (hws : ∀ x ∈ ws, Scan.isEexecSpace x = true)
    (hlegal : BinaryLegal (encrypt eexecR (pre ++ plain)))
    (hs : a0.scanner.peek ++ a0.scanner.src = ws ++ binaryLayout (encrypt eexecR (pre ++ plain)) ++ rest)
    (hsafe : Safe (.sRun fuel m (plainState a0 st (plainStart0 a0.scanner ws plain)))) :
    ∃ seF, SimL (prefixLines a0.scanner ws pre) 2 (encrypt eexecR (pre ++ plain)) rest seF
        (scanRun fuel m (plainState a0 st (plainStart0 a0.scanner ws plain))).1.scanner ∧
      callBuiltin (fuel + 1) m a0 "eexec" =
        closeSection a0.vm.dictStack.length (scanRun fuel m (plainState a0 st (plainStart0 a0.scanner ws plain))).1
          (scanRun fuel m (plainState a0 st (plainStart0 a0.scanner ws plain))).2 seF := by
  obtain ⟨s1, hb, _, hsim⟩ := eexec_begin_binary0 a0.scanner ws pre plain rest hc hpk hpre hws hlegal hs
  exact eexec_operator_core fuel m a0 st _ _ hst hdepth hb hsim hsafe

/-- **hexadecimal sections, plain run independent of the prefix** -/
theorem eexec_operator_hex0 (fuel m : Nat) (a0 : State) (st : List Obj) (ws pre plain t rest : List UInt8)
    (hst : a0.vm.stack = .file :: st) (hdepth : a0.scannerDepth ≠ 0)
    (hc : Clear a0.scanner) (hpk : a0.scanner.peek.length ≤ 4) (hpre : pre.length = 4)
    (hws : ∀ x ∈ ws, Scan.isEexecSpace x = true)
    (hlay : HexLayout (encrypt eexecR (pre ++ plain)) t)
    (hs : a0.scanner.peek ++ a0.scanner.src = ws ++ t ++ rest)
    (hsafe : Safe (.sRun fuel m (plainState a0 st (plainStart0 a0.scanner ws plain)))) :
    ∃ seF, SimL (prefixLines a0.scanner ws pre) 1 (encrypt eexecR (pre ++ plain)) rest seF
        (scanRun fuel m (plainState a0 st (plainStart0 a0.scanner ws plain))).1.scanner ∧
      callBuiltin (fuel + 1) m a0 "eexec" =
        closeSection a0.vm.dictStack.length (scanRun fuel m (plainState a0 st (plainStart0 a0.scanner ws plain))).1
          (scanRun fuel m (plainState a0 st (plainStart0 a0.scanner ws plain))).2 seF := by
  obtain ⟨s1, t', hb, _, _, hsim⟩ := eexec_begin_hex0 a0.scanner ws pre plain t rest hc hpk hpre hws hlay hs
  exact eexec_operator_core fuel m a0 st _ _ hst hdepth hb hsim hsafe

end

/-- the scanner fields on which the outcomes for two prefixes agree whatever happens in the section -/
def ScAgree (s s' : Scanner) : Prop :=
  s.peek = s'.peek ∧ s.col = s'.col ∧ s.crSeen = s'.crSeen ∧ s.dsc = s'.dsc ∧ s.err = s'.err ∧ s.fault = s'.fault ∧
    s.eexec = s'.eexec ∧ s.regurgitate = s'.regurgitate

/-- a scanner without its line counter and cipher register -/
def forgetLineR (s : Scanner) : Scanner := { s with line := 0, r := 0 }

theorem plainStart0_core (s0 : Scanner) (ws plain : List UInt8) :
    plainStart0 s0 ws plain = plainStart0 (core s0) ws plain := by
  unfold plainStart0
  rw [bumps_core]
  rfl

/-- what "the outcome does not depend on the prefix" means for two calls of `eexec` from the interpreter state `a0`
with the scanners `sc1`, `sc2`, where `pF` is the outcome of the plain run: same result; same interpreter state up
to the scanner (operand stack, heap, dictionary stack, `numOps`, collected DSC comments `State.dsc`, …); scanners
that agree in peek buffer, column, `crSeen`, DSC comments, sticky error, fault, mode, replay flag; and, if the
section was closed with the plaintext decrypted completely, scanners equal up to line counter and cipher register -/
def PrefixIndependent (fuel m : Nat) (a0 : State) (sc1 sc2 : Scanner) (pF : State × Res) : Prop :=
  (callBuiltin (fuel + 1) m { a0 with scanner := sc1 } "eexec").2 =
      (callBuiltin (fuel + 1) m { a0 with scanner := sc2 } "eexec").2 ∧
    (callBuiltin (fuel + 1) m { a0 with scanner := sc2 } "eexec").1 =
      { (callBuiltin (fuel + 1) m { a0 with scanner := sc1 } "eexec").1 with
        scanner := (callBuiltin (fuel + 1) m { a0 with scanner := sc2 } "eexec").1.scanner } ∧
    ScAgree (callBuiltin (fuel + 1) m { a0 with scanner := sc1 } "eexec").1.scanner
      (callBuiltin (fuel + 1) m { a0 with scanner := sc2 } "eexec").1.scanner ∧
    (pF.1.scanner.src = [] → (pF.2 = .ok ∨ pF.2 = .err .eof) →
      forgetLineR (callBuiltin (fuel + 1) m { a0 with scanner := sc1 } "eexec").1.scanner =
        forgetLineR (callBuiltin (fuel + 1) m { a0 with scanner := sc2 } "eexec").1.scanner)

/-- **the outcome of the operator does not depend on what stands in front of the plaintext.** Two calls of `eexec`
from the same interpreter state `a0`, with scanners `sc1`, `sc2` whose sections (same mode, any cipher texts, any
layouts, any prefixes) are `SimL`-related to the SAME plain scanner `sp1`: `PrefixIndependent`. -/
theorem eexec_prefix_independent_core {dl1 dl2 mode : Nat} {c1 c2 rest : List UInt8}
    (fuel m : Nat) (a0 : State) (st : List Obj) (sc1 sc2 s1 s2 sp1 : Scanner)
    (hst : a0.vm.stack = .file :: st) (hdepth : a0.scannerDepth ≠ 0)
    (hb1 : Scan.beginEexec sc1 = (.ok (), s1)) (hb2 : Scan.beginEexec sc2 = (.ok (), s2))
    (h1 : SimL dl1 mode c1 rest s1 sp1) (h2 : SimL dl2 mode c2 rest s2 sp1)
    (hsafe : Safe (.sRun fuel m (plainState a0 st sp1))) :
    PrefixIndependent fuel m a0 sc1 sc2 (scanRun fuel m (plainState a0 st sp1)) := by
  unfold PrefixIndependent
  obtain ⟨seF1, g1, e1⟩ := eexec_operator_core fuel m { a0 with scanner := sc1 } st s1 sp1 hst hdepth hb1 h1 hsafe
  obtain ⟨seF2, g2, e2⟩ := eexec_operator_core fuel m { a0 with scanner := sc2 } st s2 sp1 hst hdepth hb2 h2 hsafe
  have ep1 : plainState { a0 with scanner := sc1 } st sp1 = plainState a0 st sp1 := rfl
  have ep2 : plainState { a0 with scanner := sc2 } st sp1 = plainState a0 st sp1 := rfl
  rw [ep1] at g1 e1
  rw [ep2] at g2 e2
  rw [e1, e2]
  generalize scanRun fuel m (plainState a0 st sp1) = pF at g1 g2 ⊢
  obtain ⟨bF, rF⟩ := pF
  dsimp only at g1 g2 ⊢
  have hagree : ScAgree seF1 seF2 ∧ ScAgree { seF1 with eexec := 0 } { seF2 with eexec := 0 } := by
    refine ⟨⟨g1.peek_eq.trans g2.peek_eq.symm, g1.col_eq.trans g2.col_eq.symm, g1.crSeen_eq.trans g2.crSeen_eq.symm,
      g1.dsc_eq.trans g2.dsc_eq.symm, g1.err_eq.trans g2.err_eq.symm, g1.fault_eq.trans g2.fault_eq.symm,
      g1.eexec_e.trans g2.eexec_e.symm, g1.reg_e.trans g2.reg_e.symm⟩,
      ⟨g1.peek_eq.trans g2.peek_eq.symm, g1.col_eq.trans g2.col_eq.symm, g1.crSeen_eq.trans g2.crSeen_eq.symm,
      g1.dsc_eq.trans g2.dsc_eq.symm, g1.err_eq.trans g2.err_eq.symm, g1.fault_eq.trans g2.fault_eq.symm,
      rfl, g1.reg_e.trans g2.reg_e.symm⟩⟩
  refine ⟨?_, ?_, ?_, ?_⟩
  · unfold closeSection
    cases rF with
    | err e => cases e <;> rfl
    | _ => rfl
  · unfold closeSection
    cases rF with
    | err e => cases e <;> rfl
    | _ => rfl
  · unfold closeSection
    cases rF with
    | err e => cases e <;> first | exact hagree.1 | exact hagree.2
    | ok => exact hagree.2
    | fuel => exact hagree.1
  · intro hend hr
    rw [closeSection_at_end_line g1 hend hr, closeSection_at_end_line g2 hend hr]
    rfl

section
open PsVerif.Model.Cipher

theorem clear_of_core {sc1 sc2 : Scanner} (hcore : core sc1 = core sc2) (hc : Clear sc1) : Clear sc2 :=
  ⟨(congrArg Scanner.eexec hcore).symm.trans hc.1, (congrArg Scanner.regurgitate hcore).symm.trans hc.2⟩

/-- **binary sections: the outcome does not depend on the four lead bytes.** `sc1`, `sc2` are the same clear scanner
(`core`: everything but the pending input) before `ws ++ encrypt (pre_i ++ plain) ++ rest` for two legal prefixes. -/
theorem eexec_prefix_independent_binary (fuel m : Nat) (a0 : State) (st : List Obj) (sc1 sc2 : Scanner)
    (ws pre1 pre2 plain rest : List UInt8)
    (hst : a0.vm.stack = .file :: st) (hdepth : a0.scannerDepth ≠ 0)
    (hcore : core sc1 = core sc2) (hc : Clear sc1)
    (hpk1 : sc1.peek.length ≤ 4) (hpk2 : sc2.peek.length ≤ 4) (hpre1 : pre1.length = 4) (hpre2 : pre2.length = 4)
    (hws : ∀ x ∈ ws, Scan.isEexecSpace x = true)
    (hl1 : BinaryLegal (encrypt eexecR (pre1 ++ plain))) (hl2 : BinaryLegal (encrypt eexecR (pre2 ++ plain)))
    (hs1 : sc1.peek ++ sc1.src = ws ++ binaryLayout (encrypt eexecR (pre1 ++ plain)) ++ rest)
    (hs2 : sc2.peek ++ sc2.src = ws ++ binaryLayout (encrypt eexecR (pre2 ++ plain)) ++ rest)
    (hsafe : Safe (.sRun fuel m (plainState a0 st (plainStart0 sc1 ws plain)))) :
    PrefixIndependent fuel m a0 sc1 sc2 (scanRun fuel m (plainState a0 st (plainStart0 sc1 ws plain))) := by
  obtain ⟨s1, hb1, _, g1⟩ := eexec_begin_binary0 sc1 ws pre1 plain rest hc hpk1 hpre1 hws hl1 hs1
  obtain ⟨s2, hb2, _, g2⟩ := eexec_begin_binary0 sc2 ws pre2 plain rest (clear_of_core hcore hc) hpk2 hpre2 hws hl2 hs2
  have e : plainStart0 sc2 ws plain = plainStart0 sc1 ws plain := by
    rw [plainStart0_core sc2, plainStart0_core sc1, hcore]
  rw [e] at g2
  exact eexec_prefix_independent_core fuel m a0 st sc1 sc2 s1 s2 _ hst hdepth hb1 hb2 g1 g2 hsafe

/-- **hexadecimal sections: the outcome does not depend on the four lead bytes** (nor on the layouts `t1`, `t2`) -/
theorem eexec_prefix_independent_hex (fuel m : Nat) (a0 : State) (st : List Obj) (sc1 sc2 : Scanner)
    (ws pre1 pre2 plain t1 t2 rest : List UInt8)
    (hst : a0.vm.stack = .file :: st) (hdepth : a0.scannerDepth ≠ 0)
    (hcore : core sc1 = core sc2) (hc : Clear sc1)
    (hpk1 : sc1.peek.length ≤ 4) (hpk2 : sc2.peek.length ≤ 4) (hpre1 : pre1.length = 4) (hpre2 : pre2.length = 4)
    (hws : ∀ x ∈ ws, Scan.isEexecSpace x = true)
    (hl1 : HexLayout (encrypt eexecR (pre1 ++ plain)) t1) (hl2 : HexLayout (encrypt eexecR (pre2 ++ plain)) t2)
    (hs1 : sc1.peek ++ sc1.src = ws ++ t1 ++ rest) (hs2 : sc2.peek ++ sc2.src = ws ++ t2 ++ rest)
    (hsafe : Safe (.sRun fuel m (plainState a0 st (plainStart0 sc1 ws plain)))) :
    PrefixIndependent fuel m a0 sc1 sc2 (scanRun fuel m (plainState a0 st (plainStart0 sc1 ws plain))) := by
  obtain ⟨s1, _, hb1, _, _, g1⟩ := eexec_begin_hex0 sc1 ws pre1 plain t1 rest hc hpk1 hpre1 hws hl1 hs1
  obtain ⟨s2, _, hb2, _, _, g2⟩ := eexec_begin_hex0 sc2 ws pre2 plain t2 rest (clear_of_core hcore hc) hpk2 hpre2 hws hl2 hs2
  have e : plainStart0 sc2 ws plain = plainStart0 sc1 ws plain := by
    rw [plainStart0_core sc2, plainStart0_core sc1, hcore]
  rw [e] at g2
  exact eexec_prefix_independent_core fuel m a0 st sc1 sc2 s1 s2 _ hst hdepth hb1 hb2 g1 g2 hsafe

end

/-! ### tools for proving `Safe` of a concrete run -/

theorem sub_call_id {f m : Nat} {s : State} {id : String} {c' : Call} (h : Sub (.call f m s id) c') :
    id = "exec" ∨ id = "if" ∨ id = "ifelse" ∨ id = "for" ∨ id = "repeat" ∨ id = "loop" ∨ id = "forall" := by
  cases h <;> simp

theorem objOfTok_obj (s : State) (o : Obj) : objOfTok s (.obj o) = (s, o) := rfl

/-- a call of a data operator evaluates no further call -/
theorem safe_pure_call {f m : Nat} {s : State} {id : String} (hb : ¬ Bad (.call f m s id))
    (hid : ¬ (id = "exec" ∨ id = "if" ∨ id = "ifelse" ∨ id = "for" ∨ id = "repeat" ∨ id = "loop" ∨ id = "forall")) :
    Safe (.call f m s id) :=
  Safe.intro hb (fun _ h => absurd (sub_call_id h) hid)

/-- executing a name bound to a data operator that does not fail with a PostScript error: the calls are
`execOne → execBody → execTail (name) → execTail (operator) → callBuiltin` -/
theorem safe_op_token {f m : Nat} {s : State} {n id : String}
    (hl : lookupName s.vm n = some (.builtin id))
    (hid : ¬ (id = "exec" ∨ id = "if" ∨ id = "ifelse" ∨ id = "for" ∨ id = "repeat" ∨ id = "loop" ∨ id = "forall"))
    (hb : ¬ Bad (.call (f + 1) m { s with numOps := s.numOps + 1 + 1 } id))
    (hres : ∀ s1 name, callBuiltin (f + 1) m { s with numOps := s.numOps + 1 + 1 } id ≠ (s1, .err (.ps name))) :
    Safe (.one (f + 1 + 1 + 1 + 1 + 1) m s (.op n) false) := by
  refine Safe.intro (fun h => h) (fun c' h => ?_)
  cases h with
  | one_f =>
    refine Safe.intro (fun h => h) (fun c' h => ?_)
    cases h with
    | body =>
      refine Safe.intro (fun h => h) (fun c' h => ?_)
      cases h with
      | tail_name _ _ _ _ _ _ v hv =>
        rw [hl] at hv
        cases hv
        refine Safe.intro (fun h => h) (fun c' h => ?_)
        cases h with
        | tail_builtin => exact safe_pure_call hb hid
        | tail_handler _ _ _ _ _ _ s1 name handler hc _ => exact absurd hc (hres s1 name)

#print axioms allSim
#print axioms eexec_operator_core
#print axioms eexec_operator_binary
#print axioms eexec_operator_hex
#print axioms closeSection_at_end
#print axioms eexec_operator_binary0
#print axioms eexec_operator_hex0
#print axioms eexec_prefix_independent_core
#print axioms eexec_prefix_independent_binary
#print axioms eexec_prefix_independent_hex

end PsVerif.Proofs.EexecInterp
