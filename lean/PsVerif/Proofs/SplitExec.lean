import PsVerif.Model.Interp
import PsVerif.Proofs.InterpFuel
/-!
# Feeding a program in several `Execute` calls (C12, last sentence)

Statements: `Props/C12Split.lean`.  Overview of this file:

**Part 1 (scanner).**  `ext b l pre sc` is the scanner `sc` with `b` appended to its unread
source, `l` added to its line counter and `pre` put in front of its structured comments.
`FrAt b l pre f g sc` compares the action `f` run on `sc` with `g` run on `ext b l pre sc`:
* `f` never increases the number of unread bytes `meas = |src| + |peek|`;
* *frame*: if `f` ends `Quiet` (the sticky error is unset, i.e. the reader was never asked for a
  byte beyond the end of the source; or nothing was appended) then the start was `Quiet` and `g`
  returns the same value and ends in `ext b l pre` of `f`'s final scanner;
* `f` keeps the sticky error among the values the reader produces (`ErrStd`) and leaves
  `eexec`/`regurgitate` alone.
`fr_*`: one lemma per scanner function (decomposition tactic `fr_auto`; the loops by induction on
their fuel, with the hypothesis that the fuel exceeds `meas`, which `fuelOf` always does; their
proofs need that a successful `next`, and `skipByte` after a successful `peek`, consume a byte).
`skipWhiteSpace` (`frw_skipWhiteSpace`), `scanToken`, `beginEexec`, `endEexec` satisfy the frame
property `FrW` (for `skipWhiteSpace` with different fuels under the side condition that the short
run does not end with the scanner model's own out-of-fuel failure).

**Part 2 (interpreter).**  `extSt b l pre dd s` extends the scanner of `s` and replaces the
interpreter's own list of structured comments by `dd`.  `allFr`: the frame property for the
thirteen functions of the interpreter model, by simultaneous induction on the fuel.

**Part 3 (the end of the first part).**  `wsTurn`: one turn of the `SkipWhiteSpace` loop;
`wsEnd`/`atEnd`: the loop reaches the end of the input by whole quiet turns, at the start of a
line; `ws_noSF`: outside eexec sections the loop never runs out of fuel; `firstToken`: the first
token of the second part is scanned in the same way by the long run and by a new scanner;
`cleanLoop`/`cleanRun`: the computable test "the first call ends cleanly at a token boundary";
`allKeep`: `len(intp.scanners)` is restored and `CheckStart` is never set again;
`split_aligned`, `split_two`, `split_many`: the results.
-/
namespace PsVerif.Proofs.SplitExec
open PsVerif.Model PsVerif.Model.Scan

set_option linter.unusedSimpArgs false
set_option linter.unusedVariables false

/-- `b` appended to the unread source -/
@[reducible] def ext (b : List UInt8) (l : Nat) (pre : List (String × String)) (sc : Scanner) : Scanner :=
  { sc with src := sc.src ++ b, line := l + sc.line, dsc := pre ++ sc.dsc }

/-- the sticky error is unset or one of the values the reader model produces -/
def ErrStd (sc : Scanner) : Prop := sc.err = none ∨ sc.err = some .eof ∨ ∃ t, sc.err = some (.io t)

/-- the run may look beyond the end of its source only when nothing was appended -/
def Quiet (b : List UInt8) (sc : Scanner) : Prop := sc.err = none ∨ b = []

/-- unread bytes -/
def meas (sc : Scanner) : Nat := sc.src.length + sc.peek.length

theorem bind_eq {α β : Type} (m : SM α) (f : α → SM β) (s : Scanner) :
    (m >>= f) s = match m s with
      | (.ok a, s') => f a s'
      | (.error e, s') => (.error e, s') := by
  show (ExceptT.bind m f) s = _
  unfold ExceptT.bind ExceptT.mk ExceptT.bindCont
  show (StateT.bind _ _) s = _
  unfold StateT.bind
  dsimp only
  generalize m s = p
  obtain ⟨r, s'⟩ := p
  cases r <;> rfl

theorem pure_eq {α : Type} (a : α) (sc : Scanner) : (pure a : SM α) sc = (.ok a, sc) := rfl

section
variable (b : List UInt8) (l : Nat) (pre : List (String × String))

@[simp] theorem ext_src (sc : Scanner) : (ext b l pre sc).src = sc.src ++ b := rfl
@[simp] theorem ext_fault (sc : Scanner) : (ext b l pre sc).fault = sc.fault := rfl
@[simp] theorem ext_peek (sc : Scanner) : (ext b l pre sc).peek = sc.peek := rfl
@[simp] theorem ext_regurgitate (sc : Scanner) : (ext b l pre sc).regurgitate = sc.regurgitate := rfl
@[simp] theorem ext_eexec (sc : Scanner) : (ext b l pre sc).eexec = sc.eexec := rfl
@[simp] theorem ext_r (sc : Scanner) : (ext b l pre sc).r = sc.r := rfl
@[simp] theorem ext_line (sc : Scanner) : (ext b l pre sc).line = l + sc.line := rfl
@[simp] theorem ext_col (sc : Scanner) : (ext b l pre sc).col = sc.col := rfl
@[simp] theorem ext_crSeen (sc : Scanner) : (ext b l pre sc).crSeen = sc.crSeen := rfl
@[simp] theorem ext_dsc (sc : Scanner) : (ext b l pre sc).dsc = pre ++ sc.dsc := rfl
@[simp] theorem ext_err (sc : Scanner) : (ext b l pre sc).err = sc.err := rfl

structure FrRes {α : Type} (sc : Scanner) (p q : Except Err α × Scanner) : Prop where
  meas : meas p.2 ≤ meas sc
  frame : Quiet b p.2 → Quiet b sc ∧ q = (p.1, ext b l pre p.2)
  std : ErrStd sc → ErrStd p.2
  keep : p.2.eexec = sc.eexec ∧ p.2.regurgitate = sc.regurgitate

def FrAt {α : Type} (f g : SM α) (sc : Scanner) : Prop := FrRes b l pre sc (f sc) (g (ext b l pre sc))

@[reducible] def Fr {α : Type} (f g : SM α) : Prop := ∀ sc, FrAt b l pre f g sc

variable {b l pre}

theorem FrAt.bind' {α β : Type} {f g : SM α} {k k' : α → SM β} {sc : Scanner}
    (h : FrAt b l pre f g sc) (hk : ∀ a sc1, f sc = (.ok a, sc1) → FrAt b l pre (k a) (k' a) sc1) :
    FrAt b l pre (f >>= k) (g >>= k') sc := by
  unfold FrAt at h hk ⊢
  rw [bind_eq, bind_eq]
  generalize hp : f sc = p at h hk
  obtain ⟨r, sc1⟩ := p
  obtain ⟨h1, h2, h3, h4⟩ := h
  cases r with
  | error e =>
    dsimp only at h1 h2 h3 h4 ⊢
    refine ⟨h1, fun he => ?_, h3, h4⟩
    obtain ⟨a1, a2⟩ := h2 he
    rw [a2]
    exact ⟨a1, rfl⟩
  | ok a =>
    obtain ⟨g1, g2, g3, g4⟩ := hk a sc1 rfl
    dsimp only at h1 h2 h3 h4 ⊢
    refine ⟨Nat.le_trans g1 h1, fun he => ?_, fun hs => g3 (h3 hs), ⟨g4.1.trans h4.1, g4.2.trans h4.2⟩⟩
    obtain ⟨c1, c2⟩ := g2 he
    obtain ⟨a1, a2⟩ := h2 c1
    rw [a2]
    exact ⟨a1, c2⟩

theorem FrAt.bind {α β : Type} {f g : SM α} {k k' : α → SM β} {sc : Scanner}
    (h : FrAt b l pre f g sc) (hk : ∀ a, Fr b l pre (k a) (k' a)) : FrAt b l pre (f >>= k) (g >>= k') sc :=
  FrAt.bind' h (fun a sc1 _ => hk a sc1)

theorem FrAt.pure {α : Type} (a : α) (sc : Scanner) : FrAt b l pre (pure a : SM α) (pure a) sc :=
  ⟨Nat.le_refl _, fun he => ⟨he, rfl⟩, id, ⟨rfl, rfl⟩⟩

theorem FrAt.fail {α : Type} (e : Err) (sc : Scanner) : FrAt b l pre (Scan.fail e : SM α) (Scan.fail e) sc :=
  ⟨Nat.le_refl _, fun he => ⟨he, rfl⟩, id, ⟨rfl, rfl⟩⟩

theorem FrAt.modS (f : Scanner → Scanner) (sc : Scanner)
    (hf : (f sc).err = sc.err ∧ meas (f sc) ≤ meas sc ∧ f (ext b l pre sc) = ext b l pre (f sc) ∧
      (f sc).eexec = sc.eexec ∧ (f sc).regurgitate = sc.regurgitate) :
    FrAt b l pre (Scan.modS f) (Scan.modS f) sc :=
  ⟨hf.2.1, fun he => ⟨by unfold Quiet at he ⊢; rw [← hf.1]; exact he, by
    show ((Except.ok (), f (ext b l pre sc)) : Except Err Unit × Scanner) = _
    rw [hf.2.2.1]; rfl⟩, fun hs => by
    show ErrStd (f sc)
    unfold ErrStd at hs ⊢
    rw [hf.1]; exact hs, ⟨hf.2.2.2.1, hf.2.2.2.2⟩⟩

theorem FrAt.attempt {α : Type} {f g : SM α} {sc : Scanner} (h : FrAt b l pre f g sc) :
    FrAt b l pre (Scan.attempt f) (Scan.attempt g) sc := by
  unfold FrAt Scan.attempt at *
  generalize f sc = p at h
  obtain ⟨r, sc1⟩ := p
  obtain ⟨h1, h2, h3, h4⟩ := h
  refine ⟨h1, fun he => ?_, h3, h4⟩
  obtain ⟨a1, a2⟩ := h2 he
  rw [a2]
  exact ⟨a1, rfl⟩

theorem FrAt.getS_bind {β : Type} {k k' : Scanner → SM β} {sc : Scanner}
    (h : FrAt b l pre (k sc) (k' (ext b l pre sc)) sc) : FrAt b l pre (Scan.getS >>= k) (Scan.getS >>= k') sc := by
  have e1 : (Scan.getS >>= k) sc = k sc sc := bind_eq Scan.getS k sc
  have e2 : (Scan.getS >>= k') (ext b l pre sc) = k' (ext b l pre sc) (ext b l pre sc) := bind_eq Scan.getS k' (ext b l pre sc)
  unfold FrAt at h ⊢
  rw [e1, e2]; exact h

theorem FrAt.ite {α : Type} {c : Prop} [Decidable c] {f f' g g' : SM α} {sc : Scanner}
    (h1 : FrAt b l pre f g sc) (h2 : FrAt b l pre f' g' sc) :
    FrAt b l pre (if c then f else f') (if c then g else g') sc := by
  split
  · exact h1
  · exact h2

/-! ### the primitives -/

theorem fr_readByteRaw : Fr b l pre readByteRaw readByteRaw := by
  intro sc
  unfold FrAt
  by_cases hb : b = []
  · subst hb
    cases hp : sc.peek <;> cases he : sc.err <;> cases hs : sc.src <;> cases hr : sc.regurgitate <;>
      constructor <;> simp [readByteRaw, hp, he, hs, hr, meas, ext, Quiet, ErrStd] <;> (cases sc.fault <;> simp)
  · cases hp : sc.peek <;> cases he : sc.err <;> cases hs : sc.src <;> cases hr : sc.regurgitate <;>
      constructor <;> simp [readByteRaw, hp, he, hs, hr, meas, ext, Quiet, hb, ErrStd] <;> (cases sc.fault <;> simp)

/-- a successful read consumes at least one unread byte -/
def Strict {α : Type} (f : SM α) (sc : Scanner) : Prop := ∀ c, (f sc).1 = .ok c → meas (f sc).2 < meas sc

theorem Strict.of_eq {α : Type} {f : SM α} {sc sc1 : Scanner} {c : α} (h : Strict f sc) (e : f sc = (.ok c, sc1)) :
    meas sc1 < meas sc := by
  have := h c (by rw [e]); rw [e] at this; exact this

theorem readByteRaw_strict (sc : Scanner) : Strict readByteRaw sc := by
  intro c
  cases hp : sc.peek <;> cases he : sc.err <;> cases hs : sc.src <;> cases hr : sc.regurgitate <;>
    simp [readByteRaw, hp, he, hs, hr, meas]

theorem meas_lt_fuelOf (sc : Scanner) : meas sc < fuelOf sc := by unfold meas fuelOf; omega
theorem fuelOf_le_ext (sc : Scanner) : fuelOf sc ≤ fuelOf (ext b l pre sc) := by
  unfold fuelOf; simp only [ext_src, ext_peek, List.length_append]; omega

theorem fr_readHexPair : ∀ n n' i out sc, meas sc < n → n ≤ n' →
    FrAt b l pre (readHexPair n i out) (readHexPair n' i out) sc := by
  intro n
  induction n with
  | zero => intro n' i out sc h; omega
  | succ n ih =>
    intro n' i out sc h hle
    obtain ⟨k, rfl⟩ : ∃ k, n' = k + 1 := ⟨n' - 1, by omega⟩
    unfold readHexPair
    split
    · exact FrAt.pure _ _
    · apply FrAt.bind' (fr_readByteRaw sc)
      intro c sc1 hc
      have := (readByteRaw_strict sc).of_eq hc
      split
      · exact ih _ _ _ _ (by omega) (by omega)
      · split
        · exact ih _ _ _ _ (by omega) (by omega)
        · exact FrAt.fail _ _

theorem readHexPair_meas : ∀ n i out sc c, (readHexPair n i out sc).1 = .ok c →
    meas (readHexPair n i out sc).2 ≤ meas sc ∧ (i < 2 → meas (readHexPair n i out sc).2 < meas sc) := by
  intro n
  induction n with
  | zero => intro i out sc c h; simp [readHexPair, Scan.fail] at h
  | succ n ih =>
    intro i out sc c
    unfold readHexPair
    split
    · intro _; exact ⟨Nat.le_refl _, fun h => by omega⟩
    · rw [bind_eq]
      have hs := readByteRaw_strict sc
      unfold Strict at hs
      generalize readByteRaw sc = p at hs ⊢
      obtain ⟨r, sc1⟩ := p
      cases r with
      | error e => intro h; simp at h
      | ok x =>
        dsimp only at hs ⊢
        have := hs x rfl
        split
        · intro h; have := (ih _ _ _ _ h).1; exact ⟨by omega, fun _ => by omega⟩
        · cases hn : hexNibble x with
          | some v => dsimp only; intro h; have := (ih _ _ _ _ h).1; exact ⟨by omega, fun _ => by omega⟩
          | none => intro h; simp [Scan.fail] at h

/-! ### decomposition tactic -/

theorem FrAt.bindW {α β : Type} {f g : SM α} {k k' : α → SM β} {sc : Scanner}
    (h : FrAt b l pre f g sc) (hk : ∀ a sc1, FrAt b l pre (k a) (k' a) sc1) : FrAt b l pre (f >>= k) (g >>= k') sc :=
  FrAt.bind' h (fun a sc1 _ => hk a sc1)

theorem FrAt.le {α : Type} {f g : SM α} {sc sc1 : Scanner} {r : Except Err α} (h : FrAt b l pre f g sc)
    (e : f sc = (r, sc1)) : meas sc1 ≤ meas sc := by
  have := h.meas; rw [e] at this; exact this

theorem FrAt.bind'' {α β : Type} {f g : SM α} {k k' : α → SM β} {sc : Scanner}
    (h : FrAt b l pre f g sc)
    (hk : ∀ a sc1, f sc = (.ok a, sc1) → meas sc1 ≤ meas sc → FrAt b l pre (k a) (k' a) sc1) :
    FrAt b l pre (f >>= k) (g >>= k') sc :=
  FrAt.bind' h (fun a sc1 e => hk a sc1 e (h.le e))

/-- side conditions on the fuel of a scanner loop -/
macro "fuel_side" : tactic =>
  `(tactic| (simp only [fuelOf, meas, ext_src, ext_peek, List.length_append]; omega))

/-- a field update that commutes with `ext` and keeps `err`, `src`, `peek` -/
macro "mod_side" : tactic =>
  `(tactic| (dsimp only [ext, meas]; (repeat' split) <;> exact ⟨rfl, Nat.le_refl _, rfl, rfl, rfl⟩))

syntax "fr_lemma" : tactic
macro_rules | `(tactic| fr_lemma) => `(tactic| fail "no lemma applies")

macro "fr_with" ih:ident : tactic =>
  `(tactic| repeat' (first
    | assumption
    | contradiction
    | with_reducible exact FrAt.pure _ _
    | with_reducible exact FrAt.fail _ _
    | (with_reducible apply $ih) <;> omega
    | with_reducible fr_lemma
    | (with_reducible refine FrAt.modS _ _ ?_; mod_side)
    | (with_reducible apply FrAt.getS_bind;
       try dsimp only [ext_peek, ext_regurgitate, ext_eexec, ext_r, ext_col, ext_err])
    | with_reducible apply FrAt.attempt
    | with_reducible refine FrAt.bind'' ?_ ?_
    | with_reducible apply FrAt.ite
    | intro _
    | split
    | dsimp only))

macro "fr_auto" : tactic => `(tactic| (have trivialHyp : True := trivial; fr_with trivialHyp))

macro_rules | `(tactic| fr_lemma) => `(tactic| exact fr_readByteRaw _)
macro_rules | `(tactic| fr_lemma) => `(tactic| ((apply fr_readHexPair) <;> with_reducible_and_instances fuel_side))

theorem fr_readByteEexec : Fr b l pre readByteEexec readByteEexec := by
  intro sc; unfold readByteEexec; fr_auto
macro_rules | `(tactic| fr_lemma) => `(tactic| exact fr_readByteEexec _)

theorem fr_readByte : Fr b l pre readByte readByte := by
  intro sc
  unfold readByte
  apply FrAt.getS_bind
  dsimp only [ext_eexec]
  apply FrAt.ite
  · fr_lemma
  apply FrAt.bindW
  · fr_lemma
  intro c sc1
  apply FrAt.getS_bind
  dsimp only [ext_r]
  generalize Cipher.decStep sc1.r c = q
  obtain ⟨p, r'⟩ := q
  dsimp only
  fr_auto
macro_rules | `(tactic| fr_lemma) => `(tactic| exact fr_readByte _)

theorem getS_bind_eq {β : Type} (k : Scanner → SM β) (sc : Scanner) : (Scan.getS >>= k) sc = k sc sc :=
  bind_eq Scan.getS k sc

theorem readByteEexec_strict (sc : Scanner) : Strict readByteEexec sc := by
  intro c
  unfold readByteEexec
  rw [getS_bind_eq]
  split
  · exact readByteRaw_strict sc c
  · intro h; exact (readHexPair_meas _ 0 0 sc c h).2 (by omega)

theorem readByte_strict (sc : Scanner) : Strict readByte sc := by
  intro c
  unfold readByte
  rw [getS_bind_eq]
  split
  · exact readByteRaw_strict sc c
  · rw [bind_eq]
    have hs := readByteEexec_strict sc
    unfold Strict at hs
    generalize readByteEexec sc = p at hs ⊢
    obtain ⟨r, sc1⟩ := p
    cases r with
    | error e => intro h; simp at h
    | ok x =>
      dsimp only at hs ⊢
      have := hs x rfl
      rw [getS_bind_eq]
      generalize Cipher.decStep sc1.r x = q
      obtain ⟨p, r'⟩ := q
      dsimp only
      rw [bind_eq]
      intro _
      exact this

/-- the position bookkeeping of `Next` -/
def lineCol (c : UInt8) (s : Scanner) : Scanner :=
  let s := if s.crSeen && c == 10 then s
           else if c == 10 || c == 13 then { s with line := s.line + 1, col := 0 }
           else { s with col := s.col + 1 }
  { s with crSeen := (c == 13) }

theorem lineCol_props (c : UInt8) (s : Scanner) :
    (lineCol c s).err = s.err ∧ (lineCol c s).src = s.src ∧ (lineCol c s).peek = s.peek ∧
    lineCol c (ext b l pre s) = ext b l pre (lineCol c s) ∧
    (lineCol c s).eexec = s.eexec ∧ (lineCol c s).regurgitate = s.regurgitate := by
  unfold lineCol ext
  by_cases h1 : (s.crSeen && c == 10) = true <;> by_cases h2 : (c == 10 || c == 13) = true <;>
    simp [h1, h2, Nat.add_assoc]

theorem lineCol_meas (c : UInt8) (s : Scanner) : meas (lineCol c s) = meas s := by
  have h := lineCol_props (b := []) (l := 0) (pre := []) c s
  unfold meas; rw [h.2.1, h.2.2.1]

/-- the first half of `Next`: take the byte from the look-ahead or from the reader -/
def nextByte (s : Scanner) : SM UInt8 :=
  if !s.peek.isEmpty && !s.regurgitate then
    match s.peek with
    | c :: rest => do modS (fun s => { s with peek := rest }); pure c
    | [] => fail (.panic "unreachable")
  else readByte

theorem next_unfold : next = (do
    let s ← getS
    let c ← nextByte s
    modS (lineCol c)
    pure c) := rfl

theorem nextByte_cons {sc : Scanner} {c : UInt8} {rest : List UInt8} (hp : sc.peek = c :: rest)
    (hr : sc.regurgitate = false) : nextByte sc sc = (.ok c, { sc with peek := rest }) := by
  unfold nextByte
  rw [if_pos (by simp [hp, hr]), hp]
  rfl

theorem nextByte_else {sc : Scanner} (h : sc.peek = [] ∨ sc.regurgitate = true) : nextByte sc = readByte := by
  unfold nextByte
  rw [if_neg]
  rcases h with h | h <;> simp [h]

theorem fr_nextByte (sc : Scanner) : FrAt b l pre (nextByte sc) (nextByte sc) sc := by
  cases hp : sc.peek with
  | nil => rw [nextByte_else (Or.inl hp)]; exact fr_readByte _
  | cons c rest =>
    cases hr : sc.regurgitate with
    | true => rw [nextByte_else (Or.inr hr)]; exact fr_readByte _
    | false =>
      unfold FrAt
      have e2 : nextByte sc (ext b l pre sc) = (.ok c, { ext b l pre sc with peek := rest }) := by
        unfold nextByte
        rw [if_pos (by simp [hp, hr]), hp]
        rfl
      rw [nextByte_cons hp hr, e2]
      exact ⟨by simp [meas, hp], fun he => ⟨he, rfl⟩, id, ⟨rfl, rfl⟩⟩

theorem nextByte_strict (sc : Scanner) : Strict (nextByte sc) sc := by
  cases hp : sc.peek with
  | nil => rw [nextByte_else (Or.inl hp)]; exact readByte_strict _
  | cons c rest =>
    cases hr : sc.regurgitate with
    | true => rw [nextByte_else (Or.inr hr)]; exact readByte_strict _
    | false =>
      intro x
      rw [nextByte_cons hp hr]
      intro _
      simp [meas, hp]

theorem fr_next : Fr b l pre next next := by
  intro sc
  rw [next_unfold]
  apply FrAt.getS_bind
  dsimp only [nextByte, ext_peek, ext_regurgitate]
  apply FrAt.bindW (fr_nextByte sc)
  intro c sc1
  apply FrAt.bindW
  · refine FrAt.modS _ _ ⟨(lineCol_props (b := b) (l := l) (pre := pre) c sc1).1, Nat.le_of_eq (lineCol_meas c sc1),
      (lineCol_props c sc1).2.2.2.1, (lineCol_props (b := b) (l := l) (pre := pre) c sc1).2.2.2.2.1,
      (lineCol_props (b := b) (l := l) (pre := pre) c sc1).2.2.2.2.2⟩
  · intro _ sc2; exact FrAt.pure _ _
macro_rules | `(tactic| fr_lemma) => `(tactic| exact fr_next _)

theorem next_strict (sc : Scanner) : Strict next sc := by
  intro x
  rw [next_unfold, getS_bind_eq, bind_eq]
  have hs := nextByte_strict sc
  unfold Strict at hs
  generalize nextByte sc sc = p at hs ⊢
  obtain ⟨r, sc1⟩ := p
  cases r with
  | error e => intro h; simp at h
  | ok c =>
    dsimp only at hs ⊢
    have := hs c rfl
    rw [bind_eq]
    intro _
    show meas (lineCol c sc1) < meas sc
    rw [lineCol_meas]; exact this

/-- read one more byte into the look-ahead -/
def peekMore : SM UInt8 := do
  let c ← readByte
  modS (fun s => { s with peek := s.peek ++ [c] })
  pure c

theorem peekMore_eq (sc : Scanner) : peekMore sc = match readByte sc with
    | (.ok c, sc1) => (.ok c, { sc1 with peek := sc1.peek ++ [c] })
    | (.error e, sc1) => (.error e, sc1) := by
  unfold peekMore
  rw [bind_eq]
  generalize readByte sc = p
  obtain ⟨r, sc1⟩ := p
  cases r <;> rfl

theorem fr_peekMore : Fr b l pre peekMore peekMore := by
  intro sc
  unfold FrAt
  rw [peekMore_eq, peekMore_eq]
  have h := fr_readByte (b := b) (l := l) (pre := pre) sc
  have hs := readByte_strict sc
  unfold FrAt at h
  unfold Strict at hs
  generalize readByte sc = p at h hs ⊢
  obtain ⟨r, sc1⟩ := p
  obtain ⟨h1, h2, h3, h4⟩ := h
  cases r with
  | error e =>
    dsimp only at h1 h2 h3 h4 ⊢
    refine ⟨h1, fun he => ?_, h3, h4⟩
    obtain ⟨a1, a2⟩ := h2 he
    rw [a2]; exact ⟨a1, rfl⟩
  | ok c =>
    dsimp only at h1 h2 h3 h4 hs ⊢
    have := hs c rfl
    refine ⟨by simp [meas] at this ⊢; omega, fun he => ?_, h3, h4⟩
    obtain ⟨a1, a2⟩ := h2 he
    rw [a2]; exact ⟨a1, rfl⟩
macro_rules | `(tactic| fr_lemma) => `(tactic| exact fr_peekMore _)

theorem peek_unfold : peek = (do
    let s ← getS
    match s.peek with
    | c :: _ => pure c
    | [] => peekMore) := rfl

theorem fr_peek : Fr b l pre peek peek := by
  intro sc; rw [peek_unfold]; fr_auto
macro_rules | `(tactic| fr_lemma) => `(tactic| exact fr_peek _)

theorem peekN_succ (n fuel : Nat) : peekN n (fuel + 1) = (do
    let s ← getS
    if s.peek.length ≥ n then pure (s.peek.take n)
    else
      match ← attempt peekMore with
      | .error _ => do let s ← getS; pure s.peek
      | .ok _ => peekN n fuel) := by
  funext sc
  conv => lhs; unfold peekN
  rw [getS_bind_eq, getS_bind_eq]
  split
  · rfl
  · rw [bind_eq, bind_eq]
    unfold Scan.attempt
    rw [peekMore_eq]
    generalize readByte sc = p
    obtain ⟨r, sc1⟩ := p
    cases r with
    | error e => rfl
    | ok c => dsimp only; rw [bind_eq]; rfl

theorem fr_peekN (n : Nat) : ∀ fuel sc, FrAt b l pre (peekN n fuel) (peekN n fuel) sc := by
  intro fuel
  induction fuel with
  | zero => intro sc; unfold peekN; fr_auto
  | succ k ih => intro sc; rw [peekN_succ]; fr_with ih
macro_rules | `(tactic| fr_lemma) => `(tactic| exact fr_peekN _ _ _)

/-! ### consumption facts used by the loops -/

theorem attempt_eq {α : Type} {f : SM α} {sc sc1 : Scanner} {r : Except Err α}
    (h : Scan.attempt f sc = (.ok r, sc1)) : f sc = (r, sc1) := by
  unfold Scan.attempt at h
  generalize f sc = p at h
  obtain ⟨r', s'⟩ := p
  cases h; rfl

theorem attempt_strict {α : Type} {f : SM α} {sc sc1 : Scanner} {c : α} (hs : Strict f sc)
    (h : Scan.attempt f sc = (.ok (.ok c), sc1)) : meas sc1 < meas sc := hs.of_eq (attempt_eq h)

theorem readHexPair_le : ∀ n i out sc, meas (readHexPair n i out sc).2 ≤ meas sc := by
  intro n
  induction n with
  | zero => intro i out sc; exact Nat.le_refl _
  | succ n ih =>
    intro i out sc
    unfold readHexPair
    split
    · exact Nat.le_refl _
    · rw [bind_eq]
      have h := (fr_readByteRaw (b := []) (l := 0) (pre := []) sc).meas
      generalize readByteRaw sc = p at h ⊢
      obtain ⟨r, sc1⟩ := p
      cases r with
      | error e => exact h
      | ok x =>
        dsimp only at h ⊢
        split
        · exact Nat.le_trans (ih _ _ _) h
        · cases hexNibble x with
          | some v => exact Nat.le_trans (ih _ _ _) h
          | none => exact h

theorem readByteRaw_regurg {sc : Scanner} {c : UInt8} {rest : List UInt8} (hp : sc.peek = c :: rest)
    (hr : sc.regurgitate = true) : readByteRaw sc = (.ok c, { sc with peek := rest }) := by
  unfold readByteRaw
  rw [if_pos (by simp [hp, hr]), hp]

theorem fuelOf_succ (s : Scanner) : fuelOf s = (s.src.length + s.peek.length + 7) + 1 := rfl

theorem readByteEexec_peek {sc : Scanner} {c : UInt8} {rest : List UInt8} (hp : sc.peek = c :: rest)
    (hr : sc.regurgitate = true) : meas (readByteEexec sc).2 < meas sc := by
  have hpop : meas ({ sc with peek := rest } : Scanner) < meas sc := by simp [meas, hp]
  unfold readByteEexec
  rw [getS_bind_eq]
  split
  · rw [readByteRaw_regurg hp hr]; exact hpop
  · rw [fuelOf_succ]
    unfold readHexPair
    rw [if_neg (by omega), bind_eq, readByteRaw_regurg hp hr]
    dsimp only
    split
    · exact Nat.lt_of_le_of_lt (readHexPair_le _ _ _ _) hpop
    · cases hexNibble c with
      | some v => exact Nat.lt_of_le_of_lt (readHexPair_le _ _ _ _) hpop
      | none => exact hpop

theorem readByte_peek {sc : Scanner} {c : UInt8} {rest : List UInt8} (hp : sc.peek = c :: rest)
    (hr : sc.regurgitate = true) : meas (readByte sc).2 < meas sc := by
  unfold readByte
  rw [getS_bind_eq]
  split
  · rw [readByteRaw_regurg hp hr]; simp [meas, hp]
  · rw [bind_eq]
    have h := readByteEexec_peek hp hr
    generalize readByteEexec sc = p at h ⊢
    obtain ⟨r, sc1⟩ := p
    cases r with
    | error e => exact h
    | ok x =>
      dsimp only at h ⊢
      rw [getS_bind_eq]
      generalize Cipher.decStep sc1.r x = q
      obtain ⟨p, r'⟩ := q
      dsimp only
      rw [bind_eq]
      exact h

theorem nextByte_peek {sc : Scanner} (hp : sc.peek ≠ []) : meas (nextByte sc sc).2 < meas sc := by
  cases hpk : sc.peek with
  | nil => exact absurd hpk hp
  | cons c rest =>
    cases hr : sc.regurgitate with
    | true => rw [nextByte_else (Or.inr hr)]; exact readByte_peek hpk hr
    | false => rw [nextByte_cons hpk hr]; simp [meas, hpk]

theorem next_snd_meas (sc : Scanner) : meas (next sc).2 = meas (nextByte sc sc).2 := by
  rw [next_unfold, getS_bind_eq, bind_eq]
  generalize nextByte sc sc = p
  obtain ⟨r, sc1⟩ := p
  cases r with
  | error e => rfl
  | ok c =>
    dsimp only
    rw [bind_eq]
    show meas (lineCol c sc1) = meas sc1
    exact lineCol_meas c sc1

theorem skipByte_strict {sc sc1 : Scanner} {r : Except Err Unit} (hp : sc.peek ≠ [])
    (h : skipByte sc = (r, sc1)) : meas sc1 < meas sc := by
  have e : (skipByte sc).2 = (next sc).2 := by
    unfold skipByte
    rw [bind_eq]
    unfold Scan.attempt
    generalize next sc = p
    obtain ⟨r, s'⟩ := p
    rfl
  have : sc1 = (skipByte sc).2 := by rw [h]
  rw [this, e, next_snd_meas]
  exact nextByte_peek hp

theorem peek_nonempty {sc sc1 : Scanner} {c : UInt8} (h : peek sc = (.ok c, sc1)) : sc1.peek ≠ [] := by
  rw [peek_unfold, getS_bind_eq] at h
  cases hp : sc.peek with
  | cons x rest =>
    rw [hp] at h
    cases h
    rw [hp]; simp
  | nil =>
    rw [hp] at h
    dsimp only at h
    rw [peekMore_eq] at h
    generalize readByte sc = p at h
    obtain ⟨r, s'⟩ := p
    cases r with
    | error e => cases h
    | ok x =>
      cases h; simp

/-! ### the scanner functions -/

theorem fr_lookingAt (pat : List UInt8) : Fr b l pre (lookingAt pat) (lookingAt pat) := by
  intro sc; unfold lookingAt; fr_auto
macro_rules | `(tactic| fr_lemma) => `(tactic| exact fr_lookingAt _ _)

theorem fr_skipByte : Fr b l pre skipByte skipByte := by
  intro sc; unfold skipByte; fr_auto
macro_rules | `(tactic| fr_lemma) => `(tactic| exact fr_skipByte _)

theorem fr_skipN : ∀ n sc, FrAt b l pre (skipN n) (skipN n) sc := by
  intro n
  induction n with
  | zero => intro sc; unfold skipN; fr_auto
  | succ k ih => intro sc; unfold skipN; fr_with ih
macro_rules | `(tactic| fr_lemma) => `(tactic| exact fr_skipN _ _)

theorem fr_skipRequiredByte (x : UInt8) : Fr b l pre (skipRequiredByte x) (skipRequiredByte x) := by
  intro sc; unfold skipRequiredByte; fr_auto
macro_rules | `(tactic| fr_lemma) => `(tactic| exact fr_skipRequiredByte _ _)

theorem fr_skipOptionalByte (x : UInt8) : Fr b l pre (skipOptionalByte x) (skipOptionalByte x) := by
  intro sc; unfold skipOptionalByte; fr_auto
macro_rules | `(tactic| fr_lemma) => `(tactic| exact fr_skipOptionalByte _ _)

/-- start of a loop lemma: induction on the fuel of the short run -/
macro "loop_start" f:ident ih:ident : tactic =>
  `(tactic| (intro n; induction n with
    | zero => intros; omega
    | succ n $ih => ?_))

theorem fr_skipToEOL : ∀ n n' sc, meas sc < n → n ≤ n' → FrAt b l pre (skipToEOL n) (skipToEOL n') sc := by
  intro n
  induction n with
  | zero => intro n' sc h; omega
  | succ n ih =>
    intro n' sc h hle
    obtain ⟨k, rfl⟩ : ∃ k, n' = k + 1 := ⟨n' - 1, by omega⟩
    unfold skipToEOL
    refine FrAt.bind' (FrAt.attempt (fr_next sc)) ?_
    intro r sc1 hr
    cases r with
    | error e => exact FrAt.pure _ _
    | ok c =>
      have := attempt_strict (next_strict sc) hr
      dsimp only
      fr_with ih
macro_rules | `(tactic| fr_lemma) => `(tactic| ((apply fr_skipToEOL) <;> with_reducible_and_instances fuel_side))

theorem fr_skipComment : Fr b l pre skipComment skipComment := by
  intro sc; unfold skipComment; fr_auto
macro_rules | `(tactic| fr_lemma) => `(tactic| exact fr_skipComment _)

theorem fr_readCommentKey : ∀ n n' acc sc, meas sc < n → n ≤ n' →
    FrAt b l pre (readCommentKey n acc) (readCommentKey n' acc) sc := by
  intro n
  induction n with
  | zero => intro n' acc sc h; omega
  | succ n ih =>
    intro n' acc sc h hle
    obtain ⟨k, rfl⟩ : ∃ k, n' = k + 1 := ⟨n' - 1, by omega⟩
    unfold readCommentKey
    refine FrAt.bind'' (FrAt.attempt (fr_peek sc)) ?_
    intro r sc1 hr hle1
    cases r with
    | error e => fr_auto
    | ok c =>
      have hne := peek_nonempty (attempt_eq hr)
      dsimp only
      split
      · exact FrAt.pure _ _
      · refine FrAt.bind' (fr_skipByte sc1) ?_
        intro u sc2 hu
        have := skipByte_strict hne hu
        fr_with ih
macro_rules | `(tactic| fr_lemma) => `(tactic| ((apply fr_readCommentKey) <;> with_reducible_and_instances fuel_side))

theorem fr_skipBlanks : ∀ n n' sc, meas sc < n → n ≤ n' → FrAt b l pre (skipBlanks n) (skipBlanks n') sc := by
  intro n
  induction n with
  | zero => intro n' sc h; omega
  | succ n ih =>
    intro n' sc h hle
    obtain ⟨k, rfl⟩ : ∃ k, n' = k + 1 := ⟨n' - 1, by omega⟩
    unfold skipBlanks
    refine FrAt.bind'' (FrAt.attempt (fr_peek sc)) ?_
    intro r sc1 hr hle1
    cases r with
    | error e => fr_auto
    | ok c =>
      have hne := peek_nonempty (attempt_eq hr)
      dsimp only
      split
      · exact FrAt.pure _ _
      · refine FrAt.bind' (fr_skipByte sc1) ?_
        intro u sc2 hu
        have := skipByte_strict hne hu
        fr_with ih
macro_rules | `(tactic| fr_lemma) => `(tactic| ((apply fr_skipBlanks) <;> with_reducible_and_instances fuel_side))

theorem fr_readRegular : ∀ n n' acc sc, meas sc < n → n ≤ n' →
    FrAt b l pre (readRegular n acc) (readRegular n' acc) sc := by
  intro n
  induction n with
  | zero => intro n' acc sc h; omega
  | succ n ih =>
    intro n' acc sc h hle
    obtain ⟨k, rfl⟩ : ∃ k, n' = k + 1 := ⟨n' - 1, by omega⟩
    unfold readRegular
    refine FrAt.bind'' (FrAt.attempt (fr_peek sc)) ?_
    intro r sc1 hr hle1
    cases r with
    | error e => fr_auto
    | ok c =>
      have hne := peek_nonempty (attempt_eq hr)
      dsimp only
      split
      · exact FrAt.pure _ _
      · refine FrAt.bind' (fr_skipByte sc1) ?_
        intro u sc2 hu
        have := skipByte_strict hne hu
        fr_with ih
macro_rules | `(tactic| fr_lemma) => `(tactic| ((apply fr_readRegular) <;> with_reducible_and_instances fuel_side))

theorem fr_readLine : ∀ n n' acc sc, meas sc < n → n ≤ n' → FrAt b l pre (readLine n acc) (readLine n' acc) sc := by
  intro n
  induction n with
  | zero => intro n' acc sc h; omega
  | succ n ih =>
    intro n' acc sc h hle
    obtain ⟨k, rfl⟩ : ∃ k, n' = k + 1 := ⟨n' - 1, by omega⟩
    unfold readLine
    refine FrAt.bind' (FrAt.attempt (fr_next sc)) ?_
    intro r sc1 hr
    cases r with
    | error e => fr_auto
    | ok c =>
      have := attempt_strict (next_strict sc) hr
      dsimp only
      fr_with ih
macro_rules | `(tactic| fr_lemma) => `(tactic| ((apply fr_readLine) <;> with_reducible_and_instances fuel_side))

theorem peekN_nonempty (n : Nat) : ∀ f sc bb, (peekN n f sc).1 = .ok bb → bb ≠ [] →
    (peekN n f sc).2.peek ≠ [] := by
  intro f
  induction f with
  | zero =>
    intro sc bb h hb
    unfold peekN at h ⊢
    rw [getS_bind_eq] at h ⊢
    simp only [pure_eq] at h ⊢
    cases h
    intro hp; rw [hp] at hb; simp at hb
  | succ k ih =>
    intro sc bb h hb
    rw [peekN_succ] at h ⊢
    rw [getS_bind_eq] at h ⊢
    split at h
    · rename_i hc
      rw [if_pos hc]
      simp only [pure_eq] at h ⊢
      cases h
      intro hp; rw [hp] at hb; simp at hb
    · rename_i hc
      rw [if_neg hc]
      rw [bind_eq] at h ⊢
      generalize Scan.attempt peekMore sc = p at h ⊢
      obtain ⟨r, s1⟩ := p
      cases r with
      | error e => cases h
      | ok r' =>
        cases r' with
        | error e =>
          dsimp only at h ⊢
          rw [getS_bind_eq] at h ⊢
          simp only [pure_eq] at h ⊢
          cases h
          exact hb
        | ok c => exact ih s1 bb h hb

theorem lookingAt_true {pat : List UInt8} {sc sc1 : Scanner} (h : lookingAt pat sc = (.ok true, sc1))
    (hp : pat ≠ []) : sc1.peek ≠ [] := by
  unfold lookingAt at h
  rw [bind_eq] at h
  have hn := peekN_nonempty pat.length (pat.length + 1) sc
  generalize peekN pat.length (pat.length + 1) sc = p at h hn
  obtain ⟨r, s'⟩ := p
  cases r with
  | error e => cases h
  | ok bb =>
    dsimp only at h hn
    have h' : ((Except.ok (bb == pat), s') : Except Err Bool × Scanner) = (Except.ok true, sc1) := h
    injection h' with h1 h2
    injection h1 with h1
    have : bb = pat := by simpa using h1
    subst h2
    exact hn bb rfl (by rw [this]; exact hp)

theorem skipN_strict {k : Nat} {sc sc1 : Scanner} {r : Except Err Unit} (hp : sc.peek ≠ [])
    (h : skipN (k + 1) sc = (r, sc1)) : meas sc1 < meas sc := by
  unfold skipN at h
  rw [bind_eq] at h
  have hs := @skipByte_strict sc
  generalize skipByte sc = p at h hs
  obtain ⟨r0, s'⟩ := p
  have h0 := hs hp rfl
  cases r0 with
  | error e => cases h; exact h0
  | ok u =>
    dsimp only at h
    have := (fr_skipN (b := []) (l := 0) (pre := []) k s').le h
    omega

theorem fr_readCommentValue : ∀ n n' acc sc, meas sc < n → n ≤ n' →
    FrAt b l pre (readCommentValue n acc) (readCommentValue n' acc) sc := by
  intro n
  induction n with
  | zero => intro n' acc sc h; omega
  | succ n ih =>
    intro n' acc sc h hle
    obtain ⟨k, rfl⟩ : ∃ k, n' = k + 1 := ⟨n' - 1, by omega⟩
    unfold readCommentValue
    apply FrAt.getS_bind
    refine FrAt.bind'' (fr_skipBlanks _ _ _ (meas_lt_fuelOf _) (fuelOf_le_ext _)) ?_
    intro u sc1 h1 l1
    apply FrAt.getS_bind
    refine FrAt.bind'' (fr_readLine _ _ _ _ (meas_lt_fuelOf _) (fuelOf_le_ext _)) ?_
    intro acc' sc2 h2 l2
    refine FrAt.bind'' (fr_lookingAt _ sc2) ?_
    intro c sc3 h3 l3
    cases c with
    | false => exact FrAt.pure _ _
    | true =>
      have hne := lookingAt_true h3 (by simp)
      simp only [if_true]
      refine FrAt.bind' (fr_skipN 3 sc3) ?_
      intro u sc4 h4
      have := skipN_strict hne h4
      apply ih <;> omega
macro_rules | `(tactic| fr_lemma) => `(tactic| ((apply fr_readCommentValue) <;> with_reducible_and_instances fuel_side))

theorem fr_readStructuredComment : Fr b l pre readStructuredComment readStructuredComment := by
  intro sc; unfold readStructuredComment; fr_auto
macro_rules | `(tactic| fr_lemma) => `(tactic| exact fr_readStructuredComment _)

theorem fr_readOctal : ∀ n oct sc, FrAt b l pre (readOctal n oct) (readOctal n oct) sc := by
  intro n
  induction n with
  | zero => intro oct sc; unfold readOctal; fr_auto
  | succ k ih => intro oct sc; unfold readOctal; fr_with ih
macro_rules | `(tactic| fr_lemma) => `(tactic| exact fr_readOctal _ _ _)

theorem fr_readStringBody : ∀ n n' res level ign sc, meas sc < n → n ≤ n' →
    FrAt b l pre (readStringBody n res level ign) (readStringBody n' res level ign) sc := by
  intro n
  induction n with
  | zero => intro n' res level ign sc h; omega
  | succ n ih =>
    intro n' res level ign sc h hle
    obtain ⟨k, rfl⟩ : ∃ k, n' = k + 1 := ⟨n' - 1, by omega⟩
    unfold readStringBody
    refine FrAt.bind' (fr_next sc) ?_
    intro c sc1 hc
    have := (next_strict sc).of_eq hc
    fr_with ih
macro_rules | `(tactic| fr_lemma) => `(tactic| ((apply fr_readStringBody) <;> with_reducible_and_instances fuel_side))

theorem fr_readString : Fr b l pre readString readString := by
  intro sc; unfold readString; fr_auto
macro_rules | `(tactic| fr_lemma) => `(tactic| exact fr_readString _)

theorem fr_readHexBody : ∀ n n' res first hi sc, meas sc < n → n ≤ n' →
    FrAt b l pre (readHexBody n res first hi) (readHexBody n' res first hi) sc := by
  intro n
  induction n with
  | zero => intro n' res first hi sc h; omega
  | succ n ih =>
    intro n' res first hi sc h hle
    obtain ⟨k, rfl⟩ : ∃ k, n' = k + 1 := ⟨n' - 1, by omega⟩
    unfold readHexBody
    refine FrAt.bind' (fr_next sc) ?_
    intro c sc1 hc
    have := (next_strict sc).of_eq hc
    fr_with ih
macro_rules | `(tactic| fr_lemma) => `(tactic| ((apply fr_readHexBody) <;> with_reducible_and_instances fuel_side))

theorem fr_readHexString : Fr b l pre readHexString readHexString := by
  intro sc; unfold readHexString; fr_auto
macro_rules | `(tactic| fr_lemma) => `(tactic| exact fr_readHexString _)

theorem fr_readA85Body : ∀ n n' res pos val sc, meas sc < n → n ≤ n' →
    FrAt b l pre (readA85Body n res pos val) (readA85Body n' res pos val) sc := by
  intro n
  induction n with
  | zero => intro n' res pos val sc h; omega
  | succ n ih =>
    intro n' res pos val sc h hle
    obtain ⟨k, rfl⟩ : ∃ k, n' = k + 1 := ⟨n' - 1, by omega⟩
    unfold readA85Body
    refine FrAt.bind' (fr_next sc) ?_
    intro c sc1 hc
    have := (next_strict sc).of_eq hc
    fr_with ih
macro_rules | `(tactic| fr_lemma) => `(tactic| ((apply fr_readA85Body) <;> with_reducible_and_instances fuel_side))

theorem fr_readBase85String : Fr b l pre readBase85String readBase85String := by
  intro sc; unfold readBase85String; fr_auto
macro_rules | `(tactic| fr_lemma) => `(tactic| exact fr_readBase85String _)

theorem fr_skipEexecSpace : ∀ n n' sc, meas sc < n → n ≤ n' →
    FrAt b l pre (skipEexecSpace n) (skipEexecSpace n') sc := by
  intro n
  induction n with
  | zero => intro n' sc h; omega
  | succ n ih =>
    intro n' sc h hle
    obtain ⟨k, rfl⟩ : ∃ k, n' = k + 1 := ⟨n' - 1, by omega⟩
    unfold skipEexecSpace
    refine FrAt.bind'' (fr_peek sc) ?_
    intro c sc1 hc hle1
    have hne := peek_nonempty hc
    split
    · refine FrAt.bind' (fr_skipByte sc1) ?_
      intro u sc2 hu
      have := skipByte_strict hne hu
      fr_with ih
    · exact FrAt.pure _ _

theorem fr_skipIV : ∀ n sc, FrAt b l pre (skipIV n) (skipIV n) sc := by
  intro n
  induction n with
  | zero => intro sc; unfold skipIV; fr_auto
  | succ k ih => intro sc; unfold skipIV; fr_with ih

theorem fr_readN : ∀ n acc sc, FrAt b l pre (readN n acc) (readN n acc) sc := by
  intro n
  induction n with
  | zero => intro acc sc; unfold readN; fr_auto
  | succ k ih => intro acc sc; unfold readN; fr_with ih

/-! ### `skipWhiteSpace`, `scanToken`, `beginEexec`: frame only

`skipWhiteSpace` fails when its fuel runs out, so instead of a bound on the fuel the lemma
assumes that the short run did not end with that failure. -/

def scannerFuel : Err := .other "scanner-fuel"

/-- frame property without the bound on the unread bytes; when something was appended, only
for runs that do not end with the scanner's own out-of-fuel failure -/
def FrW {α : Type} (f g : SM α) (sc : Scanner) : Prop :=
  ∀ r sc', f sc = (r, sc') → Quiet b sc' → (b ≠ [] → r ≠ .error scannerFuel) →
    Quiet b sc ∧ g (ext b l pre sc) = (r, ext b l pre sc')

theorem FrAt.weak {α : Type} {f g : SM α} {sc : Scanner} (h : FrAt b l pre f g sc) :
    FrW (b := b) (l := l) (pre := pre) f g sc := by
  intro r sc' e he _
  have := h.frame
  rw [e] at this
  exact this he

theorem FrW.bind' {α β : Type} {f g : SM α} {k k' : α → SM β} {sc : Scanner}
    (h : FrW (b := b) (l := l) (pre := pre) f g sc)
    (hk : ∀ a sc1, f sc = (.ok a, sc1) → FrW (b := b) (l := l) (pre := pre) (k a) (k' a) sc1) :
    FrW (b := b) (l := l) (pre := pre) (f >>= k) (g >>= k') sc := by
  intro r sc' e he hr
  rw [bind_eq] at e
  rw [bind_eq]
  generalize hp : f sc = p at e hk
  obtain ⟨r1, sc1⟩ := p
  cases r1 with
  | error x =>
    dsimp only at e
    cases e
    obtain ⟨a1, a2⟩ := h _ _ hp he (fun hb hx => hr hb (by cases hx; rfl))
    rw [a2]; exact ⟨a1, rfl⟩
  | ok a =>
    dsimp only at e
    obtain ⟨c1, c2⟩ := hk a sc1 rfl _ _ e he hr
    obtain ⟨a1, a2⟩ := h _ _ hp c1 (fun _ hx => by cases hx)
    rw [a2]; exact ⟨a1, c2⟩

theorem FrW.bind {α β : Type} {f g : SM α} {k k' : α → SM β} {sc : Scanner}
    (h : FrW (b := b) (l := l) (pre := pre) f g sc)
    (hk : ∀ a sc1, FrW (b := b) (l := l) (pre := pre) (k a) (k' a) sc1) :
    FrW (b := b) (l := l) (pre := pre) (f >>= k) (g >>= k') sc :=
  FrW.bind' h (fun a sc1 _ => hk a sc1)

theorem FrW.getS_bind {β : Type} {k k' : Scanner → SM β} {sc : Scanner}
    (h : FrW (b := b) (l := l) (pre := pre) (k sc) (k' (ext b l pre sc)) sc) :
    FrW (b := b) (l := l) (pre := pre) (Scan.getS >>= k) (Scan.getS >>= k') sc := by
  intro r sc' e
  rw [getS_bind_eq] at e
  rw [getS_bind_eq]
  exact h r sc' e

theorem FrW.ite {α : Type} {c : Prop} [Decidable c] {f f' g g' : SM α} {sc : Scanner}
    (h1 : FrW (b := b) (l := l) (pre := pre) f g sc) (h2 : FrW (b := b) (l := l) (pre := pre) f' g' sc) :
    FrW (b := b) (l := l) (pre := pre) (if c then f else f') (if c then g else g') sc := by
  split
  · exact h1
  · exact h2

/-- recording a structured comment -/
theorem fr_addDsc (x : String × String) (sc : Scanner) :
    FrAt b l pre (Scan.modS (fun s => { s with dsc := s.dsc ++ [x] }))
      (Scan.modS (fun s => { s with dsc := s.dsc ++ [x] })) sc := by
  refine FrAt.modS _ _ ⟨rfl, Nat.le_refl _, ?_, rfl, rfl⟩
  simp only [ext, List.append_assoc]
macro_rules | `(tactic| fr_lemma) => `(tactic| exact fr_addDsc _ _)

macro "frw_with" ih:ident : tactic =>
  `(tactic| repeat' (first
    | contradiction
    | (with_reducible apply $ih) <;> first | omega | assumption
    | (with_reducible apply FrAt.weak; fr_auto; done)
    | (with_reducible apply FrW.getS_bind;
       try dsimp only [ext_peek, ext_regurgitate, ext_eexec, ext_r, ext_col, ext_err])
    | with_reducible apply FrW.bind
    | with_reducible apply FrW.ite
    | with_reducible intro _
    | split
    | dsimp only))

theorem frw_skipWhiteSpace : ∀ n n' sc, n ≤ n' → (b = [] → n = n') →
    FrW (b := b) (l := l) (pre := pre) (skipWhiteSpace n) (skipWhiteSpace n') sc := by
  intro n
  induction n with
  | zero =>
    intro n' sc _ heq r sc' e _ hr
    by_cases hb : b = []
    · have := heq hb
      subst this
      cases e
      exact ⟨Or.inr hb, rfl⟩
    · exact absurd (by cases e; rfl) (hr hb)
  | succ n ih =>
    intro n' sc hle heq
    obtain ⟨k, rfl⟩ : ∃ k, n' = k + 1 := ⟨n' - 1, by omega⟩
    have heq' : b = [] → n = k := fun hb => by have := heq hb; omega
    unfold skipWhiteSpace
    frw_with ih

theorem fuelOf_ext_nil (sc : Scanner) : fuelOf (ext [] l pre sc) = fuelOf sc := by
  simp [fuelOf]

theorem frw_scanToken (sc : Scanner) : FrW (b := b) (l := l) (pre := pre) scanToken scanToken sc := by
  unfold scanToken
  apply FrW.getS_bind
  apply FrW.bind (frw_skipWhiteSpace _ _ _ (by have := fuelOf_le_ext (b := b) (l := l) (pre := pre) sc; omega)
    (by intro hb; subst hb; rw [fuelOf_ext_nil]))
  intro u sc1
  apply FrAt.weak
  fr_auto

theorem FrW.modS (f : Scanner → Scanner) (sc : Scanner)
    (hf : (f sc).err = sc.err ∧ f (ext b l pre sc) = ext b l pre (f sc)) :
    FrW (b := b) (l := l) (pre := pre) (Scan.modS f) (Scan.modS f) sc := by
  intro r sc' e he _
  cases e
  refine ⟨?_, ?_⟩
  · unfold Quiet at he ⊢
    rw [← hf.1]; exact he
  · show ((Except.ok (), f (ext b l pre sc)) : Except Err Unit × Scanner) = _
    rw [hf.2]

macro_rules | `(tactic| fr_lemma) => `(tactic| ((apply fr_skipEexecSpace) <;> with_reducible_and_instances fuel_side))
macro_rules | `(tactic| fr_lemma) => `(tactic| exact fr_skipIV _ _)

/-- the part of `BeginEexec` after the look-ahead -/
theorem frw_beginTail (bb : List UInt8) (sc : Scanner) :
    FrW (b := b) (l := l) (pre := pre)
      (do
        modS (fun s => { s with eexec := if (!bb.all isHexDigit) = true then 2 else 1, r := Cipher.eexecR, regurgitate := true })
        skipIV 4
        modS (fun s => { s with regurgitate := false, col := 0, crSeen := false }))
      (do
        modS (fun s => { s with eexec := if (!bb.all isHexDigit) = true then 2 else 1, r := Cipher.eexecR, regurgitate := true })
        skipIV 4
        modS (fun s => { s with regurgitate := false, col := 0, crSeen := false })) sc := by
  refine FrW.bind (FrW.modS _ _ ⟨rfl, rfl⟩) ?_
  intro _ sc1
  refine FrW.bind (FrAt.weak (fr_skipIV 4 sc1)) ?_
  intro _ sc2
  exact FrW.modS _ _ ⟨rfl, rfl⟩

theorem frw_beginEexec (sc : Scanner) : FrW (b := b) (l := l) (pre := pre) beginEexec beginEexec sc := by
  unfold beginEexec
  apply FrW.getS_bind
  dsimp only [ext_eexec]
  apply FrW.ite
  · refine FrW.bind' (FrAt.weak (FrAt.fail _ _)) ?_
    intro a sc1 h
    cases h
  refine FrW.bind (FrAt.weak (fr_skipEexecSpace _ _ _ (meas_lt_fuelOf _) (fuelOf_le_ext _))) ?_
  intro u2 sc2
  refine FrW.bind (FrAt.weak (fr_peekN 4 5 sc2)) ?_
  intro bb sc3
  apply FrW.ite
  · apply FrW.getS_bind
    dsimp only [ext_err]
    split
    · refine FrW.bind' (FrAt.weak (FrAt.fail _ _)) ?_
      intro a sc4 h
      cases h
    · refine FrW.bind' (FrAt.weak (FrAt.fail _ _)) ?_
      intro a sc4 h
      cases h
  · exact frw_beginTail bb sc3

theorem frw_endEexec (sc : Scanner) : FrW (b := b) (l := l) (pre := pre) endEexec endEexec sc := by
  unfold endEexec
  exact FrW.modS _ _ ⟨rfl, rfl⟩

end

/-! ## Part 2: the interpreter

`extSt b l pre dd s` is `s` with `b` appended to the unread source of its scanner, `l` added to
the scanner's line counter, `pre` put in front of the scanner's structured comments and the
interpreter's own list of structured comments replaced by `dd` (none of the thirteen
functions reads or writes that list). -/

section
variable (b : List UInt8) (l : Nat) (pre : List (String × String)) (dd : List (String × String))

@[reducible] def extSt (s : State) : State := { s with scanner := ext b l pre s.scanner, dsc := dd }

/-- `q` is the outcome `p` transported to the extended state, provided `p` ends quietly and
(if something was appended) not with the scanner's out-of-fuel failure -/
def FrQ {ρ : Type} (bad : ρ → Prop) (s : State) (p q : State × ρ) : Prop :=
  Quiet b p.1.scanner → (b ≠ [] → ¬ bad p.2) → Quiet b s.scanner ∧ q = (extSt b l pre dd p.1, p.2)

def badRes (r : Res) : Prop := r = .err scannerFuel
def badExc {α : Type} (r : Except Err α) : Prop := r = .error scannerFuel
def badNone {α : Type} (_ : α) : Prop := False

abbrev FrP (s : State) (p q : State × Res) : Prop := FrQ b l pre dd badRes s p q

variable {b l pre dd}

theorem FrQ.leaf {ρ : Type} {bad : ρ → Prop} {s : State} {p q : State × ρ}
    (hs : p.1.scanner.err = s.scanner.err)
    (hq : q = (extSt b l pre dd p.1, p.2)) : FrQ b l pre dd bad s p q := by
  intro h _
  unfold Quiet at h ⊢
  rw [hs] at h
  exact ⟨h, hq⟩

theorem FrQ.start {ρ : Type} {bad : ρ → Prop} {s0 s : State} {p q : State × ρ}
    (hs : s0.scanner = s.scanner) (h : FrQ b l pre dd bad s0 p q) : FrQ b l pre dd bad s p q := by
  intro hq hsf
  have := h hq hsf
  rw [hs] at this
  exact this

theorem FrQ.seq {ρ σ : Type} {bad : ρ → Prop} {bad' : σ → Prop} {s0 s : State} {p q : State × ρ}
    {K K' : State × ρ → State × σ}
    (h : FrQ b l pre dd bad s0 p q) (hs : s0.scanner = s.scanner)
    (hpass : bad p.2 → bad' (K p).2)
    (hK : ∀ s1 r, FrQ b l pre dd bad' s1 (K (s1, r)) (K' (extSt b l pre dd s1, r))) :
    FrQ b l pre dd bad' s (K p) (K' q) := by
  intro hq hsf
  obtain ⟨c1, c2⟩ := hK p.1 p.2 hq hsf
  obtain ⟨a1, a2⟩ := h c1 (fun hb hbad => hsf hb (hpass hbad))
  rw [hs] at a1
  rw [a2]
  exact ⟨a1, c2⟩

theorem frq_withScanner {α : Type} {m : SM α} {s : State}
    (h : FrW (b := b) (l := l) (pre := pre) m m s.scanner) :
    FrQ b l pre dd badExc s (withScanner s m) (withScanner (extSt b l pre dd s) m) := by
  intro hq hsf
  unfold withScanner at hq hsf ⊢
  dsimp only at hq hsf ⊢
  generalize hp : m s.scanner = p at hq hsf
  obtain ⟨r, sc'⟩ := p
  obtain ⟨a1, a2⟩ := h r sc' hp hq hsf
  rw [a2]
  exact ⟨a1, rfl⟩

/-- the statement proved for all functions of the mutual block at once -/
structure AllFr (b : List UInt8) (l : Nat) (pre dd : List (String × String)) (f m : Nat) : Prop where
  one : ∀ s o x, FrP b l pre dd s (execOne f m s o x) (execOne f m (extSt b l pre dd s) o x)
  body : ∀ s o x, FrP b l pre dd s (execBody f m s o x) (execBody f m (extSt b l pre dd s) o x)
  tail : ∀ s o x c, FrP b l pre dd s (execTail f m s o x c) (execTail f m (extSt b l pre dd s) o x c)
  run : ∀ s r o i n, FrP b l pre dd s (runBody f m s r o i n) (runBody f m (extSt b l pre dd s) r o i n)
  call : ∀ s id, FrP b l pre dd s (callBuiltin f m s id) (callBuiltin f m (extSt b l pre dd s) id)
  forL : ∀ s v i lm p, FrP b l pre dd s (forLoop f m s v i lm p) (forLoop f m (extSt b l pre dd s) v i lm p)
  rep : ∀ s n p, FrP b l pre dd s (repeatLoop f m s n p) (repeatLoop f m (extSt b l pre dd s) n p)
  loop : ∀ s p, FrP b l pre dd s (loopLoop f m s p) (loopLoop f m (extSt b l pre dd s) p)
  fArr : ∀ s r o i n p, FrP b l pre dd s (forallArr f m s r o i n p) (forallArr f m (extSt b l pre dd s) r o i n p)
  fStr : ∀ s r o i n p, FrP b l pre dd s (forallStr f m s r o i n p) (forallStr f m (extSt b l pre dd s) r o i n p)
  fDict : ∀ s d ks p, FrP b l pre dd s (forallDict f m s d ks p) (forallDict f m (extSt b l pre dd s) d ks p)
  sRun : ∀ s, FrP b l pre dd s (scanRun f m s) (scanRun f m (extSt b l pre dd s))
  sLoop : ∀ s, FrP b l pre dd s (scanLoop f m s) (scanLoop f m (extSt b l pre dd s))

/-- Synchronise a pair of sub-calls: `h : FrQ … s0 p p'` with `p`, `p'` variables of the goal
`FrQ … s (K p) (K' p')`.  Leaves the goal for the continuation from an arbitrary outcome. -/
syntax "sync " ident ident : tactic
macro_rules
  | `(tactic| sync $p $h) => `(tactic|
      (apply FrQ.seq $h
       · rfl
       · obtain ⟨s, r⟩ := $p
         intro hbad
         first
           | (unfold badRes at hbad; dsimp only at hbad; subst hbad; rfl)
           | (unfold badExc at hbad; dsimp only at hbad; subst hbad; rfl)
       clear $h
       intro s1 r1
       dsimp only [extSt]))

theorem step_execOne {f m : Nat} (ih : AllFr b l pre dd f m) (s : State) (o : Obj) (x : Bool) :
    FrP b l pre dd s (execOne (f + 1) m s o x) (execOne (f + 1) m (extSt b l pre dd s) o x) := by
  unfold execOne
  dsimp only [extSt]
  split
  · split
    · exact FrQ.leaf rfl rfl
    · have h1 := ih.body { s with execDepth := s.execDepth + 1, hiDepth := max s.hiDepth (s.execDepth + 1) } o true
      dsimp only [extSt] at h1
      generalize execBody f m _ o true = p1 at h1 ⊢
      generalize execBody f m _ o true = p1' at h1 ⊢
      sync p1 h1
      exact FrQ.leaf rfl rfl
  · exact ih.body s o false

theorem step_execBody {f m : Nat} (ih : AllFr b l pre dd f m) (s : State) (o : Obj) (x : Bool) :
    FrP b l pre dd s (execBody (f + 1) m s o x) (execBody (f + 1) m (extSt b l pre dd s) o x) := by
  unfold execBody
  dsimp only [extSt]
  repeat' split
  all_goals first
    | exact FrQ.leaf rfl rfl
    | exact ih.tail s o x x

theorem frq_leave {c : Bool} {s : State} {p q : State × Res} (h : FrP b l pre dd s p q) :
    FrP b l pre dd s (leaveLevel c p) (leaveLevel c q) := by
  unfold leaveLevel
  split
  · exact h
  · intro hq hsf
    obtain ⟨a1, a2⟩ := h hq hsf
    rw [a2]
    exact ⟨a1, rfl⟩

theorem enterLevel_ext (c : Bool) (s : State) :
    enterLevel c (extSt b l pre dd s) = extSt b l pre dd (enterLevel c s) := by
  cases c <;> rfl

theorem enterLevel_scanner (c : Bool) (s : State) : (enterLevel c s).scanner = s.scanner := by
  cases c <;> rfl

theorem step_execTail {f m : Nat} (ih : AllFr b l pre dd f m) (s : State) (o : Obj) (x c : Bool) :
    FrP b l pre dd s (execTail (f + 1) m s o x c) (execTail (f + 1) m (extSt b l pre dd s) o x c) := by
  unfold execTail
  conv => zeta
  generalize hS : ({ s with numOps := s.numOps + 1 } : State) = S
  generalize hT : ({ extSt b l pre dd s with numOps := (extSt b l pre dd s).numOps + 1 } : State) = T
  have hTS : T = extSt b l pre dd S := by subst hS hT; rfl
  have hsc : S.scanner = s.scanner := by subst hS; rfl
  subst hTS
  clear hT
  apply FrQ.start hsc
  dsimp only [extSt]
  split
  · exact FrQ.leaf rfl rfl
  · split
    · split
      · exact FrQ.leaf rfl rfl
      · exact ih.tail S _ true c
    · rename_i id
      have h1 := ih.call S id
      dsimp only [extSt] at h1
      generalize callBuiltin f m _ id = p1 at h1 ⊢
      generalize callBuiltin f m _ id = p1' at h1 ⊢
      sync p1 h1
      rename_i s1 r1
      split
      · rename_i name
        split
        · split
          · rename_i handler _
            have h3 := ih.one { s1 with errors := name :: s1.errors, hiErrors := max s1.hiErrors (s1.errors.length + 1) } handler true
            dsimp only [extSt] at h3
            generalize execOne f m _ handler true = p3 at h3 ⊢
            generalize execOne f m _ handler true = p3' at h3 ⊢
            sync p3 h3
            exact FrQ.leaf rfl rfl
          · exact FrQ.leaf rfl rfl
        · exact FrQ.leaf rfl rfl
      · exact FrQ.leaf rfl rfl
    · rename_i ref off len
      split
      · split
        · exact FrQ.leaf rfl rfl
        · split
          · exact FrQ.leaf rfl rfl
          · apply frq_leave
            have h1 := ih.run (enterLevel c S) ref off 0 (len - 1)
            rw [← enterLevel_ext] at h1
            dsimp only [extSt] at h1
            generalize runBody f m (enterLevel c S) ref off 0 (len - 1) = p1 at h1 ⊢
            generalize runBody f m (enterLevel c _) ref off 0 (len - 1) = p1' at h1 ⊢
            apply FrQ.start (enterLevel_scanner c S)
            sync p1 h1
            rename_i s1 r1
            split
            · split
              · exact ih.tail s1 _ false true
              · exact FrQ.leaf rfl rfl
            · exact FrQ.leaf rfl rfl
      · exact FrQ.leaf rfl rfl
    · exact FrQ.leaf rfl rfl

theorem step_runBody {f m : Nat} (ih : AllFr b l pre dd f m) (s : State) (r o i t : Nat) :
    FrP b l pre dd s (runBody (f + 1) m s r o i t) (runBody (f + 1) m (extSt b l pre dd s) r o i t) := by
  cases t with
  | zero => unfold runBody; exact FrQ.leaf rfl rfl
  | succ t =>
    unfold runBody
    dsimp only [extSt]
    split
    · exact FrQ.leaf rfl rfl
    · rename_i tok _
      have h1 := ih.one s tok false
      dsimp only [extSt] at h1
      generalize execOne f m _ tok false = p1 at h1 ⊢
      generalize execOne f m _ tok false = p1' at h1 ⊢
      sync p1 h1
      rename_i s1 r1
      split
      · exact ih.run s1 r o (i + 1) t
      · exact FrQ.leaf rfl rfl

open PsVerif.Proofs.InterpFuel (loopResult)

theorem frq_loop {s0 s : State} {p p' : State × Res} {next next' : State → State × Res}
    (h1 : FrP b l pre dd s0 p p') (hs : s0.scanner = s.scanner)
    (hn : ∀ s1, FrP b l pre dd s1 (next s1) (next' (extSt b l pre dd s1))) :
    FrP b l pre dd s (loopResult p next) (loopResult p' next') := by
  refine FrQ.seq (K := fun p => loopResult p next) (K' := fun p => loopResult p next') h1 hs ?_ ?_
  · obtain ⟨s1, r1⟩ := p
    intro hbad
    unfold badRes at hbad
    dsimp only at hbad
    subst hbad
    rfl
  · intro s1 r1
    unfold loopResult
    dsimp only
    split
    · exact FrQ.leaf rfl rfl
    · exact hn s1
    · exact FrQ.leaf rfl rfl

theorem step_forLoop {f m : Nat} (ih : AllFr b l pre dd f m) (s : State) (v i lm : Int) (p : Obj) :
    FrP b l pre dd s (forLoop (f + 1) m s v i lm p) (forLoop (f + 1) m (extSt b l pre dd s) v i lm p) := by
  unfold forLoop
  split
  · exact FrQ.leaf rfl rfl
  · exact frq_loop (next := fun s1 => if i > 0 ∧ v > maxInt64 - i ∨ i < 0 ∧ v < minInt64 - i then okS s1
        else forLoop f m s1 (wrap64 (v + i)) i lm p)
      (next' := fun s1 => if i > 0 ∧ v > maxInt64 - i ∨ i < 0 ∧ v < minInt64 - i then okS s1
        else forLoop f m s1 (wrap64 (v + i)) i lm p)
      (ih.one (pushS s (.int v)) p true) rfl
      (fun s1 => by
        split
        · exact FrQ.leaf rfl rfl
        · exact ih.forL s1 _ i lm p)

theorem step_repeatLoop {f m : Nat} (ih : AllFr b l pre dd f m) (s : State) (k : Nat) (p : Obj) :
    FrP b l pre dd s (repeatLoop (f + 1) m s k p) (repeatLoop (f + 1) m (extSt b l pre dd s) k p) := by
  cases k with
  | zero => unfold repeatLoop; exact FrQ.leaf rfl rfl
  | succ k =>
    unfold repeatLoop
    exact frq_loop (next := fun s1 => repeatLoop f m s1 k p) (next' := fun s1 => repeatLoop f m s1 k p)
      (ih.one s p true) rfl (fun s1 => ih.rep s1 k p)

theorem step_loopLoop {f m : Nat} (ih : AllFr b l pre dd f m) (s : State) (p : Obj) :
    FrP b l pre dd s (loopLoop (f + 1) m s p) (loopLoop (f + 1) m (extSt b l pre dd s) p) := by
  unfold loopLoop
  exact frq_loop (next := fun s1 => loopLoop f m s1 p) (next' := fun s1 => loopLoop f m s1 p)
    (ih.one s p true) rfl (fun s1 => ih.loop s1 p)

theorem step_forallArr {f m : Nat} (ih : AllFr b l pre dd f m) (s : State) (r o i t : Nat) (p : Obj) :
    FrP b l pre dd s (forallArr (f + 1) m s r o i t p) (forallArr (f + 1) m (extSt b l pre dd s) r o i t p) := by
  cases t with
  | zero => unfold forallArr; exact FrQ.leaf rfl rfl
  | succ t =>
    unfold forallArr
    dsimp only [extSt]
    split
    · exact FrQ.leaf rfl rfl
    · rename_i v _
      exact frq_loop (next := fun s1 => forallArr f m s1 r o (i + 1) t p) (next' := fun s1 => forallArr f m s1 r o (i + 1) t p)
        (ih.one (pushS s v) p true) rfl (fun s1 => ih.fArr s1 r o (i + 1) t p)

theorem step_forallStr {f m : Nat} (ih : AllFr b l pre dd f m) (s : State) (r o i t : Nat) (p : Obj) :
    FrP b l pre dd s (forallStr (f + 1) m s r o i t p) (forallStr (f + 1) m (extSt b l pre dd s) r o i t p) := by
  cases t with
  | zero => unfold forallStr; exact FrQ.leaf rfl rfl
  | succ t =>
    unfold forallStr
    dsimp only [extSt]
    split
    · exact FrQ.leaf rfl rfl
    · rename_i c _
      exact frq_loop (next := fun s1 => forallStr f m s1 r o (i + 1) t p) (next' := fun s1 => forallStr f m s1 r o (i + 1) t p)
        (ih.one (pushS s (.int c.toNat)) p true) rfl (fun s1 => ih.fStr s1 r o (i + 1) t p)

theorem step_forallDict {f m : Nat} (ih : AllFr b l pre dd f m) (s : State) (d : Nat) (ks : List Name) (p : Obj) :
    FrP b l pre dd s (forallDict (f + 1) m s d ks p) (forallDict (f + 1) m (extSt b l pre dd s) d ks p) := by
  cases ks with
  | nil => unfold forallDict; exact FrQ.leaf rfl rfl
  | cons k ks =>
    unfold forallDict
    dsimp only [extSt]
    split
    · exact ih.fDict s d ks p
    · rename_i v _
      exact frq_loop (next := fun s1 => forallDict f m s1 d ks p) (next' := fun s1 => forallDict f m s1 d ks p)
        (ih.one (setStack s (v :: .name k :: s.vm.stack)) p true) rfl (fun s1 => ih.fDict s1 d ks p)

theorem objOfTok_ext (s : State) (tok : Tok) :
    objOfTok (extSt b l pre dd s) tok = (extSt b l pre dd (objOfTok s tok).1, (objOfTok s tok).2) := by
  cases tok <;> rfl

theorem objOfTok_scanner (s : State) (tok : Tok) : (objOfTok s tok).1.scanner = s.scanner := by
  cases tok <;> rfl

theorem step_scanLoop {f m : Nat} (ih : AllFr b l pre dd f m) (s : State) :
    FrP b l pre dd s (scanLoop (f + 1) m s) (scanLoop (f + 1) m (extSt b l pre dd s)) := by
  unfold scanLoop
  have h0 := frq_withScanner (dd := dd) (frw_scanToken (b := b) (l := l) (pre := pre) s.scanner)
  generalize withScanner s Scan.scanToken = p0 at h0 ⊢
  generalize withScanner (extSt b l pre dd s) Scan.scanToken = p0' at h0 ⊢
  sync p0 h0
  rename_i s1 r0
  split
  · exact FrQ.leaf rfl rfl
  · exact FrQ.leaf rfl rfl
  · rename_i tok
    have e := objOfTok_ext (b := b) (l := l) (pre := pre) (dd := dd) s1 tok
    dsimp only [extSt] at e
    rw [e]
    have hsc := objOfTok_scanner s1 tok
    generalize objOfTok s1 tok = p2 at hsc ⊢
    obtain ⟨s2, o⟩ := p2
    dsimp only at hsc ⊢
    apply FrQ.start hsc
    have h3 := ih.one s2 o false
    dsimp only [extSt] at h3
    generalize execOne f m _ o false = p3 at h3 ⊢
    generalize execOne f m _ o false = p3' at h3 ⊢
    sync p3 h3
    rename_i s3 r3
    split
    · exact ih.sLoop s3
    · exact FrQ.leaf rfl rfl

theorem step_scanRun {f m : Nat} (ih : AllFr b l pre dd f m) (s : State) :
    FrP b l pre dd s (scanRun (f + 1) m s) (scanRun (f + 1) m (extSt b l pre dd s)) := by
  unfold scanRun
  dsimp only [extSt]
  by_cases hcs : s.checkStart = true
  case neg =>
    rw [if_neg hcs, if_neg hcs]
    dsimp only
    have h2 := ih.sLoop { s with scannerDepth := s.scannerDepth + 1 }
    dsimp only [extSt] at h2
    generalize scanLoop f m { s with scannerDepth := s.scannerDepth + 1 } = p2 at h2 ⊢
    generalize scanLoop f m _ = p2' at h2 ⊢
    sync p2 h2
    exact FrQ.leaf rfl rfl
  case pos =>
    rw [if_pos hcs, if_pos hcs]
    have h0 := frq_withScanner (dd := dd) (FrAt.weak (fr_peekN (b := b) (l := l) (pre := pre) 2 3 s.scanner))
    dsimp only [extSt] at h0
    generalize withScanner s (Scan.peekN 2 3) = p0 at h0 ⊢
    generalize withScanner _ (Scan.peekN 2 3) = p0' at h0 ⊢
    sync p0 h0
    rename_i s1 r0
    cases r0 with
    | error e => exact FrQ.leaf rfl rfl
    | ok head =>
      dsimp only
      by_cases hh : (head == [37, 33]) = true
      · rw [if_pos hh, if_pos hh]
        dsimp only
        have h2 := ih.sLoop { s1 with checkStart := false, scannerDepth := s1.scannerDepth + 1 }
        dsimp only [extSt] at h2
        generalize scanLoop f m { s1 with checkStart := false, scannerDepth := s1.scannerDepth + 1 } = p2 at h2 ⊢
        generalize scanLoop f m _ = p2' at h2 ⊢
        sync p2 h2
        exact FrQ.leaf rfl rfl
      · rw [if_neg hh, if_neg hh]
        generalize (if head.length < 2 then s1.scanner.err else none) = oe
        cases oe with
        | none => exact FrQ.leaf rfl rfl
        | some e => cases e <;> exact FrQ.leaf rfl rfl

/-- what `readstring` does with the bytes it got -/
def rsFinish (vm1 : VM) (rr off len : Nat) (rest : List Obj)
    (p : Except Err (List UInt8 × Option Err) × Scanner) : VM × Scanner × Res :=
  match p with
  | (r2, sc3) =>
    match r2 with
    | .error e => (vm1, sc3, .err e)
    | .ok (bytes, e?) =>
      let vm4 := vm1.setCell rr (.bytes (writeAt (vm1.getBytes rr) off bytes))
      let bad : Option Err := match e? with
        | some .eof => none
        | some e => some e
        | none => none
      match bad with
      | some e => (vm4, sc3, .err e)
      | none => ({ vm4 with stack := .bool (bytes.length == len) :: .str rr off bytes.length :: rest }, sc3, .ok)

theorem rsFinish_scanner (vm1 : VM) (rr off len : Nat) (rest : List Obj)
    (p : Except Err (List UInt8 × Option Err) × Scanner) : (rsFinish vm1 rr off len rest p).2.1 = p.2 := by
  obtain ⟨r2, sc3⟩ := p
  unfold rsFinish
  dsimp only
  repeat' split
  all_goals rfl

theorem rsFinish_ext (vm1 : VM) (rr off len : Nat) (rest : List Obj)
    (r2 : Except Err (List UInt8 × Option Err)) (sc3 : Scanner) :
    rsFinish vm1 rr off len rest (r2, ext b l pre sc3) =
      ((rsFinish vm1 rr off len rest (r2, sc3)).1, ext b l pre (rsFinish vm1 rr off len rest (r2, sc3)).2.1,
       (rsFinish vm1 rr off len rest (r2, sc3)).2.2) := by
  unfold rsFinish
  dsimp only
  repeat' split
  all_goals rfl

/-- the part of `readstring` after the stack checks -/
def rsRead (vm1 : VM) (rr off len : Nat) (rest : List Obj) (sc : Scanner) : VM × Scanner × Res :=
  match Scan.next sc with
  | (r1, sc2) =>
    let stop : Option Err := match r1 with
      | .error .eof => none
      | .error e => some e
      | .ok _ => none
    match stop with
    | some e => (vm1, sc2, .err e)
    | none => rsFinish vm1 rr off len rest (Scan.readN len [] sc2)

theorem rsRead_ext (vm1 : VM) (rr off len : Nat) (rest : List Obj) (sc : Scanner) :
    Quiet b (rsRead vm1 rr off len rest sc).2.1 →
      Quiet b sc ∧ rsRead vm1 rr off len rest (ext b l pre sc) =
        ((rsRead vm1 rr off len rest sc).1, ext b l pre (rsRead vm1 rr off len rest sc).2.1,
         (rsRead vm1 rr off len rest sc).2.2) := by
  unfold rsRead
  have hn := (fr_next (b := b) (l := l) (pre := pre) sc).frame
  generalize Scan.next sc = p1 at hn ⊢
  generalize Scan.next (ext b l pre sc) = q1 at hn ⊢
  obtain ⟨r1, sc2⟩ := p1
  dsimp only at hn ⊢
  have hN := (fr_readN (b := b) (l := l) (pre := pre) len [] sc2).frame
  -- all cases of the first byte
  have goOn : Quiet b (rsFinish vm1 rr off len rest (Scan.readN len [] sc2)).2.1 →
      Quiet b sc ∧ q1 = (r1, ext b l pre sc2) ∧
        rsFinish vm1 rr off len rest (Scan.readN len [] (ext b l pre sc2)) =
          ((rsFinish vm1 rr off len rest (Scan.readN len [] sc2)).1,
           ext b l pre (rsFinish vm1 rr off len rest (Scan.readN len [] sc2)).2.1,
           (rsFinish vm1 rr off len rest (Scan.readN len [] sc2)).2.2) := by
    intro h
    rw [rsFinish_scanner] at h
    obtain ⟨c1, c2⟩ := hN h
    obtain ⟨a1, a2⟩ := hn c1
    refine ⟨a1, a2, ?_⟩
    rw [c2]
    generalize Scan.readN len [] sc2 = p2
    obtain ⟨r2, sc3⟩ := p2
    exact rsFinish_ext vm1 rr off len rest r2 sc3
  cases r1 with
  | ok c =>
    dsimp only
    intro h
    obtain ⟨a1, a2, a3⟩ := goOn h
    subst a2
    exact ⟨a1, a3⟩
  | error e =>
    cases e with
    | eof =>
      dsimp only
      intro h
      obtain ⟨a1, a2, a3⟩ := goOn h
      subst a2
      exact ⟨a1, a3⟩
    | _ =>
      dsimp only
      intro h
      obtain ⟨a1, a2⟩ := hn h
      subst a2
      exact ⟨a1, rfl⟩

theorem readstringCore_eq (vm : VM) (sc : Scanner) (d : Nat) :
    readstringCore vm sc d =
      match vm.stack with
      | buf :: _ :: rest =>
        match buf with
        | .str r o len =>
          if d == 0 then ({ vm with stack := rest }, sc, .err (.panic "readstring: no scanner"))
          else rsRead { vm with stack := rest } r o len rest sc
        | _ => (vm, sc, .err (.ps "typecheck"))
      | _ => (vm, sc, .err (.ps "stackunderflow")) := by
  unfold readstringCore rsRead rsFinish
  rfl

theorem readstringCore_ext (vm : VM) (sc : Scanner) (d : Nat) :
    Quiet b (readstringCore vm sc d).2.1 →
      Quiet b sc ∧ readstringCore vm (ext b l pre sc) d =
        ((readstringCore vm sc d).1, ext b l pre (readstringCore vm sc d).2.1, (readstringCore vm sc d).2.2) := by
  rw [readstringCore_eq, readstringCore_eq]
  split
  · split
    · split
      · intro h; exact ⟨h, rfl⟩
      · exact rsRead_ext _ _ _ _ _ _
    · intro h; exact ⟨h, rfl⟩
  · intro h; exact ⟨h, rfl⟩

theorem frq_readstring (s : State) :
    FrP b l pre dd s (bReadstring s) (bReadstring (extSt b l pre dd s)) := by
  intro hq _
  unfold bReadstring at hq ⊢
  dsimp only [extSt] at hq ⊢
  obtain ⟨a1, a2⟩ := readstringCore_ext (b := b) (l := l) (pre := pre) s.vm s.scanner s.scannerDepth hq
  rw [a2]
  exact ⟨a1, rfl⟩

theorem step_callBuiltin {f m : Nat} (ih : AllFr b l pre dd f m) (s : State) (id : String) :
    FrP b l pre dd s (callBuiltin (f + 1) m s id) (callBuiltin (f + 1) m (extSt b l pre dd s) id) := by
  unfold callBuiltin
  dsimp only [extSt]
  split
  · -- exec
    repeat' split
    all_goals first
      | exact FrQ.leaf rfl rfl
      | exact ih.call (setStack s _) _
      | exact ih.one (setStack s _) _ _
  · -- if
    repeat' split
    all_goals first
      | exact FrQ.leaf rfl rfl
      | exact ih.one (setStack s _) _ _
  · -- ifelse
    repeat' split
    all_goals first
      | exact FrQ.leaf rfl rfl
      | exact ih.one (setStack s _) _ _
  · -- for
    repeat' split
    all_goals first
      | exact FrQ.leaf rfl rfl
      | exact ih.forL (setStack s _) _ _ _ _
  · -- repeat
    repeat' split
    all_goals first
      | exact FrQ.leaf rfl rfl
      | exact ih.rep (setStack s _) _ _
  · -- loop
    repeat' split
    all_goals first
      | exact FrQ.leaf rfl rfl
      | exact ih.loop (setStack s _) _
  · -- forall
    repeat' split
    all_goals first
      | exact FrQ.leaf rfl rfl
      | exact ih.fArr (setStack s _) _ _ _ _ _
      | exact ih.fStr (setStack s _) _ _ _ _ _
      | exact ih.fDict (setStack s _) _ _ _
  · exact frq_readstring s
  · unfold defaultErrorHandler
    dsimp only
    split <;> exact FrQ.leaf rfl rfl
  · -- eexec
    split
    · exact FrQ.leaf rfl rfl
    · rename_i rest _
      split
      · exact FrQ.leaf rfl rfl
      · have h0 := frq_withScanner (dd := dd) (frw_beginEexec (b := b) (l := l) (pre := pre)
          ({ s with vm := pushDict { s.vm with stack := rest } s.vm.roots.systemDict } : State).scanner)
        dsimp only [extSt] at h0
        generalize withScanner ({ s with vm := pushDict { s.vm with stack := rest } s.vm.roots.systemDict } : State)
          Scan.beginEexec = p2 at h0 ⊢
        generalize withScanner _ Scan.beginEexec = p2' at h0 ⊢
        sync p2 h0
        rename_i s2 r2
        split
        · exact FrQ.leaf rfl rfl
        · have h3 := ih.sRun s2
          dsimp only [extSt] at h3
          generalize scanRun f m s2 = p3 at h3 ⊢
          generalize scanRun f m _ = p3' at h3 ⊢
          sync p3 h3
          repeat' split
          all_goals exact FrQ.leaf rfl rfl
    · exact FrQ.leaf rfl rfl
  · repeat' split
    all_goals exact FrQ.leaf rfl rfl

theorem allFr_zero (m : Nat) : AllFr b l pre dd 0 m where
  one := by intro s o x; simp only [execOne]; exact FrQ.leaf rfl rfl
  body := by intro s o x; simp only [execBody]; exact FrQ.leaf rfl rfl
  tail := by intro s o x c; simp only [execTail]; exact FrQ.leaf rfl rfl
  run := by intro s r o i n; simp only [runBody]; exact FrQ.leaf rfl rfl
  call := by intro s id; simp only [callBuiltin]; exact FrQ.leaf rfl rfl
  forL := by intro s v i lm p; simp only [forLoop]; exact FrQ.leaf rfl rfl
  rep := by intro s k p; simp only [repeatLoop]; exact FrQ.leaf rfl rfl
  loop := by intro s p; simp only [loopLoop]; exact FrQ.leaf rfl rfl
  fArr := by intro s r o i n p; simp only [forallArr]; exact FrQ.leaf rfl rfl
  fStr := by intro s r o i n p; simp only [forallStr]; exact FrQ.leaf rfl rfl
  fDict := by intro s d ks p; simp only [forallDict]; exact FrQ.leaf rfl rfl
  sRun := by intro s; simp only [scanRun]; exact FrQ.leaf rfl rfl
  sLoop := by intro s; simp only [scanLoop]; exact FrQ.leaf rfl rfl

/-- **frame property of the interpreter**: a call of any function of the mutual block that
ends without its scanner having looked beyond the end of its source runs in exactly the same
way when more input is appended (and when the line counter and the lists of structured
comments are changed) -/
theorem allFr (m : Nat) : ∀ f, AllFr b l pre dd f m := by
  intro f
  induction f with
  | zero => exact allFr_zero m
  | succ n ih =>
    exact ⟨step_execOne ih, step_execBody ih, step_execTail ih, step_runBody ih, step_callBuiltin ih,
      step_forLoop ih, step_repeatLoop ih, step_loopLoop ih, step_forallArr ih, step_forallStr ih,
      step_forallDict ih, step_scanRun ih, step_scanLoop ih⟩

end

/-! ## Part 3: the end of the first part

The last `scanToken` of a call that reaches the end of its input runs the loop of
`SkipWhiteSpace` over the white space and comments that follow the last token and then finds
the end of the input.  `wsEnd` follows that loop turn by turn and accepts if every turn ends
without the reader having been asked for a byte beyond the end, and the end is found by the
look-ahead at the head of the loop, at the start of a line, with nothing buffered. -/

/-- one turn of the loop of `SkipWhiteSpace`: `true` = go on -/
def wsTurn : SM Bool := do
  let c ← peek
  if c ≤ 32 then do skipByte; pure true
  else if c == 37 then do
    let s ← getS
    if s.col == 0 && (← lookingAt [37, 37]) then do
      match ← readStructuredComment with
      | some (k, v) => modS (fun s => { s with dsc := s.dsc ++ [(bytesToString k, bytesToString v)] })
      | none => pure ()
      pure true
    else do skipComment; pure true
  else pure false

theorem ite_bind' {α β : Type} (c : Prop) [Decidable c] (x y : SM α) (f : α → SM β) :
    (if c then x else y) >>= f = if c then x >>= f else y >>= f := by
  split <;> rfl

theorem skipWhiteSpace_succ (n : Nat) : skipWhiteSpace (n + 1) = (do
    if (← wsTurn) then skipWhiteSpace n else pure ()) := by
  conv => lhs; unfold skipWhiteSpace
  unfold wsTurn
  simp only [bind_assoc, pure_bind, ite_bind', if_true, Bool.false_eq_true, if_false]
  refine bind_congr (fun c => ?_)
  split
  · rfl
  · split
    · refine bind_congr (fun s => ?_)
      refine bind_congr (fun la => ?_)
      split
      · refine bind_congr (fun x => ?_)
        cases x with
        | none => simp only [pure_bind, if_true]
        | some kv =>
          obtain ⟨k, v⟩ := kv
          simp only [bind_assoc, pure_bind, if_true]
      · rfl
    · rfl

theorem fr_wsTurn (b : List UInt8) (l : Nat) (pre : List (String × String)) : Fr b l pre wsTurn wsTurn := by
  intro sc; unfold wsTurn; fr_auto

/-- between tokens, at the start of a line, everything read, nothing buffered, no eexec section open -/
def atEnd (sc : Scanner) : Bool :=
  sc.src.isEmpty && sc.peek.isEmpty && sc.err.isNone && sc.fault.isNone && sc.eexec == 0 && !sc.regurgitate &&
  sc.col == 0 && !sc.crSeen && sc.r == 0

structure AtEnd (sc : Scanner) : Prop where
  src : sc.src = []
  peek : sc.peek = []
  err : sc.err = none
  fault : sc.fault = none
  eexec : sc.eexec = 0
  reg : sc.regurgitate = false
  col : sc.col = 0
  crSeen : sc.crSeen = false
  r : sc.r = 0

theorem atEnd_iff {sc : Scanner} (h : atEnd sc = true) : AtEnd sc := by
  unfold atEnd at h
  simp only [Bool.and_eq_true, List.isEmpty_iff, Option.isNone_iff_eq_none, beq_iff_eq, Bool.not_eq_true'] at h
  obtain ⟨⟨⟨⟨⟨⟨⟨⟨h1, h2⟩, h3⟩, h4⟩, h5⟩, h6⟩, h7⟩, h8⟩, h9⟩ := h
  exact ⟨h1, h2, h3, h4, h5, h6, h7, h8, h9⟩

/-- the loop of `SkipWhiteSpace` with fuel `n` started in `sc` reaches, by whole turns that
do not look beyond the end of the source, a state `scX` with `atEnd`; the result is the
fuel that is left and that state -/
def wsEnd : Nat → Scanner → Option (Nat × Scanner)
  | 0, _ => none
  | n + 1, sc =>
    if atEnd sc then some (n + 1, sc)
    else
      match wsTurn sc with
      | (.ok true, sc1) => if sc1.err.isNone then wsEnd n sc1 else none
      | _ => none

/-- the scanner after it has found the end of its source -/
def eofOf (sc : Scanner) : Scanner := { sc with err := some .eof }

theorem wsTurn_atEnd {sc : Scanner} (h : AtEnd sc) : wsTurn sc = (.error .eof, eofOf sc) := by
  have e1 : readByteRaw sc = (.error .eof, eofOf sc) := by
    unfold readByteRaw eofOf
    simp [h.src, h.peek, h.err, h.fault, h.reg]
  have e2 : readByte sc = (.error .eof, eofOf sc) := by
    unfold readByte
    rw [getS_bind_eq]
    simp only [h.eexec, beq_self_eq_true, if_true]
    exact e1
  have e3 : peek sc = (.error .eof, eofOf sc) := by
    rw [peek_unfold, getS_bind_eq, h.peek]
    dsimp only
    rw [peekMore_eq, e2]
  unfold wsTurn
  rw [bind_eq, e3]

theorem wsEnd_short : ∀ n sc k scX, wsEnd n sc = some (k, scX) →
    AtEnd scX ∧ k ≤ n ∧ 1 ≤ k ∧ skipWhiteSpace n sc = (.error .eof, eofOf scX) := by
  intro n
  induction n with
  | zero => intro sc k scX h; simp [wsEnd] at h
  | succ n ih =>
    intro sc k scX h
    unfold wsEnd at h
    split at h
    · rename_i hat
      have hA := atEnd_iff hat
      simp only [Option.some.injEq, Prod.mk.injEq] at h
      obtain ⟨rfl, rfl⟩ := h
      refine ⟨hA, Nat.le_refl _, by omega, ?_⟩
      rw [skipWhiteSpace_succ, bind_eq, wsTurn_atEnd hA]
    · split at h
      · rename_i sc1 hw
        split at h
        · obtain ⟨a1, a2, a3, a4⟩ := ih sc1 k scX h
          refine ⟨a1, by omega, a3, ?_⟩
          rw [skipWhiteSpace_succ, bind_eq, hw]
          simp only [if_true]
          exact a4
        · cases h
      · cases h

theorem wsEnd_long (b : List UInt8) (l : Nat) (pre : List (String × String)) :
    ∀ n sc k scX, wsEnd n sc = some (k, scX) →
    ∀ d, skipWhiteSpace (n + d) (ext b l pre sc) = skipWhiteSpace (k + d) (ext b l pre scX) := by
  intro n
  induction n with
  | zero => intro sc k scX h; simp [wsEnd] at h
  | succ n ih =>
    intro sc k scX h d
    unfold wsEnd at h
    split at h
    · simp only [Option.some.injEq, Prod.mk.injEq] at h
      obtain ⟨rfl, rfl⟩ := h
      rfl
    · split at h
      · rename_i sc1 hw
        split at h
        · rename_i he
          have hfr := (fr_wsTurn b l pre sc).frame
          rw [hw] at hfr
          obtain ⟨_, hw'⟩ := hfr (Or.inl (by simpa using he))
          have e : n + 1 + d = (n + d) + 1 := by omega
          rw [e, skipWhiteSpace_succ, bind_eq, hw']
          simp only [if_true]
          exact ih sc1 k scX h d
        · cases h
      · cases h

/-! ### the white-space loop never runs out of fuel

`skipWhiteSpace n` with `n` larger than the number of unread bytes does not end with the
scanner model's out-of-fuel failure, outside eexec sections: every turn consumes a byte, and
a turn fails only with the reader's error. -/

/-- an action that never fails -/
def NoFail {α : Type} (f : SM α) : Prop := ∀ sc, ∃ a, (f sc).1 = .ok a

theorem NoFail.bind {α β : Type} {f : SM α} {k : α → SM β} (hf : NoFail f) (hk : ∀ a, NoFail (k a)) :
    NoFail (f >>= k) := by
  intro sc
  rw [bind_eq]
  obtain ⟨a, ha⟩ := hf sc
  generalize f sc = p at ha
  obtain ⟨r, sc1⟩ := p
  dsimp only at ha
  subst ha
  exact hk a sc1

theorem NoFail.pure {α : Type} (a : α) : NoFail (pure a : SM α) := fun _ => ⟨a, rfl⟩
theorem NoFail.modS (f : Scanner → Scanner) : NoFail (Scan.modS f) := fun _ => ⟨(), rfl⟩
theorem NoFail.getS : NoFail Scan.getS := fun sc => ⟨sc, rfl⟩
theorem NoFail.attempt {α : Type} (f : SM α) : NoFail (Scan.attempt f) := by
  intro sc
  unfold Scan.attempt
  generalize f sc = p
  obtain ⟨r, sc1⟩ := p
  exact ⟨r, rfl⟩
theorem NoFail.ite {α : Type} {c : Prop} [Decidable c] {f g : SM α} (hf : NoFail f) (hg : NoFail g) :
    NoFail (if c then f else g) := by
  split
  · exact hf
  · exact hg

syntax "nf_lemma" : tactic
macro_rules | `(tactic| nf_lemma) => `(tactic| fail "no lemma applies")

macro "nf_with" ih:ident : tactic =>
  `(tactic| repeat' (first
    | assumption
    | contradiction
    | with_reducible exact NoFail.pure _
    | with_reducible exact NoFail.modS _
    | with_reducible exact NoFail.getS
    | with_reducible exact NoFail.attempt _
    | with_reducible apply $ih
    | with_reducible nf_lemma
    | with_reducible apply NoFail.bind
    | with_reducible apply NoFail.ite
    | with_reducible intro _
    | split
    | dsimp only))

macro "nf_auto" : tactic => `(tactic| (have trivialHyp : True := trivial; nf_with trivialHyp))

theorem nf_skipByte : NoFail skipByte := by unfold skipByte; nf_auto
macro_rules | `(tactic| nf_lemma) => `(tactic| exact nf_skipByte)

theorem nf_skipN : ∀ n, NoFail (skipN n) := by
  intro n
  induction n with
  | zero => unfold skipN; nf_auto
  | succ k ih => unfold skipN; nf_with ih
macro_rules | `(tactic| nf_lemma) => `(tactic| exact nf_skipN _)

theorem nf_peekN (n : Nat) : ∀ f, NoFail (peekN n f) := by
  intro f
  induction f with
  | zero => unfold peekN; nf_auto
  | succ k ih => unfold peekN; nf_with ih
macro_rules | `(tactic| nf_lemma) => `(tactic| exact nf_peekN _ _)

theorem nf_lookingAt (pat : List UInt8) : NoFail (lookingAt pat) := by unfold lookingAt; nf_auto
macro_rules | `(tactic| nf_lemma) => `(tactic| exact nf_lookingAt _)

theorem nf_skipOptionalByte (x : UInt8) : NoFail (skipOptionalByte x) := by unfold skipOptionalByte; nf_auto
macro_rules | `(tactic| nf_lemma) => `(tactic| exact nf_skipOptionalByte _)

theorem nf_skipToEOL : ∀ n, NoFail (skipToEOL n) := by
  intro n
  induction n with
  | zero => unfold skipToEOL; nf_auto
  | succ k ih => unfold skipToEOL; nf_with ih
macro_rules | `(tactic| nf_lemma) => `(tactic| exact nf_skipToEOL _)

theorem nf_skipComment : NoFail skipComment := by unfold skipComment; nf_auto
macro_rules | `(tactic| nf_lemma) => `(tactic| exact nf_skipComment)

theorem nf_readStructuredComment : NoFail readStructuredComment := by unfold readStructuredComment; nf_auto
macro_rules | `(tactic| nf_lemma) => `(tactic| exact nf_readStructuredComment)

/-- plain mode: no eexec section, no replay, a sticky error the reader model produces -/
structure Plain (sc : Scanner) : Prop where
  eexec : sc.eexec = 0
  reg : sc.regurgitate = false
  std : ErrStd sc

theorem FrAt.plain {α : Type} {f g : SM α} {sc : Scanner} (h : FrAt [] 0 [] f g sc) (hp : Plain sc) :
    Plain (f sc).2 :=
  ⟨h.keep.1.trans hp.eexec, h.keep.2.trans hp.reg, h.std hp.std⟩

theorem Plain.of_eq {α : Type} {f g : SM α} {sc sc1 : Scanner} {r : Except Err α} (hp : Plain sc)
    (h : FrAt [] 0 [] f g sc) (e : f sc = (r, sc1)) : Plain sc1 := by
  have := h.plain hp; rw [e] at this; exact this

theorem readByte_plain {sc : Scanner} (hp : Plain sc) : readByte sc = readByteRaw sc := by
  unfold readByte
  rw [getS_bind_eq]
  simp [hp.eexec]

/-- in plain mode the reader leaves the look-ahead alone and fails only with its own error -/
theorem readByteRaw_plain {sc : Scanner} (hp : Plain sc) :
    (readByteRaw sc).2.peek = sc.peek ∧
    ∀ e, (readByteRaw sc).1 = .error e → e = .eof ∨ ∃ t, e = .io t := by
  have hr := hp.reg
  rcases hp.std with he | he | ⟨t, he⟩ <;>
    cases hs : sc.src <;> cases hf : sc.fault <;> simp [readByteRaw, hr, he, hs, hf]

theorem peek_err {sc sc1 : Scanner} {e : Err} (hp : Plain sc) (h : peek sc = (.error e, sc1)) :
    e = .eof ∨ ∃ t, e = .io t := by
  rw [peek_unfold, getS_bind_eq] at h
  cases hpk : sc.peek with
  | cons x rest => rw [hpk] at h; cases h
  | nil =>
    rw [hpk] at h
    dsimp only at h
    rw [peekMore_eq, readByte_plain hp] at h
    have hraw := (readByteRaw_plain hp).2
    generalize readByteRaw sc = p at h hraw
    obtain ⟨r, s'⟩ := p
    cases r with
    | ok x => cases h
    | error x =>
      dsimp only at h hraw
      cases h
      exact hraw e rfl

/-- in plain mode the look-ahead only grows -/
theorem peekMore_peek {sc : Scanner} (hp : Plain sc) (hne : sc.peek ≠ []) : (peekMore sc).2.peek ≠ [] := by
  rw [peekMore_eq, readByte_plain hp]
  have hraw := (readByteRaw_plain hp).1
  generalize readByteRaw sc = p at hraw
  obtain ⟨r, s'⟩ := p
  dsimp only at hraw
  cases r with
  | error x => dsimp only; rw [hraw]; exact hne
  | ok x => dsimp only; simp

theorem peekN_peek (n : Nat) : ∀ f sc, Plain sc → sc.peek ≠ [] → (peekN n f sc).2.peek ≠ [] := by
  intro f
  induction f with
  | zero =>
    intro sc _ hne
    unfold peekN
    rw [getS_bind_eq]
    exact hne
  | succ k ih =>
    intro sc hp hne
    rw [peekN_succ, getS_bind_eq]
    split
    · exact hne
    · rw [bind_eq]
      have h1 := peekMore_peek hp hne
      have hp1 := (fr_peekMore (b := []) (l := 0) (pre := []) sc).plain hp
      unfold Scan.attempt
      generalize peekMore sc = p at h1 hp1
      obtain ⟨r, s1⟩ := p
      dsimp only at h1 hp1 ⊢
      cases r with
      | error x =>
        dsimp only
        rw [getS_bind_eq]
        exact h1
      | ok c => exact ih s1 hp1 h1

theorem lookingAt_peek {pat : List UInt8} {sc : Scanner} (hp : Plain sc) (hne : sc.peek ≠ []) :
    (lookingAt pat sc).2.peek ≠ [] := by
  unfold lookingAt
  rw [bind_eq]
  have h := peekN_peek pat.length (pat.length + 1) sc hp hne
  generalize peekN pat.length (pat.length + 1) sc = p at h
  obtain ⟨r, s'⟩ := p
  cases r with
  | error x => exact h
  | ok bb => exact h

theorem peekN_take (n : Nat) : ∀ f sc bb, (peekN n f sc).1 = .ok bb → bb.length = n →
    (peekN n f sc).2.peek.take n = bb ∧ n ≤ (peekN n f sc).2.peek.length := by
  have base : ∀ (pk : List UInt8) bb, pk.take n = bb → bb.length = n → pk.take n = bb ∧ n ≤ pk.length := by
    intro pk bb h hl
    refine ⟨h, ?_⟩
    rw [← h, List.length_take] at hl
    omega
  intro f
  induction f with
  | zero =>
    intro sc bb h hl
    unfold peekN at h ⊢
    rw [getS_bind_eq] at h ⊢
    simp only [pure_eq] at h ⊢
    cases h
    exact base _ _ rfl hl
  | succ k ih =>
    intro sc bb h hl
    rw [peekN_succ] at h ⊢
    rw [getS_bind_eq] at h ⊢
    split at h
    · rename_i hc
      rw [if_pos hc]
      simp only [pure_eq] at h ⊢
      cases h
      exact base _ _ rfl hl
    · rename_i hc
      rw [if_neg hc]
      rw [bind_eq] at h ⊢
      generalize Scan.attempt peekMore sc = p at h ⊢
      obtain ⟨r, s1⟩ := p
      cases r with
      | error e => cases h
      | ok r' =>
        cases r' with
        | error e =>
          dsimp only at h ⊢
          rw [getS_bind_eq] at h ⊢
          simp only [pure_eq] at h ⊢
          cases h
          exact ⟨List.take_of_length_le (by omega), by omega⟩
        | ok c => exact ih s1 bb h hl

theorem lookingAt_true2 {pat : List UInt8} {sc sc1 : Scanner} (h : lookingAt pat sc = (.ok true, sc1)) :
    sc1.peek.take pat.length = pat ∧ pat.length ≤ sc1.peek.length := by
  unfold lookingAt at h
  rw [bind_eq] at h
  have hn := peekN_take pat.length (pat.length + 1) sc
  generalize peekN pat.length (pat.length + 1) sc = p at h hn
  obtain ⟨r, s'⟩ := p
  cases r with
  | error e => cases h
  | ok bb =>
    dsimp only at h hn
    have h' : ((Except.ok (bb == pat), s') : Except Err Bool × Scanner) = (Except.ok true, sc1) := h
    injection h' with h1 h2
    injection h1 with h1
    have : bb = pat := by simpa using h1
    subst h2
    subst this
    exact hn bb rfl rfl

theorem lookingAt_of_peek {pat : List UInt8} {sc : Scanner} (h : pat.length ≤ sc.peek.length) :
    lookingAt pat sc = (.ok (sc.peek.take pat.length == pat), sc) := by
  unfold lookingAt
  rw [bind_eq]
  have e : peekN pat.length (pat.length + 1) sc = (.ok (sc.peek.take pat.length), sc) := by
    unfold peekN
    rw [getS_bind_eq, if_pos h]
    rfl
  rw [e]
  rfl

/-- `readStructuredComment` after the two percent signs -/
def rscRest : SM (Option (List UInt8 × List UInt8)) := do
  let s ← getS
  match ← attempt (readCommentKey (fuelOf s) []) with
  | .error _ => do let s ← getS; skipToEOL (fuelOf s); pure none
  | .ok key =>
    if key.isEmpty then do let s ← getS; skipToEOL (fuelOf s); pure none
    else do
      let s ← getS
      match ← attempt (readCommentValue (fuelOf s) []) with
      | .error _ => pure none
      | .ok val => pure (some (key, val))

theorem rsc_eq : readStructuredComment = (do
    if !(← lookingAt [37, 37]) then pure none
    else do skipN 2; rscRest) := rfl

theorem fr_rscRest (sc : Scanner) : FrAt [] 0 [] rscRest rscRest sc := by
  unfold rscRest; fr_auto

theorem lookingAt_again {pat : List UInt8} {sc : Scanner} (h1 : sc.peek.take pat.length = pat)
    (h2 : pat.length ≤ sc.peek.length) : lookingAt pat sc = (.ok true, sc) := by
  rw [lookingAt_of_peek h2, h1]
  simp

theorem rsc_strict {sc : Scanner} (h1 : sc.peek.take 2 = [37, 37]) (h2 : 2 ≤ sc.peek.length) :
    meas (readStructuredComment sc).2 < meas sc := by
  have hne : sc.peek ≠ [] := by intro h; rw [h] at h2; simp at h2
  rw [rsc_eq, bind_eq, lookingAt_again (pat := [37, 37]) h1 h2]
  simp only [Bool.not_true, Bool.false_eq_true, if_false]
  rw [bind_eq]
  have hs := @skipN_strict 1 sc
  generalize skipN 2 sc = p at hs
  obtain ⟨r, sc1⟩ := p
  have h3 := hs hne rfl
  cases r with
  | error e => exact h3
  | ok u =>
    dsimp only
    exact Nat.lt_of_le_of_lt (fr_rscRest sc1).meas h3

theorem skipRequiredByte_strict {sc : Scanner} (x : UInt8) (hne : sc.peek ≠ []) :
    meas (skipRequiredByte x sc).2 < meas sc := by
  unfold skipRequiredByte
  rw [bind_eq]
  have hn := nextByte_peek hne
  rw [← next_snd_meas] at hn
  generalize next sc = p at hn
  obtain ⟨r, s'⟩ := p
  cases r with
  | error e => exact hn
  | ok c =>
    dsimp only at hn ⊢
    split <;> exact hn

theorem attempt_bind_strict {α β : Type} {f : SM α} {k : Except Err α → SM β} {sc : Scanner}
    (hf : meas (f sc).2 < meas sc) (hk : ∀ r sc1, meas (k r sc1).2 ≤ meas sc1) :
    meas ((Scan.attempt f >>= k) sc).2 < meas sc := by
  rw [bind_eq]
  unfold Scan.attempt
  generalize f sc = p at hf
  obtain ⟨r, sc1⟩ := p
  exact Nat.lt_of_le_of_lt (hk r sc1) hf

theorem skipComment_strict {sc : Scanner} (hne : sc.peek ≠ []) : meas (skipComment sc).2 < meas sc := by
  unfold skipComment
  refine attempt_bind_strict (skipRequiredByte_strict 37 hne) ?_
  intro r sc1
  have h : FrAt [] 0 []
      (match r with
        | .ok _ => (do let s ← getS; skipToEOL (fuelOf s) : SM Unit)
        | .error _ => pure ())
      (match r with
        | .ok _ => (do let s ← getS; skipToEOL (fuelOf s) : SM Unit)
        | .error _ => pure ()) sc1 := by
    fr_auto
  exact h.meas

/-- what a turn does after its first look-ahead -/
def wsAfter (c : UInt8) : SM Bool :=
  if c ≤ 32 then do skipByte; pure true
  else if c == 37 then do
    let s ← getS
    if s.col == 0 && (← lookingAt [37, 37]) then do
      match ← readStructuredComment with
      | some (k, v) => modS (fun s => { s with dsc := s.dsc ++ [(bytesToString k, bytesToString v)] })
      | none => pure ()
      pure true
    else do skipComment; pure true
  else pure false

theorem wsTurn_eq : wsTurn = (do let c ← peek; wsAfter c) := rfl

theorem nf_wsAfter (c : UInt8) : NoFail (wsAfter c) := by unfold wsAfter; nf_auto

theorem fr_wsAfter (c : UInt8) (sc : Scanner) : FrAt [] 0 [] (wsAfter c) (wsAfter c) sc := by
  unfold wsAfter; fr_auto

/-- a turn that goes on has consumed a byte -/
theorem wsAfter_strict {c : UInt8} {sc : Scanner} (hp : Plain sc) (hne : sc.peek ≠ [])
    (h : (wsAfter c sc).1 = .ok true) : meas (wsAfter c sc).2 < meas sc := by
  unfold wsAfter at h ⊢
  by_cases hc1 : c ≤ 32
  · -- white space
    rw [if_pos hc1] at h ⊢
    rw [bind_eq]
    have hs := @skipByte_strict sc
    generalize skipByte sc = p at hs
    obtain ⟨r, sc1⟩ := p
    have := hs hne rfl
    cases r with
    | error e => exact this
    | ok u => exact this
  · rw [if_neg hc1] at h ⊢
    by_cases hc2 : (c == 37) = true
    · -- a comment
      rw [if_pos hc2] at h ⊢
      rw [getS_bind_eq, bind_eq] at h ⊢
      have hl := @lookingAt_true2 [37, 37] sc
      have hpk := lookingAt_peek (pat := [37, 37]) hp hne
      have hle := (fr_lookingAt (b := []) (l := 0) (pre := []) [37, 37] sc).meas
      generalize lookingAt [37, 37] sc = p at h hl hpk hle ⊢
      obtain ⟨r, sc1⟩ := p
      dsimp only at hpk hle
      cases r with
      | error e => cases h
      | ok la =>
        dsimp only at h ⊢
        by_cases hc : (sc.col == 0 && la) = true
        · rw [if_pos hc] at h ⊢
          have hla : la = true := by
            cases la
            · simp at hc
            · rfl
          subst hla
          obtain ⟨t1, t2⟩ := hl rfl
          have hs := rsc_strict t1 t2
          rw [bind_eq]
          generalize readStructuredComment sc1 = q at hs
          obtain ⟨r2, sc2⟩ := q
          dsimp only at hs
          cases r2 with
          | error e => exact Nat.lt_of_lt_of_le hs hle
          | ok x =>
            dsimp only
            have hm : meas ((match x with
                | some (k, v) => do
                  modS (fun s => { s with dsc := s.dsc ++ [(bytesToString k, bytesToString v)] })
                  pure true
                | none => (pure true : SM Bool)) sc2).2 ≤ meas sc2 := by
              have hf : FrAt [] 0 [] (match x with
                | some (k, v) => do
                  modS (fun s => { s with dsc := s.dsc ++ [(bytesToString k, bytesToString v)] })
                  pure true
                | none => (pure true : SM Bool)) (match x with
                | some (k, v) => do
                  modS (fun s => { s with dsc := s.dsc ++ [(bytesToString k, bytesToString v)] })
                  pure true
                | none => (pure true : SM Bool)) sc2 := by fr_auto
              exact hf.meas
            exact Nat.lt_of_le_of_lt hm (Nat.lt_of_lt_of_le hs hle)
        · rw [if_neg hc] at h ⊢
          rw [bind_eq]
          have hs := skipComment_strict hpk
          generalize skipComment sc1 = q at hs
          obtain ⟨r2, sc2⟩ := q
          dsimp only at hs
          cases r2 with
          | error e => exact Nat.lt_of_lt_of_le hs hle
          | ok x => exact Nat.lt_of_lt_of_le hs hle
    · rw [if_neg hc2] at h
      cases h

theorem wsTurn_step {sc : Scanner} (hp : Plain sc) :
    Plain (wsTurn sc).2 ∧ (∀ e, (wsTurn sc).1 = .error e → e ≠ scannerFuel) ∧
    ((wsTurn sc).1 = .ok true → meas (wsTurn sc).2 < meas sc) := by
  refine ⟨(fr_wsTurn [] 0 [] sc).plain hp, ?_, ?_⟩
  · intro e
    rw [wsTurn_eq, bind_eq]
    have hpe := @peek_err sc
    generalize peek sc = p at hpe
    obtain ⟨r, sc1⟩ := p
    cases r with
    | error x =>
      intro h
      cases h
      rcases hpe hp rfl with rfl | ⟨t, rfl⟩ <;> (intro hh; cases hh)
    | ok c =>
      dsimp only
      obtain ⟨a, ha⟩ := nf_wsAfter c sc1
      intro h
      rw [ha] at h
      cases h
  · rw [wsTurn_eq, bind_eq]
    have hne := @peek_nonempty sc
    have hp1 := @Plain.of_eq _ peek peek sc
    have hle := (fr_peek (b := []) (l := 0) (pre := []) sc).meas
    generalize peek sc = p at hne hp1 hle
    obtain ⟨r, sc1⟩ := p
    cases r with
    | error x => intro h; cases h
    | ok c =>
      dsimp only at hle ⊢
      intro h
      exact Nat.lt_of_lt_of_le (wsAfter_strict (hp1 hp (fr_peek sc) rfl) (hne rfl) h) hle

/-- **the white-space loop does not run out of fuel** -/
theorem ws_noSF : ∀ n sc, Plain sc → meas sc < n → (skipWhiteSpace n sc).1 ≠ .error scannerFuel := by
  intro n
  induction n with
  | zero => intro sc _ h; omega
  | succ n ih =>
    intro sc hp hn
    rw [skipWhiteSpace_succ, bind_eq]
    obtain ⟨h1, h2, h3⟩ := wsTurn_step hp
    generalize wsTurn sc = p at h1 h2 h3
    obtain ⟨r, sc1⟩ := p
    dsimp only at h1 h2 h3
    cases r with
    | error e =>
      intro h
      cases h
      exact h2 _ rfl rfl
    | ok c =>
      cases c with
      | false => intro h; cases h
      | true =>
        simp only [if_true]
        exact ih sc1 h1 (by have := h3 rfl; omega)

/-- the part of `scanToken` after the white space -/
def scanTokenRest : SM Tok := do
  let b ← peek
  if b == 40 then do pure (.str (← readString))
  else if b == 60 then do
    let bb ← peekN 2 3
    if bb == [60, 60] then do skipByte; skipByte; pure (.obj (.op "<<"))
    else if bb == [60, 126] then do pure (.str (← readBase85String))
    else do pure (.str (← readHexString))
  else if b == 62 then do
    let bb ← peekN 2 3
    if bb == [62, 62] then do skipByte; skipByte; pure (.obj (.op ">>"))
    else do
      let s ← getS
      match (if bb.length < 2 then s.err else none) with
      | some e => fail e
      | none => fail syntaxErr
  else if b == 47 then do
    skipByte
    let s ← getS
    let name ← readRegular (fuelOf s) []
    pure (.obj (.name (bytesToString name)))
  else do
    skipByte
    let s ← getS
    let bytes ← (if isRegular b then readRegular (fuelOf s) [b] else pure [b])
    match parseNumber bytes with
    | some x => pure (.obj x)
    | none => pure (.obj (.op (bytesToString bytes)))

theorem scanToken_eq : scanToken = (do let s ← getS; skipWhiteSpace (fuelOf s + 4); scanTokenRest) := rfl

/-- `scanToken` with a given fuel for the white-space loop -/
def scanTokenN (n : Nat) : SM Tok := do skipWhiteSpace n; scanTokenRest

theorem scanToken_N (sc : Scanner) : scanToken sc = scanTokenN (fuelOf sc + 4) sc := by
  rw [scanToken_eq, getS_bind_eq]; rfl

theorem scanToken_short {sc scX : Scanner} {k : Nat} (h : wsEnd (fuelOf sc + 4) sc = some (k, scX)) :
    scanToken sc = (.error .eof, eofOf scX) := by
  rw [scanToken_N]
  unfold scanTokenN
  rw [bind_eq, (wsEnd_short _ _ _ _ h).2.2.2]

theorem scanToken_long (b : List UInt8) (l : Nat) (pre : List (String × String)) {sc scX : Scanner} {k : Nat}
    (h : wsEnd (fuelOf sc + 4) sc = some (k, scX)) :
    scanToken (ext b l pre sc) = scanTokenN (k + b.length) (ext b l pre scX) := by
  rw [scanToken_N]
  unfold scanTokenN
  have e : fuelOf (ext b l pre sc) + 4 = (fuelOf sc + 4) + b.length := by
    simp only [fuelOf, ext_src, ext_peek, List.length_append]; omega
  rw [e, bind_eq, bind_eq, wsEnd_long b l pre _ _ _ _ h]

/-- the white-space loop with more fuel, if it did not run out of fuel -/
theorem ws_mono : ∀ n n' sc, n ≤ n' → (skipWhiteSpace n sc).1 ≠ .error scannerFuel →
    skipWhiteSpace n' sc = skipWhiteSpace n sc := by
  intro n
  induction n with
  | zero => intro n' sc _ h; exact absurd rfl h
  | succ n ih =>
    intro n' sc hle h
    obtain ⟨k, rfl⟩ : ∃ k, n' = k + 1 := ⟨n' - 1, by omega⟩
    rw [skipWhiteSpace_succ, bind_eq] at h ⊢
    rw [skipWhiteSpace_succ, bind_eq]
    generalize wsTurn sc = p at h ⊢
    obtain ⟨r, sc1⟩ := p
    cases r with
    | error e => rfl
    | ok c =>
      cases c with
      | false => rfl
      | true =>
        simp only [if_true] at h ⊢
        exact ih k sc1 (by omega) h

theorem ws_agree {n1 n2 : Nat} {sc : Scanner} (h1 : (skipWhiteSpace n1 sc).1 ≠ .error scannerFuel)
    (h2 : (skipWhiteSpace n2 sc).1 ≠ .error scannerFuel) : skipWhiteSpace n1 sc = skipWhiteSpace n2 sc := by
  by_cases h : n1 ≤ n2
  · exact (ws_mono n1 n2 sc h h1).symm
  · exact ws_mono n2 n1 sc (by omega) h2

/-- a new scanner -/
def fresh (b : List UInt8) : Scanner := { src := b, fault := none }

theorem ext_atEnd (b : List UInt8) {scX : Scanner} (h : AtEnd scX) :
    ext b 0 [] scX = ext [] scX.line scX.dsc (fresh b) := by
  obtain ⟨src, fault, peek, reg, eexec, r, line, col, crSeen, dsc, err⟩ := scX
  obtain ⟨h1, h2, h3, h4, h5, h6, h7, h8, h9⟩ := h
  dsimp only at h1 h2 h3 h4 h5 h6 h7 h8 h9
  subst h1 h2 h3 h4 h5 h6 h7 h8 h9
  simp [ext, fresh]

/-- the scanner functions with the same fuel on a scanner whose line counter and list of
structured comments were changed -/
theorem scanTokenN_ext (n : Nat) (l : Nat) (pre : List (String × String)) (sc : Scanner) :
    scanTokenN n (ext [] l pre sc) = ((scanTokenN n sc).1, ext [] l pre (scanTokenN n sc).2) := by
  have h : FrW (b := []) (l := l) (pre := pre) (scanTokenN n) (scanTokenN n) sc := by
    unfold scanTokenN
    apply FrW.bind (frw_skipWhiteSpace _ _ _ (Nat.le_refl _) (fun _ => rfl))
    intro u sc1
    apply FrAt.weak
    unfold scanTokenRest
    fr_auto
  exact (h _ _ rfl (Or.inr rfl) (fun hb => absurd rfl hb)).2

theorem plain_fresh_ext (b : List UInt8) (l : Nat) (pre : List (String × String)) :
    Plain (ext [] l pre (fresh b)) ∧ meas (ext [] l pre (fresh b)) = b.length :=
  ⟨⟨rfl, rfl, Or.inl rfl⟩, by simp [meas, fresh]⟩

/-- the first token after the split: the rest of the long run continues like a new scanner
over the second part, up to the line counter and the structured comments recorded so far -/
theorem firstToken (b : List UInt8) {sc scX : Scanner} {k : Nat} (h : wsEnd (fuelOf sc + 4) sc = some (k, scX)) :
    scanToken (ext b 0 [] sc) = ((scanToken (fresh b)).1, ext [] scX.line scX.dsc (scanToken (fresh b)).2) := by
  obtain ⟨hA, _, hk, _⟩ := wsEnd_short _ _ _ _ h
  rw [scanToken_long b 0 [] h, ext_atEnd b hA, scanToken_N (fresh b)]
  have e := scanTokenN_ext (fuelOf (fresh b) + 4) scX.line scX.dsc (fresh b)
  obtain ⟨hp, hm⟩ := plain_fresh_ext b scX.line scX.dsc
  have n1 := ws_noSF (k + b.length) _ hp (by omega)
  have n2 := ws_noSF (fuelOf (fresh b) + 4) _ hp (by rw [hm]; simp [fuelOf, fresh]; omega)
  have ea : scanTokenN (k + b.length) (ext [] scX.line scX.dsc (fresh b)) =
      scanTokenN (fuelOf (fresh b) + 4) (ext [] scX.line scX.dsc (fresh b)) := by
    unfold scanTokenN
    rw [bind_eq, bind_eq, ws_agree n1 n2]
  rw [ea, e]

/-! ### the token loop -/

/-- the body of `executeScanner`'s loop after `ScanToken` -/
def loopBody (f m : Nat) (p : State × Except Err Tok) : State × Res :=
  match p with
  | (s1, r) =>
    match r with
    | .error .eof => okS s1
    | .error e => (s1, .err e)
    | .ok tok =>
      match objOfTok s1 tok with
      | (s2, o) =>
        match execOne f m s2 o false with
        | (s3, r3) =>
          match r3 with
          | .ok => scanLoop f m s3
          | _ => (s3, r3)

theorem scanLoop_succ (f m : Nat) (s : State) :
    scanLoop (f + 1) m s = loopBody f m (withScanner s Scan.scanToken) := by
  conv => lhs; unfold scanLoop
  rfl

theorem frq_loopBody {b : List UInt8} {l : Nat} {pre dd : List (String × String)} {f m : Nat}
    (ih : AllFr b l pre dd f m) (s1 : State) (r0 : Except Err Tok) :
    FrP b l pre dd s1 (loopBody f m (s1, r0)) (loopBody f m (extSt b l pre dd s1, r0)) := by
  unfold loopBody
  dsimp only [extSt]
  split
  · exact FrQ.leaf rfl rfl
  · exact FrQ.leaf rfl rfl
  · rename_i tok
    have e := objOfTok_ext (b := b) (l := l) (pre := pre) (dd := dd) s1 tok
    dsimp only [extSt] at e
    rw [e]
    have hsc := objOfTok_scanner s1 tok
    generalize objOfTok s1 tok = p2 at hsc ⊢
    obtain ⟨s2, o⟩ := p2
    dsimp only at hsc ⊢
    apply FrQ.start hsc
    have h3 := ih.one s2 o false
    dsimp only [extSt] at h3
    generalize execOne f m s2 o false = p3 at h3 ⊢
    generalize execOne f m _ o false = p3' at h3 ⊢
    sync p3 h3
    rename_i s3 r3
    split
    · exact ih.sLoop s3
    · exact FrQ.leaf rfl rfl

/-! ### the interpreter's own list of structured comments is not touched by `executeScanner` -/

theorem ext_nil (sc : Scanner) : ext [] 0 [] sc = sc := by
  obtain ⟨src, fault, peek, reg, eexec, r, line, col, crSeen, dsc, err⟩ := sc
  simp [ext]

theorem extSt_nil (s : State) : extSt [] 0 [] s.dsc s = s := by
  unfold extSt
  rw [ext_nil]

theorem scanRun_dsc (f m : Nat) (s : State) : (scanRun f m s).1.dsc = s.dsc := by
  have h := (allFr (b := []) (l := 0) (pre := []) (dd := s.dsc) m f).sRun s (Or.inr rfl) (fun hb => absurd rfl hb)
  rw [extSt_nil] at h
  have e := congrArg (fun p => p.1.dsc) h.2
  exact e

theorem scanLoop_dsc (f m : Nat) (s : State) : (scanLoop f m s).1.dsc = s.dsc := by
  have h := (allFr (b := []) (l := 0) (pre := []) (dd := s.dsc) m f).sLoop s (Or.inr rfl) (fun hb => absurd rfl hb)
  rw [extSt_nil] at h
  have e := congrArg (fun p => p.1.dsc) h.2
  exact e

/-! ### a run that ends cleanly at a token boundary -/

/-- the next `scanToken` finds the end of the input cleanly (`wsEnd`) -/
def endOK (s : State) : Bool := (wsEnd (fuelOf s.scanner + 4) s.scanner).isSome

/-- the token loop of `executeScanner`, accepting only runs in which every token is scanned
and executed with result `ok` and without the reader being asked for a byte beyond the end of
the input, until `endOK`; the result is the state before the last `scanToken` and the number
of tokens executed -/
def cleanLoop : Nat → Nat → State → Option (State × Nat)
  | 0, _, _ => none
  | f + 1, m, s =>
    if endOK s then some (s, 0)
    else
      match withScanner s Scan.scanToken with
      | (s1, .ok tok) =>
        match objOfTok s1 tok with
        | (s2, o) =>
          match execOne f m s2 o false with
          | (s3, .ok) =>
            if s3.scanner.err.isNone then
              match cleanLoop f m s3 with
              | some (sK, j) => some (sK, j + 1)
              | none => none
            else none
          | _ => none
      | _ => none

theorem cleanLoop_short : ∀ f m s sK j, cleanLoop f m s = some (sK, j) →
    endOK sK = true ∧ j < f ∧ ∀ k scX, wsEnd (fuelOf sK.scanner + 4) sK.scanner = some (k, scX) →
      scanLoop f m s = ({ sK with scanner := eofOf scX }, .ok) := by
  intro f
  induction f with
  | zero => intro m s sK j h; simp [cleanLoop] at h
  | succ f ih =>
    intro m s sK j h
    unfold cleanLoop at h
    split at h
    · rename_i he
      simp only [Option.some.injEq, Prod.mk.injEq] at h
      obtain ⟨rfl, rfl⟩ := h
      refine ⟨he, by omega, ?_⟩
      intro k scX hw
      rw [scanLoop_succ]
      unfold withScanner
      rw [scanToken_short hw]
      rfl
    · split at h
      · rename_i s1 tok h0
        split at h
        rename_i s2 o h2
        split at h
        · rename_i s3 h3
          split at h
          · split at h
            · rename_i sK' j' hc
              simp only [Option.some.injEq, Prod.mk.injEq] at h
              obtain ⟨rfl, rfl⟩ := h
              obtain ⟨a1, a2, a3⟩ := ih m s3 sK' j' hc
              refine ⟨a1, by omega, ?_⟩
              intro k scX hw
              rw [scanLoop_succ, h0]
              unfold loopBody
              dsimp only
              rw [h2]
              dsimp only
              rw [h3]
              dsimp only
              exact a3 k scX hw
            · cases h
          · cases h
        · cases h
      · cases h

theorem cleanLoop_long (b : List UInt8) (dd : List (String × String)) :
    ∀ f m s sK j, cleanLoop f m s = some (sK, j) → ∀ F, f ≤ F + j →
      scanLoop (F + j) m (extSt b 0 [] dd s) = scanLoop F m (extSt b 0 [] dd sK) := by
  intro f
  induction f with
  | zero => intro m s sK j h; simp [cleanLoop] at h
  | succ f ih =>
    intro m s sK j h F hF
    unfold cleanLoop at h
    split at h
    · simp only [Option.some.injEq, Prod.mk.injEq] at h
      obtain ⟨rfl, rfl⟩ := h
      rfl
    · split at h
      · rename_i s1 tok h0
        split at h
        rename_i s2 o h2
        split at h
        · rename_i s3 h3
          split at h
          · rename_i he
            split at h
            · rename_i sK' j' hc
              simp only [Option.some.injEq, Prod.mk.injEq] at h
              obtain ⟨rfl, rfl⟩ := h
              have hq3 : Quiet b s3.scanner := Or.inl (by simpa using he)
              -- the token is executed in the same way
              have g3 := (allFr (b := b) (l := 0) (pre := []) (dd := dd) m f).one s2 o false
              rw [h3] at g3
              obtain ⟨hq2, e3⟩ := g3 hq3 (fun _ hbad => by cases hbad)
              -- … and scanned in the same way
              have hsc := objOfTok_scanner s1 tok
              rw [h2] at hsc
              dsimp only at hsc
              have g0 := frq_withScanner (dd := dd) (frw_scanToken (b := b) (l := 0) (pre := []) s.scanner)
              rw [h0] at g0
              obtain ⟨_, e0⟩ := g0 (by rw [← hsc]; exact hq2) (fun _ hbad => by cases hbad)
              have e2 := objOfTok_ext (b := b) (l := 0) (pre := []) (dd := dd) s1 tok
              rw [h2] at e2
              have hmono := InterpFuel.execOne_fuel_mono (f := f) (f' := F + j') (by omega) m
                (extSt b 0 [] dd s2) o false (by rw [e3]; intro hh; cases hh)
              have eF : F + (j' + 1) = (F + j') + 1 := by omega
              rw [eF, scanLoop_succ, e0]
              unfold loopBody
              dsimp only
              rw [e2]
              dsimp only
              rw [hmono, e3]
              dsimp only
              exact ih m s3 sK' j' hc F (by omega)
            · cases h
          · cases h
        · cases h
      · cases h

/-! ### `executeScanner` and `Execute` around the token loop -/

/-- the header test of `executeScanner` -/
def startOf (s : State) : State × Option Err :=
  if s.checkStart then
    match withScanner s (Scan.peekN 2 3) with
    | (s1, r) =>
      match r with
      | .ok head =>
        if head == [37, 33] then ({ s1 with checkStart := false }, none)
        else
          match (if head.length < 2 then s1.scanner.err else none) with
          | none | some .eof => (s1, some .noPS)
          | some e => (s1, some e)
      | .error e => (s1, some e)
  else (s, none)

/-- leaving `executeScanner` -/
def wrapR (p : State × Res) : State × Res := ({ p.1 with scannerDepth := p.1.scannerDepth - 1 }, p.2)

theorem scanRun_succ (f m : Nat) (s : State) :
    scanRun (f + 1) m s = match startOf s with
      | (s1, some e) => (s1, .err e)
      | (s1, none) => wrapR (scanLoop f m { s1 with scannerDepth := s1.scannerDepth + 1 }) := by
  conv => lhs; unfold scanRun
  rfl

/-- the end of `Execute` -/
def finish (p : State × Res) : State × Res :=
  match p with
  | (s1, r) =>
    match r with
    | .err .exit => ({ s1 with dsc := s1.dsc ++ s1.scanner.dsc }, .err (.ps "invalidexit"))
    | .err .stop | .ok => ({ s1 with dsc := s1.dsc ++ s1.scanner.dsc }, .ok)
    | _ => ({ s1 with dsc := s1.dsc ++ s1.scanner.dsc }, r)

theorem execute_eq (f m : Nat) (s : State) (input : List UInt8) :
    execute f m s input none = finish (scanRun f m { s with scanner := fresh input }) := rfl

/-! ### two control fields: `len(intp.scanners)` is restored, `CheckStart` is never set -/

/-- `p` is an outcome of a call started in `s` -/
def Keep (s : State) (p : State × Res) : Prop :=
  p.1.scannerDepth = s.scannerDepth ∧ (s.checkStart = false → p.1.checkStart = false)

theorem Keep.leaf {s : State} {p : State × Res} (h1 : p.1.scannerDepth = s.scannerDepth)
    (h2 : p.1.checkStart = s.checkStart) : Keep s p := ⟨h1, fun h => by rw [h2]; exact h⟩

theorem Keep.seq {s0 s s1 : State} {r1 : Res} {p : State × Res} (h : Keep s0 (s1, r1))
    (hd : s0.scannerDepth = s.scannerDepth) (hc : s0.checkStart = s.checkStart) (h2 : Keep s1 p) : Keep s p :=
  ⟨by rw [h2.1, h.1, hd], fun hs => h2.2 (h.2 (by rw [hc]; exact hs))⟩

structure AllKeep (f m : Nat) : Prop where
  one : ∀ s o x, Keep s (execOne f m s o x)
  body : ∀ s o x, Keep s (execBody f m s o x)
  tail : ∀ s o x c, Keep s (execTail f m s o x c)
  run : ∀ s r o i n, Keep s (runBody f m s r o i n)
  call : ∀ s id, Keep s (callBuiltin f m s id)
  forL : ∀ s v i lm p, Keep s (forLoop f m s v i lm p)
  rep : ∀ s n p, Keep s (repeatLoop f m s n p)
  loop : ∀ s p, Keep s (loopLoop f m s p)
  fArr : ∀ s r o i n p, Keep s (forallArr f m s r o i n p)
  fStr : ∀ s r o i n p, Keep s (forallStr f m s r o i n p)
  fDict : ∀ s d ks p, Keep s (forallDict f m s d ks p)
  sRun : ∀ s, Keep s (scanRun f m s)
  sLoop : ∀ s, Keep s (scanLoop f m s)

theorem keep_execOne {f m : Nat} (ih : AllKeep f m) (s : State) (o : Obj) (x : Bool) :
    Keep s (execOne (f + 1) m s o x) := by
  unfold execOne
  split
  · split
    · exact Keep.leaf rfl rfl
    · have h1 := ih.body { s with execDepth := s.execDepth + 1, hiDepth := max s.hiDepth (s.execDepth + 1) } o true
      generalize execBody f m _ o true = p1 at h1 ⊢
      obtain ⟨s1, r1⟩ := p1
      exact Keep.seq h1 rfl rfl (Keep.leaf rfl rfl)
  · exact ih.body s o false

theorem keep_execBody {f m : Nat} (ih : AllKeep f m) (s : State) (o : Obj) (x : Bool) :
    Keep s (execBody (f + 1) m s o x) := by
  unfold execBody
  dsimp only
  repeat' split
  all_goals first
    | exact Keep.leaf rfl rfl
    | exact ih.tail s o x x

theorem keep_leave {c : Bool} {s : State} {p : State × Res} (h : Keep s p) : Keep s (leaveLevel c p) := by
  unfold leaveLevel
  split
  · exact h
  · exact ⟨h.1, h.2⟩

theorem keep_execTail {f m : Nat} (ih : AllKeep f m) (s : State) (o : Obj) (x c : Bool) :
    Keep s (execTail (f + 1) m s o x c) := by
  unfold execTail
  conv => zeta
  generalize hS : ({ s with numOps := s.numOps + 1 } : State) = S
  have hd : S.scannerDepth = s.scannerDepth := by subst hS; rfl
  have hcs : S.checkStart = s.checkStart := by subst hS; rfl
  refine Keep.seq (s0 := S) (s1 := S) (r1 := .ok) (Keep.leaf rfl rfl) hd hcs ?_
  split
  · exact Keep.leaf rfl rfl
  · split
    · split
      · exact Keep.leaf rfl rfl
      · exact ih.tail S _ true c
    · rename_i id
      have h1 := ih.call S id
      generalize callBuiltin f m S id = p1 at h1 ⊢
      obtain ⟨s1, r1⟩ := p1
      refine Keep.seq h1 rfl rfl ?_
      dsimp only
      split
      · rename_i name
        split
        · split
          · rename_i handler _
            have h3 := ih.one { s1 with errors := name :: s1.errors, hiErrors := max s1.hiErrors (s1.errors.length + 1) } handler true
            generalize execOne f m _ handler true = p3 at h3 ⊢
            obtain ⟨s3, r3⟩ := p3
            exact Keep.seq h3 rfl rfl (Keep.leaf rfl rfl)
          · exact Keep.leaf rfl rfl
        · exact Keep.leaf rfl rfl
      · exact Keep.leaf rfl rfl
    · rename_i ref off len
      split
      · split
        · exact Keep.leaf rfl rfl
        · split
          · exact Keep.leaf rfl rfl
          · apply keep_leave
            have h1 := ih.run (enterLevel c S) ref off 0 (len - 1)
            have e1 : (enterLevel c S).scannerDepth = S.scannerDepth := by cases c <;> rfl
            have e2 : (enterLevel c S).checkStart = S.checkStart := by cases c <;> rfl
            generalize runBody f m (enterLevel c S) ref off 0 (len - 1) = p1 at h1 ⊢
            obtain ⟨s1, r1⟩ := p1
            refine Keep.seq h1 e1 e2 ?_
            dsimp only
            split
            · split
              · exact ih.tail s1 _ false true
              · exact Keep.leaf rfl rfl
            · exact Keep.leaf rfl rfl
      · exact Keep.leaf rfl rfl
    · exact Keep.leaf rfl rfl

theorem keep_runBody {f m : Nat} (ih : AllKeep f m) (s : State) (r o i t : Nat) :
    Keep s (runBody (f + 1) m s r o i t) := by
  cases t with
  | zero => unfold runBody; exact Keep.leaf rfl rfl
  | succ t =>
    unfold runBody
    split
    · exact Keep.leaf rfl rfl
    · rename_i tok _
      have h1 := ih.one s tok false
      generalize execOne f m s tok false = p1 at h1 ⊢
      obtain ⟨s1, r1⟩ := p1
      refine Keep.seq h1 rfl rfl ?_
      dsimp only
      split
      · exact ih.run s1 r o (i + 1) t
      · exact Keep.leaf rfl rfl

theorem keep_loop {s0 s : State} {p : State × Res} {next : State → State × Res}
    (h1 : Keep s0 p) (hd : s0.scannerDepth = s.scannerDepth) (hc : s0.checkStart = s.checkStart)
    (hn : ∀ s1, Keep s1 (next s1)) : Keep s (InterpFuel.loopResult p next) := by
  obtain ⟨s1, r1⟩ := p
  refine Keep.seq h1 hd hc ?_
  unfold InterpFuel.loopResult
  dsimp only
  split
  · exact Keep.leaf rfl rfl
  · exact hn s1
  · exact Keep.leaf rfl rfl

theorem keep_forLoop {f m : Nat} (ih : AllKeep f m) (s : State) (v i lm : Int) (p : Obj) :
    Keep s (forLoop (f + 1) m s v i lm p) := by
  unfold forLoop
  split
  · exact Keep.leaf rfl rfl
  · exact keep_loop (next := fun s1 => if i > 0 ∧ v > maxInt64 - i ∨ i < 0 ∧ v < minInt64 - i then okS s1
        else forLoop f m s1 (wrap64 (v + i)) i lm p)
      (ih.one (pushS s (.int v)) p true) rfl rfl
      (fun s1 => by
        split
        · exact Keep.leaf rfl rfl
        · exact ih.forL s1 _ i lm p)

theorem keep_repeatLoop {f m : Nat} (ih : AllKeep f m) (s : State) (k : Nat) (p : Obj) :
    Keep s (repeatLoop (f + 1) m s k p) := by
  cases k with
  | zero => unfold repeatLoop; exact Keep.leaf rfl rfl
  | succ k =>
    unfold repeatLoop
    exact keep_loop (next := fun s1 => repeatLoop f m s1 k p) (ih.one s p true) rfl rfl (fun s1 => ih.rep s1 k p)

theorem keep_loopLoop {f m : Nat} (ih : AllKeep f m) (s : State) (p : Obj) :
    Keep s (loopLoop (f + 1) m s p) := by
  unfold loopLoop
  exact keep_loop (next := fun s1 => loopLoop f m s1 p) (ih.one s p true) rfl rfl (fun s1 => ih.loop s1 p)

theorem keep_forallArr {f m : Nat} (ih : AllKeep f m) (s : State) (r o i t : Nat) (p : Obj) :
    Keep s (forallArr (f + 1) m s r o i t p) := by
  cases t with
  | zero => unfold forallArr; exact Keep.leaf rfl rfl
  | succ t =>
    unfold forallArr
    split
    · exact Keep.leaf rfl rfl
    · rename_i v _
      exact keep_loop (next := fun s1 => forallArr f m s1 r o (i + 1) t p) (ih.one (pushS s v) p true) rfl rfl
        (fun s1 => ih.fArr s1 r o (i + 1) t p)

theorem keep_forallStr {f m : Nat} (ih : AllKeep f m) (s : State) (r o i t : Nat) (p : Obj) :
    Keep s (forallStr (f + 1) m s r o i t p) := by
  cases t with
  | zero => unfold forallStr; exact Keep.leaf rfl rfl
  | succ t =>
    unfold forallStr
    split
    · exact Keep.leaf rfl rfl
    · rename_i c _
      exact keep_loop (next := fun s1 => forallStr f m s1 r o (i + 1) t p)
        (ih.one (pushS s (.int c.toNat)) p true) rfl rfl (fun s1 => ih.fStr s1 r o (i + 1) t p)

theorem keep_forallDict {f m : Nat} (ih : AllKeep f m) (s : State) (d : Nat) (ks : List Name) (p : Obj) :
    Keep s (forallDict (f + 1) m s d ks p) := by
  cases ks with
  | nil => unfold forallDict; exact Keep.leaf rfl rfl
  | cons k ks =>
    unfold forallDict
    split
    · exact ih.fDict s d ks p
    · rename_i v _
      exact keep_loop (next := fun s1 => forallDict f m s1 d ks p)
        (ih.one (setStack s (v :: .name k :: s.vm.stack)) p true) rfl rfl (fun s1 => ih.fDict s1 d ks p)

theorem keep_scanLoop {f m : Nat} (ih : AllKeep f m) (s : State) : Keep s (scanLoop (f + 1) m s) := by
  rw [scanLoop_succ]
  have d0 : (withScanner s Scan.scanToken).1.scannerDepth = s.scannerDepth := rfl
  have c0 : (withScanner s Scan.scanToken).1.checkStart = s.checkStart := rfl
  generalize withScanner s Scan.scanToken = p0 at d0 c0 ⊢
  obtain ⟨s1, r0⟩ := p0
  dsimp only at d0 c0
  unfold loopBody
  dsimp only
  split
  · exact Keep.leaf d0 c0
  · exact Keep.leaf d0 c0
  · rename_i tok
    have e1 : (objOfTok s1 tok).1.scannerDepth = s1.scannerDepth := by cases tok <;> rfl
    have e2 : (objOfTok s1 tok).1.checkStart = s1.checkStart := by cases tok <;> rfl
    generalize objOfTok s1 tok = p2 at e1 e2 ⊢
    obtain ⟨s2, o⟩ := p2
    dsimp only at e1 e2 ⊢
    have h3 := ih.one s2 o false
    generalize execOne f m s2 o false = p3 at h3 ⊢
    obtain ⟨s3, r3⟩ := p3
    refine Keep.seq h3 (e1.trans d0) (e2.trans c0) ?_
    dsimp only
    split
    · exact ih.sLoop s3
    · exact Keep.leaf rfl rfl

theorem startOf_keep (s : State) :
    (startOf s).1.scannerDepth = s.scannerDepth ∧ (s.checkStart = false → (startOf s).1.checkStart = false) := by
  unfold startOf
  split
  · rename_i h
    refine ⟨?_, fun h' => by rw [h'] at h; cases h⟩
    unfold withScanner
    dsimp only
    repeat' split
    all_goals rfl
  · exact ⟨rfl, id⟩

theorem startOf_none_cs {s s1 : State} (h : startOf s = (s1, none)) : s1.checkStart = false := by
  unfold startOf at h
  split at h
  · unfold withScanner at h
    dsimp only at h
    repeat' split at h
    all_goals first
      | (cases h; rfl)
      | cases h
  · rename_i hc
    cases h
    simpa using hc

theorem keep_scanRun {f m : Nat} (ih : AllKeep f m) (s : State) : Keep s (scanRun (f + 1) m s) := by
  rw [scanRun_succ]
  have hs := startOf_keep s
  generalize startOf s = st at hs ⊢
  obtain ⟨s1, eo⟩ := st
  dsimp only at hs ⊢
  cases eo with
  | some e => exact ⟨hs.1, hs.2⟩
  | none =>
    dsimp only
    have h2 := ih.sLoop { s1 with scannerDepth := s1.scannerDepth + 1 }
    generalize scanLoop f m _ = p2 at h2 ⊢
    obtain ⟨s2, r2⟩ := p2
    unfold wrapR
    refine ⟨?_, fun h => h2.2 (hs.2 h)⟩
    have := h2.1
    dsimp only at this ⊢
    rw [this, ← hs.1]
    omega

theorem keep_callBuiltin {f m : Nat} (ih : AllKeep f m) (s : State) (id : String) :
    Keep s (callBuiltin (f + 1) m s id) := by
  unfold callBuiltin
  split
  · repeat' split
    all_goals first
      | exact Keep.leaf rfl rfl
      | exact Keep.seq (s0 := setStack s _) (r1 := .ok) (Keep.leaf rfl rfl) rfl rfl (ih.call _ _)
      | exact Keep.seq (s0 := setStack s _) (r1 := .ok) (Keep.leaf rfl rfl) rfl rfl (ih.one _ _ _)
  · repeat' split
    all_goals first
      | exact Keep.leaf rfl rfl
      | exact Keep.seq (s0 := setStack s _) (r1 := .ok) (Keep.leaf rfl rfl) rfl rfl (ih.one _ _ _)
  · repeat' split
    all_goals first
      | exact Keep.leaf rfl rfl
      | exact Keep.seq (s0 := setStack s _) (r1 := .ok) (Keep.leaf rfl rfl) rfl rfl (ih.one _ _ _)
  · repeat' split
    all_goals first
      | exact Keep.leaf rfl rfl
      | exact Keep.seq (s0 := setStack s _) (r1 := .ok) (Keep.leaf rfl rfl) rfl rfl (ih.forL _ _ _ _ _)
  · repeat' split
    all_goals first
      | exact Keep.leaf rfl rfl
      | exact Keep.seq (s0 := setStack s _) (r1 := .ok) (Keep.leaf rfl rfl) rfl rfl (ih.rep _ _ _)
  · repeat' split
    all_goals first
      | exact Keep.leaf rfl rfl
      | exact Keep.seq (s0 := setStack s _) (r1 := .ok) (Keep.leaf rfl rfl) rfl rfl (ih.loop _ _)
  · repeat' split
    all_goals first
      | exact Keep.leaf rfl rfl
      | exact Keep.seq (s0 := setStack s _) (r1 := .ok) (Keep.leaf rfl rfl) rfl rfl (ih.fArr _ _ _ _ _ _)
      | exact Keep.seq (s0 := setStack s _) (r1 := .ok) (Keep.leaf rfl rfl) rfl rfl (ih.fStr _ _ _ _ _ _)
      | exact Keep.seq (s0 := setStack s _) (r1 := .ok) (Keep.leaf rfl rfl) rfl rfl (ih.fDict _ _ _ _)
  · exact Keep.leaf rfl rfl
  · unfold defaultErrorHandler
    split <;> exact Keep.leaf rfl rfl
  · split
    · exact Keep.leaf rfl rfl
    · rename_i rest _
      dsimp only
      split
      · exact Keep.leaf rfl rfl
      · generalize hp2 : withScanner ({ s with vm := pushDict { s.vm with stack := rest } s.vm.roots.systemDict } : State)
          Scan.beginEexec = p2
        have d2 : p2.1.scannerDepth = s.scannerDepth := by rw [← hp2]; rfl
        have c2 : p2.1.checkStart = s.checkStart := by rw [← hp2]; rfl
        obtain ⟨s2, r2⟩ := p2
        dsimp only at d2 c2 ⊢
        split
        · exact Keep.leaf d2 c2
        · have h3 := ih.sRun s2
          generalize scanRun f m s2 = p3 at h3 ⊢
          obtain ⟨s3, r3⟩ := p3
          refine Keep.seq h3 d2 c2 ?_
          dsimp only
          repeat' split
          all_goals exact Keep.leaf rfl rfl
    · exact Keep.leaf rfl rfl
  · repeat' split
    all_goals exact Keep.leaf rfl rfl

theorem allKeep (m : Nat) : ∀ f, AllKeep f m := by
  intro f
  induction f with
  | zero =>
    exact ⟨fun _ _ _ => by simp only [execOne]; exact Keep.leaf rfl rfl,
      fun _ _ _ => by simp only [execBody]; exact Keep.leaf rfl rfl,
      fun _ _ _ _ => by simp only [execTail]; exact Keep.leaf rfl rfl,
      fun _ _ _ _ _ => by simp only [runBody]; exact Keep.leaf rfl rfl,
      fun _ _ => by simp only [callBuiltin]; exact Keep.leaf rfl rfl,
      fun _ _ _ _ _ => by simp only [forLoop]; exact Keep.leaf rfl rfl,
      fun _ _ _ => by simp only [repeatLoop]; exact Keep.leaf rfl rfl,
      fun _ _ => by simp only [loopLoop]; exact Keep.leaf rfl rfl,
      fun _ _ _ _ _ _ => by simp only [forallArr]; exact Keep.leaf rfl rfl,
      fun _ _ _ _ _ _ => by simp only [forallStr]; exact Keep.leaf rfl rfl,
      fun _ _ _ _ => by simp only [forallDict]; exact Keep.leaf rfl rfl,
      fun _ => by simp only [scanRun]; exact Keep.leaf rfl rfl,
      fun _ => by simp only [scanLoop]; exact Keep.leaf rfl rfl⟩
  | succ n ih =>
    exact ⟨keep_execOne ih, keep_execBody ih, keep_execTail ih, keep_runBody ih, keep_callBuiltin ih,
      keep_forLoop ih, keep_repeatLoop ih, keep_loopLoop ih, keep_forallArr ih, keep_forallStr ih,
      keep_forallDict ih, keep_scanRun ih, keep_scanLoop ih⟩

theorem startOf_long (b : List UInt8) (dd : List (String × String)) {s s1 : State}
    (h : startOf s = (s1, none)) (hq : s1.scanner.err = none) :
    startOf (extSt b 0 [] dd s) = (extSt b 0 [] dd s1, none) := by
  unfold startOf at h ⊢
  dsimp only [extSt] at h ⊢
  by_cases hcs : s.checkStart = true
  · rw [if_pos hcs] at h ⊢
    have h0 := frq_withScanner (dd := dd) (FrAt.weak (fr_peekN (b := b) (l := 0) (pre := []) 2 3 s.scanner))
    dsimp only [extSt] at h0
    generalize withScanner s (Scan.peekN 2 3) = p0 at h0 h
    obtain ⟨s0, r0⟩ := p0
    dsimp only at h
    cases r0 with
    | error e => cases h
    | ok head =>
      dsimp only at h
      by_cases hh : (head == [37, 33]) = true
      · rw [if_pos hh] at h
        simp only [Prod.mk.injEq, and_true] at h
        subst h
        obtain ⟨_, e0⟩ := h0 (Or.inl hq) (fun _ hbad => by cases hbad)
        rw [e0]
        dsimp only
        rw [if_pos hh]
      · rw [if_neg hh] at h
        split at h <;> cases h
  · rw [if_neg hcs] at h ⊢
    cases h
    rfl

/-- `Execute`, accepting only runs that end cleanly at a token boundary; the result is the
state before the last `scanToken` and the number of tokens executed -/
def cleanRun (f m : Nat) (s : State) (a : List UInt8) : Option (State × Nat) :=
  match f with
  | 0 => none
  | f + 1 =>
    match startOf { s with scanner := fresh a } with
    | (s1, none) =>
      if s1.scanner.err.isNone then cleanLoop f m { s1 with scannerDepth := s1.scannerDepth + 1 } else none
    | _ => none

theorem startOf_dsc (s : State) : (startOf s).1.dsc = s.dsc := by
  unfold startOf
  split
  · unfold withScanner
    dsimp only
    repeat' split
    all_goals rfl
  · rfl

/-- outcome of the single call in terms of the outcome `q` of the token loop of the second
call: the same interpreter, a scanner that differs in the line counter and the recorded
structured comments -/
theorem finish_ext (l : Nat) (pre dd : List (String × String)) (q : State × Res) :
    finish (wrapR (extSt [] l pre dd q.1, q.2)) =
      ({ (finish (wrapR q)).1 with
          scanner := ext [] l pre (finish (wrapR q)).1.scanner,
          dsc := dd ++ (pre ++ q.1.scanner.dsc) },
       (finish (wrapR q)).2) := by
  obtain ⟨s1, r⟩ := q
  unfold finish wrapR
  dsimp only [extSt]
  split <;> rfl

/-- `Execute` appends the scanner's structured comments whatever the result -/
theorem finish_dsc (q : State × Res) : (finish (wrapR q)).1.dsc = q.1.dsc ++ q.1.scanner.dsc := by
  obtain ⟨s1, r⟩ := q
  unfold finish wrapR
  dsimp only
  split <;> rfl

/-- the state in which the first call leaves the interpreter -/
def afterFirst (s sK : State) (scX : Scanner) : State :=
  { sK with scanner := eofOf scX, scannerDepth := sK.scannerDepth - 1, dsc := s.dsc ++ scX.dsc }

/-- the single call, seen from the second call: `P2` is the outcome of the second call -/
def merged (scX : Scanner) (P2 : State × Res) : State × Res :=
  ({ P2.1 with scanner := ext [] scX.line scX.dsc P2.1.scanner }, P2.2)

/-- the two runs with aligned fuel, without any further hypothesis -/
theorem split_aligned {f m : Nat} {s sK : State} {a : List UInt8} {j : Nat}
    (hc : cleanRun f m s a = some (sK, j)) :
    ∃ k scX, wsEnd (fuelOf sK.scanner + 4) sK.scanner = some (k, scX) ∧
      execute f m s a none = (afterFirst s sK scX, .ok) ∧
      ∀ (b : List UInt8) (F : Nat), f ≤ F →
        execute (F + 1 + j + 1) m s (a ++ b) none =
          merged scX (execute (F + 1 + 1) m (afterFirst s sK scX) b none) := by
  cases f with
  | zero => simp [cleanRun] at hc
  | succ f =>
    unfold cleanRun at hc
    dsimp only at hc
    split at hc
    · rename_i s1 hst
      split at hc
      · rename_i herr
        have herr' : s1.scanner.err = none := by simpa using herr
        obtain ⟨hend, hj, hshort⟩ := cleanLoop_short _ _ _ _ _ hc
        unfold endOK at hend
        obtain ⟨⟨k, scX⟩, hw⟩ := Option.isSome_iff_exists.mp hend
        -- `CheckStart` has been cleared and a scanner is installed
        have hk := (allKeep m f).sLoop { s1 with scannerDepth := s1.scannerDepth + 1 }
        rw [hshort k scX hw] at hk
        have hcs1 : s1.checkStart = false := startOf_none_cs hst
        have hcs : sK.checkStart = false := hk.2 hcs1
        have hdep : ¬ sK.scannerDepth = 0 := by
          have := hk.1
          dsimp only at this
          omega
        have hdsc : sK.dsc = s.dsc := by
          have e := scanLoop_dsc f m { s1 with scannerDepth := s1.scannerDepth + 1 }
          rw [hshort k scX hw] at e
          have e1 := startOf_dsc { s with scanner := fresh a }
          rw [hst] at e1
          exact e.trans e1
        refine ⟨k, scX, hw, ?_, ?_⟩
        · rw [execute_eq, scanRun_succ, hst]
          dsimp only
          rw [hshort k scX hw]
          unfold wrapR finish afterFirst eofOf
          dsimp only
          rw [hdsc]
        · intro b F hF
          -- the long run arrives at the last token boundary of the first part
          have eab : execute (F + 1 + j + 1) m s (a ++ b) none =
              finish (wrapR (loopBody F m (withScanner (extSt b 0 [] s.dsc sK) Scan.scanToken))) := by
            rw [execute_eq]
            have e0 : ({ s with scanner := fresh (a ++ b) } : State) =
                extSt b 0 [] s.dsc { s with scanner := fresh a } := rfl
            rw [e0, scanRun_succ, startOf_long b s.dsc hst herr']
            dsimp only
            have e3 : ({ extSt b 0 [] s.dsc s1 with scannerDepth := (extSt b 0 [] s.dsc s1).scannerDepth + 1 } : State) =
                extSt b 0 [] s.dsc { s1 with scannerDepth := s1.scannerDepth + 1 } := rfl
            rw [e3, cleanLoop_long b s.dsc _ _ _ _ _ hc (F + 1) (by omega), scanLoop_succ]
          -- the second call
          have eb : execute (F + 1 + 1) m (afterFirst s sK scX) b none =
              finish (wrapR (loopBody F m (withScanner
                { afterFirst s sK scX with scanner := fresh b, scannerDepth := sK.scannerDepth - 1 + 1 }
                Scan.scanToken))) := by
            rw [execute_eq, scanRun_succ]
            have est : startOf { afterFirst s sK scX with scanner := fresh b } =
                ({ afterFirst s sK scX with scanner := fresh b }, none) := by
              unfold startOf
              rw [if_neg]
              show ¬ sK.checkStart = true
              rw [hcs]; simp
            rw [est]
            dsimp only
            rw [scanLoop_succ]
            rfl
          rw [eab, eb]
          clear eab eb
          -- the first token of the second part
          have ft := firstToken b hw
          have hd : sK.scannerDepth - 1 + 1 = sK.scannerDepth := by omega
          have ewU : withScanner (extSt b 0 [] s.dsc sK) Scan.scanToken =
              (extSt [] scX.line scX.dsc s.dsc
                { afterFirst s sK scX with scanner := (Scan.scanToken (fresh b)).2,
                                           scannerDepth := sK.scannerDepth - 1 + 1 },
               (Scan.scanToken (fresh b)).1) := by
            unfold withScanner
            dsimp only [extSt]
            rw [ft]
            dsimp only [afterFirst]
            rw [hd]
          have ewT : withScanner
              { afterFirst s sK scX with scanner := fresh b, scannerDepth := sK.scannerDepth - 1 + 1 }
              Scan.scanToken =
              ({ afterFirst s sK scX with scanner := (Scan.scanToken (fresh b)).2,
                                          scannerDepth := sK.scannerDepth - 1 + 1 },
               (Scan.scanToken (fresh b)).1) := rfl
          -- the structured comments of the second call's interpreter
          have hqd : (loopBody F m (withScanner
              { afterFirst s sK scX with scanner := fresh b, scannerDepth := sK.scannerDepth - 1 + 1 }
              Scan.scanToken)).1.dsc = s.dsc ++ scX.dsc := by
            rw [← scanLoop_succ, scanLoop_dsc]
            rfl
          rw [ewU]
          rw [ewT] at hqd ⊢
          generalize ({ afterFirst s sK scX with scanner := (Scan.scanToken (fresh b)).2, scannerDepth := sK.scannerDepth - 1 + 1 } : State) = T1 at hqd ⊢
          generalize (Scan.scanToken (fresh b)).1 = rT at hqd ⊢
          have hb := frq_loopBody (allFr (b := []) (l := scX.line) (pre := scX.dsc) (dd := s.dsc) m F) T1 rT
            (Or.inr rfl) (fun hb => absurd rfl hb)
          rw [hb.2, finish_ext]
          generalize loopBody F m (T1, rT) = q at hqd ⊢
          unfold merged
          have hfd := finish_dsc q
          rw [hqd, List.append_assoc] at hfd
          rw [← hfd]
      · cases hc
    · cases hc

/-! ### the statement for two parts, and for any number of parts -/

/-- the run was not cut short by the model -/
def Good (r : Res) : Prop := r ≠ .fuel

instance (r : Res) : Decidable (Good r) := by unfold Good; infer_instance

theorem merged_good {scX : Scanner} {P : State × Res} (h : Good P.2) :
    Good (merged scX P).2 := h

/-- if the single call is not cut short by the model then neither is the second call (with
enough fuel) -/
theorem split_second_good {f m : Nat} {s sK : State} {a : List UInt8} {j : Nat}
    (hc : cleanRun f m s a = some (sK, j)) (b : List UInt8) (F1 : Nat)
    (g1 : Good (execute F1 m s (a ++ b) none).2) :
    Good (execute (F1 + f + 1 + 1) m (execute f m s a none).1 b none).2 := by
  obtain ⟨k, scX, hw, ha, hb⟩ := split_aligned hc
  rw [ha]
  have hj : j < f := by
    cases f with
    | zero => simp [cleanRun] at hc
    | succ f =>
      unfold cleanRun at hc
      dsimp only at hc
      split at hc
      · split at hc
        · have := (cleanLoop_short _ _ _ _ _ hc).2.1; omega
        · cases hc
      · cases hc
  have e := hb b (F1 + f) (by omega)
  have e1 := InterpFuel.execute_fuel_mono (f := F1) (f' := (F1 + f) + 1 + j + 1) (by omega) m s (a ++ b) none g1
  rw [e1] at e
  intro hfuel
  apply g1
  rw [e]
  exact hfuel

/-- the outcome `P1` of the single call against the outcome `P2` of the last of several calls:
same result; same interpreter state (including the interpreter's list of structured comments,
whatever the result) except that the scanner's line counter and list of structured comments
are those of the whole input (`l` more lines, `pre` in front) -/
def SplitRel (P1 P2 : State × Res) : Prop :=
  ∃ (l : Nat) (pre : List (String × String)),
    P1 = ({ P2.1 with scanner := ext [] l pre P2.1.scanner }, P2.2)

theorem ext_ext (l1 l2 : Nat) (p1 p2 : List (String × String)) (sc : Scanner) :
    ext [] l1 p1 (ext [] l2 p2 sc) = ext [] (l1 + l2) (p1 ++ p2) sc := by
  obtain ⟨src, fault, peek, reg, eexec, r, line, col, crSeen, dsc, err⟩ := sc
  simp [ext, Nat.add_assoc]

theorem SplitRel.trans {P1 P2 P3 : State × Res}
    (h1 : SplitRel P1 P2) (h2 : SplitRel P2 P3) : SplitRel P1 P3 := by
  obtain ⟨l1, p1, e1⟩ := h1
  obtain ⟨l2, p2, e2⟩ := h2
  refine ⟨l1 + l2, p1 ++ p2, ?_⟩
  rw [e1, e2]
  dsimp only
  rw [ext_ext]

/-- two-part form of the result -/
theorem split_two {f m : Nat} {s : State} {a : List UInt8} (hc : (cleanRun f m s a).isSome = true) :
    (execute f m s a none).2 = .ok ∧
    (execute f m s a none).1.dsc = s.dsc ++ (execute f m s a none).1.scanner.dsc ∧
    ∀ (b : List UInt8) (F1 F2 : Nat),
      Good (execute F1 m s (a ++ b) none).2 →
      Good (execute F2 m (execute f m s a none).1 b none).2 →
      execute F1 m s (a ++ b) none =
        ({ (execute F2 m (execute f m s a none).1 b none).1 with
            scanner := ext [] (execute f m s a none).1.scanner.line (execute f m s a none).1.scanner.dsc
              (execute F2 m (execute f m s a none).1 b none).1.scanner },
         (execute F2 m (execute f m s a none).1 b none).2) := by
  obtain ⟨⟨sK, j⟩, hc⟩ := Option.isSome_iff_exists.mp hc
  obtain ⟨k, scX, hw, ha, hb⟩ := split_aligned hc
  rw [ha]
  refine ⟨rfl, rfl, ?_⟩
  intro b F1 F2 g1 g2
  have e := hb b (F1 + F2 + f) (by omega)
  have e1 := InterpFuel.execute_fuel_mono (f := F1) (f' := (F1 + F2 + f) + 1 + j + 1) (by omega) m s (a ++ b) none g1
  have e2 := InterpFuel.execute_fuel_mono (f := F2) (f' := (F1 + F2 + f) + 1 + 1) (by omega) m
    (afterFirst s sK scX) b none g2
  rw [e1, e2] at e
  exact e

/-- … and the second call terminates in the model when the single call does -/
theorem split_two_good {f m : Nat} {s : State} {a : List UInt8} (hc : (cleanRun f m s a).isSome = true)
    (b : List UInt8) (F1 : Nat) (g1 : Good (execute F1 m s (a ++ b) none).2) :
    Good (execute (F1 + f + 1 + 1) m (execute f m s a none).1 b none).2 := by
  obtain ⟨⟨sK, j⟩, hc⟩ := Option.isSome_iff_exists.mp hc
  exact split_second_good hc b F1 g1

/-- feeding the parts one after the other: the state after the last of them -/
def endState (f m : Nat) : State → List (List UInt8) → State
  | s, [] => s
  | s, a :: rest => endState f m (execute f m s a none).1 rest

/-- every part ends cleanly at a token boundary when it is run after the parts before it -/
def ChainOK (f m : Nat) : State → List (List UInt8) → Prop
  | _, [] => True
  | s, a :: rest => (cleanRun f m s a).isSome = true ∧ ChainOK f m (execute f m s a none).1 rest

theorem split_many (f m : Nat) : ∀ (parts : List (List UInt8)) (s : State) (b : List UInt8),
    ChainOK f m s parts → ∀ F1 F2,
      Good (execute F1 m s (parts.flatten ++ b) none).2 →
      Good (execute F2 m (endState f m s parts) b none).2 →
      SplitRel (execute F1 m s (parts.flatten ++ b) none) (execute F2 m (endState f m s parts) b none) := by
  intro parts
  induction parts with
  | nil =>
    intro s b _ F1 F2 g1 g2
    simp only [List.flatten_nil, List.nil_append] at g1 ⊢
    unfold endState at g2 ⊢
    have e1 := InterpFuel.execute_fuel_mono (f := F1) (f' := F1 + F2) (by omega) m s b none g1
    have e2 := InterpFuel.execute_fuel_mono (f := F2) (f' := F1 + F2) (by omega) m s b none g2
    rw [← e1, e2]
    refine ⟨0, [], ?_⟩
    rw [ext_nil]
  | cons a rest ih =>
    intro s b hch F1 F2 g1 g2
    obtain ⟨hc, hrest⟩ := hch
    have e : (a :: rest).flatten ++ b = a ++ (rest.flatten ++ b) := by simp
    rw [e] at g1 ⊢
    unfold endState at g2 ⊢
    obtain ⟨_, _, h2⟩ := split_two hc
    have gF := split_two_good hc (rest.flatten ++ b) F1 g1
    have r1 : SplitRel (execute F1 m s (a ++ (rest.flatten ++ b)) none)
        (execute (F1 + f + 1 + 1) m (execute f m s a none).1 (rest.flatten ++ b) none) :=
      ⟨_, _, h2 (rest.flatten ++ b) F1 _ g1 gF⟩
    exact r1.trans (ih (execute f m s a none).1 b hrest _ F2 gF g2)

/-- … and the last call terminates in the model when the single call does -/
theorem split_many_good (f m : Nat) : ∀ (parts : List (List UInt8)) (s : State) (b : List UInt8),
    ChainOK f m s parts → ∀ F1, Good (execute F1 m s (parts.flatten ++ b) none).2 →
      ∃ F2, Good (execute F2 m (endState f m s parts) b none).2 := by
  intro parts
  induction parts with
  | nil =>
    intro s b _ F1 g1
    simp only [List.flatten_nil, List.nil_append] at g1
    exact ⟨F1, g1⟩
  | cons a rest ih =>
    intro s b hch F1 g1
    obtain ⟨hc, hrest⟩ := hch
    have e : (a :: rest).flatten ++ b = a ++ (rest.flatten ++ b) := by simp
    rw [e] at g1
    exact ih (execute f m s a none).1 b hrest _ (split_two_good hc (rest.flatten ++ b) F1 g1)

end PsVerif.Proofs.SplitExec

#print axioms PsVerif.Proofs.SplitExec.frw_scanToken
#print axioms PsVerif.Proofs.SplitExec.allFr
#print axioms PsVerif.Proofs.SplitExec.ws_noSF
#print axioms PsVerif.Proofs.SplitExec.split_aligned
#print axioms PsVerif.Proofs.SplitExec.split_two
#print axioms PsVerif.Proofs.SplitExec.split_many
#print axioms PsVerif.Proofs.SplitExec.split_many_good
