import PsVerif.Model.AFM
/-!
Proofs about the AFM model (`PsVerif.Model.AFM`), used by `PsVerif.Props.C15`:

* part 1: binary64 facts – the float made from an exactly representable integer decodes to that
  integer (`ofDyadic_rep`), re-encoding a float with non-negative exponent gives the float back
  (`K1`); `roundF` (the effect of `%.0f` and `ParseFloat`), `floorF`, `ceilF` are idempotent and
  `roundF` fixes floors and ceilings;
* part 2: text facts – lines, `strings.Fields` (tokens), `strings.Split`, decimal numbers,
  `parseFloat (fmt0 x) = ok (roundF x)`, `parseFloat (italicText x) = ok (roundI x)`;
* part 3: the reader run over the writer's output, line by line and section by section; the glyph
  map and the encoding are rebuilt (`insAll_rebuild`, `encAll_rebuild`); main result
  `readCore_write : WF m → readCore (write m) = ok (roundM m)` (glyph lines in any order:
  `readLines_inOrder`); the integral domain `Representable`;
* part 4: every value the reader returns satisfies `WF` (`readCore_WF`);
* part 5: `roundM` is idempotent and keeps `WF`;
* part 6: `\r\n` line ends; part 7: the reader only looks at the tokens of a line.
-/
namespace PsVerif.Proofs.AFM
open PsVerif.Base PsVerif.Base.SoftFloat PsVerif.Model
set_option linter.unusedVariables false
set_option linter.unusedSimpArgs false

theorem expField_eq (b : UInt64) : expField b = b.toNat / 2^52 % 2048 := by
  unfold expField
  rw [UInt64.toNat_and, UInt64.toNat_shiftRight]
  have : (0x7ff : UInt64).toNat = 2^11 - 1 := by decide
  rw [this, Nat.and_two_pow_sub_one_eq_mod, Nat.shiftRight_eq_div_pow]
  have : (52 : UInt64).toNat % 64 = 52 := by decide
  rw [this]

theorem fracField_eq (b : UInt64) : fracField b = b.toNat % 2^52 := by
  unfold fracField
  rw [UInt64.toNat_and]
  have : (0xfffffffffffff : UInt64).toNat = 2^52 - 1 := by decide
  rw [this, Nat.and_two_pow_sub_one_eq_mod]

theorem and_two_pow_eq (n i : Nat) : n &&& 2^i = if n.testBit i then 2^i else 0 := by
  apply Nat.eq_of_testBit_eq
  intro j
  rw [Nat.testBit_and, Nat.testBit_two_pow]
  by_cases h : i = j
  · subst h; cases hb : n.testBit i <;> simp
  · cases hb : n.testBit i <;> simp [h]

theorem u64_bne_zero (c : UInt64) : (c != 0) = decide (c.toNat ≠ 0) := by
  by_cases h : c = 0
  · subst h; decide
  · have h2 : c.toNat ≠ 0 := fun h' => h (UInt64.toNat_inj.mp (by rw [h']; decide))
    have h3 : (c != 0) = true := bne_iff_ne.mpr h
    rw [h3]; exact (decide_eq_true h2).symm

theorem signOf_eq (b : UInt64) : signOf b = decide (2^63 ≤ b.toNat) := by
  unfold signOf signBit
  have hlt : b.toNat < 2^64 := b.toNat_lt
  rw [u64_bne_zero, UInt64.toNat_and]
  have : (0x8000000000000000 : UInt64).toNat = 2^63 := by decide
  rw [this, and_two_pow_eq, Nat.testBit_eq_decide_div_mod_eq]
  by_cases h : 2^63 ≤ b.toNat
  · have h5 : b.toNat / 2^63 % 2 = 1 := by omega
    rw [decide_eq_true h5, decide_eq_true h]; decide
  · have h5 : ¬ b.toNat / 2^63 % 2 = 1 := by omega
    rw [decide_eq_false h5, decide_eq_false h]; decide

/-- the mantissa `roundPos` keeps for an exactly representable integer -/
def keep (M : Nat) : Nat := if M.log2 ≤ 52 then M * 2 ^ (52 - M.log2) else M / 2 ^ (M.log2 - 52)

theorem keep_bounds (M : Nat) (hM : M ≠ 0) (hrep : 52 < M.log2 → M % 2 ^ (M.log2 - 52) = 0) :
    2 ^ 52 ≤ keep M ∧ keep M < 2 ^ 53 := by
  have h1 : 2 ^ M.log2 ≤ M := Nat.log2_self_le hM
  have h2 : M < 2 ^ (M.log2 + 1) := Nat.lt_log2_self
  unfold keep
  split
  · rename_i hc
    have e1 : 2 ^ 52 = 2 ^ M.log2 * 2 ^ (52 - M.log2) := by rw [← Nat.pow_add]; congr 1; omega
    have e2 : 2 ^ 53 = 2 ^ (M.log2 + 1) * 2 ^ (52 - M.log2) := by rw [← Nat.pow_add]; congr 1; omega
    rw [e1, e2]
    exact ⟨Nat.mul_le_mul_right _ h1, Nat.mul_lt_mul_of_pos_right h2 (Nat.two_pow_pos _)⟩
  · rename_i hc
    have hp : 0 < 2 ^ (M.log2 - 52) := Nat.two_pow_pos _
    have e1 : 2 ^ M.log2 = 2 ^ 52 * 2 ^ (M.log2 - 52) := by rw [← Nat.pow_add]; congr 1; omega
    have e2 : 2 ^ (M.log2 + 1) = 2 ^ 53 * 2 ^ (M.log2 - 52) := by rw [← Nat.pow_add]; congr 1; omega
    constructor
    · rw [Nat.le_div_iff_mul_le hp, ← e1]; exact h1
    · rw [Nat.div_lt_iff_lt_mul hp, ← e2]; exact h2

theorem roundPos_exact (M : Nat) (hM : M ≠ 0) (hL : M.log2 ≤ 1023)
    (hrep : 52 < M.log2 → M % 2 ^ (M.log2 - 52) = 0) :
    (roundPos M 0 false).toNat = (M.log2 + 1022) * 2 ^ 52 + keep M := by
  have hk := keep_bounds M hM hrep
  unfold roundPos
  have h0 : (M == 0) = false := by simp [hM]
  have hE : ¬ ((0:Int) + (M.log2 : Int) < -1022) := by omega
  have hfin : ∀ q : Nat, q = keep M →
      (if (0 + (M.log2 : Int) + 1023 - 1) * 4503599627370496 + (q : Int) ≥ 9218868437227405312 then posInf
       else UInt64.ofNat ((0 + (M.log2 : Int) + 1023 - 1) * 4503599627370496 + (q : Int)).toNat).toNat
        = (M.log2 + 1022) * 2 ^ 52 + keep M := by
    intro q hq
    subst hq
    have hb : (0 + (M.log2 : Int) + 1023 - 1) * 4503599627370496 + (keep M : Int)
        = (((M.log2 + 1022) * 2 ^ 52 + keep M : Nat) : Int) := by
      omega
    rw [hb]
    have hlt : (M.log2 + 1022) * 2 ^ 52 + keep M < 9218868437227405312 := by omega
    have hng : ¬ ((((M.log2 + 1022) * 2 ^ 52 + keep M : Nat) : Int) ≥ 9218868437227405312) := by omega
    rw [if_neg hng, Int.toNat_natCast, UInt64.toNat_ofNat']
    apply Nat.mod_eq_of_lt
    omega
  by_cases hc : M.log2 ≤ 52
  · have hsh : ((0:Int) + (M.log2 : Int) - 52 - 0 ≤ 0) := by omega
    simp only [h0, hE, hsh, Bool.false_eq_true, if_false, if_true, Bool.false_and]
    apply hfin
    have : (-(0 + (M.log2 : Int) - 52 - 0)).toNat = 52 - M.log2 := by omega
    rw [this, Nat.shiftLeft_eq]
    unfold keep; rw [if_pos hc]
  · have hsh : ¬ ((0:Int) + (M.log2 : Int) - 52 - 0 ≤ 0) := by omega
    have hs : ((0:Int) + (M.log2 : Int) - 52 - 0).toNat = M.log2 - 52 := by omega
    have hr := hrep (by omega)
    have hp : 0 < 2 ^ (M.log2 - 52 - 1) := Nat.two_pow_pos _
    have hge : ¬ (0 ≥ 2 ^ (M.log2 - 52 - 1)) := by omega
    simp only [h0, hE, hsh, hs, hr, hge, Bool.false_eq_true, if_false, if_true, Bool.false_and, decide_false]
    apply hfin
    rw [Nat.shiftRight_eq_div_pow]
    unfold keep; rw [if_neg hc]

theorem withSign_toNat (s : Bool) (b : UInt64) (h : b.toNat < 2^63) :
    (withSign s b).toNat = (if s then 2^63 else 0) + b.toNat := by
  unfold withSign signBit
  cases s
  · simp
  · simp only [if_true]
    rw [UInt64.toNat_or]
    have : (0x8000000000000000 : UInt64).toNat = 2^63 * 1 := by decide
    rw [this, Nat.or_comm, ← Nat.two_pow_add_eq_or_of_lt h]

theorem withSign_fields (s : Bool) (b : UInt64) (h : b.toNat < 2^63) :
    expField (withSign s b) = expField b ∧ fracField (withSign s b) = fracField b ∧
    signOf (withSign s b) = s := by
  have ht := withSign_toNat s b h
  rw [expField_eq, expField_eq, fracField_eq, fracField_eq, signOf_eq, ht]
  cases s
  · refine ⟨by simp, by simp, ?_⟩
    simp only [Bool.false_eq_true, if_false, Nat.zero_add]
    exact decide_eq_false (by omega)
  · refine ⟨by simp only [if_true]; omega, by simp only [if_true]; omega, ?_⟩
    simp only [if_true]
    exact decide_eq_true (by omega)

/-- everything about the float made from an exactly representable integer -/
theorem ofDyadic_exact (s : Bool) (M : Nat) (hM : M ≠ 0) (hL : M.log2 ≤ 1023)
    (hrep : 52 < M.log2 → M % 2 ^ (M.log2 - 52) = 0) :
    decode (ofDyadic s M 0) = (keep M, (M.log2 : Int) - 52) ∧ isNaN (ofDyadic s M 0) = false ∧
    isInf (ofDyadic s M 0) = false ∧ signOf (ofDyadic s M 0) = s ∧
    (ofDyadic s M 0).toNat = (if s then 2^63 else 0) + (M.log2 + 1022) * 2 ^ 52 + keep M := by
  have hk := keep_bounds M hM hrep
  have hy := roundPos_exact M hM hL hrep
  have hlt : (roundPos M 0 false).toNat < 2^63 := by rw [hy]; omega
  obtain ⟨he, hf, hs⟩ := withSign_fields s _ hlt
  have hE : expField (ofDyadic s M 0) = M.log2 + 1023 := by
    unfold ofDyadic; rw [he, expField_eq, hy]; omega
  have hF : fracField (ofDyadic s M 0) = keep M - 2^52 := by
    unfold ofDyadic; rw [hf, fracField_eq, hy]; omega
  refine ⟨?_, ?_, ?_, hs, ?_⟩
  · unfold decode
    rw [hE, hF]
    have : (M.log2 + 1023 == 0) = false := by simp
    simp only [this, Bool.false_eq_true, if_false]
    have e1 : keep M - 2 ^ 52 + 4503599627370496 = keep M := by omega
    have e2 : ((M.log2 + 1023 : Nat) : Int) - 1075 = (M.log2 : Int) - 52 := by omega
    rw [e1, e2]
  · unfold isNaN; rw [hE]
    have : (M.log2 + 1023 == 2047) = false := by
      rw [beq_eq_false_iff_ne]; omega
    rw [this]; rfl
  · unfold isInf; rw [hE]
    have : (M.log2 + 1023 == 2047) = false := by
      rw [beq_eq_false_iff_ne]; omega
    rw [this]; rfl
  · unfold ofDyadic; rw [withSign_toNat s _ hlt, hy]; omega

open PsVerif.Model.AFM

theorem rint_keep (M : Nat) (hrep : 52 < M.log2 → M % 2 ^ (M.log2 - 52) = 0) :
    rintAbs (keep M) ((M.log2 : Int) - 52) = M ∧ truncAbs (keep M) ((M.log2 : Int) - 52) = (M, false) := by
  unfold rintAbs truncAbs keep
  dsimp only
  by_cases h1 : M.log2 < 52
  · have hc : M.log2 ≤ 52 := by omega
    have he : ¬ ((M.log2 : Int) - 52 ≥ 0) := by omega
    have hk : (-((M.log2 : Int) - 52)).toNat = 52 - M.log2 := by omega
    have hp : 0 < 2 ^ (52 - M.log2) := Nat.two_pow_pos _
    have hp' : 0 < 2 ^ (52 - M.log2 - 1) := Nat.two_pow_pos _
    have hq : M * 2 ^ (52 - M.log2) / 2 ^ (52 - M.log2) = M := Nat.mul_div_cancel _ hp
    have hr : M * 2 ^ (52 - M.log2) % 2 ^ (52 - M.log2) = 0 := Nat.mul_mod_left _ _
    rw [if_pos hc, if_neg he, if_neg he, hk, hq, hr]
    have hcond : (decide (0 > 2 ^ (52 - M.log2 - 1)) || (decide (0 = 2 ^ (52 - M.log2 - 1)) && decide (M % 2 = 1))) = false := by
      rw [decide_eq_false (by omega), decide_eq_false (by omega)]; rfl
    rw [hcond]
    simp
  · by_cases h2 : M.log2 = 52
    · have hc : M.log2 ≤ 52 := by omega
      have he : ((M.log2 : Int) - 52 ≥ 0) := by omega
      have hk : ((M.log2 : Int) - 52).toNat = 0 := by omega
      rw [if_pos hc, if_pos he, if_pos he, hk, h2]
      simp
    · have hc : ¬ M.log2 ≤ 52 := by omega
      have he : ((M.log2 : Int) - 52 ≥ 0) := by omega
      have hk : ((M.log2 : Int) - 52).toNat = M.log2 - 52 := by omega
      have hd : M / 2 ^ (M.log2 - 52) * 2 ^ (M.log2 - 52) = M :=
        Nat.div_mul_cancel (Nat.dvd_of_mod_eq_zero (hrep (by omega)))
      rw [if_neg hc, if_pos he, if_pos he, hk, hd]
      exact ⟨rfl, rfl⟩

def roundF (x : UInt64) : UInt64 :=
  if isNaN x then qNaN else if isInf x then x
  else ofDyadic (signOf x) (rintAbs (decode x).1 (decode x).2) 0

/-- an integer magnitude that `ofDyadic` represents exactly -/
def Rep (M : Nat) : Prop := M.log2 ≤ 1023 ∧ (52 < M.log2 → M % 2 ^ (M.log2 - 52) = 0)

theorem ofDyadic_zero (s : Bool) : ofDyadic s 0 0 = withSign s 0 := by
  unfold ofDyadic roundPos; rfl

theorem zero_facts (s : Bool) : decode (withSign s 0) = (0, -1074) ∧ isNaN (withSign s 0) = false ∧
    isInf (withSign s 0) = false ∧ signOf (withSign s 0) = s := by
  cases s <;> decide

/-- the facts needed about `ofDyadic s M 0` for representable `M`, zero included -/
theorem ofDyadic_rep (s : Bool) (M : Nat) (h : Rep M) :
    isNaN (ofDyadic s M 0) = false ∧ isInf (ofDyadic s M 0) = false ∧ signOf (ofDyadic s M 0) = s ∧
    rintAbs (decode (ofDyadic s M 0)).1 (decode (ofDyadic s M 0)).2 = M ∧
    truncAbs (decode (ofDyadic s M 0)).1 (decode (ofDyadic s M 0)).2 = (M, false) := by
  by_cases hM : M = 0
  · subst hM
    rw [ofDyadic_zero]
    obtain ⟨a, b, c, d⟩ := zero_facts s
    rw [a]
    refine ⟨b, c, d, ?_, ?_⟩
    · unfold rintAbs; simp
    · unfold truncAbs; simp
  · obtain ⟨a, b, c, d, _⟩ := ofDyadic_exact s M hM h.1 h.2
    rw [a]
    exact ⟨b, c, d, (rint_keep M h.2).1, (rint_keep M h.2).2⟩

theorem rep_small (M : Nat) (h : M < 2 ^ 53) : Rep M := by
  by_cases hM : M = 0
  · subst hM; exact ⟨by decide, by decide⟩
  · have : M.log2 < 53 := (Nat.log2_lt hM).mpr h
    exact ⟨by omega, fun h' => by omega⟩

theorem log2_mul_pow (m e : Nat) (h1 : 2 ^ 52 ≤ m) (h2 : m < 2 ^ 53) : (m * 2 ^ e).log2 = 52 + e := by
  have hp : 0 < 2 ^ e := Nat.two_pow_pos _
  have hne : m * 2 ^ e ≠ 0 := by
    have : 0 < m * 2 ^ e := Nat.mul_pos (by omega) hp
    omega
  rw [Nat.log2_eq_iff hne]
  constructor
  · rw [Nat.pow_add]; exact Nat.mul_le_mul_right _ h1
  · have : 2 ^ (52 + e + 1) = 2 ^ 53 * 2 ^ e := by rw [← Nat.pow_add]; congr 1; omega
    rw [this]; exact Nat.mul_lt_mul_of_pos_right h2 hp

theorem rep_mul_pow (m e : Nat) (h1 : 2 ^ 52 ≤ m) (h2 : m < 2 ^ 53) (he : e ≤ 971) : Rep (m * 2 ^ e) := by
  have hl := log2_mul_pow m e h1 h2
  refine ⟨by omega, fun _ => ?_⟩
  rw [hl]
  have : 52 + e - 52 = e := by omega
  rw [this]; exact Nat.mul_mod_left _ _

/-- shape of the decoded finite float -/
theorem decode_facts (x : UInt64) (hn : isNaN x = false) (hi : isInf x = false) :
    (decode x).1 < 2 ^ 53 ∧ (decode x).2 ≤ 971 ∧ ((decode x).2 ≥ 0 → 2 ^ 52 ≤ (decode x).1) ∧
    ((decode x).2 ≥ 0 → (decode x).1 = fracField x + 2 ^ 52 ∧ (decode x).2 = (expField x : Int) - 1075 ∧ expField x ≤ 2046) := by
  have hf : fracField x < 2 ^ 52 := by rw [fracField_eq]; exact Nat.mod_lt _ (by decide)
  have he : expField x < 2048 := by rw [expField_eq]; exact Nat.mod_lt _ (by decide)
  have hne : expField x ≠ 2047 := by
    intro h
    unfold isNaN at hn; unfold isInf at hi
    rw [h] at hn hi
    by_cases h0 : fracField x = 0
    · rw [h0] at hi; exact absurd hi (by decide)
    · have : (fracField x != 0) = true := bne_iff_ne.mpr h0
      rw [this] at hn; exact absurd hn (by decide)
  by_cases h0 : expField x = 0
  · have hd : decode x = (fracField x, -1074) := by
      unfold decode
      have : (expField x == 0) = true := by rw [h0]; rfl
      rw [this]; rfl
    rw [hd]; dsimp only
    refine ⟨by omega, by omega, fun h => absurd h (by omega), fun h => absurd h (by omega)⟩
  · have hd : decode x = (fracField x + 4503599627370496, (expField x : Int) - 1075) := by
      unfold decode
      have : (expField x == 0) = false := beq_eq_false_iff_ne.mpr h0
      rw [this]; rfl
    rw [hd]; dsimp only
    refine ⟨by omega, by omega, fun _ => by omega, fun _ => ⟨by omega, rfl, by omega⟩⟩

theorem rintAbs_neg_lt (m : Nat) (e : Int) (hm : m < 2 ^ 53) (he : ¬ e ≥ 0) : rintAbs m e < 2 ^ 53 := by
  unfold rintAbs
  rw [if_neg he]
  dsimp only
  have hk : 1 ≤ (-e).toNat := by omega
  have : 2 ^ 1 ≤ 2 ^ (-e).toNat := Nat.pow_le_pow_right (by decide) hk
  have hq : m / 2 ^ (-e).toNat ≤ m / 2 := by
    apply Nat.div_le_div_left (by omega) (by decide)
  split <;> omega

theorem truncAbs_neg_lt (m : Nat) (e : Int) (hm : m < 2 ^ 53) (he : ¬ e ≥ 0) :
    (truncAbs m e).1 + 1 < 2 ^ 53 := by
  unfold truncAbs
  rw [if_neg he]
  dsimp only
  have hk : 1 ≤ (-e).toNat := by omega
  have : 2 ^ 1 ≤ 2 ^ (-e).toNat := Nat.pow_le_pow_right (by decide) hk
  have hq : m / 2 ^ (-e).toNat ≤ m / 2 := by
    apply Nat.div_le_div_left (by omega) (by decide)
  omega

/-- the rounded magnitude of a finite float is exactly representable -/
theorem rep_rint (x : UInt64) (hn : isNaN x = false) (hi : isInf x = false) :
    Rep (rintAbs (decode x).1 (decode x).2) := by
  obtain ⟨h1, h2, h3, _⟩ := decode_facts x hn hi
  by_cases he : (decode x).2 ≥ 0
  · unfold rintAbs; rw [if_pos he]
    exact rep_mul_pow _ _ (h3 he) h1 (by omega)
  · exact rep_small _ (rintAbs_neg_lt _ _ h1 he)

theorem K1 (x : UInt64) (hn : isNaN x = false) (hi : isInf x = false) (he : (decode x).2 ≥ 0) :
    ofDyadic (signOf x) ((decode x).1 * 2 ^ (decode x).2.toNat) 0 = x := by
  obtain ⟨h1, h2, h3, h4⟩ := decode_facts x hn hi
  obtain ⟨hm, hee, hx⟩ := h4 he
  have hm52 := h3 he
  have hl := log2_mul_pow (decode x).1 (decode x).2.toNat hm52 h1
  have hrep := rep_mul_pow (decode x).1 (decode x).2.toNat hm52 h1 (by omega)
  have hp : 0 < 2 ^ (decode x).2.toNat := Nat.two_pow_pos _
  have hne : (decode x).1 * 2 ^ (decode x).2.toNat ≠ 0 := by
    have : 0 < (decode x).1 * 2 ^ (decode x).2.toNat := Nat.mul_pos (by omega) hp
    omega
  obtain ⟨_, _, _, _, ht⟩ := ofDyadic_exact (signOf x) _ hne hrep.1 hrep.2
  apply UInt64.toNat_inj.mp
  rw [ht, hl]
  have hkeep : keep ((decode x).1 * 2 ^ (decode x).2.toNat) = (decode x).1 := by
    unfold keep
    rw [hl]
    by_cases h0 : (decode x).2.toNat = 0
    · rw [h0]; simp
    · have : ¬ (52 + (decode x).2.toNat ≤ 52) := by omega
      rw [if_neg this]
      have : 52 + (decode x).2.toNat - 52 = (decode x).2.toNat := by omega
      rw [this]; exact Nat.mul_div_cancel _ hp
  rw [hkeep, hm, signOf_eq]
  have hlt : x.toNat < 2 ^ 64 := x.toNat_lt
  have hE := expField_eq x
  have hF := fracField_eq x
  have hexp : (decode x).2.toNat = expField x - 1075 := by omega
  rw [hexp]
  by_cases hs : 2 ^ 63 ≤ x.toNat
  · rw [decide_eq_true hs]; simp only [if_true]; omega
  · rw [decide_eq_false hs]; simp only [Bool.false_eq_true, if_false]; omega

theorem rintAbs_nonneg (m : Nat) (e : Int) (he : e ≥ 0) : rintAbs m e = m * 2 ^ e.toNat := by
  unfold rintAbs; rw [if_pos he]

theorem isNaN_qNaN : isNaN qNaN = true := by decide

/-- the finite case of `roundF` -/
theorem roundF_fin (x : UInt64) (hn : isNaN x = false) (hi : isInf x = false) :
    roundF x = ofDyadic (signOf x) (rintAbs (decode x).1 (decode x).2) 0 := by
  unfold roundF; rw [hn, hi]; rfl

theorem roundF_props (x : UInt64) (hn : isNaN x = false) (hi : isInf x = false) :
    isNaN (roundF x) = false ∧ isInf (roundF x) = false ∧ signOf (roundF x) = signOf x ∧
    rintAbs (decode (roundF x)).1 (decode (roundF x)).2 = rintAbs (decode x).1 (decode x).2 := by
  rw [roundF_fin x hn hi]
  obtain ⟨a, b, c, d, _⟩ := ofDyadic_rep (signOf x) _ (rep_rint x hn hi)
  exact ⟨a, b, c, d⟩

/-- second cycle for `%.0f` fields -/
theorem fmt0_roundF (x : UInt64) : fmt0 (roundF x) = fmt0 x := by
  by_cases hn : isNaN x = true
  · have : roundF x = qNaN := by unfold roundF; rw [hn]; rfl
    rw [this]; unfold fmt0; rw [hn, isNaN_qNaN]; simp only [if_true]
  · have hn' : isNaN x = false := by simpa using hn
    by_cases hi : isInf x = true
    · have : roundF x = x := by unfold roundF; rw [hn', hi]; rfl
      rw [this]
    · have hi' : isInf x = false := by simpa using hi
      obtain ⟨a, b, c, d⟩ := roundF_props x hn' hi'
      unfold fmt0
      rw [a, b, c, hn', hi']
      dsimp only
      rw [d]

theorem roundF_roundF (x : UInt64) : roundF (roundF x) = roundF x := by
  by_cases hn : isNaN x = true
  · have : roundF x = qNaN := by unfold roundF; rw [hn]; rfl
    rw [this]; unfold roundF; rw [isNaN_qNaN]; rfl
  · have hn' : isNaN x = false := by simpa using hn
    by_cases hi : isInf x = true
    · have : roundF x = x := by unfold roundF; rw [hn', hi]; rfl
      rw [this, this]
    · have hi' : isInf x = false := by simpa using hi
      obtain ⟨a, b, c, d⟩ := roundF_props x hn' hi'
      rw [roundF_fin _ a b, c, d, ← roundF_fin x hn' hi']

/-- a float with non-negative exponent is an integer already -/
theorem roundF_of_exp_nonneg (x : UInt64) (hn : isNaN x = false) (hi : isInf x = false)
    (he : (decode x).2 ≥ 0) : roundF x = x := by
  rw [roundF_fin x hn hi, rintAbs_nonneg _ _ he]; exact K1 x hn hi he

/-- `roundF` fixes the float of a representable integer -/
theorem roundF_ofDyadic (s : Bool) (M : Nat) (h : Rep M) : roundF (ofDyadic s M 0) = ofDyadic s M 0 := by
  obtain ⟨a, b, c, d, _⟩ := ofDyadic_rep s M h
  rw [roundF_fin _ a b, c, d]

theorem floorF_ofDyadic (s : Bool) (M : Nat) (h : Rep M) : floorF (ofDyadic s M 0) = ofDyadic s M 0 := by
  obtain ⟨a, b, c, d, e⟩ := ofDyadic_rep s M h
  unfold floorF
  rw [a, b]
  simp only [Bool.false_eq_true, if_false]
  split
  · rfl
  · rw [e, c]; simp

theorem ceilF_ofDyadic (s : Bool) (M : Nat) (h : Rep M) : ceilF (ofDyadic s M 0) = ofDyadic s M 0 := by
  obtain ⟨a, b, c, d, e⟩ := ofDyadic_rep s M h
  unfold ceilF
  rw [a, b]
  simp only [Bool.false_eq_true, if_false]
  split
  · rfl
  · rw [e, c]; simp

/-- `floorF x` is `x` itself, the NaN, or the float of a representable integer -/
theorem floorF_cases (x : UInt64) :
    floorF x = qNaN ∨ (floorF x = x ∧ isNaN x = false ∧ (isInf x = true ∨ (decode x).2 ≥ 0)) ∨
    ∃ s M, Rep M ∧ floorF x = ofDyadic s M 0 := by
  unfold floorF
  by_cases hn : isNaN x = true
  · left; rw [hn]; rfl
  · have hn' : isNaN x = false := by simpa using hn
    rw [hn']
    by_cases hi : isInf x = true
    · right; left; rw [hi]; exact ⟨by first | rfl | trivial, by first | rfl | trivial, Or.inl (by first | rfl | trivial)⟩
    · have hi' : isInf x = false := by simpa using hi
      rw [hi']
      simp only [Bool.false_eq_true, if_false]
      by_cases he : (decode x).2 ≥ 0
      · right; left; rw [if_pos he]; exact ⟨by first | rfl | trivial, by first | rfl | trivial, Or.inr he⟩
      · right; right; rw [if_neg he]
        have hlt := truncAbs_neg_lt _ _ (decode_facts x hn' hi').1 he
        refine ⟨signOf x, _, rep_small _ ?_, rfl⟩
        split <;> omega

theorem ceilF_cases (x : UInt64) :
    ceilF x = qNaN ∨ (ceilF x = x ∧ isNaN x = false ∧ (isInf x = true ∨ (decode x).2 ≥ 0)) ∨
    ∃ s M, Rep M ∧ ceilF x = ofDyadic s M 0 := by
  unfold ceilF
  by_cases hn : isNaN x = true
  · left; rw [hn]; rfl
  · have hn' : isNaN x = false := by simpa using hn
    rw [hn']
    by_cases hi : isInf x = true
    · right; left; rw [hi]; exact ⟨by first | rfl | trivial, by first | rfl | trivial, Or.inl (by first | rfl | trivial)⟩
    · have hi' : isInf x = false := by simpa using hi
      rw [hi']
      simp only [Bool.false_eq_true, if_false]
      by_cases he : (decode x).2 ≥ 0
      · right; left; rw [if_pos he]; exact ⟨by first | rfl | trivial, by first | rfl | trivial, Or.inr he⟩
      · right; right; rw [if_neg he]
        have hlt := truncAbs_neg_lt _ _ (decode_facts x hn' hi').1 he
        refine ⟨signOf x, _, rep_small _ ?_, rfl⟩
        split <;> omega

theorem roundF_qNaN : roundF qNaN = qNaN := by unfold roundF; rw [isNaN_qNaN]; rfl
theorem floorF_qNaN : floorF qNaN = qNaN := by unfold floorF; rw [isNaN_qNaN]; rfl
theorem ceilF_qNaN : ceilF qNaN = qNaN := by unfold ceilF; rw [isNaN_qNaN]; rfl

theorem roundF_fix_of (x : UInt64) (hn : isNaN x = false) (h : isInf x = true ∨ (decode x).2 ≥ 0) :
    roundF x = x := by
  by_cases hi : isInf x = true
  · unfold roundF; rw [hn, hi]; rfl
  · have hi' : isInf x = false := by simpa using hi
    cases h with
    | inl h => exact absurd h hi
    | inr h => exact roundF_of_exp_nonneg x hn hi' h

/-- what is read back for a box coordinate is the floor itself -/
theorem roundF_floorF (x : UInt64) : roundF (floorF x) = floorF x := by
  rcases floorF_cases x with h | ⟨h, hn, hc⟩ | ⟨s, M, hr, h⟩
  · rw [h, roundF_qNaN]
  · rw [h]; exact roundF_fix_of x hn hc
  · rw [h]; exact roundF_ofDyadic s M hr

theorem roundF_ceilF (x : UInt64) : roundF (ceilF x) = ceilF x := by
  rcases ceilF_cases x with h | ⟨h, hn, hc⟩ | ⟨s, M, hr, h⟩
  · rw [h, roundF_qNaN]
  · rw [h]; exact roundF_fix_of x hn hc
  · rw [h]; exact roundF_ofDyadic s M hr

theorem floorF_floorF (x : UInt64) : floorF (floorF x) = floorF x := by
  rcases floorF_cases x with h | ⟨h, hn, hc⟩ | ⟨s, M, hr, h⟩
  · rw [h, floorF_qNaN]
  · rw [h, h]
  · rw [h]; exact floorF_ofDyadic s M hr

theorem ceilF_ceilF (x : UInt64) : ceilF (ceilF x) = ceilF x := by
  rcases ceilF_cases x with h | ⟨h, hn, hc⟩ | ⟨s, M, hr, h⟩
  · rw [h, ceilF_qNaN]
  · rw [h, h]
  · rw [h]; exact ceilF_ofDyadic s M hr

/-! ### integers -/

theorem ofInt_eq (n : Int) : ofInt n = ofDyadic (decide (n < 0)) n.natAbs 0 := rfl

theorem roundF_ofInt (n : Int) (h : n.natAbs < 2 ^ 53) : roundF (ofInt n) = ofInt n :=
  roundF_ofDyadic _ _ (rep_small _ h)
theorem floorF_ofInt (n : Int) (h : n.natAbs < 2 ^ 53) : floorF (ofInt n) = ofInt n :=
  floorF_ofDyadic _ _ (rep_small _ h)
theorem ceilF_ofInt (n : Int) (h : n.natAbs < 2 ^ 53) : ceilF (ofInt n) = ofInt n :=
  ceilF_ofDyadic _ _ (rep_small _ h)

/-- `%.0f` of the float of an integer prints the integer -/
theorem fmt0_ofInt (n : Int) (h : n.natAbs < 2 ^ 53) : fmt0 (ofInt n) = decInt n := by
  obtain ⟨a, b, c, d, _⟩ := ofDyadic_rep (decide (n < 0)) n.natAbs (rep_small _ h)
  unfold fmt0 decInt
  rw [ofInt_eq, a, b, c]
  dsimp only
  rw [d]
  by_cases hneg : n < 0
  · simp [hneg]
  · simp [hneg]

/-! ## part 2: text facts -/

/-! ### lines -/

theorem scanLines_lf (bs : Bytes) : scanLines (10 :: bs) = [] :: scanLines bs := by
  cases bs with
  | nil => simp [scanLines]
  | cons c cs => rw [scanLines]; simp

theorem scanLines_crlf (bs : Bytes) : scanLines (13 :: 10 :: bs) = [] :: scanLines bs := by
  rw [scanLines]; simp

theorem scanLines_cr (bs : Bytes) (h : bs.head? ≠ some 10) : scanLines (13 :: bs) = [] :: scanLines bs := by
  cases bs with
  | nil => simp [scanLines]
  | cons c cs =>
    have hc : c ≠ 10 := by intro e; apply h; simp [e]
    rw [scanLines]; simp [hc]

theorem scanLines_plain (b : Nat) (bs : Bytes) (h10 : b ≠ 10) (h13 : b ≠ 13) :
    scanLines (b :: bs) = match scanLines bs with
      | [] => [[b]]
      | l :: ls => (b :: l) :: ls := by
  cases bs with
  | nil => simp [scanLines, h10, h13]
  | cons c cs => rw [scanLines, if_neg h10, if_neg h13]; cases scanLines (c :: cs) <;> rfl

/-- the three line ends -/
def IsTerm (t : Bytes) : Prop := t = [10] ∨ t = [13, 10] ∨ t = [13]

/-- a line without line-end bytes, a line end and the rest: the line is split off; after a bare
`\r` the rest must not start with `\n` (the two would be one `\r\n`) -/
theorem scanLines_line (l t rest : Bytes) (hl : 10 ∉ l ∧ 13 ∉ l) (ht : IsTerm t)
    (hr : t = [13] → rest.head? ≠ some 10) : scanLines (l ++ t ++ rest) = l :: scanLines rest := by
  induction l with
  | nil =>
    rcases ht with rfl | rfl | rfl
    · exact scanLines_lf rest
    · exact scanLines_crlf rest
    · exact scanLines_cr rest (hr rfl)
  | cons b bs ih =>
    have hb10 : b ≠ 10 := fun e => hl.1 (by simp [e])
    have hb13 : b ≠ 13 := fun e => hl.2 (by simp [e])
    have hbs : 10 ∉ bs ∧ 13 ∉ bs := ⟨fun e => hl.1 (by simp [e]), fun e => hl.2 (by simp [e])⟩
    simp only [List.cons_append]
    rw [scanLines_plain b _ hb10 hb13, ih hbs]

theorem scanLines_unlines (ls : List Bytes) (h : ∀ l ∈ ls, 10 ∉ l ∧ 13 ∉ l) : scanLines (unlines ls) = ls := by
  induction ls with
  | nil => rfl
  | cons l ls ih =>
    have := scanLines_line l [10] (unlines ls) (h l (by simp)) (Or.inl rfl) (fun e => absurd e (by decide))
    simp only [List.append_assoc, List.singleton_append] at this
    rw [unlines, this, ih (fun l' hl' => h l' (by simp [hl']))]

/-! ### fields -/

theorem isPrefixOf_append_sep (p s rest : Bytes) (c : Nat) (hc : c ∉ p) (hp : p ≠ []) :
    p.isPrefixOf (s ++ c :: rest) = p.isPrefixOf s := by
  induction p generalizing s with
  | nil => exact absurd rfl hp
  | cons a as ih =>
    have hca : (a == c) = false := by
      rw [beq_eq_false_iff_ne]; intro e; exact hc (by simp [e])
    cases s with
    | nil => simp [List.isPrefixOf, hca]
    | cons b bs =>
      simp only [List.cons_append, List.isPrefixOf]
      cases as with
      | nil => simp [List.isPrefixOf]
      | cons a' as' =>
        rw [ih bs (fun e => hc (by simp [List.mem_cons] at e ⊢; right; exact e)) (by simp)]

theorem find?_congr' {α : Type} (l : List α) (f g : α → Bool) (h : ∀ a ∈ l, f a = g a) :
    l.find? f = l.find? g := by
  induction l with
  | nil => rfl
  | cons a as ih =>
    simp only [List.find?, h a (by simp)]
    rw [ih (fun b hb => h b (by simp [hb]))]

theorem mbSpaces_no32 : ∀ p ∈ mbSpaces, 32 ∉ p ∧ p ≠ [] := by decide

theorem mbLen_append (s rest : Bytes) : mbLen (s ++ 32 :: rest) = mbLen s := by
  unfold mbLen
  rw [find?_congr' mbSpaces _ (fun p => p.isPrefixOf s)
    (fun p hp => isPrefixOf_append_sep p s rest 32 (mbSpaces_no32 p hp).1 (mbSpaces_no32 p hp).2)]

theorem spaceLen_append (s rest : Bytes) (hs : s ≠ []) : spaceLen (s ++ 32 :: rest) = spaceLen s := by
  cases s with
  | nil => exact absurd rfl hs
  | cons b bs =>
    show spaceLen (b :: (bs ++ 32 :: rest)) = spaceLen (b :: bs)
    unfold spaceLen
    have := mbLen_append (b :: bs) rest
    simp only [List.cons_append] at this
    rw [this]

/-- no white-space rune starts anywhere in the text -/
def tokOK : Bytes → Bool
  | [] => true
  | b :: bs => spaceLen (b :: bs) == 0 && tokOK bs

/-- a non-empty text that `strings.Fields` keeps as one field -/
def isTok (t : Bytes) : Bool := !t.isEmpty && tokOK t

theorem fieldsGo_tok_sp (t rest cur : Bytes) (h : tokOK t = true) :
    fieldsGo (t ++ 32 :: rest) 0 cur = flush (t.reverse ++ cur) ++ fieldsGo rest 0 [] := by
  induction t generalizing cur with
  | nil =>
    simp only [List.nil_append, List.reverse_nil]
    rw [fieldsGo]
    have : spaceLen (32 :: rest) = 1 := by simp [spaceLen, isAsciiSpace]
    rw [this]
  | cons b bs ih =>
    simp only [tokOK, Bool.and_eq_true, beq_iff_eq] at h
    have h1 : spaceLen ((b :: bs) ++ 32 :: rest) = 0 := by
      rw [spaceLen_append _ _ (by simp)]; exact h.1
    simp only [List.cons_append] at h1 ⊢
    rw [fieldsGo, h1]
    simp only
    rw [ih _ h.2]
    simp

theorem fieldsGo_tok_end (t cur : Bytes) (h : tokOK t = true) :
    fieldsGo t 0 cur = flush (t.reverse ++ cur) := by
  induction t generalizing cur with
  | nil => simp [fieldsGo]
  | cons b bs ih =>
    simp only [tokOK, Bool.and_eq_true, beq_iff_eq] at h
    rw [fieldsGo, h.1]
    simp only
    rw [ih _ h.2]
    simp

theorem fields_nil : fields [] = [] := by simp [fields, fieldsGo, flush]

theorem fields_sp (l : Bytes) : fields (32 :: l) = fields l := by
  unfold fields
  rw [fieldsGo]
  have : spaceLen (32 :: l) = 1 := by simp [spaceLen, isAsciiSpace]
  rw [this]
  simp [flush]

theorem isTok_ne (t : Bytes) (h : isTok t = true) : t ≠ [] := by
  intro e; subst e; simp [isTok] at h

theorem isTok_tokOK (t : Bytes) (h : isTok t = true) : tokOK t = true := by
  simp [isTok] at h; exact h.2

theorem fields_tok_sp (t rest : Bytes) (h : isTok t = true) : fields (t ++ 32 :: rest) = t :: fields rest := by
  unfold fields
  rw [fieldsGo_tok_sp t rest [] (isTok_tokOK t h)]
  have := isTok_ne t h
  simp [flush, this]

theorem fields_tok (t : Bytes) (h : isTok t = true) : fields t = [t] := by
  unfold fields
  rw [fieldsGo_tok_end t [] (isTok_tokOK t h)]
  have := isTok_ne t h
  simp [flush, this]

theorem fields_joinSp (ws : List Bytes) (h : ∀ w ∈ ws, isTok w = true) : fields (joinSp ws) = ws := by
  induction ws with
  | nil => exact fields_nil
  | cons a as ih =>
    cases as with
    | nil => exact fields_tok a (h a (by simp))
    | cons b bs =>
      rw [joinSp, fields_tok_sp a _ (h a (by simp)), ih (fun w hw => h w (by simp [hw]))]

/-! ### every field that `strings.Fields` delivers is a single token -/

theorem isPrefixOf_append_right (p s l : Bytes) (h : p.isPrefixOf s = true) : p.isPrefixOf (s ++ l) = true := by
  induction p generalizing s with
  | nil => simp [List.isPrefixOf]
  | cons a as ih =>
    cases s with
    | nil => simp [List.isPrefixOf] at h
    | cons b bs =>
      simp only [List.cons_append, List.isPrefixOf, Bool.and_eq_true] at h ⊢
      exact ⟨h.1, ih bs h.2⟩

theorem mbSpaces_len : ∀ p ∈ mbSpaces, p.length ≠ 0 := by decide

theorem mbLen_eq_zero_iff (x : Bytes) : mbLen x = 0 ↔ ∀ p ∈ mbSpaces, p.isPrefixOf x = false := by
  unfold mbLen
  constructor
  · intro h p hp
    cases hf : mbSpaces.find? (fun p => p.isPrefixOf x) with
    | none =>
      rw [List.find?_eq_none] at hf
      have h2 := hf p hp
      exact Bool.eq_false_iff.mpr h2
    | some q =>
      rw [hf] at h
      exact absurd h (mbSpaces_len q (List.mem_of_find?_eq_some hf))
  · intro h
    have : mbSpaces.find? (fun p => p.isPrefixOf x) = none := by
      rw [List.find?_eq_none]; intro p hp; simp [h p hp]
    rw [this]

theorem spaceLen_mono (s l : Bytes) (hs : s ≠ []) (h : spaceLen (s ++ l) = 0) : spaceLen s = 0 := by
  cases s with
  | nil => exact absurd rfl hs
  | cons c cs =>
    simp only [List.cons_append] at h
    unfold spaceLen at h ⊢
    by_cases ha : isAsciiSpace c = true
    · simp [ha] at h
    · simp only [ha, Bool.false_eq_true, if_false] at h ⊢
      rw [mbLen_eq_zero_iff] at h ⊢
      intro p hp
      have := h p hp
      cases hq : p.isPrefixOf (c :: cs) with
      | false => rfl
      | true =>
        have := isPrefixOf_append_right p (c :: cs) l hq
        simp_all

theorem tokOK_of_suffixes (t : Bytes) (h : ∀ s, s ≠ [] → s <:+ t → spaceLen s = 0) : tokOK t = true := by
  induction t with
  | nil => rfl
  | cons b bs ih =>
    simp only [tokOK, Bool.and_eq_true, beq_iff_eq]
    refine ⟨h _ (by simp) (List.suffix_refl _), ih (fun s hs hsuf => h s hs ?_)⟩
    exact List.IsSuffix.trans hsuf (List.suffix_cons _ _)

theorem suffixes_of_tokOK (t : Bytes) (h : tokOK t = true) : ∀ s, s ≠ [] → s <:+ t → spaceLen s = 0 := by
  induction t with
  | nil => intro s hs hsuf; exact absurd (List.suffix_nil.mp hsuf) hs
  | cons b bs ih =>
    simp only [tokOK, Bool.and_eq_true, beq_iff_eq] at h
    intro s hs hsuf
    rcases List.suffix_cons_iff.mp hsuf with e | hsuf'
    · rw [e]; exact h.1
    · exact ih h.2 s hs hsuf'

/-- the invariant of the scanner: no white space starts inside the current field, seen in context -/
def FInv (cur l : Bytes) : Prop := ∀ p, p ≠ [] → p <+: cur → spaceLen (p.reverse ++ l) = 0

theorem tokOK_of_FInv (cur l : Bytes) (h : FInv cur l) : tokOK cur.reverse = true := by
  apply tokOK_of_suffixes
  intro s hs hsuf
  have hp : s.reverse <+: cur := by
    have := List.reverse_prefix.mpr hsuf
    simpa using this
  have := h s.reverse (by simpa using hs) hp
  simp only [List.reverse_reverse] at this
  exact spaceLen_mono s l hs this

theorem flush_isTok (cur l : Bytes) (h : FInv cur l) : ∀ t ∈ flush cur, isTok t = true := by
  intro t ht
  unfold flush at ht
  by_cases hc : cur = []
  · simp [hc] at ht
  · simp only [hc, if_false, List.mem_singleton] at ht
    subst ht
    simp [isTok, hc, tokOK_of_FInv cur l h]

theorem fieldsGo_isTok (l : Bytes) : ∀ (skip : Nat) (cur : Bytes), (skip = 0 ∨ cur = []) → FInv cur l →
    ∀ t ∈ fieldsGo l skip cur, isTok t = true := by
  induction l with
  | nil =>
    intro skip cur _ hinv t ht
    rw [fieldsGo] at ht
    exact flush_isTok cur [] hinv t ht
  | cons b bs ih =>
    intro skip cur hsc hinv t ht
    cases skip with
    | succ k =>
      have hc : cur = [] := by rcases hsc with h | h; exact absurd h (by simp); exact h
      subst hc
      rw [fieldsGo] at ht
      exact ih k [] (Or.inr rfl) (fun p hp hpre => absurd (List.prefix_nil.mp hpre) hp) t ht
    | zero =>
      rw [fieldsGo] at ht
      cases hn : spaceLen (b :: bs) with
      | zero =>
        rw [hn] at ht
        simp only at ht
        refine ih 0 (b :: cur) (Or.inl rfl) ?_ t ht
        intro p hp hpre
        rcases List.prefix_cons_iff.mp hpre with e | ⟨p', e, hp'⟩
        · exact absurd e hp
        · subst e
          simp only [List.reverse_cons, List.append_assoc, List.singleton_append]
          by_cases hp0 : p' = []
          · subst hp0; simpa using hn
          · exact hinv p' hp0 hp'
      | succ n =>
        rw [hn] at ht
        simp only [List.mem_append] at ht
        rcases ht with ht | ht
        · exact flush_isTok cur (b :: bs) hinv t ht
        · exact ih n [] (Or.inr rfl) (fun p hp hpre => absurd (List.prefix_nil.mp hpre) hp) t ht

theorem fields_isTok (l : Bytes) : ∀ t ∈ fields l, isTok t = true :=
  fieldsGo_isTok l 0 [] (Or.inl rfl) (fun p hp hpre => absurd (List.prefix_nil.mp hpre) hp)

theorem fieldsGo_sub (l : Bytes) : ∀ (skip : Nat) (cur : Bytes),
    ∀ t ∈ fieldsGo l skip cur, ∀ b ∈ t, b ∈ l ∨ b ∈ cur := by
  induction l with
  | nil =>
    intro skip cur t ht b hb
    rw [fieldsGo] at ht
    unfold flush at ht
    by_cases hc : cur = []
    · simp [hc] at ht
    · simp only [hc, if_false, List.mem_singleton] at ht
      subst ht; right; simpa using hb
  | cons c cs ih =>
    intro skip cur t ht b hb
    cases skip with
    | succ k =>
      rw [fieldsGo] at ht
      rcases ih k cur t ht b hb with h | h
      · left; simp [h]
      · right; exact h
    | zero =>
      rw [fieldsGo] at ht
      cases hn : spaceLen (c :: cs) with
      | zero =>
        rw [hn] at ht
        simp only at ht
        rcases ih 0 (c :: cur) t ht b hb with h | h
        · left; simp [h]
        · simp only [List.mem_cons] at h
          rcases h with h | h
          · left; simp [h]
          · right; exact h
      | succ n =>
        rw [hn] at ht
        simp only [List.mem_append] at ht
        rcases ht with ht | ht
        · unfold flush at ht
          by_cases hc : cur = []
          · simp [hc] at ht
          · simp only [hc, if_false, List.mem_singleton] at ht
            subst ht; right; simpa using hb
        · rcases ih n [] t ht b hb with h | h
          · left; simp [h]
          · simp at h

theorem fields_sub (l : Bytes) : ∀ t ∈ fields l, ∀ b ∈ t, b ∈ l := by
  intro t ht b hb
  rcases fieldsGo_sub l 0 [] t ht b hb with h | h
  · exact h
  · simp at h

/-! ### plain bytes: ASCII and not white space -/

def plain (b : Nat) : Bool := decide (b < 128) && !isAsciiSpace b

theorem mbSpaces_head : ∀ p ∈ mbSpaces, (match p with | a :: _ => decide (128 ≤ a) | [] => false) = true := by
  decide

theorem spaceLen_plain (b : Nat) (bs : Bytes) (h : plain b = true) : spaceLen (b :: bs) = 0 := by
  simp only [plain, Bool.and_eq_true, decide_eq_true_eq, Bool.not_eq_true'] at h
  unfold spaceLen
  simp only [h.2, Bool.false_eq_true, if_false]
  rw [mbLen_eq_zero_iff]
  intro p hp
  have := mbSpaces_head p hp
  cases p with
  | nil => simp at this
  | cons a as =>
    simp only [decide_eq_true_eq] at this
    simp only [List.isPrefixOf, Bool.and_eq_false_imp, beq_iff_eq]
    intro e; omega

theorem tokOK_of_plain (t : Bytes) (h : ∀ b ∈ t, plain b = true) : tokOK t = true := by
  induction t with
  | nil => rfl
  | cons b bs ih =>
    simp only [tokOK, Bool.and_eq_true, beq_iff_eq]
    exact ⟨spaceLen_plain b bs (h b (by simp)), ih (fun c hc => h c (by simp [hc]))⟩

theorem isTok_of_plain (t : Bytes) (hne : t ≠ []) (h : ∀ b ∈ t, plain b = true) : isTok t = true := by
  simp [isTok, hne, tokOK_of_plain t h]

/-- a token has no ASCII white space in it, in particular no line ends -/
theorem tok_no_space (t : Bytes) (h : tokOK t = true) : ∀ b ∈ t, isAsciiSpace b = false := by
  induction t with
  | nil => intro b hb; simp at hb
  | cons c cs ih =>
    simp only [tokOK, Bool.and_eq_true, beq_iff_eq] at h
    intro b hb
    simp only [List.mem_cons] at hb
    rcases hb with e | hb
    · subst e
      have h1 := h.1
      unfold spaceLen at h1
      cases hc : isAsciiSpace b with
      | false => rfl
      | true => simp [hc] at h1
    · exact ih h.2 b hb

/-! ### `strings.Split` -/

theorem splitOn_append (c : Nat) (l rest : Bytes) (h : c ∉ l) :
    splitOn c (l ++ c :: rest) = l :: splitOn c rest := by
  induction l with
  | nil => simp [splitOn]
  | cons b bs ih =>
    have hb : b ≠ c := fun e => h (by simp [e])
    have hbs : c ∉ bs := fun e => h (by simp [e])
    simp [splitOn, hb, ih hbs]

theorem splitOn_none (c : Nat) (l : Bytes) (h : c ∉ l) : splitOn c l = [l] := by
  induction l with
  | nil => simp [splitOn]
  | cons b bs ih =>
    have hb : b ≠ c := fun e => h (by simp [e])
    have hbs : c ∉ bs := fun e => h (by simp [e])
    simp [splitOn, hb, ih hbs]

theorem splitOn_pieces (c : Nat) (l : Bytes) : ∀ p ∈ splitOn c l, c ∉ p ∧ ∀ b ∈ p, b ∈ l := by
  induction l with
  | nil => intro p hp; simp [splitOn] at hp; subst hp; simp
  | cons b bs ih =>
    intro p hp
    unfold splitOn at hp
    by_cases hb : b = c
    · simp only [hb, if_true, List.mem_cons] at hp
      rcases hp with e | hp
      · subst e; simp
      · have := ih p hp
        exact ⟨this.1, fun x hx => by simp [this.2 x hx]⟩
    · simp only [hb, if_false] at hp
      cases hs : splitOn c bs with
      | nil =>
        rw [hs] at hp
        simp only [List.mem_singleton] at hp
        subst hp
        refine ⟨by simp; exact fun e => hb e.symm, by simp⟩
      | cons q qs =>
        rw [hs] at hp
        simp only [List.mem_cons] at hp
        rcases hp with e | hp
        · subst e
          have := ih q (by rw [hs]; simp)
          refine ⟨?_, ?_⟩
          · simp only [List.mem_cons, not_or]; exact ⟨fun e => hb e.symm, this.1⟩
          · intro x hx
            simp only [List.mem_cons] at hx ⊢
            rcases hx with e | hx
            · left; exact e
            · right; exact this.2 x hx
        · have := ih p (by rw [hs]; simp [hp])
          exact ⟨this.1, fun x hx => by simp [this.2 x hx]⟩

/-! ### decimal numbers -/

theorem isDigit_plain (b : Nat) (h : isDigit b = true) : plain b = true := by
  simp only [isDigit, Bool.and_eq_true, decide_eq_true_eq] at h
  simp only [plain, isAsciiSpace, Bool.and_eq_true, decide_eq_true_eq, Bool.not_eq_true', Bool.or_eq_false_iff,
    decide_eq_false_iff_not]
  omega

theorem decNatF_digits (f n : Nat) : ∀ b ∈ decNatF f n, isDigit b = true := by
  induction f generalizing n with
  | zero =>
    intro b hb
    simp only [decNatF, List.mem_singleton] at hb
    subst hb
    simp only [isDigit, Bool.and_eq_true, decide_eq_true_eq]; omega
  | succ f ih =>
    intro b hb
    unfold decNatF at hb
    by_cases hn : n < 10
    · simp only [hn, if_true, List.mem_singleton] at hb
      subst hb
      simp only [isDigit, Bool.and_eq_true, decide_eq_true_eq]; omega
    · simp only [hn, if_false, List.mem_append, List.mem_singleton] at hb
      rcases hb with hb | hb
      · exact ih _ b hb
      · subst hb
        simp only [isDigit, Bool.and_eq_true, decide_eq_true_eq]; omega

theorem decNatF_ne (f n : Nat) : decNatF f n ≠ [] := by
  cases f with
  | zero => simp [decNatF]
  | succ f => unfold decNatF; split <;> simp

theorem parseNat_append (a : Bytes) (d : Nat) : parseNat (a ++ [d]) = parseNat a * 10 + (d - 48) := by
  simp [parseNat, List.foldl_append]

theorem parseNat_decNatF (f n : Nat) (h : n ≤ f) : parseNat (decNatF f n) = n := by
  induction f generalizing n with
  | zero =>
    have : n = 0 := by omega
    subst this; rfl
  | succ f ih =>
    unfold decNatF
    by_cases hn : n < 10
    · simp only [hn, if_true]
      simp [parseNat]
    · simp only [hn, if_false]
      rw [parseNat_append, ih _ (by omega)]
      omega

theorem decNat_digits (n : Nat) : ∀ b ∈ decNat n, isDigit b = true := decNatF_digits n n
theorem decNat_ne (n : Nat) : decNat n ≠ [] := decNatF_ne n n
theorem parseNat_decNat (n : Nat) : parseNat (decNat n) = n := parseNat_decNatF n n (Nat.le_refl n)

theorem all_digits_of (ds : Bytes) (h : ∀ b ∈ ds, isDigit b = true) : ds.all isDigit = true := by
  simpa [List.all_eq_true] using h

theorem splitSign_digits (ds : Bytes) (h : ∀ b ∈ ds, isDigit b = true) : splitSign ds = (false, false, ds) := by
  cases ds with
  | nil => rfl
  | cons b bs =>
    have hb := h b (by simp)
    simp only [isDigit, Bool.and_eq_true, decide_eq_true_eq] at hb
    unfold splitSign
    split
    · rename_i heq; simp at heq; omega
    · rename_i heq; simp at heq; omega
    · rfl

theorem atoi_digits (ds : Bytes) (hne : ds ≠ []) (h : ∀ b ∈ ds, isDigit b = true)
    (hr : (parseNat ds : Int) ≤ 9223372036854775807) : atoi ds = some (parseNat ds : Int) := by
  unfold atoi
  rw [splitSign_digits ds h]
  simp only [hne, all_digits_of ds h, Bool.false_eq_true, if_false, Bool.not_true, Bool.or_self, decide_false]
  rw [if_pos ⟨by omega, hr⟩]

theorem atoi_neg_digits (ds : Bytes) (hne : ds ≠ []) (h : ∀ b ∈ ds, isDigit b = true)
    (hr : (parseNat ds : Int) ≤ 9223372036854775808) : atoi (45 :: ds) = some (-(parseNat ds : Int)) := by
  unfold atoi
  have : splitSign (45 :: ds) = (true, true, ds) := rfl
  rw [this]
  simp only [hne, all_digits_of ds h, Bool.false_eq_true, if_false, if_true, Bool.not_true, Bool.or_self, decide_false]
  rw [if_pos ⟨by omega, by omega⟩]

theorem atoi_decInt (i : Int) (h1 : -9223372036854775808 ≤ i) (h2 : i ≤ 9223372036854775807) :
    atoi (decInt i) = some i := by
  unfold decInt
  by_cases hneg : i < 0
  · simp only [hneg, if_true]
    rw [atoi_neg_digits _ (decNat_ne _) (decNat_digits _) (by rw [parseNat_decNat]; omega), parseNat_decNat]
    congr 1; omega
  · simp only [hneg, if_false]
    rw [atoi_digits _ (decNat_ne _) (decNat_digits _) (by rw [parseNat_decNat]; omega), parseNat_decNat]
    congr 1; omega

theorem wrap16_id (i : Int) (h1 : -32768 ≤ i) (h2 : i ≤ 32767) : wrap16 i = i := by
  unfold wrap16; omega

theorem wrap16_range (i : Int) : -32768 ≤ wrap16 i ∧ wrap16 i ≤ 32767 := by
  unfold wrap16; omega

/-! ### `ParseFloat` of what `%.0f` prints -/

theorem ofDecimal_exp_zero (neg : Bool) (r : Nat) : ofDecimal neg r 0 = ofDyadic neg r 0 := by
  unfold ofDecimal
  by_cases h : r = 0
  · subst h; rw [ofDyadic_zero]; rfl
  · have : (r == 0) = false := beq_eq_false_iff_ne.mpr h
    rw [this]
    simp

theorem spanDigits_digits (ds : Bytes) (h : ∀ b ∈ ds, isDigit b = true) : spanDigits ds = (ds, []) := by
  induction ds with
  | nil => rfl
  | cons b bs ih =>
    unfold spanDigits
    rw [h b (by simp), ih (fun c hc => h c (by simp [hc]))]
    rfl

theorem map_lower_digits (ds : Bytes) (h : ∀ b ∈ ds, isDigit b = true) : ds.map lower = ds := by
  induction ds with
  | nil => rfl
  | cons b bs ih =>
    have hb := h b (by simp)
    simp only [isDigit, Bool.and_eq_true, decide_eq_true_eq] at hb
    simp only [List.map_cons, ih (fun c hc => h c (by simp [hc]))]
    congr 1
    unfold lower
    rw [if_neg (by omega)]

theorem contains95_digits (ds : Bytes) (h : ∀ b ∈ ds, isDigit b = true) : ds.contains 95 = false := by
  induction ds with
  | nil => rfl
  | cons b bs ih =>
    have hb := h b (by simp)
    simp only [isDigit, Bool.and_eq_true, decide_eq_true_eq] at hb
    rw [List.contains_cons, ih (fun c hc => h c (by simp [hc]))]
    have : (95 == b) = false := by rw [beq_eq_false_iff_ne]; omega
    rw [this]; rfl

theorem isHexPrefix_digits (ds : Bytes) (h : ∀ b ∈ ds, isDigit b = true) : isHexPrefix ds = false := by
  unfold isHexPrefix
  split
  · rename_i x _ _
    have hx := h x (by simp)
    simp only [isDigit, Bool.and_eq_true, decide_eq_true_eq] at hx
    rw [beq_eq_false_iff_ne]
    unfold lower
    rw [if_neg (by omega)]; omega
  · rfl

theorem digits_ne_word (ds w : Bytes) (h : ∀ b ∈ ds, isDigit b = true) (hw : ∃ b ∈ w, isDigit b = false) : ds ≠ w := by
  intro e; subst e
  obtain ⟨b, hb, hd⟩ := hw
  rw [h b hb] at hd; exact absurd hd (by decide)

theorem parseDec_digits (neg : Bool) (ds : Bytes) (hne : ds ≠ []) (h : ∀ b ∈ ds, isDigit b = true) :
    parseDec neg ds =
      if isInf (ofDyadic neg (parseNat ds) 0) then .error else .ok (ofDyadic neg (parseNat ds) 0) := by
  unfold parseDec
  rw [spanDigits_digits ds h]
  have : fracPart ([] : Bytes) = ([], []) := rfl
  simp only [this, hne, List.append_nil]
  have : parseExp [] = some 0 := rfl
  rw [this]
  simp only [Bool.false_and, Bool.false_eq_true, if_false, List.length_nil, Int.sub_self]
  have : ((0 : Int) - ((0 : Nat) : Int)) = 0 := by omega
  simp only [this, ofDecimal_exp_zero]
  rfl

theorem parseFloat_digits (ds : Bytes) (hne : ds ≠ []) (h : ∀ b ∈ ds, isDigit b = true) :
    parseFloat ds =
      if isInf (ofDyadic false (parseNat ds) 0) then .error else .ok (ofDyadic false (parseNat ds) 0) := by
  unfold parseFloat
  rw [splitSign_digits ds h]
  simp only [map_lower_digits ds h]
  have h1 : ds ≠ kinf := digits_ne_word ds _ h ⟨105, by decide, by decide⟩
  have h2 : ds ≠ kinfinity := digits_ne_word ds _ h ⟨105, by decide, by decide⟩
  have h3 : ds ≠ knan := digits_ne_word ds _ h ⟨110, by decide, by decide⟩
  simp only [h1, h2, h3, decide_false, Bool.or_self, Bool.false_eq_true, if_false, Bool.not_false, Bool.and_false,
    Bool.true_and, contains95_digits ds h, isHexPrefix_digits ds h]
  exact parseDec_digits false ds hne h

theorem parseFloat_neg_digits (ds : Bytes) (hne : ds ≠ []) (h : ∀ b ∈ ds, isDigit b = true) :
    parseFloat (45 :: ds) =
      if isInf (ofDyadic true (parseNat ds) 0) then .error else .ok (ofDyadic true (parseNat ds) 0) := by
  unfold parseFloat
  have : splitSign (45 :: ds) = (true, true, ds) := rfl
  rw [this]
  simp only [map_lower_digits ds h]
  have h1 : ds ≠ kinf := digits_ne_word ds _ h ⟨105, by decide, by decide⟩
  have h2 : ds ≠ kinfinity := digits_ne_word ds _ h ⟨105, by decide, by decide⟩
  have hc : (45 :: ds).contains 95 = false := by
    rw [List.contains_cons, contains95_digits ds h]; rfl
  simp only [h1, h2, decide_false, Bool.or_self, Bool.false_eq_true, if_false, Bool.not_true, Bool.false_and,
    hc, isHexPrefix_digits ds h]
  exact parseDec_digits true ds hne h

theorem parseFloat_kNaN : parseFloat kNaN = .ok qNaN := by decide
theorem parseFloat_kPInf : parseFloat kPInf = .ok posInf := by decide
theorem parseFloat_kMInf : parseFloat kMInf = .ok (withSign true posInf) := by decide

/-- an infinite float is ±Inf -/
theorem isInf_cases (x : UInt64) (h : isInf x = true) :
    x = if signOf x then withSign true posInf else posInf := by
  have hE := expField_eq x
  have hF := fracField_eq x
  unfold isInf at h
  simp only [Bool.and_eq_true, beq_iff_eq] at h
  have hlt : x.toNat < 2 ^ 64 := x.toNat_lt
  rw [signOf_eq]
  apply UInt64.toNat_inj.mp
  have hp : posInf.toNat = 0x7ff0000000000000 := by decide
  have hm : (withSign true posInf).toNat = 0xfff0000000000000 := by decide
  by_cases hs : 2 ^ 63 ≤ x.toNat
  · rw [decide_eq_true hs]; simp only [if_true]; rw [hm]; omega
  · rw [decide_eq_false hs]; simp only [Bool.false_eq_true, if_false]; rw [hp]; omega

/-- reading back a `%.0f` field -/
theorem parseFloat_fmt0 (x : UInt64) : parseFloat (fmt0 x) = .ok (roundF x) := by
  by_cases hn : isNaN x = true
  · have : roundF x = qNaN := by unfold roundF; rw [hn]; rfl
    rw [this]; unfold fmt0; rw [hn]; simp only [if_true]; exact parseFloat_kNaN
  · have hn' : isNaN x = false := by simpa using hn
    by_cases hi : isInf x = true
    · have hr : roundF x = x := by unfold roundF; rw [hn', hi]; rfl
      rw [hr]; unfold fmt0; rw [hn', hi]
      simp only [Bool.false_eq_true, if_false, if_true]
      have hx := isInf_cases x hi
      by_cases hs : signOf x = true
      · rw [hs] at hx; simp only [if_true] at hx
        rw [hs]; simp only [if_true]; rw [parseFloat_kMInf, ← hx]
      · have hs' : signOf x = false := by simpa using hs
        rw [hs'] at hx; simp only [Bool.false_eq_true, if_false] at hx
        rw [hs']; simp only [Bool.false_eq_true, if_false]; rw [parseFloat_kPInf, ← hx]
    · have hi' : isInf x = false := by simpa using hi
      obtain ⟨a, b, c, d⟩ := roundF_props x hn' hi'
      have hrf := roundF_fin x hn' hi'
      unfold fmt0; rw [hn', hi']
      simp only [Bool.false_eq_true, if_false]
      by_cases hs : signOf x = true
      · rw [hs] at hrf
        rw [hs]; simp only [if_true]
        rw [parseFloat_neg_digits _ (decNat_ne _) (decNat_digits _), parseNat_decNat, ← hrf, b]
        rfl
      · have hs' : signOf x = false := by simpa using hs
        rw [hs'] at hrf
        rw [hs']; simp only [Bool.false_eq_true, if_false]
        rw [parseFloat_digits _ (decNat_ne _) (decNat_digits _), parseNat_decNat, ← hrf, b]
        rfl

/-! ### what the writer prints for numbers is a single plain token -/

theorem digits_plain (ds : Bytes) (h : ∀ b ∈ ds, isDigit b = true) : ∀ b ∈ ds, plain b = true :=
  fun b hb => isDigit_plain b (h b hb)

theorem neg_digits_plain (ds : Bytes) (h : ∀ b ∈ ds, isDigit b = true) : ∀ b ∈ 45 :: ds, plain b = true := by
  intro b hb
  simp only [List.mem_cons] at hb
  rcases hb with e | hb
  · subst e; decide
  · exact isDigit_plain b (h b hb)

theorem decInt_plain (i : Int) : ∀ b ∈ decInt i, plain b = true := by
  unfold decInt
  split
  · exact neg_digits_plain _ (decNat_digits _)
  · exact digits_plain _ (decNat_digits _)

theorem decInt_ne (i : Int) : decInt i ≠ [] := by
  unfold decInt
  split
  · simp
  · exact decNat_ne _

theorem fmt0_plain (x : UInt64) : ∀ b ∈ fmt0 x, plain b = true := by
  unfold fmt0
  split
  · decide
  · split
    · split <;> decide
    · dsimp only
      split
      · exact neg_digits_plain _ (decNat_digits _)
      · exact digits_plain _ (decNat_digits _)

theorem fmt0_ne (x : UInt64) : fmt0 x ≠ [] := by
  unfold fmt0
  split
  · decide
  · split
    · split <;> decide
    · dsimp only
      split
      · simp
      · exact decNat_ne _

theorem renderDec_plain (D : Nat) (p : Int) : ∀ b ∈ renderDec D p, plain b = true := by
  have hd := digits_plain _ (decNat_digits D)
  unfold renderDec
  split
  · intro b hb
    simp only [List.mem_append, List.mem_replicate] at hb
    rcases hb with hb | hb
    · exact hd b hb
    · rw [hb.2]; decide
  · dsimp only
    split
    · intro b hb
      simp only [List.mem_append, List.mem_cons] at hb
      rcases hb with hb | hb | hb
      · exact hd b (List.mem_of_mem_take hb)
      · subst hb; decide
      · exact hd b (List.mem_of_mem_drop hb)
    · intro b hb
      simp only [List.mem_cons, List.mem_append, List.mem_replicate] at hb
      rcases hb with hb | hb | hb | hb
      · subst hb; decide
      · subst hb; decide
      · rw [hb.2]; decide
      · exact hd b hb

/-- the value read back for `ItalicAngle` -/
def roundI (x : UInt64) : UInt64 :=
  if isNaN x then qNaN else if (fmtShortest x).isSome then x else roundF x

theorem zero_cases (x : UInt64) (hn : isNaN x = false) (hi : isInf x = false) (h0 : (decode x).1 = 0) :
    x = withSign (signOf x) 0 := by
  have hE := expField_eq x
  have hF := fracField_eq x
  have hlt : x.toNat < 2 ^ 64 := x.toNat_lt
  unfold decode at h0
  by_cases he : expField x = 0
  · have : (expField x == 0) = true := by rw [he]; rfl
    rw [this] at h0
    simp only [if_true] at h0
    apply UInt64.toNat_inj.mp
    rw [withSign_toNat _ _ (by decide), signOf_eq]
    have : (0 : UInt64).toNat = 0 := by decide
    rw [this]
    by_cases hs : 2 ^ 63 ≤ x.toNat
    · rw [decide_eq_true hs]; simp only [if_true]; omega
    · rw [decide_eq_false hs]; simp only [Bool.false_eq_true, if_false]; omega
  · have : (expField x == 0) = false := beq_eq_false_iff_ne.mpr he
    rw [this] at h0
    simp only [Bool.false_eq_true, if_false] at h0
    omega

theorem parseFloat_zero (s : Bool) :
    parseFloat ((if s then [45] else []) ++ [48]) = .ok (withSign s 0) := by
  cases s <;> decide

/-- the text found by the shortest-digits search parses back to the float itself -/
theorem fmtShortest_spec (x : UInt64) (hn : isNaN x = false) (s : Bytes) (h : fmtShortest x = some s) :
    parseFloat s = .ok x := by
  unfold fmtShortest at h
  rw [hn] at h
  simp only [Bool.false_eq_true, if_false] at h
  by_cases hi : isInf x = true
  · rw [hi] at h
    simp only [if_true, Option.some.injEq] at h
    have hx := isInf_cases x hi
    by_cases hs : signOf x = true
    · rw [hs] at h hx; simp only [if_true] at h hx
      rw [← h, parseFloat_kMInf, ← hx]
    · have hs' : signOf x = false := by simpa using hs
      rw [hs'] at h hx; simp only [Bool.false_eq_true, if_false] at h hx
      rw [← h, parseFloat_kPInf, ← hx]
  · have hi' : isInf x = false := by simpa using hi
    rw [hi'] at h
    simp only [Bool.false_eq_true, if_false] at h
    by_cases h0 : (decode x).1 = 0
    · rw [if_pos h0] at h
      simp only [Option.some.injEq] at h
      rw [← h, parseFloat_zero, ← zero_cases x hn hi' h0]
    · rw [if_neg h0] at h
      have := List.find?_some h
      simpa using this

theorem parseFloat_italicText (x : UInt64) : parseFloat (italicText x) = .ok (roundI x) := by
  unfold italicText roundI
  by_cases hn : isNaN x = true
  · have : fmtShortest x = some kNaN := by unfold fmtShortest; rw [hn]; rfl
    rw [this, hn]; exact parseFloat_kNaN
  · have hn' : isNaN x = false := by simpa using hn
    rw [hn']
    simp only [Bool.false_eq_true, if_false]
    cases hf : fmtShortest x with
    | none => simp only [Option.getD_none, Option.isSome_none, Bool.false_eq_true, if_false]; exact parseFloat_fmt0 x
    | some s => simp only [Option.getD_some, Option.isSome_some, if_true]; exact fmtShortest_spec x hn' s hf

theorem fmtShortest_plain (x : UInt64) (s : Bytes) (h : fmtShortest x = some s) : ∀ b ∈ s, plain b = true := by
  unfold fmtShortest at h
  split at h
  · simp only [Option.some.injEq] at h; subst h; decide
  · split at h
    · simp only [Option.some.injEq] at h; subst h; split <;> decide
    · dsimp only at h
      split at h
      · simp only [Option.some.injEq] at h; subst h
        split <;> decide
      · have hm := List.mem_of_find?_eq_some h
        simp only [List.mem_map] at hm
        obtain ⟨c, _, hc⟩ := hm
        subst hc
        intro b hb
        simp only [List.mem_append] at hb
        rcases hb with hb | hb
        · split at hb
          · simp only [List.mem_singleton] at hb; subst hb; decide
          · simp at hb
        · exact renderDec_plain _ _ b hb

theorem parseFloat_nil : parseFloat [] = .error := by decide

theorem italicText_plain (x : UInt64) : ∀ b ∈ italicText x, plain b = true := by
  unfold italicText
  cases hf : fmtShortest x with
  | none => simp only [Option.getD_none]; exact fmt0_plain x
  | some s => simp only [Option.getD_some]; exact fmtShortest_plain x s hf

theorem italicText_ne (x : UInt64) : italicText x ≠ [] := by
  intro e
  have := parseFloat_italicText x
  rw [e, parseFloat_nil] at this
  exact absurd this (by simp)

/-! ## part 3: the reader run over the writer's output -/

/-- a text that is its own fields joined by single spaces -/
def isText (t : Bytes) : Bool := joinSp (fields t) == t

theorem sp_eq (a b : Bytes) : sp a b = a ++ 32 :: b := rfl

macro "key_simp" : tactic =>
  `(tactic| simp [kCapHeight, kXHeight, kAscender, kDescender, kUnderlinePosition, kUnderlineThickness,
      kItalicAngle, kIsFixedPitch, kStartCharMetrics, kStartKernPairs, kEndCharMetrics, kEndKernPairs, kKPX,
      kFontName, kFullName, kVersion, kNotice, kFamilyName, kWeight, kFontBBox, kStartKernData, kEndKernData,
      kEndFontMetrics, numField, parseFloat_fmt0, parseFloat_italicText, Res.bind, isEndCharMetrics])

theorem fmt0_tok (x : UInt64) : isTok (fmt0 x) = true := isTok_of_plain _ (fmt0_ne x) (fmt0_plain x)
theorem italicText_tok (x : UInt64) : isTok (italicText x) = true :=
  isTok_of_plain _ (italicText_ne x) (italicText_plain x)
theorem decInt_tok (i : Int) : isTok (decInt i) = true := isTok_of_plain _ (decInt_ne i) (decInt_plain i)
theorem decNat_tok (n : Nat) : isTok (decNat n) = true :=
  isTok_of_plain _ (decNat_ne n) (digits_plain _ (decNat_digits n))

theorem readLine_first (mm : Metrics) :
    readLine ⟨mm, false, false⟩ kStartFontMetrics41 = .ok ⟨mm, false, false⟩ := by
  have hf : fields kStartFontMetrics41 = [[83,116,97,114,116,70,111,110,116,77,101,116,114,105,99,115], [52,46,49]] := by
    decide
  unfold readLine headerLine
  rw [hf]
  key_simp

theorem readLine_FontName (mm : Metrics) (v : Bytes) (hv : v = [] ∨ isTok v = true) (h0 : v = [] → mm.fontName = []) :
    readLine ⟨mm, false, false⟩ (sp kFontName v) = .ok ⟨{ mm with fontName := v }, false, false⟩ := by
  unfold readLine headerLine
  rw [sp_eq, fields_tok_sp kFontName _ (by decide)]
  rcases hv with hv | hv
  · subst hv
    rw [fields_nil]
    have := h0 rfl
    key_simp
    cases mm; simp_all
  · rw [fields_tok _ hv]
    key_simp

theorem isText_cases (v : Bytes) (h : isText v = true) :
    (v = [] ∧ fields v = []) ∨ (∃ a as, fields v = a :: as ∧ joinSp (a :: as) = v) := by
  unfold isText at h
  rw [beq_iff_eq] at h
  cases hf : fields v with
  | nil => left; rw [hf] at h; exact ⟨h.symm, rfl⟩
  | cons a as => right; rw [hf] at h; exact ⟨a, as, rfl, h⟩

theorem readLine_FullName (mm : Metrics) (v : Bytes) (hv : isText v = true) (h0 : v = [] → mm.fullName = []) :
    readLine ⟨mm, false, false⟩ (sp kFullName v) = .ok ⟨{ mm with fullName := v }, false, false⟩ := by
  unfold readLine headerLine
  rw [sp_eq, fields_tok_sp kFullName _ (by decide)]
  rcases isText_cases v hv with ⟨hv, hf⟩ | ⟨a, as, hf, hj⟩
  · rw [hf]
    have := h0 hv
    key_simp
    cases mm; simp_all
  · rw [hf]
    key_simp
    exact hj

theorem readLine_Version (mm : Metrics) (v : Bytes) (hv : isText v = true) (hne : v ≠ []) :
    readLine ⟨mm, false, false⟩ (sp kVersion v) = .ok ⟨{ mm with version := v }, false, false⟩ := by
  unfold readLine headerLine
  rw [sp_eq, fields_tok_sp kVersion _ (by decide)]
  rcases isText_cases v hv with ⟨hv, hf⟩ | ⟨a, as, hf, hj⟩
  · exact absurd hv hne
  · rw [hf]
    key_simp
    exact hj

theorem readLine_Notice (mm : Metrics) (v : Bytes) (hv : isText v = true) (hne : v ≠ []) :
    readLine ⟨mm, false, false⟩ (sp kNotice v) = .ok ⟨{ mm with notice := v }, false, false⟩ := by
  unfold readLine headerLine
  rw [sp_eq, fields_tok_sp kNotice _ (by decide)]
  rcases isText_cases v hv with ⟨hv, hf⟩ | ⟨a, as, hf, hj⟩
  · exact absurd hv hne
  · rw [hf]
    key_simp
    exact hj

theorem readLine_FamilyName (mm : Metrics) (v : Bytes) :
    readLine ⟨mm, false, false⟩ (sp kFamilyName v) = .ok ⟨mm, false, false⟩ := by
  unfold readLine headerLine
  rw [sp_eq, fields_tok_sp kFamilyName _ (by decide)]
  cases fields v <;> key_simp

theorem readLine_Weight (mm : Metrics) (v : Bytes) :
    readLine ⟨mm, false, false⟩ (sp kWeight v) = .ok ⟨mm, false, false⟩ := by
  unfold readLine headerLine
  rw [sp_eq, fields_tok_sp kWeight _ (by decide)]
  cases fields v <;> key_simp

theorem readLine_FontBBox (mm : Metrics) (v : Bytes) :
    readLine ⟨mm, false, false⟩ (sp kFontBBox v) = .ok ⟨mm, false, false⟩ := by
  unfold readLine headerLine
  rw [sp_eq, fields_tok_sp kFontBBox _ (by decide)]
  cases fields v <;> key_simp

theorem readLine_ItalicAngle (mm : Metrics) (x : UInt64) :
    readLine ⟨mm, false, false⟩ (sp kItalicAngle (italicText x)) =
      .ok ⟨{ mm with italicAngle := roundI x }, false, false⟩ := by
  unfold readLine headerLine
  rw [sp_eq, fields_tok_sp kItalicAngle _ (by decide), fields_tok _ (italicText_tok x)]
  key_simp

theorem readLine_IsFixedPitch (mm : Metrics) (b : Bool) :
    readLine ⟨mm, false, false⟩ (sp kIsFixedPitch (if b then ktrue else kfalse)) =
      .ok ⟨{ mm with isFixedPitch := b }, false, false⟩ := by
  unfold readLine headerLine
  rw [sp_eq, fields_tok_sp kIsFixedPitch _ (by decide)]
  cases b
  · have : fields (if false = true then ktrue else kfalse) = [kfalse] := by decide
    rw [this]; key_simp; simp [ktrue, kfalse]
  · have : fields (if true = true then ktrue else kfalse) = [ktrue] := by decide
    rw [this]; key_simp

theorem readLine_UnderlinePosition (mm : Metrics) (x : UInt64) :
    readLine ⟨mm, false, false⟩ (sp kUnderlinePosition (fmt0 x)) =
      .ok ⟨{ mm with underlinePosition := roundF x }, false, false⟩ := by
  unfold readLine headerLine
  rw [sp_eq, fields_tok_sp kUnderlinePosition _ (by decide), fields_tok _ (fmt0_tok x)]
  key_simp

theorem readLine_UnderlineThickness (mm : Metrics) (x : UInt64) :
    readLine ⟨mm, false, false⟩ (sp kUnderlineThickness (fmt0 x)) =
      .ok ⟨{ mm with underlineThickness := roundF x }, false, false⟩ := by
  unfold readLine headerLine
  rw [sp_eq, fields_tok_sp kUnderlineThickness _ (by decide), fields_tok _ (fmt0_tok x)]
  key_simp

theorem readLine_CapHeight (mm : Metrics) (x : UInt64) :
    readLine ⟨mm, false, false⟩ (sp kCapHeight (fmt0 x)) = .ok ⟨{ mm with capHeight := roundF x }, false, false⟩ := by
  unfold readLine headerLine
  rw [sp_eq, fields_tok_sp kCapHeight _ (by decide), fields_tok _ (fmt0_tok x)]
  key_simp

theorem readLine_XHeight (mm : Metrics) (x : UInt64) :
    readLine ⟨mm, false, false⟩ (sp kXHeight (fmt0 x)) = .ok ⟨{ mm with xHeight := roundF x }, false, false⟩ := by
  unfold readLine headerLine
  rw [sp_eq, fields_tok_sp kXHeight _ (by decide), fields_tok _ (fmt0_tok x)]
  key_simp

theorem readLine_Ascender (mm : Metrics) (x : UInt64) :
    readLine ⟨mm, false, false⟩ (sp kAscender (fmt0 x)) = .ok ⟨{ mm with ascent := roundF x }, false, false⟩ := by
  unfold readLine headerLine
  rw [sp_eq, fields_tok_sp kAscender _ (by decide), fields_tok _ (fmt0_tok x)]
  key_simp

theorem readLine_Descender (mm : Metrics) (x : UInt64) :
    readLine ⟨mm, false, false⟩ (sp kDescender (fmt0 x)) = .ok ⟨{ mm with descent := roundF x }, false, false⟩ := by
  unfold readLine headerLine
  rw [sp_eq, fields_tok_sp kDescender _ (by decide), fields_tok _ (fmt0_tok x)]
  key_simp

theorem readLine_StartCharMetrics (mm : Metrics) (n : Nat) :
    readLine ⟨mm, false, false⟩ (sp kStartCharMetrics (decNat n)) = .ok ⟨mm, true, false⟩ := by
  unfold readLine headerLine
  rw [sp_eq, fields_tok_sp kStartCharMetrics _ (by decide), fields_tok _ (decNat_tok n)]
  key_simp

theorem readLine_EndCharMetrics (mm : Metrics) (c k : Bool) :
    readLine ⟨mm, c, k⟩ kEndCharMetrics = .ok ⟨mm, false, k⟩ := by
  unfold readLine
  have : isEndCharMetrics (fields kEndCharMetrics) = true := by decide
  rw [this]; rfl

theorem readLine_StartKernData (mm : Metrics) :
    readLine ⟨mm, false, false⟩ kStartKernData = .ok ⟨mm, false, false⟩ := by
  unfold readLine headerLine
  rw [fields_tok _ (by decide)]
  key_simp

theorem readLine_StartKernPairs (mm : Metrics) (n : Nat) :
    readLine ⟨mm, false, false⟩ (sp kStartKernPairs (decNat n)) = .ok ⟨mm, false, true⟩ := by
  unfold readLine headerLine
  rw [sp_eq, fields_tok_sp kStartKernPairs _ (by decide), fields_tok _ (decNat_tok n)]
  key_simp

theorem readLine_EndKernPairs (mm : Metrics) (k : Bool) :
    readLine ⟨mm, false, k⟩ kEndKernPairs = .ok ⟨mm, false, false⟩ := by
  unfold readLine headerLine
  rw [fields_tok _ (by decide)]
  key_simp

theorem readLine_EndKernData (mm : Metrics) :
    readLine ⟨mm, false, false⟩ kEndKernData = .ok ⟨mm, false, false⟩ := by
  unfold readLine headerLine
  rw [fields_tok _ (by decide)]
  key_simp

theorem readLine_EndFontMetrics (mm : Metrics) :
    readLine ⟨mm, false, false⟩ kEndFontMetrics = .ok ⟨mm, false, false⟩ := by
  unfold readLine headerLine
  rw [fields_tok _ (by decide)]
  key_simp

def Int16 (i : Int) : Prop := -32768 ≤ i ∧ i ≤ 32767

theorem readLine_kern (mm : Metrics) (k : KernPair) (hl : isTok k.left = true) (hr : isTok k.right = true)
    (ha : Int16 k.adjust) :
    readLine ⟨mm, false, true⟩ (kernLine k) = .ok ⟨{ mm with kern := mm.kern ++ [k] }, false, true⟩ := by
  unfold readLine headerLine kernLine
  rw [sp_eq, sp_eq, sp_eq, fields_tok_sp kKPX _ (by decide), fields_tok_sp _ _ hl, fields_tok_sp _ _ hr,
    fields_tok _ (decInt_tok _)]
  have h1 := atoi_decInt k.adjust (by have := ha.1; omega) (by have := ha.2; omega)
  key_simp
  rw [h1]
  simp [wrap16_id _ ha.1 ha.2]

/-! ### the order on names -/

theorem nameLt_irrefl (a : Bytes) : Query.nameLt a a = false := by
  induction a with
  | nil => rfl
  | cons x xs ih => simp [Query.nameLt, ih]

theorem nameLt_asymm (a b : Bytes) (h : Query.nameLt a b = true) : Query.nameLt b a = false := by
  induction a generalizing b with
  | nil => cases b <;> simp_all [Query.nameLt]
  | cons x xs ih =>
    cases b with
    | nil => simp [Query.nameLt] at h
    | cons y ys =>
      simp only [Query.nameLt] at h ⊢
      by_cases h1 : x < y
      · have : ¬ y < x := by omega
        simp [this, h1]
      · by_cases h2 : y < x
        · simp [h1, h2] at h
        · simp only [h1, h2, if_false] at h ⊢
          exact ih ys h

theorem nameLt_trans (a b c : Bytes) (h1 : Query.nameLt a b = true) (h2 : Query.nameLt b c = true) :
    Query.nameLt a c = true := by
  induction a generalizing b c with
  | nil =>
    cases b with
    | nil => simp [Query.nameLt] at h1
    | cons y ys =>
      cases c with
      | nil => simp [Query.nameLt] at h2
      | cons z zs => rfl
  | cons x xs ih =>
    cases b with
    | nil => simp [Query.nameLt] at h1
    | cons y ys =>
      cases c with
      | nil => simp [Query.nameLt] at h2
      | cons z zs =>
        simp only [Query.nameLt] at h1 h2 ⊢
        by_cases hxy : x < y
        · by_cases hyz : y < z
          · have : x < z := by omega
            simp [this]
          · by_cases hzy : z < y
            · simp [hyz, hzy] at h2
            · have : x < z := by omega
              simp [this]
        · by_cases hyx : y < x
          · simp [hxy, hyx] at h1
          · simp only [hxy, hyx, if_false] at h1
            have hxy' : x = y := by omega
            subst hxy'
            by_cases hyz : x < z
            · simp [hyz]
            · by_cases hzy : z < x
              · simp [hyz, hzy] at h2
              · simp only [hyz, hzy, if_false] at h2 ⊢
                exact ih ys zs h1 h2

theorem nameLt_total (a b : Bytes) (h1 : Query.nameLt a b = false) (h2 : a ≠ b) : Query.nameLt b a = true := by
  induction a generalizing b with
  | nil =>
    cases b with
    | nil => exact absurd rfl h2
    | cons y ys => simp [Query.nameLt] at h1
  | cons x xs ih =>
    cases b with
    | nil => simp [Query.nameLt]
    | cons y ys =>
      simp only [Query.nameLt] at h1 ⊢
      by_cases hxy : x < y
      · simp [hxy] at h1
      · by_cases hyx : y < x
        · simp [hyx]
        · simp only [hxy, hyx, if_false] at h1 ⊢
          have : x = y := by omega
          subst this
          exact ih ys h1 (fun e => h2 (by rw [e]))

/-! ### association lists sorted by key -/

def Sorted {β : Type} (l : List (Bytes × β)) : Prop :=
  l.Pairwise (fun a b => Query.nameLt a.1 b.1 = true)

theorem lookup_none_iff {β : Type} (k : Bytes) (l : List (Bytes × β)) :
    lookup k l = none ↔ ∀ e ∈ l, e.1 ≠ k := by
  induction l with
  | nil => simp [lookup]
  | cons e es ih =>
    obtain ⟨k', v⟩ := e
    unfold lookup
    by_cases h : k' = k
    · simp [h]
    · simp [h, ih]

theorem lookup_mem {β : Type} (k : Bytes) (v : β) (l : List (Bytes × β)) (hs : Sorted l) (h : (k, v) ∈ l) :
    lookup k l = some v := by
  induction l with
  | nil => simp at h
  | cons e es ih =>
    obtain ⟨k', v'⟩ := e
    unfold lookup
    simp only [List.mem_cons, Prod.mk.injEq] at h
    have hs' := List.pairwise_cons.mp hs
    by_cases hk : k' = k
    · rw [if_pos hk]
      rcases h with h | h
      · rw [h.2]
      · have := hs'.1 _ h
        simp only at this
        rw [hk, nameLt_irrefl] at this
        exact absurd this (by decide)
    · rw [if_neg hk]
      rcases h with h | h
      · exact absurd h.1.symm hk
      · exact ih hs'.2 h

theorem upsert_mem {β : Type} (k : Bytes) (v : β) (l : List (Bytes × β)) (h : lookup k l = none) :
    ∀ e, e ∈ upsert k v l ↔ e = (k, v) ∨ e ∈ l := by
  induction l with
  | nil => intro e; simp [upsert]
  | cons a as ih =>
    obtain ⟨k', v'⟩ := a
    have hk : k' ≠ k := (lookup_none_iff k _).mp h (k', v') (by simp)
    have h' : lookup k as = none := by
      rw [lookup_none_iff] at h ⊢
      exact fun e he => h e (by simp [he])
    intro e
    unfold upsert
    rw [if_neg hk]
    split
    · simp
    · simp only [List.mem_cons, ih h' e]
      constructor
      · rintro (h1 | h1 | h1)
        · right; left; exact h1
        · left; exact h1
        · right; right; exact h1
      · rintro (h1 | h1 | h1)
        · right; left; exact h1
        · left; exact h1
        · right; right; exact h1

theorem upsert_sorted {β : Type} (k : Bytes) (v : β) (l : List (Bytes × β)) (hs : Sorted l)
    (h : lookup k l = none) : Sorted (upsert k v l) := by
  induction l with
  | nil => simp [upsert, Sorted]
  | cons a as ih =>
    obtain ⟨k', v'⟩ := a
    have hk : k' ≠ k := (lookup_none_iff k _).mp h (k', v') (by simp)
    have h' : lookup k as = none := by
      rw [lookup_none_iff] at h ⊢
      exact fun e he => h e (by simp [he])
    have hs' := List.pairwise_cons.mp hs
    unfold upsert
    rw [if_neg hk]
    by_cases hlt : Query.nameLt k k' = true
    · rw [if_pos hlt]
      unfold Sorted
      rw [List.pairwise_cons]
      refine ⟨?_, hs⟩
      intro e he
      simp only [List.mem_cons] at he
      rcases he with he | he
      · subst he; exact hlt
      · exact nameLt_trans _ _ _ hlt (hs'.1 e he)
    · rw [if_neg hlt]
      unfold Sorted
      rw [List.pairwise_cons]
      refine ⟨?_, ih hs'.2 h'⟩
      intro e he
      rw [upsert_mem k v as h' e] at he
      rcases he with he | he
      · subst he
        exact nameLt_total _ _ (by simpa using hlt) (fun e => hk e.symm)
      · exact hs'.1 e he

theorem upsert_perm {β : Type} (k : Bytes) (v : β) (l : List (Bytes × β)) (h : lookup k l = none) :
    (upsert k v l).Perm ((k, v) :: l) := by
  induction l with
  | nil => simp [upsert]
  | cons a as ih =>
    obtain ⟨k', v'⟩ := a
    have hk : k' ≠ k := (lookup_none_iff k _).mp h (k', v') (by simp)
    have h' : lookup k as = none := by
      rw [lookup_none_iff] at h ⊢
      exact fun e he => h e (by simp [he])
    unfold upsert
    rw [if_neg hk]
    split
    · exact List.Perm.refl _
    · exact ((ih h').cons (k', v')).trans (List.Perm.swap _ _ _)

theorem lookup_upsert_ne {β : Type} (k k2 : Bytes) (v : β) (l : List (Bytes × β)) (h : lookup k l = none)
    (hne : k2 ≠ k) (h2 : lookup k2 l = none) : lookup k2 (upsert k v l) = none := by
  rw [lookup_none_iff] at h2 ⊢
  intro e he
  rw [upsert_mem k v l h e] at he
  rcases he with he | he
  · subst he; exact fun e => hne e.symm
  · exact h2 e he

/-- appending at the end of a sorted list -/
theorem upsert_append {β : Type} (k : Bytes) (v : β) (l : List (Bytes × β)) (hs : Sorted (l ++ [(k, v)])) :
    upsert k v l = l ++ [(k, v)] := by
  induction l with
  | nil => rfl
  | cons a as ih =>
    obtain ⟨k', v'⟩ := a
    have hs' := List.pairwise_cons.mp hs
    have hlt : Query.nameLt k' k = true := hs'.1 (k, v) (by simp)
    have hk : k' ≠ k := by
      intro e; rw [e, nameLt_irrefl] at hlt; exact absurd hlt (by decide)
    have hnl : ¬ Query.nameLt k k' = true := by
      rw [nameLt_asymm _ _ hlt]; decide
    unfold upsert
    rw [if_neg hk, if_neg hnl, ih hs'.2]
    rfl

def insAll {β : Type} (base : List (Bytes × β)) (es : List (Bytes × β)) : List (Bytes × β) :=
  es.foldl (fun acc e => upsert e.1 e.2 acc) base

theorem insAll_append {β : Type} (base es : List (Bytes × β)) (hs : Sorted (base ++ es)) :
    insAll base es = base ++ es := by
  induction es generalizing base with
  | nil => simp [insAll]
  | cons e rest ih =>
    obtain ⟨k, v⟩ := e
    have h1 : Sorted (base ++ [(k, v)]) := by
      have : List.Sublist (base ++ [(k, v)]) (base ++ (k, v) :: rest) := by
        apply List.Sublist.append_left
        simp
      exact List.Pairwise.sublist this hs
    unfold insAll
    simp only [List.foldl_cons]
    rw [upsert_append k v base h1]
    have := ih (base ++ [(k, v)]) (by simpa using hs)
    unfold insAll at this
    rw [this]; simp

/-! ### a character metrics line -/

def numCh (b : Nat) : Bool :=
  isDigit b || b == 45 || b == 43 || b == 78 || b == 97 || b == 73 || b == 110 || b == 102

theorem digits_numCh (ds : Bytes) (h : ∀ b ∈ ds, isDigit b = true) : ∀ b ∈ ds, numCh b = true := by
  intro b hb; simp [numCh, h b hb]

theorem neg_digits_numCh (ds : Bytes) (h : ∀ b ∈ ds, isDigit b = true) : ∀ b ∈ 45 :: ds, numCh b = true := by
  intro b hb
  simp only [List.mem_cons] at hb
  rcases hb with e | hb
  · subst e; decide
  · simp [numCh, h b hb]

theorem fmt0_numCh (x : UInt64) : ∀ b ∈ fmt0 x, numCh b = true := by
  unfold fmt0
  split
  · decide
  · split
    · split <;> decide
    · dsimp only
      split
      · exact neg_digits_numCh _ (decNat_digits _)
      · exact digits_numCh _ (decNat_digits _)

theorem decInt_numCh (i : Int) : ∀ b ∈ decInt i, numCh b = true := by
  unfold decInt
  split
  · exact neg_digits_numCh _ (decNat_digits _)
  · exact digits_numCh _ (decNat_digits _)

theorem no59_of_numCh (l : Bytes) (h : ∀ b ∈ l, numCh b = true) : 59 ∉ l := by
  intro hm
  have := h 59 hm
  exact absurd this (by decide)

theorem fmt0_no59 (x : UInt64) : 59 ∉ fmt0 x := no59_of_numCh _ (fmt0_numCh x)
theorem decInt_no59 (i : Int) : 59 ∉ decInt i := no59_of_numCh _ (decInt_numCh i)

/-- a glyph or ligature name: one token without `;` -/
def isName (t : Bytes) : Bool := isTok t && !t.contains 59

theorem isName_tok (t : Bytes) (h : isName t = true) : isTok t = true := by
  simp [isName] at h; exact h.1

theorem isName_no59 (t : Bytes) (h : isName t = true) : 59 ∉ t := by
  simp [isName] at h; exact h.2

theorem fields_tok_end_sp (t : Bytes) (h : isTok t = true) : fields (t ++ [32]) = [t] := by
  have := fields_tok_sp t [] h
  rw [fields_nil] at this
  exact this

def pC (i : Int) : Bytes := kC ++ (32 :: (decInt i ++ [32]))
def pWX (w : UInt64) : Bytes := 32 :: (kWX ++ (32 :: (fmt0 w ++ [32])))
def pN (n : Bytes) : Bytes := 32 :: (kN ++ (32 :: (n ++ [32])))
def pB (a b c d : UInt64) : Bytes :=
  32 :: (kB ++ (32 :: (fmt0 a ++ (32 :: (fmt0 b ++ (32 :: (fmt0 c ++ (32 :: (fmt0 d ++ [32])))))))))
def pL (e : Bytes × Bytes) : Bytes := 32 :: (kL ++ (32 :: (e.1 ++ (32 :: (e.2 ++ [32])))))

theorem fields_pC (i : Int) : fields (pC i) = [kC, decInt i] := by
  unfold pC
  rw [fields_tok_sp kC _ (by decide), fields_tok_end_sp _ (decInt_tok i)]

theorem fields_pWX (w : UInt64) : fields (pWX w) = [kWX, fmt0 w] := by
  unfold pWX
  rw [fields_sp, fields_tok_sp kWX _ (by decide), fields_tok_end_sp _ (fmt0_tok w)]

theorem fields_pN (n : Bytes) (h : isTok n = true) : fields (pN n) = [kN, n] := by
  unfold pN
  rw [fields_sp, fields_tok_sp kN _ (by decide), fields_tok_end_sp _ h]

theorem fields_pB (a b c d : UInt64) : fields (pB a b c d) = [kB, fmt0 a, fmt0 b, fmt0 c, fmt0 d] := by
  unfold pB
  rw [fields_sp, fields_tok_sp kB _ (by decide), fields_tok_sp _ _ (fmt0_tok a), fields_tok_sp _ _ (fmt0_tok b),
    fields_tok_sp _ _ (fmt0_tok c), fields_tok_end_sp _ (fmt0_tok d)]

theorem fields_pL (e : Bytes × Bytes) (h1 : isTok e.1 = true) (h2 : isTok e.2 = true) :
    fields (pL e) = [kL, e.1, e.2] := by
  unfold pL
  rw [fields_sp, fields_tok_sp kL _ (by decide), fields_tok_sp _ _ h1, fields_tok_end_sp _ h2]

macro "kv_simp" : tactic =>
  `(tactic| simp [kC, kWX, kN, kB, kL, Res.bind])

theorem charKV_pC (c : CharLine) (i : Int) (h1 : -9223372036854775808 ≤ i) (h2 : i ≤ 9223372036854775807) :
    charKV c (pC i) = .ok { c with code := i } := by
  unfold charKV
  rw [fields_pC]
  simp only [atoi_decInt i h1 h2]
  kv_simp

theorem charKV_pWX (c : CharLine) (i : Int) (h : Int16 i) :
    charKV c (pWX (ofInt i)) = .ok { c with width := i } := by
  unfold charKV
  have hn : i.natAbs < 2 ^ 53 := by have := h.1; have := h.2; omega
  rw [fields_pWX, fmt0_ofInt i hn]
  simp only [atoi_decInt i (by have := h.1; omega) (by have := h.2; omega)]
  kv_simp
  exact wrap16_id i h.1 h.2

theorem charKV_pN (c : CharLine) (n : Bytes) (h : isTok n = true) :
    charKV c (pN n) = .ok { c with name := n } := by
  unfold charKV
  rw [fields_pN n h]
  kv_simp

theorem charKV_pB (c : CharLine) (a b cc d : UInt64) :
    charKV c (pB a b cc d) = .ok { c with bbox := ⟨roundF a, roundF b, roundF cc, roundF d⟩ } := by
  unfold charKV
  rw [fields_pB]
  kv_simp
  simp [parseFloat_fmt0, Res.bind]

theorem charKV_pL (c : CharLine) (e : Bytes × Bytes) (h1 : isTok e.1 = true) (h2 : isTok e.2 = true) :
    charKV c (pL e) = .ok { c with ligs := upsert e.1 e.2 c.ligs } := by
  unfold charKV
  rw [fields_pL e h1 h2]
  kv_simp

theorem charKV_nil (c : CharLine) : charKV c [] = .ok c := by
  unfold charKV
  rw [fields_nil]

/-- the ligature part of a line, as pieces -/
theorem ligText_eq (ligs : List (Bytes × Bytes)) :
    ligText ligs = (ligs.map (fun e => pL e ++ [59])).flatten := by
  induction ligs with
  | nil => rfl
  | cons e rest ih =>
    obtain ⟨s, l⟩ := e
    simp only [ligText, List.map_cons, List.flatten_cons, ih, pL, kL]
    simp [List.append_assoc]

theorem glyphLine_eq (enc : List Bytes) (name : Bytes) (g : Glyph) :
    glyphLine enc name g =
      pC (charCode name enc 0) ++ (59 :: (pWX g.widthX ++ (59 :: (pN name ++ (59 ::
        (pB (floorF g.bbox.llx) (floorF g.bbox.lly) (ceilF g.bbox.urx) (ceilF g.bbox.ury) ++
          (59 :: ligText g.ligs))))))) := by
  simp only [glyphLine, pC, pWX, pN, pB, kC, kWX, kN, kB]
  simp [List.append_assoc]

theorem pC_no59 (i : Int) : 59 ∉ pC i := by
  unfold pC kC
  have := decInt_no59 i
  simp [this]

theorem pWX_no59 (w : UInt64) : 59 ∉ pWX w := by
  unfold pWX kWX
  have := fmt0_no59 w
  simp [this]

theorem pN_no59 (n : Bytes) (h : 59 ∉ n) : 59 ∉ pN n := by
  unfold pN kN
  simp [h]

theorem pB_no59 (a b c d : UInt64) : 59 ∉ pB a b c d := by
  unfold pB kB
  have := fmt0_no59 a; have := fmt0_no59 b; have := fmt0_no59 c; have := fmt0_no59 d
  simp [*]

theorem pL_no59 (e : Bytes × Bytes) (h1 : 59 ∉ e.1) (h2 : 59 ∉ e.2) : 59 ∉ pL e := by
  unfold pL kL
  simp [h1, h2]

theorem splitOn_ligText (ligs : List (Bytes × Bytes)) (h : ∀ e ∈ ligs, 59 ∉ e.1 ∧ 59 ∉ e.2) :
    splitOn 59 (ligText ligs) = ligs.map pL ++ [[]] := by
  induction ligs with
  | nil => rfl
  | cons e rest ih =>
    have he := h e (by simp)
    have : ligText (e :: rest) = pL e ++ (59 :: ligText rest) := by
      rw [ligText_eq, ligText_eq]; simp
    rw [this, splitOn_append 59 _ _ (pL_no59 e he.1 he.2), ih (fun e' he' => h e' (by simp [he']))]
    simp

theorem splitOn_glyphLine (enc : List Bytes) (name : Bytes) (g : Glyph) (hn : 59 ∉ name)
    (hl : ∀ e ∈ g.ligs, 59 ∉ e.1 ∧ 59 ∉ e.2) :
    splitOn 59 (glyphLine enc name g) =
      pC (charCode name enc 0) :: pWX g.widthX :: pN name ::
        pB (floorF g.bbox.llx) (floorF g.bbox.lly) (ceilF g.bbox.urx) (ceilF g.bbox.ury) ::
        (g.ligs.map pL ++ [[]]) := by
  rw [glyphLine_eq, splitOn_append 59 _ _ (pC_no59 _), splitOn_append 59 _ _ (pWX_no59 _),
    splitOn_append 59 _ _ (pN_no59 _ hn), splitOn_append 59 _ _ (pB_no59 _ _ _ _), splitOn_ligText _ hl]

theorem charKVs_ligs (c : CharLine) (ligs : List (Bytes × Bytes))
    (h : ∀ e ∈ ligs, isTok e.1 = true ∧ isTok e.2 = true) :
    charKVs c (ligs.map pL ++ [[]]) = .ok { c with ligs := insAll c.ligs ligs } := by
  induction ligs generalizing c with
  | nil => simp [charKVs, charKV_nil, Res.bind, insAll]
  | cons e rest ih =>
    have he := h e (by simp)
    simp only [List.map_cons, List.cons_append, charKVs]
    rw [charKV_pL c e he.1 he.2]
    simp only [Res.bind]
    rw [ih _ (fun e' he' => h e' (by simp [he']))]
    simp [insAll]

/-- rounding applied to a glyph by one write/read cycle -/
def roundG (g : Glyph) : Glyph :=
  { g with bbox := ⟨floorF g.bbox.llx, floorF g.bbox.lly, ceilF g.bbox.urx, ceilF g.bbox.ury⟩ }

/-- a glyph value the reader can produce: 16-bit integer width, ligatures sorted, names tokens -/
def GlyphWF (g : Glyph) : Prop :=
  (g.widthX = ofInt (intOr0 g.widthX) ∧ Int16 (intOr0 g.widthX)) ∧
  Sorted g.ligs ∧ ∀ e ∈ g.ligs, isName e.1 = true ∧ isName e.2 = true

theorem charKVs_glyphLine (enc : List Bytes) (name : Bytes) (g : Glyph) (hn : isName name = true)
    (hg : GlyphWF g) (hc : charCode name enc 0 ≤ 9223372036854775807 ∧ -9223372036854775808 ≤ charCode name enc 0) :
    charKVs {} (splitOn 59 (glyphLine enc name g)) =
      .ok { name := name, width := intOr0 g.widthX, code := charCode name enc 0,
            bbox := (roundG g).bbox, ligs := g.ligs } := by
  obtain ⟨⟨hw1, hw2⟩, hs, hl⟩ := hg
  rw [splitOn_glyphLine enc name g (isName_no59 _ hn)
    (fun e he => ⟨isName_no59 _ (hl e he).1, isName_no59 _ (hl e he).2⟩)]
  simp only [charKVs]
  rw [charKV_pC _ _ hc.2 hc.1]
  simp only [Res.bind]
  rw [hw1, charKV_pWX _ _ hw2]
  simp only [Res.bind]
  rw [charKV_pN _ _ (isName_tok _ hn)]
  simp only [Res.bind]
  rw [charKV_pB]
  simp only [Res.bind]
  rw [charKVs_ligs _ _ (fun e he => ⟨isName_tok _ (hl e he).1, isName_tok _ (hl e he).2⟩)]
  simp only [roundF_floorF, roundF_ceilF, roundG]
  have : insAll ([] : List (Bytes × Bytes)) g.ligs = g.ligs := by
    have := insAll_append [] g.ligs (by simpa using hs)
    simpa using this
  rw [← hw1]
  simp [this]

theorem charCode_bounds (n : Bytes) (enc : List Bytes) (k : Nat) :
    charCode n enc k = -1 ∨ ((k : Int) ≤ charCode n enc k ∧ charCode n enc k < (k : Int) + enc.length) := by
  induction enc generalizing k with
  | nil => left; rfl
  | cons a as ih =>
    unfold charCode
    by_cases h : a = n
    · right; rw [if_pos h]; simp; omega
    · rw [if_neg h]
      rcases ih (k + 1) with h1 | h1
      · left; exact h1
      · right; simp only [List.length_cons]; omega

theorem readLine_glyph (mm : Metrics) (k : Bool) (enc : List Bytes) (name : Bytes) (g : Glyph)
    (hn : isName name = true) (hg : GlyphWF g) (hlen : enc.length ≤ 256)
    (hnew : lookup name mm.glyphs = none) :
    readLine ⟨mm, true, k⟩ (glyphLine enc name g) =
      .ok ⟨{ mm with encoding := setEnc mm.encoding (charCode name enc 0) name,
                      glyphs := upsert name (roundG g) mm.glyphs }, true, k⟩ := by
  have hp : isEndCharMetrics (fields (glyphLine enc name g)) = false := by
    rw [glyphLine_eq, pC, List.append_assoc, List.cons_append, fields_tok_sp kC _ (by decide)]
    show kEndCharMetrics.isPrefixOf kC = false
    decide
  have hc : charCode name enc 0 ≤ 9223372036854775807 ∧ -9223372036854775808 ≤ charCode name enc 0 := by
    rcases charCode_bounds name enc 0 with h | h <;> omega
  unfold readLine
  rw [hp]
  simp only [Bool.false_eq_true, if_false, if_true]
  unfold charLine
  rw [charKVs_glyphLine enc name g hn hg hc]
  have hne : name ≠ [] := isTok_ne _ (isName_tok _ hn)
  simp only [Res.bind, hne, hnew, decide_false, Option.isSome_none, Bool.or_self, Bool.false_eq_true, if_false]
  have hw := hg.1.1
  congr 3
  unfold roundG
  rw [← hw]

/-! ### sections of the file -/

theorem readLines_append (st : St) (a b : List Bytes) :
    readLines st (a ++ b) = (readLines st a).bind (fun st' => readLines st' b) := by
  induction a generalizing st with
  | nil => rfl
  | cons l ls ih =>
    simp only [List.cons_append, readLines]
    cases h : readLine st l with
    | ok st' => simp only [Res.bind]; exact ih st'
    | error => rfl
    | unsupported => rfl

def encAll (enc0 encM : List Bytes) (es : List (Bytes × Glyph)) : List Bytes :=
  es.foldl (fun e x => setEnc e (charCode x.1 encM 0) x.1) enc0

def roundE (e : Bytes × Glyph) : Bytes × Glyph := (e.1, roundG e.2)

theorem readLines_glyphs (encM : List Bytes) (hlen : encM.length ≤ 256) (es : List (Bytes × Glyph)) :
    ∀ (mm : Metrics) (k : Bool), (∀ e ∈ es, isName e.1 = true ∧ GlyphWF e.2) → (es.map (·.1)).Nodup →
    (∀ e ∈ es, lookup e.1 mm.glyphs = none) →
    readLines ⟨mm, true, k⟩ (es.map (fun e => glyphLine encM e.1 e.2)) =
      .ok ⟨{ mm with encoding := encAll mm.encoding encM es, glyphs := insAll mm.glyphs (es.map roundE) }, true, k⟩ := by
  induction es with
  | nil => intro mm k _ _ _; rfl
  | cons e rest ih =>
    intro mm k hwf hnd hnew
    have he := hwf e (by simp)
    simp only [List.map_cons, readLines]
    rw [readLine_glyph mm k encM e.1 e.2 he.1 he.2 hlen (hnew e (by simp))]
    simp only [Res.bind]
    have hnd' := List.nodup_cons.mp hnd
    rw [ih _ k (fun e' he' => hwf e' (by simp [he'])) hnd'.2 ?_]
    · simp [encAll, insAll, roundE]
    · intro e' he'
      simp only
      apply lookup_upsert_ne _ _ _ _ (hnew e (by simp)) ?_ (hnew e' (by simp [he']))
      intro heq
      apply hnd'.1
      exact List.mem_map.mpr ⟨e', he', heq⟩

theorem readLines_kern (ks : List KernPair) :
    ∀ (mm : Metrics), (∀ k ∈ ks, isTok k.left = true ∧ isTok k.right = true ∧ Int16 k.adjust) →
    readLines ⟨mm, false, true⟩ (ks.map kernLine) = .ok ⟨{ mm with kern := mm.kern ++ ks }, false, true⟩ := by
  induction ks with
  | nil => intro mm _; simp [readLines]
  | cons k rest ih =>
    intro mm h
    have hk := h k (by simp)
    simp only [List.map_cons, readLines]
    rw [readLine_kern mm k hk.1 hk.2.1 hk.2.2]
    simp only [Res.bind]
    rw [ih _ (fun k' hk' => h k' (by simp [hk']))]
    simp

/-! ### the glyph map is rebuilt -/

theorem insAll_spec {β : Type} (es : List (Bytes × β)) :
    ∀ (base : List (Bytes × β)), Sorted base → (es.map (·.1)).Nodup → (∀ e ∈ es, lookup e.1 base = none) →
    Sorted (insAll base es) ∧ (insAll base es).Perm (es ++ base) := by
  induction es with
  | nil => intro base hs _ _; exact ⟨hs, by simp [insAll]⟩
  | cons e rest ih =>
    intro base hs hnd hnew
    obtain ⟨k, v⟩ := e
    have hnd' := List.nodup_cons.mp hnd
    have h0 := hnew (k, v) (by simp)
    have hrest : ∀ e ∈ rest, lookup e.1 (upsert k v base) = none := by
      intro e' he'
      apply lookup_upsert_ne _ _ _ _ h0 ?_ (hnew e' (by simp [he']))
      intro heq
      apply hnd'.1
      exact List.mem_map.mpr ⟨e', he', heq⟩
    obtain ⟨h1, h2⟩ := ih (upsert k v base) (upsert_sorted k v base hs h0) hnd'.2 hrest
    have : insAll base ((k, v) :: rest) = insAll (upsert k v base) rest := by simp [insAll]
    rw [this]
    refine ⟨h1, h2.trans ?_⟩
    have hp := upsert_perm k v base h0
    exact ((List.Perm.append_left rest hp).trans List.perm_middle)

theorem sorted_eq_of_perm {β : Type} (a b : List (Bytes × β)) (ha : Sorted a) (hb : Sorted b) (hp : a.Perm b) :
    a = b := by
  have hanti : ∀ x y : Bytes × β, x ∈ a → y ∈ b → Query.nameLt x.1 y.1 = true → Query.nameLt y.1 x.1 = true → x = y := by
    intro x y _ _ h1 h2
    rw [nameLt_asymm _ _ h1] at h2
    exact absurd h2 (by decide)
  unfold Sorted at ha hb
  exact List.Perm.eq_of_pairwise (le := fun x y => Query.nameLt x.1 y.1 = true) hanti ha hb hp

theorem sorted_map {β : Type} (f : β → β) (l : List (Bytes × β)) (h : Sorted l) :
    Sorted (l.map (fun e => (e.1, f e.2))) := by
  unfold Sorted at h ⊢
  rw [List.pairwise_map]
  exact h

theorem sorted_keys_nodup {β : Type} (l : List (Bytes × β)) (h : Sorted l) : (l.map (·.1)).Nodup := by
  unfold Sorted at h
  rw [List.Nodup, List.pairwise_map]
  apply List.Pairwise.imp _ h
  intro a b hab heq
  rw [heq, nameLt_irrefl] at hab
  exact absurd hab (by decide)

theorem insAll_rebuild (G es : List (Bytes × Glyph)) (hs : Sorted G) (hp : es.Perm G) :
    insAll [] (es.map roundE) = G.map roundE := by
  have hnd : ((es.map roundE).map (·.1)).Nodup := by
    have : (es.map roundE).map (·.1) = es.map (·.1) := by simp [roundE, Function.comp_def]
    rw [this]
    exact (List.Perm.nodup_iff (hp.map _)).mpr (sorted_keys_nodup G hs)
  obtain ⟨h1, h2⟩ := insAll_spec (es.map roundE) [] (by simp [Sorted]) hnd (by intro e _; rfl)
  apply sorted_eq_of_perm _ _ h1 (sorted_map roundG G hs)
  simp only [List.append_nil] at h2
  exact h2.trans (hp.map _)

/-! ### the glyph lines are the glyph map in some order -/

def entOf (G : List (Bytes × Glyph)) (name : Bytes) : Option (Bytes × Glyph) :=
  (lookup name G).map (fun g => (name, g))

def entsOf (m : Metrics) : List (Bytes × Glyph) :=
  (Query.glyphList (m.glyphs.map (·.1)) m.encoding).filterMap (entOf m.glyphs)

theorem glyphLines_eq (m : Metrics) :
    glyphLines m = (entsOf m).map (fun e => glyphLine m.encoding e.1 e.2) := by
  unfold glyphLines entsOf
  rw [List.map_filterMap]
  congr 1
  funext name
  unfold entOf
  cases lookup name m.glyphs <;> rfl

theorem filterMap_eq_self {α : Type} (l : List α) (f : α → Option α) (h : ∀ e ∈ l, f e = some e) :
    l.filterMap f = l := by
  induction l with
  | nil => rfl
  | cons a as ih =>
    rw [List.filterMap_cons, h a (by simp)]
    simp only
    rw [ih (fun e he => h e (by simp [he]))]

theorem filterMap_entOf_keys (G : List (Bytes × Glyph)) (hs : Sorted G) :
    (G.map (·.1)).filterMap (entOf G) = G := by
  rw [List.filterMap_map]
  have : ∀ e ∈ G, (entOf G ∘ (fun x => x.1)) e = some e := by
    intro e he
    obtain ⟨k, v⟩ := e
    simp only [Function.comp, entOf]
    rw [lookup_mem k v G hs he]
    rfl
  exact filterMap_eq_self _ _ this

theorem entsOf_perm (m : Metrics) (hs : Sorted m.glyphs) : (entsOf m).Perm m.glyphs := by
  unfold entsOf Query.glyphList
  dsimp only
  refine (List.Perm.filterMap _ (List.mergeSort_perm _ _)).trans ?_
  split
  · rw [filterMap_entOf_keys _ hs]
  · rename_i hc
    rw [List.filterMap_append, filterMap_entOf_keys _ hs]
    have : entOf m.glyphs Query.notdef = none := by
      unfold entOf
      have : lookup Query.notdef m.glyphs = none := by
        rw [lookup_none_iff]
        intro e he heq
        apply hc
        rw [List.contains_iff_mem]
        exact List.mem_map.mpr ⟨e, he, heq⟩
      rw [this]; rfl
    simp [this]

/-! ### the encoding is rebuilt -/

theorem charCode_spec (n : Bytes) (enc : List Bytes) (k : Nat) :
    (charCode n enc k = -1 ∧ n ∉ enc) ∨
    ∃ j, j < enc.length ∧ charCode n enc k = ((k + j : Nat) : Int) ∧ enc[j]? = some n := by
  induction enc generalizing k with
  | nil => left; exact ⟨rfl, by simp⟩
  | cons a as ih =>
    unfold charCode
    by_cases h : a = n
    · right; rw [if_pos h]; exact ⟨0, by simp, by simp, by simp [h]⟩
    · rw [if_neg h]
      rcases ih (k + 1) with ⟨h1, h2⟩ | ⟨j, hj, h1, h2⟩
      · left; refine ⟨h1, ?_⟩
        simp only [List.mem_cons, not_or]; exact ⟨fun e => h e.symm, h2⟩
      · right; refine ⟨j + 1, by simp; omega, ?_, by simpa using h2⟩
        rw [h1]; congr 1; omega

/-- entry `i` of an encoding, `.notdef` outside -/
def gd (l : List Bytes) (i : Nat) : Bytes := (l[i]?).getD notdef

theorem gd_of_ge (l : List Bytes) (i : Nat) (h : l.length ≤ i) : gd l i = notdef := by
  unfold gd; rw [List.getElem?_eq_none h]; rfl

theorem gd_mem (l : List Bytes) (i : Nat) (h : i < l.length) : gd l i ∈ l := by
  unfold gd; rw [List.getElem?_eq_getElem h]; simp

theorem gd_set (l : List Bytes) (j i : Nat) (a : Bytes) (hj : j < l.length) :
    gd (l.set j a) i = if j = i then a else gd l i := by
  unfold gd
  rw [List.getElem?_set]
  by_cases h : j = i
  · simp [h, hj]; subst h; simp [hj]
  · simp [h]

/-- names in the encoding other than `.notdef` occur once -/
def EncInj (M : List Bytes) : Prop := M.Pairwise (fun a b => a ≠ b ∨ a = notdef)

theorem encInj_idx (M : List Bytes) (h : EncInj M) (i j : Nat) (hi : i < M.length) (hj : j < M.length)
    (hne : i ≠ j) (heq : gd M i = gd M j) : gd M i = notdef := by
  unfold EncInj at h
  rw [List.pairwise_iff_getElem] at h
  unfold gd at heq ⊢
  rw [List.getElem?_eq_getElem hi] at heq ⊢
  rw [List.getElem?_eq_getElem hj] at heq
  simp only [Option.getD_some] at heq ⊢
  by_cases hlt : i < j
  · rcases h i j hi hj hlt with h1 | h1
    · exact absurd heq h1
    · exact h1
  · have hlt' : j < i := by omega
    rcases h j i hj hi hlt' with h1 | h1
    · exact absurd heq.symm h1
    · rw [heq]; exact h1

theorem setEnc_length (E : List Bytes) (c : Int) (n : Bytes) : (setEnc E c n).length = E.length := by
  unfold setEnc; split <;> simp

theorem encAll_inv (M : List Bytes) (hlen : M.length = 256) (hinj : EncInj M) (es : List (Bytes × Glyph)) :
    ∀ (E S : List Bytes), E.length = 256 →
    (∀ i, (gd M i ∈ S → gd E i = gd M i) ∧ (gd M i ∉ S → gd E i = notdef)) →
    (encAll E M es).length = 256 ∧
    ∀ i, (gd M i ∈ es.map (·.1) ++ S → gd (encAll E M es) i = gd M i) ∧
         (gd M i ∉ es.map (·.1) ++ S → gd (encAll E M es) i = notdef) := by
  induction es with
  | nil => intro E S hE hinv; exact ⟨hE, by simpa [encAll] using hinv⟩
  | cons e rest ih =>
    intro E S hE hinv
    obtain ⟨n, g⟩ := e
    have hstep : encAll E M ((n, g) :: rest) = encAll (setEnc E (charCode n M 0) n) M rest := by
      simp [encAll]
    rw [hstep]
    have hE1 : (setEnc E (charCode n M 0) n).length = 256 := by rw [setEnc_length]; exact hE
    have hinv1 : ∀ i, (gd M i ∈ n :: S → gd (setEnc E (charCode n M 0) n) i = gd M i) ∧
        (gd M i ∉ n :: S → gd (setEnc E (charCode n M 0) n) i = notdef) := by
      intro i
      rcases charCode_spec n M 0 with ⟨hc, hnm⟩ | ⟨j, hj, hc, hjn⟩
      · have hs : setEnc E (charCode n M 0) n = E := by
          unfold setEnc; rw [hc]; simp
        rw [hs]
        constructor
        · intro hm
          simp only [List.mem_cons] at hm
          rcases hm with hm | hm
          · by_cases hi : i < M.length
            · exact absurd (hm ▸ gd_mem M i hi) hnm
            · rw [gd_of_ge M i (by omega), gd_of_ge E i (by omega)]
          · exact (hinv i).1 hm
        · intro hm
          exact (hinv i).2 (fun h => hm (by simp [h]))
      · have hjn' : gd M j = n := by unfold gd; rw [hjn]; rfl
        have hs : setEnc E (charCode n M 0) n = E.set j n := by
          unfold setEnc; rw [hc]
          have : (0:Int) ≤ ((0 + j : Nat) : Int) ∧ ((0 + j : Nat) : Int) < 256 := by omega
          rw [if_pos this]; congr 1; omega
        rw [hs, gd_set E j i n (by omega)]
        by_cases hji : j = i
        · subst hji
          simp only [if_true]
          exact ⟨fun _ => hjn'.symm, fun hm => absurd (by simp [hjn']) hm⟩
        · simp only [hji, if_false]
          constructor
          · intro hm
            simp only [List.mem_cons] at hm
            by_cases hmS : gd M i ∈ S
            · exact (hinv i).1 hmS
            · have hmn : gd M i = n := by rcases hm with h | h; exact h; exact absurd h hmS
              rw [(hinv i).2 hmS]
              by_cases hi : i < M.length
              · exact (encInj_idx M hinj i j hi hj (fun e => hji e.symm) (by rw [hmn, hjn'])).symm
              · rw [gd_of_ge M i (by omega)]
          · intro hm
            exact (hinv i).2 (fun h => hm (by simp [h]))
    obtain ⟨h1, h2⟩ := ih _ (n :: S) hE1 hinv1
    refine ⟨h1, fun i => ?_⟩
    have hmem : gd M i ∈ List.map (fun x => x.1) ((n, g) :: rest) ++ S ↔ gd M i ∈ List.map (fun x => x.1) rest ++ n :: S := by
      simp only [List.map_cons, List.mem_append, List.mem_cons]
      constructor
      · rintro ((h | h) | h)
        · right; left; exact h
        · left; exact h
        · right; right; exact h
      · rintro (h | h | h)
        · left; right; exact h
        · left; left; exact h
        · right; exact h
    exact ⟨fun h => (h2 i).1 (hmem.mp h), fun h => (h2 i).2 (fun h' => h (hmem.mpr h'))⟩

theorem eq_of_gd (E M : List Bytes) (hl : E.length = M.length) (h : ∀ i, gd E i = gd M i) : E = M := by
  apply List.ext_getElem? 
  intro i
  by_cases hi : i < E.length
  · have hi' : i < M.length := by omega
    have := h i
    unfold gd at this
    rw [List.getElem?_eq_getElem hi, List.getElem?_eq_getElem hi'] at this ⊢
    simp only [Option.getD_some] at this
    rw [this]
  · rw [List.getElem?_eq_none (by omega), List.getElem?_eq_none (by omega)]

def EncOK (m : Metrics) : Prop :=
  m.encoding.length = 256 ∧ EncInj m.encoding ∧
  ∀ n ∈ m.encoding, n = notdef ∨ (lookup n m.glyphs).isSome = true

theorem gd_replicate (n i : Nat) : gd (List.replicate n notdef) i = notdef := by
  unfold gd
  by_cases h : i < n
  · rw [List.getElem?_replicate]; simp [h]
  · rw [List.getElem?_eq_none (by rw [List.length_replicate]; omega)]; rfl

theorem lookup_some_mem {β : Type} (k : Bytes) (v : β) (l : List (Bytes × β)) (h : lookup k l = some v) :
    (k, v) ∈ l := by
  induction l with
  | nil => simp [lookup] at h
  | cons e es ih =>
    obtain ⟨k', v'⟩ := e
    unfold lookup at h
    by_cases hk : k' = k
    · rw [if_pos hk] at h
      simp only [Option.some.injEq] at h
      rw [hk, h]; simp
    · rw [if_neg hk] at h
      simp [ih h]

theorem encAll_rebuild (m : Metrics) (hs : Sorted m.glyphs) (henc : EncOK m) (es : List (Bytes × Glyph))
    (hp : es.Perm m.glyphs) : encAll (List.replicate 256 notdef) m.encoding es = m.encoding := by
  obtain ⟨hlen, hinj, hmem⟩ := henc
  obtain ⟨h1, h2⟩ := encAll_inv m.encoding hlen hinj es (List.replicate 256 notdef) [] List.length_replicate
    (fun i => ⟨fun h => absurd h List.not_mem_nil, fun _ => gd_replicate 256 i⟩)
  apply eq_of_gd _ _ (by rw [h1, hlen])
  intro i
  by_cases hk : gd m.encoding i ∈ es.map (·.1) ++ []
  · exact (h2 i).1 hk
  · rw [(h2 i).2 hk]
    by_cases hi : i < m.encoding.length
    · rcases hmem _ (gd_mem m.encoding i hi) with h | h
      · exact h.symm
      · exfalso
        apply hk
        simp only [List.append_nil]
        cases hl : lookup (gd m.encoding i) m.glyphs with
        | none => rw [hl] at h; simp at h
        | some v =>
          have he := lookup_some_mem _ _ _ hl
          exact List.mem_map.mpr ⟨_, (hp.mem_iff).mpr he, rfl⟩
    · rw [gd_of_ge _ _ (by omega)]

/-! ### no line ends inside the lines -/

def NoNL (l : Bytes) : Prop := ∀ b ∈ l, b ≠ 10 ∧ b ≠ 13

theorem NoNL_plain (l : Bytes) (h : ∀ b ∈ l, plain b = true) : NoNL l := by
  intro b hb
  have := h b hb
  simp only [plain, isAsciiSpace, Bool.and_eq_true, decide_eq_true_eq, Bool.not_eq_true', Bool.or_eq_false_iff,
    decide_eq_false_iff_not] at this
  omega

theorem NoNL_tok (l : Bytes) (h : isTok l = true) : NoNL l := by
  intro b hb
  have := tok_no_space l (isTok_tokOK l h) b hb
  simp only [isAsciiSpace, Bool.or_eq_false_iff, decide_eq_false_iff_not] at this
  omega

theorem NoNL_append (a b : Bytes) (ha : NoNL a) (hb : NoNL b) : NoNL (a ++ b) := by
  intro x hx
  rcases List.mem_append.mp hx with h | h
  · exact ha x h
  · exact hb x h

theorem NoNL_cons (a : Nat) (b : Bytes) (ha : a ≠ 10 ∧ a ≠ 13) (hb : NoNL b) : NoNL (a :: b) := by
  intro x hx
  rcases List.mem_cons.mp hx with h | h
  · rw [h]; exact ha
  · exact hb x h

theorem NoNL_nil : NoNL [] := by intro b hb; simp at hb

theorem NoNL_sp (a b : Bytes) (ha : NoNL a) (hb : NoNL b) : NoNL (sp a b) :=
  NoNL_append _ _ ha (NoNL_cons _ _ (by decide) hb)

theorem NoNL_joinSp (ws : List Bytes) (h : ∀ w ∈ ws, NoNL w) : NoNL (joinSp ws) := by
  induction ws with
  | nil => exact NoNL_nil
  | cons a as ih =>
    cases as with
    | nil => exact h a (by simp)
    | cons b bs =>
      rw [joinSp]
      exact NoNL_append _ _ (h a (by simp)) (NoNL_cons _ _ (by decide) (ih (fun w hw => h w (by simp [hw]))))

theorem NoNL_text (v : Bytes) (h : isText v = true) : NoNL v := by
  unfold isText at h
  rw [beq_iff_eq] at h
  rw [← h]
  exact NoNL_joinSp _ (fun w hw => NoNL_tok w (fields_isTok v w hw))

theorem NoNL_sub (a b : Bytes) (hb : NoNL b) (h : ∀ x ∈ a, x ∈ b) : NoNL a :=
  fun x hx => hb x (h x hx)

theorem splitOn_ne_nil (c : Nat) (l : Bytes) : splitOn c l ≠ [] := by
  cases l with
  | nil => simp [splitOn]
  | cons b bs =>
    unfold splitOn
    split
    · simp
    · split <;> simp

theorem NoNL_keyword (k : Bytes) (h : k.all (fun b => b != 10 && b != 13) = true) : NoNL k := by
  intro b hb
  have := List.all_eq_true.mp h b hb
  simpa using this

theorem NoNL_ligText (ligs : List (Bytes × Bytes)) (h : ∀ e ∈ ligs, isName e.1 = true ∧ isName e.2 = true) :
    NoNL (ligText ligs) := by
  induction ligs with
  | nil => exact NoNL_nil
  | cons e rest ih =>
    obtain ⟨s, l⟩ := e
    have he := h (s, l) (by simp)
    unfold ligText
    refine NoNL_append _ _ (NoNL_append _ _ (NoNL_append _ _ (NoNL_append _ _ (NoNL_append _ _ ?_ ?_) ?_) ?_) ?_) ?_
    · exact NoNL_keyword _ (by decide)
    · exact NoNL_tok _ (isName_tok _ he.1)
    · exact NoNL_keyword _ (by decide)
    · exact NoNL_tok _ (isName_tok _ he.2)
    · exact NoNL_keyword _ (by decide)
    · exact ih (fun e' he' => h e' (by simp [he']))

theorem NoNL_glyphLine (enc : List Bytes) (name : Bytes) (g : Glyph) (hn : isName name = true)
    (hl : ∀ e ∈ g.ligs, isName e.1 = true ∧ isName e.2 = true) : NoNL (glyphLine enc name g) := by
  unfold glyphLine
  have hk : ∀ k : Bytes, k.all (fun b => b != 10 && b != 13) = true → NoNL k := NoNL_keyword
  have hf : ∀ x, NoNL (fmt0 x) := fun x => NoNL_plain _ (fmt0_plain x)
  repeat (first
    | apply NoNL_append
    | exact hf _
    | exact NoNL_plain _ (decInt_plain _)
    | exact NoNL_tok _ (isName_tok _ hn)
    | exact NoNL_ligText _ hl
    | exact hk _ (by decide))

theorem NoNL_kernLine (k : KernPair) (hl : isTok k.left = true) (hr : isTok k.right = true) : NoNL (kernLine k) := by
  unfold kernLine
  exact NoNL_sp _ _ (NoNL_keyword _ (by decide)) (NoNL_sp _ _ (NoNL_tok _ hl) (NoNL_sp _ _ (NoNL_tok _ hr)
    (NoNL_plain _ (decInt_plain _))))

/-! ### the values the reader can produce, and the rounding of one cycle -/

/-- structural well-formedness: what every value returned by the reader satisfies -/
def WF (m : Metrics) : Prop :=
  Sorted m.glyphs ∧ (∀ e ∈ m.glyphs, isName e.1 = true ∧ GlyphWF e.2) ∧ EncOK m ∧
  (m.fontName = [] ∨ isTok m.fontName = true) ∧ isText m.fullName = true ∧ isText m.version = true ∧
  isText m.notice = true ∧ ∀ k ∈ m.kern, isTok k.left = true ∧ isTok k.right = true ∧ Int16 k.adjust

/-- the effect of one write/read cycle on the numbers -/
def roundM (m : Metrics) : Metrics :=
  { m with glyphs := m.glyphs.map roundE,
           capHeight := roundF m.capHeight, xHeight := roundF m.xHeight, ascent := roundF m.ascent,
           descent := roundF m.descent, underlinePosition := roundF m.underlinePosition,
           underlineThickness := roundF m.underlineThickness, italicAngle := roundI m.italicAngle }

theorem entsOf_wf (m : Metrics) (h : WF m) :
    (∀ e ∈ entsOf m, isName e.1 = true ∧ GlyphWF e.2) ∧ ((entsOf m).map (·.1)).Nodup := by
  have hp := entsOf_perm m h.1
  refine ⟨fun e he => h.2.1 e (hp.mem_iff.mp he), ?_⟩
  exact (List.Perm.nodup_iff (hp.map _)).mpr (sorted_keys_nodup _ h.1)

theorem lines_NoNL (m : Metrics) (h : WF m) (ia : Bytes) (hia : NoNL ia) :
    ∀ l ∈ writeLinesWith m ia, 10 ∉ l ∧ 13 ∉ l := by
  obtain ⟨hs, hg, henc, hfn, hfull, hver, hnot, hkern⟩ := h
  have hk : ∀ k : Bytes, k.all (fun b => b != 10 && b != 13) = true → NoNL k := NoNL_keyword
  have key : ∀ l ∈ writeLinesWith m ia, NoNL l := by
    intro l hl
    unfold writeLinesWith headLines tailLines at hl
    simp only [List.mem_append, List.mem_cons, List.mem_singleton, List.mem_map] at hl
    have hfullN := NoNL_text _ hfull
    have hf : ∀ x, NoNL (fmt0 x) := fun x => NoNL_plain _ (fmt0_plain x)
    have hd : ∀ i, NoNL (decInt i) := fun i => NoNL_plain _ (decInt_plain i)
    have hn : ∀ n, NoNL (decNat n) := fun n => NoNL_plain _ (digits_plain _ (decNat_digits n))
    have hpieces : ∀ p ∈ splitOn 32 m.fullName, NoNL p :=
      fun p hp => NoNL_sub p _ hfullN (splitOn_pieces 32 m.fullName p hp).2
    rcases hl with (((((hl | hl | hl | hl) | hl) | hl) | hl) | hl) | ((hl | hl) | hl)
    · subst hl; exact hk _ (by decide)
    · subst hl
      refine NoNL_sp _ _ (hk _ (by decide)) ?_
      rcases hfn with h | h
      · rw [h]; exact NoNL_nil
      · exact NoNL_tok _ h
    · subst hl; exact NoNL_sp _ _ (hk _ (by decide)) hfullN
    · simp at hl
    · split at hl
      · simp only [List.mem_singleton] at hl; subst hl
        exact NoNL_sp _ _ (hk _ (by decide)) (NoNL_text _ hver)
      · simp at hl
    · split at hl
      · simp only [List.mem_singleton] at hl; subst hl
        exact NoNL_sp _ _ (hk _ (by decide)) (NoNL_text _ hnot)
      · simp at hl
    · rcases hl with hl | hl | hl | hl | hl | hl | hl | hl | hl | hl | hl | hl | hl
      · subst hl
        refine NoNL_sp _ _ (hk _ (by decide)) ?_
        have hne := splitOn_ne_nil 32 m.fullName
        cases hsp : splitOn 32 m.fullName with
        | nil => exact absurd hsp hne
        | cons a as => exact hpieces a (by rw [hsp]; simp)
      · subst hl
        refine NoNL_sp _ _ (hk _ (by decide)) (NoNL_joinSp _ (fun w hw => hpieces w (List.mem_of_mem_tail hw)))
      · subst hl
        exact NoNL_sp _ _ (hk _ (by decide)) (NoNL_sp _ _ (hd _) (NoNL_sp _ _ (hd _) (NoNL_sp _ _ (hd _) (hd _))))
      · subst hl; exact NoNL_sp _ _ (hk _ (by decide)) hia
      · subst hl; exact NoNL_sp _ _ (hk _ (by decide)) (by split <;> exact hk _ (by decide))
      · subst hl; exact NoNL_sp _ _ (hk _ (by decide)) (hf _)
      · subst hl; exact NoNL_sp _ _ (hk _ (by decide)) (hf _)
      · subst hl; exact NoNL_sp _ _ (hk _ (by decide)) (hf _)
      · subst hl; exact NoNL_sp _ _ (hk _ (by decide)) (hf _)
      · subst hl; exact NoNL_sp _ _ (hk _ (by decide)) (hf _)
      · subst hl; exact NoNL_sp _ _ (hk _ (by decide)) (hf _)
      · subst hl; exact NoNL_sp _ _ (hk _ (by decide)) (hn _)
      · simp at hl
    · rw [glyphLines_eq] at hl
      simp only [List.mem_map] at hl
      obtain ⟨e, he, rfl⟩ := hl
      have hw := (entsOf_wf m ⟨hs, hg, henc, hfn, hfull, hver, hnot, hkern⟩).1 e he
      exact NoNL_glyphLine _ _ _ hw.1 hw.2.2.2
    · rcases hl with hl | hl
      · subst hl; exact hk _ (by decide)
      · simp at hl
    · split at hl
      · simp only [List.mem_append, List.mem_cons, List.mem_map, List.mem_singleton] at hl
        rcases hl with ((hl | hl | hl) | ⟨k, hk', rfl⟩) | hl | hl | hl
        · subst hl; exact hk _ (by decide)
        · subst hl; exact NoNL_sp _ _ (hk _ (by decide)) (hn _)
        · simp at hl
        · exact NoNL_kernLine k (hkern k hk').1 (hkern k hk').2.1
        · subst hl; exact hk _ (by decide)
        · subst hl; exact hk _ (by decide)
        · simp at hl
      · simp at hl
    · rcases hl with hl | hl
      · subst hl; exact hk _ (by decide)
      · simp at hl
  intro l hl
  exact ⟨fun h10 => ((key l hl) 10 h10).1 rfl, fun h13 => ((key l hl) 13 h13).2 rfl⟩

/-! ### the main theorem: reading what the writer wrote -/

theorem readLines_cons (st : St) (l : Bytes) (ls : List Bytes) :
    readLines st (l :: ls) = (readLine st l).bind (fun st' => readLines st' ls) := rfl

theorem readLines_nil (st : St) : readLines st [] = .ok st := rfl

theorem bind_ok {α β : Type} (a : α) (f : α → Res β) : (Res.ok a).bind f = f a := rfl

/-- the written lines with the glyph lines in the order `es` -/
def linesInOrder (m : Metrics) (es : List (Bytes × Glyph)) : List Bytes :=
  headLines m (italicText m.italicAngle) ++ es.map (fun e => glyphLine m.encoding e.1 e.2) ++ tailLines m

/-- the reader run over the written lines, the glyph lines in any order -/
theorem readLines_inOrder (m : Metrics) (h : WF m) (es : List (Bytes × Glyph)) (hp : es.Perm m.glyphs) :
    readLines ⟨emptyMetrics, false, false⟩ (linesInOrder m es) = .ok ⟨roundM m, false, false⟩ := by
  have hwf := h
  obtain ⟨hs, hg, henc, hfn, hfull, hver, hnot, hkern⟩ := h
  unfold linesInOrder headLines tailLines
  dsimp only
  simp only [readLines_append]
  -- first three lines
  have hA : readLines ⟨emptyMetrics, false, false⟩
      [kStartFontMetrics41, sp kFontName m.fontName, sp kFullName m.fullName] =
      .ok ⟨{ emptyMetrics with fontName := m.fontName, fullName := m.fullName }, false, false⟩ := by
    simp only [readLines_cons, readLines_nil, readLine_first, bind_ok]
    rw [readLine_FontName _ _ (by rcases hfn with h | h; exact Or.inl h; exact Or.inr h) (fun _ => rfl)]
    simp only [bind_ok]
    rw [readLine_FullName _ _ hfull (fun _ => rfl)]
    rfl
  rw [hA]
  simp only [bind_ok]
  -- Version
  have hV : ∀ mm : Metrics, mm.version = [] →
      readLines ⟨mm, false, false⟩ (if m.version ≠ [] then [sp kVersion m.version] else []) =
      .ok ⟨{ mm with version := m.version }, false, false⟩ := by
    intro mm h0
    by_cases hv : m.version = []
    · simp only [hv, ne_eq, not_true_eq_false, if_false, readLines_nil]
      cases mm; simp_all
    · simp only [ne_eq, hv, not_false_eq_true, if_true, readLines_cons, readLines_nil]
      rw [readLine_Version _ _ hver hv]; rfl
  rw [hV _ rfl]
  simp only [bind_ok]
  have hN : ∀ mm : Metrics, mm.notice = [] →
      readLines ⟨mm, false, false⟩ (if m.notice ≠ [] then [sp kNotice m.notice] else []) =
      .ok ⟨{ mm with notice := m.notice }, false, false⟩ := by
    intro mm h0
    by_cases hv : m.notice = []
    · simp only [hv, ne_eq, not_true_eq_false, if_false, readLines_nil]
      cases mm; simp_all
    · simp only [ne_eq, hv, not_false_eq_true, if_true, readLines_cons, readLines_nil]
      rw [readLine_Notice _ _ hnot hv]; rfl
  rw [hN _ rfl]
  simp only [bind_ok]
  -- the rest of the header
  simp only [readLines_cons, readLines_nil, readLine_FamilyName, readLine_Weight, readLine_FontBBox,
    readLine_ItalicAngle, readLine_IsFixedPitch, readLine_UnderlinePosition, readLine_UnderlineThickness,
    readLine_CapHeight, readLine_XHeight, readLine_Ascender, readLine_Descender, readLine_StartCharMetrics,
    bind_ok]
  -- glyphs
  have hew : ∀ e ∈ es, isName e.1 = true ∧ GlyphWF e.2 := fun e he => hg e (hp.mem_iff.mp he)
  have hend : (es.map (·.1)).Nodup := (List.Perm.nodup_iff (hp.map _)).mpr (sorted_keys_nodup _ hs)
  rw [readLines_glyphs m.encoding (by rw [henc.1]; decide) es _ false hew hend (fun e _ => rfl)]
  simp only [bind_ok, readLine_EndCharMetrics]
  have hG : insAll ([] : List (Bytes × Glyph)) (es.map roundE) = m.glyphs.map roundE :=
    insAll_rebuild m.glyphs es hs hp
  have hE : encAll (List.replicate 256 notdef) m.encoding es = m.encoding :=
    encAll_rebuild m hs henc es hp
  -- kerning
  by_cases hk : m.kern = []
  · simp only [hk, ne_eq, not_true_eq_false, if_false, readLines_nil, bind_ok, readLine_EndFontMetrics]
    simp only [emptyMetrics, hG, hE, roundM, hk]
  · simp only [ne_eq, hk, not_false_eq_true, if_true, readLines_append, readLines_cons, readLines_nil,
      readLine_StartKernData, readLine_StartKernPairs, bind_ok]
    rw [readLines_kern m.kern _ hkern]
    simp only [bind_ok, readLine_EndKernPairs, readLine_EndKernData, readLine_EndFontMetrics]
    simp only [emptyMetrics, hG, hE, roundM, List.nil_append]

theorem writeLines_eq (m : Metrics) :
    writeLinesWith m (italicText m.italicAngle) = linesInOrder m (entsOf m) := by
  unfold writeLinesWith linesInOrder
  rw [glyphLines_eq]

theorem readCore_write (m : Metrics) (h : WF m) : readCore (write m) = .ok (roundM m) := by
  have hia : NoNL (italicText m.italicAngle) := NoNL_plain _ (italicText_plain _)
  unfold readCore write
  rw [scanLines_unlines _ (lines_NoNL m h _ hia), writeLines_eq, readLines_inOrder m h _ (entsOf_perm m h.1)]
  rfl

/-- the glyph lines may come in any order (`Write` sorts them by code, then name) -/
theorem readCore_inOrder (m : Metrics) (h : WF m) (es : List (Bytes × Glyph)) (hp : es.Perm m.glyphs) :
    readCore (unlines (linesInOrder m es)) = .ok (roundM m) := by
  have hia : NoNL (italicText m.italicAngle) := NoNL_plain _ (italicText_plain _)
  have hmem : ∀ l ∈ linesInOrder m es, l ∈ writeLinesWith m (italicText m.italicAngle) := by
    intro l hl
    rw [writeLines_eq]
    unfold linesInOrder at hl ⊢
    simp only [List.mem_append, List.mem_map] at hl ⊢
    rcases hl with (hl | ⟨e, he, rfl⟩) | hl
    · exact Or.inl (Or.inl hl)
    · exact Or.inl (Or.inr ⟨e, (entsOf_perm m h.1).mem_iff.mpr (hp.mem_iff.mp he), rfl⟩)
    · exact Or.inr hl
  unfold readCore
  rw [scanLines_unlines _ (fun l hl => lines_NoNL m h _ hia l (hmem l hl)), readLines_inOrder m h es hp]
  rfl

/-! ### the integral domain -/

theorem toInt64_ofInt (n : Int) (h : n.natAbs < 2 ^ 53) : toInt64 (ofInt n) = some n := by
  obtain ⟨a, b, c, d, e⟩ := ofDyadic_rep (decide (n < 0)) n.natAbs (rep_small _ h)
  unfold toInt64
  rw [ofInt_eq, a, b]
  simp only [Bool.or_self, Bool.false_eq_true, if_false]
  rw [e, c]
  by_cases hneg : n < 0
  · simp only [hneg, decide_true, if_true]
    have : -(n.natAbs : Int) = n := by omega
    rw [this, if_pos (by omega)]
  · simp only [hneg, decide_false, Bool.false_eq_true, if_false]
    have : (n.natAbs : Int) = n := by omega
    rw [this, if_pos (by omega)]

theorem intOr0_ofInt (n : Int) (h : n.natAbs < 2 ^ 53) : intOr0 (ofInt n) = n := by
  unfold intOr0; rw [toInt64_ofInt n h]; rfl

/-- a float that is an integer of magnitude below 2^53 -/
def IntF (x : UInt64) : Prop := x = ofInt (intOr0 x) ∧ (intOr0 x).natAbs < 2 ^ 53

instance (x : UInt64) : Decidable (IntF x) := by unfold IntF; exact inferInstance

theorem IntF_roundF (x : UInt64) (h : IntF x) : roundF x = x := by
  rw [h.1]; exact roundF_ofInt _ h.2
theorem IntF_floorF (x : UInt64) (h : IntF x) : floorF x = x := by
  rw [h.1]; exact floorF_ofInt _ h.2
theorem IntF_ceilF (x : UInt64) (h : IntF x) : ceilF x = x := by
  rw [h.1]; exact ceilF_ofInt _ h.2

theorem IntF_notNaN (x : UInt64) (h : IntF x) : isNaN x = false := by
  rw [h.1, ofInt_eq]
  exact (ofDyadic_rep _ _ (rep_small _ h.2)).1

theorem IntF_roundI (x : UInt64) (h : IntF x) : roundI x = x := by
  unfold roundI
  rw [IntF_notNaN x h, IntF_roundF x h]
  simp

instance (i : Int) : Decidable (Int16 i) := by unfold Int16; exact inferInstance
instance {β : Type} (l : List (Bytes × β)) : Decidable (Sorted l) := by unfold Sorted; exact inferInstance
instance (g : Glyph) : Decidable (GlyphWF g) := by unfold GlyphWF; exact inferInstance
instance (M : List Bytes) : Decidable (EncInj M) := by unfold EncInj; exact inferInstance
instance (m : Metrics) : Decidable (EncOK m) := by unfold EncOK; exact inferInstance
instance (m : Metrics) : Decidable (WF m) := by unfold WF; exact inferInstance

/-- the domain of the round-trip theorem: a value the reader can produce (names are tokens, texts
are words joined by single spaces, widths and kerning adjustments are 16-bit integers, the maps are
sorted, the encoding names each glyph at most once and only glyphs) all of whose numbers are
integers below 2^53 in magnitude -/
def Representable (m : Metrics) : Prop :=
  WF m ∧ IntF m.capHeight ∧ IntF m.xHeight ∧ IntF m.ascent ∧ IntF m.descent ∧
  IntF m.underlinePosition ∧ IntF m.underlineThickness ∧ IntF m.italicAngle ∧
  ∀ e ∈ m.glyphs, IntF e.2.bbox.llx ∧ IntF e.2.bbox.lly ∧ IntF e.2.bbox.urx ∧ IntF e.2.bbox.ury

instance (m : Metrics) : Decidable (Representable m) := by unfold Representable; exact inferInstance

theorem map_eq_self {α : Type} (l : List α) (f : α → α) (h : ∀ a ∈ l, f a = a) : l.map f = l := by
  induction l with
  | nil => rfl
  | cons a as ih => rw [List.map_cons, h a (by simp), ih (fun b hb => h b (by simp [hb]))]

theorem roundM_of_representable (m : Metrics) (h : Representable m) : roundM m = m := by
  obtain ⟨_, h1, h2, h3, h4, h5, h6, h7, hg⟩ := h
  unfold roundM
  rw [IntF_roundF _ h1, IntF_roundF _ h2, IntF_roundF _ h3, IntF_roundF _ h4, IntF_roundF _ h5,
    IntF_roundF _ h6, IntF_roundI _ h7]
  have : m.glyphs.map roundE = m.glyphs := by
    apply map_eq_self
    intro e he
    obtain ⟨a, b, c, d⟩ := hg e he
    obtain ⟨n, g⟩ := e
    simp only [roundE, roundG] at a b c d ⊢
    rw [IntF_floorF _ a, IntF_floorF _ b, IntF_ceilF _ c, IntF_ceilF _ d]
  rw [this]

/-- writing and re-reading a representable value gives the value back -/
theorem readCore_write_representable (m : Metrics) (h : Representable m) : readCore (write m) = .ok m := by
  rw [readCore_write m h.1, roundM_of_representable m h]

theorem read_eq (t : Bytes) : AFM.read t = readCore t := rfl

/-- the value of the package's own round-trip test, with a version and a notice added -/
def exampleMetrics : Metrics :=
  { glyphs := [
      (notdef, { widthX := ofInt 500, bbox := ⟨ofInt 0, ofInt 0, ofInt 500, ofInt 800⟩, ligs := [] }),
      ([102], { widthX := ofInt 400, bbox := ⟨ofInt 20, ofInt (-100), ofInt 500, ofInt 800⟩,
                ligs := [([102], [102, 102])] }),
      ([102, 102], { widthX := ofInt 700, bbox := ⟨ofInt 20, ofInt 100, ofInt 750, ofInt 810⟩, ligs := [] }),
      ([113, 114], { widthX := ofInt 1000, bbox := ⟨ofInt 0, ofInt 0, ofInt 1000, ofInt 1000⟩, ligs := [] })],
    encoding := [notdef, [102], notdef, [102, 102]] ++ List.replicate 252 notdef,
    fontName := [84, 101, 115, 116],                               -- "Test"
    fullName := [84, 101, 115, 116, 32, 70, 111, 110, 116],        -- "Test Font"
    version := [48, 48, 49, 46, 48, 48, 48],                       -- "001.000"
    notice := [40, 99, 41, 32, 49, 57, 57, 57, 32, 88],            -- "(c) 1999 X"
    capHeight := ofInt 750, xHeight := ofInt 451, ascent := ofInt 812, descent := ofInt (-203),
    underlinePosition := ofInt (-400), underlineThickness := ofInt 5, italicAngle := ofInt (-6),
    isFixedPitch := false,
    kern := [⟨[102], [102], -20⟩] }

theorem exampleMetrics_representable : Representable exampleMetrics := by decide +kernel

/-! ## part 4: every value the reader returns is well-formed -/

theorem upsert_mem_gen {β : Type} (k : Bytes) (v : β) (l : List (Bytes × β)) :
    ∀ e ∈ upsert k v l, e = (k, v) ∨ e ∈ l := by
  induction l with
  | nil => intro e he; simp [upsert] at he; exact Or.inl he
  | cons a as ih =>
    obtain ⟨k', v'⟩ := a
    intro e he
    unfold upsert at he
    split at he
    · simp only [List.mem_cons] at he
      rcases he with he | he
      · exact Or.inl he
      · right; simp [he]
    · split at he
      · simp only [List.mem_cons] at he
        rcases he with he | he | he
        · exact Or.inl he
        · right; simp [he]
        · right; simp [he]
      · simp only [List.mem_cons] at he
        rcases he with he | he
        · right; simp [he]
        · rcases ih e he with h | h
          · exact Or.inl h
          · right; simp [h]

theorem upsert_sorted_gen {β : Type} (k : Bytes) (v : β) (l : List (Bytes × β)) (hs : Sorted l) :
    Sorted (upsert k v l) := by
  induction l with
  | nil => simp [upsert, Sorted]
  | cons a as ih =>
    obtain ⟨k', v'⟩ := a
    have hs' := List.pairwise_cons.mp hs
    unfold upsert
    by_cases hk : k' = k
    · rw [if_pos hk]
      unfold Sorted
      rw [List.pairwise_cons]
      refine ⟨fun e he => ?_, hs'.2⟩
      have := hs'.1 e he
      simp only at this ⊢
      rw [← hk]; exact this
    · rw [if_neg hk]
      by_cases hlt : Query.nameLt k k' = true
      · rw [if_pos hlt]
        unfold Sorted
        rw [List.pairwise_cons]
        refine ⟨?_, hs⟩
        intro e he
        simp only [List.mem_cons] at he
        rcases he with he | he
        · subst he; exact hlt
        · exact nameLt_trans _ _ _ hlt (hs'.1 e he)
      · rw [if_neg hlt]
        unfold Sorted
        rw [List.pairwise_cons]
        refine ⟨?_, ih hs'.2⟩
        intro e he
        rcases upsert_mem_gen k v as e he with he | he
        · subst he
          exact nameLt_total _ _ (by simpa using hlt) (fun e => hk e.symm)
        · exact hs'.1 e he

theorem lookup_isSome_iff {β : Type} (k : Bytes) (l : List (Bytes × β)) :
    (lookup k l).isSome = true ↔ ∃ e ∈ l, e.1 = k := by
  constructor
  · intro h
    cases hl : lookup k l with
    | none => rw [hl] at h; simp at h
    | some v => exact ⟨(k, v), lookup_some_mem k v l hl, rfl⟩
  · intro ⟨e, he, hk⟩
    cases hl : lookup k l with
    | none => exact absurd hk ((lookup_none_iff k l).mp hl e he)
    | some v => rfl

/-! ### one key/value group -/

/-- what is known about the local variables of a character metrics line -/
def CInv (c : CharLine) : Prop :=
  (c.name = [] ∨ isName c.name = true) ∧ Int16 c.width ∧ Sorted c.ligs ∧
  ∀ e ∈ c.ligs, isName e.1 = true ∧ isName e.2 = true

theorem fields_names (kv : Bytes) (h : 59 ∉ kv) : ∀ t ∈ fields kv, isName t = true := by
  intro t ht
  unfold isName
  rw [fields_isTok kv t ht]
  have : t.contains 59 = false := by
    cases hc : t.contains 59 with
    | false => rfl
    | true =>
      rw [List.contains_iff_mem] at hc
      exact absurd (fields_sub kv t ht 59 hc) h
  rw [this]; rfl

theorem bbox_bind (c c' : CharLine) (r1 r2 r3 r4 : Res UInt64)
    (h : (r1.bind fun x => r2.bind fun y => r3.bind fun z => r4.bind fun w =>
      Res.ok { c with bbox := ⟨x, y, z, w⟩ }) = .ok c') : ∃ bb, c' = { c with bbox := bb } := by
  cases r1 <;> cases r2 <;> cases r3 <;> cases r4 <;> simp only [Res.bind, Res.ok.injEq] at h <;>
    first | exact ⟨_, h.symm⟩ | exact absurd h (by simp)

theorem charKV_inv (c c' : CharLine) (kv : Bytes) (h59 : 59 ∉ kv) (hc : CInv c)
    (h : charKV c kv = .ok c') : CInv c' := by
  have hnames := fields_names kv h59
  obtain ⟨h1, h2, h3, h4⟩ := hc
  unfold charKV at h
  cases hf : fields kv with
  | nil => rw [hf] at h; simp only [Res.ok.injEq] at h; subst h; exact ⟨h1, h2, h3, h4⟩
  | cons k t =>
    cases t with
    | nil => rw [hf] at h; simp only [Res.ok.injEq] at h; subst h; exact ⟨h1, h2, h3, h4⟩
    | cons v rest =>
      rw [hf] at h hnames
      have hv : isName v = true := hnames v (by simp)
      simp only at h
      by_cases hkC : k = kC
      · rw [if_pos hkC] at h
        split at h
        · simp only [Res.ok.injEq] at h; subst h; exact ⟨h1, h2, h3, h4⟩
        · exact absurd h (by simp)
      · rw [if_neg hkC] at h
        by_cases hkW : k = kWX
        · rw [if_pos hkW] at h
          split at h
          · simp only [Res.ok.injEq] at h; subst h; exact ⟨h1, wrap16_range _, h3, h4⟩
          · exact absurd h (by simp)
        · rw [if_neg hkW] at h
          by_cases hkN : k = kN
          · rw [if_pos hkN] at h
            simp only [Res.ok.injEq] at h; subst h; exact ⟨Or.inr hv, h2, h3, h4⟩
          · rw [if_neg hkN] at h
            by_cases hkB : k = kB
            · rw [if_pos hkB] at h
              split at h
              · obtain ⟨bb, hbb⟩ := bbox_bind _ _ _ _ _ _ h
                subst hbb; exact ⟨h1, h2, h3, h4⟩
              · simp only [Res.ok.injEq] at h; subst h; exact ⟨h1, h2, h3, h4⟩
            · rw [if_neg hkB] at h
              by_cases hkL : k = kL
              · rw [if_pos hkL] at h
                cases rest with
                | nil => simp only [Res.ok.injEq] at h; subst h; exact ⟨h1, h2, h3, h4⟩
                | cons l rest' =>
                  simp only [Res.ok.injEq] at h; subst h
                  have hl : isName l = true := hnames l (by simp)
                  refine ⟨h1, h2, upsert_sorted_gen _ _ _ h3, ?_⟩
                  intro e he
                  rcases upsert_mem_gen _ _ _ e he with he | he
                  · subst he; exact ⟨hv, hl⟩
                  · exact h4 e he
              · rw [if_neg hkL] at h
                simp only [Res.ok.injEq] at h; subst h; exact ⟨h1, h2, h3, h4⟩

theorem charKVs_inv (kvs : List Bytes) : ∀ (c c' : CharLine), (∀ kv ∈ kvs, 59 ∉ kv) → CInv c →
    charKVs c kvs = .ok c' → CInv c' := by
  induction kvs with
  | nil => intro c c' _ hc h; simp only [charKVs, Res.ok.injEq] at h; subst h; exact hc
  | cons kv rest ih =>
    intro c c' h59 hc h
    unfold charKVs at h
    cases hk : charKV c kv with
    | ok c1 =>
      rw [hk] at h
      simp only [Res.bind] at h
      exact ih c1 c' (fun kv' hkv' => h59 kv' (by simp [hkv'])) (charKV_inv c c1 kv (h59 kv (by simp)) hc hk) h
    | error => rw [hk] at h; simp [Res.bind] at h
    | unsupported => rw [hk] at h; simp [Res.bind] at h

theorem CInv_init : CInv {} := by
  refine ⟨Or.inl rfl, by decide, by simp [Sorted], by intro e he; simp at he⟩

/-! ### a character metrics line -/

theorem encInj_set (E : List Bytes) (c : Nat) (name : Bytes) (P : Bytes → Prop) (hinj : EncInj E)
    (hmem : ∀ n ∈ E, n = notdef ∨ P n) (hnew : ¬ P name) : EncInj (E.set c name) := by
  unfold EncInj at hinj ⊢
  rw [List.pairwise_iff_getElem] at hinj ⊢
  intro i j hi hj hij
  have hi' : i < E.length := by simpa using hi
  have hj' : j < E.length := by simpa using hj
  rw [List.getElem_set, List.getElem_set]
  by_cases hci : c = i
  · have hcj : ¬ c = j := by omega
    rw [if_pos hci, if_neg hcj]
    by_cases he : name = E[j]
    · right
      rcases hmem E[j] (List.getElem_mem hj') with h | h
      · rw [he]; exact h
      · rw [← he] at h; exact absurd h hnew
    · left; exact he
  · by_cases hcj : c = j
    · rw [if_neg hci, if_pos hcj]
      by_cases he : E[i] = name
      · right
        rcases hmem E[i] (List.getElem_mem hi') with h | h
        · exact h
        · rw [he] at h; exact absurd h hnew
      · left; exact he
    · rw [if_neg hci, if_neg hcj]
      exact hinj i j hi' hj' hij

theorem GlyphWF_new (w : Int) (hw : Int16 w) (bb : Rect) (ligs : List (Bytes × Bytes)) (hs : Sorted ligs)
    (hl : ∀ e ∈ ligs, isName e.1 = true ∧ isName e.2 = true) :
    GlyphWF { widthX := ofInt w, bbox := bb, ligs := ligs } := by
  have hn : w.natAbs < 2 ^ 53 := by have := hw.1; have := hw.2; omega
  refine ⟨⟨?_, ?_⟩, hs, hl⟩
  · simp only; rw [intOr0_ofInt w hn]
  · simp only; rw [intOr0_ofInt w hn]; exact hw

theorem charLine_inv (st st' : St) (line : Bytes) (hwf : WF st.m) (h : charLine st line = .ok st') :
    WF st'.m := by
  unfold charLine at h
  cases hk : charKVs {} (splitOn 59 line) with
  | error => rw [hk] at h; simp [Res.bind] at h
  | unsupported => rw [hk] at h; simp [Res.bind] at h
  | ok c =>
    rw [hk] at h
    simp only [Res.bind] at h
    have hc := charKVs_inv _ _ c (fun kv hkv => (splitOn_pieces 59 line kv hkv).1) CInv_init hk
    split at h
    · simp only [Res.ok.injEq] at h; subst h; exact hwf
    · rename_i hcond
      simp only [Bool.or_eq_true, decide_eq_true_eq, not_or] at hcond
      obtain ⟨hne, hnone⟩ := hcond
      have hnone' : lookup c.name st.m.glyphs = none := by
        cases hl : lookup c.name st.m.glyphs with
        | none => rfl
        | some v => rw [hl] at hnone; simp at hnone
      simp only [Res.ok.injEq] at h; subst h
      obtain ⟨hs, hg, ⟨hlen, hinj, hmem⟩, hfn, hfull, hver, hnot, hkern⟩ := hwf
      obtain ⟨c1, c2, c3, c4⟩ := hc
      have hname : isName c.name = true := by rcases c1 with h | h; exact absurd h hne; exact h
      have hgw := GlyphWF_new c.width c2 c.bbox c.ligs c3 c4
      refine ⟨upsert_sorted _ _ _ hs hnone', ?_, ⟨?_, ?_, ?_⟩, hfn, hfull, hver, hnot, hkern⟩
      · intro e he
        rcases (upsert_mem _ _ _ hnone' e).mp he with he | he
        · subst he; exact ⟨hname, hgw⟩
        · exact hg e he
      · show (setEnc st.m.encoding c.code c.name).length = 256
        rw [setEnc_length]; exact hlen
      · show EncInj (setEnc st.m.encoding c.code c.name)
        unfold setEnc
        split
        · apply encInj_set _ _ _ (fun n => (lookup n st.m.glyphs).isSome = true) hinj hmem
          rw [hnone']; simp
        · exact hinj
      · intro n hn
        have hmono : ∀ n, (lookup n st.m.glyphs).isSome = true →
            (lookup n (upsert c.name { widthX := ofInt c.width, bbox := c.bbox, ligs := c.ligs } st.m.glyphs)).isSome = true := by
          intro n h
          rw [lookup_isSome_iff] at h ⊢
          obtain ⟨e, he, hk⟩ := h
          exact ⟨e, (upsert_mem _ _ _ hnone' e).mpr (Or.inr he), hk⟩
        have hself : (lookup c.name (upsert c.name { widthX := ofInt c.width, bbox := c.bbox, ligs := c.ligs } st.m.glyphs)).isSome = true := by
          rw [lookup_isSome_iff]
          exact ⟨_, (upsert_mem _ _ _ hnone' _).mpr (Or.inl rfl), rfl⟩
        have hn' : n ∈ setEnc st.m.encoding c.code c.name := hn
        unfold setEnc at hn'
        split at hn'
        · rcases List.mem_or_eq_of_mem_set hn' with h | h
          · rcases hmem n h with h | h
            · exact Or.inl h
            · exact Or.inr (hmono n h)
          · right; rw [h]; exact hself
        · rcases hmem n hn' with h | h
          · exact Or.inl h
          · exact Or.inr (hmono n h)

/-! ### a header line -/

theorem isText_joinSp (ws : List Bytes) (h : ∀ w ∈ ws, isTok w = true) : isText (joinSp ws) = true := by
  unfold isText
  rw [fields_joinSp ws h]
  simp

theorem numField_inv (st st' : St) (v : Bytes) (set : Metrics → UInt64 → Metrics)
    (hset : ∀ m x, WF m → WF (set m x)) (hwf : WF st.m) (h : numField st v set = .ok st') : WF st'.m := by
  unfold numField at h
  cases hp : parseFloat v with
  | ok x => rw [hp] at h; simp only [Res.bind, Res.ok.injEq] at h; subst h; exact hset _ _ hwf
  | error => rw [hp] at h; simp [Res.bind] at h
  | unsupported => rw [hp] at h; simp [Res.bind] at h

theorem headerLine_inv (st st' : St) (line : Bytes) (hwf : WF st.m) (h : headerLine st line = .ok st') :
    WF st'.m := by
  have htok := fields_isTok line
  unfold headerLine at h
  cases hf : fields line with
  | nil => rw [hf] at h; simp only [Res.ok.injEq] at h; subst h; exact hwf
  | cons k rest =>
    rw [hf] at h htok
    dsimp only at h
    by_cases hk1 : k = kEndKernPairs
    · rw [if_pos hk1] at h
      simp only [Res.ok.injEq] at h; subst h; exact hwf
    · rw [if_neg hk1] at h
      by_cases hk2 : (st.kernPairs && decide (rest.length = 3) && decide (k = kKPX)) = true
      · rw [if_pos hk2] at h
        split at h
        · rename_i l r a
          split at h
          · rename_i x _
            simp only [Res.ok.injEq] at h; subst h
            obtain ⟨hs, hg, henc, hfn, hfull, hver, hnot, hkern⟩ := hwf
            refine ⟨hs, hg, henc, hfn, hfull, hver, hnot, ?_⟩
            intro kp hkp
            simp only [List.mem_append, List.mem_singleton] at hkp
            rcases hkp with hkp | hkp
            · exact hkern kp hkp
            · subst hkp
              exact ⟨htok l (by simp), htok r (by simp), wrap16_range x⟩
          · exact absurd h (by simp)
        · simp only [Res.ok.injEq] at h; subst h; exact hwf
      · rw [if_neg hk2] at h
        cases rest with
        | nil => simp only [Res.ok.injEq] at h; subst h; exact hwf
        | cons v rest' =>
          dsimp only at h
          have hv : isTok v = true := htok v (by simp)
          have hrest : ∀ w ∈ v :: rest', isTok w = true := fun w hw => htok w (by simp [hw])
          obtain ⟨hs, hg, henc, hfn, hfull, hver, hnot, hkern⟩ := hwf
          have hnum : ∀ (set : Metrics → UInt64 → Metrics),
              numField st v set = .ok st' → (∀ m x, WF m → WF (set m x)) → WF st'.m :=
            fun set hh hset => numField_inv st st' v set hset ⟨hs, hg, henc, hfn, hfull, hver, hnot, hkern⟩ hh
          have hsame : ∀ s : St, Res.ok s = Res.ok st' → s.m = st.m → WF st'.m := by
            intro s he hsm
            simp only [Res.ok.injEq] at he; subst he; rw [hsm]
            exact ⟨hs, hg, henc, hfn, hfull, hver, hnot, hkern⟩
          by_cases c1 : k = kFontName
          · rw [if_pos c1] at h
            simp only [Res.ok.injEq] at h; subst h
            exact ⟨hs, hg, henc, Or.inr hv, hfull, hver, hnot, hkern⟩
          rw [if_neg c1] at h
          by_cases c2 : k = kFullName
          · rw [if_pos c2] at h
            simp only [Res.ok.injEq] at h; subst h
            exact ⟨hs, hg, henc, hfn, isText_joinSp _ hrest, hver, hnot, hkern⟩
          rw [if_neg c2] at h
          by_cases c3 : k = kVersion
          · rw [if_pos c3] at h
            simp only [Res.ok.injEq] at h; subst h
            exact ⟨hs, hg, henc, hfn, hfull, isText_joinSp _ hrest, hnot, hkern⟩
          rw [if_neg c3] at h
          by_cases c4 : k = kNotice
          · rw [if_pos c4] at h
            simp only [Res.ok.injEq] at h; subst h
            exact ⟨hs, hg, henc, hfn, hfull, hver, isText_joinSp _ hrest, hkern⟩
          rw [if_neg c4] at h
          by_cases c5 : k = kCapHeight
          · rw [if_pos c5] at h; exact hnum _ h (fun m x hm => hm)
          rw [if_neg c5] at h
          by_cases c6 : k = kXHeight
          · rw [if_pos c6] at h; exact hnum _ h (fun m x hm => hm)
          rw [if_neg c6] at h
          by_cases c7 : k = kAscender
          · rw [if_pos c7] at h; exact hnum _ h (fun m x hm => hm)
          rw [if_neg c7] at h
          by_cases c8 : k = kDescender
          · rw [if_pos c8] at h; exact hnum _ h (fun m x hm => hm)
          rw [if_neg c8] at h
          by_cases c9 : k = kUnderlinePosition
          · rw [if_pos c9] at h; exact hnum _ h (fun m x hm => hm)
          rw [if_neg c9] at h
          by_cases c10 : k = kUnderlineThickness
          · rw [if_pos c10] at h; exact hnum _ h (fun m x hm => hm)
          rw [if_neg c10] at h
          by_cases c11 : k = kItalicAngle
          · rw [if_pos c11] at h; exact hnum _ h (fun m x hm => hm)
          rw [if_neg c11] at h
          by_cases c12 : k = kIsFixedPitch
          · rw [if_pos c12] at h
            simp only [Res.ok.injEq] at h; subst h
            exact ⟨hs, hg, henc, hfn, hfull, hver, hnot, hkern⟩
          rw [if_neg c12] at h
          by_cases c13 : k = kStartCharMetrics
          · rw [if_pos c13] at h; exact hsame _ h rfl
          rw [if_neg c13] at h
          by_cases c14 : k = kStartKernPairs
          · rw [if_pos c14] at h; exact hsame _ h rfl
          rw [if_neg c14] at h
          exact hsame _ h rfl

theorem readLine_inv (st st' : St) (line : Bytes) (hwf : WF st.m) (h : readLine st line = .ok st') :
    WF st'.m := by
  unfold readLine at h
  split at h
  · simp only [Res.ok.injEq] at h; subst h; exact hwf
  · split at h
    · exact charLine_inv st st' line hwf h
    · exact headerLine_inv st st' line hwf h

theorem readLines_inv (ls : List Bytes) : ∀ (st st' : St), WF st.m → readLines st ls = .ok st' → WF st'.m := by
  induction ls with
  | nil => intro st st' hwf h; simp only [readLines, Res.ok.injEq] at h; subst h; exact hwf
  | cons l rest ih =>
    intro st st' hwf h
    unfold readLines at h
    cases hl : readLine st l with
    | ok s1 =>
      rw [hl] at h
      simp only [Res.bind] at h
      exact ih s1 st' (readLine_inv st s1 l hwf hl) h
    | error => rw [hl] at h; simp [Res.bind] at h
    | unsupported => rw [hl] at h; simp [Res.bind] at h

theorem WF_empty : WF emptyMetrics := by decide +kernel

/-- every value the reader returns is well-formed -/
theorem readCore_WF (t : Bytes) (m : Metrics) (h : readCore t = .ok m) : WF m := by
  unfold readCore at h
  cases hr : readLines { m := emptyMetrics } (scanLines t) with
  | ok st =>
    rw [hr] at h
    simp only [Res.bind, Res.ok.injEq] at h
    subst h
    exact readLines_inv _ _ st WF_empty hr
  | error => rw [hr] at h; simp [Res.bind] at h
  | unsupported => rw [hr] at h; simp [Res.bind] at h

/-! ## part 5: a second cycle changes nothing -/

theorem roundI_roundI (x : UInt64) : roundI (roundI x) = roundI x := by
  unfold roundI
  by_cases hn : isNaN x = true
  · simp [hn, isNaN_qNaN]
  · have hn' : isNaN x = false := by simpa using hn
    simp only [hn', Bool.false_eq_true, if_false]
    by_cases hs : (fmtShortest x).isSome = true
    · simp [hs, hn']
    · simp only [hs, if_false]
      have hnr : isNaN (roundF x) = false := by
        by_cases hi : isInf x = true
        · have : roundF x = x := by unfold roundF; rw [hn', hi]; rfl
          rw [this]; exact hn'
        · exact (roundF_props x hn' (by simpa using hi)).1
      simp only [hnr, Bool.false_eq_true, if_false, roundF_roundF]
      split <;> rfl

theorem roundE_roundE (e : Bytes × Glyph) : roundE (roundE e) = roundE e := by
  simp [roundE, roundG, floorF_floorF, ceilF_ceilF]

theorem roundM_roundM (m : Metrics) : roundM (roundM m) = roundM m := by
  unfold roundM
  simp only [roundF_roundF, roundI_roundI, List.map_map]
  congr 1
  apply List.map_congr_left
  intro e _
  exact roundE_roundE e

theorem lookup_map_roundE (n : Bytes) (G : List (Bytes × Glyph)) :
    (lookup n (G.map roundE)).isSome = (lookup n G).isSome := by
  induction G with
  | nil => rfl
  | cons e es ih =>
    obtain ⟨k, g⟩ := e
    simp only [List.map_cons, roundE, lookup]
    split
    · rfl
    · exact ih

theorem WF_roundM (m : Metrics) (h : WF m) : WF (roundM m) := by
  obtain ⟨hs, hg, ⟨hlen, hinj, hmem⟩, hfn, hfull, hver, hnot, hkern⟩ := h
  refine ⟨sorted_map roundG m.glyphs hs, ?_, ⟨hlen, hinj, ?_⟩, hfn, hfull, hver, hnot, hkern⟩
  · intro e he
    simp only [roundM, List.mem_map] at he
    obtain ⟨e0, he0, rfl⟩ := he
    exact ⟨(hg e0 he0).1, (hg e0 he0).2⟩
  · intro n hn
    rcases hmem n hn with h | h
    · exact Or.inl h
    · right
      show (lookup n (m.glyphs.map roundE)).isSome = true
      rw [lookup_map_roundE]; exact h


/-! ## part 6: `\r\n` and `\r` line ends -/

/-- the same lines, each ended by `\r\n` -/
def unlinesCRLF : List Bytes → Bytes
  | [] => []
  | l :: ls => l ++ 13 :: 10 :: unlinesCRLF ls

theorem scanLines_unlinesCRLF (ls : List Bytes) (h : ∀ l ∈ ls, 10 ∉ l ∧ 13 ∉ l) :
    scanLines (unlinesCRLF ls) = ls := by
  induction ls with
  | nil => rfl
  | cons l ls ih =>
    have := scanLines_line l [13, 10] (unlinesCRLF ls) (h l (by simp)) (Or.inr (Or.inl rfl))
      (fun e => absurd e (by decide))
    simp only [List.append_assoc, List.cons_append, List.nil_append] at this
    rw [unlinesCRLF, this, ih (fun l' hl' => h l' (by simp [hl']))]

/-- the same lines, each ended by a bare `\r` (classic Mac OS) -/
def unlinesCR : List Bytes → Bytes
  | [] => []
  | l :: ls => l ++ 13 :: unlinesCR ls

theorem unlinesCR_head (ls : List Bytes) (h : ∀ l ∈ ls, 10 ∉ l ∧ 13 ∉ l) : (unlinesCR ls).head? ≠ some 10 := by
  cases ls with
  | nil => simp [unlinesCR]
  | cons l ls =>
    have hl := (h l (by simp)).1
    cases l with
    | nil => simp [unlinesCR]
    | cons b bs =>
      have : b ≠ 10 := fun e => hl (by simp [e])
      simp [unlinesCR, this]

theorem scanLines_unlinesCR (ls : List Bytes) (h : ∀ l ∈ ls, 10 ∉ l ∧ 13 ∉ l) :
    scanLines (unlinesCR ls) = ls := by
  induction ls with
  | nil => rfl
  | cons l ls ih =>
    have hrest : ∀ l' ∈ ls, 10 ∉ l' ∧ 13 ∉ l' := fun l' hl' => h l' (by simp [hl'])
    have := scanLines_line l [13] (unlinesCR ls) (h l (by simp)) (Or.inr (Or.inr rfl))
      (fun _ => unlinesCR_head ls hrest)
    simp only [List.append_assoc, List.singleton_append] at this
    rw [unlinesCR, this, ih hrest]

/-- `Write`'s output with bare `\r` line ends -/
def writeCR (m : Metrics) : Bytes := unlinesCR (writeLinesWith m (italicText m.italicAngle))

/-- the reader does not see the difference between `\n` and `\r` in a written file -/
theorem readCore_writeCR (m : Metrics) (h : WF m) : readCore (writeCR m) = readCore (write m) := by
  have hia : NoNL (italicText m.italicAngle) := NoNL_plain _ (italicText_plain _)
  unfold readCore writeCR write
  rw [scanLines_unlinesCR _ (lines_NoNL m h _ hia), scanLines_unlines _ (lines_NoNL m h _ hia)]

/-- lines joined with one line end each -/
def joinWith : List Bytes → List Bytes → Bytes
  | l :: ls, t :: ts => l ++ t ++ joinWith ls ts
  | _, _ => []

/-- the one combination that is not three line ends but two: a bare `\r`, then an empty line ended
by `\n`, reads as one `\r\n` -/
def NoMerge : List Bytes → List Bytes → Prop
  | _ :: l2 :: ls, t1 :: t2 :: ts => ¬ (t1 = [13] ∧ l2 = [] ∧ t2 = [10]) ∧ NoMerge (l2 :: ls) (t2 :: ts)
  | _, _ => True

theorem joinWith_head (ls ts : List Bytes) (hl : ∀ l ∈ ls, 10 ∉ l ∧ 13 ∉ l) (ht : ∀ t ∈ ts, IsTerm t)
    (h : (joinWith ls ts).head? = some 10) :
    ∃ ls' ts', ls = [] :: ls' ∧ ts = [10] :: ts' := by
  cases ls with
  | nil => simp [joinWith] at h
  | cons l ls' =>
    cases ts with
    | nil => simp [joinWith] at h
    | cons t ts' =>
      cases l with
      | cons b bs =>
        have : b ≠ 10 := fun e => (hl (b :: bs) (by simp)).1 (by simp [e])
        simp [joinWith, this] at h
      | nil =>
        rcases ht t (by simp) with rfl | rfl | rfl
        · exact ⟨ls', ts', rfl, rfl⟩
        · simp [joinWith] at h
        · simp [joinWith] at h

/-- any choice of line ends – `\n`, `\r\n`, `\r`, also mixed – gives the same lines back -/
theorem scanLines_joinWith (ls : List Bytes) : ∀ (ts : List Bytes), ls.length = ts.length →
    (∀ l ∈ ls, 10 ∉ l ∧ 13 ∉ l) → (∀ t ∈ ts, IsTerm t) → NoMerge ls ts →
    scanLines (joinWith ls ts) = ls := by
  induction ls with
  | nil => intro ts _ _ _ _; cases ts <;> rfl
  | cons l ls ih =>
    intro ts hlen hl ht hnm
    cases ts with
    | nil => simp at hlen
    | cons t ts' =>
      have hlen' : ls.length = ts'.length := by simpa using hlen
      have hl' : ∀ l' ∈ ls, 10 ∉ l' ∧ 13 ∉ l' := fun l' h' => hl l' (by simp [h'])
      have ht' : ∀ t' ∈ ts', IsTerm t' := fun t' h' => ht t' (by simp [h'])
      have hnm' : NoMerge ls ts' := by
        cases ls with
        | nil => cases ts' <;> simp [NoMerge]
        | cons l2 ls2 =>
          cases ts' with
          | nil => simp at hlen'
          | cons t2 ts2 => exact hnm.2
      have hr : t = [13] → (joinWith ls ts').head? ≠ some 10 := by
        intro e hh
        obtain ⟨ls2, ts2, e1, e2⟩ := joinWith_head ls ts' hl' ht' hh
        subst e1 e2 e
        exact hnm.1 ⟨rfl, rfl, rfl⟩
      rw [joinWith, scanLines_line l t _ (hl l (by simp)) (ht t (by simp)) hr, ih ts' hlen' hl' ht' hnm']

/-- without empty lines nothing can merge -/
theorem noMerge_of_nonempty (ls : List Bytes) : ∀ (ts : List Bytes), (∀ l ∈ ls, l ≠ []) → NoMerge ls ts := by
  induction ls with
  | nil => intro ts _; cases ts <;> simp [NoMerge]
  | cons l ls ih =>
    intro ts h
    cases ls with
    | nil => cases ts with
      | nil => simp [NoMerge]
      | cons t ts => cases ts <;> simp [NoMerge]
    | cons l2 ls2 =>
      cases ts with
      | nil => simp [NoMerge]
      | cons t ts =>
        cases ts with
        | nil => simp [NoMerge]
        | cons t2 ts2 =>
          refine ⟨fun hh => h l2 (by simp) hh.2.1, ih (t2 :: ts2) (fun l' h' => h l' (by simp [h']))⟩

/-- `Write`'s output with `\r\n` line ends -/
def writeCRLF (m : Metrics) : Bytes := unlinesCRLF (writeLinesWith m (italicText m.italicAngle))

/-- the reader does not see the difference between `\n` and `\r\n` in a written file -/
theorem readCore_writeCRLF (m : Metrics) (h : WF m) : readCore (writeCRLF m) = readCore (write m) := by
  have hia : NoNL (italicText m.italicAngle) := NoNL_plain _ (italicText_plain _)
  unfold readCore writeCRLF write
  rw [scanLines_unlinesCRLF _ (lines_NoNL m h _ hia), scanLines_unlines _ (lines_NoNL m h _ hia)]

/-! ## part 7: the reader only looks at the tokens -/

/-- the `key value …` groups of a character metrics line that the reader looks at: the fields of
the `;`-separated pieces with at least two fields -/
def groups (line : Bytes) : List (List Bytes) :=
  ((splitOn 59 line).map fields).filter (fun f => decide (2 ≤ f.length))

/-- `charKV` as a function of the fields -/
def charKVf (c : CharLine) (ff : List Bytes) : Res CharLine :=
  match ff with
  | k :: v :: rest =>
    if k = kC then
      match atoi v with
      | some n => .ok { c with code := n }
      | none => .error
    else if k = kWX then
      match atoi v with
      | some n => .ok { c with width := wrap16 n }
      | none => .error
    else if k = kN then .ok { c with name := v }
    else if k = kB then
      match rest with
      | [b, cc, d] =>
        (parseFloat v).bind fun llx =>
        (parseFloat b).bind fun lly =>
        (parseFloat cc).bind fun urx =>
        (parseFloat d).bind fun ury =>
        .ok { c with bbox := ⟨llx, lly, urx, ury⟩ }
      | _ => .ok c
    else if k = kL then
      match rest with
      | l :: _ => .ok { c with ligs := upsert v l c.ligs }
      | [] => .ok c
    else .ok c
  | _ => .ok c

theorem charKV_eq (c : CharLine) (kv : Bytes) : charKV c kv = charKVf c (fields kv) := rfl

def charKVfs : CharLine → List (List Bytes) → Res CharLine
  | c, [] => .ok c
  | c, ff :: rest => (charKVf c ff).bind fun c' => charKVfs c' rest

theorem charKVf_short (c : CharLine) (ff : List Bytes) (h : ¬ 2 ≤ ff.length) : charKVf c ff = .ok c := by
  cases ff with
  | nil => rfl
  | cons a as =>
    cases as with
    | nil => rfl
    | cons b bs => simp at h

theorem charKVs_groups (kvs : List Bytes) : ∀ c : CharLine,
    charKVs c kvs = charKVfs c ((kvs.map fields).filter (fun f => decide (2 ≤ f.length))) := by
  induction kvs with
  | nil => intro c; rfl
  | cons kv rest ih =>
    intro c
    rw [charKVs, charKV_eq, List.map_cons, List.filter_cons]
    by_cases h : 2 ≤ (fields kv).length
    · simp only [h, decide_true, if_true, charKVfs]
      cases hk : charKVf c (fields kv) with
      | ok c1 => simp only [Res.bind]; exact ih c1
      | error => rfl
      | unsupported => rfl
    · simp only [h, decide_false, Bool.false_eq_true, if_false]
      rw [charKVf_short c _ h]
      simp only [Res.bind]
      exact ih c

/-- two lines with the same tokens are read alike: the reader is blind to the kind and amount of
white space, to empty `;` groups and to a missing final `;` -/
theorem readLine_tokens (st : St) (l1 l2 : Bytes)
    (hf : fields l1 = fields l2) (hg : groups l1 = groups l2) : readLine st l1 = readLine st l2 := by
  unfold readLine
  rw [hf]
  have h1 : charLine st l1 = charLine st l2 := by
    unfold charLine
    rw [charKVs_groups, charKVs_groups]
    unfold groups at hg
    rw [hg]
  have h2 : headerLine st l1 = headerLine st l2 := by
    unfold headerLine
    rw [hf]
  rw [h1, h2]

/-- pointwise relation between two files, line by line -/
def SameTokens : List Bytes → List Bytes → Prop
  | [], [] => True
  | l1 :: r1, l2 :: r2 =>
    (fields l1 = fields l2 ∧ groups l1 = groups l2) ∧ SameTokens r1 r2
  | _, _ => False

theorem readLines_tokens (ls1 : List Bytes) : ∀ (ls2 : List Bytes) (st : St), SameTokens ls1 ls2 →
    readLines st ls1 = readLines st ls2 := by
  induction ls1 with
  | nil =>
    intro ls2 st h
    cases ls2 with
    | nil => rfl
    | cons _ _ => exact absurd h (by simp [SameTokens])
  | cons l1 r1 ih =>
    intro ls2 st h
    cases ls2 with
    | nil => exact absurd h (by simp [SameTokens])
    | cons l2 r2 =>
      obtain ⟨⟨hf, hg⟩, hr⟩ := h
      rw [readLines, readLines, readLine_tokens st l1 l2 hf hg]
      cases readLine st l2 with
      | ok s => simp only [Res.bind]; exact ih r2 s hr
      | error => rfl
      | unsupported => rfl

/-- two texts whose lines carry the same tokens give the same result -/
theorem readCore_tokens (t1 t2 : Bytes) (h : SameTokens (scanLines t1) (scanLines t2)) :
    readCore t1 = readCore t2 := by
  unfold readCore
  rw [readLines_tokens _ _ _ h]

/-! ## part 9: leading white space -/

/-- a text made of white-space runes only: ASCII white space and the UTF-8 encodings in `mbSpaces`
(exactly the runes `strings.Fields` treats as separators) -/
inductive WhiteSpace : Bytes → Prop
  | nil : WhiteSpace []
  | ascii (b : Nat) (ws : Bytes) : isAsciiSpace b = true → WhiteSpace ws → WhiteSpace (b :: ws)
  | multi (p ws : Bytes) : p ∈ mbSpaces → WhiteSpace ws → WhiteSpace (p ++ ws)

theorem fields_ascii (b : Nat) (l : Bytes) (h : isAsciiSpace b = true) : fields (b :: l) = fields l := by
  unfold fields
  rw [fieldsGo]
  have : spaceLen (b :: l) = 1 := by simp [spaceLen, h]
  rw [this]
  simp [flush]

theorem fields_multi (p : Bytes) (hp : p ∈ mbSpaces) (l : Bytes) : fields (p ++ l) = fields l := by
  simp only [mbSpaces, List.mem_cons, List.not_mem_nil, or_false] at hp
  rcases hp with rfl | rfl | rfl | rfl | rfl | rfl | rfl | rfl | rfl | rfl | rfl | rfl | rfl | rfl | rfl | rfl |
    rfl | rfl | rfl <;>
  simp [fields, fieldsGo, spaceLen, isAsciiSpace, mbLen, mbSpaces, List.isPrefixOf, flush]

/-- leading white space is invisible to `strings.Fields` -/
theorem fields_whiteSpace (ws l : Bytes) (h : WhiteSpace ws) : fields (ws ++ l) = fields l := by
  induction h with
  | nil => rfl
  | ascii b ws hb _ ih => rw [List.cons_append, fields_ascii b _ hb, ih]
  | multi p ws hp _ ih => rw [List.append_assoc, fields_multi p hp, ih]

theorem whiteSpace_of_ascii (ws : Bytes) (h : ∀ b ∈ ws, isAsciiSpace b = true) : WhiteSpace ws := by
  induction ws with
  | nil => exact .nil
  | cons b bs ih => exact .ascii b bs (h b (by simp)) (ih (fun c hc => h c (by simp [hc])))

/-! ## part 10: `Write` does not depend on the order of the glyph list -/

theorem sortByName_eq_insAll {β : Type} (l : List (Bytes × β)) : sortByName l = insAll [] l := rfl

/-- for distinct names `sortByName` is the sorted permutation -/
theorem sortByName_spec {β : Type} (l : List (Bytes × β)) (hnd : (l.map (·.1)).Nodup) :
    Sorted (sortByName l) ∧ (sortByName l).Perm l := by
  obtain ⟨h1, h2⟩ := insAll_spec l [] (by simp [Sorted]) hnd (by intro e _; rfl)
  rw [sortByName_eq_insAll]
  exact ⟨h1, by simpa using h2⟩

/-- a sorted list is left as it is: for the values the reader returns `fontBBox` folds over the
list itself -/
theorem sortByName_of_sorted {β : Type} (l : List (Bytes × β)) (hs : Sorted l) : sortByName l = l := by
  rw [sortByName_eq_insAll]
  have := insAll_append [] l (by simpa using hs)
  simpa using this

theorem sortByName_perm {β : Type} (l1 l2 : List (Bytes × β)) (hp : l1.Perm l2)
    (hnd : (l2.map (·.1)).Nodup) : sortByName l1 = sortByName l2 := by
  have hnd1 : (l1.map (·.1)).Nodup := (List.Perm.nodup_iff (hp.map _)).mpr hnd
  obtain ⟨a1, a2⟩ := sortByName_spec l1 hnd1
  obtain ⟨b1, b2⟩ := sortByName_spec l2 hnd
  exact sorted_eq_of_perm _ _ a1 b1 (a2.trans (hp.trans b2.symm))

theorem lookup_mem_nodup {β : Type} (k : Bytes) (v : β) (l : List (Bytes × β))
    (hnd : (l.map (·.1)).Nodup) (h : (k, v) ∈ l) : lookup k l = some v := by
  induction l with
  | nil => simp at h
  | cons e es ih =>
    obtain ⟨k', v'⟩ := e
    have hnd' := List.nodup_cons.mp hnd
    unfold lookup
    simp only [List.mem_cons, Prod.mk.injEq] at h
    by_cases hk : k' = k
    · rw [if_pos hk]
      rcases h with h | h
      · rw [h.2]
      · exfalso
        apply hnd'.1
        exact List.mem_map.mpr ⟨(k, v), h, hk.symm⟩
    · rw [if_neg hk]
      rcases h with h | h
      · exact absurd h.1.symm hk
      · exact ih hnd'.2 h

theorem lookup_perm {β : Type} (k : Bytes) (l1 l2 : List (Bytes × β)) (hp : l1.Perm l2)
    (hnd : (l2.map (·.1)).Nodup) : lookup k l1 = lookup k l2 := by
  have hnd1 : (l1.map (·.1)).Nodup := (List.Perm.nodup_iff (hp.map _)).mpr hnd
  cases h2 : lookup k l2 with
  | none =>
    rw [lookup_none_iff] at h2 ⊢
    exact fun e he => h2 e (hp.mem_iff.mp he)
  | some v =>
    exact lookup_mem_nodup k v l1 hnd1 (hp.mem_iff.mpr (lookup_some_mem k v l2 h2))

/-! the order of `GlyphList` is total and antisymmetric, so sorting has one result -/

theorem nameLe_total (a b : Bytes) : (Query.nameLe a b || Query.nameLe b a) = true := by
  unfold Query.nameLe
  cases h : Query.nameLt b a with
  | false => rfl
  | true => rw [nameLt_asymm _ _ h]; rfl

theorem nameLe_antisymm (a b : Bytes) (h1 : Query.nameLe a b = true) (h2 : Query.nameLe b a = true) : a = b := by
  unfold Query.nameLe at h1 h2
  simp only [Bool.not_eq_true'] at h1 h2
  cases hd : decide (a = b) with
  | true => exact of_decide_eq_true hd
  | false =>
    have hne : a ≠ b := of_decide_eq_false hd
    have := nameLt_total a b h2 hne
    rw [this] at h1; exact absurd h1 (by decide)

theorem nameLe_trans (a b c : Bytes) (h1 : Query.nameLe a b = true) (h2 : Query.nameLe b c = true) :
    Query.nameLe a c = true := by
  unfold Query.nameLe at h1 h2 ⊢
  simp only [Bool.not_eq_true'] at h1 h2 ⊢
  cases hca : Query.nameLt c a with
  | false => rfl
  | true =>
    exfalso
    by_cases hab : a = b
    · subst hab; rw [hca] at h2; exact absurd h2 (by decide)
    · have hlt : Query.nameLt a b = true := nameLt_total b a h1 (fun e => hab e.symm)
      have := nameLt_trans c a b hca hlt
      rw [this] at h2; exact absurd h2 (by decide)

theorem keyLe_total (enc : List Bytes) (a b : Bytes) : (Query.keyLe enc a b || Query.keyLe enc b a) = true := by
  unfold Query.keyLe
  dsimp only
  by_cases h : Query.orderOf enc a = Query.orderOf enc b
  · simp only [h, bne_self_eq_false, Bool.false_eq_true, if_false]
    exact nameLe_total a b
  · have h' : ¬ Query.orderOf enc b = Query.orderOf enc a := fun e => h e.symm
    simp only [bne_iff_ne, ne_eq, h, h', not_false_eq_true, if_true, Bool.or_eq_true, decide_eq_true_eq]
    omega

theorem keyLe_antisymm (enc : List Bytes) (a b : Bytes) (h1 : Query.keyLe enc a b = true)
    (h2 : Query.keyLe enc b a = true) : a = b := by
  unfold Query.keyLe at h1 h2
  dsimp only at h1 h2
  by_cases h : Query.orderOf enc a = Query.orderOf enc b
  · simp only [h, bne_self_eq_false, Bool.false_eq_true, if_false] at h1 h2
    exact nameLe_antisymm a b h1 h2
  · have h' : ¬ Query.orderOf enc b = Query.orderOf enc a := fun e => h e.symm
    simp only [bne_iff_ne, ne_eq, h, h', not_false_eq_true, if_true, decide_eq_true_eq] at h1 h2
    omega

theorem keyLe_trans (enc : List Bytes) (a b c : Bytes) (h1 : Query.keyLe enc a b = true)
    (h2 : Query.keyLe enc b c = true) : Query.keyLe enc a c = true := by
  unfold Query.keyLe at h1 h2 ⊢
  dsimp only at h1 h2 ⊢
  by_cases hab : Query.orderOf enc a = Query.orderOf enc b
  · by_cases hbc : Query.orderOf enc b = Query.orderOf enc c
    · have hac : Query.orderOf enc a = Query.orderOf enc c := hab.trans hbc
      simp only [hab, hbc, bne_self_eq_false, Bool.false_eq_true, if_false] at h1 h2 ⊢
      exact nameLe_trans a b c h1 h2
    · have hac : ¬ Query.orderOf enc a = Query.orderOf enc c := fun e => hbc (hab.symm.trans e)
      simp only [bne_iff_ne, ne_eq, hbc, not_false_eq_true, if_true, decide_eq_true_eq] at h2
      simp only [bne_iff_ne, ne_eq, hac, not_false_eq_true, if_true, decide_eq_true_eq]
      omega
  · simp only [bne_iff_ne, ne_eq, hab, not_false_eq_true, if_true, decide_eq_true_eq] at h1
    by_cases hbc : Query.orderOf enc b = Query.orderOf enc c
    · have hac : ¬ Query.orderOf enc a = Query.orderOf enc c := fun e => hab (e.trans hbc.symm)
      simp only [bne_iff_ne, ne_eq, hac, not_false_eq_true, if_true, decide_eq_true_eq]
      omega
    · simp only [bne_iff_ne, ne_eq, hbc, not_false_eq_true, if_true, decide_eq_true_eq] at h2
      have hac : ¬ Query.orderOf enc a = Query.orderOf enc c := by omega
      simp only [bne_iff_ne, ne_eq, hac, not_false_eq_true, if_true, decide_eq_true_eq]
      omega

theorem mergeSort_keyLe_perm (enc : List Bytes) (l1 l2 : List Bytes) (hp : l1.Perm l2) :
    l1.mergeSort (Query.keyLe enc) = l2.mergeSort (Query.keyLe enc) := by
  have s1 := List.pairwise_mergeSort (keyLe_trans enc) (keyLe_total enc) l1
  have s2 := List.pairwise_mergeSort (keyLe_trans enc) (keyLe_total enc) l2
  have p : (l1.mergeSort (Query.keyLe enc)).Perm (l2.mergeSort (Query.keyLe enc)) :=
    (List.mergeSort_perm l1 _).trans (hp.trans (List.mergeSort_perm l2 _).symm)
  exact List.Perm.eq_of_pairwise (le := fun a b => Query.keyLe enc a b = true)
    (fun a b _ _ h1 h2 => keyLe_antisymm enc a b h1 h2) s1 s2 p

theorem glyphList_perm (enc : List Bytes) (k1 k2 : List Bytes) (hp : k1.Perm k2) :
    Query.glyphList k1 enc = Query.glyphList k2 enc := by
  unfold Query.glyphList
  dsimp only
  rw [hp.contains_eq]
  split
  · exact mergeSort_keyLe_perm enc _ _ hp
  · exact mergeSort_keyLe_perm enc _ _ (hp.append_right _)

theorem filterMap_congr' {α β : Type} (l : List α) (f g : α → Option β) (h : ∀ a ∈ l, f a = g a) :
    l.filterMap f = l.filterMap g := by
  induction l with
  | nil => rfl
  | cons a as ih =>
    rw [List.filterMap_cons, List.filterMap_cons, h a (by simp), ih (fun b hb => h b (by simp [hb]))]

theorem fontBBox_perm (m : Metrics) (G : List (Bytes × Glyph)) (hp : G.Perm m.glyphs)
    (hnd : (m.glyphs.map (·.1)).Nodup) : fontBBox { m with glyphs := G } = fontBBox m := by
  unfold fontBBox
  dsimp only
  rw [sortByName_perm G m.glyphs hp hnd]

theorem glyphLines_perm (m : Metrics) (G : List (Bytes × Glyph)) (hp : G.Perm m.glyphs)
    (hnd : (m.glyphs.map (·.1)).Nodup) : glyphLines { m with glyphs := G } = glyphLines m := by
  unfold glyphLines
  dsimp only
  rw [glyphList_perm m.encoding _ _ (hp.map _)]
  apply filterMap_congr'
  intro name _
  rw [lookup_perm name G m.glyphs hp hnd]

/-- `Write` is a function of the glyph *map*: listing the glyphs in another order gives the same text -/
theorem write_perm (m : Metrics) (G : List (Bytes × Glyph)) (hp : G.Perm m.glyphs)
    (hnd : (m.glyphs.map (·.1)).Nodup) : write { m with glyphs := G } = write m := by
  unfold write writeLinesWith
  rw [glyphLines_perm m G hp hnd]
  have hh : ∀ ia, headLines { m with glyphs := G } ia = headLines m ia := by
    intro ia
    unfold headLines
    dsimp only
    rw [fontBBox_perm m G hp hnd, hp.length_eq]
  rw [hh]
  rfl

end PsVerif.Proofs.AFM
