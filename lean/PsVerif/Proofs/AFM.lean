import PsVerif.Model.AFM
/-!
Proofs about the AFM model (`PsVerif.Model.AFM`):

* part 1: binary64 facts – the float made from an exactly representable integer decodes to
  that integer (`ofDyadic_rep`), re-encoding a float with non-negative exponent gives the
  float back (`K1`), rounding/flooring are idempotent;
* part 2: text facts – lines, fields, decimal numbers;
* part 3: the reader run over the writer's output.
-/
namespace PsVerif.Proofs.AFM
open PsVerif.Base PsVerif.Base.SoftFloat
set_option linter.unusedVariables false
set_option linter.unusedSimpArgs false

theorem expField_eq (b : UInt64) : expField b = b.toNat / 2^52 % 2048 := by
  unfold expField
  rw [UInt64.toNat_and, UInt64.toNat_shiftRight]
  have : (0x7ff : UInt64).toNat = 2^11 - 1 := by decide
  rw [this, Nat.and_two_pow_sub_one_eq_mod, Nat.shiftRight_eq_div_pow]
  have : (52 : UInt64).toNat % 64 = 52 := by decide
  rw [this]

theorem fracField_eq (b : UInt64) : fracField b = b.toNat % 2^52 := by
  unfold fracField
  rw [UInt64.toNat_and]
  have : (0xfffffffffffff : UInt64).toNat = 2^52 - 1 := by decide
  rw [this, Nat.and_two_pow_sub_one_eq_mod]

theorem and_two_pow_eq (n i : Nat) : n &&& 2^i = if n.testBit i then 2^i else 0 := by
  apply Nat.eq_of_testBit_eq
  intro j
  rw [Nat.testBit_and, Nat.testBit_two_pow]
  by_cases h : i = j
  · subst h; cases hb : n.testBit i <;> simp
  · cases hb : n.testBit i <;> simp [h]

theorem u64_bne_zero (c : UInt64) : (c != 0) = decide (c.toNat ≠ 0) := by
  by_cases h : c = 0
  · subst h; decide
  · have h2 : c.toNat ≠ 0 := fun h' => h (UInt64.toNat_inj.mp (by rw [h']; decide))
    have h3 : (c != 0) = true := bne_iff_ne.mpr h
    rw [h3]; exact (decide_eq_true h2).symm

theorem signOf_eq (b : UInt64) : signOf b = decide (2^63 ≤ b.toNat) := by
  unfold signOf signBit
  have hlt : b.toNat < 2^64 := b.toNat_lt
  rw [u64_bne_zero, UInt64.toNat_and]
  have : (0x8000000000000000 : UInt64).toNat = 2^63 := by decide
  rw [this, and_two_pow_eq, Nat.testBit_eq_decide_div_mod_eq]
  by_cases h : 2^63 ≤ b.toNat
  · have h5 : b.toNat / 2^63 % 2 = 1 := by omega
    rw [decide_eq_true h5, decide_eq_true h]; decide
  · have h5 : ¬ b.toNat / 2^63 % 2 = 1 := by omega
    rw [decide_eq_false h5, decide_eq_false h]; decide

/-- the mantissa `roundPos` keeps for an exactly representable integer -/
def keep (M : Nat) : Nat := if M.log2 ≤ 52 then M * 2 ^ (52 - M.log2) else M / 2 ^ (M.log2 - 52)

theorem keep_bounds (M : Nat) (hM : M ≠ 0) (hrep : 52 < M.log2 → M % 2 ^ (M.log2 - 52) = 0) :
    2 ^ 52 ≤ keep M ∧ keep M < 2 ^ 53 := by
  have h1 : 2 ^ M.log2 ≤ M := Nat.log2_self_le hM
  have h2 : M < 2 ^ (M.log2 + 1) := Nat.lt_log2_self
  unfold keep
  split
  · rename_i hc
    have e1 : 2 ^ 52 = 2 ^ M.log2 * 2 ^ (52 - M.log2) := by rw [← Nat.pow_add]; congr 1; omega
    have e2 : 2 ^ 53 = 2 ^ (M.log2 + 1) * 2 ^ (52 - M.log2) := by rw [← Nat.pow_add]; congr 1; omega
    rw [e1, e2]
    exact ⟨Nat.mul_le_mul_right _ h1, Nat.mul_lt_mul_of_pos_right h2 (Nat.two_pow_pos _)⟩
  · rename_i hc
    have hp : 0 < 2 ^ (M.log2 - 52) := Nat.two_pow_pos _
    have e1 : 2 ^ M.log2 = 2 ^ 52 * 2 ^ (M.log2 - 52) := by rw [← Nat.pow_add]; congr 1; omega
    have e2 : 2 ^ (M.log2 + 1) = 2 ^ 53 * 2 ^ (M.log2 - 52) := by rw [← Nat.pow_add]; congr 1; omega
    constructor
    · rw [Nat.le_div_iff_mul_le hp, ← e1]; exact h1
    · rw [Nat.div_lt_iff_lt_mul hp, ← e2]; exact h2

theorem roundPos_exact (M : Nat) (hM : M ≠ 0) (hL : M.log2 ≤ 1023)
    (hrep : 52 < M.log2 → M % 2 ^ (M.log2 - 52) = 0) :
    (roundPos M 0 false).toNat = (M.log2 + 1022) * 2 ^ 52 + keep M := by
  have hk := keep_bounds M hM hrep
  unfold roundPos
  have h0 : (M == 0) = false := by simp [hM]
  have hE : ¬ ((0:Int) + (M.log2 : Int) < -1022) := by omega
  have hfin : ∀ q : Nat, q = keep M →
      (if (0 + (M.log2 : Int) + 1023 - 1) * 4503599627370496 + (q : Int) ≥ 9218868437227405312 then posInf
       else UInt64.ofNat ((0 + (M.log2 : Int) + 1023 - 1) * 4503599627370496 + (q : Int)).toNat).toNat
        = (M.log2 + 1022) * 2 ^ 52 + keep M := by
    intro q hq
    subst hq
    have hb : (0 + (M.log2 : Int) + 1023 - 1) * 4503599627370496 + (keep M : Int)
        = (((M.log2 + 1022) * 2 ^ 52 + keep M : Nat) : Int) := by
      omega
    rw [hb]
    have hlt : (M.log2 + 1022) * 2 ^ 52 + keep M < 9218868437227405312 := by omega
    have hng : ¬ ((((M.log2 + 1022) * 2 ^ 52 + keep M : Nat) : Int) ≥ 9218868437227405312) := by omega
    rw [if_neg hng, Int.toNat_natCast, UInt64.toNat_ofNat']
    apply Nat.mod_eq_of_lt
    omega
  by_cases hc : M.log2 ≤ 52
  · have hsh : ((0:Int) + (M.log2 : Int) - 52 - 0 ≤ 0) := by omega
    simp only [h0, hE, hsh, Bool.false_eq_true, if_false, if_true, Bool.false_and]
    apply hfin
    have : (-(0 + (M.log2 : Int) - 52 - 0)).toNat = 52 - M.log2 := by omega
    rw [this, Nat.shiftLeft_eq]
    unfold keep; rw [if_pos hc]
  · have hsh : ¬ ((0:Int) + (M.log2 : Int) - 52 - 0 ≤ 0) := by omega
    have hs : ((0:Int) + (M.log2 : Int) - 52 - 0).toNat = M.log2 - 52 := by omega
    have hr := hrep (by omega)
    have hp : 0 < 2 ^ (M.log2 - 52 - 1) := Nat.two_pow_pos _
    have hge : ¬ (0 ≥ 2 ^ (M.log2 - 52 - 1)) := by omega
    simp only [h0, hE, hsh, hs, hr, hge, Bool.false_eq_true, if_false, if_true, Bool.false_and, decide_false]
    apply hfin
    rw [Nat.shiftRight_eq_div_pow]
    unfold keep; rw [if_neg hc]

theorem withSign_toNat (s : Bool) (b : UInt64) (h : b.toNat < 2^63) :
    (withSign s b).toNat = (if s then 2^63 else 0) + b.toNat := by
  unfold withSign signBit
  cases s
  · simp
  · simp only [if_true]
    rw [UInt64.toNat_or]
    have : (0x8000000000000000 : UInt64).toNat = 2^63 * 1 := by decide
    rw [this, Nat.or_comm, ← Nat.two_pow_add_eq_or_of_lt h]

theorem withSign_fields (s : Bool) (b : UInt64) (h : b.toNat < 2^63) :
    expField (withSign s b) = expField b ∧ fracField (withSign s b) = fracField b ∧
    signOf (withSign s b) = s := by
  have ht := withSign_toNat s b h
  rw [expField_eq, expField_eq, fracField_eq, fracField_eq, signOf_eq, ht]
  cases s
  · refine ⟨by simp, by simp, ?_⟩
    simp only [Bool.false_eq_true, if_false, Nat.zero_add]
    exact decide_eq_false (by omega)
  · refine ⟨by simp only [if_true]; omega, by simp only [if_true]; omega, ?_⟩
    simp only [if_true]
    exact decide_eq_true (by omega)

/-- everything about the float made from an exactly representable integer -/
theorem ofDyadic_exact (s : Bool) (M : Nat) (hM : M ≠ 0) (hL : M.log2 ≤ 1023)
    (hrep : 52 < M.log2 → M % 2 ^ (M.log2 - 52) = 0) :
    decode (ofDyadic s M 0) = (keep M, (M.log2 : Int) - 52) ∧ isNaN (ofDyadic s M 0) = false ∧
    isInf (ofDyadic s M 0) = false ∧ signOf (ofDyadic s M 0) = s ∧
    (ofDyadic s M 0).toNat = (if s then 2^63 else 0) + (M.log2 + 1022) * 2 ^ 52 + keep M := by
  have hk := keep_bounds M hM hrep
  have hy := roundPos_exact M hM hL hrep
  have hlt : (roundPos M 0 false).toNat < 2^63 := by rw [hy]; omega
  obtain ⟨he, hf, hs⟩ := withSign_fields s _ hlt
  have hE : expField (ofDyadic s M 0) = M.log2 + 1023 := by
    unfold ofDyadic; rw [he, expField_eq, hy]; omega
  have hF : fracField (ofDyadic s M 0) = keep M - 2^52 := by
    unfold ofDyadic; rw [hf, fracField_eq, hy]; omega
  refine ⟨?_, ?_, ?_, hs, ?_⟩
  · unfold decode
    rw [hE, hF]
    have : (M.log2 + 1023 == 0) = false := by simp
    simp only [this, Bool.false_eq_true, if_false]
    have e1 : keep M - 2 ^ 52 + 4503599627370496 = keep M := by omega
    have e2 : ((M.log2 + 1023 : Nat) : Int) - 1075 = (M.log2 : Int) - 52 := by omega
    rw [e1, e2]
  · unfold isNaN; rw [hE]
    have : (M.log2 + 1023 == 2047) = false := by
      rw [beq_eq_false_iff_ne]; omega
    rw [this]; rfl
  · unfold isInf; rw [hE]
    have : (M.log2 + 1023 == 2047) = false := by
      rw [beq_eq_false_iff_ne]; omega
    rw [this]; rfl
  · unfold ofDyadic; rw [withSign_toNat s _ hlt, hy]; omega

open PsVerif.Model.AFM

theorem rint_keep (M : Nat) (hrep : 52 < M.log2 → M % 2 ^ (M.log2 - 52) = 0) :
    rintAbs (keep M) ((M.log2 : Int) - 52) = M ∧ truncAbs (keep M) ((M.log2 : Int) - 52) = (M, false) := by
  unfold rintAbs truncAbs keep
  dsimp only
  by_cases h1 : M.log2 < 52
  · have hc : M.log2 ≤ 52 := by omega
    have he : ¬ ((M.log2 : Int) - 52 ≥ 0) := by omega
    have hk : (-((M.log2 : Int) - 52)).toNat = 52 - M.log2 := by omega
    have hp : 0 < 2 ^ (52 - M.log2) := Nat.two_pow_pos _
    have hp' : 0 < 2 ^ (52 - M.log2 - 1) := Nat.two_pow_pos _
    have hq : M * 2 ^ (52 - M.log2) / 2 ^ (52 - M.log2) = M := Nat.mul_div_cancel _ hp
    have hr : M * 2 ^ (52 - M.log2) % 2 ^ (52 - M.log2) = 0 := Nat.mul_mod_left _ _
    rw [if_pos hc, if_neg he, if_neg he, hk, hq, hr]
    have hcond : (decide (0 > 2 ^ (52 - M.log2 - 1)) || (decide (0 = 2 ^ (52 - M.log2 - 1)) && decide (M % 2 = 1))) = false := by
      rw [decide_eq_false (by omega), decide_eq_false (by omega)]; rfl
    rw [hcond]
    simp
  · by_cases h2 : M.log2 = 52
    · have hc : M.log2 ≤ 52 := by omega
      have he : ((M.log2 : Int) - 52 ≥ 0) := by omega
      have hk : ((M.log2 : Int) - 52).toNat = 0 := by omega
      rw [if_pos hc, if_pos he, if_pos he, hk, h2]
      simp
    · have hc : ¬ M.log2 ≤ 52 := by omega
      have he : ((M.log2 : Int) - 52 ≥ 0) := by omega
      have hk : ((M.log2 : Int) - 52).toNat = M.log2 - 52 := by omega
      have hd : M / 2 ^ (M.log2 - 52) * 2 ^ (M.log2 - 52) = M :=
        Nat.div_mul_cancel (Nat.dvd_of_mod_eq_zero (hrep (by omega)))
      rw [if_neg hc, if_pos he, if_pos he, hk, hd]
      exact ⟨rfl, rfl⟩

def roundF (x : UInt64) : UInt64 :=
  if isNaN x then qNaN else if isInf x then x
  else ofDyadic (signOf x) (rintAbs (decode x).1 (decode x).2) 0

/-- an integer magnitude that `ofDyadic` represents exactly -/
def Rep (M : Nat) : Prop := M.log2 ≤ 1023 ∧ (52 < M.log2 → M % 2 ^ (M.log2 - 52) = 0)

theorem ofDyadic_zero (s : Bool) : ofDyadic s 0 0 = withSign s 0 := by
  unfold ofDyadic roundPos; rfl

theorem zero_facts (s : Bool) : decode (withSign s 0) = (0, -1074) ∧ isNaN (withSign s 0) = false ∧
    isInf (withSign s 0) = false ∧ signOf (withSign s 0) = s := by
  cases s <;> decide

/-- the facts needed about `ofDyadic s M 0` for representable `M`, zero included -/
theorem ofDyadic_rep (s : Bool) (M : Nat) (h : Rep M) :
    isNaN (ofDyadic s M 0) = false ∧ isInf (ofDyadic s M 0) = false ∧ signOf (ofDyadic s M 0) = s ∧
    rintAbs (decode (ofDyadic s M 0)).1 (decode (ofDyadic s M 0)).2 = M ∧
    truncAbs (decode (ofDyadic s M 0)).1 (decode (ofDyadic s M 0)).2 = (M, false) := by
  by_cases hM : M = 0
  · subst hM
    rw [ofDyadic_zero]
    obtain ⟨a, b, c, d⟩ := zero_facts s
    rw [a]
    refine ⟨b, c, d, ?_, ?_⟩
    · unfold rintAbs; simp
    · unfold truncAbs; simp
  · obtain ⟨a, b, c, d, _⟩ := ofDyadic_exact s M hM h.1 h.2
    rw [a]
    exact ⟨b, c, d, (rint_keep M h.2).1, (rint_keep M h.2).2⟩

theorem rep_small (M : Nat) (h : M < 2 ^ 53) : Rep M := by
  by_cases hM : M = 0
  · subst hM; exact ⟨by decide, by decide⟩
  · have : M.log2 < 53 := (Nat.log2_lt hM).mpr h
    exact ⟨by omega, fun h' => by omega⟩

theorem log2_mul_pow (m e : Nat) (h1 : 2 ^ 52 ≤ m) (h2 : m < 2 ^ 53) : (m * 2 ^ e).log2 = 52 + e := by
  have hp : 0 < 2 ^ e := Nat.two_pow_pos _
  have hne : m * 2 ^ e ≠ 0 := by
    have : 0 < m * 2 ^ e := Nat.mul_pos (by omega) hp
    omega
  rw [Nat.log2_eq_iff hne]
  constructor
  · rw [Nat.pow_add]; exact Nat.mul_le_mul_right _ h1
  · have : 2 ^ (52 + e + 1) = 2 ^ 53 * 2 ^ e := by rw [← Nat.pow_add]; congr 1; omega
    rw [this]; exact Nat.mul_lt_mul_of_pos_right h2 hp

theorem rep_mul_pow (m e : Nat) (h1 : 2 ^ 52 ≤ m) (h2 : m < 2 ^ 53) (he : e ≤ 971) : Rep (m * 2 ^ e) := by
  have hl := log2_mul_pow m e h1 h2
  refine ⟨by omega, fun _ => ?_⟩
  rw [hl]
  have : 52 + e - 52 = e := by omega
  rw [this]; exact Nat.mul_mod_left _ _

/-- shape of the decoded finite float -/
theorem decode_facts (x : UInt64) (hn : isNaN x = false) (hi : isInf x = false) :
    (decode x).1 < 2 ^ 53 ∧ (decode x).2 ≤ 971 ∧ ((decode x).2 ≥ 0 → 2 ^ 52 ≤ (decode x).1) ∧
    ((decode x).2 ≥ 0 → (decode x).1 = fracField x + 2 ^ 52 ∧ (decode x).2 = (expField x : Int) - 1075 ∧ expField x ≤ 2046) := by
  have hf : fracField x < 2 ^ 52 := by rw [fracField_eq]; exact Nat.mod_lt _ (by decide)
  have he : expField x < 2048 := by rw [expField_eq]; exact Nat.mod_lt _ (by decide)
  have hne : expField x ≠ 2047 := by
    intro h
    unfold isNaN at hn; unfold isInf at hi
    rw [h] at hn hi
    by_cases h0 : fracField x = 0
    · rw [h0] at hi; exact absurd hi (by decide)
    · have : (fracField x != 0) = true := bne_iff_ne.mpr h0
      rw [this] at hn; exact absurd hn (by decide)
  by_cases h0 : expField x = 0
  · have hd : decode x = (fracField x, -1074) := by
      unfold decode
      have : (expField x == 0) = true := by rw [h0]; rfl
      rw [this]; rfl
    rw [hd]; dsimp only
    refine ⟨by omega, by omega, fun h => absurd h (by omega), fun h => absurd h (by omega)⟩
  · have hd : decode x = (fracField x + 4503599627370496, (expField x : Int) - 1075) := by
      unfold decode
      have : (expField x == 0) = false := beq_eq_false_iff_ne.mpr h0
      rw [this]; rfl
    rw [hd]; dsimp only
    refine ⟨by omega, by omega, fun _ => by omega, fun _ => ⟨by omega, rfl, by omega⟩⟩

theorem rintAbs_neg_lt (m : Nat) (e : Int) (hm : m < 2 ^ 53) (he : ¬ e ≥ 0) : rintAbs m e < 2 ^ 53 := by
  unfold rintAbs
  rw [if_neg he]
  dsimp only
  have hk : 1 ≤ (-e).toNat := by omega
  have : 2 ^ 1 ≤ 2 ^ (-e).toNat := Nat.pow_le_pow_right (by decide) hk
  have hq : m / 2 ^ (-e).toNat ≤ m / 2 := by
    apply Nat.div_le_div_left (by omega) (by decide)
  split <;> omega

theorem truncAbs_neg_lt (m : Nat) (e : Int) (hm : m < 2 ^ 53) (he : ¬ e ≥ 0) :
    (truncAbs m e).1 + 1 < 2 ^ 53 := by
  unfold truncAbs
  rw [if_neg he]
  dsimp only
  have hk : 1 ≤ (-e).toNat := by omega
  have : 2 ^ 1 ≤ 2 ^ (-e).toNat := Nat.pow_le_pow_right (by decide) hk
  have hq : m / 2 ^ (-e).toNat ≤ m / 2 := by
    apply Nat.div_le_div_left (by omega) (by decide)
  omega

/-- the rounded magnitude of a finite float is exactly representable -/
theorem rep_rint (x : UInt64) (hn : isNaN x = false) (hi : isInf x = false) :
    Rep (rintAbs (decode x).1 (decode x).2) := by
  obtain ⟨h1, h2, h3, _⟩ := decode_facts x hn hi
  by_cases he : (decode x).2 ≥ 0
  · unfold rintAbs; rw [if_pos he]
    exact rep_mul_pow _ _ (h3 he) h1 (by omega)
  · exact rep_small _ (rintAbs_neg_lt _ _ h1 he)

theorem K1 (x : UInt64) (hn : isNaN x = false) (hi : isInf x = false) (he : (decode x).2 ≥ 0) :
    ofDyadic (signOf x) ((decode x).1 * 2 ^ (decode x).2.toNat) 0 = x := by
  obtain ⟨h1, h2, h3, h4⟩ := decode_facts x hn hi
  obtain ⟨hm, hee, hx⟩ := h4 he
  have hm52 := h3 he
  have hl := log2_mul_pow (decode x).1 (decode x).2.toNat hm52 h1
  have hrep := rep_mul_pow (decode x).1 (decode x).2.toNat hm52 h1 (by omega)
  have hp : 0 < 2 ^ (decode x).2.toNat := Nat.two_pow_pos _
  have hne : (decode x).1 * 2 ^ (decode x).2.toNat ≠ 0 := by
    have : 0 < (decode x).1 * 2 ^ (decode x).2.toNat := Nat.mul_pos (by omega) hp
    omega
  obtain ⟨_, _, _, _, ht⟩ := ofDyadic_exact (signOf x) _ hne hrep.1 hrep.2
  apply UInt64.toNat_inj.mp
  rw [ht, hl]
  have hkeep : keep ((decode x).1 * 2 ^ (decode x).2.toNat) = (decode x).1 := by
    unfold keep
    rw [hl]
    by_cases h0 : (decode x).2.toNat = 0
    · rw [h0]; simp
    · have : ¬ (52 + (decode x).2.toNat ≤ 52) := by omega
      rw [if_neg this]
      have : 52 + (decode x).2.toNat - 52 = (decode x).2.toNat := by omega
      rw [this]; exact Nat.mul_div_cancel _ hp
  rw [hkeep, hm, signOf_eq]
  have hlt : x.toNat < 2 ^ 64 := x.toNat_lt
  have hE := expField_eq x
  have hF := fracField_eq x
  have hexp : (decode x).2.toNat = expField x - 1075 := by omega
  rw [hexp]
  by_cases hs : 2 ^ 63 ≤ x.toNat
  · rw [decide_eq_true hs]; simp only [if_true]; omega
  · rw [decide_eq_false hs]; simp only [Bool.false_eq_true, if_false]; omega

theorem rintAbs_nonneg (m : Nat) (e : Int) (he : e ≥ 0) : rintAbs m e = m * 2 ^ e.toNat := by
  unfold rintAbs; rw [if_pos he]

theorem isNaN_qNaN : isNaN qNaN = true := by decide

/-- the finite case of `roundF` -/
theorem roundF_fin (x : UInt64) (hn : isNaN x = false) (hi : isInf x = false) :
    roundF x = ofDyadic (signOf x) (rintAbs (decode x).1 (decode x).2) 0 := by
  unfold roundF; rw [hn, hi]; rfl

theorem roundF_props (x : UInt64) (hn : isNaN x = false) (hi : isInf x = false) :
    isNaN (roundF x) = false ∧ isInf (roundF x) = false ∧ signOf (roundF x) = signOf x ∧
    rintAbs (decode (roundF x)).1 (decode (roundF x)).2 = rintAbs (decode x).1 (decode x).2 := by
  rw [roundF_fin x hn hi]
  obtain ⟨a, b, c, d, _⟩ := ofDyadic_rep (signOf x) _ (rep_rint x hn hi)
  exact ⟨a, b, c, d⟩

/-- second cycle for `%.0f` fields -/
theorem fmt0_roundF (x : UInt64) : fmt0 (roundF x) = fmt0 x := by
  by_cases hn : isNaN x = true
  · have : roundF x = qNaN := by unfold roundF; rw [hn]; rfl
    rw [this]; unfold fmt0; rw [hn, isNaN_qNaN]; simp only [if_true]
  · have hn' : isNaN x = false := by simpa using hn
    by_cases hi : isInf x = true
    · have : roundF x = x := by unfold roundF; rw [hn', hi]; rfl
      rw [this]
    · have hi' : isInf x = false := by simpa using hi
      obtain ⟨a, b, c, d⟩ := roundF_props x hn' hi'
      unfold fmt0
      rw [a, b, c, hn', hi']
      dsimp only
      rw [d]

theorem roundF_roundF (x : UInt64) : roundF (roundF x) = roundF x := by
  by_cases hn : isNaN x = true
  · have : roundF x = qNaN := by unfold roundF; rw [hn]; rfl
    rw [this]; unfold roundF; rw [isNaN_qNaN]; rfl
  · have hn' : isNaN x = false := by simpa using hn
    by_cases hi : isInf x = true
    · have : roundF x = x := by unfold roundF; rw [hn', hi]; rfl
      rw [this, this]
    · have hi' : isInf x = false := by simpa using hi
      obtain ⟨a, b, c, d⟩ := roundF_props x hn' hi'
      rw [roundF_fin _ a b, c, d, ← roundF_fin x hn' hi']

/-- a float with non-negative exponent is an integer already -/
theorem roundF_of_exp_nonneg (x : UInt64) (hn : isNaN x = false) (hi : isInf x = false)
    (he : (decode x).2 ≥ 0) : roundF x = x := by
  rw [roundF_fin x hn hi, rintAbs_nonneg _ _ he]; exact K1 x hn hi he

/-- `roundF` fixes the float of a representable integer -/
theorem roundF_ofDyadic (s : Bool) (M : Nat) (h : Rep M) : roundF (ofDyadic s M 0) = ofDyadic s M 0 := by
  obtain ⟨a, b, c, d, _⟩ := ofDyadic_rep s M h
  rw [roundF_fin _ a b, c, d]

theorem floorF_ofDyadic (s : Bool) (M : Nat) (h : Rep M) : floorF (ofDyadic s M 0) = ofDyadic s M 0 := by
  obtain ⟨a, b, c, d, e⟩ := ofDyadic_rep s M h
  unfold floorF
  rw [a, b]
  simp only [Bool.false_eq_true, if_false]
  split
  · rfl
  · rw [e, c]; simp

theorem ceilF_ofDyadic (s : Bool) (M : Nat) (h : Rep M) : ceilF (ofDyadic s M 0) = ofDyadic s M 0 := by
  obtain ⟨a, b, c, d, e⟩ := ofDyadic_rep s M h
  unfold ceilF
  rw [a, b]
  simp only [Bool.false_eq_true, if_false]
  split
  · rfl
  · rw [e, c]; simp

/-- `floorF x` is `x` itself, the NaN, or the float of a representable integer -/
theorem floorF_cases (x : UInt64) :
    floorF x = qNaN ∨ (floorF x = x ∧ isNaN x = false ∧ (isInf x = true ∨ (decode x).2 ≥ 0)) ∨
    ∃ s M, Rep M ∧ floorF x = ofDyadic s M 0 := by
  unfold floorF
  by_cases hn : isNaN x = true
  · left; rw [hn]; rfl
  · have hn' : isNaN x = false := by simpa using hn
    rw [hn']
    by_cases hi : isInf x = true
    · right; left; rw [hi]; exact ⟨by first | rfl | trivial, by first | rfl | trivial, Or.inl (by first | rfl | trivial)⟩
    · have hi' : isInf x = false := by simpa using hi
      rw [hi']
      simp only [Bool.false_eq_true, if_false]
      by_cases he : (decode x).2 ≥ 0
      · right; left; rw [if_pos he]; exact ⟨by first | rfl | trivial, by first | rfl | trivial, Or.inr he⟩
      · right; right; rw [if_neg he]
        have hlt := truncAbs_neg_lt _ _ (decode_facts x hn' hi').1 he
        refine ⟨signOf x, _, rep_small _ ?_, rfl⟩
        split <;> omega

theorem ceilF_cases (x : UInt64) :
    ceilF x = qNaN ∨ (ceilF x = x ∧ isNaN x = false ∧ (isInf x = true ∨ (decode x).2 ≥ 0)) ∨
    ∃ s M, Rep M ∧ ceilF x = ofDyadic s M 0 := by
  unfold ceilF
  by_cases hn : isNaN x = true
  · left; rw [hn]; rfl
  · have hn' : isNaN x = false := by simpa using hn
    rw [hn']
    by_cases hi : isInf x = true
    · right; left; rw [hi]; exact ⟨by first | rfl | trivial, by first | rfl | trivial, Or.inl (by first | rfl | trivial)⟩
    · have hi' : isInf x = false := by simpa using hi
      rw [hi']
      simp only [Bool.false_eq_true, if_false]
      by_cases he : (decode x).2 ≥ 0
      · right; left; rw [if_pos he]; exact ⟨by first | rfl | trivial, by first | rfl | trivial, Or.inr he⟩
      · right; right; rw [if_neg he]
        have hlt := truncAbs_neg_lt _ _ (decode_facts x hn' hi').1 he
        refine ⟨signOf x, _, rep_small _ ?_, rfl⟩
        split <;> omega

theorem roundF_qNaN : roundF qNaN = qNaN := by unfold roundF; rw [isNaN_qNaN]; rfl
theorem floorF_qNaN : floorF qNaN = qNaN := by unfold floorF; rw [isNaN_qNaN]; rfl
theorem ceilF_qNaN : ceilF qNaN = qNaN := by unfold ceilF; rw [isNaN_qNaN]; rfl

theorem roundF_fix_of (x : UInt64) (hn : isNaN x = false) (h : isInf x = true ∨ (decode x).2 ≥ 0) :
    roundF x = x := by
  by_cases hi : isInf x = true
  · unfold roundF; rw [hn, hi]; rfl
  · have hi' : isInf x = false := by simpa using hi
    cases h with
    | inl h => exact absurd h hi
    | inr h => exact roundF_of_exp_nonneg x hn hi' h

/-- what is read back for a box coordinate is the floor itself -/
theorem roundF_floorF (x : UInt64) : roundF (floorF x) = floorF x := by
  rcases floorF_cases x with h | ⟨h, hn, hc⟩ | ⟨s, M, hr, h⟩
  · rw [h, roundF_qNaN]
  · rw [h]; exact roundF_fix_of x hn hc
  · rw [h]; exact roundF_ofDyadic s M hr

theorem roundF_ceilF (x : UInt64) : roundF (ceilF x) = ceilF x := by
  rcases ceilF_cases x with h | ⟨h, hn, hc⟩ | ⟨s, M, hr, h⟩
  · rw [h, roundF_qNaN]
  · rw [h]; exact roundF_fix_of x hn hc
  · rw [h]; exact roundF_ofDyadic s M hr

theorem floorF_floorF (x : UInt64) : floorF (floorF x) = floorF x := by
  rcases floorF_cases x with h | ⟨h, hn, hc⟩ | ⟨s, M, hr, h⟩
  · rw [h, floorF_qNaN]
  · rw [h, h]
  · rw [h]; exact floorF_ofDyadic s M hr

theorem ceilF_ceilF (x : UInt64) : ceilF (ceilF x) = ceilF x := by
  rcases ceilF_cases x with h | ⟨h, hn, hc⟩ | ⟨s, M, hr, h⟩
  · rw [h, ceilF_qNaN]
  · rw [h, h]
  · rw [h]; exact ceilF_ofDyadic s M hr

/-! ### integers -/

theorem ofInt_eq (n : Int) : ofInt n = ofDyadic (decide (n < 0)) n.natAbs 0 := rfl

theorem roundF_ofInt (n : Int) (h : n.natAbs < 2 ^ 53) : roundF (ofInt n) = ofInt n :=
  roundF_ofDyadic _ _ (rep_small _ h)
theorem floorF_ofInt (n : Int) (h : n.natAbs < 2 ^ 53) : floorF (ofInt n) = ofInt n :=
  floorF_ofDyadic _ _ (rep_small _ h)
theorem ceilF_ofInt (n : Int) (h : n.natAbs < 2 ^ 53) : ceilF (ofInt n) = ofInt n :=
  ceilF_ofDyadic _ _ (rep_small _ h)

/-- `%.0f` of the float of an integer prints the integer -/
theorem fmt0_ofInt (n : Int) (h : n.natAbs < 2 ^ 53) : fmt0 (ofInt n) = decInt n := by
  obtain ⟨a, b, c, d, _⟩ := ofDyadic_rep (decide (n < 0)) n.natAbs (rep_small _ h)
  unfold fmt0 decInt
  rw [ofInt_eq, a, b, c]
  dsimp only
  rw [d]
  by_cases hneg : n < 0
  · simp [hneg]
  · simp [hneg]

end PsVerif.Proofs.AFM
