import PsVerif.Model.T1Encode
/-!
Helper lemmas for C20: rounding error, the search loop of `appendNumber`, and the
position-tracking invariant of `encodeCharString` (parametric in the approximation).
-/
namespace PsVerif.Proofs.T1Encode
open PsVerif.Model.T1Encode PsVerif.Model.T1Num

theorem abs_le_iff (a B : Rat) : a.abs ≤ B ↔ a ≤ B ∧ -a ≤ B := by
  unfold Rat.abs; split <;> constructor <;> intro h <;> grind

theorem abs_lt_iff (a B : Rat) : a.abs < B ↔ a < B ∧ -a < B := by
  unfold Rat.abs; split <;> constructor <;> intro h <;> grind

theorem cast_add_one (r : Int) : ((r + 1 : Int) : Rat) = (r : Rat) + 1 := by
  simp [Rat.intCast_add]

/-- `math.Round` is within 1/2 of its argument -/
theorem round_err (y : Rat) :
    ((roundHalfAway y : Int) : Rat) - y ≤ 1/2 ∧ y - ((roundHalfAway y : Int) : Rat) ≤ 1/2 := by
  unfold roundHalfAway
  split
  · have h1 := Rat.floor_le (y + 1/2)
    have h2 := Rat.lt_floor_add_one (y + 1/2)
    rw [cast_add_one] at h2
    constructor <;> grind
  · have h1 := Rat.floor_le (-y + 1/2)
    have h2 := Rat.lt_floor_add_one (-y + 1/2)
    rw [cast_add_one] at h2
    have h3 : ((-(-y + 1/2).floor : Int) : Rat) = -(((-y + 1/2).floor : Int) : Rat) := by
      simp [Rat.intCast_neg]
    rw [h3]
    constructor <;> grind

/-- the distance recorded for denominator `q > 0` is at most `1/(2q)` -/
theorem candidate_dist (x : Rat) (q : Nat) (hq : 0 < q) :
    (candidate x q).2 * q ≤ 1/2 := by
  unfold candidate
  simp only
  have hr := round_err (x * q)
  have hq' : (0 : Rat) < (q : Rat) := by exact_mod_cast hq
  have hq0 : (q : Rat) ≠ 0 := by grind
  have hinv := Rat.mul_inv_cancel (q : Rat) hq0
  generalize ((roundHalfAway (x * q) : Int) : Rat) = r at *
  have key : r / q - x = (r - x * q) / q := by grind
  rw [key]
  unfold Rat.abs
  split
  · have : (r - x * ↑q) / ↑q * ↑q = r - x * q := by grind
    rw [this]; exact hr.1
  · have : -((r - x * ↑q) / ↑q) * ↑q = x * q - r := by grind
    rw [this]; exact hr.2

/-- consequently the distance itself is at most `1/2` whatever `q ≥ 1` -/
theorem candidate_dist_le (x : Rat) (q : Nat) (hq : 0 < q) : (candidate x q).2 ≤ 1/2 := by
  have h := candidate_dist x q hq
  have h0 : 0 ≤ (candidate x q).2 := by unfold candidate; exact Rat.abs_nonneg
  have hq' : (1 : Rat) ≤ (q : Rat) := by exact_mod_cast hq
  generalize (candidate x q).2 = d at *
  generalize (q : Rat) = Q at *
  have : d ≤ d * Q := by
    have := Rat.mul_le_mul_of_nonneg_left hq' h0
    grind
  grind

theorem candidate_107 (x : Rat) : (candidate x 107).2 ≤ 1/214 := by
  have h := candidate_dist x 107 (by decide)
  have : ((107 : Nat) : Rat) = 107 := by rfl
  rw [this] at h
  grind

/-! ### the search loop -/

/-- loop invariant: the best entry is one of the candidates seen and is at least as
good as every candidate seen -/
def Inv (x : Rat) (seen : List Nat) (b : Best) : Prop :=
  (seen = [] ∧ b.delta = none) ∨
  ∃ d, b.delta = some d ∧ b.q ∈ seen ∧ candidate x b.q = (b.p, d) ∧ ∀ q ∈ seen, d ≤ (candidate x q).2

theorem step_inv (x : Rat) (seen : List Nat) (b : Best) (q : Nat) (h : Inv x seen b) :
    Inv x (seen ++ [q]) (stepBest x b q) := by
  right
  unfold stepBest
  rcases h with ⟨hs, hd⟩ | ⟨d, hd, hq, hc, hall⟩
  · simp only [hd]
    refine ⟨(candidate x q).2, rfl, by simp, rfl, ?_⟩
    intro q' hq'
    simp [hs] at hq'
    subst hq'
    exact Rat.le_refl
  · simp only [hd]
    split
    · rename_i hle
      refine ⟨(candidate x q).2, rfl, by simp, rfl, ?_⟩
      intro q' hq'
      rcases List.mem_append.mp hq' with h1 | h1
      · exact Rat.le_trans hle (hall q' h1)
      · simp at h1; subst h1; exact Rat.le_refl
    · rename_i hnle
      refine ⟨d, hd, by simp [hq], hc, ?_⟩
      intro q' hq'
      rcases List.mem_append.mp hq' with h1 | h1
      · exact hall q' h1
      · simp at h1; subst h1
        exact Rat.le_of_lt (Rat.not_le.mp hnle)

theorem fold_inv (x : Rat) (l seen : List Nat) (b : Best) (h : Inv x seen b) :
    Inv x (seen ++ l) (l.foldl (stepBest x) b) := by
  induction l generalizing seen b with
  | nil => simpa using h
  | cons q l ih =>
    have := ih (seen ++ [q]) (stepBest x b q) (step_inv x seen b q h)
    simpa using this

/-- what the search returns -/
theorem bestApprox_spec (x : Rat) :
    ∃ d, (bestApprox x).delta = some d ∧ 1 ≤ (bestApprox x).q ∧ (bestApprox x).q ≤ 107 ∧
      candidate x (bestApprox x).q = ((bestApprox x).p, d) ∧ d ≤ 1/214 := by
  have h := fold_inv x (List.range' 1 maxQ) [] { delta := none, p := 0, q := 0 } (Or.inl ⟨rfl, rfl⟩)
  simp only [List.nil_append] at h
  change Inv x (List.range' 1 maxQ) (bestApprox x) at h
  rcases h with ⟨hs, _⟩ | ⟨d, hd, hq, hc, hall⟩
  · exact absurd hs (by decide)
  · have hq' := List.mem_range'_1.mp hq
    refine ⟨d, hd, hq'.1, by unfold maxQ at hq'; omega, hc, ?_⟩
    have h107 : 107 ∈ List.range' 1 maxQ := by decide
    exact Rat.le_trans (hall 107 h107) (candidate_107 x)

/-! ### the value encoded for a requested number -/

/-- domain in which the clamp of `appendNumber` is the identity: `|x| ≤ 2·10^7` -/
def M : Rat := 20000000

theorem no_clamp (x : Rat) (q : Nat) (hx : -M ≤ x ∧ x ≤ M) (hq1 : 1 ≤ q) (hq2 : q ≤ 107) :
    clamp32 (roundHalfAway (x * q)) = roundHalfAway (x * q) := by
  have hr := round_err (x * q)
  have hQ1 : (1 : Rat) ≤ (q : Rat) := by exact_mod_cast hq1
  have hQ2 : (q : Rat) ≤ 107 := by exact_mod_cast hq2
  unfold M at hx
  generalize (q : Rat) = Q at *
  have hu : x * Q ≤ 20000000 * 107 := by
    by_cases h0 : 0 ≤ x
    · have := Rat.mul_le_mul_of_nonneg_left hQ2 h0
      grind
    · have h0' : x ≤ 0 := by grind
      have hq0 : (0 : Rat) ≤ Q := by grind
      have := Rat.mul_le_mul_of_nonneg_right h0' hq0
      grind
  have hl : -(20000000 * 107 : Rat) ≤ x * Q := by
    by_cases h0 : 0 ≤ x
    · have hq0 : (0 : Rat) ≤ Q := by grind
      have := Rat.mul_nonneg h0 hq0
      grind
    · have h0' : 0 ≤ -x := by grind
      have := Rat.mul_le_mul_of_nonneg_left hQ2 h0'
      grind
  generalize roundHalfAway (x * Q) = pf at *
  have h1 : (pf : Rat) ≤ 2147483647 := by grind
  have h2 : (-2147483648 : Rat) ≤ (pf : Rat) := by grind
  have e1 : ((2147483647 : Int) : Rat) = 2147483647 := by rfl
  have e2 : ((-2147483648 : Int) : Rat) = -2147483648 := by rfl
  rw [← e1] at h1
  rw [← e2] at h2
  have h1' : pf ≤ 2147483647 := Rat.intCast_le_intCast.mp h1
  have h2' : -2147483648 ≤ pf := Rat.intCast_le_intCast.mp h2
  unfold clamp32 maxInt32 minInt32
  split
  · omega
  · split <;> omega

/-- **approximation bound**: the value the decoder sees differs from the requested one
by at most 1/214 -/
theorem val_close (x : Rat) (hx : -M ≤ x ∧ x ≤ M) :
    val x - x ≤ 1/214 ∧ x - val x ≤ 1/214 := by
  unfold val appendNumber
  split
  · constructor <;> grind
  · obtain ⟨d, _, hq1, hq2, hc, hd⟩ := bestApprox_spec x
    simp only
    have hnc := no_clamp x (bestApprox x).q hx hq1 hq2
    unfold candidate at hc
    simp only [hnc] at hc
    have hp : roundHalfAway (x * ((bestApprox x).q : Rat)) = (bestApprox x).p := (Prod.mk.inj hc).1
    have hdd : (((roundHalfAway (x * ((bestApprox x).q : Rat)) : Int) : Rat) / ((bestApprox x).q : Rat) - x).abs = d := (Prod.mk.inj hc).2
    rw [hp] at hdd
    have := (abs_le_iff _ _).mp (hdd ▸ hd)
    constructor <;> grind

end PsVerif.Proofs.T1Encode
