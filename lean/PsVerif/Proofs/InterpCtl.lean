import PsVerif.Model.Init
/-!
Invariants of the control fields (`numOps`, `execDepth`, `errors` and their ghost
high-water marks) over every function of the interpreter's mutual block, by simultaneous
induction on the fuel.  Basis of the C11 theorems.
-/
namespace PsVerif.Proofs.InterpCtl
open PsVerif.Model

/-- postcondition of every function of the mutual block, relative to the start state `s`
and the budget `m` -/
structure Good (m : Nat) (s : State) (p : State × Res) : Prop where
  /-- the counter does not decrease, unless it was put beyond `m + 1` from outside: the
  budget error saturates it at `m + 1` -/
  mono : (0 < m → s.numOps ≤ m + 1) → s.numOps ≤ p.1.numOps
  cap : 0 < m → s.numOps ≤ m → (p.2 ≠ .err .limit → p.1.numOps ≤ m) ∧ p.1.numOps ≤ m + 1
  /-- saturation: from at most `m + 1` (e.g. after an earlier call that ended with the budget
  error) the counter stays at most `m + 1` -/
  sat : 0 < m → s.numOps ≤ m + 1 → p.1.numOps ≤ m + 1
  depth : p.1.execDepth = s.execDepth
  errs : p.1.errors.length = s.errors.length
  hiD : p.1.hiDepth ≤ max s.hiDepth execDepthLimit
  hiE : p.1.hiErrors ≤ max s.hiErrors errorNestingLimit

/-- the two states agree on all control fields the invariant talks about -/
structure Same (s s' : State) : Prop where
  n : s'.numOps = s.numOps
  d : s'.execDepth = s.execDepth
  e : s'.errors = s.errors
  hd : s'.hiDepth = s.hiDepth
  he : s'.hiErrors = s.hiErrors

theorem Same.rfl' (s : State) : Same s s := ⟨rfl, rfl, rfl, rfl, rfl⟩

theorem Same.trans {a b c : State} (h1 : Same a b) (h2 : Same b c) : Same a c :=
  ⟨h2.n.trans h1.n, h2.d.trans h1.d, h2.e.trans h1.e, h2.hd.trans h1.hd, h2.he.trans h1.he⟩

theorem good_of_same {m : Nat} {s s' : State} (r : Res) (h : Same s s') : Good m s (s', r) where
  mono := by simp [h.n]
  cap := by intro _ hm; simp only [h.n]; exact ⟨fun _ => hm, by omega⟩
  sat := by intro _ hm; simp only [h.n]; exact hm
  depth := h.d
  errs := by simp [h.e]
  hiD := by simp only [h.hd]; omega
  hiE := by simp only [h.he]; omega

/-- start from an equivalent state -/
theorem good_start {m : Nat} {s0 s : State} {p : State × Res} (h : Same s0 s) (g : Good m s p) : Good m s0 p where
  mono := by have := g.mono; rw [h.n] at this; exact this
  cap := by intro hm hs; have := g.cap hm (by rw [h.n]; exact hs); exact this
  sat := by intro hm hs; have := g.sat hm (by rw [h.n]; exact hs); exact this
  depth := by rw [g.depth, h.d]
  errs := by rw [g.errs, h.e]
  hiD := by have := g.hiD; rw [h.hd] at this; exact this
  hiE := by have := g.hiE; rw [h.he] at this; exact this

/-- finish in an equivalent state -/
theorem good_end {m : Nat} {s s1 s2 : State} {r : Res} (g : Good m s (s1, r)) (h : Same s1 s2) : Good m s (s2, r) where
  mono := by have := g.mono; simp only [h.n]; exact this
  cap := by intro hm hs; have := g.cap hm hs; simp only [h.n]; exact this
  sat := by intro hm hs; have := g.sat hm hs; simp only [h.n]; exact this
  depth := by simp only [h.d]; exact g.depth
  errs := by simp only [h.e]; exact g.errs
  hiD := by simp only [h.hd]; exact g.hiD
  hiE := by simp only [h.he]; exact g.hiE

/-- sequencing: the first call did not hit the limit, then a second call -/
theorem good_seq {m : Nat} {s s1 : State} {r1 : Res} {p : State × Res}
    (g1 : Good m s (s1, r1)) (hr : r1 ≠ .err .limit) (g2 : Good m s1 p) : Good m s p where
  mono := fun h => Nat.le_trans (g1.mono h) (g2.mono (fun hm => g1.sat hm (h hm)))
  cap := by
    intro hm hs
    have c1 := g1.cap hm hs
    exact g2.cap hm (c1.1 hr)
  sat := fun hm hs => g2.sat hm (g1.sat hm hs)
  depth := by rw [g2.depth, g1.depth]
  errs := by rw [g2.errs, g1.errs]
  hiD := by have a := g1.hiD; have b := g2.hiD; simp only at a b ⊢; omega
  hiE := by have a := g1.hiE; have b := g2.hiE; simp only at a b ⊢; omega

/-- a sub-call's result is passed on unchanged -/
theorem good_pass {m : Nat} {s s1 : State} {r : Res} (g : Good m s (s1, r)) : Good m s (s1, r) := g

/-! ### helpers that leave the control fields alone -/

theorem same_setStack (s : State) (st : List Obj) : Same s (setStack s st) := ⟨rfl, rfl, rfl, rfl, rfl⟩
theorem same_pushS (s : State) (o : Obj) : Same s (pushS s o) := ⟨rfl, rfl, rfl, rfl, rfl⟩
theorem same_vm (s : State) (v : VM) : Same s { s with vm := v } := ⟨rfl, rfl, rfl, rfl, rfl⟩
theorem same_withScanner {α : Type} (s : State) (mm : Scan.SM α) : Same s (withScanner s mm).1 := ⟨rfl, rfl, rfl, rfl, rfl⟩
theorem same_objOfTok (s : State) (t : Scan.Tok) : Same s (objOfTok s t).1 := by
  cases t <;> exact ⟨rfl, rfl, rfl, rfl, rfl⟩

theorem same_readstring (s : State) : Same s (bReadstring s).1 := ⟨rfl, rfl, rfl, rfl, rfl⟩

theorem same_defaultErrorHandler (s : State) : Same s (defaultErrorHandler s).1 := by
  unfold defaultErrorHandler; split <;> exact ⟨rfl, rfl, rfl, rfl, rfl⟩

/-- the statement proved for all functions of the mutual block at once -/
def AllGood (m fuel : Nat) : Prop :=
  (∀ s o b, Good m s (execOne fuel m s o b)) ∧
  (∀ s o b, Good m s (execBody fuel m s o b)) ∧
  (∀ s o b c, Good m s (execTail fuel m s o b c)) ∧
  (∀ s r o i n, Good m s (runBody fuel m s r o i n)) ∧
  (∀ s id, Good m s (callBuiltin fuel m s id)) ∧
  (∀ s v i l p, Good m s (forLoop fuel m s v i l p)) ∧
  (∀ s n p, Good m s (repeatLoop fuel m s n p)) ∧
  (∀ s p, Good m s (loopLoop fuel m s p)) ∧
  (∀ s r o i n p, Good m s (forallArr fuel m s r o i n p)) ∧
  (∀ s r o i n p, Good m s (forallStr fuel m s r o i n p)) ∧
  (∀ s d ks p, Good m s (forallDict fuel m s d ks p)) ∧
  (∀ s, Good m s (scanRun fuel m s)) ∧
  (∀ s, Good m s (scanLoop fuel m s))

theorem good_fuel (m : Nat) (s : State) : Good m s (s, .fuel) := good_of_same _ (Same.rfl' s)

theorem allGood_zero (m : Nat) : AllGood m 0 := by
  refine ⟨?_, ?_, ?_, ?_, ?_, ?_, ?_, ?_, ?_, ?_, ?_, ?_, ?_⟩ <;> intros
  · simp only [execOne]; exact good_fuel m _
  · simp only [execBody]; exact good_fuel m _
  · simp only [execTail]; exact good_fuel m _
  · simp only [runBody]; exact good_fuel m _
  · simp only [callBuiltin]; exact good_fuel m _
  · simp only [forLoop]; exact good_fuel m _
  · simp only [repeatLoop]; exact good_fuel m _
  · simp only [loopLoop]; exact good_fuel m _
  · simp only [forallArr]; exact good_fuel m _
  · simp only [forallStr]; exact good_fuel m _
  · simp only [forallDict]; exact good_fuel m _
  · simp only [scanRun]; exact good_fuel m _
  · simp only [scanLoop]; exact good_fuel m _

/-- a call that occupies one more level of the execution stack until it returns -/
theorem good_level {m : Nat} {s s' : State} {r : Res} (hd : s.execDepth < execDepthLimit)
    (g : Good m { s with execDepth := s.execDepth + 1, hiDepth := max s.hiDepth (s.execDepth + 1) } (s', r)) :
    Good m s ({ s' with execDepth := s'.execDepth - 1 }, r) where
  mono := g.mono
  cap := g.cap
  sat := g.sat
  depth := by have := g.depth; simp only at this ⊢; omega
  errs := g.errs
  hiD := by have := g.hiD; simp only at this ⊢; omega
  hiE := g.hiE

theorem step_execOne {m n : Nat} (ih : AllGood m n) (s : State) (o : Obj) (b : Bool) :
    Good m s (execOne (n + 1) m s o b) := by
  simp only [execOne]
  split
  · split
    · exact good_of_same _ (Same.rfl' s)
    · rename_i hd
      have g := ih.2.1 { s with execDepth := s.execDepth + 1, hiDepth := max s.hiDepth (s.execDepth + 1) } o true
      generalize execBody n m { s with execDepth := s.execDepth + 1, hiDepth := max s.hiDepth (s.execDepth + 1) } o true = p at g
      obtain ⟨s', r⟩ := p
      exact good_level (by omega) g
  · exact ih.2.1 s o false

/-- the result code may be replaced when the sub-call did not hit the limit -/
theorem good_change_res {m : Nat} {s s1 s2 : State} {r : Res} (r' : Res) (g : Good m s (s1, r))
    (hr : r ≠ .err .limit) (h : Same s1 s2) : Good m s (s2, r') where
  mono := by have := g.mono; simp only [h.n]; exact this
  cap := by
    intro hm hs
    have c := g.cap hm hs
    simp only [h.n]
    exact ⟨fun _ => c.1 hr, c.2⟩
  sat := by intro hm hs; have := g.sat hm hs; simp only [h.n]; exact this
  depth := by simp only [h.d]; exact g.depth
  errs := by simp only [h.e]; exact g.errs
  hiD := by simp only [h.hd]; exact g.hiD
  hiE := by simp only [h.he]; exact g.hiE

theorem step_execBody {m n : Nat} (ih : AllGood m n) (s : State) (o : Obj) (b : Bool) :
    Good m s (execBody (n + 1) m s o b) := by
  simp only [execBody]
  split
  · exact good_of_same _ (Same.rfl' s)
  · split
    · split
      · exact good_of_same _ (Same.rfl' s)
      · split
        · exact good_of_same _ ⟨rfl, rfl, rfl, rfl, rfl⟩
        · exact good_of_same _ ⟨rfl, rfl, rfl, rfl, rfl⟩
    · split
      · exact good_of_same _ ⟨rfl, rfl, rfl, rfl, rfl⟩
      · split
        · exact good_of_same _ (same_pushS s o)
        · exact ih.2.2.1 s o b b

/-- entering `recurseTail`: the counter was incremented and the limit test passed -/
theorem good_incr {m : Nat} {s : State} {p : State × Res} (hnl : ¬ (m > 0 ∧ s.numOps + 1 > m))
    (g : Good m { s with numOps := s.numOps + 1 } p) : Good m s p where
  mono := by
    intro h
    have := g.mono (by intro hm; simp only; omega)
    simp only at this; omega
  cap := by
    intro hm _
    have : s.numOps + 1 ≤ m := by omega
    exact g.cap hm this
  sat := by
    intro hm _
    have : s.numOps + 1 ≤ m := by omega
    exact g.sat hm (by simp only; omega)
  depth := g.depth
  errs := g.errs
  hiD := g.hiD
  hiE := g.hiE

theorem good_limit {m : Nat} (s : State) (hl : m > 0 ∧ s.numOps + 1 > m) :
    Good m s ({ s with numOps := m + 1 }, .err .limit) where
  mono := by intro h; have := h hl.1; simp only; omega
  cap := by intro _ hs; simp only; exact ⟨fun h => absurd rfl h, by omega⟩
  sat := by intro _ _; simp only; omega
  depth := rfl
  errs := rfl
  hiD := by simp only; omega
  hiE := by simp only; omega

/-- the error-handler detour of the `builtin` case -/
theorem good_handler {m : Nat} {s1 s3 : State} {r3 : Res} (name : ErrName)
    (g3 : Good m { s1 with errors := name :: s1.errors, hiErrors := max s1.hiErrors (s1.errors.length + 1) } (s3, r3))
    (hl : s1.errors.length < errorNestingLimit) :
    Good m s1 ({ s3 with errors := s3.errors.drop (s3.errors.length - s1.errors.length) }, r3) where
  mono := g3.mono
  cap := g3.cap
  sat := g3.sat
  depth := g3.depth
  errs := by
    have := g3.errs
    simp only [List.length_cons] at this
    simp only [List.length_drop]
    omega
  hiD := g3.hiD
  hiE := by
    have := g3.hiE
    simp only at this ⊢
    omega

/-- the `Procedure` case of the `recurseTail` loop, for any state -/
theorem good_proc_case {m n : Nat} (ih : AllGood m n) (s' : State) (ref off len : Nat) (b c : Bool) :
    Good m s'
      (if b = true then
        if (len == 0) = true then okS s'
        else
          if (!c && decide (s'.execDepth ≥ execDepthLimit)) = true then psErrS s' "execstackoverflow"
          else
            leaveLevel c
              (match runBody n m (enterLevel c s') ref off 0 (len - 1) with
               | (s1, r) =>
                 (match r with
                  | .ok =>
                    match (s1.vm.getObjs ref)[off + (len - 1)]? with
                    | some last => execTail n m s1 last false true
                    | none => (s1, .err (.panic "procedure view outside its store"))
                  | _ => (s1, r) : State × Res))
      else okS (pushS s' (Obj.proc ref off len))) := by
  split
  · split
    · exact good_of_same _ (Same.rfl' s')
    · split
      · exact good_of_same _ (Same.rfl' s')
      · rename_i hd
        have body : ∀ s0 : State, Good m s0
            (match runBody n m s0 ref off 0 (len - 1) with
             | (s1, r) =>
               (match r with
                | .ok =>
                  match (s1.vm.getObjs ref)[off + (len - 1)]? with
                  | some last => execTail n m s1 last false true
                  | none => (s1, .err (.panic "procedure view outside its store"))
                | _ => (s1, r) : State × Res)) := by
          intro s0
          have g1 := ih.2.2.2.1 s0 ref off 0 (len - 1)
          generalize runBody n m s0 ref off 0 (len - 1) = p1 at g1
          obtain ⟨s1, r⟩ := p1
          simp only
          split
          · split
            · exact good_seq g1 (by simp) (ih.2.2.1 s1 _ false true)
            · exact good_seq g1 (by simp) (good_of_same _ (Same.rfl' s1))
          · exact g1
        have g := body (enterLevel c s')
        revert g
        generalize (match runBody n m (enterLevel c s') ref off 0 (len - 1) with
             | (s1, r) =>
               (match r with
                | .ok =>
                  match (s1.vm.getObjs ref)[off + (len - 1)]? with
                  | some last => execTail n m s1 last false true
                  | none => (s1, .err (.panic "procedure view outside its store"))
                | _ => (s1, r) : State × Res)) = p
        intro g
        obtain ⟨s2, r2⟩ := p
        cases c
        · -- called by name: one more level
          simp only [Bool.not_false, Bool.true_and, decide_eq_true_eq] at hd
          simp only [enterLevel, Bool.false_eq_true, if_false] at g
          simp only [leaveLevel, Bool.false_eq_true, if_false]
          exact good_level (by omega) g
        · simp only [enterLevel, if_true] at g
          simp only [leaveLevel, if_true]
          exact g
  · exact good_of_same _ (same_pushS s' _)

theorem step_execTail {m n : Nat} (ih : AllGood m n) (s : State) (o : Obj) (b c : Bool) :
    Good m s (execTail (n + 1) m s o b c) := by
  unfold execTail
  dsimp only
  split
  · rename_i hl
    exact good_limit s hl
  · rename_i hnl
    apply good_incr hnl
    split
    · -- executable name
      generalize ({ s with numOps := s.numOps + 1 } : State) = s'
      split
      · exact good_of_same _ (Same.rfl' s')
      · exact ih.2.2.1 s' _ true c
    · -- builtin
      rename_i id
      generalize ({ s with numOps := s.numOps + 1 } : State) = s'
      have g1 := ih.2.2.2.2.1 s' id
      generalize callBuiltin n m s' id = p1 at g1
      obtain ⟨s1, r⟩ := p1
      simp only
      split
      · rename_i name
        split
        · rename_i hl
          have hr : (Res.err (Err.ps name)) ≠ .err .limit := by simp
          apply good_seq g1 hr
          split
          · rename_i handler _
            have g3 := ih.1 { s1 with errors := name :: s1.errors, hiErrors := max s1.hiErrors (s1.errors.length + 1) } handler true
            generalize execOne n m { s1 with errors := name :: s1.errors, hiErrors := max s1.hiErrors (s1.errors.length + 1) } handler true = p3 at g3
            obtain ⟨s3, r3⟩ := p3
            exact good_handler name g3 hl
          · have g3 : Good m { s1 with errors := name :: s1.errors, hiErrors := max s1.hiErrors (s1.errors.length + 1) }
                ({ s1 with errors := name :: s1.errors, hiErrors := max s1.hiErrors (s1.errors.length + 1) }, Res.err (Err.ps name)) :=
              good_of_same _ (Same.rfl' _)
            exact good_handler name g3 hl
        · exact g1
      · exact g1
    · -- procedure
      rename_i ref off len
      exact good_proc_case ih _ ref off len b c
    · exact good_of_same _ (same_pushS _ _)

theorem step_runBody {m n : Nat} (ih : AllGood m n) (s : State) (r o i t : Nat) :
    Good m s (runBody (n + 1) m s r o i t) := by
  cases t with
  | zero => simp only [runBody]; exact good_of_same _ (Same.rfl' s)
  | succ t =>
    simp only [runBody]
    split
    · exact good_of_same _ (Same.rfl' s)
    · rename_i tok _
      have g1 := ih.1 s tok false
      generalize execOne n m s tok false = p1 at g1
      obtain ⟨s1, r1⟩ := p1
      simp only
      split
      · exact good_seq g1 (by simp) (ih.2.2.2.1 s1 r o (i + 1) t)
      · exact g1

/-- the common shape of the looping operators: stop at `exit`, continue on `ok`, pass on
anything else -/
def loopResult (r1 : Res) (s1 : State) (next : State × Res) : State × Res :=
  match r1 with
  | .err .exit => okS s1
  | .ok => next
  | _ => (s1, r1)

theorem good_loop {m : Nat} {s s0 s1 : State} {r1 : Res} {next : State × Res}
    (hs : Same s s0) (g1 : Good m s0 (s1, r1)) (gn : Good m s1 next) :
    Good m s (loopResult r1 s1 next) := by
  unfold loopResult
  cases r1 with
  | ok => exact good_start hs (good_seq g1 (by simp) gn)
  | fuel => exact good_start hs g1
  | err e =>
    cases e with
    | exit => exact good_start hs (good_change_res _ g1 (by simp) (Same.rfl' s1))
    | _ => exact good_start hs g1

theorem step_forLoop {m n : Nat} (ih : AllGood m n) (s : State) (v i l : Int) (p : Obj) :
    Good m s (forLoop (n + 1) m s v i l p) := by
  simp only [forLoop]
  split
  · exact good_of_same _ (Same.rfl' s)
  · have g1 := ih.1 (pushS s (.int v)) p true
    generalize execOne n m (pushS s (.int v)) p true = p1 at g1
    obtain ⟨s1, r1⟩ := p1
    dsimp only
    refine good_loop (same_pushS s _) g1 ?_
    split
    · exact good_of_same _ (Same.rfl' s1)
    · exact ih.2.2.2.2.2.1 s1 _ i l p

theorem step_repeatLoop {m n : Nat} (ih : AllGood m n) (s : State) (k : Nat) (p : Obj) :
    Good m s (repeatLoop (n + 1) m s k p) := by
  cases k with
  | zero => simp only [repeatLoop]; exact good_of_same _ (Same.rfl' s)
  | succ k =>
    simp only [repeatLoop]
    have g1 := ih.1 s p true
    generalize execOne n m s p true = p1 at g1
    obtain ⟨s1, r1⟩ := p1
    dsimp only
    exact good_loop (Same.rfl' s) g1 (ih.2.2.2.2.2.2.1 s1 k p)

theorem step_loopLoop {m n : Nat} (ih : AllGood m n) (s : State) (p : Obj) :
    Good m s (loopLoop (n + 1) m s p) := by
  simp only [loopLoop]
  have g1 := ih.1 s p true
  generalize execOne n m s p true = p1 at g1
  obtain ⟨s1, r1⟩ := p1
  dsimp only
  exact good_loop (Same.rfl' s) g1 (ih.2.2.2.2.2.2.2.1 s1 p)

theorem step_forallArr {m n : Nat} (ih : AllGood m n) (s : State) (r o i t : Nat) (p : Obj) :
    Good m s (forallArr (n + 1) m s r o i t p) := by
  cases t with
  | zero => simp only [forallArr]; exact good_of_same _ (Same.rfl' s)
  | succ t =>
    simp only [forallArr]
    split
    · exact good_of_same _ (Same.rfl' s)
    · rename_i v _
      have g1 := ih.1 (pushS s v) p true
      generalize execOne n m (pushS s v) p true = p1 at g1
      obtain ⟨s1, r1⟩ := p1
      dsimp only
      exact good_loop (same_pushS s _) g1 (ih.2.2.2.2.2.2.2.2.1 s1 r o (i + 1) t p)

theorem step_forallStr {m n : Nat} (ih : AllGood m n) (s : State) (r o i t : Nat) (p : Obj) :
    Good m s (forallStr (n + 1) m s r o i t p) := by
  cases t with
  | zero => simp only [forallStr]; exact good_of_same _ (Same.rfl' s)
  | succ t =>
    simp only [forallStr]
    split
    · exact good_of_same _ (Same.rfl' s)
    · rename_i c _
      have g1 := ih.1 (pushS s (.int c.toNat)) p true
      generalize execOne n m (pushS s (.int c.toNat)) p true = p1 at g1
      obtain ⟨s1, r1⟩ := p1
      dsimp only
      exact good_loop (same_pushS s _) g1 (ih.2.2.2.2.2.2.2.2.2.1 s1 r o (i + 1) t p)

theorem step_forallDict {m n : Nat} (ih : AllGood m n) (s : State) (d : Nat) (ks : List Name) (p : Obj) :
    Good m s (forallDict (n + 1) m s d ks p) := by
  cases ks with
  | nil => simp only [forallDict]; exact good_of_same _ (Same.rfl' s)
  | cons k ks =>
    simp only [forallDict]
    split
    · exact ih.2.2.2.2.2.2.2.2.2.2.1 s d ks p
    · rename_i v _
      have g1 := ih.1 (setStack s (v :: .name k :: s.vm.stack)) p true
      generalize execOne n m (setStack s (v :: .name k :: s.vm.stack)) p true = p1 at g1
      obtain ⟨s1, r1⟩ := p1
      dsimp only
      exact good_loop (same_setStack s _) g1 (ih.2.2.2.2.2.2.2.2.2.2.1 s1 d ks p)

theorem step_scanLoop {m n : Nat} (ih : AllGood m n) (s : State) : Good m s (scanLoop (n + 1) m s) := by
  simp only [scanLoop]
  have hs1 := same_withScanner s Scan.scanToken
  generalize withScanner s Scan.scanToken = p0 at hs1
  obtain ⟨s1, r0⟩ := p0
  dsimp only
  split
  · exact good_of_same _ hs1
  · exact good_of_same _ hs1
  · rename_i tok
    have hs2 := same_objOfTok s1 tok
    generalize objOfTok s1 tok = p2 at hs2
    obtain ⟨s2, o⟩ := p2
    dsimp only
    have g3 := ih.1 s2 o false
    generalize execOne n m s2 o false = p3 at g3
    obtain ⟨s3, r3⟩ := p3
    dsimp only
    split
    · exact good_start (hs1.trans hs2) (good_seq g3 (by simp) (ih.2.2.2.2.2.2.2.2.2.2.2.2 s3))
    · exact good_start (hs1.trans hs2) g3

theorem step_scanRun {m n : Nat} (ih : AllGood m n) (s : State) : Good m s (scanRun (n + 1) m s) := by
  simp only [scanRun]
  -- the start check only touches `checkStart` and the scanner
  have key : ∀ (st : State × Option Err), Same s st.1 →
      Good m s (match st with
        | (s1, some e) => (s1, Res.err e)
        | (s1, none) =>
          match scanLoop n m { s1 with scannerDepth := s1.scannerDepth + 1 } with
          | (s2, r) => ({ s2 with scannerDepth := s2.scannerDepth - 1 }, r)) := by
    intro st hst
    obtain ⟨s1, eo⟩ := st
    cases eo with
    | some e => exact good_of_same _ hst
    | none =>
      dsimp only
      have g := ih.2.2.2.2.2.2.2.2.2.2.2.2 { s1 with scannerDepth := s1.scannerDepth + 1 }
      generalize scanLoop n m { s1 with scannerDepth := s1.scannerDepth + 1 } = p at g
      obtain ⟨s2, r⟩ := p
      have h1 : Same s ({ s1 with scannerDepth := s1.scannerDepth + 1 } : State) :=
        hst.trans ⟨rfl, rfl, rfl, rfl, rfl⟩
      exact good_start h1 (good_end g ⟨rfl, rfl, rfl, rfl, rfl⟩)
  apply key
  split
  · simp only [withScanner]
    repeat' split
    all_goals exact ⟨rfl, rfl, rfl, rfl, rfl⟩
  · exact Same.rfl' s

theorem step_callBuiltin {m n : Nat} (ih : AllGood m n) (s : State) (id : String) :
    Good m s (callBuiltin (n + 1) m s id) := by
  unfold callBuiltin
  split
  · -- exec
    repeat' split
    all_goals first
      | exact good_of_same _ (Same.rfl' s)
      | exact good_of_same _ (same_setStack s _)
      | exact good_start (same_setStack s _) (ih.2.2.2.2.1 _ _)
      | exact good_start (same_setStack s _) (ih.1 _ _ _)
  · -- if
    repeat' split
    all_goals first
      | exact good_of_same _ (Same.rfl' s)
      | exact good_of_same _ (same_setStack s _)
      | exact good_start (same_setStack s _) (ih.1 _ _ _)
  · -- ifelse
    repeat' split
    all_goals first
      | exact good_of_same _ (Same.rfl' s)
      | exact good_start (same_setStack s _) (ih.1 _ _ _)
  · -- for
    repeat' split
    all_goals first
      | exact good_of_same _ (Same.rfl' s)
      | exact good_start (same_setStack s _) (ih.2.2.2.2.2.1 _ _ _ _ _)
  · -- repeat
    repeat' split
    all_goals first
      | exact good_of_same _ (Same.rfl' s)
      | exact good_start (same_setStack s _) (ih.2.2.2.2.2.2.1 _ _ _)
  · -- loop
    repeat' split
    all_goals first
      | exact good_of_same _ (Same.rfl' s)
      | exact good_start (same_setStack s _) (ih.2.2.2.2.2.2.2.1 _ _)
  · -- forall
    repeat' split
    all_goals first
      | exact good_of_same _ (Same.rfl' s)
      | exact good_start (same_setStack s _) (ih.2.2.2.2.2.2.2.2.1 _ _ _ _ _ _)
      | exact good_start (same_setStack s _) (ih.2.2.2.2.2.2.2.2.2.1 _ _ _ _ _ _)
      | exact good_start (same_setStack s _) (ih.2.2.2.2.2.2.2.2.2.2.1 _ _ _ _)
  · exact good_of_same _ (same_readstring s)
  · exact good_of_same _ (same_defaultErrorHandler s)
  · -- eexec
    split
    · exact good_of_same _ (Same.rfl' s)
    · rename_i rest _
      dsimp only
      split
      · exact good_of_same _ ⟨rfl, rfl, rfl, rfl, rfl⟩
      · generalize hs1 : ({ s with vm := pushDict { s.vm with stack := rest } s.vm.roots.systemDict } : State) = s1
        have h1 : Same s s1 := by subst hs1; exact ⟨rfl, rfl, rfl, rfl, rfl⟩
        have h2 := same_withScanner s1 Scan.beginEexec
        generalize withScanner s1 Scan.beginEexec = p2 at h2
        obtain ⟨s2, r2⟩ := p2
        dsimp only
        split
        · exact good_of_same _ ((h1.trans h2).trans ⟨rfl, rfl, rfl, rfl, rfl⟩)
        · have g3 := ih.2.2.2.2.2.2.2.2.2.2.2.1 s2
          generalize scanRun n m s2 = p3 at g3
          obtain ⟨s3, r3⟩ := p3
          dsimp only
          split
          · exact good_start (h1.trans h2) (good_change_res _ g3 (by simp) ⟨rfl, rfl, rfl, rfl, rfl⟩)
          · exact good_start (h1.trans h2) (good_change_res _ g3 (by simp) ⟨rfl, rfl, rfl, rfl, rfl⟩)
          · exact good_start (h1.trans h2) (good_end g3 ⟨rfl, rfl, rfl, rfl, rfl⟩)
    · exact good_of_same _ (Same.rfl' s)
  · -- operators without re-entry
    split
    · exact good_of_same _ (same_vm s _)
    · exact good_of_same _ (Same.rfl' s)

/-- **all functions of the mutual block satisfy the control invariant, for every fuel** -/
theorem allGood (m : Nat) : ∀ fuel, AllGood m fuel := by
  intro fuel
  induction fuel with
  | zero => exact allGood_zero m
  | succ n ih =>
    exact ⟨step_execOne ih, step_execBody ih, step_execTail ih, step_runBody ih, step_callBuiltin ih,
      step_forLoop ih, step_repeatLoop ih, step_loopLoop ih, step_forallArr ih, step_forallStr ih,
      step_forallDict ih, step_scanRun ih, step_scanLoop ih⟩

end PsVerif.Proofs.InterpCtl
