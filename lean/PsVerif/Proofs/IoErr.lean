import PsVerif.Model.Init
/-!
# C13 (reader half): a failure of the underlying reader is never swallowed

The scanner model (`Model/Scanner.lean`) reads the byte list `src`; when it is used up,
`readByteRaw` returns the sticky error `Err.io t` (`fault = some t`: the reader failed at that
offset) or `Err.eof`.  This file proves, for **every** program, fault position, budget and
fuel, what happens to that failure in `execute` (`Model/Interp.lean`).

Main results (end of the file):
* `io_fault_surfaces` – if at the end the scanner has hit the failure (`scanner.err ≠ none`)
  and no structured comment has been recorded (`scanner.dsc = []`), the result is exactly
  `.err (.io t)`.
* `ok_only_by_stop` – with a failing reader, `execute` returns `.ok` only through an explicit
  `stop`; the scanning loop itself never ends normally (no clean EOF is ever seen).
* `ok_after_hit_has_dsc`, `final_scanner_err` – corollaries.
* `*_propagates` – one step of each of the 13 functions of the mutual block passes a fatal
  result (`.err (.io t)`, …) on unchanged; the only catch points are named there.

The hypothesis `scanner.dsc = []` of `io_fault_surfaces` cannot be dropped (FINDING, see
`Props/C13.lean`): after a structured comment `%%Key: value⏎` the scanner looks three bytes
ahead for a `%%+` continuation line (`readCommentValue` → `lookingAt` → `peekN`, which drops
the error of `readByte`); if the reader fails within these three bytes, the (at most two) bytes
before the failure are still tokenised from the peek buffer, and a program that executes
`stop` in such a token ends with `.ok` although the failing read has been issued.

Structure of the proof.
* pass 1 (`Fr`): facts that hold from every scanner state – the sticky error is unset or the
  reader's failure, no `io.EOF` is ever produced, recorded structured comments stay.
* pass 2 (`Tr` with `Clean`/`HitSt`/`Dead`): from a clean state every scanner function either
  stays clean or reports the failure; the functions that drop an error (`attempt`) end in a
  state where the next read fails again (the error is sticky), except for the look-ahead of
  `peekN`, whose callers are analysed one by one.
* pass 3 (`Mn`): the number of bytes left (source plus peek buffer) never grows; with it
  the fuel of `skipWhiteSpace` is shown never to run out on these paths, so that the reported
  error is the reader's error and not the scanner model's fuel marker.
* the 13 interpreter functions, by simultaneous induction on the fuel (pattern of
  `Proofs/InterpCtl.lean`).

Every use of `attempt` in `Model/Scanner.lean`, and why no `Err.io` is lost there:
* `peekN` (`attempt readByte`): the look-ahead comes back short; `scanToken` (`<`: the hex
  string reader fails at once, lemma `tr_readHexString_hit1`; `>`: `s.err` is returned),
  `beginEexec` and `scanRun` (`s.err` is returned) and `skipWhiteSpace` (`%`: the comment is
  skipped, the next `peek` fails) handle it; `readCommentValue` is the exception above.
* `skipByte` (`attempt next`): always called with a non-empty peek buffer (after `peek`, or
  after a full `lookingAt`), where `next` cannot fail (`tr_skipByte_cons`).
* `skipOptionalByte` (`attempt peek`), `skipToEOL` (`attempt next`), `skipComment`
  (`attempt (skipRequiredByte 37)`), `readStructuredComment` (`attempt readCommentKey`,
  `attempt readCommentValue`): the error is dropped, but the state is `Dead` (sticky error
  set, source and peek buffer empty) and the following `skipWhiteSpace` fails with the same
  error (`tr_skipWhiteSpace_dead`).
* `readCommentKey`, `skipBlanks`, `readLine`, `readOctal`, `readRegular` (`attempt peek` /
  `attempt next`): only `io.EOF` is treated as the end of the token, every other error is
  re-thrown; so a name or number ending at the fault position is *not* delivered, the error is.
* `readN` (`attempt next`): the error is returned next to the bytes; `readstring` turns
  every error but `io.EOF` into its result.
-/

namespace PsVerif.Proofs.IoErr
open PsVerif.Model PsVerif.Model.Scan

/-! ### Hoare triples for the scanner monad -/

theorem bind_eq {α β : Type} (m : SM α) (f : α → SM β) (sc : Scanner) :
    (m >>= f) sc = match m sc with
      | (.ok a, s1) => f a s1
      | (.error e, s1) => (.error e, s1) := by
  show (ExceptT.bind m f) sc = _
  unfold ExceptT.bind ExceptT.bindCont ExceptT.mk
  simp only [bind, StateT.bind]
  cases h : m sc with
  | mk r s1 => cases r <;> simp <;> rfl

theorem pure_eq {α : Type} (a : α) (sc : Scanner) : (pure a : SM α) sc = (.ok a, sc) := rfl

/-- postcondition given separately for the two kinds of result -/
def Post {α : Type} (A : α → Scanner → Prop) (E : Err → Scanner → Prop) : Except Err α → Scanner → Prop
  | .ok a, sc => A a sc
  | .error e, sc => E e sc

@[simp] theorem Post_ok {α : Type} (A : α → Scanner → Prop) (E : Err → Scanner → Prop) (a : α) (sc : Scanner) :
    Post A E (.ok a) sc = A a sc := rfl
@[simp] theorem Post_error {α : Type} (A : α → Scanner → Prop) (E : Err → Scanner → Prop) (e : Err) (sc : Scanner) :
    Post A E (.error e) sc = E e sc := rfl

/-- from a state satisfying `P`, the action ends with a result and state satisfying `Q` -/
def Tr {α : Type} (P : Scanner → Prop) (m : SM α) (Q : Except Err α → Scanner → Prop) : Prop :=
  ∀ sc, P sc → Q (m sc).1 (m sc).2

theorem tr_bind {α β : Type} {P : Scanner → Prop} {m : SM α} {f : α → SM β}
    {A : α → Scanner → Prop} {E : Err → Scanner → Prop} {Q : Except Err β → Scanner → Prop}
    (h1 : Tr P m (Post A E)) (h2 : ∀ a, Tr (A a) (f a) Q) (h3 : ∀ e sc, E e sc → Q (.error e) sc) :
    Tr P (m >>= f) Q := by
  intro sc hp
  rw [bind_eq]
  have := h1 sc hp
  generalize m sc = p at this
  obtain ⟨r, s1⟩ := p
  cases r with
  | ok a => exact h2 a s1 this
  | error e => exact h3 e s1 this

theorem tr_pure {α : Type} {P : Scanner → Prop} {a : α} {Q : Except Err α → Scanner → Prop}
    (h : ∀ sc, P sc → Q (.ok a) sc) : Tr P (pure a) Q := fun sc hp => h sc hp

theorem tr_fail {α : Type} {P : Scanner → Prop} {e : Err} {Q : Except Err α → Scanner → Prop}
    (h : ∀ sc, P sc → Q (.error e) sc) : Tr P (fail e : SM α) Q := fun sc hp => h sc hp

theorem tr_getS {P : Scanner → Prop} : Tr P getS (Post (fun s sc => s = sc ∧ P sc) (fun _ _ => False)) :=
  fun _ hp => ⟨rfl, hp⟩

theorem tr_modS {P : Scanner → Prop} (f : Scanner → Scanner) :
    Tr P (modS f) (Post (fun _ sc => ∃ s0, P s0 ∧ sc = f s0) (fun _ _ => False)) :=
  fun sc hp => ⟨sc, hp, rfl⟩

theorem tr_attempt {α : Type} {P : Scanner → Prop} {m : SM α} {Q : Except Err α → Scanner → Prop}
    (h : Tr P m Q) : Tr P (attempt m) (Post (fun r sc => Q r sc) (fun _ _ => False)) := by
  intro sc hp
  have := h sc hp
  unfold attempt
  generalize m sc = p at this
  obtain ⟨r, s1⟩ := p
  exact this

theorem tr_conseq {α : Type} {P P' : Scanner → Prop} {m : SM α} {Q Q' : Except Err α → Scanner → Prop}
    (hp : ∀ sc, P' sc → P sc) (h : Tr P m Q) (hq : ∀ r sc, Q r sc → Q' r sc) : Tr P' m Q' :=
  fun sc h' => hq _ _ (h sc (hp sc h'))

theorem tr_post {α : Type} {P : Scanner → Prop} {m : SM α} {A A' : α → Scanner → Prop} {E E' : Err → Scanner → Prop}
    (h : Tr P m (Post A E)) (ha : ∀ a sc, A a sc → A' a sc) (he : ∀ e sc, E e sc → E' e sc) : Tr P m (Post A' E') := by
  refine tr_conseq (fun _ h => h) h ?_
  intro r sc hq
  cases r with
  | ok a => exact ha a sc hq
  | error e => exact he e sc hq

theorem tr_pre {α : Type} {P P' : Scanner → Prop} {m : SM α} {Q : Except Err α → Scanner → Prop}
    (h : Tr P m Q) (hp : ∀ sc, P' sc → P sc) : Tr P' m Q := fun sc h' => h sc (hp sc h')

/-- a precondition that does not hold -/
theorem tr_false {α : Type} {P : Scanner → Prop} {m : SM α} {Q : Except Err α → Scanner → Prop}
    (h : ∀ sc, P sc → False) : Tr P m Q := fun sc hp => (h sc hp).elim

end PsVerif.Proofs.IoErr

namespace PsVerif.Proofs.IoErr
open PsVerif.Model PsVerif.Model.Scan

/-! ### pass 1: frame facts that hold from every state -/

/-- the reader fails with tag `t`, and the sticky error is either unset or that failure -/
def Inv0 (t : String) (sc : Scanner) : Prop := sc.fault = some t ∧ (sc.err = none ∨ sc.err = some (.io t))

/-- `Inv0` plus: if `b` then a structured comment has been recorded -/
def I (t : String) (b : Prop) (sc : Scanner) : Prop := Inv0 t sc ∧ (b → sc.dsc ≠ [])

/-- frame property: invariant kept, no `io.EOF` produced, results satisfy `Q` -/
def Fr (t : String) (b : Prop) {α : Type} (Q : α → Prop) (m : SM α) : Prop :=
  Tr (I t b) m (Post (fun a sc => I t b sc ∧ Q a) (fun e sc => I t b sc ∧ e ≠ .eof))

def NoEofR {α : Type} (Q : α → Prop) : Except Err α → Prop
  | .ok a => Q a
  | .error e => e ≠ .eof

section
variable {t : String} {b : Prop}

theorem fr_bind {α β : Type} {Q1 : α → Prop} {Q : β → Prop} {m : SM α} {f : α → SM β}
    (h1 : Fr t b Q1 m) (h2 : ∀ a, Q1 a → Fr t b Q (f a)) : Fr t b Q (m >>= f) := by
  refine tr_bind h1 (fun a => ?_) (fun e sc h => h)
  intro sc h
  exact h2 a h.2 sc h.1

theorem fr_pure {α : Type} {Q : α → Prop} {a : α} (h : Q a) : Fr t b Q (pure a : SM α) :=
  fun _ hp => ⟨hp, h⟩

theorem fr_fail {α : Type} {Q : α → Prop} {e : Err} (h : e ≠ .eof) : Fr t b Q (fail e : SM α) :=
  fun _ hp => ⟨hp, h⟩

theorem fr_getS : Fr t b (fun s => Inv0 t s) getS := fun _ hp => ⟨hp, hp.1⟩

theorem fr_modS {f : Scanner → Scanner} (h : ∀ sc, I t b sc → I t b (f sc)) : Fr t b (fun _ => True) (modS f) :=
  fun sc hp => ⟨h sc hp, trivial⟩

theorem fr_attempt {α : Type} {Q : α → Prop} {m : SM α} (h : Fr t b Q m) : Fr t b (NoEofR Q) (attempt m) := by
  intro sc hp
  have := h sc hp
  unfold attempt
  generalize m sc = p at this
  obtain ⟨r, s1⟩ := p
  cases r with
  | ok a => exact ⟨this.1, this.2⟩
  | error e => exact ⟨this.1, this.2⟩

theorem fr_weaken {α : Type} {Q Q' : α → Prop} {m : SM α} (h : Fr t b Q m) (hq : ∀ a, Q a → Q' a) : Fr t b Q' m :=
  tr_post h (fun a _ h => ⟨h.1, hq a h.2⟩) (fun _ _ h => h)

theorem fr_any {α : Type} {Q : α → Prop} {m : SM α} (h : Fr t b Q m) : Fr t b (fun _ => True) m :=
  fr_weaken h (fun _ _ => trivial)

theorem fr_readByteRaw : Fr t b (fun _ => True) readByteRaw := by
  intro sc h
  obtain ⟨⟨hf, he⟩, hd⟩ := h
  unfold readByteRaw
  split
  · split
    · exact ⟨⟨⟨hf, he⟩, hd⟩, trivial⟩
    · exact ⟨⟨⟨hf, he⟩, hd⟩, by simp⟩
  · split
    · rename_i e hse
      split
      · exact ⟨⟨⟨hf, he⟩, hd⟩, trivial⟩
      · refine ⟨⟨⟨hf, he⟩, hd⟩, ?_⟩
        rcases he with he | he
        · rw [he] at hse; cases hse
        · rw [he] at hse; cases hse; simp
    · split
      · exact ⟨⟨⟨hf, he⟩, hd⟩, trivial⟩
      · simp only [hf]
        exact ⟨⟨⟨rfl, Or.inr rfl⟩, hd⟩, by simp⟩

theorem fr_readHexPair : ∀ (fuel i : Nat) (out : UInt8), Fr t b (fun _ => True) (readHexPair fuel i out) := by
  intro fuel
  induction fuel with
  | zero => intro i out; unfold readHexPair; exact fr_fail (by simp)
  | succ n ih =>
    intro i out
    unfold readHexPair
    split
    · exact fr_pure trivial
    · refine fr_bind fr_readByteRaw (fun a _ => ?_)
      split
      · exact ih _ _
      · split
        · exact ih _ _
        · exact fr_fail (by simp)

theorem fr_readByteEexec : Fr t b (fun _ => True) readByteEexec := by
  unfold readByteEexec
  refine fr_bind fr_getS (fun s _ => ?_)
  split
  · exact fr_readByteRaw
  · exact fr_readHexPair _ _ _

theorem fr_readByte : Fr t b (fun _ => True) readByte := by
  unfold readByte
  refine fr_bind fr_getS (fun s _ => ?_)
  split
  · exact fr_readByteRaw
  · refine fr_bind fr_readByteEexec (fun a _ => ?_)
    refine fr_bind fr_getS (fun s _ => ?_)
    generalize Cipher.decStep s.r a = pr
    obtain ⟨p, r'⟩ := pr
    dsimp only
    refine fr_bind (fr_modS (fun sc h => h)) (fun _ _ => ?_)
    exact fr_pure trivial

theorem fr_next : Fr t b (fun _ => True) next := by
  unfold next
  refine fr_bind fr_getS (fun s _ => ?_)
  refine fr_bind (Q1 := fun _ => True) ?_ (fun a _ => ?_)
  · split
    · split
      · refine fr_bind (fr_modS (fun sc h => h)) (fun _ _ => ?_)
        exact fr_pure trivial
      · exact fr_fail (by simp)
    · exact fr_readByte
  · refine fr_bind (fr_modS (fun sc h => ?_)) (fun _ _ => fr_pure trivial)
    dsimp only
    split
    · exact h
    · split
      · exact h
      · exact h

theorem fr_peek : Fr t b (fun _ => True) peek := by
  unfold peek
  refine fr_bind fr_getS (fun s _ => ?_)
  split
  · exact fr_pure trivial
  · refine fr_bind fr_readByte (fun a _ => ?_)
    refine fr_bind (fr_modS (fun sc h => h)) (fun _ _ => ?_)
    exact fr_pure trivial

end
end PsVerif.Proofs.IoErr

namespace PsVerif.Proofs.IoErr
open PsVerif.Model PsVerif.Model.Scan

section
variable {t : String} {b : Prop}

theorem fr_ite {α : Type} {Q : α → Prop} {c : Prop} [Decidable c] {m1 m2 : SM α}
    (h1 : Fr t b Q m1) (h2 : Fr t b Q m2) : Fr t b Q (if c then m1 else m2) := by
  split
  · exact h1
  · exact h2

theorem fr_fail_bind {α β : Type} {Q : β → Prop} {e : Err} {f : α → SM β} (h : e ≠ .eof) :
    Fr t b Q ((fail e : SM α) >>= f) := by
  intro sc hp
  have : ((fail e : SM α) >>= f) sc = (.error e, sc) := by rw [bind_eq]; rfl
  rw [this]
  exact ⟨hp, h⟩

theorem fr_peekN (n : Nat) : ∀ fuel, Fr t b (fun _ => True) (peekN n fuel) := by
  intro fuel
  induction fuel with
  | zero => unfold peekN; exact fr_bind fr_getS (fun s _ => fr_pure trivial)
  | succ k ih =>
    unfold peekN
    refine fr_bind fr_getS (fun s _ => ?_)
    split
    · exact fr_pure trivial
    · refine fr_bind (fr_attempt fr_readByte) (fun r _ => ?_)
      split
      · exact fr_bind fr_getS (fun s _ => fr_pure trivial)
      · exact fr_bind (fr_modS (fun sc h => h)) (fun _ _ => ih)

theorem fr_lookingAt (pat : List UInt8) : Fr t b (fun _ => True) (lookingAt pat) := by
  unfold lookingAt
  exact fr_bind (fr_peekN _ _) (fun _ _ => fr_pure trivial)

theorem fr_skipByte : Fr t b (fun _ => True) skipByte := by
  unfold skipByte
  exact fr_bind (fr_attempt fr_next) (fun _ _ => fr_pure trivial)

theorem fr_skipN : ∀ n, Fr t b (fun _ => True) (skipN n) := by
  intro n
  induction n with
  | zero => unfold skipN; exact fr_pure trivial
  | succ k ih => unfold skipN; exact fr_bind fr_skipByte (fun _ _ => ih)

theorem syntaxErr_ne : syntaxErr ≠ .eof := by simp [syntaxErr]

theorem fr_skipRequiredByte (x : UInt8) : Fr t b (fun _ => True) (skipRequiredByte x) := by
  unfold skipRequiredByte
  refine fr_bind fr_next (fun a _ => ?_)
  split
  · exact fr_fail syntaxErr_ne
  · exact fr_pure trivial

theorem fr_skipOptionalByte (x : UInt8) : Fr t b (fun _ => True) (skipOptionalByte x) := by
  unfold skipOptionalByte
  refine fr_bind (fr_attempt fr_peek) (fun r _ => ?_)
  split
  · split
    · exact fr_skipByte
    · exact fr_pure trivial
  · exact fr_pure trivial

theorem fr_skipToEOL : ∀ fuel, Fr t b (fun _ => True) (skipToEOL fuel) := by
  intro fuel
  induction fuel with
  | zero => unfold skipToEOL; exact fr_pure trivial
  | succ k ih =>
    unfold skipToEOL
    refine fr_bind (fr_attempt fr_next) (fun r _ => ?_)
    split
    · exact fr_pure trivial
    · split
      · exact fr_pure trivial
      · split
        · exact fr_skipOptionalByte _
        · exact ih

theorem fr_skipComment : Fr t b (fun _ => True) skipComment := by
  unfold skipComment
  refine fr_bind (fr_attempt (fr_skipRequiredByte _)) (fun r _ => ?_)
  split
  · exact fr_bind fr_getS (fun s _ => fr_skipToEOL _)
  · exact fr_pure trivial

theorem fr_readCommentKey : ∀ fuel acc, Fr t b (fun _ => True) (readCommentKey fuel acc) := by
  intro fuel
  induction fuel with
  | zero => intro acc; unfold readCommentKey; exact fr_pure trivial
  | succ k ih =>
    intro acc
    unfold readCommentKey
    refine fr_bind (fr_attempt fr_peek) (fun r hr => ?_)
    split
    · exact fr_pure trivial
    · exact fr_fail hr
    · split
      · exact fr_pure trivial
      · refine fr_bind fr_skipByte (fun _ _ => ?_)
        split
        · exact fr_pure trivial
        · exact ih _

theorem fr_skipBlanks : ∀ fuel, Fr t b (fun _ => True) (skipBlanks fuel) := by
  intro fuel
  induction fuel with
  | zero => unfold skipBlanks; exact fr_pure trivial
  | succ k ih =>
    unfold skipBlanks
    refine fr_bind (fr_attempt fr_peek) (fun r hr => ?_)
    split
    · exact fr_pure trivial
    · exact fr_fail hr
    · split
      · exact fr_pure trivial
      · exact fr_bind fr_skipByte (fun _ _ => ih)

theorem fr_readLine : ∀ fuel acc, Fr t b (fun _ => True) (readLine fuel acc) := by
  intro fuel
  induction fuel with
  | zero => intro acc; unfold readLine; exact fr_pure trivial
  | succ k ih =>
    intro acc
    unfold readLine
    refine fr_bind (fr_attempt fr_next) (fun r hr => ?_)
    split
    · exact fr_pure trivial
    · exact fr_fail hr
    · split
      · exact fr_pure trivial
      · split
        · exact fr_bind (fr_skipOptionalByte _) (fun _ _ => fr_pure trivial)
        · exact ih _

theorem fr_readCommentValue : ∀ fuel acc, Fr t b (fun _ => True) (readCommentValue fuel acc) := by
  intro fuel
  induction fuel with
  | zero => intro acc; unfold readCommentValue; exact fr_pure trivial
  | succ k ih =>
    intro acc
    unfold readCommentValue
    refine fr_bind fr_getS (fun s _ => ?_)
    refine fr_bind (fr_skipBlanks _) (fun _ _ => ?_)
    refine fr_bind fr_getS (fun s _ => ?_)
    refine fr_bind (fr_readLine _ _) (fun acc' _ => ?_)
    refine fr_bind (fr_lookingAt _) (fun c _ => ?_)
    split
    · exact fr_bind (fr_skipN _) (fun _ _ => ih _)
    · exact fr_pure trivial

theorem fr_readStructuredComment : Fr t b (fun _ => True) readStructuredComment := by
  unfold readStructuredComment
  refine fr_bind (fr_lookingAt _) (fun c _ => ?_)
  split
  · exact fr_pure trivial
  · refine fr_bind (fr_skipN _) (fun _ _ => ?_)
    refine fr_bind fr_getS (fun s _ => ?_)
    refine fr_bind (fr_attempt (fr_readCommentKey _ _)) (fun r _ => ?_)
    split
    · exact fr_bind fr_getS (fun s _ => fr_bind (fr_skipToEOL _) (fun _ _ => fr_pure trivial))
    · split
      · exact fr_bind fr_getS (fun s _ => fr_bind (fr_skipToEOL _) (fun _ _ => fr_pure trivial))
      · refine fr_bind fr_getS (fun s _ => ?_)
        refine fr_bind (fr_attempt (fr_readCommentValue _ _)) (fun r _ => ?_)
        split
        · exact fr_pure trivial
        · exact fr_pure trivial

theorem fr_skipWhiteSpace : ∀ fuel, Fr t b (fun _ => True) (skipWhiteSpace fuel) := by
  intro fuel
  induction fuel with
  | zero => unfold skipWhiteSpace; exact fr_fail (by simp)
  | succ k ih =>
    unfold skipWhiteSpace
    refine fr_bind fr_peek (fun c _ => ?_)
    split
    · exact fr_bind fr_skipByte (fun _ _ => ih)
    · split
      · refine fr_bind fr_getS (fun s _ => ?_)
        refine fr_bind (fr_lookingAt _) (fun c _ => ?_)
        split
        · refine fr_bind fr_readStructuredComment (fun r _ => ?_)
          dsimp only
          split
          · refine fr_bind (fr_modS (fun sc h => ⟨h.1, fun _ => ?_⟩)) (fun _ _ => ih)
            simp
          · exact ih
        · exact fr_bind fr_skipComment (fun _ _ => ih)
      · exact fr_pure trivial

theorem fr_readOctal : ∀ n oct, Fr t b (fun _ => True) (readOctal n oct) := by
  intro n
  induction n with
  | zero => intro oct; unfold readOctal; exact fr_pure trivial
  | succ k ih =>
    intro oct
    unfold readOctal
    refine fr_bind (fr_attempt fr_peek) (fun r hr => ?_)
    split
    · exact fr_pure trivial
    · exact fr_fail hr
    · split
      · exact fr_pure trivial
      · exact fr_bind fr_skipByte (fun _ _ => ih _)

theorem fr_readStringBody : ∀ fuel res level ig, Fr t b (fun _ => True) (readStringBody fuel res level ig) := by
  intro fuel
  induction fuel with
  | zero => intro res level ig; unfold readStringBody; exact fr_fail (by simp)
  | succ k ih =>
    intro res level ig
    unfold readStringBody
    refine fr_bind fr_next (fun c _ => ?_)
    repeat' (first
      | exact ih _ _ _
      | exact fr_pure trivial
      | refine fr_ite ?_ ?_
      | refine fr_bind fr_next (fun e _ => ?_)
      | exact fr_bind (fr_readOctal _ _) (fun _ _ => ih _ _ _))

theorem fr_readString : Fr t b (fun _ => True) readString := by
  unfold readString
  exact fr_bind (fr_skipRequiredByte _) (fun _ _ => fr_bind fr_getS (fun s _ => fr_readStringBody _ _ _ _))

theorem fr_readHexBody : ∀ fuel res first hi, Fr t b (fun _ => True) (readHexBody fuel res first hi) := by
  intro fuel
  induction fuel with
  | zero => intro res first hi; unfold readHexBody; exact fr_fail (by simp)
  | succ k ih =>
    intro res first hi
    unfold readHexBody
    refine fr_bind fr_next (fun c _ => ?_)
    refine fr_ite (fr_pure trivial) (fr_ite (ih _ _ _) ?_)
    split
    · exact fr_fail syntaxErr_ne
    · exact fr_ite (ih _ _ _) (ih _ _ _)

theorem fr_readHexString : Fr t b (fun _ => True) readHexString := by
  unfold readHexString
  exact fr_bind (fr_skipRequiredByte _) (fun _ _ => fr_bind fr_getS (fun s _ => fr_readHexBody _ _ _ _))

theorem fr_readA85Body : ∀ fuel res pos val, Fr t b (fun _ => True) (readA85Body fuel res pos val) := by
  intro fuel
  induction fuel with
  | zero => intro res pos val; unfold readA85Body; exact fr_fail (by simp)
  | succ k ih =>
    intro res pos val
    unfold readA85Body
    refine fr_bind fr_next (fun c _ => ?_)
    dsimp only
    repeat' (first
      | exact ih _ _ _
      | exact fr_pure trivial
      | exact fr_fail syntaxErr_ne
      | refine fr_ite ?_ ?_)

theorem fr_readBase85String : Fr t b (fun _ => True) readBase85String := by
  unfold readBase85String
  refine fr_bind (fr_skipRequiredByte _) (fun _ _ => ?_)
  refine fr_bind (fr_skipRequiredByte _) (fun _ _ => ?_)
  refine fr_bind fr_getS (fun s _ => ?_)
  refine fr_bind (fr_readA85Body _ _ _ _) (fun r _ => ?_)
  obtain ⟨res, pos, val⟩ := r
  dsimp only
  refine fr_bind (Q1 := fun _ => True) ?_ (fun _ _ => fr_bind (fr_skipRequiredByte _) (fun _ _ => fr_pure trivial))
  repeat' split
  all_goals first
    | exact fr_pure trivial
    | exact fr_fail syntaxErr_ne

theorem fr_readRegular : ∀ fuel acc, Fr t b (fun _ => True) (readRegular fuel acc) := by
  intro fuel
  induction fuel with
  | zero => intro acc; unfold readRegular; exact fr_pure trivial
  | succ k ih =>
    intro acc
    unfold readRegular
    refine fr_bind (fr_attempt fr_peek) (fun r hr => ?_)
    split
    · exact fr_pure trivial
    · exact fr_fail hr
    · split
      · exact fr_pure trivial
      · exact fr_bind fr_skipByte (fun _ _ => ih _)

theorem inv0_err_ne {sc : Scanner} {e : Err} (h : Inv0 t sc) (he : sc.err = some e) : e ≠ .eof := by
  rcases h.2 with h | h
  · rw [h] at he; cases he
  · rw [h] at he; cases he; simp

/-- the part of `scanToken` after the white space -/
def scanTokenRest : SM Tok := do
  let b ← peek
  if b == 40 then do pure (.str (← readString))
  else if b == 60 then do
    let bb ← peekN 2 3
    if bb == [60, 60] then do skipByte; skipByte; pure (.obj (.op "<<"))
    else if bb == [60, 126] then do pure (.str (← readBase85String))
    else do pure (.str (← readHexString))
  else if b == 62 then do
    let bb ← peekN 2 3
    if bb == [62, 62] then do skipByte; skipByte; pure (.obj (.op ">>"))
    else do
      let s ← getS
      match (if bb.length < 2 then s.err else none) with
      | some e => fail e
      | none => fail syntaxErr
  else if b == 47 then do
    skipByte
    let s ← getS
    let name ← readRegular (fuelOf s) []
    pure (.obj (.name (bytesToString name)))
  else do
    skipByte
    let s ← getS
    let bytes ← (if isRegular b then readRegular (fuelOf s) [b] else pure [b])
    match parseNumber bytes with
    | some x => pure (.obj x)
    | none => pure (.obj (.op (bytesToString bytes)))

theorem scanToken_eq : scanToken = (do let s ← getS; skipWhiteSpace (fuelOf s + 4); scanTokenRest) := rfl

theorem fr_scanTokenRest : Fr t b (fun _ => True) scanTokenRest := by
  unfold scanTokenRest
  refine fr_bind fr_peek (fun c _ => ?_)
  split
  · exact fr_bind fr_readString (fun _ _ => fr_pure trivial)
  · split
    · refine fr_bind (fr_peekN _ _) (fun bb _ => ?_)
      split
      · exact fr_bind fr_skipByte (fun _ _ => fr_bind fr_skipByte (fun _ _ => fr_pure trivial))
      · split
        · exact fr_bind fr_readBase85String (fun _ _ => fr_pure trivial)
        · exact fr_bind fr_readHexString (fun _ _ => fr_pure trivial)
    · split
      · refine fr_bind (fr_peekN _ _) (fun bb _ => ?_)
        split
        · exact fr_bind fr_skipByte (fun _ _ => fr_bind fr_skipByte (fun _ _ => fr_pure trivial))
        · refine fr_bind fr_getS (fun s hs => ?_)
          split
          · rename_i e he
            refine fr_fail ?_
            split at he
            · exact inv0_err_ne hs he
            · cases he
          · exact fr_fail syntaxErr_ne
      · split
        · refine fr_bind fr_skipByte (fun _ _ => ?_)
          refine fr_bind fr_getS (fun s _ => ?_)
          exact fr_bind (fr_readRegular _ _) (fun _ _ => fr_pure trivial)
        · refine fr_bind fr_skipByte (fun _ _ => ?_)
          refine fr_bind fr_getS (fun s _ => ?_)
          refine fr_bind (Q1 := fun _ => True) ?_ (fun bytes _ => ?_)
          · split
            · exact fr_readRegular _ _
            · exact fr_pure trivial
          · split
            · exact fr_pure trivial
            · exact fr_pure trivial

theorem fr_scanToken : Fr t b (fun _ => True) scanToken := by
  rw [scanToken_eq]
  exact fr_bind fr_getS (fun s _ => fr_bind (fr_skipWhiteSpace _) (fun _ _ => fr_scanTokenRest))

theorem fr_skipEexecSpace : ∀ fuel, Fr t b (fun _ => True) (skipEexecSpace fuel) := by
  intro fuel
  induction fuel with
  | zero => unfold skipEexecSpace; exact fr_fail (by simp)
  | succ k ih =>
    unfold skipEexecSpace
    refine fr_bind fr_peek (fun c _ => ?_)
    split
    · exact fr_bind fr_skipByte (fun _ _ => ih)
    · exact fr_pure trivial

theorem fr_skipIV : ∀ n, Fr t b (fun _ => True) (skipIV n) := by
  intro n
  induction n with
  | zero => unfold skipIV; exact fr_pure trivial
  | succ k ih => unfold skipIV; exact fr_bind fr_next (fun _ _ => ih)

theorem fr_beginEexec : Fr t b (fun _ => True) beginEexec := by
  unfold beginEexec
  refine fr_bind fr_getS (fun s _ => ?_)
  dsimp only
  refine fr_ite (fr_fail_bind (by simp)) ?_
  refine fr_bind (fr_skipEexecSpace _) (fun _ _ => ?_)
  refine fr_bind (fr_peekN _ _) (fun bb _ => ?_)
  refine fr_ite ?_ ?_
  · refine fr_bind fr_getS (fun s hs => ?_)
    split
    · rename_i e he
      exact fr_fail_bind (inv0_err_ne hs he)
    · exact fr_fail_bind (by simp)
  · refine fr_bind (fr_modS (fun sc h => h)) (fun _ _ => ?_)
    refine fr_bind (fr_skipIV _) (fun _ _ => ?_)
    exact fr_modS (fun sc h => h)

theorem fr_endEexec : Fr t b (fun _ => True) endEexec := by
  unfold endEexec
  exact fr_modS (fun sc h => h)

/-- the error reported by `readN` next to the bytes is never `io.EOF` -/
theorem fr_readN : ∀ n acc, Fr t b (fun r => ∀ e, r.2 = some e → e ≠ .eof) (readN n acc) := by
  intro n
  induction n with
  | zero => intro acc; unfold readN; exact fr_pure (by simp)
  | succ k ih =>
    intro acc
    unfold readN
    refine fr_bind (fr_attempt fr_next) (fun r hr => ?_)
    split
    · refine fr_pure ?_
      intro e he
      cases he
      exact hr
    · exact ih _

end
end PsVerif.Proofs.IoErr

namespace PsVerif.Proofs.IoErr
open PsVerif.Model PsVerif.Model.Scan

/-! ### pass 2: a read failure that was hit is reported -/

@[simp] theorem run_getS_bind {β : Type} (f : Scanner → SM β) (sc : Scanner) : (getS >>= f) sc = f sc sc := by
  rw [bind_eq]; rfl
@[simp] theorem run_modS_bind {β : Type} (g : Scanner → Scanner) (f : Unit → SM β) (sc : Scanner) :
    (modS g >>= f) sc = f () (g sc) := by
  rw [bind_eq]; rfl
@[simp] theorem run_pure_bind {α β : Type} (a : α) (f : α → SM β) (sc : Scanner) : ((pure a : SM α) >>= f) sc = f a sc := by
  rw [bind_eq]; rfl
@[simp] theorem run_fail_bind {α β : Type} (e : Err) (f : α → SM β) (sc : Scanner) :
    ((fail e : SM α) >>= f) sc = (.error e, sc) := by
  rw [bind_eq]; rfl
@[simp] theorem run_pure {α : Type} (a : α) (sc : Scanner) : (pure a : SM α) sc = (.ok a, sc) := rfl
@[simp] theorem run_fail {α : Type} (e : Err) (sc : Scanner) : (fail e : SM α) sc = (.error e, sc) := rfl
@[simp] theorem run_getS (sc : Scanner) : getS sc = (.ok sc, sc) := rfl
@[simp] theorem run_modS (g : Scanner → Scanner) (sc : Scanner) : modS g sc = (.ok (), g sc) := rfl

/-- no failure seen yet -/
def Clean (t : String) (sc : Scanner) : Prop := sc.fault = some t ∧ sc.err = none ∧ sc.regurgitate = false
/-- the failure has been seen; the source is used up -/
def HitSt (t : String) (sc : Scanner) : Prop :=
  sc.fault = some t ∧ sc.err = some (.io t) ∧ sc.src = [] ∧ sc.regurgitate = false
/-- … and no peeked byte is left: every read fails -/
def Dead (t : String) (sc : Scanner) : Prop := HitSt t sc ∧ sc.peek = []
/-- the error by which a read failure is reported -/
def IoF (t : String) (e : Err) : Prop := e = .io t
def EC (t : String) (e : Err) (sc : Scanner) : Prop := Clean t sc ∨ (IoF t e ∧ Dead t sc)
def ECw (t : String) (e : Err) (sc : Scanner) : Prop := Clean t sc ∨ IoF t e
def DE (t : String) (e : Err) (sc : Scanner) : Prop := IoF t e ∧ Dead t sc

/-- the two states differ at most in the peek buffer, the position and the cipher state -/
def Sim (a b : Scanner) : Prop :=
  b.fault = a.fault ∧ b.err = a.err ∧ b.src = a.src ∧ b.regurgitate = a.regurgitate ∧ b.dsc = a.dsc

theorem Sim.clean {t : String} {a b : Scanner} (h : Sim a b) (c : Clean t a) : Clean t b := by
  obtain ⟨h1, h2, _, h4, _⟩ := h
  exact ⟨h1.trans c.1, h2.trans c.2.1, h4.trans c.2.2⟩
theorem Sim.hit {t : String} {a b : Scanner} (h : Sim a b) (c : HitSt t a) : HitSt t b := by
  obtain ⟨h1, h2, h3, h4, _⟩ := h
  exact ⟨h1.trans c.1, h2.trans c.2.1, h3.trans c.2.2.1, h4.trans c.2.2.2⟩

theorem ec_w {t : String} {e : Err} {sc : Scanner} (h : EC t e sc) : ECw t e sc := by
  rcases h with h | h
  · exact Or.inl h
  · exact Or.inr h.1

section
variable {t : String}

/-! #### the raw readers -/

theorem readByteRaw_clean {sc : Scanner} (h : Clean t sc) :
    (∃ b sc', readByteRaw sc = (.ok b, sc') ∧ Clean t sc' ∧ sc'.peek = sc.peek) ∨
    (∃ sc', readByteRaw sc = (.error (.io t), sc') ∧ HitSt t sc' ∧ sc'.peek = sc.peek) := by
  obtain ⟨hf, he, hr⟩ := h
  unfold readByteRaw
  rw [if_neg (by simp [hr])]
  split
  · rename_i e h1
    rw [he] at h1; cases h1
  · split
    · left
      exact ⟨_, _, rfl, ⟨hf, he, hr⟩, rfl⟩
    · rename_i hs
      right
      dsimp only
      split
      · rename_i h0; rw [hf] at h0; cases h0
      · rename_i t' h0
        rw [hf] at h0; cases h0
        exact ⟨_, rfl, ⟨hf, rfl, hs, hr⟩, rfl⟩

theorem readByteRaw_hit {sc : Scanner} (h : HitSt t sc) : readByteRaw sc = (.error (.io t), sc) := by
  obtain ⟨hf, he, hs, hr⟩ := h
  unfold readByteRaw
  rw [if_neg (by simp [hr])]
  split
  · rename_i e h1
    rw [he] at h1; cases h1
    split
    · rename_i h2; rw [hs] at h2; cases h2
    · rfl
  · rename_i h1; rw [he] at h1; cases h1

theorem tr_ite {α : Type} {P : Scanner → Prop} {c : Prop} [Decidable c] {m1 m2 : SM α}
    {Q : Except Err α → Scanner → Prop} (h1 : Tr P m1 Q) (h2 : Tr P m2 Q) : Tr P (if c then m1 else m2) Q := by
  split
  · exact h1
  · exact h2

theorem tr_modS' {P P' : Scanner → Prop} {f : Scanner → Scanner} (h : ∀ sc, P sc → P' (f sc)) :
    Tr P (modS f) (Post (fun _ sc => P' sc) (fun _ _ => False)) :=
  fun sc hp => h sc hp

theorem tr_getS' {P : Scanner → Prop} : Tr P getS (Post (fun _ sc => P sc) (fun _ _ => False)) :=
  fun _ hp => hp

theorem tr_and {α : Type} {P P' : Scanner → Prop} {m : SM α} {Q Q' : Except Err α → Scanner → Prop}
    (h : Tr P m Q) (h' : Tr P' m Q') : Tr (fun sc => P sc ∧ P' sc) m (fun r sc => Q r sc ∧ Q' r sc) :=
  fun sc hp => ⟨h sc hp.1, h' sc hp.2⟩

/-- postcondition of the raw readers from a clean state: the peek buffer is not touched -/
def RdC (t : String) (pk : List UInt8) : Except Err UInt8 → Scanner → Prop :=
  Post (fun _ sc' => Clean t sc' ∧ sc'.peek = pk)
    (fun e sc' => sc'.peek = pk ∧ (Clean t sc' ∨ (IoF t e ∧ HitSt t sc')))
/-- … and after the failure -/
def RdH (t : String) (pk : List UInt8) : Except Err UInt8 → Scanner → Prop :=
  Post (fun _ _ => False) (fun e sc' => IoF t e ∧ HitSt t sc' ∧ sc'.peek = pk)

theorem tr_readByteRaw_clean (pk : List UInt8) :
    Tr (fun sc => Clean t sc ∧ sc.peek = pk) readByteRaw (RdC t pk) := by
  intro sc ⟨hc, hp⟩
  rcases readByteRaw_clean hc with ⟨b, sc', h, h1, h2⟩ | ⟨sc', h, h1, h2⟩
  · rw [h]; exact ⟨h1, h2.trans hp⟩
  · rw [h]; exact ⟨h2.trans hp, Or.inr ⟨rfl, h1⟩⟩

theorem tr_readByteRaw_hit (pk : List UInt8) :
    Tr (fun sc => HitSt t sc ∧ sc.peek = pk) readByteRaw (RdH t pk) := by
  intro sc ⟨hc, hp⟩
  rw [readByteRaw_hit hc]
  exact ⟨rfl, hc, hp⟩

theorem tr_readHexPair_clean (pk : List UInt8) : ∀ fuel i out,
    Tr (fun sc => Clean t sc ∧ sc.peek = pk) (readHexPair fuel i out) (RdC t pk) := by
  intro fuel
  induction fuel with
  | zero =>
    intro i out
    unfold readHexPair
    exact tr_fail (fun sc h => ⟨h.2, Or.inl h.1⟩)
  | succ n ih =>
    intro i out
    unfold readHexPair
    refine tr_ite (tr_pure (fun sc h => h)) ?_
    refine tr_bind (tr_readByteRaw_clean pk) (fun a => ?_) (fun e sc h => h)
    refine tr_ite (ih _ _) ?_
    split
    · exact ih _ _
    · exact tr_fail (fun sc h => ⟨h.2, Or.inl h.1⟩)

theorem fuelOf_succ (s : Scanner) : fuelOf s = (s.src.length + s.peek.length + 7) + 1 := rfl

theorem tr_readHexPair_hit (pk : List UInt8) (n i : Nat) (out : UInt8) (hi : i < 2) :
    Tr (fun sc => HitSt t sc ∧ sc.peek = pk) (readHexPair (n + 1) i out) (RdH t pk) := by
  unfold readHexPair
  rw [if_neg (by omega)]
  exact tr_bind (tr_readByteRaw_hit pk) (fun a => tr_false (fun _ h => h)) (fun e sc h => h)

theorem tr_readByteEexec_clean (pk : List UInt8) :
    Tr (fun sc => Clean t sc ∧ sc.peek = pk) readByteEexec (RdC t pk) := by
  unfold readByteEexec
  refine tr_bind tr_getS' (fun s => ?_) (fun e sc h => h.elim)
  exact tr_ite (tr_readByteRaw_clean pk) (tr_readHexPair_clean pk _ _ _)

theorem tr_readByteEexec_hit (pk : List UInt8) :
    Tr (fun sc => HitSt t sc ∧ sc.peek = pk) readByteEexec (RdH t pk) := by
  unfold readByteEexec
  refine tr_bind tr_getS' (fun s => ?_) (fun e sc h => h.elim)
  refine tr_ite (tr_readByteRaw_hit pk) ?_
  rw [fuelOf_succ]
  exact tr_readHexPair_hit pk _ _ _ (by omega)

theorem tr_readByte_clean (pk : List UInt8) :
    Tr (fun sc => Clean t sc ∧ sc.peek = pk) readByte (RdC t pk) := by
  unfold readByte
  refine tr_bind tr_getS' (fun s => ?_) (fun e sc h => h.elim)
  refine tr_ite (tr_readByteRaw_clean pk) ?_
  refine tr_bind (tr_readByteEexec_clean pk) (fun a => ?_) (fun e sc h => h)
  refine tr_bind tr_getS' (fun s => ?_) (fun e sc h => h.elim)
  generalize Cipher.decStep s.r a = pr
  obtain ⟨p, r'⟩ := pr
  dsimp only
  refine tr_bind (tr_modS' (P' := fun sc => Clean t sc ∧ sc.peek = pk) (fun sc h => h)) (fun _ => ?_) (fun e sc h => h.elim)
  exact tr_pure (fun sc h => h)

theorem tr_readByte_hit (pk : List UInt8) :
    Tr (fun sc => HitSt t sc ∧ sc.peek = pk) readByte (RdH t pk) := by
  unfold readByte
  refine tr_bind tr_getS' (fun s => ?_) (fun e sc h => h.elim)
  refine tr_ite (tr_readByteRaw_hit pk) ?_
  exact tr_bind (tr_readByteEexec_hit pk) (fun a => tr_false (fun _ h => h)) (fun e sc h => h)

end
end PsVerif.Proofs.IoErr

namespace PsVerif.Proofs.IoErr
open PsVerif.Model PsVerif.Model.Scan

section
variable {t : String}

theorem tr_assume {α : Type} {P : Scanner → Prop} {m : SM α} {Q : Except Err α → Scanner → Prop} {φ : Prop}
    (h1 : ∀ sc, P sc → φ) (h2 : φ → Tr P m Q) : Tr P m Q := fun sc hp => h2 (h1 sc hp) sc hp

theorem tr_cases_peek {α : Type} {P : Scanner → Prop} {m : SM α} {Q : Except Err α → Scanner → Prop}
    (h1 : Tr (fun sc => P sc ∧ sc.peek = []) m Q)
    (h2 : ∀ b rest, Tr (fun sc => P sc ∧ sc.peek = b :: rest) m Q) : Tr P m Q := by
  intro sc hp
  cases h : sc.peek with
  | nil => exact h1 sc ⟨hp, h⟩
  | cons b rest => exact h2 b rest sc ⟨hp, h⟩

theorem tr_or {α : Type} {P P' : Scanner → Prop} {m : SM α} {Q : Except Err α → Scanner → Prop}
    (h1 : Tr P m Q) (h2 : Tr P' m Q) : Tr (fun sc => P sc ∨ P' sc) m Q := by
  intro sc hp
  rcases hp with hp | hp
  · exact h1 sc hp
  · exact h2 sc hp

/-- the position bookkeeping of `Next` -/
def lineCol (b : UInt8) (s : Scanner) : Scanner :=
  let s := if s.crSeen && b == 10 then s
           else if b == 10 || b == 13 then { s with line := s.line + 1, col := 0 }
           else { s with col := s.col + 1 }
  { s with crSeen := (b == 13) }

theorem lineCol_sim (b : UInt8) (s : Scanner) : Sim s (lineCol b s) ∧ (lineCol b s).peek = s.peek := by
  unfold lineCol
  dsimp only
  split
  · exact ⟨⟨rfl, rfl, rfl, rfl, rfl⟩, rfl⟩
  · split
    · exact ⟨⟨rfl, rfl, rfl, rfl, rfl⟩, rfl⟩
    · exact ⟨⟨rfl, rfl, rfl, rfl, rfl⟩, rfl⟩

theorem next_unfold : next = (do
    let s ← getS
    let b ← (if !s.peek.isEmpty && !s.regurgitate then
        match s.peek with
        | b :: rest => do modS (fun s => { s with peek := rest }); pure b
        | [] => fail (.panic "unreachable")
      else readByte)
    modS (lineCol b)
    pure b) := rfl

theorem tr_next_cons (K : Scanner → Prop) (hK : ∀ a b, Sim a b → K a → K b)
    (hreg : ∀ sc, K sc → sc.regurgitate = false) (b : UInt8) (rest : List UInt8) :
    Tr (fun sc => K sc ∧ sc.peek = b :: rest) next
      (Post (fun a sc' => a = b ∧ K sc' ∧ sc'.peek = rest) (fun _ _ => False)) := by
  rw [next_unfold]
  refine tr_bind tr_getS (fun s => ?_) (fun e sc h => h.elim)
  refine tr_assume (φ := s.peek = b :: rest ∧ s.regurgitate = false)
    (fun sc h => by obtain ⟨rfl, hk, hp⟩ := h; exact ⟨hp, hreg _ hk⟩) (fun ⟨hp, hr⟩ => ?_)
  rw [if_pos (by simp [hp, hr])]
  rw [hp]
  dsimp only
  refine tr_bind (A := fun a sc' => a = b ∧ K sc' ∧ sc'.peek = rest) (E := fun _ _ => False) ?_ (fun a => ?_) (fun e sc h => h.elim)
  · refine tr_bind (tr_modS' (P' := fun sc' => K sc' ∧ sc'.peek = rest) ?_) (fun _ => ?_) (fun e sc h => h.elim)
    · intro sc h
      exact ⟨hK sc _ ⟨rfl, rfl, rfl, rfl, rfl⟩ h.2.1, rfl⟩
    · exact tr_pure (fun sc h => ⟨rfl, h⟩)
  · refine tr_bind (tr_modS' (P' := fun sc' => a = b ∧ K sc' ∧ sc'.peek = rest) ?_) (fun _ => ?_) (fun e sc h => h.elim)
    · intro sc h
      have := lineCol_sim a sc
      exact ⟨h.1, hK _ _ this.1 h.2.1, this.2.trans h.2.2⟩
    · exact tr_pure (fun sc h => h)

theorem clean_sim (a b : Scanner) (h : Sim a b) (c : Clean t a) : Clean t b := h.clean c
theorem hit_sim (a b : Scanner) (h : Sim a b) (c : HitSt t a) : HitSt t b := h.hit c

theorem tr_next_nil_clean :
    Tr (fun sc => Clean t sc ∧ sc.peek = []) next
      (Post (fun _ sc' => Clean t sc' ∧ sc'.peek = []) (EC t)) := by
  rw [next_unfold]
  refine tr_bind tr_getS (fun s => ?_) (fun e sc h => h.elim)
  refine tr_assume (φ := s.peek = []) (fun sc h => by obtain ⟨rfl, _, hp⟩ := h; exact hp) (fun hp => ?_)
  rw [if_neg (by simp [hp])]
  refine tr_bind (A := fun _ sc' => Clean t sc' ∧ sc'.peek = []) (E := EC t) ?_ (fun a => ?_) (fun e sc h => h)
  · refine tr_conseq (fun sc h => h.2) (tr_readByte_clean []) ?_
    intro r sc h
    cases r with
    | ok a => exact h
    | error e =>
      rcases h.2 with h2 | h2
      · exact Or.inl h2
      · exact Or.inr ⟨h2.1, h2.2, h.1⟩
  · refine tr_bind (tr_modS' (P' := fun sc' => Clean t sc' ∧ sc'.peek = []) ?_) (fun _ => ?_) (fun e sc h => h.elim)
    · intro sc h
      have := lineCol_sim a sc
      exact ⟨this.1.clean h.1, this.2.trans h.2⟩
    · exact tr_pure (fun sc h => h)

theorem tr_next_dead : Tr (Dead t) next (Post (fun _ _ => False) (DE t)) := by
  rw [next_unfold]
  refine tr_bind tr_getS (fun s => ?_) (fun e sc h => h.elim)
  refine tr_assume (φ := s.peek = []) (fun sc h => by obtain ⟨rfl, hp⟩ := h; exact hp.2) (fun hp => ?_)
  rw [if_neg (by simp [hp])]
  refine tr_bind (A := fun _ _ => False) (E := DE t) ?_ (fun a => tr_false (fun _ h => h)) (fun e sc h => h)
  refine tr_conseq (fun sc h => ⟨h.2.1, h.2.2⟩) (tr_readByte_hit []) ?_
  intro r sc h
  cases r with
  | ok a => exact h
  | error e => exact ⟨h.1, h.2.1, h.2.2⟩

theorem tr_next_clean : Tr (Clean t) next (Post (fun _ sc' => Clean t sc') (EC t)) := by
  refine tr_cases_peek ?_ (fun b rest => ?_)
  · exact tr_post tr_next_nil_clean (fun _ _ h => h.1) (fun _ _ h => h)
  · exact tr_post (tr_next_cons (Clean t) clean_sim (fun _ h => h.2.2) b rest) (fun _ _ h => h.2.1) (fun _ _ h => h.elim)

/-! #### `Peek` -/

theorem tr_peek_cons (P : Scanner → Prop) (b : UInt8) (rest : List UInt8) :
    Tr (fun sc => P sc ∧ sc.peek = b :: rest) peek
      (Post (fun a sc' => a = b ∧ P sc' ∧ sc'.peek = b :: rest) (fun _ _ => False)) := by
  unfold peek
  refine tr_bind tr_getS (fun s => ?_) (fun e sc h => h.elim)
  refine tr_assume (φ := s.peek = b :: rest) (fun sc h => by obtain ⟨rfl, _, hp⟩ := h; exact hp) (fun hp => ?_)
  rw [hp]
  dsimp only
  exact tr_pure (fun sc h => ⟨rfl, h.2⟩)

theorem tr_peek_nil_clean :
    Tr (fun sc => Clean t sc ∧ sc.peek = []) peek
      (Post (fun b sc' => Clean t sc' ∧ sc'.peek = [b]) (EC t)) := by
  unfold peek
  refine tr_bind tr_getS (fun s => ?_) (fun e sc h => h.elim)
  refine tr_assume (φ := s.peek = []) (fun sc h => by obtain ⟨rfl, _, hp⟩ := h; exact hp) (fun hp => ?_)
  rw [hp]
  dsimp only
  refine tr_bind (A := fun _ sc' => Clean t sc' ∧ sc'.peek = []) (E := EC t) ?_ (fun a => ?_) (fun e sc h => h)
  · refine tr_conseq (fun sc h => h.2) (tr_readByte_clean []) ?_
    intro r sc h
    cases r with
    | ok a => exact h
    | error e =>
      rcases h.2 with h2 | h2
      · exact Or.inl h2
      · exact Or.inr ⟨h2.1, h2.2, h.1⟩
  · refine tr_bind (tr_modS' (P' := fun sc' => Clean t sc' ∧ sc'.peek = [a]) ?_) (fun _ => ?_) (fun e sc h => h.elim)
    · intro sc h
      refine ⟨h.1, ?_⟩
      show sc.peek ++ [a] = [a]
      rw [h.2]; rfl
    · exact tr_pure (fun sc h => h)

theorem tr_peek_dead : Tr (Dead t) peek (Post (fun _ _ => False) (DE t)) := by
  unfold peek
  refine tr_bind tr_getS (fun s => ?_) (fun e sc h => h.elim)
  refine tr_assume (φ := s.peek = []) (fun sc h => by obtain ⟨rfl, hp⟩ := h; exact hp.2) (fun hp => ?_)
  rw [hp]
  dsimp only
  refine tr_bind (A := fun _ _ => False) (E := DE t) ?_ (fun a => tr_false (fun _ h => h)) (fun e sc h => h)
  refine tr_conseq (fun sc h => ⟨h.2.1, h.2.2⟩) (tr_readByte_hit []) ?_
  intro r sc h
  cases r with
  | ok a => exact h
  | error e => exact ⟨h.1, h.2.1, h.2.2⟩

theorem tr_peek_clean :
    Tr (Clean t) peek (Post (fun b sc' => Clean t sc' ∧ ∃ rest, sc'.peek = b :: rest) (EC t)) := by
  refine tr_cases_peek ?_ (fun b rest => ?_)
  · exact tr_post tr_peek_nil_clean (fun _ _ h => ⟨h.1, [], h.2⟩) (fun _ _ h => h)
  · refine tr_post (tr_peek_cons (Clean t) b rest) (fun a sc h => ?_) (fun _ _ h => h.elim)
    obtain ⟨rfl, h1, h2⟩ := h
    exact ⟨h1, rest, h2⟩

/-! #### `SkipByte` -/

theorem tr_skipByte_cons (K : Scanner → Prop) (hK : ∀ a b, Sim a b → K a → K b)
    (hreg : ∀ sc, K sc → sc.regurgitate = false) (b : UInt8) (rest : List UInt8) :
    Tr (fun sc => K sc ∧ sc.peek = b :: rest) skipByte
      (Post (fun _ sc' => K sc' ∧ sc'.peek = rest) (fun _ _ => False)) := by
  unfold skipByte
  refine tr_bind (tr_attempt (tr_next_cons K hK hreg b rest)) (fun r => ?_) (fun e sc h => h.elim)
  cases r with
  | ok a => exact tr_pure (fun sc h => h.2)
  | error e => exact tr_false (fun _ h => h)

theorem tr_skipByte_dead : Tr (Dead t) skipByte (Post (fun _ sc' => Dead t sc') (fun _ _ => False)) := by
  unfold skipByte
  refine tr_bind (tr_attempt tr_next_dead) (fun r => ?_) (fun e sc h => h.elim)
  cases r with
  | ok a => exact tr_false (fun _ h => h)
  | error e => exact tr_pure (fun sc h => h.2)

/-- `SkipByte` after a successful `Peek` -/
theorem tr_skipByte_clean (b : UInt8) :
    Tr (fun sc => Clean t sc ∧ ∃ rest, sc.peek = b :: rest) skipByte
      (Post (fun _ sc' => Clean t sc') (fun _ _ => False)) := by
  intro sc ⟨hc, rest, hp⟩
  have := tr_skipByte_cons (Clean t) clean_sim (fun _ h => h.2.2) b rest sc ⟨hc, hp⟩
  generalize skipByte sc = p at this
  obtain ⟨r, s1⟩ := p
  cases r with
  | ok a => exact this.1
  | error e => exact this

end
end PsVerif.Proofs.IoErr

namespace PsVerif.Proofs.IoErr
open PsVerif.Model PsVerif.Model.Scan

/-! ### pass 3: the number of bytes left never grows (for the fuel of `skipWhiteSpace`) -/

/-- bytes not yet consumed: source plus peek buffer -/
def mu (sc : Scanner) : Nat := sc.src.length + sc.peek.length

/-- the action never increases `mu` -/
def Mn {α : Type} (m : SM α) : Prop := ∀ sc, mu (m sc).2 ≤ mu sc

/-- … and consumes at least one byte when it succeeds -/
def Mn1 {α : Type} (m : SM α) : Prop :=
  ∀ sc, mu (m sc).2 ≤ mu sc ∧ (∀ a, (m sc).1 = .ok a → mu (m sc).2 + 1 ≤ mu sc)

theorem Mn1.mn {α : Type} {m : SM α} (h : Mn1 m) : Mn m := fun sc => (h sc).1

theorem mn_bind {α β : Type} {m : SM α} {f : α → SM β} (h1 : Mn m) (h2 : ∀ a, Mn (f a)) : Mn (m >>= f) := by
  intro sc
  rw [bind_eq]
  have := h1 sc
  generalize m sc = p at this
  obtain ⟨r, s1⟩ := p
  cases r with
  | ok a => exact Nat.le_trans (h2 a s1) this
  | error e => exact this

theorem mn1_bind {α β : Type} {m : SM α} {f : α → SM β} (h1 : Mn1 m) (h2 : ∀ a, Mn (f a)) : Mn1 (m >>= f) := by
  intro sc
  rw [bind_eq]
  have := h1 sc
  generalize m sc = p at this
  obtain ⟨r, s1⟩ := p
  cases r with
  | ok a =>
    have h3 := h2 a s1
    have h4 := this.2 a rfl
    dsimp only at h4 this ⊢
    exact ⟨by omega, fun _ _ => by omega⟩
  | error e => exact ⟨this.1, fun a ha => by cases ha⟩

theorem mn_pure {α : Type} (a : α) : Mn (pure a : SM α) := fun _ => Nat.le_refl _
theorem mn_fail {α : Type} (e : Err) : Mn (fail e : SM α) := fun _ => Nat.le_refl _
theorem mn_getS : Mn getS := fun _ => Nat.le_refl _
theorem mn_modS {f : Scanner → Scanner} (h : ∀ sc, mu (f sc) ≤ mu sc) : Mn (modS f) := h

theorem mn_attempt {α : Type} {m : SM α} (h : Mn m) : Mn (attempt m) := fun sc => h sc

theorem mn_ite {α : Type} {c : Prop} [Decidable c] {m1 m2 : SM α} (h1 : Mn m1) (h2 : Mn m2) :
    Mn (if c then m1 else m2) := by
  split
  · exact h1
  · exact h2

theorem mn1_ite {α : Type} {c : Prop} [Decidable c] {m1 m2 : SM α} (h1 : Mn1 m1) (h2 : Mn1 m2) :
    Mn1 (if c then m1 else m2) := by
  split
  · exact h1
  · exact h2

theorem mn1_fail {α : Type} (e : Err) : Mn1 (fail e : SM α) :=
  fun _ => ⟨Nat.le_refl _, fun a ha => by cases ha⟩

/-- an action that looks at the current state first -/
theorem mn_getS_bind {β : Type} {f : Scanner → SM β} (h : ∀ sc, mu (f sc sc).2 ≤ mu sc) : Mn (getS >>= f) := by
  intro sc
  rw [run_getS_bind]
  exact h sc

theorem mn1_getS_bind {β : Type} {f : Scanner → SM β}
    (h : ∀ sc, mu (f sc sc).2 ≤ mu sc ∧ (∀ a, (f sc sc).1 = .ok a → mu (f sc sc).2 + 1 ≤ mu sc)) :
    Mn1 (getS >>= f) := by
  intro sc
  rw [run_getS_bind]
  exact h sc

theorem mn1_readByteRaw : Mn1 readByteRaw := by
  intro sc
  unfold readByteRaw
  split
  · split
    · rename_i b rest hp
      refine ⟨?_, fun _ _ => ?_⟩ <;> simp only [mu, hp, List.length_cons] <;> omega
    · exact ⟨Nat.le_refl _, fun b hb => by cases hb⟩
  · split
    · split
      · rename_i b rest hs
        refine ⟨?_, fun _ _ => ?_⟩ <;> simp only [mu, hs, List.length_cons] <;> omega
      · exact ⟨Nat.le_refl _, fun b hb => by cases hb⟩
    · split
      · rename_i b rest hs
        refine ⟨?_, fun _ _ => ?_⟩ <;> simp only [mu, hs, List.length_cons] <;> omega
      · exact ⟨Nat.le_refl _, fun b hb => by cases hb⟩

theorem mn_readHexPair : ∀ fuel i out, Mn (readHexPair fuel i out) := by
  intro fuel
  induction fuel with
  | zero => intro i out; unfold readHexPair; exact mn_fail _
  | succ n ih =>
    intro i out
    unfold readHexPair
    refine mn_ite (mn_pure _) (mn_bind mn1_readByteRaw.mn (fun a => ?_))
    refine mn_ite (ih _ _) ?_
    split
    · exact ih _ _
    · exact mn_fail _

theorem mn1_readHexPair (fuel i : Nat) (out : UInt8) (hi : i < 2) : Mn1 (readHexPair fuel i out) := by
  cases fuel with
  | zero => unfold readHexPair; exact mn1_fail _
  | succ n =>
    unfold readHexPair
    rw [if_neg (by omega)]
    refine mn1_bind mn1_readByteRaw (fun a => ?_)
    refine mn_ite (mn_readHexPair _ _ _) ?_
    split
    · exact mn_readHexPair _ _ _
    · exact mn_fail _

theorem mn1_readByteEexec : Mn1 readByteEexec := by
  unfold readByteEexec
  refine mn1_getS_bind (fun sc => ?_)
  split
  · exact mn1_readByteRaw sc
  · exact mn1_readHexPair _ _ _ (by omega) sc

theorem mn1_readByte : Mn1 readByte := by
  unfold readByte
  refine mn1_getS_bind (fun sc => ?_)
  split
  · exact mn1_readByteRaw sc
  · refine mn1_bind mn1_readByteEexec (fun a => mn_bind mn_getS (fun s => ?_)) sc
    generalize Cipher.decStep s.r a = pr
    obtain ⟨p, r'⟩ := pr
    dsimp only
    exact mn_bind (mn_modS (fun sc => Nat.le_refl _)) (fun _ => mn_pure _)

theorem lineCol_mu (b : UInt8) (s : Scanner) : mu (lineCol b s) = mu s := by
  have h := lineCol_sim b s
  unfold mu
  rw [h.1.2.2.1, h.2]

theorem mn_lineCol (a : UInt8) : Mn (do modS (lineCol a); (pure a : SM UInt8)) :=
  mn_bind (mn_modS (fun sc => Nat.le_of_eq (lineCol_mu a sc))) (fun _ => mn_pure _)

theorem mn1_next : Mn1 next := by
  rw [next_unfold]
  refine mn1_getS_bind (fun sc => ?_)
  by_cases hc : (!sc.peek.isEmpty && !sc.regurgitate) = true
  · rw [if_pos hc]
    cases hp : sc.peek with
    | nil => rw [hp] at hc; simp at hc
    | cons b rest =>
      dsimp only
      simp only [bind_eq, run_modS, run_pure, lineCol_mu]
      refine ⟨?_, fun _ _ => ?_⟩ <;> simp only [mu, hp, List.length_cons] <;> omega
  · rw [if_neg hc]
    exact mn1_bind mn1_readByte (fun a => mn_lineCol a) sc

theorem mn_peek : Mn peek := by
  unfold peek
  refine mn_getS_bind (fun sc => ?_)
  cases hp : sc.peek with
  | nil =>
    dsimp only
    rw [bind_eq]
    have := mn1_readByte sc
    generalize readByte sc = p at this
    obtain ⟨r, s1⟩ := p
    cases r with
    | error e => exact this.1
    | ok b =>
      have h2 := this.2 b rfl
      dsimp only at h2 ⊢
      simp only [run_modS_bind, run_pure]
      simp only [mu, List.length_append, List.length_cons, List.length_nil] at h2 ⊢
      omega
  | cons b rest => exact Nat.le_refl _

theorem mn_peekN (n : Nat) : ∀ fuel, Mn (peekN n fuel) := by
  intro fuel
  induction fuel with
  | zero => unfold peekN; exact mn_bind mn_getS (fun s => mn_pure _)
  | succ k ih =>
    unfold peekN
    refine mn_bind mn_getS (fun s => mn_ite (mn_pure _) ?_)
    intro sc
    rw [bind_eq]
    have := mn1_readByte sc
    unfold attempt
    generalize readByte sc = p at this
    obtain ⟨r, s1⟩ := p
    cases r with
    | error e =>
      dsimp only
      exact this.1
    | ok b =>
      have h2 := this.2 b rfl
      dsimp only at h2 ⊢
      rw [run_modS_bind]
      refine Nat.le_trans (ih _) ?_
      simp only [mu, List.length_append, List.length_cons, List.length_nil] at h2 ⊢
      omega

theorem mn_lookingAt (pat : List UInt8) : Mn (lookingAt pat) := by
  unfold lookingAt
  exact mn_bind (mn_peekN _ _) (fun _ => mn_pure _)

theorem mn_skipByte : Mn skipByte := by
  unfold skipByte
  exact mn_bind (mn_attempt mn1_next.mn) (fun _ => mn_pure _)

theorem mn_skipN : ∀ n, Mn (skipN n) := by
  intro n
  induction n with
  | zero => unfold skipN; exact mn_pure _
  | succ k ih => unfold skipN; exact mn_bind mn_skipByte (fun _ => ih)

theorem mn_skipRequiredByte (x : UInt8) : Mn (skipRequiredByte x) := by
  unfold skipRequiredByte
  exact mn_bind mn1_next.mn (fun _ => mn_ite (mn_fail _) (mn_pure _))

theorem mn_skipOptionalByte (x : UInt8) : Mn (skipOptionalByte x) := by
  unfold skipOptionalByte
  refine mn_bind (mn_attempt mn_peek) (fun r => ?_)
  split
  · exact mn_ite mn_skipByte (mn_pure _)
  · exact mn_pure _

theorem mn_skipToEOL : ∀ fuel, Mn (skipToEOL fuel) := by
  intro fuel
  induction fuel with
  | zero => unfold skipToEOL; exact mn_pure _
  | succ k ih =>
    unfold skipToEOL
    refine mn_bind (mn_attempt mn1_next.mn) (fun r => ?_)
    split
    · exact mn_pure _
    · exact mn_ite (mn_pure _) (mn_ite (mn_skipOptionalByte _) ih)

theorem mn_readCommentKey : ∀ fuel acc, Mn (readCommentKey fuel acc) := by
  intro fuel
  induction fuel with
  | zero => intro acc; unfold readCommentKey; exact mn_pure _
  | succ k ih =>
    intro acc
    unfold readCommentKey
    refine mn_bind (mn_attempt mn_peek) (fun r => ?_)
    split
    · exact mn_pure _
    · exact mn_fail _
    · exact mn_ite (mn_pure _) (mn_bind mn_skipByte (fun _ => mn_ite (mn_pure _) (ih _)))

theorem mn_skipBlanks : ∀ fuel, Mn (skipBlanks fuel) := by
  intro fuel
  induction fuel with
  | zero => unfold skipBlanks; exact mn_pure _
  | succ k ih =>
    unfold skipBlanks
    refine mn_bind (mn_attempt mn_peek) (fun r => ?_)
    split
    · exact mn_pure _
    · exact mn_fail _
    · exact mn_ite (mn_pure _) (mn_bind mn_skipByte (fun _ => ih))

theorem mn_readLine : ∀ fuel acc, Mn (readLine fuel acc) := by
  intro fuel
  induction fuel with
  | zero => intro acc; unfold readLine; exact mn_pure _
  | succ k ih =>
    intro acc
    unfold readLine
    refine mn_bind (mn_attempt mn1_next.mn) (fun r => ?_)
    split
    · exact mn_pure _
    · exact mn_fail _
    · exact mn_ite (mn_pure _) (mn_ite (mn_bind (mn_skipOptionalByte _) (fun _ => mn_pure _)) (ih _))

theorem mn_readCommentValue : ∀ fuel acc, Mn (readCommentValue fuel acc) := by
  intro fuel
  induction fuel with
  | zero => intro acc; unfold readCommentValue; exact mn_pure _
  | succ k ih =>
    intro acc
    unfold readCommentValue
    refine mn_bind mn_getS (fun s => mn_bind (mn_skipBlanks _) (fun _ => mn_bind mn_getS (fun s => ?_)))
    refine mn_bind (mn_readLine _ _) (fun acc' => mn_bind (mn_lookingAt _) (fun c => ?_))
    exact mn_ite (mn_bind (mn_skipN _) (fun _ => ih _)) (mn_pure _)

/-- `Mn` as a triple -/
theorem Mn.tr {α : Type} {m : SM α} (h : Mn m) (M : Nat) :
    Tr (fun sc => mu sc ≤ M) m (fun _ sc' => mu sc' ≤ M) :=
  fun sc hm => Nat.le_trans (h sc) hm

end PsVerif.Proofs.IoErr

namespace PsVerif.Proofs.IoErr
open PsVerif.Model PsVerif.Model.Scan

section
variable {t : String}

theorem tr_ite' {α : Type} {P : Scanner → Prop} {c : Prop} [Decidable c] {m1 m2 : SM α}
    {Q : Except Err α → Scanner → Prop} (h1 : c → Tr P m1 Q) (h2 : ¬ c → Tr P m2 Q) :
    Tr P (if c then m1 else m2) Q := by
  split
  · rename_i h; exact h1 h
  · rename_i h; exact h2 h

theorem tr_exists {α β : Type} {P : β → Scanner → Prop} {m : SM α} {Q : Except Err α → Scanner → Prop}
    (h : ∀ x, Tr (P x) m Q) : Tr (fun sc => ∃ x, P x sc) m Q := by
  intro sc ⟨x, hx⟩
  exact h x sc hx

theorem iof_eof {P : Prop} (h : IoF t .eof) : P := by
  cases h

theorem ec_eof {sc : Scanner} (h : EC t .eof sc) : Clean t sc := by
  rcases h with h | h
  · exact h
  · exact iof_eof h.1

/-! #### `PeekN`, `LookingAt`, `SkipN` -/

/-- postcondition of `PeekN` from a clean state with peek buffer `pk` -/
def PN (t : String) (n : Nat) (pk : List UInt8) : Except Err (List UInt8) → Scanner → Prop :=
  Post (fun bb sc' => bb = sc'.peek.take n ∧ (∃ ext, sc'.peek = pk ++ ext) ∧
      (Clean t sc' ∨ (HitSt t sc' ∧ sc'.peek.length < n))) (fun _ _ => False)

theorem tr_peekN_clean (n : Nat) : ∀ fuel pk,
    Tr (fun sc => Clean t sc ∧ sc.peek = pk) (peekN n fuel) (PN t n pk) := by
  intro fuel
  induction fuel with
  | zero =>
    intro pk
    unfold peekN
    refine tr_bind tr_getS (fun s => ?_) (fun e sc h => h.elim)
    refine tr_pure (fun sc h => ?_)
    obtain ⟨rfl, hc, hp⟩ := h
    exact ⟨rfl, ⟨[], by simp [hp]⟩, Or.inl hc⟩
  | succ k ih =>
    intro pk
    unfold peekN
    refine tr_bind tr_getS (fun s => ?_) (fun e sc h => h.elim)
    refine tr_ite' (fun _ => ?_) (fun hlen => ?_)
    · refine tr_pure (fun sc h => ?_)
      obtain ⟨rfl, hc, hp⟩ := h
      exact ⟨rfl, ⟨[], by simp [hp]⟩, Or.inl hc⟩
    · refine tr_assume (φ := pk.length < n) (fun sc h => by obtain ⟨rfl, _, hp⟩ := h; rw [← hp]; omega) (fun hpk => ?_)
      refine tr_bind (tr_attempt (tr_pre (tr_readByte_clean pk) (fun sc h => h.2))) (fun r => ?_) (fun e sc h => h.elim)
      cases r with
      | error e =>
        dsimp only
        refine tr_bind tr_getS (fun s2 => ?_) (fun e sc h => h.elim)
        refine tr_pure (fun sc h => ?_)
        obtain ⟨rfl, hp, hc⟩ := h
        refine ⟨?_, ⟨[], by simp [hp]⟩, ?_⟩
        · rw [List.take_of_length_le (by rw [hp]; omega)]
        · rcases hc with hc | hc
          · exact Or.inl hc
          · exact Or.inr ⟨hc.2, by rw [hp]; exact hpk⟩
      | ok b =>
        dsimp only
        refine tr_bind (tr_modS' (P' := fun sc' => Clean t sc' ∧ sc'.peek = pk ++ [b]) ?_) (fun _ => ?_) (fun e sc h => h.elim)
        · intro sc h
          refine ⟨h.1, ?_⟩
          show sc.peek ++ [b] = pk ++ [b]
          rw [h.2]
        · refine tr_conseq (fun sc h => h) (ih (pk ++ [b])) ?_
          intro r sc h
          cases r with
          | error e => exact h
          | ok bb =>
            obtain ⟨h1, ⟨ext, h2⟩, h3⟩ := h
            exact ⟨h1, ⟨[b] ++ ext, by rw [h2]; simp⟩, h3⟩

theorem tr_peekN_full (P : Scanner → Prop) (n fuel : Nat) :
    Tr (fun sc => P sc ∧ n ≤ sc.peek.length) (peekN n (fuel + 1))
      (Post (fun bb sc' => (P sc' ∧ n ≤ sc'.peek.length) ∧ bb = sc'.peek.take n) (fun _ _ => False)) := by
  unfold peekN
  refine tr_bind tr_getS (fun s => ?_) (fun e sc h => h.elim)
  refine tr_assume (φ := n ≤ s.peek.length) (fun sc h => by obtain ⟨rfl, _, hp⟩ := h; exact hp) (fun hp => ?_)
  rw [if_pos hp]
  refine tr_pure (fun sc h => ?_)
  obtain ⟨rfl, h2⟩ := h
  exact ⟨h2, rfl⟩

theorem tr_peekN_dead (n fuel : Nat) :
    Tr (Dead t) (peekN n fuel) (Post (fun bb sc' => bb = [] ∧ Dead t sc') (fun _ _ => False)) := by
  cases fuel with
  | zero =>
    unfold peekN
    refine tr_bind tr_getS (fun s => ?_) (fun e sc h => h.elim)
    refine tr_pure (fun sc h => ?_)
    obtain ⟨rfl, hd⟩ := h
    exact ⟨by rw [hd.2]; simp, hd⟩
  | succ k =>
    unfold peekN
    refine tr_bind tr_getS (fun s => ?_) (fun e sc h => h.elim)
    refine tr_ite ?_ ?_
    · refine tr_pure (fun sc h => ?_)
      obtain ⟨rfl, hd⟩ := h
      exact ⟨by rw [hd.2]; simp, hd⟩
    · refine tr_bind (tr_attempt (tr_pre (tr_readByte_hit []) (fun sc h => h.2))) (fun r => ?_) (fun e sc h => h.elim)
      cases r with
      | ok b => exact tr_false (fun _ h => h)
      | error e =>
        dsimp only
        refine tr_bind tr_getS (fun s2 => ?_) (fun e sc h => h.elim)
        refine tr_pure (fun sc h => ?_)
        obtain ⟨rfl, _, hh, hp⟩ := h
        exact ⟨hp, hh, hp⟩

/-- postcondition of `LookingAt` from a clean state with peek buffer `pk` -/
def LA (t : String) (pat pk : List UInt8) : Except Err Bool → Scanner → Prop :=
  Post (fun c sc' => (∃ ext, sc'.peek = pk ++ ext) ∧
      ((Clean t sc' ∧ (c = true → pat.length ≤ sc'.peek.length ∧ sc'.peek.take pat.length = pat)) ∨
       (HitSt t sc' ∧ c = false ∧ sc'.peek.length < pat.length))) (fun _ _ => False)

theorem tr_lookingAt_clean (pat pk : List UInt8) :
    Tr (fun sc => Clean t sc ∧ sc.peek = pk) (lookingAt pat) (LA t pat pk) := by
  unfold lookingAt
  refine tr_bind (tr_peekN_clean pat.length _ pk) (fun bb => ?_) (fun e sc h => h.elim)
  refine tr_pure (fun sc h => ?_)
  obtain ⟨hbb, hext, hc⟩ := h
  refine ⟨hext, ?_⟩
  rcases hc with hc | hc
  · left
    refine ⟨hc, fun hb => ?_⟩
    have : bb = pat := by simpa using hb
    have hl : bb.length = pat.length := by rw [this]
    refine ⟨?_, by rw [← hbb]; exact this⟩
    rw [hbb, List.length_take] at hl
    omega
  · right
    refine ⟨hc.1, ?_, hc.2⟩
    cases hb : (bb == pat) with
    | false => rfl
    | true =>
      exfalso
      have : bb = pat := by simpa using hb
      have hl : bb.length = pat.length := by rw [this]
      rw [hbb, List.length_take] at hl
      omega

theorem tr_lookingAt_full (P : Scanner → Prop) (pat : List UInt8) :
    Tr (fun sc => P sc ∧ pat.length ≤ sc.peek.length) (lookingAt pat)
      (Post (fun c sc' => (P sc' ∧ pat.length ≤ sc'.peek.length) ∧ c = (sc'.peek.take pat.length == pat))
        (fun _ _ => False)) := by
  unfold lookingAt
  refine tr_bind (tr_peekN_full P pat.length pat.length) (fun bb => ?_) (fun e sc h => h.elim)
  refine tr_pure (fun sc h => ?_)
  exact ⟨h.1, by rw [h.2]⟩

theorem tr_lookingAt_dead (pat : List UInt8) :
    Tr (Dead t) (lookingAt pat) (Post (fun c sc' => c = (([] : List UInt8) == pat) ∧ Dead t sc') (fun _ _ => False)) := by
  unfold lookingAt
  refine tr_bind (tr_peekN_dead pat.length _) (fun bb => ?_) (fun e sc h => h.elim)
  refine tr_pure (fun sc h => ?_)
  obtain ⟨rfl, hd⟩ := h
  exact ⟨rfl, hd⟩

theorem tr_skipN_clean : ∀ k,
    Tr (fun sc => Clean t sc ∧ k ≤ sc.peek.length) (skipN k) (Post (fun _ sc' => Clean t sc') (fun _ _ => False)) := by
  intro k
  induction k with
  | zero => unfold skipN; exact tr_pure (fun sc h => h.1)
  | succ k ih =>
    unfold skipN
    refine tr_cases_peek (tr_false (fun sc h => ?_)) (fun b rest => ?_)
    · have := h.1.2; rw [h.2] at this; simp at this
    · refine tr_assume (φ := k ≤ rest.length) (fun sc h => by have := h.1.2; rw [h.2] at this; simpa using this) (fun hk => ?_)
      refine tr_bind (tr_pre (tr_skipByte_cons (Clean t) clean_sim (fun _ h => h.2.2) b rest) (fun sc h => ⟨h.1.1, h.2⟩))
        (fun _ => ?_) (fun e sc h => h.elim)
      exact tr_pre ih (fun sc h => ⟨h.1, by rw [h.2]; exact hk⟩)

/-! #### skipping -/

theorem tr_skipRequiredByte_clean (x : UInt8) :
    Tr (Clean t) (skipRequiredByte x) (Post (fun _ sc' => Clean t sc') (EC t)) := by
  unfold skipRequiredByte
  refine tr_bind tr_next_clean (fun a => ?_) (fun e sc h => h)
  exact tr_ite (tr_fail (fun sc h => Or.inl h)) (tr_pure (fun sc h => h))

theorem tr_skipRequiredByte_hit1 (x b : UInt8) :
    Tr (fun sc => HitSt t sc ∧ sc.peek = [b]) (skipRequiredByte x)
      (Post (fun _ sc' => Dead t sc') (fun _ sc' => Dead t sc' ∧ b ≠ x)) := by
  unfold skipRequiredByte
  refine tr_bind (tr_next_cons (HitSt t) hit_sim (fun _ h => h.2.2.2) b []) (fun a => ?_) (fun e sc h => h.elim)
  refine tr_ite' (fun hc => ?_) (fun _ => ?_)
  · refine tr_fail (fun sc h => ?_)
    obtain ⟨rfl, h1, h2⟩ := h
    exact ⟨⟨h1, h2⟩, by simpa using hc⟩
  · exact tr_pure (fun sc h => ⟨h.2.1, h.2.2⟩)

theorem tr_skipOptionalByte_clean (x : UInt8) :
    Tr (Clean t) (skipOptionalByte x) (Post (fun _ sc' => Clean t sc' ∨ Dead t sc') (fun _ _ => False)) := by
  unfold skipOptionalByte
  refine tr_bind (tr_attempt tr_peek_clean) (fun r => ?_) (fun e sc h => h.elim)
  cases r with
  | ok nb =>
    dsimp only
    refine tr_ite ?_ (tr_pure (fun sc h => Or.inl h.1))
    exact tr_post (tr_skipByte_clean nb) (fun _ _ h => Or.inl h) (fun _ _ h => h)
  | error e =>
    dsimp only
    refine tr_pure (fun sc h => ?_)
    rcases h with h | h
    · exact Or.inl h
    · exact Or.inr h.2

theorem tr_skipOptionalByte_dead (x : UInt8) :
    Tr (Dead t) (skipOptionalByte x) (Post (fun _ sc' => Dead t sc') (fun _ _ => False)) := by
  unfold skipOptionalByte
  refine tr_bind (tr_attempt tr_peek_dead) (fun r => ?_) (fun e sc h => h.elim)
  cases r with
  | ok nb => exact tr_false (fun _ h => h)
  | error e =>
    dsimp only
    exact tr_pure (fun sc h => h.2)

theorem tr_skipToEOL_clean : ∀ fuel,
    Tr (Clean t) (skipToEOL fuel) (Post (fun _ sc' => Clean t sc' ∨ Dead t sc') (fun _ _ => False)) := by
  intro fuel
  induction fuel with
  | zero => unfold skipToEOL; exact tr_pure (fun sc h => Or.inl h)
  | succ k ih =>
    unfold skipToEOL
    refine tr_bind (tr_attempt tr_next_clean) (fun r => ?_) (fun e sc h => h.elim)
    cases r with
    | error e =>
      dsimp only
      refine tr_pure (fun sc h => ?_)
      rcases h with h | h
      · exact Or.inl h
      · exact Or.inr h.2
    | ok b =>
      dsimp only
      refine tr_ite (tr_pure (fun sc h => Or.inl h)) ?_
      exact tr_ite (tr_skipOptionalByte_clean _) ih

theorem tr_skipToEOL_dead (fuel : Nat) :
    Tr (Dead t) (skipToEOL fuel) (Post (fun _ sc' => Dead t sc') (fun _ _ => False)) := by
  cases fuel with
  | zero => unfold skipToEOL; exact tr_pure (fun sc h => h)
  | succ k =>
    unfold skipToEOL
    refine tr_bind (tr_attempt tr_next_dead) (fun r => ?_) (fun e sc h => h.elim)
    cases r with
    | ok b => exact tr_false (fun _ h => h)
    | error e =>
      dsimp only
      exact tr_pure (fun sc h => h.2)

theorem tr_skipToEOL_cd (fuel : Nat) :
    Tr (fun sc => Clean t sc ∨ Dead t sc) (skipToEOL fuel)
      (Post (fun _ sc' => Clean t sc' ∨ Dead t sc') (fun _ _ => False)) :=
  tr_or (tr_skipToEOL_clean fuel) (tr_post (tr_skipToEOL_dead fuel) (fun _ _ h => Or.inr h) (fun _ _ h => h))

theorem tr_skipComment_clean :
    Tr (Clean t) skipComment (Post (fun _ sc' => Clean t sc' ∨ Dead t sc') (fun _ _ => False)) := by
  unfold skipComment
  refine tr_bind (tr_attempt (tr_skipRequiredByte_clean 37)) (fun r => ?_) (fun e sc h => h.elim)
  cases r with
  | ok _ =>
    dsimp only
    exact tr_bind tr_getS' (fun s => tr_skipToEOL_clean _) (fun e sc h => h.elim)
  | error e =>
    dsimp only
    refine tr_pure (fun sc h => ?_)
    rcases h with h | h
    · exact Or.inl h
    · exact Or.inr h.2

theorem tr_skipComment_hit1 (b : UInt8) :
    Tr (fun sc => HitSt t sc ∧ sc.peek = [b]) skipComment (Post (fun _ sc' => Dead t sc') (fun _ _ => False)) := by
  unfold skipComment
  refine tr_bind (tr_attempt (tr_skipRequiredByte_hit1 37 b)) (fun r => ?_) (fun e sc h => h.elim)
  cases r with
  | ok _ =>
    dsimp only
    exact tr_bind tr_getS' (fun s => tr_skipToEOL_dead _) (fun e sc h => h.elim)
  | error e =>
    dsimp only
    exact tr_pure (fun sc h => h.1)

/-! #### structured comments -/

theorem tr_readCommentKey_clean : ∀ fuel acc,
    Tr (Clean t) (readCommentKey fuel acc) (Post (fun _ sc' => Clean t sc') (EC t)) := by
  intro fuel
  induction fuel with
  | zero => intro acc; unfold readCommentKey; exact tr_pure (fun sc h => h)
  | succ k ih =>
    intro acc
    unfold readCommentKey
    refine tr_bind (tr_attempt tr_peek_clean) (fun r => ?_) (fun e sc h => h.elim)
    split
    · exact tr_pure (fun sc h => ec_eof h)
    · exact tr_fail (fun sc h => h)
    · rename_i b
      refine tr_ite (tr_pure (fun sc h => h.1)) ?_
      refine tr_bind (tr_skipByte_clean b) (fun _ => ?_) (fun e sc h => h.elim)
      exact tr_ite (tr_pure (fun sc h => h)) (ih _)

theorem tr_skipBlanks_clean : ∀ fuel,
    Tr (Clean t) (skipBlanks fuel) (Post (fun _ sc' => Clean t sc') (EC t)) := by
  intro fuel
  induction fuel with
  | zero => unfold skipBlanks; exact tr_pure (fun sc h => h)
  | succ k ih =>
    unfold skipBlanks
    refine tr_bind (tr_attempt tr_peek_clean) (fun r => ?_) (fun e sc h => h.elim)
    split
    · exact tr_pure (fun sc h => ec_eof h)
    · exact tr_fail (fun sc h => h)
    · rename_i b
      refine tr_ite (tr_pure (fun sc h => h.1)) ?_
      exact tr_bind (tr_skipByte_clean b) (fun _ => ih) (fun e sc h => h.elim)

theorem tr_readLine_clean : ∀ fuel acc,
    Tr (Clean t) (readLine fuel acc) (Post (fun _ sc' => Clean t sc' ∨ Dead t sc') (EC t)) := by
  intro fuel
  induction fuel with
  | zero => intro acc; unfold readLine; exact tr_pure (fun sc h => Or.inl h)
  | succ k ih =>
    intro acc
    unfold readLine
    refine tr_bind (tr_attempt tr_next_clean) (fun r => ?_) (fun e sc h => h.elim)
    split
    · exact tr_pure (fun sc h => Or.inl (ec_eof h))
    · exact tr_fail (fun sc h => h)
    · refine tr_ite (tr_pure (fun sc h => Or.inl h)) ?_
      refine tr_ite ?_ (ih _)
      exact tr_bind (tr_skipOptionalByte_clean _) (fun _ => tr_pure (fun sc h => h)) (fun e sc h => h.elim)

theorem tr_readCommentValue_clean : ∀ fuel acc,
    Tr (Clean t) (readCommentValue fuel acc) (Post (fun _ _ => True) (EC t)) := by
  intro fuel
  induction fuel with
  | zero => intro acc; unfold readCommentValue; exact tr_pure (fun sc h => trivial)
  | succ k ih =>
    intro acc
    unfold readCommentValue
    refine tr_bind tr_getS' (fun s => ?_) (fun e sc h => h.elim)
    refine tr_bind (tr_skipBlanks_clean _) (fun _ => ?_) (fun e sc h => h)
    refine tr_bind tr_getS' (fun s => ?_) (fun e sc h => h.elim)
    refine tr_bind (tr_readLine_clean _ _) (fun acc' => ?_) (fun e sc h => h)
    refine tr_bind (A := fun c sc' => (Clean t sc' ∧ (c = true → 3 ≤ sc'.peek.length)) ∨ c = false)
      (E := fun _ _ => False) ?_ (fun c => ?_) (fun e sc h => h.elim)
    · refine tr_or ?_ ?_
      · intro sc h
        have := tr_lookingAt_clean [37, 37, 43] sc.peek sc ⟨h, rfl⟩
        generalize lookingAt [37, 37, 43] sc = p at this
        obtain ⟨r, s1⟩ := p
        cases r with
        | error e => exact this
        | ok c =>
          rcases this.2 with h2 | h2
          · exact Or.inl ⟨h2.1, fun hc => (h2.2 hc).1⟩
          · exact Or.inr h2.2.1
      · exact tr_post (tr_lookingAt_dead _) (fun c sc h => Or.inr h.1) (fun _ _ h => h)
    · refine tr_ite' (fun hc => ?_) (fun _ => tr_pure (fun _ _ => trivial))
      refine tr_bind (tr_pre (tr_skipN_clean 3) (fun sc h => ?_)) (fun _ => ih _) (fun e sc h => h.elim)
      rcases h with h | h
      · exact ⟨h.1, h.2 hc⟩
      · rw [hc] at h; cases h

/-- a triple together with the bound on the bytes left -/
theorem tr_mu {α : Type} {P : Scanner → Prop} {m : SM α} {A : α → Scanner → Prop} {E : Err → Scanner → Prop}
    (h : Tr P m (Post A E)) (hm : Mn m) (M : Nat) :
    Tr (fun sc => P sc ∧ mu sc ≤ M) m
      (Post (fun a sc' => A a sc' ∧ mu sc' ≤ M) (fun e sc' => E e sc' ∧ mu sc' ≤ M)) := by
  intro sc hp
  have h1 := h sc hp.1
  have h2 := Nat.le_trans (hm sc) hp.2
  generalize m sc = p at h1 h2
  obtain ⟨r, s1⟩ := p
  cases r with
  | ok a => exact ⟨h1, h2⟩
  | error e => exact ⟨h1, h2⟩

/-- `SkipByte` with a non-empty peek buffer consumes exactly one byte -/
theorem tr_skipByte_mu (j M : Nat) :
    Tr (fun sc => Clean t sc ∧ j + 1 ≤ sc.peek.length ∧ mu sc ≤ M + 1) skipByte
      (Post (fun _ sc' => Clean t sc' ∧ j ≤ sc'.peek.length ∧ mu sc' ≤ M) (fun _ _ => False)) := by
  intro sc ⟨hc, hl, hm⟩
  cases hp : sc.peek with
  | nil => rw [hp] at hl; simp at hl
  | cons b rest =>
    have := tr_skipByte_cons (fun s => Clean t s ∧ s.src.length = sc.src.length)
      (fun a b h k => ⟨h.clean k.1, by rw [h.2.2.1]; exact k.2⟩) (fun _ h => h.1.2.2) b rest sc ⟨⟨hc, rfl⟩, hp⟩
    generalize skipByte sc = p at this
    obtain ⟨r, s1⟩ := p
    cases r with
    | error e => exact this
    | ok _ =>
      obtain ⟨⟨h1, h2⟩, h3⟩ := this
      refine ⟨h1, ?_, ?_⟩
      · show j ≤ s1.peek.length
        rw [h3]; rw [hp] at hl; simpa using hl
      · show mu s1 ≤ M
        unfold mu at hm ⊢
        rw [h2, h3]; rw [hp] at hm
        simp only [List.length_cons] at hm
        omega

theorem tr_skipN_mu (k M : Nat) :
    Tr (fun sc => Clean t sc ∧ k + 1 ≤ sc.peek.length ∧ mu sc ≤ M + 1) (skipN (k + 1))
      (Post (fun _ sc' => Clean t sc' ∧ mu sc' ≤ M) (fun _ _ => False)) := by
  unfold skipN
  refine tr_bind (tr_skipByte_mu k M) (fun _ => ?_) (fun e sc h => h.elim)
  refine tr_conseq (fun sc h => ⟨⟨h.1, h.2.1⟩, h.2.2⟩) (tr_mu (tr_skipN_clean k) (mn_skipN k) M) ?_
  intro r sc h
  cases r with
  | ok _ => exact h
  | error e => exact h.1

/-- `SkipRequiredByte` on the byte that `Peek` has just shown -/
theorem tr_skipRequiredByte_mu (x : UInt8) (M : Nat) :
    Tr (fun sc => Clean t sc ∧ (∃ rest, sc.peek = x :: rest) ∧ mu sc ≤ M + 1) (skipRequiredByte x)
      (Post (fun _ sc' => Clean t sc' ∧ mu sc' ≤ M) (fun _ _ => False)) := by
  intro sc ⟨hc, ⟨rest, hp⟩, hm⟩
  have hn := tr_next_cons (fun s => Clean t s ∧ s.src.length = sc.src.length)
    (fun a b h k => ⟨h.clean k.1, by rw [h.2.2.1]; exact k.2⟩) (fun _ h => h.1.2.2) x rest
  have : Tr (fun s => s = sc) (skipRequiredByte x)
      (Post (fun _ sc' => Clean t sc' ∧ mu sc' ≤ M) (fun _ _ => False)) := by
    unfold skipRequiredByte
    refine tr_bind (tr_pre hn (fun s h => by subst h; exact ⟨⟨hc, rfl⟩, hp⟩)) (fun a => ?_) (fun e sc h => h.elim)
    refine tr_ite' (fun hne => tr_false (fun s h => ?_)) (fun _ => tr_pure (fun s h => ?_))
    · rw [h.1] at hne; simp at hne
    · obtain ⟨_, ⟨h1, h2⟩, h3⟩ := h
      refine ⟨h1, ?_⟩
      unfold mu at hm ⊢
      rw [h2, h3]; rw [hp] at hm
      simp only [List.length_cons] at hm
      omega
  exact this sc rfl

theorem tr_skipComment_mu (M : Nat) :
    Tr (fun sc => Clean t sc ∧ (∃ rest, sc.peek = 37 :: rest) ∧ mu sc ≤ M + 1) skipComment
      (Post (fun _ sc' => (Clean t sc' ∨ Dead t sc') ∧ mu sc' ≤ M) (fun _ _ => False)) := by
  unfold skipComment
  refine tr_bind (tr_attempt (tr_skipRequiredByte_mu 37 M)) (fun r => ?_) (fun e sc h => h.elim)
  cases r with
  | ok _ =>
    dsimp only
    refine tr_bind tr_getS' (fun s => ?_) (fun e sc h => h.elim)
    exact tr_post (tr_mu (tr_skipToEOL_clean _) (mn_skipToEOL _) M) (fun _ _ h => h) (fun _ _ h => h.1)
  | error e => exact tr_false (fun _ h => h)

/-- the part of `readStructuredComment` after `%%` -/
def rscTail : SM (Option (List UInt8 × List UInt8)) := do
  let s ← getS
  match ← attempt (readCommentKey (fuelOf s) []) with
  | .error _ => do let s ← getS; skipToEOL (fuelOf s); pure none
  | .ok key =>
    if key.isEmpty then do let s ← getS; skipToEOL (fuelOf s); pure none
    else do
      let s ← getS
      match ← attempt (readCommentValue (fuelOf s) []) with
      | .error _ => pure none
      | .ok val => pure (some (key, val))

theorem readStructuredComment_eq : readStructuredComment = (do
    if !(← lookingAt [37, 37]) then pure none
    else do
      skipN 2
      rscTail) := rfl

theorem mn_rscTail : Mn rscTail := by
  unfold rscTail
  refine mn_bind mn_getS (fun s => mn_bind (mn_attempt (mn_readCommentKey _ _)) (fun r => ?_))
  have eol : Mn (do let s ← getS; skipToEOL (fuelOf s); pure (none : Option (List UInt8 × List UInt8))) :=
    mn_bind mn_getS (fun s => mn_bind (mn_skipToEOL _) (fun _ => mn_pure _))
  split
  · exact eol
  · refine mn_ite eol (mn_bind mn_getS (fun s => mn_bind (mn_attempt (mn_readCommentValue _ _)) (fun r => ?_)))
    split
    · exact mn_pure _
    · exact mn_pure _

theorem tr_rscTail_clean :
    Tr (Clean t) rscTail (Post (fun r sc' => r = none → (Clean t sc' ∨ Dead t sc')) (fun _ _ => False)) := by
  unfold rscTail
  refine tr_bind tr_getS' (fun s => ?_) (fun e sc h => h.elim)
  refine tr_bind (tr_attempt (tr_readCommentKey_clean _ _)) (fun r => ?_) (fun e sc h => h.elim)
  have eol : ∀ (P : Scanner → Prop), (∀ sc, P sc → Clean t sc ∨ Dead t sc) →
      Tr P (do let s ← getS; skipToEOL (fuelOf s); pure (none : Option (List UInt8 × List UInt8)))
        (Post (fun r sc' => r = none → (Clean t sc' ∨ Dead t sc')) (fun _ _ => False)) := by
    intro P hP
    refine tr_bind tr_getS' (fun s => ?_) (fun e sc h => h.elim)
    refine tr_bind (tr_pre (tr_skipToEOL_cd _) hP) (fun _ => ?_) (fun e sc h => h.elim)
    exact tr_pure (fun sc h _ => h)
  cases r with
  | error e =>
    dsimp only
    refine eol _ (fun sc h => ?_)
    rcases h with h | h
    · exact Or.inl h
    · exact Or.inr h.2
  | ok key =>
    dsimp only
    refine tr_ite (eol _ (fun sc h => Or.inl h)) ?_
    refine tr_bind tr_getS' (fun s => ?_) (fun e sc h => h.elim)
    refine tr_bind (tr_attempt (tr_readCommentValue_clean _ _)) (fun r => ?_) (fun e sc h => h.elim)
    cases r with
    | error e =>
      dsimp only
      refine tr_pure (fun sc h _ => ?_)
      rcases h with h | h
      · exact Or.inl h
      · exact Or.inr h.2
    | ok val =>
      dsimp only
      exact tr_pure (fun sc h hn => by cases hn)

/-- `readStructuredComment` on `%%…`: at least one byte is consumed; when no comment is
delivered the state is clean or dead -/
theorem tr_readStructuredComment_clean (M : Nat) :
    Tr (fun sc => Clean t sc ∧ sc.peek.take 2 = [37, 37] ∧ mu sc ≤ M + 1) readStructuredComment
      (Post (fun r sc' => mu sc' ≤ M ∧ (r = none → (Clean t sc' ∨ Dead t sc'))) (fun _ _ => False)) := by
  rw [readStructuredComment_eq]
  have hlen : ∀ sc : Scanner, sc.peek.take 2 = [37, 37] → 2 ≤ sc.peek.length := by
    intro sc h
    have := congrArg List.length h
    rw [List.length_take] at this
    simp at this
    omega
  refine tr_bind (tr_pre (tr_lookingAt_full (fun sc => Clean t sc ∧ sc.peek.take 2 = [37, 37] ∧ mu sc ≤ M + 1) [37, 37])
    (fun sc h => ⟨h, hlen sc h.2.1⟩)) (fun c => ?_) (fun e sc h => h.elim)
  refine tr_ite' (fun hc => tr_false (fun sc h => ?_)) (fun _ => ?_)
  · have hc' : c = false := by simpa using hc
    have h2 := h.2
    rw [hc'] at h2
    have h3 : ([37, 37] : List UInt8).length = 2 := rfl
    rw [h3, h.1.1.2.1] at h2
    simp at h2
  · refine tr_bind (tr_pre (tr_skipN_mu 1 M) (fun sc h => ⟨h.1.1.1, h.1.2, h.1.1.2.2⟩)) (fun _ => ?_) (fun e sc h => h.elim)
    refine tr_conseq (fun sc h => h) (tr_mu tr_rscTail_clean mn_rscTail M) ?_
    intro r sc h
    cases r with
    | ok r => exact ⟨h.2, h.1⟩
    | error e => exact h.1

end
end PsVerif.Proofs.IoErr

namespace PsVerif.Proofs.IoErr
open PsVerif.Model PsVerif.Model.Scan

section
variable {t : String}

theorem tr_fail_bind {α β : Type} {P : Scanner → Prop} {e : Err} {f : α → SM β}
    {Q : Except Err β → Scanner → Prop} (h : ∀ sc, P sc → Q (.error e) sc) : Tr P ((fail e : SM α) >>= f) Q := by
  intro sc hp
  rw [run_fail_bind]
  exact h sc hp

/-! #### `SkipWhiteSpace` -/

theorem peek_single {b : UInt8} {rest ext pk : List UInt8} (h : pk = (b :: rest) ++ ext) (hl : pk.length < 2) :
    pk = [b] := by
  subst h
  simp at hl
  have : rest ++ ext = [] := by
    cases h : rest ++ ext with
    | nil => rfl
    | cons x xs =>
      have := congrArg List.length h
      simp at this
      omega
  simp [this]



theorem tr_skipWhiteSpace_dead (k : Nat) :
    Tr (Dead t) (skipWhiteSpace (k + 1)) (Post (fun _ _ => False) (fun e _ => IoF t e)) := by
  unfold skipWhiteSpace
  exact tr_bind tr_peek_dead (fun b => tr_false (fun _ h => h)) (fun e sc h => h.1)

/-- postcondition of `SkipWhiteSpace` from a clean state: either a structured comment has been
recorded, or the state is clean again with the next byte in the peek buffer -/
def SW (t : String) : Except Err Unit → Scanner → Prop :=
  Post (fun _ sc' => sc'.dsc ≠ [] ∨ (Clean t sc' ∧ sc'.peek ≠ []))
    (fun e sc' => sc'.dsc ≠ [] ∨ ECw t e sc')

/-- the fuel of `SkipWhiteSpace` is never used up: every turn consumes a byte -/
theorem tr_skipWhiteSpace_clean : ∀ fuel,
    Tr (fun sc => Clean t sc ∧ mu sc < fuel) (skipWhiteSpace fuel) (SW t) := by
  intro fuel
  induction fuel with
  | zero => exact tr_false (fun sc h => Nat.not_lt_zero _ h.2)
  | succ k ih =>
    unfold skipWhiteSpace
    refine tr_bind (tr_pre (tr_mu tr_peek_clean mn_peek k) (fun sc h => ⟨h.1, Nat.le_of_lt_succ h.2⟩))
      (fun b => ?_) (fun e sc h => Or.inr (ec_w h.1))
    -- the byte just peeked is still there, so a unit of fuel is left
    refine tr_assume (φ := 1 ≤ k) (fun sc h => ?_) (fun hk => ?_)
    · obtain ⟨⟨_, rest, hr⟩, hm⟩ := h
      unfold mu at hm
      rw [hr] at hm
      simp only [List.length_cons] at hm
      omega
    obtain ⟨k', rfl⟩ : ∃ k', k = k' + 1 := ⟨k - 1, by omega⟩
    have cont : Tr (fun sc => (Clean t sc ∨ Dead t sc) ∧ mu sc ≤ k') (skipWhiteSpace (k' + 1)) (SW t) := by
      intro sc h
      rcases h.1 with h1 | h1
      · exact ih sc ⟨h1, Nat.lt_succ_of_le h.2⟩
      · exact tr_post (tr_skipWhiteSpace_dead k') (fun _ _ h => h.elim) (fun _ _ h => Or.inr (Or.inr h)) sc h1
    refine tr_ite ?_ ?_
    · refine tr_bind (tr_pre (tr_skipByte_mu (t := t) 0 k') (fun sc h => ?_)) (fun _ => ?_) (fun e sc h => h.elim)
      · obtain ⟨⟨hc, rest, hr⟩, hm⟩ := h
        exact ⟨hc, by rw [hr]; simp, hm⟩
      · exact tr_pre ih (fun sc h => ⟨h.1, Nat.lt_succ_of_le h.2.2⟩)
    refine tr_ite' (fun hb => ?_) (fun _ => tr_pure (fun sc h => Or.inr ⟨h.1.1, by obtain ⟨r, hr⟩ := h.1.2; rw [hr]; simp⟩))
    have hb' : b = 37 := by simpa using hb
    subst hb'
    refine tr_bind tr_getS' (fun s => ?_) (fun e sc h => h.elim)
    refine tr_bind (A := fun c sc' => ((Clean t sc' ∧ (c = true → sc'.peek.take 2 = [37, 37]) ∧ (∃ rest, sc'.peek = 37 :: rest)) ∨
        (HitSt t sc' ∧ c = false ∧ sc'.peek = [37])) ∧ mu sc' ≤ k' + 1) (E := fun _ _ => False) ?_ (fun c => ?_) (fun e sc h => h.elim)
    · intro sc h
      obtain ⟨⟨hc, rest, hr⟩, hm⟩ := h
      have h1 := tr_lookingAt_clean (t := t) [37, 37] (37 :: rest) sc ⟨hc, hr⟩
      have h2 := Nat.le_trans (mn_lookingAt [37, 37] sc) hm
      generalize lookingAt [37, 37] sc = p at h1 h2
      obtain ⟨r, s1⟩ := p
      cases r with
      | error e => exact h1
      | ok c =>
        refine ⟨?_, h2⟩
        obtain ⟨⟨ext, hext⟩, h3⟩ := h1
        rcases h3 with h3 | h3
        · exact Or.inl ⟨h3.1, fun hc => (h3.2 hc).2, ⟨rest ++ ext, by rw [hext]; rfl⟩⟩
        · exact Or.inr ⟨h3.1, h3.2.1, peek_single hext h3.2.2⟩
    · refine tr_ite' (fun hc => ?_) (fun _ => ?_)
      · have hct : c = true := by
          simp only [Bool.and_eq_true] at hc
          exact hc.2
        refine tr_bind (A := fun r sc' => I t False sc' ∧ mu sc' ≤ k' ∧ (r = none → (Clean t sc' ∨ Dead t sc')))
          (E := fun _ _ => False) ?_ (fun r => ?_) (fun e sc h => h.elim)
        · intro sc h
          have hcl : Clean t sc ∧ sc.peek.take 2 = [37, 37] ∧ mu sc ≤ k' + 1 := by
            rcases h.1 with h1 | h1
            · exact ⟨h1.1, h1.2.1 hct, h.2⟩
            · rw [hct] at h1; cases h1.2.1
          have h1 := tr_readStructuredComment_clean k' sc hcl
          have h2 := fr_readStructuredComment (t := t) (b := False) sc ⟨⟨hcl.1.1, Or.inl hcl.1.2.1⟩, False.elim⟩
          generalize readStructuredComment sc = p at h1 h2
          obtain ⟨r, s1⟩ := p
          cases r with
          | error e => exact h1
          | ok r => exact ⟨h2.1, h1⟩
        · dsimp only
          split
          · refine tr_bind (tr_modS' (P' := I t True) ?_) (fun _ => ?_) (fun e sc h => h.elim)
            · intro sc h
              exact ⟨h.1.1, fun _ => by simp⟩
            · exact tr_post (fr_skipWhiteSpace (k' + 1)) (fun _ sc h => Or.inl (h.1.2 trivial)) (fun _ sc h => Or.inl (h.1.2 trivial))
          · exact tr_pre cont (fun sc h => ⟨h.2.2 rfl, h.2.1⟩)
      · refine tr_bind (A := fun _ sc' => (Clean t sc' ∨ Dead t sc') ∧ mu sc' ≤ k') (E := fun _ _ => False) ?_
          (fun _ => cont) (fun e sc h => h.elim)
        intro sc h
        rcases h.1 with h1 | h1
        · exact tr_skipComment_mu k' sc ⟨h1.1, h1.2.2, h.2⟩
        · have h3 := tr_skipComment_hit1 (t := t) 37 sc ⟨h1.1, h1.2.2⟩
          generalize skipComment sc = p at h3
          obtain ⟨r, s1⟩ := p
          cases r with
          | error e => exact h3
          | ok _ =>
            refine ⟨Or.inr h3, ?_⟩
            show mu s1 ≤ k'
            have : mu s1 = 0 := by
              unfold mu
              rw [h3.1.2.2.1, h3.2]
              rfl
            omega

/-! #### strings and names -/

theorem tr_readOctal_clean : ∀ n oct, Tr (Clean t) (readOctal n oct) (Post (fun _ sc' => Clean t sc') (EC t)) := by
  intro n
  induction n with
  | zero => intro oct; unfold readOctal; exact tr_pure (fun sc h => h)
  | succ k ih =>
    intro oct
    unfold readOctal
    refine tr_bind (tr_attempt tr_peek_clean) (fun r => ?_) (fun e sc h => h.elim)
    split
    · exact tr_pure (fun sc h => ec_eof h)
    · exact tr_fail (fun sc h => h)
    · rename_i b
      refine tr_ite (tr_pure (fun sc h => h.1)) ?_
      exact tr_bind (tr_skipByte_clean b) (fun _ => ih _) (fun e sc h => h.elim)

theorem tr_readStringBody_clean : ∀ fuel res level ig,
    Tr (Clean t) (readStringBody fuel res level ig) (Post (fun _ sc' => Clean t sc') (EC t)) := by
  intro fuel
  induction fuel with
  | zero => intro res level ig; unfold readStringBody; exact tr_fail (fun sc h => Or.inl h)
  | succ k ih =>
    intro res level ig
    unfold readStringBody
    refine tr_bind tr_next_clean (fun c => ?_) (fun e sc h => h)
    repeat' (first
      | exact ih _ _ _
      | exact tr_pure (fun _ h => h)
      | refine tr_ite ?_ ?_
      | refine tr_bind tr_next_clean (fun e => ?_) (fun _ _ h => h)
      | exact tr_bind (tr_readOctal_clean _ _) (fun _ => ih _ _ _) (fun _ _ h => h))

theorem tr_readString_clean : Tr (Clean t) readString (Post (fun _ sc' => Clean t sc') (EC t)) := by
  unfold readString
  refine tr_bind (tr_skipRequiredByte_clean _) (fun _ => ?_) (fun e sc h => h)
  exact tr_bind tr_getS' (fun s => tr_readStringBody_clean _ _ _ _) (fun e sc h => h.elim)

theorem tr_readHexBody_clean : ∀ fuel res first hi,
    Tr (Clean t) (readHexBody fuel res first hi) (Post (fun _ sc' => Clean t sc') (EC t)) := by
  intro fuel
  induction fuel with
  | zero => intro res first hi; unfold readHexBody; exact tr_fail (fun sc h => Or.inl h)
  | succ k ih =>
    intro res first hi
    unfold readHexBody
    refine tr_bind tr_next_clean (fun c => ?_) (fun e sc h => h)
    refine tr_ite (tr_pure (fun _ h => h)) (tr_ite (ih _ _ _) ?_)
    split
    · exact tr_fail (fun sc h => Or.inl h)
    · exact tr_ite (ih _ _ _) (ih _ _ _)

theorem tr_readHexBody_dead (k : Nat) (res : List UInt8) (first : Bool) (hi : UInt8) :
    Tr (Dead t) (readHexBody (k + 1) res first hi) (Post (fun _ _ => False) (fun e _ => IoF t e)) := by
  unfold readHexBody
  exact tr_bind tr_next_dead (fun b => tr_false (fun _ h => h)) (fun e sc h => h.1)

theorem tr_readHexString_clean : Tr (Clean t) readHexString (Post (fun _ sc' => Clean t sc') (EC t)) := by
  unfold readHexString
  refine tr_bind (tr_skipRequiredByte_clean _) (fun _ => ?_) (fun e sc h => h)
  exact tr_bind tr_getS' (fun s => tr_readHexBody_clean _ _ _ _) (fun e sc h => h.elim)

theorem tr_readHexString_hit1 :
    Tr (fun sc => HitSt t sc ∧ sc.peek = [60]) readHexString (Post (fun _ _ => False) (fun e _ => IoF t e)) := by
  unfold readHexString
  refine tr_bind (tr_skipRequiredByte_hit1 60 60) (fun _ => ?_) (fun e sc h => (h.2 rfl).elim)
  refine tr_bind tr_getS' (fun s => ?_) (fun e sc h => h.elim)
  rw [fuelOf_succ]
  exact tr_readHexBody_dead _ _ _ _

theorem tr_readA85Body_clean : ∀ fuel res pos val,
    Tr (Clean t) (readA85Body fuel res pos val) (Post (fun _ sc' => Clean t sc') (EC t)) := by
  intro fuel
  induction fuel with
  | zero => intro res pos val; unfold readA85Body; exact tr_fail (fun sc h => Or.inl h)
  | succ k ih =>
    intro res pos val
    unfold readA85Body
    refine tr_bind tr_next_clean (fun c => ?_) (fun e sc h => h)
    dsimp only
    repeat' (first
      | exact ih _ _ _
      | exact tr_pure (fun _ h => h)
      | exact tr_fail (fun sc h => Or.inl h)
      | refine tr_ite ?_ ?_)

theorem tr_readBase85String_clean : Tr (Clean t) readBase85String (Post (fun _ sc' => Clean t sc') (EC t)) := by
  unfold readBase85String
  refine tr_bind (tr_skipRequiredByte_clean _) (fun _ => ?_) (fun e sc h => h)
  refine tr_bind (tr_skipRequiredByte_clean _) (fun _ => ?_) (fun e sc h => h)
  refine tr_bind tr_getS' (fun s => ?_) (fun e sc h => h.elim)
  refine tr_bind (tr_readA85Body_clean _ _ _ _) (fun r => ?_) (fun e sc h => h)
  obtain ⟨res, pos, val⟩ := r
  dsimp only
  refine tr_bind (A := fun _ sc' => Clean t sc') (E := EC t) ?_
    (fun _ => tr_bind (tr_skipRequiredByte_clean _) (fun _ => tr_pure (fun _ h => h)) (fun e sc h => h)) (fun e sc h => h)
  repeat' (first
    | exact tr_pure (fun _ h => h)
    | exact tr_fail (fun sc h => Or.inl h)
    | refine tr_ite ?_ ?_)

theorem tr_readRegular_clean : ∀ fuel acc,
    Tr (Clean t) (readRegular fuel acc) (Post (fun _ sc' => Clean t sc') (EC t)) := by
  intro fuel
  induction fuel with
  | zero => intro acc; unfold readRegular; exact tr_pure (fun sc h => h)
  | succ k ih =>
    intro acc
    unfold readRegular
    refine tr_bind (tr_attempt tr_peek_clean) (fun r => ?_) (fun e sc h => h.elim)
    split
    · exact tr_pure (fun sc h => ec_eof h)
    · exact tr_fail (fun sc h => h)
    · rename_i b
      refine tr_ite (tr_pure (fun sc h => h.1)) ?_
      exact tr_bind (tr_skipByte_clean b) (fun _ => ih _) (fun e sc h => h.elim)

theorem tr_skipEexecSpace_clean : ∀ fuel,
    Tr (Clean t) (skipEexecSpace fuel) (Post (fun _ sc' => Clean t sc') (EC t)) := by
  intro fuel
  induction fuel with
  | zero => unfold skipEexecSpace; exact tr_fail (fun sc h => Or.inl h)
  | succ k ih =>
    unfold skipEexecSpace
    refine tr_bind tr_peek_clean (fun b => ?_) (fun e sc h => h)
    refine tr_ite ?_ (tr_pure (fun sc h => h.1))
    exact tr_bind (tr_skipByte_clean b) (fun _ => ih) (fun e sc h => h.elim)

theorem tr_readN_clean : ∀ n acc,
    Tr (Clean t) (readN n acc)
      (Post (fun r sc' => (r.2 = none → Clean t sc') ∧ ∀ e, r.2 = some e → EC t e sc') (fun _ _ => False)) := by
  intro n
  induction n with
  | zero => intro acc; unfold readN; exact tr_pure (fun sc h => ⟨fun _ => h, fun e he => (by cases he)⟩)
  | succ k ih =>
    intro acc
    unfold readN
    refine tr_bind (tr_attempt tr_next_clean) (fun r => ?_) (fun e sc h => h.elim)
    cases r with
    | error e =>
      dsimp only
      exact tr_pure (fun sc h => ⟨fun hn => (by cases hn), fun e' he => (by cases he; exact h)⟩)
    | ok b =>
      dsimp only
      exact ih _

/-- `SkipByte` with at least `k+1` bytes in the peek buffer -/
theorem tr_skipByte_len (k : Nat) :
    Tr (fun sc => Clean t sc ∧ k + 1 ≤ sc.peek.length) skipByte
      (Post (fun _ sc' => Clean t sc' ∧ k ≤ sc'.peek.length) (fun _ _ => False)) := by
  refine tr_cases_peek (tr_false (fun sc h => ?_)) (fun b rest => ?_)
  · have := h.1.2; rw [h.2] at this; simp at this
  · refine tr_assume (φ := k ≤ rest.length) (fun sc h => by have := h.1.2; rw [h.2] at this; simpa using this) (fun hk => ?_)
    refine tr_conseq (fun sc h => ⟨h.1.1, h.2⟩) (tr_skipByte_cons (Clean t) clean_sim (fun _ h => h.2.2) b rest) ?_
    intro r sc h
    cases r with
    | error e => exact h
    | ok _ => exact ⟨h.1, by rw [h.2]; exact hk⟩

end
end PsVerif.Proofs.IoErr

namespace PsVerif.Proofs.IoErr
open PsVerif.Model PsVerif.Model.Scan

/-- the errors that nothing in the interpreter catches or converts -/
def FatalE : Err → Prop
  | .io _ | .other _ | .panic _ | .limit | .noPS => True
  | _ => False

section
variable {t : String}

theorem iof_fatal {e : Err} (h : IoF t e) : FatalE e := by
  cases h; trivial

/-- the two-byte look-ahead of `ScanToken` after a successful `Peek` -/
theorem tr_peekN2 (b : UInt8) :
    Tr (fun sc => Clean t sc ∧ ∃ rest, sc.peek = b :: rest) (peekN 2 3)
      (Post (fun bb sc' => (Clean t sc' ∧ (bb.length = 2 → 2 ≤ sc'.peek.length)) ∨
          (HitSt t sc' ∧ bb.length < 2 ∧ sc'.peek = [b])) (fun _ _ => False)) := by
  refine tr_pre (tr_exists (P := fun rest sc => Clean t sc ∧ sc.peek = b :: rest) (fun rest => ?_))
    (fun sc h => by obtain ⟨hc, r, hr⟩ := h; exact ⟨r, hc, hr⟩)
  refine tr_post (tr_peekN_clean 2 3 (b :: rest)) (fun bb sc h => ?_) (fun _ _ h => h)
  obtain ⟨hbb, ⟨ext, hext⟩, h2⟩ := h
  rcases h2 with h2 | h2
  · refine Or.inl ⟨h2, fun hl => ?_⟩
    rw [hbb, List.length_take] at hl
    omega
  · refine Or.inr ⟨h2.1, ?_, peek_single hext h2.2⟩
    rw [hbb, List.length_take]
    have := h2.2
    omega

theorem tr_scanTokenRest_clean : Tr (Clean t) scanTokenRest (Post (fun _ sc' => Clean t sc') (ECw t)) := by
  unfold scanTokenRest
  refine tr_bind tr_peek_clean (fun b => ?_) (fun e sc h => ec_w h)
  have skip2 : ∀ (o : Obj), Tr (fun sc => Clean t sc ∧ 2 ≤ sc.peek.length)
      (do skipByte; skipByte; pure (Tok.obj o)) (Post (fun _ sc' => Clean t sc') (ECw t)) := by
    intro o
    refine tr_bind (tr_skipByte_len 1) (fun _ => ?_) (fun e sc h => h.elim)
    refine tr_bind (tr_skipByte_len 0) (fun _ => ?_) (fun e sc h => h.elim)
    exact tr_pure (fun sc h => h.1)
  refine tr_ite ?_ ?_
  · refine tr_bind (tr_pre tr_readString_clean (fun sc h => h.1)) (fun _ => tr_pure (fun _ h => h)) (fun e sc h => ec_w h)
  refine tr_ite' (fun hb => ?_) (fun _ => ?_)
  · have hb' : b = 60 := by simpa using hb
    refine tr_bind (tr_peekN2 b) (fun bb => ?_) (fun e sc h => h.elim)
    refine tr_ite' (fun hbb => ?_) (fun _ => ?_)
    · have hbb' : bb = [60, 60] := by simpa using hbb
      refine tr_pre (skip2 _) (fun sc h => ?_)
      rcases h with h | h
      · exact ⟨h.1, h.2 (by rw [hbb']; rfl)⟩
      · have := h.2.1; rw [hbb'] at this; simp at this
    refine tr_ite' (fun hbb => ?_) (fun _ => ?_)
    · have hbb' : bb = [60, 126] := by simpa using hbb
      refine tr_bind (tr_pre tr_readBase85String_clean (fun sc h => ?_)) (fun _ => tr_pure (fun _ h => h)) (fun e sc h => ec_w h)
      rcases h with h | h
      · exact h.1
      · have := h.2.1; rw [hbb'] at this; simp at this
    · refine tr_bind (A := fun _ sc' => Clean t sc') (E := ECw t) ?_ (fun _ => tr_pure (fun _ h => h)) (fun e sc h => h)
      refine tr_or (tr_pre (tr_post tr_readHexString_clean (fun _ _ h => h) (fun _ _ h => ec_w h)) (fun sc h => h.1)) ?_
      refine tr_pre (tr_post tr_readHexString_hit1 (fun _ _ h => h.elim) (fun _ _ h => Or.inr h)) (fun sc h => ?_)
      exact ⟨h.1, by rw [h.2.2, hb']⟩
  refine tr_ite ?_ ?_
  · refine tr_bind (tr_peekN2 b) (fun bb => ?_) (fun e sc h => h.elim)
    refine tr_ite' (fun hbb => ?_) (fun _ => ?_)
    · have hbb' : bb = [62, 62] := by simpa using hbb
      refine tr_pre (skip2 _) (fun sc h => ?_)
      rcases h with h | h
      · exact ⟨h.1, h.2 (by rw [hbb']; rfl)⟩
      · have := h.2.1; rw [hbb'] at this; simp at this
    · refine tr_bind tr_getS (fun s => ?_) (fun e sc h => h.elim)
      split
      · rename_i e heq
        refine tr_fail (fun sc h => ?_)
        obtain ⟨rfl, h2⟩ := h
        rcases h2 with h2 | h2
        · exact Or.inl h2.1
        · rw [if_pos h2.2.1, h2.1.2.1] at heq
          cases heq
          exact Or.inr rfl
      · rename_i heq
        refine tr_fail (fun sc h => ?_)
        obtain ⟨rfl, h2⟩ := h
        rcases h2 with h2 | h2
        · exact Or.inl h2.1
        · rw [if_pos h2.2.1, h2.1.2.1] at heq
          cases heq
  refine tr_ite ?_ ?_
  · refine tr_bind (tr_skipByte_clean b) (fun _ => ?_) (fun e sc h => h.elim)
    refine tr_bind tr_getS' (fun s => ?_) (fun e sc h => h.elim)
    exact tr_bind (tr_readRegular_clean _ _) (fun _ => tr_pure (fun _ h => h)) (fun e sc h => ec_w h)
  · refine tr_bind (tr_skipByte_clean b) (fun _ => ?_) (fun e sc h => h.elim)
    refine tr_bind tr_getS' (fun s => ?_) (fun e sc h => h.elim)
    refine tr_bind (A := fun _ sc' => Clean t sc') (E := ECw t) ?_ (fun bytes => ?_) (fun e sc h => h)
    · exact tr_ite (tr_post (tr_readRegular_clean _ _) (fun _ _ h => h) (fun _ _ h => ec_w h)) (tr_pure (fun _ h => h))
    · split
      · exact tr_pure (fun _ h => h)
      · exact tr_pure (fun _ h => h)

/-- **`ScanToken` from a clean state**: unless a structured comment has been recorded, the
state is clean again, or the call fails with the read failure -/
theorem tr_scanToken_clean :
    Tr (Clean t) scanToken
      (Post (fun _ sc' => sc'.dsc ≠ [] ∨ Clean t sc') (fun e sc' => sc'.dsc ≠ [] ∨ ECw t e sc')) := by
  rw [scanToken_eq]
  refine tr_bind tr_getS (fun s => ?_) (fun e sc h => h.elim)
  refine tr_bind (A := fun _ sc' => I t False sc' ∧ (sc'.dsc ≠ [] ∨ (Clean t sc' ∧ sc'.peek ≠ [])))
    (E := fun e sc' => sc'.dsc ≠ [] ∨ ECw t e sc') ?_ (fun _ => ?_) (fun e sc h => h)
  · intro sc h
    obtain ⟨rfl, h⟩ := h
    have h1 := tr_skipWhiteSpace_clean (fuelOf s + 4) s ⟨h, by unfold fuelOf mu; omega⟩
    have h2 := fr_skipWhiteSpace (t := t) (b := False) (fuelOf s + 4) s ⟨⟨h.1, Or.inl h.2.1⟩, False.elim⟩
    generalize skipWhiteSpace (fuelOf s + 4) s = p at h1 h2
    obtain ⟨r, s1⟩ := p
    cases r with
    | error e => exact h1
    | ok r => exact ⟨h2.1, h1⟩
  · intro sc h
    rcases h.2 with hd | hc
    · have := fr_scanTokenRest (t := t) (b := True) sc ⟨h.1.1, fun _ => hd⟩
      generalize scanTokenRest sc = p at this
      obtain ⟨r, s1⟩ := p
      cases r with
      | error e => exact Or.inl (this.1.2 trivial)
      | ok r => exact Or.inl (this.1.2 trivial)
    · have := tr_scanTokenRest_clean sc hc.1
      generalize scanTokenRest sc = p at this
      obtain ⟨r, s1⟩ := p
      cases r with
      | error e => exact Or.inr this
      | ok r => exact Or.inr this

/-! #### `BeginEexec`: the four IV bytes are re-read in regurgitate mode -/

/-- no failure seen; `regurgitate = R` -/
def T0 (t : String) (R : Bool) (sc : Scanner) : Prop := sc.fault = some t ∧ sc.err = none ∧ sc.regurgitate = R
def T0E (t : String) (e : Err) (sc : Scanner) : Prop := FatalE e ∧ (sc.err = none ∨ IoF t e)

theorem tr_readByteRaw_t0 (R : Bool) : Tr (T0 t R) readByteRaw (Post (fun _ sc' => T0 t R sc') (T0E t)) := by
  intro sc ⟨hf, he, hr⟩
  unfold readByteRaw
  split
  · split
    · exact ⟨hf, he, hr⟩
    · exact ⟨trivial, Or.inl he⟩
  · split
    · rename_i e h1
      rw [he] at h1; cases h1
    · split
      · exact ⟨hf, he, hr⟩
      · dsimp only
        split
        · rename_i h0; rw [hf] at h0; cases h0
        · rename_i t' h0
          rw [hf] at h0; cases h0
          exact ⟨trivial, Or.inr rfl⟩

theorem tr_readHexPair_t0 (R : Bool) : ∀ fuel i out,
    Tr (T0 t R) (readHexPair fuel i out) (Post (fun _ sc' => T0 t R sc') (T0E t)) := by
  intro fuel
  induction fuel with
  | zero => intro i out; unfold readHexPair; exact tr_fail (fun sc h => ⟨trivial, Or.inl h.2.1⟩)
  | succ n ih =>
    intro i out
    unfold readHexPair
    refine tr_ite (tr_pure (fun sc h => h)) ?_
    refine tr_bind (tr_readByteRaw_t0 R) (fun a => ?_) (fun e sc h => h)
    refine tr_ite (ih _ _) ?_
    split
    · exact ih _ _
    · exact tr_fail (fun sc h => ⟨trivial, Or.inl h.2.1⟩)

theorem tr_readByte_t0 (R : Bool) : Tr (T0 t R) readByte (Post (fun _ sc' => T0 t R sc') (T0E t)) := by
  unfold readByte
  refine tr_bind tr_getS' (fun s => ?_) (fun e sc h => h.elim)
  refine tr_ite (tr_readByteRaw_t0 R) ?_
  refine tr_bind (A := fun _ sc' => T0 t R sc') (E := T0E t) ?_ (fun a => ?_) (fun e sc h => h)
  · unfold readByteEexec
    refine tr_bind tr_getS' (fun s => ?_) (fun e sc h => h.elim)
    exact tr_ite (tr_readByteRaw_t0 R) (tr_readHexPair_t0 R _ _ _)
  · refine tr_bind tr_getS' (fun s => ?_) (fun e sc h => h.elim)
    generalize Cipher.decStep s.r a = pr
    obtain ⟨p, r'⟩ := pr
    dsimp only
    refine tr_bind (tr_modS' (P' := T0 t R) (fun sc h => h)) (fun _ => ?_) (fun e sc h => h.elim)
    exact tr_pure (fun sc h => h)

theorem tr_next_t0 (R : Bool) : Tr (T0 t R) next (Post (fun _ sc' => T0 t R sc') (T0E t)) := by
  rw [next_unfold]
  refine tr_bind tr_getS' (fun s => ?_) (fun e sc h => h.elim)
  refine tr_bind (A := fun _ sc' => T0 t R sc') (E := T0E t) ?_ (fun a => ?_) (fun e sc h => h)
  · refine tr_ite ?_ (tr_readByte_t0 R)
    split
    · refine tr_bind (tr_modS' (P' := T0 t R) (fun sc h => h)) (fun _ => ?_) (fun e sc h => h.elim)
      exact tr_pure (fun sc h => h)
    · exact tr_fail (fun sc h => ⟨trivial, Or.inl h.2.1⟩)
  · refine tr_bind (tr_modS' (P' := T0 t R) ?_) (fun _ => tr_pure (fun sc h => h)) (fun e sc h => h.elim)
    intro sc h
    obtain ⟨h1, h2, _, h4, _⟩ := (lineCol_sim a sc).1
    exact ⟨h1.trans h.1, h2.trans h.2.1, h4.trans h.2.2⟩

theorem tr_skipIV_t0 (R : Bool) : ∀ n, Tr (T0 t R) (skipIV n) (Post (fun _ sc' => T0 t R sc') (T0E t)) := by
  intro n
  induction n with
  | zero => unfold skipIV; exact tr_pure (fun sc h => h)
  | succ k ih => unfold skipIV; exact tr_bind (tr_next_t0 R) (fun _ => ih) (fun e sc h => h)

/-- **`BeginEexec` from a clean state** -/
theorem tr_beginEexec_clean :
    Tr (Clean t) beginEexec
      (Post (fun _ sc' => Clean t sc')
        (fun e sc' => Clean t sc' ∨ IoF t e ∨ (FatalE e ∧ sc'.err = none))) := by
  unfold beginEexec
  refine tr_bind tr_getS' (fun s => ?_) (fun e sc h => h.elim)
  dsimp only
  refine tr_ite (tr_fail_bind (fun sc h => Or.inl h)) ?_
  refine tr_bind (tr_skipEexecSpace_clean _) (fun _ => ?_) (fun e sc h => ?_)
  · refine tr_bind (A := fun bb sc' => Clean t sc' ∨ (HitSt t sc' ∧ bb.length < 4)) (E := fun _ _ => False) ?_
      (fun bb => ?_) (fun e sc h => h.elim)
    · intro sc h
      have := tr_peekN_clean (t := t) 4 5 sc.peek sc ⟨h, rfl⟩
      generalize peekN 4 5 sc = p at this
      obtain ⟨r, s1⟩ := p
      cases r with
      | error e => exact this
      | ok bb =>
        obtain ⟨hbb, _, h2⟩ := this
        rcases h2 with h2 | h2
        · exact Or.inl h2
        · refine Or.inr ⟨h2.1, ?_⟩
          rw [hbb, List.length_take]
          have := h2.2
          omega
    · refine tr_ite' (fun hlen => ?_) (fun hlen => ?_)
      · refine tr_bind tr_getS (fun s2 => ?_) (fun e sc h => h.elim)
        split
        · rename_i e heq
          refine tr_fail_bind (fun sc h => ?_)
          obtain ⟨rfl, h2⟩ := h
          rcases h2 with h2 | h2
          · exact Or.inl h2
          · rw [h2.1.2.1] at heq
            cases heq
            exact Or.inr (Or.inl rfl)
        · refine tr_fail_bind (fun sc h => ?_)
          rename_i heq
          obtain ⟨rfl, h2⟩ := h
          rcases h2 with h2 | h2
          · exact Or.inl h2
          · rw [h2.1.2.1] at heq
            cases heq
      · refine tr_bind (tr_modS' (P' := T0 t true) ?_) (fun _ => ?_) (fun e sc h => h.elim)
        · intro sc h
          rcases h with h | h
          · exact ⟨h.1, h.2.1, rfl⟩
          · exact (hlen h.2).elim
        · refine tr_bind (tr_skipIV_t0 true 4) (fun _ => ?_) (fun e sc h => ?_)
          · exact tr_modS' (P' := Clean t) (fun sc h => ⟨h.1, h.2.1, rfl⟩)
          · rcases h.2 with h2 | h2
            · exact Or.inr (Or.inr ⟨h.1, h2⟩)
            · exact Or.inr (Or.inl h2)
  · rcases h with h | h
    · exact Or.inl h
    · exact Or.inr (Or.inl h.1)

end
end PsVerif.Proofs.IoErr

namespace PsVerif.Proofs.IoErr
open PsVerif.Model PsVerif.Model.Scan

/-! ### the scanner calls of the interpreter -/

/-- precondition of every scanner call of the interpreter: no failure seen yet, or a
structured comment has been recorded (then nothing more is claimed) -/
def Pre (t : String) (sc : Scanner) : Prop :=
  Inv0 t sc ∧ (sc.dsc ≠ [] ∨ (sc.err = none ∧ sc.regurgitate = false))

/-- the failure has been hit and no structured comment has been recorded -/
def Bad (sc : Scanner) : Prop := sc.err ≠ none ∧ sc.dsc = []

/-- what a failing scanner call guarantees -/
def TopE (t : String) (e : Err) (sc : Scanner) : Prop := (Bad sc → IoF t e) ∧ (¬ FatalE e → Pre t sc)

section
variable {t : String}

theorem pre_not_bad {sc : Scanner} (h : Pre t sc) : ¬ Bad sc := by
  intro hb
  rcases h.2 with h2 | h2
  · exact h2 hb.2
  · exact hb.1 h2.1

theorem pre_of_clean {sc : Scanner} (hi : Inv0 t sc) (h : Clean t sc) : Pre t sc := ⟨hi, Or.inr ⟨h.2.1, h.2.2⟩⟩
theorem pre_of_dsc {sc : Scanner} (hi : Inv0 t sc) (h : sc.dsc ≠ []) : Pre t sc := ⟨hi, Or.inl h⟩

theorem topE_of {e : Err} {sc : Scanner} (hi : Inv0 t sc) (h : sc.dsc ≠ [] ∨ Clean t sc ∨ IoF t e) : TopE t e sc := by
  rcases h with h | h | h
  · exact ⟨fun hb => (h hb.2).elim, fun _ => pre_of_dsc hi h⟩
  · exact ⟨fun hb => (hb.1 h.2.1).elim, fun _ => pre_of_clean hi h⟩
  · exact ⟨fun _ => h, fun hf => (hf (iof_fatal h)).elim⟩

/-- combine the frame facts (pass 1) with the facts from a clean state (pass 2) -/
theorem top_lift {α : Type} {m : SM α} {Q : α → Prop} {A : α → Scanner → Prop} {E : Err → Scanner → Prop}
    (hfr : ∀ b, Fr t b Q m) (htr : Tr (Clean t) m (Post A E)) :
    Tr (Pre t) m (Post (fun a sc' => Inv0 t sc' ∧ Q a ∧ (sc'.dsc ≠ [] ∨ A a sc'))
      (fun e sc' => Inv0 t sc' ∧ e ≠ .eof ∧ (sc'.dsc ≠ [] ∨ E e sc'))) := by
  intro sc ⟨hi, h⟩
  rcases h with hd | hc
  · have := hfr True sc ⟨hi, fun _ => hd⟩
    generalize m sc = p at this
    obtain ⟨r, s1⟩ := p
    cases r with
    | ok a => exact ⟨this.1.1, this.2, Or.inl (this.1.2 trivial)⟩
    | error e => exact ⟨this.1.1, this.2, Or.inl (this.1.2 trivial)⟩
  · have h1 := htr sc ⟨hi.1, hc.1, hc.2⟩
    have h2 := hfr False sc ⟨hi, False.elim⟩
    generalize m sc = p at h1 h2
    obtain ⟨r, s1⟩ := p
    cases r with
    | ok a => exact ⟨h2.1.1, h2.2, Or.inr h1⟩
    | error e => exact ⟨h2.1.1, h2.2, Or.inr h1⟩

theorem top_scanToken :
    Tr (Pre t) scanToken (Post (fun _ sc' => Pre t sc') (fun e sc' => Inv0 t sc' ∧ e ≠ .eof ∧ TopE t e sc')) := by
  refine tr_post (top_lift (fun _ => fr_scanToken) tr_scanToken_clean) (fun _ sc h => ?_) (fun e sc h => ?_)
  · rcases h.2.2 with h2 | h2 | h2
    · exact pre_of_dsc h.1 h2
    · exact pre_of_dsc h.1 h2
    · exact pre_of_clean h.1 h2
  · refine ⟨h.1, h.2.1, topE_of h.1 ?_⟩
    rcases h.2.2 with h2 | h2 | h2
    · exact Or.inl h2
    · exact Or.inl h2
    · exact Or.inr h2

theorem top_next :
    Tr (Pre t) next (Post (fun _ sc' => Pre t sc') (fun e sc' => Inv0 t sc' ∧ e ≠ .eof ∧ TopE t e sc')) := by
  refine tr_post (top_lift (fun _ => fr_next) tr_next_clean) (fun _ sc h => ?_) (fun e sc h => ?_)
  · rcases h.2.2 with h2 | h2
    · exact pre_of_dsc h.1 h2
    · exact pre_of_clean h.1 h2
  · refine ⟨h.1, h.2.1, topE_of h.1 ?_⟩
    rcases h.2.2 with h2 | h2 | h2
    · exact Or.inl h2
    · exact Or.inr (Or.inl h2)
    · exact Or.inr (Or.inr h2.1)

theorem tr_readN_noerr : ∀ n acc,
    Tr (fun _ => True) (readN n acc) (Post (fun _ _ => True) (fun _ _ => False)) := by
  intro n
  induction n with
  | zero => intro acc; unfold readN; exact tr_pure (fun _ _ => trivial)
  | succ k ih =>
    intro acc
    unfold readN
    refine tr_bind (A := fun _ _ => True) (E := fun _ _ => False)
      (tr_attempt (Q := fun _ _ => True) (fun _ _ => trivial)) (fun r => ?_) (fun e sc h => h.elim)
    cases r with
    | error e => exact tr_pure (fun _ _ => trivial)
    | ok b => exact ih _

theorem top_readN (n : Nat) (acc : List UInt8) :
    Tr (Pre t) (readN n acc)
      (Post (fun r sc' => Inv0 t sc' ∧ (r.2 = none → Pre t sc') ∧ ∀ e, r.2 = some e → e ≠ .eof ∧ TopE t e sc')
        (fun _ _ => False)) := by
  intro sc hp
  have h0 := tr_readN_noerr n acc sc trivial
  have h := top_lift (fun _ => fr_readN n acc) (tr_readN_clean n acc) sc hp
  generalize readN n acc sc = p at h0 h
  obtain ⟨r, s1⟩ := p
  cases r with
  | error e => exact h0.elim
  | ok r =>
    refine ⟨h.1, fun hn => ?_, fun e he => ⟨h.2.1 e he, topE_of h.1 ?_⟩⟩
    · rcases h.2.2 with h2 | h2
      · exact pre_of_dsc h.1 h2
      · exact pre_of_clean h.1 (h2.1 hn)
    · rcases h.2.2 with h2 | h2
      · exact Or.inl h2
      · rcases h2.2 e he with h3 | h3
        · exact Or.inr (Or.inl h3)
        · exact Or.inr (Or.inr h3.1)

theorem top_beginEexec :
    Tr (Pre t) beginEexec (Post (fun _ sc' => Pre t sc') (fun e sc' => Inv0 t sc' ∧ e ≠ .eof ∧ TopE t e sc')) := by
  refine tr_post (top_lift (fun _ => fr_beginEexec) tr_beginEexec_clean) (fun _ sc h => ?_) (fun e sc h => ?_)
  · rcases h.2.2 with h2 | h2
    · exact pre_of_dsc h.1 h2
    · exact pre_of_clean h.1 h2
  · refine ⟨h.1, h.2.1, ?_⟩
    rcases h.2.2 with h2 | h2 | h2 | h2
    · exact topE_of h.1 (Or.inl h2)
    · exact topE_of h.1 (Or.inr (Or.inl h2))
    · exact topE_of h.1 (Or.inr (Or.inr h2))
    · exact ⟨fun hb => (hb.1 h2.2).elim, fun hf => (hf h2.1).elim⟩

theorem top_endEexec : Tr (Pre t) endEexec (Post (fun _ sc' => Pre t sc') (fun _ _ => False)) := by
  unfold endEexec
  exact tr_modS' (fun sc h => h)

theorem tr_peekN_noerr (n : Nat) : ∀ fuel,
    Tr (fun _ => True) (peekN n fuel) (Post (fun _ _ => True) (fun _ _ => False)) := by
  intro fuel
  induction fuel with
  | zero =>
    unfold peekN
    exact tr_bind (A := fun _ _ => True) (E := fun _ _ => False) (fun _ _ => trivial)
      (fun _ => tr_pure (fun _ _ => trivial)) (fun e sc h => h.elim)
  | succ k ih =>
    unfold peekN
    refine tr_bind (A := fun _ _ => True) (E := fun _ _ => False) (fun _ _ => trivial) (fun s => ?_) (fun e sc h => h.elim)
    refine tr_ite (tr_pure (fun _ _ => trivial)) ?_
    refine tr_bind (A := fun _ _ => True) (E := fun _ _ => False)
      (tr_attempt (Q := fun _ _ => True) (fun _ _ => trivial)) (fun r => ?_) (fun e sc h => h.elim)
    cases r with
    | error e =>
      exact tr_bind (A := fun _ _ => True) (E := fun _ _ => False) (fun _ _ => trivial)
        (fun _ => tr_pure (fun _ _ => trivial)) (fun e sc h => h.elim)
    | ok b =>
      exact tr_bind (A := fun _ _ => True) (E := fun _ _ => False) (fun _ _ => trivial)
        (fun _ => ih) (fun e sc h => h.elim)

/-- the `%!` check of `executeScanner` -/
theorem top_peekN2 :
    Tr (Pre t) (peekN 2 3)
      (Post (fun head sc' => Inv0 t sc' ∧ (Pre t sc' ∨ (head.length < 2 ∧ sc'.err = some (.io t))))
        (fun _ _ => False)) := by
  intro sc hp
  have h0 := tr_peekN_noerr 2 3 sc trivial
  have hfr : ∀ b, Fr t b (fun _ => True) (peekN 2 3) := fun _ => fr_peekN 2 3
  have htr : Tr (Clean t) (peekN 2 3) (Post (fun head sc' => Clean t sc' ∨ (head.length < 2 ∧ sc'.err = some (.io t)))
      (fun _ _ => False)) := by
    intro sc h
    have := tr_peekN_clean (t := t) 2 3 sc.peek sc ⟨h, rfl⟩
    generalize peekN 2 3 sc = p at this
    obtain ⟨r, s1⟩ := p
    cases r with
    | error e => exact this
    | ok bb =>
      obtain ⟨hbb, _, h2⟩ := this
      rcases h2 with h2 | h2
      · exact Or.inl h2
      · refine Or.inr ⟨?_, h2.1.2.1⟩
        rw [hbb, List.length_take]
        have := h2.2
        omega
  have h := top_lift hfr htr sc hp
  generalize peekN 2 3 sc = p at h0 h
  obtain ⟨r, s1⟩ := p
  cases r with
  | error e => exact h0.elim
  | ok head =>
    refine ⟨h.1, ?_⟩
    rcases h.2.2 with h2 | h2 | h2
    · exact Or.inl (pre_of_dsc h.1 h2)
    · exact Or.inl (pre_of_clean h.1 h2)
    · exact Or.inr h2

/-- pass 1 alone: the invariant survives every scanner call -/
theorem inv0_of_fr {α : Type} {Q : α → Prop} {m : SM α} (h : Fr t False Q m) (sc : Scanner) (hi : Inv0 t sc) :
    Inv0 t (m sc).2 := by
  have := h sc ⟨hi, False.elim⟩
  generalize m sc = p at this
  obtain ⟨r, s1⟩ := p
  cases r with
  | ok a => exact this.1.1
  | error e => exact this.1.1

theorem noeof_of_fr {α : Type} {Q : α → Prop} {m : SM α} (h : Fr t False Q m) (sc : Scanner) (hi : Inv0 t sc) :
    (m sc).1 ≠ .error .eof := by
  have := h sc ⟨hi, False.elim⟩
  generalize m sc = p at this
  obtain ⟨r, s1⟩ := p
  cases r with
  | ok a => simp
  | error e =>
    intro he
    cases he
    exact this.2 rfl

end
end PsVerif.Proofs.IoErr

namespace PsVerif.Proofs.IoErr
open PsVerif.Model PsVerif.Model.Scan

/-! ### the interpreter -/

/-- results that every function of the interpreter passes on unchanged -/
def FatalRes : Res → Prop
  | .fuel => True
  | .err e => FatalE e
  | .ok => False

/-- the read failure, as reported by the scanner -/
def IoRes (t : String) (r : Res) : Prop := ∃ e, r = .err e ∧ IoF t e

/-- what a scanner-level step guarantees (start scanner `sc`, end scanner `sc'`, result `r`) -/
def RS (t : String) (sc sc' : Scanner) (r : Res) : Prop :=
  (Inv0 t sc → Inv0 t sc') ∧
  (Pre t sc → (Bad sc' → IoRes t r) ∧ (¬ FatalRes r → Pre t sc'))

section
variable {t : String}

theorem rs_same (sc : Scanner) (r : Res) : RS t sc sc r :=
  ⟨fun h => h, fun h => ⟨fun hb => (pre_not_bad h hb).elim, fun _ => h⟩⟩

/-- a failing scanner call -/
theorem rs_err {sc sc' : Scanner} {e : Err} (hi : Inv0 t sc → Inv0 t sc') (h : Pre t sc → TopE t e sc') :
    RS t sc sc' (.err e) := by
  refine ⟨hi, fun hp => ⟨fun hb => ⟨e, rfl, (h hp).1 hb⟩, fun hf => (h hp).2 hf⟩⟩

theorem rs_readstringCore (vm : VM) (sc : Scanner) (d : Nat) :
    RS t sc (readstringCore vm sc d).2.1 (readstringCore vm sc d).2.2 := by
  unfold readstringCore
  split
  · split
    · dsimp only
      split
      · exact rs_same sc _
      · have f1 := inv0_of_fr (t := t) fr_next sc
        have f2 := top_next (t := t) sc
        generalize Scan.next sc = p1 at f1 f2
        obtain ⟨r1, sc2⟩ := p1
        dsimp only at f1 f2 ⊢
        split
        · rename_i e heq
          split at heq
          · cases heq
          · cases heq
            exact rs_err f1 (fun hp => (f2 hp).2.2)
          · cases heq
        · rename_i heq
          -- the first byte was read, or the input ended cleanly (impossible here)
          have hpre2 : Pre t sc → Pre t sc2 := by
            intro hp
            split at heq
            · exact ((f2 hp).2.1 rfl).elim
            · cases heq
            · exact f2 hp
          rename_i l _ _ _
          have g1 := inv0_of_fr (t := t) (fr_readN l []) sc2
          have g2 := top_readN (t := t) l [] sc2
          generalize readN l [] sc2 = p2 at g1 g2
          obtain ⟨r2, sc3⟩ := p2
          dsimp only at g1 g2 ⊢
          cases r2 with
          | error e =>
            dsimp only
            exact ⟨fun h => g1 (f1 h), fun hp => (g2 (hpre2 hp)).elim⟩
          | ok pr =>
            obtain ⟨bytes, eo⟩ := pr
            dsimp only
            split
            · rename_i e heq2
              split at heq2
              · cases heq2
              · cases heq2
                exact rs_err (fun h => g1 (f1 h)) (fun hp => ((g2 (hpre2 hp)).2.2 e rfl).2)
              · cases heq2
            · rename_i heq2
              refine ⟨fun h => g1 (f1 h), fun hp => ?_⟩
              have hp3 : Pre t sc3 := by
                split at heq2
                · exact (((g2 (hpre2 hp)).2.2 .eof rfl).1 rfl).elim
                · cases heq2
                · exact (g2 (hpre2 hp)).2.1 rfl
              exact ⟨fun hb => (pre_not_bad hp3 hb).elim, fun _ => hp3⟩
    · exact rs_same sc _
  · exact rs_same sc _

end
end PsVerif.Proofs.IoErr

namespace PsVerif.Proofs.IoErr
open PsVerif.Model PsVerif.Model.Scan

/-- postcondition of every function of the mutual block, relative to the start state -/
def Good (t : String) (s : State) (p : State × Res) : Prop := RS t s.scanner p.1.scanner p.2

section
variable {t : String}

theorem good_of_same {s s' : State} (r : Res) (h : s'.scanner = s.scanner) : Good t s (s', r) := by
  unfold Good
  dsimp only
  rw [h]
  exact rs_same _ _

theorem good_start {s0 s : State} {p : State × Res} (h : s.scanner = s0.scanner) (g : Good t s p) : Good t s0 p := by
  unfold Good at *
  rw [← h]
  exact g

theorem good_end {s s1 s2 : State} {r : Res} (g : Good t s (s1, r)) (h : s2.scanner = s1.scanner) :
    Good t s (s2, r) := by
  unfold Good at *
  dsimp only at *
  rw [h]
  exact g

theorem good_seq {s s1 : State} {r1 : Res} {p : State × Res} (g1 : Good t s (s1, r1)) (hr : ¬ FatalRes r1)
    (g2 : Good t s1 p) : Good t s p :=
  ⟨fun h => g2.1 (g1.1 h), fun hp => g2.2 ((g1.2 hp).2 hr)⟩

theorem good_change_res {s s1 s2 : State} {r : Res} (r' : Res) (g : Good t s (s1, r)) (hr : ¬ FatalRes r)
    (h : s2.scanner = s1.scanner) : Good t s (s2, r') := by
  refine ⟨fun hi => ?_, fun hp => ?_⟩
  · show Inv0 t s2.scanner
    rw [h]; exact g.1 hi
  · have hp1 : Pre t s1.scanner := (g.2 hp).2 hr
    show (Bad s2.scanner → IoRes t r') ∧ (¬ FatalRes r' → Pre t s2.scanner)
    rw [h]
    exact ⟨fun hb => (pre_not_bad hp1 hb).elim, fun _ => hp1⟩

theorem good_fuel (s : State) : Good t s (s, .fuel) := good_of_same _ rfl

theorem enterLevel_scanner (c : Bool) (s : State) : (enterLevel c s).scanner = s.scanner := by
  unfold enterLevel; split <;> rfl

theorem good_leave {s : State} {p : State × Res} (c : Bool) (g : Good t s p) : Good t s (leaveLevel c p) := by
  unfold leaveLevel
  split
  · exact g
  · obtain ⟨s1, r⟩ := p
    exact good_end g rfl

theorem objOfTok_scanner (s : State) (tok : Tok) : (objOfTok s tok).1.scanner = s.scanner := by
  cases tok <;> rfl

theorem defaultErrorHandler_scanner (s : State) : (defaultErrorHandler s).1.scanner = s.scanner := by
  unfold defaultErrorHandler; split <;> rfl

theorem good_readstring (s : State) : Good t s (bReadstring s) := by
  unfold bReadstring Good
  exact rs_readstringCore s.vm s.scanner s.scannerDepth

theorem good_defaultErrorHandler (s : State) : Good t s (defaultErrorHandler s) := by
  have h := defaultErrorHandler_scanner s
  generalize defaultErrorHandler s = p at h
  obtain ⟨s1, r⟩ := p
  exact good_of_same _ h

/-- the statement proved for all functions of the mutual block at once; the two scanning
functions moreover never end normally (the input never ends cleanly) -/
def AllGood (t : String) (m fuel : Nat) : Prop :=
  (∀ s o b, Good t s (execOne fuel m s o b)) ∧
  (∀ s o b, Good t s (execBody fuel m s o b)) ∧
  (∀ s o b c, Good t s (execTail fuel m s o b c)) ∧
  (∀ s r o i n, Good t s (runBody fuel m s r o i n)) ∧
  (∀ s id, Good t s (callBuiltin fuel m s id)) ∧
  (∀ s v i l p, Good t s (forLoop fuel m s v i l p)) ∧
  (∀ s n p, Good t s (repeatLoop fuel m s n p)) ∧
  (∀ s p, Good t s (loopLoop fuel m s p)) ∧
  (∀ s r o i n p, Good t s (forallArr fuel m s r o i n p)) ∧
  (∀ s r o i n p, Good t s (forallStr fuel m s r o i n p)) ∧
  (∀ s d ks p, Good t s (forallDict fuel m s d ks p)) ∧
  (∀ s, Good t s (scanRun fuel m s) ∧ (Inv0 t s.scanner → (scanRun fuel m s).2 ≠ .ok)) ∧
  (∀ s, Good t s (scanLoop fuel m s) ∧ (Inv0 t s.scanner → (scanLoop fuel m s).2 ≠ .ok))

theorem allGood_zero (m : Nat) : AllGood t m 0 := by
  refine ⟨?_, ?_, ?_, ?_, ?_, ?_, ?_, ?_, ?_, ?_, ?_, ?_, ?_⟩ <;> intros
  · simp only [execOne]; exact good_fuel _
  · simp only [execBody]; exact good_fuel _
  · simp only [execTail]; exact good_fuel _
  · simp only [runBody]; exact good_fuel _
  · simp only [callBuiltin]; exact good_fuel _
  · simp only [forLoop]; exact good_fuel _
  · simp only [repeatLoop]; exact good_fuel _
  · simp only [loopLoop]; exact good_fuel _
  · simp only [forallArr]; exact good_fuel _
  · simp only [forallStr]; exact good_fuel _
  · simp only [forallDict]; exact good_fuel _
  · simp only [scanRun]; exact ⟨good_fuel _, fun _ => by simp⟩
  · simp only [scanLoop]; exact ⟨good_fuel _, fun _ => by simp⟩

theorem step_execOne {m n : Nat} (ih : AllGood t m n) (s : State) (o : Obj) (b : Bool) :
    Good t s (execOne (n + 1) m s o b) := by
  simp only [execOne]
  split
  · split
    · exact good_of_same _ rfl
    · have g := ih.2.1 { s with execDepth := s.execDepth + 1, hiDepth := max s.hiDepth (s.execDepth + 1) } o true
      generalize execBody n m { s with execDepth := s.execDepth + 1, hiDepth := max s.hiDepth (s.execDepth + 1) } o true = p at g
      obtain ⟨s', r⟩ := p
      exact good_end (good_start (s := { s with execDepth := s.execDepth + 1, hiDepth := max s.hiDepth (s.execDepth + 1) }) rfl g) rfl
  · exact ih.2.1 s o false

theorem step_execBody {m n : Nat} (ih : AllGood t m n) (s : State) (o : Obj) (b : Bool) :
    Good t s (execBody (n + 1) m s o b) := by
  simp only [execBody]
  split
  · exact good_of_same _ rfl
  · split
    · split
      · exact good_of_same _ rfl
      · split
        · exact good_of_same _ rfl
        · exact good_of_same _ rfl
    · split
      · exact good_of_same _ rfl
      · split
        · exact good_of_same _ rfl
        · exact ih.2.2.1 s o b b

theorem good_proc_case {m n : Nat} (ih : AllGood t m n) (s' : State) (ref off len : Nat) (b c : Bool) :
    Good t s'
      (if b = true then
        if (len == 0) = true then okS s'
        else
          if (!c && decide (s'.execDepth ≥ execDepthLimit)) = true then psErrS s' "execstackoverflow"
          else
            leaveLevel c
              (match runBody n m (enterLevel c s') ref off 0 (len - 1) with
               | (s1, r) =>
                 (match r with
                  | .ok =>
                    match (s1.vm.getObjs ref)[off + (len - 1)]? with
                    | some last => execTail n m s1 last false true
                    | none => (s1, .err (.panic "procedure view outside its store"))
                  | _ => (s1, r) : State × Res))
      else okS (pushS s' (Obj.proc ref off len))) := by
  split
  · split
    · exact good_of_same _ rfl
    · split
      · exact good_of_same _ rfl
      · apply good_leave
        apply good_start (enterLevel_scanner c s')
        have g1 := ih.2.2.2.1 (enterLevel c s') ref off 0 (len - 1)
        generalize runBody n m (enterLevel c s') ref off 0 (len - 1) = p1 at g1
        obtain ⟨s1, r⟩ := p1
        simp only
        split
        · split
          · exact good_seq g1 (fun h => h) (ih.2.2.1 s1 _ false true)
          · exact good_seq g1 (fun h => h) (good_of_same _ rfl)
        · exact g1
  · exact good_of_same _ rfl

theorem step_execTail {m n : Nat} (ih : AllGood t m n) (s : State) (o : Obj) (b c : Bool) :
    Good t s (execTail (n + 1) m s o b c) := by
  unfold execTail
  dsimp only
  split
  · exact good_of_same _ rfl
  · refine good_start (s := { s with numOps := s.numOps + 1 }) rfl ?_
    split
    · generalize ({ s with numOps := s.numOps + 1 } : State) = s'
      split
      · exact good_of_same _ rfl
      · exact ih.2.2.1 s' _ true c
    · rename_i id
      generalize ({ s with numOps := s.numOps + 1 } : State) = s'
      have g1 := ih.2.2.2.2.1 s' id
      generalize callBuiltin n m s' id = p1 at g1
      obtain ⟨s1, r⟩ := p1
      simp only
      split
      · rename_i name
        split
        · apply good_seq g1 (fun h => h)
          split
          · rename_i handler _
            have g3 := ih.1 { s1 with errors := name :: s1.errors, hiErrors := max s1.hiErrors (s1.errors.length + 1) } handler true
            generalize execOne n m { s1 with errors := name :: s1.errors, hiErrors := max s1.hiErrors (s1.errors.length + 1) } handler true = p3 at g3
            obtain ⟨s3, r3⟩ := p3
            exact good_end (good_start (s := { s1 with errors := name :: s1.errors, hiErrors := max s1.hiErrors (s1.errors.length + 1) }) rfl g3) rfl
          · exact good_of_same _ rfl
        · exact g1
      · exact g1
    · rename_i ref off len
      exact good_proc_case ih _ ref off len b c
    · exact good_of_same _ rfl

theorem step_runBody {m n : Nat} (ih : AllGood t m n) (s : State) (r o i k : Nat) :
    Good t s (runBody (n + 1) m s r o i k) := by
  cases k with
  | zero => simp only [runBody]; exact good_of_same _ rfl
  | succ k =>
    simp only [runBody]
    split
    · exact good_of_same _ rfl
    · rename_i tok _
      have g1 := ih.1 s tok false
      generalize execOne n m s tok false = p1 at g1
      obtain ⟨s1, r1⟩ := p1
      simp only
      split
      · exact good_seq g1 (fun h => h) (ih.2.2.2.1 s1 r o (i + 1) k)
      · exact g1

/-- the common shape of the looping operators -/
def loopResult (r1 : Res) (s1 : State) (next : State × Res) : State × Res :=
  match r1 with
  | .err .exit => okS s1
  | .ok => next
  | _ => (s1, r1)

theorem good_loop {s s0 s1 : State} {r1 : Res} {next : State × Res}
    (hs : s0.scanner = s.scanner) (g1 : Good t s0 (s1, r1)) (gn : Good t s1 next) :
    Good t s (loopResult r1 s1 next) := by
  unfold loopResult
  cases r1 with
  | ok => exact good_start hs (good_seq g1 (fun h => h) gn)
  | fuel => exact good_start hs g1
  | err e =>
    cases e with
    | exit => exact good_start hs (good_change_res _ g1 (fun h => h) rfl)
    | _ => exact good_start hs g1

theorem step_forLoop {m n : Nat} (ih : AllGood t m n) (s : State) (v i l : Int) (p : Obj) :
    Good t s (forLoop (n + 1) m s v i l p) := by
  simp only [forLoop]
  split
  · exact good_of_same _ rfl
  · have g1 := ih.1 (pushS s (.int v)) p true
    generalize execOne n m (pushS s (.int v)) p true = p1 at g1
    obtain ⟨s1, r1⟩ := p1
    dsimp only
    refine good_loop (s0 := pushS s (.int v)) rfl g1 ?_
    split
    · exact good_of_same _ rfl
    · exact ih.2.2.2.2.2.1 s1 _ i l p

theorem step_repeatLoop {m n : Nat} (ih : AllGood t m n) (s : State) (k : Nat) (p : Obj) :
    Good t s (repeatLoop (n + 1) m s k p) := by
  cases k with
  | zero => simp only [repeatLoop]; exact good_of_same _ rfl
  | succ k =>
    simp only [repeatLoop]
    have g1 := ih.1 s p true
    generalize execOne n m s p true = p1 at g1
    obtain ⟨s1, r1⟩ := p1
    dsimp only
    exact good_loop (s0 := s) rfl g1 (ih.2.2.2.2.2.2.1 s1 k p)

theorem step_loopLoop {m n : Nat} (ih : AllGood t m n) (s : State) (p : Obj) :
    Good t s (loopLoop (n + 1) m s p) := by
  simp only [loopLoop]
  have g1 := ih.1 s p true
  generalize execOne n m s p true = p1 at g1
  obtain ⟨s1, r1⟩ := p1
  dsimp only
  exact good_loop (s0 := s) rfl g1 (ih.2.2.2.2.2.2.2.1 s1 p)

theorem step_forallArr {m n : Nat} (ih : AllGood t m n) (s : State) (r o i k : Nat) (p : Obj) :
    Good t s (forallArr (n + 1) m s r o i k p) := by
  cases k with
  | zero => simp only [forallArr]; exact good_of_same _ rfl
  | succ k =>
    simp only [forallArr]
    split
    · exact good_of_same _ rfl
    · rename_i v _
      have g1 := ih.1 (pushS s v) p true
      generalize execOne n m (pushS s v) p true = p1 at g1
      obtain ⟨s1, r1⟩ := p1
      dsimp only
      exact good_loop (s0 := pushS s v) rfl g1 (ih.2.2.2.2.2.2.2.2.1 s1 r o (i + 1) k p)

theorem step_forallStr {m n : Nat} (ih : AllGood t m n) (s : State) (r o i k : Nat) (p : Obj) :
    Good t s (forallStr (n + 1) m s r o i k p) := by
  cases k with
  | zero => simp only [forallStr]; exact good_of_same _ rfl
  | succ k =>
    simp only [forallStr]
    split
    · exact good_of_same _ rfl
    · rename_i c _
      have g1 := ih.1 (pushS s (.int c.toNat)) p true
      generalize execOne n m (pushS s (.int c.toNat)) p true = p1 at g1
      obtain ⟨s1, r1⟩ := p1
      dsimp only
      exact good_loop (s0 := pushS s (.int c.toNat)) rfl g1 (ih.2.2.2.2.2.2.2.2.2.1 s1 r o (i + 1) k p)

theorem step_forallDict {m n : Nat} (ih : AllGood t m n) (s : State) (d : Nat) (ks : List Name) (p : Obj) :
    Good t s (forallDict (n + 1) m s d ks p) := by
  cases ks with
  | nil => simp only [forallDict]; exact good_of_same _ rfl
  | cons k ks =>
    simp only [forallDict]
    split
    · exact ih.2.2.2.2.2.2.2.2.2.2.1 s d ks p
    · rename_i v _
      have g1 := ih.1 (setStack s (v :: .name k :: s.vm.stack)) p true
      generalize execOne n m (setStack s (v :: .name k :: s.vm.stack)) p true = p1 at g1
      obtain ⟨s1, r1⟩ := p1
      dsimp only
      exact good_loop (s0 := setStack s (v :: .name k :: s.vm.stack)) rfl g1 (ih.2.2.2.2.2.2.2.2.2.2.1 s1 d ks p)

end
end PsVerif.Proofs.IoErr

namespace PsVerif.Proofs.IoErr
open PsVerif.Model PsVerif.Model.Scan

section
variable {t : String}

theorem step_scanLoop {m n : Nat} (ih : AllGood t m n) (s : State) :
    Good t s (scanLoop (n + 1) m s) ∧ (Inv0 t s.scanner → (scanLoop (n + 1) m s).2 ≠ .ok) := by
  simp only [scanLoop, withScanner]
  have f := top_scanToken (t := t) s.scanner
  have fi := inv0_of_fr (t := t) fr_scanToken s.scanner
  have fne := noeof_of_fr (t := t) fr_scanToken s.scanner
  generalize scanToken s.scanner = p0 at f fi fne
  obtain ⟨r0, sc1⟩ := p0
  dsimp only at f fi fne ⊢
  split
  · -- `io.EOF`: does not happen with a failing reader
    refine ⟨⟨fi, fun hp => ((f hp).2.1 rfl).elim⟩, fun hi => (fne hi rfl).elim⟩
  · rename_i e _
    exact ⟨rs_err fi (fun hp => (f hp).2.2), fun _ => by simp⟩
  · rename_i tok
    have g0 : Good t s (({ s with scanner := sc1 } : State), Res.ok) :=
      ⟨fi, fun hp => ⟨fun hb => (pre_not_bad (f hp) hb).elim, fun _ => f hp⟩⟩
    have hs2 := objOfTok_scanner ({ s with scanner := sc1 } : State) tok
    generalize objOfTok ({ s with scanner := sc1 } : State) tok = p2 at hs2
    obtain ⟨s2, o⟩ := p2
    dsimp only at hs2 ⊢
    have g0' : Good t s (s2, Res.ok) := good_end g0 hs2
    have g3 := ih.1 s2 o false
    generalize execOne n m s2 o false = p3 at g3
    obtain ⟨s3, r3⟩ := p3
    dsimp only
    split
    · have gl := ih.2.2.2.2.2.2.2.2.2.2.2.2 s3
      refine ⟨good_seq g0' (fun h => h) (good_seq g3 (fun h => h) gl.1), fun hi => gl.2 ?_⟩
      exact g3.1 (g0'.1 hi)
    · rename_i hne
      exact ⟨good_seq g0' (fun h => h) g3, fun _ h => hne h⟩

theorem step_scanRun {m n : Nat} (ih : AllGood t m n) (s : State) :
    Good t s (scanRun (n + 1) m s) ∧ (Inv0 t s.scanner → (scanRun (n + 1) m s).2 ≠ .ok) := by
  simp only [scanRun]
  have key_some : ∀ (s1 : State) (e : Err), (Inv0 t s.scanner → Inv0 t s1.scanner) →
      (Pre t s.scanner → TopE t e s1.scanner) →
      (Good t s (s1, Res.err e) ∧ (Inv0 t s.scanner → (s1, Res.err e).2 ≠ .ok)) := by
    intro s1 e h1 h2
    exact ⟨rs_err h1 h2, fun _ => by simp⟩
  have key_none : ∀ (s1 : State), (Inv0 t s.scanner → Inv0 t s1.scanner) →
      (Pre t s.scanner → Pre t s1.scanner) →
      (Good t s (match scanLoop n m { s1 with scannerDepth := s1.scannerDepth + 1 } with
          | (s2, r) => ({ s2 with scannerDepth := s2.scannerDepth - 1 }, r)) ∧
       (Inv0 t s.scanner → (match scanLoop n m { s1 with scannerDepth := s1.scannerDepth + 1 } with
          | (s2, r) => ({ s2 with scannerDepth := s2.scannerDepth - 1 }, r)).2 ≠ .ok)) := by
    intro s1 h1 h3
    have g := ih.2.2.2.2.2.2.2.2.2.2.2.2 { s1 with scannerDepth := s1.scannerDepth + 1 }
    generalize scanLoop n m { s1 with scannerDepth := s1.scannerDepth + 1 } = p at g
    obtain ⟨s2, r⟩ := p
    have g0 : Good t s (s1, Res.ok) :=
      ⟨h1, fun hp => ⟨fun hb => (pre_not_bad (h3 hp) hb).elim, fun _ => h3 hp⟩⟩
    refine ⟨good_seq g0 (fun h => h) (good_end (good_start (s := { s1 with scannerDepth := s1.scannerDepth + 1 }) rfl g.1) rfl),
      fun hi => g.2 (h1 hi)⟩
  by_cases hcs : s.checkStart = true
  · rw [if_pos hcs]
    simp only [withScanner]
    have f := top_peekN2 (t := t) s.scanner
    have fi := inv0_of_fr (t := t) (fr_peekN 2 3) s.scanner
    generalize peekN 2 3 s.scanner = p0 at f fi
    obtain ⟨r0, sc1⟩ := p0
    dsimp only at f fi ⊢
    cases r0 with
    | error e' =>
      dsimp only
      exact key_some ({ s with scanner := sc1 } : State) e' fi (fun hp => (f hp).elim)
    | ok head =>
      dsimp only
      by_cases hh : (head == [37, 33]) = true
      · rw [if_pos hh]
        refine key_none ({ ({ s with scanner := sc1 } : State) with checkStart := false }) fi (fun hp => ?_)
        show Pre t sc1
        rcases (f hp).2 with f2 | f2
        · exact f2
        · have : head = [37, 33] := by simpa using hh
          rw [this] at f2
          simp at f2
      · rw [if_neg hh]
        generalize hq : (if head.length < 2 then sc1.err else none) = q
        have hq' : Pre t s.scanner → (Pre t sc1 ∨ q = some (.io t)) := by
          intro hp
          rcases (f hp).2 with f2 | f2
          · exact Or.inl f2
          · right
            rw [← hq, if_pos f2.1, f2.2]
        have fin : ∀ e : Err, (Pre t s.scanner → (Pre t sc1 ∨ IoF t e)) →
            Good t s (({ s with scanner := sc1 } : State), Res.err e) ∧
              (Inv0 t s.scanner → (({ s with scanner := sc1 } : State), Res.err e).2 ≠ .ok) := by
          intro e he
          refine key_some ({ s with scanner := sc1 } : State) e fi (fun hp => ?_)
          show TopE t e sc1
          rcases he hp with f2 | f2
          · exact ⟨fun hb => (pre_not_bad f2 hb).elim, fun _ => f2⟩
          · exact ⟨fun _ => f2, fun hf => (hf (iof_fatal f2)).elim⟩
        cases q with
        | none =>
          dsimp only
          refine fin _ (fun hp => ?_)
          rcases hq' hp with f2 | f2
          · exact Or.inl f2
          · cases f2
        | some e =>
          cases e
          all_goals dsimp only
          all_goals refine fin _ (fun hp => ?_)
          all_goals rcases hq' hp with f2 | f2
          all_goals first
            | exact Or.inl f2
            | (cases f2; exact Or.inr rfl)
            | cases f2
  · rw [if_neg hcs]
    exact key_none s (fun h => h) (fun h => h)

theorem setStack_scanner (s : State) (st : List Obj) : (setStack s st).scanner = s.scanner := rfl

theorem endEexec_rs (sc : Scanner) : RS t sc (endEexec sc).2 .ok :=
  ⟨fun h => h, fun h => ⟨fun hb => (pre_not_bad (t := t) (sc := (endEexec sc).2) h hb).elim, fun _ => h⟩⟩

theorem step_callBuiltin {m n : Nat} (ih : AllGood t m n) (s : State) (id : String) :
    Good t s (callBuiltin (n + 1) m s id) := by
  unfold callBuiltin
  split
  · -- exec
    repeat' split
    all_goals first
      | exact good_of_same _ rfl
      | exact good_start (setStack_scanner s _) (ih.2.2.2.2.1 _ _)
      | exact good_start (setStack_scanner s _) (ih.1 _ _ _)
  · -- if
    repeat' split
    all_goals first
      | exact good_of_same _ rfl
      | exact good_start (setStack_scanner s _) (ih.1 _ _ _)
  · -- ifelse
    repeat' split
    all_goals first
      | exact good_of_same _ rfl
      | exact good_start (setStack_scanner s _) (ih.1 _ _ _)
  · -- for
    repeat' split
    all_goals first
      | exact good_of_same _ rfl
      | exact good_start (setStack_scanner s _) (ih.2.2.2.2.2.1 _ _ _ _ _)
  · -- repeat
    repeat' split
    all_goals first
      | exact good_of_same _ rfl
      | exact good_start (setStack_scanner s _) (ih.2.2.2.2.2.2.1 _ _ _)
  · -- loop
    repeat' split
    all_goals first
      | exact good_of_same _ rfl
      | exact good_start (setStack_scanner s _) (ih.2.2.2.2.2.2.2.1 _ _)
  · -- forall
    repeat' split
    all_goals first
      | exact good_of_same _ rfl
      | exact good_start (setStack_scanner s _) (ih.2.2.2.2.2.2.2.2.1 _ _ _ _ _ _)
      | exact good_start (setStack_scanner s _) (ih.2.2.2.2.2.2.2.2.2.1 _ _ _ _ _ _)
      | exact good_start (setStack_scanner s _) (ih.2.2.2.2.2.2.2.2.2.2.1 _ _ _ _)
  · exact good_readstring s
  · exact good_defaultErrorHandler s
  · -- eexec
    split
    · exact good_of_same _ rfl
    · rename_i rest _
      dsimp only
      split
      · exact good_of_same _ rfl
      · simp only [withScanner]
        have f := top_beginEexec (t := t) s.scanner
        have fi := inv0_of_fr (t := t) fr_beginEexec s.scanner
        generalize beginEexec s.scanner = p2 at f fi
        obtain ⟨r2, sc2⟩ := p2
        dsimp only at f fi ⊢
        split
        · rename_i e
          exact rs_err fi (fun hp => (f hp).2.2)
        · generalize hs2 : ({ s with vm := pushDict { s.vm with stack := rest } s.vm.roots.systemDict, scanner := sc2 } : State) = s2
          have hsc2 : s2.scanner = sc2 := by subst hs2; rfl
          have g0 : Good t s (s2, Res.ok) := by
            refine ⟨fun hi => ?_, fun hp => ?_⟩
            · show Inv0 t s2.scanner
              rw [hsc2]; exact fi hi
            · show (Bad s2.scanner → IoRes t Res.ok) ∧ (¬ FatalRes Res.ok → Pre t s2.scanner)
              rw [hsc2]
              exact ⟨fun hb => (pre_not_bad (f hp) hb).elim, fun _ => f hp⟩
          have g3 := (ih.2.2.2.2.2.2.2.2.2.2.2.1 s2).1
          generalize scanRun n m s2 = p3 at g3
          obtain ⟨s3, r3⟩ := p3
          dsimp only
          have gend : ∀ r3', ¬ FatalRes r3' → Good t s3 (s3, r3') →
              Good t s3 (okS { s3 with scanner := (endEexec s3.scanner).2, vm := truncDictStack s3.vm (s.vm.dictStack.length) }) := by
            intro r3' _ _
            exact endEexec_rs s3.scanner
          split
          · exact good_seq g0 (fun h => h) (good_seq g3 (fun h => h) (endEexec_rs s3.scanner))
          · exact good_seq g0 (fun h => h) (good_seq g3 (fun h => h) (endEexec_rs s3.scanner))
          · exact good_seq g0 (fun h => h) (good_end g3 rfl)
    · exact good_of_same _ rfl
  · -- operators without re-entry
    split
    · exact good_of_same _ rfl
    · exact good_of_same _ rfl

/-- **all functions of the mutual block satisfy the invariant, for every fuel** -/
theorem allGood (t : String) (m : Nat) : ∀ fuel, AllGood t m fuel := by
  intro fuel
  induction fuel with
  | zero => exact allGood_zero m
  | succ n ih =>
    exact ⟨step_execOne ih, step_execBody ih, step_execTail ih, step_runBody ih, step_callBuiltin ih,
      step_forLoop ih, step_repeatLoop ih, step_loopLoop ih, step_forallArr ih, step_forallStr ih,
      step_forallDict ih, step_scanRun ih, step_scanLoop ih⟩

end
end PsVerif.Proofs.IoErr

namespace PsVerif.Proofs.IoErr
open PsVerif.Model PsVerif.Model.Scan

/-! ### the theorems about `Execute` -/

/-- the state in which `execute` starts its scanner -/
def startState (s : State) (input : List UInt8) (fault : Option String) : State :=
  { s with scanner := { src := input, fault := fault } }

theorem execute_eq (fuel m : Nat) (s : State) (input : List UInt8) (fault : Option String) :
    execute fuel m s input fault =
      (match scanRun fuel m (startState s input fault) with
       | (s1, r) =>
         -- the structured comments seen so far are kept, whether or not the call fails
         match r with
         | .err .exit => ({ s1 with dsc := s1.dsc ++ s1.scanner.dsc }, .err (.ps "invalidexit"))
         | .err .stop | .ok => ({ s1 with dsc := s1.dsc ++ s1.scanner.dsc }, .ok)
         | _ => ({ s1 with dsc := s1.dsc ++ s1.scanner.dsc }, r)) := rfl

theorem start_pre (t : String) (s : State) (input : List UInt8) : Pre t (startState s input (some t)).scanner :=
  ⟨⟨rfl, Or.inl rfl⟩, Or.inr ⟨rfl, rfl⟩⟩

/-- **A read failure that the scanner has hit is reported.**  If, at the end of `Execute` on a
reader that fails with error `t` after the bytes `input`, the scanner's sticky error is set
and no structured (`%%`) comment has been recorded, then the result is exactly that read
error.  For every program, fault position, operation budget and fuel. -/
theorem io_fault_surfaces {fuel m : Nat} {s s' : State} {input : List UInt8} {t : String} {r : Res}
    (h : execute fuel m s input (some t) = (s', r))
    (hhit : s'.scanner.err ≠ none) (hdsc : s'.scanner.dsc = []) :
    r = .err (.io t) := by
  rw [execute_eq] at h
  have g := ((allGood t m fuel).2.2.2.2.2.2.2.2.2.2.2.1 (startState s input (some t))).1
  generalize scanRun fuel m (startState s input (some t)) = p at h g
  obtain ⟨s1, r1⟩ := p
  have g2 := (g.2 (start_pre t s input)).1
  dsimp only at h g2
  have hsc : s'.scanner = s1.scanner := by
    split at h <;> cases h <;> rfl
  have hb : Bad s1.scanner := by rw [← hsc]; exact ⟨hhit, hdsc⟩
  obtain ⟨e, rfl, he⟩ := g2 hb
  cases he
  cases h
  rfl

/-- **With a failing reader only an explicit `stop` ends `Execute` normally**: the input
never ends cleanly, so the scanning loop never returns `nil`. -/
theorem ok_only_by_stop {fuel m : Nat} {s s' : State} {input : List UInt8} {t : String}
    (h : execute fuel m s input (some t) = (s', .ok)) :
    (scanRun fuel m (startState s input (some t))).2 = .err .stop := by
  rw [execute_eq] at h
  have g := ((allGood t m fuel).2.2.2.2.2.2.2.2.2.2.2.1 (startState s input (some t))).2 ⟨rfl, Or.inl rfl⟩
  generalize scanRun fuel m (startState s input (some t)) = p at h g
  obtain ⟨s1, r1⟩ := p
  dsimp only at h g ⊢
  split at h
  · cases h
  · rfl
  · exact (g rfl).elim
  · rename_i h1 h2 h3
    cases h
    exact (g rfl).elim

/-- the exception named in `io_fault_surfaces` is the only one: a normal end with the
failure already hit means a structured comment was recorded (its look-ahead met the failure) -/
theorem ok_after_hit_has_dsc {fuel m : Nat} {s s' : State} {input : List UInt8} {t : String}
    (h : execute fuel m s input (some t) = (s', .ok)) (hhit : s'.scanner.err ≠ none) :
    s'.scanner.dsc ≠ [] := by
  intro hd
  cases io_fault_surfaces h hhit hd

/-- the scanner invariant at the end: the sticky error is unset or the reader's failure -/
theorem final_scanner_err {fuel m : Nat} {s s' : State} {input : List UInt8} {t : String} {r : Res}
    (h : execute fuel m s input (some t) = (s', r)) :
    s'.scanner.err = none ∨ s'.scanner.err = some (.io t) := by
  rw [execute_eq] at h
  have g := ((allGood t m fuel).2.2.2.2.2.2.2.2.2.2.2.1 (startState s input (some t))).1
  generalize scanRun fuel m (startState s input (some t)) = p at h g
  obtain ⟨s1, r1⟩ := p
  have g1 := g.1 ⟨rfl, Or.inl rfl⟩
  dsimp only at h g1
  have hsc : s'.scanner = s1.scanner := by
    split at h <;> cases h <;> rfl
  rw [hsc]
  exact g1.2

end PsVerif.Proofs.IoErr

namespace PsVerif.Proofs.IoErr
open PsVerif.Model PsVerif.Model.Scan

/-! ### `io_propagates`: one step of every function of the mutual block

A result `r` with `FatalRes r` (in particular `.err (.io t)`) of a nested call is the result
of the calling function; the state is the nested call's state up to the caller's bookkeeping
(`execDepth`, `errors`, `scannerDepth`, the dictionary stack of `eexec`).  The places that
catch a result are: the error-handler detour (`Err.ps` only), the looping operators
(`Err.exit` only), `eexec` (`.ok` and `Err.eof` only), `Execute` (`Err.exit`, `Err.stop`). -/

theorem io_fatalRes (t : String) : FatalRes (.err (.io t)) := trivial

theorem loopResult_fatal {r : Res} (s1 : State) (next : State × Res) (h : FatalRes r) :
    loopResult r s1 next = (s1, r) := by
  unfold loopResult
  cases r with
  | ok => exact h.elim
  | fuel => rfl
  | err e => cases e <;> first | rfl | exact h.elim

theorem execOne_propagates {n m : Nat} {s s1 : State} {o : Obj} {r : Res} (hd : ¬ s.execDepth ≥ execDepthLimit)
    (h : execBody n m { s with execDepth := s.execDepth + 1, hiDepth := max s.hiDepth (s.execDepth + 1) } o true = (s1, r)) :
    execOne (n + 1) m s o true = ({ s1 with execDepth := s1.execDepth - 1 }, r) := by
  simp only [execOne, if_true, if_neg hd, h]

theorem execOne_propagates' {n m : Nat} {s : State} {o : Obj} :
    execOne (n + 1) m s o false = execBody n m s o false := by
  simp only [execOne]
  rfl

theorem execBody_propagates {n m : Nat} {s : State} {o : Obj} {b : Bool}
    (h1 : ¬ s.vm.stack.length > maxOperandStackDepth) (h2 : (o == .op "}") = false) (h3 : (o == .op "{") = false)
    (h4 : s.procStart = []) :
    execBody (n + 1) m s o b = execTail n m s o b b := by
  simp only [execBody, if_neg h1, h2, h3, h4]
  rfl

/-- the error-handler detour is entered for PostScript errors only -/
theorem execTail_builtin_propagates {n m : Nat} {s s1 : State} {id : String} {b c : Bool} {r : Res}
    (hl : ¬ (m > 0 ∧ s.numOps + 1 > m))
    (h : callBuiltin n m { s with numOps := s.numOps + 1 } id = (s1, r)) (hr : FatalRes r) :
    execTail (n + 1) m s (.builtin id) b c = (s1, r) := by
  unfold execTail
  dsimp only
  rw [if_neg hl, h]
  dsimp only
  cases r with
  | ok => exact hr.elim
  | fuel => rfl
  | err e => cases e <;> first | rfl | exact hr.elim

/-- … and the handler's own result is passed on -/
theorem execTail_handler_propagates {n m : Nat} {s s1 s3 : State} {id : String} {b c : Bool} {name : ErrName}
    {handler : Obj} {r3 : Res}
    (hl : ¬ (m > 0 ∧ s.numOps + 1 > m))
    (h : callBuiltin n m { s with numOps := s.numOps + 1 } id = (s1, .err (.ps name)))
    (hlev : s1.errors.length < errorNestingLimit)
    (hh : s1.vm.dictGet s1.vm.roots.errorDict name = some handler)
    (h3 : execOne n m { s1 with errors := name :: s1.errors, hiErrors := max s1.hiErrors (s1.errors.length + 1) } handler true
      = (s3, r3)) :
    execTail (n + 1) m s (.builtin id) b c
      = ({ s3 with errors := s3.errors.drop (s3.errors.length - s1.errors.length) }, r3) := by
  unfold execTail
  dsimp only
  rw [if_neg hl, h]
  dsimp only
  rw [if_pos hlev, hh]
  dsimp only
  rw [h3]

theorem runBody_propagates {n m : Nat} {s s1 : State} {ref off i k : Nat} {tok : Obj} {r : Res}
    (ht : (s.vm.getObjs ref)[off + i]? = some tok) (h : execOne n m s tok false = (s1, r)) (hr : FatalRes r) :
    runBody (n + 1) m s ref off i (k + 1) = (s1, r) := by
  simp only [runBody, ht, h]
  cases r with
  | ok => exact hr.elim
  | fuel => rfl
  | err e => rfl

theorem execTail_proc_propagates {n m : Nat} {s s1 : State} {ref off len : Nat} {c : Bool} {r : Res}
    (hl : ¬ (m > 0 ∧ s.numOps + 1 > m)) (hlen : (len == 0) = false)
    (hd : (!c && decide ((s.execDepth) ≥ execDepthLimit)) = false)
    (h : runBody n m (enterLevel c { s with numOps := s.numOps + 1 }) ref off 0 (len - 1) = (s1, r)) (hr : FatalRes r) :
    execTail (n + 1) m s (.proc ref off len) true c = leaveLevel c (s1, r) := by
  unfold execTail
  dsimp only
  rw [if_neg hl]
  simp only [if_true, hlen, Bool.false_eq_true, if_false, hd, h]
  cases r with
  | ok => exact hr.elim
  | fuel => rfl
  | err e => rfl

theorem forLoop_propagates {n m : Nat} {s s1 : State} {v i l : Int} {p : Obj} {r : Res}
    (hc : ¬ ((i > 0 ∧ v > l) ∨ (i < 0 ∧ v < l)))
    (h : execOne n m (pushS s (.int v)) p true = (s1, r)) (hr : FatalRes r) :
    forLoop (n + 1) m s v i l p = (s1, r) := by
  simp only [forLoop, if_neg hc, h]
  exact loopResult_fatal s1 _ hr

theorem repeatLoop_propagates {n m : Nat} {s s1 : State} {k : Nat} {p : Obj} {r : Res}
    (h : execOne n m s p true = (s1, r)) (hr : FatalRes r) :
    repeatLoop (n + 1) m s (k + 1) p = (s1, r) := by
  simp only [repeatLoop, h]
  exact loopResult_fatal s1 _ hr

theorem loopLoop_propagates {n m : Nat} {s s1 : State} {p : Obj} {r : Res}
    (h : execOne n m s p true = (s1, r)) (hr : FatalRes r) :
    loopLoop (n + 1) m s p = (s1, r) := by
  simp only [loopLoop, h]
  exact loopResult_fatal s1 _ hr

theorem forallArr_propagates {n m : Nat} {s s1 : State} {ref off i k : Nat} {v p : Obj} {r : Res}
    (hv : (s.vm.getObjs ref)[off + i]? = some v)
    (h : execOne n m (pushS s v) p true = (s1, r)) (hr : FatalRes r) :
    forallArr (n + 1) m s ref off i (k + 1) p = (s1, r) := by
  simp only [forallArr, hv, h]
  exact loopResult_fatal s1 _ hr

theorem forallStr_propagates {n m : Nat} {s s1 : State} {ref off i k : Nat} {c : UInt8} {p : Obj} {r : Res}
    (hv : (s.vm.getBytes ref)[off + i]? = some c)
    (h : execOne n m (pushS s (.int c.toNat)) p true = (s1, r)) (hr : FatalRes r) :
    forallStr (n + 1) m s ref off i (k + 1) p = (s1, r) := by
  simp only [forallStr, hv, h]
  exact loopResult_fatal s1 _ hr

theorem forallDict_propagates {n m : Nat} {s s1 : State} {d : Nat} {k : Name} {ks : List Name} {v p : Obj} {r : Res}
    (hv : s.vm.dictGet d k = some v)
    (h : execOne n m (setStack s (v :: .name k :: s.vm.stack)) p true = (s1, r)) (hr : FatalRes r) :
    forallDict (n + 1) m s d (k :: ks) p = (s1, r) := by
  simp only [forallDict, hv, h]
  exact loopResult_fatal s1 _ hr

/-- a failing token read ends the scanning loop with that error, unless it is `io.EOF` -/
theorem scanLoop_scan_propagates {n m : Nat} {s : State} {e : Err} {sc1 : Scanner}
    (h : scanToken s.scanner = (.error e, sc1)) (he : e ≠ .eof) :
    scanLoop (n + 1) m s = ({ s with scanner := sc1 }, .err e) := by
  simp only [scanLoop, withScanner, h]

theorem scanLoop_exec_propagates {n m : Nat} {s s3 : State} {tok : Tok} {sc1 : Scanner} {r : Res}
    (h : scanToken s.scanner = (.ok tok, sc1))
    (h3 : execOne n m (objOfTok { s with scanner := sc1 } tok).1 (objOfTok { s with scanner := sc1 } tok).2 false = (s3, r))
    (hr : FatalRes r) :
    scanLoop (n + 1) m s = (s3, r) := by
  simp only [scanLoop, withScanner, h, h3]
  cases r with
  | ok => exact hr.elim
  | fuel => rfl
  | err e => rfl

theorem scanRun_propagates {n m : Nat} {s s2 : State} {r : Res} (hc : s.checkStart = false)
    (h : scanLoop n m { s with scannerDepth := s.scannerDepth + 1 } = (s2, r)) :
    scanRun (n + 1) m s = ({ s2 with scannerDepth := s2.scannerDepth - 1 }, r) := by
  unfold scanRun
  rw [if_neg (by simp [hc])]
  dsimp only
  rw [h]

/-- `eexec` converts only a normal end and `io.EOF` (`closefile`) of the nested loop -/
theorem eexec_propagates {n m : Nat} {s s3 : State} {rest : List Obj} {sc2 : Scanner} {r3 : Res}
    (hst : s.vm.stack = .file :: rest) (hd : (s.scannerDepth == 0) = false)
    (hb : beginEexec s.scanner = (.ok (), sc2))
    (h : scanRun n m { s with vm := pushDict { s.vm with stack := rest } s.vm.roots.systemDict, scanner := sc2 } = (s3, r3))
    (hr : FatalRes r3) :
    callBuiltin (n + 1) m s "eexec" = ({ s3 with vm := truncDictStack s3.vm s.vm.dictStack.length }, r3) := by
  unfold callBuiltin
  simp only [hst, withScanner, hb, hd, Bool.false_eq_true, if_false, h]
  cases r3 with
  | ok => exact hr.elim
  | fuel => rfl
  | err e => cases e <;> first | rfl | exact hr.elim

theorem eexec_begin_propagates {n m : Nat} {s : State} {rest : List Obj} {sc2 : Scanner} {e : Err}
    (hst : s.vm.stack = .file :: rest) (hd : (s.scannerDepth == 0) = false)
    (hb : beginEexec s.scanner = (.error e, sc2)) :
    callBuiltin (n + 1) m s "eexec"
      = ({ s with vm := truncDictStack (pushDict { s.vm with stack := rest } s.vm.roots.systemDict) s.vm.dictStack.length,
                  scanner := sc2 }, .err e) := by
  unfold callBuiltin
  simp only [hst, withScanner, hb, hd, Bool.false_eq_true, if_false]

/-- `Execute` passes every fatal result on (the state only gains the scanner's structured
comments) -/
theorem execute_propagates {fuel m : Nat} {s s1 : State} {input : List UInt8} {fault : Option String} {r : Res}
    (h : scanRun fuel m (startState s input fault) = (s1, r)) (hr : FatalRes r) :
    execute fuel m s input fault = ({ s1 with dsc := s1.dsc ++ s1.scanner.dsc }, r) := by
  rw [execute_eq, h]
  dsimp only
  cases r with
  | ok => exact hr.elim
  | fuel => rfl
  | err e => cases e <;> first | rfl | exact hr.elim

end PsVerif.Proofs.IoErr
