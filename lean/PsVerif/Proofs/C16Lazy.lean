import PsVerif.Model.NamesLazy
/-
Helper lemmas for `Props/C16Lazy.lean`: map semantics of `get`/`put`, what the scanner loop
`loadLines` leaves in its two maps, and when two keys `file ++ "/" ++ name` of the shared
sequence table can be equal.
-/
namespace PsVerif.Proofs.C16Lazy
open PsVerif.Model PsVerif.Model.NamesLazy

/-! ### `get`/`put` are a map -/

theorem get_put {β : Type} (m : List (String × β)) (k k' : String) (v : β) :
    NamesLazy.get (put m k v) k' = if k = k' then some v else NamesLazy.get m k' := by
  induction m with
  | nil => simp [put, NamesLazy.get]
  | cons e rest ih =>
    obtain ⟨a, b⟩ := e
    by_cases h : a = k
    · subst h; simp only [put, NamesLazy.get, if_true]; split <;> rfl
    · simp only [put, h, if_false, NamesLazy.get, ih]
      by_cases h1 : a = k'
      · subst h1
        have : ¬ k = a := fun e => h e.symm
        simp [this]
      · simp [h1]

theorem get_mem {β : Type} (m : List (String × β)) (k : String) (v : β)
    (h : NamesLazy.get m k = some v) : k ∈ m.map (·.1) := by
  induction m with
  | nil => simp [NamesLazy.get] at h
  | cons e rest ih =>
    obtain ⟨a, b⟩ := e
    by_cases h1 : a = k
    · simp [h1]
    · simp only [NamesLazy.get, h1, if_false] at h
      simp [ih h]

/-! ### the scanner loop -/

/-- the last sequence line of `file` whose key is `k` -/
def pureSeqKey (file : String) : Entries → String → Option (List Nat)
  | [], _ => none
  | (n, cps) :: rest, k =>
    match pureSeqKey file rest k with
    | some s => some s
    | none => if key file n = k ∧ cps.length > 1 then some cps else none

theorem loadLines_fst (file : String) (es : Entries) :
    ∀ (fm : List (String × Nat)) (sq : List (String × List Nat)) (n : String),
      NamesLazy.get (loadLines file es fm sq).1 n = (pureSingle es n).or (NamesLazy.get fm n) := by
  induction es with
  | nil => intro fm sq n; simp [loadLines, pureSingle]
  | cons e rest ih =>
    intro fm sq n
    obtain ⟨name, cps⟩ := e
    by_cases hl : cps.length > 1
    · simp only [loadLines, hl, if_true, ih, pureSingle]
      cases pureSingle rest n <;> simp
    · simp only [loadLines, hl, if_false, ih, pureSingle, get_put]
      cases pureSingle rest n with
      | some c => simp
      | none =>
        by_cases hn : name = n
        · simp [hn]
        · simp [hn]

theorem loadLines_snd (file : String) (es : Entries) :
    ∀ (fm : List (String × Nat)) (sq : List (String × List Nat)) (k : String),
      NamesLazy.get (loadLines file es fm sq).2 k = (pureSeqKey file es k).or (NamesLazy.get sq k) := by
  induction es with
  | nil => intro fm sq k; simp [loadLines, pureSeqKey]
  | cons e rest ih =>
    intro fm sq k
    obtain ⟨name, cps⟩ := e
    by_cases hl : cps.length > 1
    · simp only [loadLines, hl, if_true, ih, pureSeqKey, get_put]
      cases pureSeqKey file rest k with
      | some c => simp
      | none =>
        by_cases hn : key file name = k
        · simp [hn]
        · simp [hn]
    · simp only [loadLines, hl, if_false, ih, pureSeqKey]
      cases pureSeqKey file rest k <;> simp

/-- a key found among the sequence lines of `file` is a key of `file` -/
theorem pureSeqKey_some (file : String) (es : Entries) (k : String) (s : List Nat)
    (h : pureSeqKey file es k = some s) : ∃ n, key file n = k := by
  induction es generalizing s with
  | nil => simp [pureSeqKey] at h
  | cons e rest ih =>
    obtain ⟨name, cps⟩ := e
    simp only [pureSeqKey] at h
    cases h1 : pureSeqKey file rest k with
    | some c => exact ih c h1
    | none =>
      rw [h1] at h
      by_cases hc : key file name = k ∧ cps.length > 1
      · exact ⟨name, hc.1⟩
      · simp [hc] at h

theorem pureSeqKey_nil (file : String) (k : String) : pureSeqKey file [] k = none := rfl

/-! ### keys -/

theorem key_inj_right (f n1 n2 : String) (h : key f n1 = key f n2) : n1 = n2 :=
  (String.append_right_inj (f ++ "/")).1 h

theorem pureSeqKey_key (file : String) (es : Entries) (n : String) :
    pureSeqKey file es (key file n) = pureSeq es n := by
  induction es with
  | nil => simp [pureSeqKey, pureSeq]
  | cons e rest ih =>
    obtain ⟨name, cps⟩ := e
    simp only [pureSeqKey, pureSeq, ih]
    cases pureSeq rest n with
    | some c => rfl
    | none =>
      by_cases hn : name = n
      · simp [hn]
      · have : ¬ key file name = key file n := fun e => hn (key_inj_right _ _ _ e)
        simp [hn, this]

theorem key_toList (f n : String) : (key f n).toList = f.toList ++ '/' :: n.toList := by
  simp [key, String.toList_append]

/-- two keys of different files can only be equal if one file name followed by "/" is a
prefix of the other file name -/
theorem key_clash_prefix (f1 f2 n1 n2 : String) (h : key f1 n1 = key f2 n2) (hne : f1 ≠ f2) :
    (f1.toList ++ ['/']) <+: f2.toList ∨ (f2.toList ++ ['/']) <+: f1.toList := by
  have h' := congrArg String.toList h
  rw [key_toList, key_toList] at h'
  rcases List.append_eq_append_iff.1 h' with ⟨as, h2, h3⟩ | ⟨bs, h2, h3⟩
  · cases as with
    | nil =>
      exfalso; apply hne
      apply String.toList_inj.1
      simpa using h2.symm
    | cons a as =>
      left
      simp only [List.cons_append, List.cons.injEq] at h3
      refine ⟨as, ?_⟩
      rw [h2, h3.1]; simp
  · cases bs with
    | nil =>
      exfalso; apply hne
      apply String.toList_inj.1
      simpa using h2
    | cons b bs =>
      right
      simp only [List.cons_append, List.cons.injEq] at h3
      refine ⟨bs, ?_⟩
      rw [h2, h3.1]; simp

end PsVerif.Proofs.C16Lazy
