import PsVerif.Model.Init
/-!
# helpers for `Props/C03Bind.lean`: what `bind` does to the store

* `BindRel v v'` : the relation between the data before and after any part of a `bind` walk:
  only `heap` and `bindSeen` differ, no cell appears or changes kind or size, and an element
  of an object cell is either unchanged or was the executable name `n`, which the dictionary
  stack of `v` resolves to the operator `b`, and is now `b`.  Reflexive, transitive, kept by
  every step of `bindProc`/`bindLoop` with any fuel and any outcome (`bind_rel`).
* `FlatPost` / `bindLoop_flat` : the exact result of the loop over a stretch of elements
  with no procedure among them.
-/
namespace PsVerif.Proofs.C03Bind
open PsVerif.Model

/-- what `bind` does to one element of a body -/
def bindElem (s : VM) : Obj → Obj
  | .op n => match lookupName s n with
    | some (.builtin b) => .builtin b
    | _ => .op n
  | e => e

/-! ### store facts -/

theorem getObjs_of_cell {v : VM} {r : Nat} {a : Array Obj} (h : v.heap[r]? = some (.objs a)) : v.getObjs r = a := by
  simp [VM.getObjs, h]

theorem cell_of_getObjs_pos {v : VM} {r : Nat} (h : 0 < (v.getObjs r).size) :
    v.heap[r]? = some (.objs (v.getObjs r)) := by
  unfold VM.getObjs at h ⊢
  split
  · next a e => exact e
  · next hne =>
    exfalso
    split at h
    · next a e => exact hne a e
    · simp at h

theorem heap_setCell_ne (v : VM) {r r' : Nat} (c : Cell) (h : r' ≠ r) : (v.setCell r c).heap[r']? = v.heap[r']? := by
  simp only [VM.setCell, Array.getElem?_setIfInBounds]
  rw [if_neg (fun e => h e.symm)]

theorem heap_setCell_same (v : VM) {r : Nat} (c : Cell) (h : r < v.heap.size) : (v.setCell r c).heap[r]? = some c := by
  simp [VM.setCell, h]

theorem lt_of_cell {v : VM} {r : Nat} {c : Cell} (h : v.heap[r]? = some c) : r < v.heap.size := by
  rcases Nat.lt_or_ge r v.heap.size with h1 | h1
  · exact h1
  · rw [Array.getElem?_eq_none h1] at h; cases h

theorem getDict_congr {v v' : VM} {r : Nat} (h : v'.heap[r]? = v.heap[r]?) : v'.getDict r = v.getDict r := by
  simp only [VM.getDict, h]

theorem getDict_objs {v : VM} {r : Nat} {a : Array Obj} (h : v.heap[r]? = some (.objs a)) : v.getDict r = [] := by
  simp [VM.getDict, h]

theorem lookupName_congr {v v' : VM} (hd : v'.dictStack = v.dictStack) (hg : ∀ r, v'.getDict r = v.getDict r)
    (n : Name) : lookupName v' n = lookupName v n := by
  simp only [lookupName, VM.dictGet, hd, hg]

theorem bindElem_congr {v v' : VM} (hd : v'.dictStack = v.dictStack) (hg : ∀ r, v'.getDict r = v.getDict r) :
    bindElem v' = bindElem v := by
  funext e
  cases e <;> simp only [bindElem, lookupName_congr hd hg]

/-! ### the general relation -/

/-- an element before and after: unchanged, or an executable name that resolves to an operator,
replaced by that operator -/
def ElemRel (v : VM) (x x' : Option Obj) : Prop :=
  x' = x ∨ ∃ n b, x = some (.op n) ∧ lookupName v n = some (.builtin b) ∧ x' = some (.builtin b)

/-- a heap cell before and after -/
def CellRel (v : VM) (c c' : Option Cell) : Prop :=
  c' = c ∨ ∃ a a' : Array Obj, c = some (.objs a) ∧ c' = some (.objs a') ∧ a'.size = a.size ∧ ∀ j : Nat, ElemRel v a[j]? a'[j]?

structure BindRel (v v' : VM) : Prop where
  frame : v' = { v with heap := v'.heap, bindSeen := v'.bindSeen }
  size : v'.heap.size = v.heap.size
  cell : ∀ r : Nat, CellRel v v.heap[r]? v'.heap[r]?

theorem BindRel.dictStack {v v' : VM} (h : BindRel v v') : v'.dictStack = v.dictStack := by
  have := h.frame; rw [this]

theorem BindRel.getDict {v v' : VM} (h : BindRel v v') (r : Nat) : v'.getDict r = v.getDict r := by
  rcases h.cell r with e | ⟨a, a', e, e', -, -⟩
  · exact getDict_congr e
  · rw [getDict_objs e, getDict_objs e']

theorem BindRel.lookup_eq {v v' : VM} (h : BindRel v v') (n : Name) : lookupName v' n = lookupName v n :=
  lookupName_congr h.dictStack h.getDict n

theorem BindRel.refl (v : VM) : BindRel v v := ⟨rfl, rfl, fun _ => Or.inl rfl⟩

theorem BindRel.seen (v : VM) (x : List (Nat × Nat × Nat)) : BindRel v { v with bindSeen := x } :=
  ⟨rfl, rfl, fun _ => Or.inl rfl⟩

theorem ElemRel.trans {v v' : VM} (hl : ∀ n, lookupName v' n = lookupName v n) {x y z : Option Obj}
    (h1 : ElemRel v x y) (h2 : ElemRel v' y z) : ElemRel v x z := by
  rcases h1 with e1 | ⟨n, b, ex, hb, ey⟩
  · rcases h2 with e2 | ⟨n, b, ey, hb, ez⟩
    · exact Or.inl (e2.trans e1)
    · exact Or.inr ⟨n, b, e1 ▸ ey, (hl n) ▸ hb, ez⟩
  · rcases h2 with e2 | ⟨n', b', ey', -, -⟩
    · exact Or.inr ⟨n, b, ex, hb, e2.trans ey⟩
    · rw [ey] at ey'; cases ey'

theorem BindRel.trans {a b c : VM} (h1 : BindRel a b) (h2 : BindRel b c) : BindRel a c := by
  refine ⟨?_, h2.size.trans h1.size, fun r => ?_⟩
  · have e1 := h1.frame
    have e2 := h2.frame
    rw [e2]; rw [e1]
  · rcases h1.cell r with e1 | ⟨x, x', ex, ex', hs, hj⟩
    · rcases h2.cell r with e2 | ⟨y, y', ey, ey', hs', hj'⟩
      · exact Or.inl (e2.trans e1)
      · refine Or.inr ⟨y, y', e1 ▸ ey, ey', hs', fun j => ?_⟩
        rcases hj' j with e | ⟨n, b', e, hb, e'⟩
        · exact Or.inl e
        · exact Or.inr ⟨n, b', e, (h1.lookup_eq n) ▸ hb, e'⟩
    · rcases h2.cell r with e2 | ⟨y, y', ey, ey', hs', hj'⟩
      · exact Or.inr ⟨x, x', ex, e2.trans ex', hs, hj⟩
      · rw [ex'] at ey
        cases ey
        exact Or.inr ⟨x, y', ex, ey', hs'.trans hs, fun j => (hj j).trans h1.lookup_eq (hj' j)⟩

/-- the one write `bind` makes -/
theorem BindRel.set {v : VM} {ref k : Nat} {n : Name} {b : String}
    (he : (v.getObjs ref)[k]? = some (.op n)) (hb : lookupName v n = some (.builtin b)) :
    BindRel v (v.setCell ref (.objs ((v.getObjs ref).setIfInBounds k (.builtin b)))) := by
  have hk : k < (v.getObjs ref).size := by
    rcases Nat.lt_or_ge k (v.getObjs ref).size with h | h
    · exact h
    · rw [Array.getElem?_eq_none h] at he; cases he
  have hc := cell_of_getObjs_pos (Nat.lt_of_le_of_lt (Nat.zero_le _) hk)
  refine ⟨rfl, by simp [VM.setCell], fun r => ?_⟩
  by_cases hr : r = ref
  · subst hr
    refine Or.inr ⟨_, _, hc, heap_setCell_same v _ (lt_of_cell hc), by simp, fun j => ?_⟩
    by_cases hj : j = k
    · subst hj
      exact Or.inr ⟨n, b, he, hb, by simp [hk]⟩
    · refine Or.inl ?_
      rw [Array.getElem?_setIfInBounds, if_neg (fun e => hj e.symm)]
  · exact Or.inl (heap_setCell_ne v _ hr)

theorem bind_rel : ∀ fuel, (∀ s r o l d, BindRel s (bindProc fuel s r o l d).1) ∧
    (∀ s r o d i t, BindRel s (bindLoop fuel s r o d i t).1) := by
  intro fuel
  induction fuel with
  | zero => exact ⟨fun s r o l d => by simp only [bindProc]; exact .refl _,
                   fun s r o d i t => by simp only [bindLoop]; exact .refl _⟩
  | succ n ih =>
    refine ⟨fun s r o l d => ?_, fun s r o d i t => ?_⟩
    · simp only [bindProc]
      split
      · exact .refl _
      · split
        · exact .refl _
        · split
          · exact .refl _
          · exact (BindRel.seen s _).trans (ih.2 _ r o d 0 l)
    · cases t with
      | zero => simp only [bindLoop]; exact .refl _
      | succ t =>
        simp only [bindLoop]
        split
        · exact .refl _
        · next elem he =>
          split
          · next nm =>
            split
            · next b hb => exact (BindRel.set he hb).trans (ih.2 _ r o d (i + 1) t)
            · exact ih.2 _ r o d (i + 1) t
          · rename_i r2 o2 l2
            have g := ih.1 s r2 o2 l2 (d + 1)
            have g2 := fun s2 => ih.2 s2 r o d (i + 1) t
            generalize bindProc n s r2 o2 l2 (d + 1) = p at g
            obtain ⟨s2, res⟩ := p
            simp only
            split
            · exact g.trans (g2 s2)
            · exact g
          · exact ih.2 _ r o d (i + 1) t

/-! ### the loop over a stretch without procedures -/

/-- the data after the loop has bound the `n` elements from position `lo` of cell `ref` -/
structure FlatPost (v v' : VM) (ref lo n : Nat) : Prop where
  frame : v' = { v with heap := v'.heap }
  size : v'.heap.size = v.heap.size
  other : ∀ r, r ≠ ref → v'.heap[r]? = v.heap[r]?
  getDict : ∀ r, v'.getDict r = v.getDict r
  osize : (v'.getObjs ref).size = (v.getObjs ref).size
  elems : ∀ j, (v'.getObjs ref)[j]? =
    if lo ≤ j ∧ j < lo + n then ((v.getObjs ref)[j]?).map (bindElem v) else (v.getObjs ref)[j]?

theorem FlatPost.dictStack {v v' : VM} {ref lo n : Nat} (h : FlatPost v v' ref lo n) : v'.dictStack = v.dictStack := by
  have := h.frame; rw [this]

theorem FlatPost.bindElem_eq {v v' : VM} {ref lo n : Nat} (h : FlatPost v v' ref lo n) : bindElem v' = bindElem v :=
  bindElem_congr h.dictStack h.getDict

theorem FlatPost.zero (v : VM) (ref lo : Nat) : FlatPost v v ref lo 0 :=
  ⟨rfl, rfl, fun _ _ => rfl, fun _ => rfl, rfl, fun j => by rw [if_neg (by omega)]⟩

/-- an element `bind` leaves alone -/
theorem FlatPost.skip {v : VM} {ref lo : Nat} {e : Obj} (he : (v.getObjs ref)[lo]? = some e) (hb : bindElem v e = e) :
    FlatPost v v ref lo 1 := by
  refine ⟨rfl, rfl, fun _ _ => rfl, fun _ => rfl, rfl, fun j => ?_⟩
  split
  · next h =>
    have : j = lo := by omega
    subst this
    rw [he, Option.map_some, hb]
  · rfl

/-- an element `bind` replaces -/
theorem FlatPost.set {v : VM} {ref lo : Nat} {n : Name} {b : String}
    (he : (v.getObjs ref)[lo]? = some (.op n)) (hb : lookupName v n = some (.builtin b)) :
    FlatPost v (v.setCell ref (.objs ((v.getObjs ref).setIfInBounds lo (.builtin b)))) ref lo 1 := by
  have hk : lo < (v.getObjs ref).size := by
    rcases Nat.lt_or_ge lo (v.getObjs ref).size with h | h
    · exact h
    · rw [Array.getElem?_eq_none h] at he; cases he
  have hc := cell_of_getObjs_pos (Nat.lt_of_le_of_lt (Nat.zero_le _) hk)
  have hc' := heap_setCell_same v (.objs ((v.getObjs ref).setIfInBounds lo (.builtin b))) (lt_of_cell hc)
  have hg := getObjs_of_cell hc'
  refine ⟨rfl, by simp [VM.setCell], fun r hr => heap_setCell_ne v _ hr, fun r => ?_, ?_, fun j => ?_⟩
  · by_cases hr : r = ref
    · subst hr; rw [getDict_objs hc, getDict_objs hc']
    · exact getDict_congr (heap_setCell_ne v _ hr)
  · rw [hg]; simp
  · rw [hg, Array.getElem?_setIfInBounds]
    by_cases hj : lo = j
    · subst hj
      rw [if_pos rfl, if_pos hk, if_pos (by omega), he, Option.map_some]
      simp only [bindElem, hb]
    · rw [if_neg hj, if_neg (by omega)]

theorem FlatPost.cons {v v1 v' : VM} {ref lo n : Nat} (h1 : FlatPost v v1 ref lo 1) (h2 : FlatPost v1 v' ref (lo + 1) n) :
    FlatPost v v' ref lo (n + 1) := by
  refine ⟨?_, h2.size.trans h1.size, fun r hr => (h2.other r hr).trans (h1.other r hr),
    fun r => (h2.getDict r).trans (h1.getDict r), h2.osize.trans h1.osize, fun j => ?_⟩
  · have e1 := h1.frame
    have e2 := h2.frame
    rw [e2]; rw [e1]
  · rw [h2.elems j, h1.elems, h1.bindElem_eq]
    by_cases ha : j = lo
    · subst ha
      rw [if_neg (by omega), if_pos (by omega), if_pos (by omega)]
    · by_cases hb : lo + 1 ≤ j ∧ j < lo + 1 + n
      · rw [if_pos hb, if_neg (by omega), if_pos (by omega)]
      · rw [if_neg hb, if_neg (by omega), if_neg (by omega)]

/-- `bindLoop` over `todo` elements none of which is a procedure: with `todo + 1` units of
fuel it ends `.ok` and has bound exactly those elements -/
theorem bindLoop_flat (ref off depth : Nat) : ∀ (fuel todo i : Nat) (v : VM), todo + 1 ≤ fuel →
    off + i + todo ≤ (v.getObjs ref).size →
    (∀ j, i ≤ j → j < i + todo → ∀ r o l, (v.getObjs ref)[off + j]? ≠ some (.proc r o l)) →
    ∃ v', bindLoop fuel v ref off depth i todo = (v', .ok) ∧ FlatPost v v' ref (off + i) todo := by
  intro fuel
  induction fuel with
  | zero => intro todo i v h; omega
  | succ f ih =>
    intro todo i v hf hsz hflat
    cases todo with
    | zero => exact ⟨v, by simp only [bindLoop, okRes], .zero v ref _⟩
    | succ t =>
      simp only [bindLoop]
      have hlt : off + i < (v.getObjs ref).size := by omega
      have hget : (v.getObjs ref)[off + i]? = some (v.getObjs ref)[off + i] := Array.getElem?_eq_getElem hlt
      have hnp := hflat i (Nat.le_refl _) (by omega)
      -- the rest of the stretch, from any state whose cell agrees with `v` beyond `off + i`
      have rest : ∀ v1, FlatPost v v1 ref (off + i) 1 →
          ∃ v', bindLoop f v1 ref off depth (i + 1) t = (v', .ok) ∧ FlatPost v v' ref (off + i) (t + 1) := by
        intro v1 h1
        have hs1 : (v1.getObjs ref).size = (v.getObjs ref).size := h1.osize
        obtain ⟨v', hv', hp⟩ := ih t (i + 1) v1 (by omega) (by omega) (fun j hj1 hj2 r o l => by
          rw [h1.elems, if_neg (by omega)]
          exact hflat j (by omega) (by omega) r o l)
        exact ⟨v', hv', h1.cons (by rw [Nat.add_assoc]; exact hp)⟩
      rw [hget]
      simp only
      generalize (v.getObjs ref)[off + i] = elem at hget hnp
      split
      · next n =>
        split
        · next b hb => exact rest _ (FlatPost.set hget hb)
        · next hnb =>
          refine rest v (FlatPost.skip hget ?_)
          simp only [bindElem]
      · next r o l => exact absurd hget (hnp r o l)
      · next h1 h2 =>
        refine rest v (FlatPost.skip hget ?_)
        cases elem <;> first | rfl | exact absurd rfl (h1 _) | exact absurd rfl (h2 _ _ _)

/-! ### the fuel -/

theorem foldl_slots_ge (l : List Cell) (init : Nat) :
    init ≤ l.foldl (fun n c => match c with | .objs a => n + a.size + 1 | _ => n + 1) init := by
  induction l generalizing init with
  | nil => exact Nat.le_refl _
  | cons c cs ih =>
    simp only [List.foldl_cons]
    refine Nat.le_trans ?_ (ih _)
    split <;> omega

theorem foldl_slots_mem (l : List Cell) (init : Nat) (a : Array Obj) (hm : Cell.objs a ∈ l) :
    init + a.size + 1 ≤ l.foldl (fun n c => match c with | .objs a => n + a.size + 1 | _ => n + 1) init := by
  induction l generalizing init with
  | nil => simp at hm
  | cons c cs ih =>
    simp only [List.foldl_cons]
    rcases List.mem_cons.mp hm with rfl | hm
    · exact foldl_slots_ge cs _
    · refine Nat.le_trans ?_ (ih _ hm)
      split <;> omega

/-- an object cell is smaller than the slot count of the heap -/
theorem size_lt_heapSlots {v : VM} {r : Nat} {a : Array Obj} (h : v.heap[r]? = some (.objs a)) :
    a.size + 1 ≤ heapSlots v := by
  have hm : Cell.objs a ∈ v.heap.toList := Array.mem_toList_iff.mpr (Array.mem_of_getElem? h)
  have := foldl_slots_mem v.heap.toList 0 a hm
  rw [Array.foldl_toList] at this
  have h2 : 0 + a.size + 1 ≤ heapSlots v := this
  omega

theorem getObjs_size_le_heapSlots (v : VM) (r : Nat) : (v.getObjs r).size ≤ heapSlots v := by
  rcases Nat.eq_zero_or_pos (v.getObjs r).size with h | h
  · omega
  · have := size_lt_heapSlots (cell_of_getObjs_pos h); omega

/-- the fuel `bBind` passes covers a whole cell with room to spare -/
theorem bind_fuel_enough (v : VM) (r l : Nat) (h : l ≤ (v.getObjs r).size) :
    ∃ f, (heapSlots v + 2) * (maxBindDepth + 3) = f + 1 ∧ l + 1 ≤ f := by
  have h1 := getObjs_size_le_heapSlots v r
  refine ⟨(heapSlots v + 2) * (maxBindDepth + 3) - 1, ?_, ?_⟩ <;> simp only [maxBindDepth] <;> omega

end PsVerif.Proofs.C03Bind
