import PsVerif.Model.Interp
/-!
Fuel monotonicity of the interpreter model: a call of any function of the mutual block that
does not end with `Res.fuel` returns exactly the same pair with any larger fuel.

The induction is set up for a general "bad" result `bad ∈ {.fuel, .err .limit}` and two
configurations `(f, m)` and `(f', m')` of fuel and budget, because the same simultaneous
induction also gives budget transparency (`InterpBudget.lean`): both results are passed on
unchanged by every caller in the mutual block.
-/
namespace PsVerif.Proofs.InterpFuel
open PsVerif.Model

/-- `q` is the same outcome as `p`, unless `p` ended with the result `bad` -/
def Rel (bad : Res) (p q : State × Res) : Prop := p.2 ≠ bad → q = p

theorem Rel.rfl' {bad : Res} (p : State × Res) : Rel bad p p := fun _ => rfl

theorem rel_bad {bad : Res} (s : State) (q : State × Res) : Rel bad (s, bad) q := fun h => absurd rfl h

/-- the two results that every function of the mutual block passes on unchanged -/
def Passed (bad : Res) : Prop := bad = .fuel ∨ bad = .err .limit

/-- the budgets are equal, or the second one is "no budget" and we follow `.err .limit` -/
def Budgets (bad : Res) (m m' : Nat) : Prop := m' = m ∨ (m' = 0 ∧ bad = .err .limit)

/-- the statement proved for all functions of the mutual block at once: configuration
`(f', m')` gives the same outcome as `(f, m)` unless the latter ends with `bad` -/
structure AllRel (bad : Res) (f m f' m' : Nat) : Prop where
  one : ∀ s o b, Rel bad (execOne f m s o b) (execOne f' m' s o b)
  body : ∀ s o b, Rel bad (execBody f m s o b) (execBody f' m' s o b)
  tail : ∀ s o b, Rel bad (execTail f m s o b) (execTail f' m' s o b)
  run : ∀ s r o i n, Rel bad (runBody f m s r o i n) (runBody f' m' s r o i n)
  call : ∀ s id, Rel bad (callBuiltin f m s id) (callBuiltin f' m' s id)
  forL : ∀ s v i l p, Rel bad (forLoop f m s v i l p) (forLoop f' m' s v i l p)
  rep : ∀ s n p, Rel bad (repeatLoop f m s n p) (repeatLoop f' m' s n p)
  loop : ∀ s p, Rel bad (loopLoop f m s p) (loopLoop f' m' s p)
  fArr : ∀ s r o i n p, Rel bad (forallArr f m s r o i n p) (forallArr f' m' s r o i n p)
  fStr : ∀ s r o i n p, Rel bad (forallStr f m s r o i n p) (forallStr f' m' s r o i n p)
  fDict : ∀ s d ks p, Rel bad (forallDict f m s d ks p) (forallDict f' m' s d ks p)
  sRun : ∀ s, Rel bad (scanRun f m s) (scanRun f' m' s)
  sLoop : ∀ s, Rel bad (scanLoop f m s) (scanLoop f' m' s)

/-- Synchronise a pair of sub-calls: `h : Rel bad p p'` with `p`, `p'` variables of the goal
`Rel bad (K p) (K' p')`.  Closes the case where `p` ended with `bad` (the continuation passes
it on) and leaves the goal `Rel bad (K (s, r)) (K' (s, r))`. -/
syntax "sync " ident ident " using " ident ident : tactic
macro_rules
  | `(tactic| sync $p $h using $bad $hbad) => `(tactic|
      (by_cases hr : Prod.snd $p = $bad
       · obtain ⟨s, r⟩ := $p
         dsimp only at hr
         subst hr
         intro hh
         exfalso
         apply hh
         rcases $hbad:ident with e | e <;> subst e <;> rfl
       have e := $h hr
       subst e
       clear hr $h))

theorem rel_limit_test {bad : Res} {c c' : Prop} [Decidable c] [Decidable c'] {l x y : State × Res}
    (h1 : c' → c) (h2 : c → ¬ c' → l.2 = bad) (h : Rel bad x y) :
    Rel bad (if c then l else x) (if c' then l else y) := by
  by_cases hc : c
  · by_cases hc' : c'
    · rw [if_pos hc, if_pos hc']; exact Rel.rfl' _
    · rw [if_pos hc, if_neg hc']; intro hh; exact absurd (h2 hc hc') hh
  · have hc' : ¬ c' := fun a => hc (h1 a)
    rw [if_neg hc, if_neg hc']; exact h

theorem step_execOne {bad : Res} {f m f' m' : Nat} (hbad : Passed bad) (ih : AllRel bad f m f' m')
    (s : State) (o : Obj) (b : Bool) :
    Rel bad (execOne (f + 1) m s o b) (execOne (f' + 1) m' s o b) := by
  unfold execOne
  split
  · split
    · exact Rel.rfl' _
    · have h1 := ih.body { s with execDepth := s.execDepth + 1, hiDepth := max s.hiDepth (s.execDepth + 1) } o true
      generalize execBody f m _ o true = p1 at h1 ⊢
      generalize execBody f' m' _ o true = p1' at h1 ⊢
      sync p1 h1 using bad hbad
      exact Rel.rfl' _
  · exact ih.body s o false

theorem step_execBody {bad : Res} {f m f' m' : Nat} (ih : AllRel bad f m f' m')
    (s : State) (o : Obj) (b : Bool) :
    Rel bad (execBody (f + 1) m s o b) (execBody (f' + 1) m' s o b) := by
  unfold execBody
  repeat' split
  all_goals first
    | exact Rel.rfl' _
    | exact ih.tail s o b

theorem step_execTail {bad : Res} {f m f' m' : Nat} (hbad : Passed bad) (hm : Budgets bad m m')
    (ih : AllRel bad f m f' m') (s : State) (o : Obj) (b : Bool) :
    Rel bad (execTail (f + 1) m s o b) (execTail (f' + 1) m' s o b) := by
  unfold execTail
  conv => zeta
  generalize ({ s with numOps := s.numOps + 1 } : State) = s'
  apply rel_limit_test
  · rcases hm with rfl | ⟨rfl, _⟩
    · exact id
    · intro h; exact absurd h.1 (Nat.lt_irrefl 0)
  · rcases hm with rfl | ⟨rfl, rfl⟩
    · intro h h'; exact absurd h h'
    · intros; rfl
  · split
    · split
      · exact Rel.rfl' _
      · exact ih.tail s' _ true
    · rename_i id
      have h1 := ih.call s' id
      generalize callBuiltin f m s' id = p1 at h1 ⊢
      generalize callBuiltin f' m' s' id = p1' at h1 ⊢
      sync p1 h1 using bad hbad
      split
      rename_i s1 r1
      split
      · rename_i name
        split
        · dsimp only
          split
          · rename_i handler _
            have h3 := ih.one { s1 with errors := name :: s1.errors, hiErrors := max s1.hiErrors (s1.errors.length + 1) } handler true
            generalize execOne f m _ handler true = p3 at h3 ⊢
            generalize execOne f' m' _ handler true = p3' at h3 ⊢
            sync p3 h3 using bad hbad
            exact Rel.rfl' _
          · exact Rel.rfl' _
        · exact Rel.rfl' _
      · exact Rel.rfl' _
    · sorry
    · sorry

end PsVerif.Proofs.InterpFuel
