import PsVerif.Model.Interp
/-!
Fuel monotonicity of the interpreter model: a call of any function of the mutual block that
does not end with `Res.fuel` returns exactly the same pair with any larger fuel.

The induction is set up for a general "bad" result `bad ∈ {.fuel, .err .limit}` and two
configurations `(f, m)` and `(f', m')` of fuel and budget, because the same simultaneous
induction also gives budget transparency (`InterpBudget.lean`): both results are passed on
unchanged by every caller in the mutual block.
-/
namespace PsVerif.Proofs.InterpFuel
open PsVerif.Model

/-- `q` is the same outcome as `p`, unless `p` ended with the result `bad` -/
def Rel (bad : Res) (p q : State × Res) : Prop := p.2 ≠ bad → q = p

theorem Rel.rfl' {bad : Res} (p : State × Res) : Rel bad p p := fun _ => rfl

theorem rel_bad {bad : Res} (s : State) (q : State × Res) : Rel bad (s, bad) q := fun h => absurd rfl h

theorem rel_of_bad {bad : Res} {p q : State × Res} (h : p.2 = bad) : Rel bad p q := fun hn => absurd h hn

/-- the two results that every function of the mutual block passes on unchanged -/
def Passed (bad : Res) : Prop := bad = .fuel ∨ bad = .err .limit

/-- the budgets are equal, or the second one is "no budget" and we follow `.err .limit` -/
def Budgets (bad : Res) (m m' : Nat) : Prop := m' = m ∨ (m' = 0 ∧ bad = .err .limit)

/-- the statement proved for all functions of the mutual block at once: configuration
`(f', m')` gives the same outcome as `(f, m)` unless the latter ends with `bad` -/
structure AllRel (bad : Res) (f m f' m' : Nat) : Prop where
  one : ∀ s o b, Rel bad (execOne f m s o b) (execOne f' m' s o b)
  body : ∀ s o b, Rel bad (execBody f m s o b) (execBody f' m' s o b)
  tail : ∀ s o b c, Rel bad (execTail f m s o b c) (execTail f' m' s o b c)
  run : ∀ s r o i n, Rel bad (runBody f m s r o i n) (runBody f' m' s r o i n)
  call : ∀ s id, Rel bad (callBuiltin f m s id) (callBuiltin f' m' s id)
  forL : ∀ s v i l p, Rel bad (forLoop f m s v i l p) (forLoop f' m' s v i l p)
  rep : ∀ s n p, Rel bad (repeatLoop f m s n p) (repeatLoop f' m' s n p)
  loop : ∀ s p, Rel bad (loopLoop f m s p) (loopLoop f' m' s p)
  fArr : ∀ s r o i n p, Rel bad (forallArr f m s r o i n p) (forallArr f' m' s r o i n p)
  fStr : ∀ s r o i n p, Rel bad (forallStr f m s r o i n p) (forallStr f' m' s r o i n p)
  fDict : ∀ s d ks p, Rel bad (forallDict f m s d ks p) (forallDict f' m' s d ks p)
  sRun : ∀ s, Rel bad (scanRun f m s) (scanRun f' m' s)
  sLoop : ∀ s, Rel bad (scanLoop f m s) (scanLoop f' m' s)

/-- Synchronise a pair of sub-calls: `h : Rel bad p p'` with `p`, `p'` variables of the goal
`Rel bad (K p) (K' p')`.  Closes the case where `p` ended with `bad` (the continuation passes
it on: `.fuel` and `.err .limit` always fall into the `| _ => (s1, r)` branch) and leaves the
goal `Rel bad (K p) (K' p)` with `p' := p` substituted; continue with `split` on the pair. -/
syntax "sync " ident ident " using " ident ident : tactic
macro_rules
  | `(tactic| sync $p $h using $bad $hbad) => `(tactic|
      (by_cases hr : Prod.snd $p = $bad
       · obtain ⟨s, r⟩ := $p
         dsimp only at hr
         subst hr
         intro hh
         exfalso
         apply hh
         rcases $hbad:ident with e | e <;> subst e <;> rfl
       have e := $h hr
       subst e
       clear hr $h))

theorem rel_limit_test {bad : Res} {c c' : Prop} [Decidable c] [Decidable c'] {l l' x y : State × Res}
    (h1 : c' → c) (hl : c' → l' = l) (h2 : c → ¬ c' → l.2 = bad) (h : Rel bad x y) :
    Rel bad (if c then l else x) (if c' then l' else y) := by
  by_cases hc : c
  · by_cases hc' : c'
    · rw [if_pos hc, if_pos hc', hl hc']; exact Rel.rfl' _
    · rw [if_pos hc, if_neg hc']; intro hh; exact absurd (h2 hc hc') hh
  · have hc' : ¬ c' := fun a => hc (h1 a)
    rw [if_neg hc, if_neg hc']; exact h

theorem step_execOne {bad : Res} {f m f' m' : Nat} (hbad : Passed bad) (ih : AllRel bad f m f' m')
    (s : State) (o : Obj) (b : Bool) :
    Rel bad (execOne (f + 1) m s o b) (execOne (f' + 1) m' s o b) := by
  unfold execOne
  split
  · split
    · exact Rel.rfl' _
    · have h1 := ih.body { s with execDepth := s.execDepth + 1, hiDepth := max s.hiDepth (s.execDepth + 1) } o true
      generalize execBody f m _ o true = p1 at h1 ⊢
      generalize execBody f' m' _ o true = p1' at h1 ⊢
      sync p1 h1 using bad hbad
      exact Rel.rfl' _
  · exact ih.body s o false

theorem step_execBody {bad : Res} {f m f' m' : Nat} (ih : AllRel bad f m f' m')
    (s : State) (o : Obj) (b : Bool) :
    Rel bad (execBody (f + 1) m s o b) (execBody (f' + 1) m' s o b) := by
  unfold execBody
  repeat' split
  all_goals first
    | exact Rel.rfl' _
    | exact ih.tail s o b b

theorem rel_leave {bad : Res} {c : Bool} {p q : State × Res} (h : Rel bad p q) :
    Rel bad (leaveLevel c p) (leaveLevel c q) := by
  intro hb
  have : p.2 ≠ bad := by
    unfold leaveLevel at hb
    split at hb <;> exact hb
  rw [h this]

theorem step_execTail {bad : Res} {f m f' m' : Nat} (hbad : Passed bad) (hm : Budgets bad m m')
    (ih : AllRel bad f m f' m') (s : State) (o : Obj) (b c : Bool) :
    Rel bad (execTail (f + 1) m s o b c) (execTail (f' + 1) m' s o b c) := by
  unfold execTail
  conv => zeta
  generalize ({ s with numOps := s.numOps + 1 } : State) = s'
  apply rel_limit_test
  · rcases hm with rfl | ⟨rfl, _⟩
    · exact id
    · intro h; exact absurd h.1 (Nat.lt_irrefl 0)
  · rcases hm with rfl | ⟨rfl, _⟩
    · intro _; rfl
    · intro h; exact absurd h.1 (Nat.lt_irrefl 0)
  · rcases hm with rfl | ⟨rfl, rfl⟩
    · intro h h'; exact absurd h h'
    · intros; rfl
  · split
    · split
      · exact Rel.rfl' _
      · exact ih.tail s' _ true c
    · rename_i id
      have h1 := ih.call s' id
      generalize callBuiltin f m s' id = p1 at h1 ⊢
      generalize callBuiltin f' m' s' id = p1' at h1 ⊢
      sync p1 h1 using bad hbad
      split
      rename_i s1 r1
      split
      · rename_i name
        split
        · dsimp only
          split
          · rename_i handler _
            have h3 := ih.one { s1 with errors := name :: s1.errors, hiErrors := max s1.hiErrors (s1.errors.length + 1) } handler true
            generalize execOne f m _ handler true = p3 at h3 ⊢
            generalize execOne f' m' _ handler true = p3' at h3 ⊢
            sync p3 h3 using bad hbad
            exact Rel.rfl' _
          · exact Rel.rfl' _
        · exact Rel.rfl' _
      · exact Rel.rfl' _
    · rename_i ref off len
      split
      · split
        · exact Rel.rfl' _
        · split
          · exact Rel.rfl' _
          · apply rel_leave
            have h1 := ih.run (enterLevel c s') ref off 0 (len - 1)
            generalize runBody f m (enterLevel c s') ref off 0 (len - 1) = p1 at h1 ⊢
            generalize runBody f' m' (enterLevel c s') ref off 0 (len - 1) = p1' at h1 ⊢
            sync p1 h1 using bad hbad
            split
            rename_i s1 r1
            split
            · split
              · exact ih.tail s1 _ false true
              · exact Rel.rfl' _
            · exact Rel.rfl' _
      · exact Rel.rfl' _
    · exact Rel.rfl' _

theorem step_runBody {bad : Res} {f m f' m' : Nat} (hbad : Passed bad) (ih : AllRel bad f m f' m')
    (s : State) (r o i t : Nat) :
    Rel bad (runBody (f + 1) m s r o i t) (runBody (f' + 1) m' s r o i t) := by
  cases t with
  | zero => unfold runBody; exact Rel.rfl' _
  | succ t =>
    unfold runBody
    split
    · exact Rel.rfl' _
    · rename_i tok _
      have h1 := ih.one s tok false
      generalize execOne f m s tok false = p1 at h1 ⊢
      generalize execOne f' m' s tok false = p1' at h1 ⊢
      sync p1 h1 using bad hbad
      split
      rename_i s1 r1
      split
      · exact ih.run s1 r o (i + 1) t
      · exact Rel.rfl' _

/-- the common shape of the looping operators: stop at `exit`, continue on `ok`, pass on
anything else -/
def loopResult (p : State × Res) (next : State → State × Res) : State × Res :=
  match p with
  | (s1, r1) =>
    match r1 with
    | .err .exit => okS s1
    | .ok => next s1
    | _ => (s1, r1)

theorem rel_loop {bad : Res} (hbad : Passed bad) {p p' : State × Res} {next next' : State → State × Res}
    (h1 : Rel bad p p') (hn : ∀ s, Rel bad (next s) (next' s)) :
    Rel bad (loopResult p next) (loopResult p' next') := by
  sync p h1 using bad hbad
  unfold loopResult
  split
  rename_i s1 r1
  split
  · exact Rel.rfl' _
  · exact hn s1
  · exact Rel.rfl' _

theorem step_forLoop {bad : Res} {f m f' m' : Nat} (hbad : Passed bad) (ih : AllRel bad f m f' m')
    (s : State) (v i l : Int) (p : Obj) :
    Rel bad (forLoop (f + 1) m s v i l p) (forLoop (f' + 1) m' s v i l p) := by
  unfold forLoop
  split
  · exact Rel.rfl' _
  · exact rel_loop hbad (next := fun s1 => if i > 0 ∧ v > maxInt64 - i ∨ i < 0 ∧ v < minInt64 - i then okS s1
        else forLoop f m s1 (wrap64 (v + i)) i l p)
      (next' := fun s1 => if i > 0 ∧ v > maxInt64 - i ∨ i < 0 ∧ v < minInt64 - i then okS s1
        else forLoop f' m' s1 (wrap64 (v + i)) i l p)
      (ih.one (pushS s (.int v)) p true)
      (fun s1 => by
        split
        · exact Rel.rfl' _
        · exact ih.forL s1 _ i l p)

theorem step_repeatLoop {bad : Res} {f m f' m' : Nat} (hbad : Passed bad) (ih : AllRel bad f m f' m')
    (s : State) (k : Nat) (p : Obj) :
    Rel bad (repeatLoop (f + 1) m s k p) (repeatLoop (f' + 1) m' s k p) := by
  cases k with
  | zero => unfold repeatLoop; exact Rel.rfl' _
  | succ k =>
    unfold repeatLoop
    exact rel_loop hbad (ih.one s p true) (fun s1 => ih.rep s1 k p)

theorem step_loopLoop {bad : Res} {f m f' m' : Nat} (hbad : Passed bad) (ih : AllRel bad f m f' m')
    (s : State) (p : Obj) :
    Rel bad (loopLoop (f + 1) m s p) (loopLoop (f' + 1) m' s p) := by
  unfold loopLoop
  exact rel_loop hbad (ih.one s p true) (fun s1 => ih.loop s1 p)

theorem step_forallArr {bad : Res} {f m f' m' : Nat} (hbad : Passed bad) (ih : AllRel bad f m f' m')
    (s : State) (r o i t : Nat) (p : Obj) :
    Rel bad (forallArr (f + 1) m s r o i t p) (forallArr (f' + 1) m' s r o i t p) := by
  cases t with
  | zero => unfold forallArr; exact Rel.rfl' _
  | succ t =>
    unfold forallArr
    split
    · exact Rel.rfl' _
    · rename_i v _
      exact rel_loop hbad (ih.one (pushS s v) p true) (fun s1 => ih.fArr s1 r o (i + 1) t p)

theorem step_forallStr {bad : Res} {f m f' m' : Nat} (hbad : Passed bad) (ih : AllRel bad f m f' m')
    (s : State) (r o i t : Nat) (p : Obj) :
    Rel bad (forallStr (f + 1) m s r o i t p) (forallStr (f' + 1) m' s r o i t p) := by
  cases t with
  | zero => unfold forallStr; exact Rel.rfl' _
  | succ t =>
    unfold forallStr
    split
    · exact Rel.rfl' _
    · rename_i c _
      exact rel_loop hbad (ih.one (pushS s (.int c.toNat)) p true) (fun s1 => ih.fStr s1 r o (i + 1) t p)

theorem step_forallDict {bad : Res} {f m f' m' : Nat} (hbad : Passed bad) (ih : AllRel bad f m f' m')
    (s : State) (d : Nat) (ks : List Name) (p : Obj) :
    Rel bad (forallDict (f + 1) m s d ks p) (forallDict (f' + 1) m' s d ks p) := by
  cases ks with
  | nil => unfold forallDict; exact Rel.rfl' _
  | cons k ks =>
    unfold forallDict
    split
    · exact ih.fDict s d ks p
    · rename_i v _
      exact rel_loop hbad (ih.one (setStack s (v :: .name k :: s.vm.stack)) p true) (fun s1 => ih.fDict s1 d ks p)

theorem step_scanLoop {bad : Res} {f m f' m' : Nat} (hbad : Passed bad) (ih : AllRel bad f m f' m')
    (s : State) : Rel bad (scanLoop (f + 1) m s) (scanLoop (f' + 1) m' s) := by
  unfold scanLoop
  generalize withScanner s Scan.scanToken = p0
  split
  rename_i s1 r0
  split
  · exact Rel.rfl' _
  · exact Rel.rfl' _
  · rename_i tok
    generalize objOfTok s1 tok = p2
    split
    rename_i s2 o
    have h3 := ih.one s2 o false
    generalize execOne f m s2 o false = p3 at h3 ⊢
    generalize execOne f' m' s2 o false = p3' at h3 ⊢
    sync p3 h3 using bad hbad
    split
    rename_i s3 r3
    split
    · exact ih.sLoop s3
    · exact Rel.rfl' _

theorem step_scanRun {bad : Res} {f m f' m' : Nat} (hbad : Passed bad) (ih : AllRel bad f m f' m')
    (s : State) : Rel bad (scanRun (f + 1) m s) (scanRun (f' + 1) m' s) := by
  unfold scanRun
  conv => zeta
  generalize (if s.checkStart = true then _ else (s, none) : State × Option Err) = st
  split
  · exact Rel.rfl' _
  · rename_i s1
    have h2 := ih.sLoop { s1 with scannerDepth := s1.scannerDepth + 1 }
    generalize scanLoop f m _ = p2 at h2 ⊢
    generalize scanLoop f' m' _ = p2' at h2 ⊢
    sync p2 h2 using bad hbad
    exact Rel.rfl' _

theorem step_callBuiltin {bad : Res} {f m f' m' : Nat} (hbad : Passed bad) (ih : AllRel bad f m f' m')
    (s : State) (id : String) : Rel bad (callBuiltin (f + 1) m s id) (callBuiltin (f' + 1) m' s id) := by
  unfold callBuiltin
  split
  · -- exec
    repeat' split
    all_goals first
      | exact Rel.rfl' _
      | exact ih.call _ _
      | exact ih.one _ _ _
  · -- if
    repeat' split
    all_goals first
      | exact Rel.rfl' _
      | exact ih.one _ _ _
  · -- ifelse
    repeat' split
    all_goals first
      | exact Rel.rfl' _
      | exact ih.one _ _ _
  · -- for
    repeat' split
    all_goals first
      | exact Rel.rfl' _
      | exact ih.forL _ _ _ _ _
  · -- repeat
    repeat' split
    all_goals first
      | exact Rel.rfl' _
      | exact ih.rep _ _ _
  · -- loop
    repeat' split
    all_goals first
      | exact Rel.rfl' _
      | exact ih.loop _ _
  · -- forall
    repeat' split
    all_goals first
      | exact Rel.rfl' _
      | exact ih.fArr _ _ _ _ _ _
      | exact ih.fStr _ _ _ _ _ _
      | exact ih.fDict _ _ _ _
  · exact Rel.rfl' _
  · exact Rel.rfl' _
  · -- eexec
    split
    · exact Rel.rfl' _
    · rename_i rest _
      conv => zeta
      split
      · exact Rel.rfl' _
      · generalize withScanner _ Scan.beginEexec = p2
        split
        rename_i s2 r2
        split
        · exact Rel.rfl' _
        · have h3 := ih.sRun s2
          generalize scanRun f m s2 = p3 at h3 ⊢
          generalize scanRun f' m' s2 = p3' at h3 ⊢
          sync p3 h3 using bad hbad
          repeat' split
          all_goals exact Rel.rfl' _
    · exact Rel.rfl' _
  · exact Rel.rfl' _

/-! ### the induction -/

theorem Rel.trans {bad : Res} {p q r : State × Res} (h1 : Rel bad p q) (h2 : Rel bad q r) : Rel bad p r := by
  intro h
  have e := h1 h
  subst e
  exact h2 h

theorem AllRel.refl (bad : Res) (f m : Nat) : AllRel bad f m f m :=
  ⟨fun _ _ _ => Rel.rfl' _,
   fun _ _ _ => Rel.rfl' _,
   fun _ _ _ _ => Rel.rfl' _,
   fun _ _ _ _ _ => Rel.rfl' _,
   fun _ _ => Rel.rfl' _,
   fun _ _ _ _ _ => Rel.rfl' _,
   fun _ _ _ => Rel.rfl' _,
   fun _ _ => Rel.rfl' _,
   fun _ _ _ _ _ _ => Rel.rfl' _,
   fun _ _ _ _ _ _ => Rel.rfl' _,
   fun _ _ _ _ => Rel.rfl' _,
   fun _ => Rel.rfl' _,
   fun _ => Rel.rfl' _⟩

theorem AllRel.trans {bad : Res} {f m f' m' f'' m'' : Nat} (h1 : AllRel bad f m f' m')
    (h2 : AllRel bad f' m' f'' m'') : AllRel bad f m f'' m'' :=
  ⟨fun s o b => (h1.one s o b).trans (h2.one s o b),
   fun s o b => (h1.body s o b).trans (h2.body s o b),
   fun s o b c => (h1.tail s o b c).trans (h2.tail s o b c),
   fun s r o i n => (h1.run s r o i n).trans (h2.run s r o i n),
   fun s id => (h1.call s id).trans (h2.call s id),
   fun s v i l p => (h1.forL s v i l p).trans (h2.forL s v i l p),
   fun s n p => (h1.rep s n p).trans (h2.rep s n p),
   fun s p => (h1.loop s p).trans (h2.loop s p),
   fun s r o i n p => (h1.fArr s r o i n p).trans (h2.fArr s r o i n p),
   fun s r o i n p => (h1.fStr s r o i n p).trans (h2.fStr s r o i n p),
   fun s d ks p => (h1.fDict s d ks p).trans (h2.fDict s d ks p),
   fun s => (h1.sRun s).trans (h2.sRun s),
   fun s => (h1.sLoop s).trans (h2.sLoop s)⟩

/-- one more unit of fuel on both sides -/
theorem AllRel.step {bad : Res} {f m f' m' : Nat} (hbad : Passed bad) (hm : Budgets bad m m')
    (ih : AllRel bad f m f' m') : AllRel bad (f + 1) m (f' + 1) m' :=
  ⟨step_execOne hbad ih, step_execBody ih, step_execTail hbad hm ih, step_runBody hbad ih,
   step_callBuiltin hbad ih, step_forLoop hbad ih, step_repeatLoop hbad ih, step_loopLoop hbad ih,
   step_forallArr hbad ih, step_forallStr hbad ih, step_forallDict hbad ih, step_scanRun hbad ih,
   step_scanLoop hbad ih⟩

/-- `Interpreter.Execute` passes the result of `scanRun` on, except `ok`, `exit` and `stop` -/
theorem rel_execute {bad : Res} {f m f' m' : Nat} (hbad : Passed bad) (s : State) (input : List UInt8)
    (fault : Option String)
    (h : ∀ s0, Rel bad (scanRun f m s0) (scanRun f' m' s0)) :
    Rel bad (execute f m s input fault) (execute f' m' s input fault) := by
  unfold execute
  conv => zeta
  have h1 := h { s with scanner := { src := input, fault := fault } }
  generalize scanRun f m _ = p1 at h1 ⊢
  generalize scanRun f' m' _ = p1' at h1 ⊢
  sync p1 h1 using bad hbad
  exact Rel.rfl' _

/-! ### fuel monotonicity -/

/-- **one more unit of fuel does not change a call that did not run out of fuel**, for all
functions of the mutual block at once -/
theorem fuel_succ (m : Nat) : ∀ f, AllRel .fuel f m (f + 1) m
  | 0 =>
    ⟨fun _ _ _ => rel_of_bad (by simp only [execOne]),
     fun _ _ _ => rel_of_bad (by simp only [execBody]),
     fun _ _ _ _ => rel_of_bad (by simp only [execTail]),
     fun _ _ _ _ _ => rel_of_bad (by simp only [runBody]),
     fun _ _ => rel_of_bad (by simp only [callBuiltin]),
     fun _ _ _ _ _ => rel_of_bad (by simp only [forLoop]),
     fun _ _ _ => rel_of_bad (by simp only [repeatLoop]),
     fun _ _ => rel_of_bad (by simp only [loopLoop]),
     fun _ _ _ _ _ _ => rel_of_bad (by simp only [forallArr]),
     fun _ _ _ _ _ _ => rel_of_bad (by simp only [forallStr]),
     fun _ _ _ _ => rel_of_bad (by simp only [forallDict]),
     fun _ => rel_of_bad (by simp only [scanRun]),
     fun _ => rel_of_bad (by simp only [scanLoop])⟩
  | f + 1 => (fuel_succ m f).step (Or.inl rfl) (Or.inl rfl)

/-- **any larger fuel gives the same outcome as a fuel that was enough** -/
theorem fuel_le (m : Nat) {f f' : Nat} (h : f ≤ f') : AllRel .fuel f m f' m := by
  induction h with
  | refl => exact AllRel.refl _ _ _
  | step _ ih => exact ih.trans (fuel_succ m _)

theorem execOne_fuel_succ (f m : Nat) (s : State) (o : Obj) (b : Bool)
    (h : (execOne f m s o b).2 ≠ .fuel) : execOne (f + 1) m s o b = execOne f m s o b :=
  (fuel_succ m f).one s o b h

theorem execBody_fuel_succ (f m : Nat) (s : State) (o : Obj) (b : Bool)
    (h : (execBody f m s o b).2 ≠ .fuel) : execBody (f + 1) m s o b = execBody f m s o b :=
  (fuel_succ m f).body s o b h

theorem execTail_fuel_succ (f m : Nat) (s : State) (o : Obj) (b c : Bool)
    (h : (execTail f m s o b c).2 ≠ .fuel) : execTail (f + 1) m s o b c = execTail f m s o b c :=
  (fuel_succ m f).tail s o b c h

theorem runBody_fuel_succ (f m : Nat) (s : State) (r o i n : Nat)
    (h : (runBody f m s r o i n).2 ≠ .fuel) : runBody (f + 1) m s r o i n = runBody f m s r o i n :=
  (fuel_succ m f).run s r o i n h

theorem callBuiltin_fuel_succ (f m : Nat) (s : State) (id : String)
    (h : (callBuiltin f m s id).2 ≠ .fuel) : callBuiltin (f + 1) m s id = callBuiltin f m s id :=
  (fuel_succ m f).call s id h

theorem forLoop_fuel_succ (f m : Nat) (s : State) (v i l : Int) (p : Obj)
    (h : (forLoop f m s v i l p).2 ≠ .fuel) : forLoop (f + 1) m s v i l p = forLoop f m s v i l p :=
  (fuel_succ m f).forL s v i l p h

theorem repeatLoop_fuel_succ (f m : Nat) (s : State) (n : Nat) (p : Obj)
    (h : (repeatLoop f m s n p).2 ≠ .fuel) : repeatLoop (f + 1) m s n p = repeatLoop f m s n p :=
  (fuel_succ m f).rep s n p h

theorem loopLoop_fuel_succ (f m : Nat) (s : State) (p : Obj)
    (h : (loopLoop f m s p).2 ≠ .fuel) : loopLoop (f + 1) m s p = loopLoop f m s p :=
  (fuel_succ m f).loop s p h

theorem forallArr_fuel_succ (f m : Nat) (s : State) (r o i n : Nat) (p : Obj)
    (h : (forallArr f m s r o i n p).2 ≠ .fuel) : forallArr (f + 1) m s r o i n p = forallArr f m s r o i n p :=
  (fuel_succ m f).fArr s r o i n p h

theorem forallStr_fuel_succ (f m : Nat) (s : State) (r o i n : Nat) (p : Obj)
    (h : (forallStr f m s r o i n p).2 ≠ .fuel) : forallStr (f + 1) m s r o i n p = forallStr f m s r o i n p :=
  (fuel_succ m f).fStr s r o i n p h

theorem forallDict_fuel_succ (f m : Nat) (s : State) (d : Nat) (ks : List Name) (p : Obj)
    (h : (forallDict f m s d ks p).2 ≠ .fuel) : forallDict (f + 1) m s d ks p = forallDict f m s d ks p :=
  (fuel_succ m f).fDict s d ks p h

theorem scanRun_fuel_succ (f m : Nat) (s : State)
    (h : (scanRun f m s).2 ≠ .fuel) : scanRun (f + 1) m s = scanRun f m s :=
  (fuel_succ m f).sRun s h

theorem scanLoop_fuel_succ (f m : Nat) (s : State)
    (h : (scanLoop f m s).2 ≠ .fuel) : scanLoop (f + 1) m s = scanLoop f m s :=
  (fuel_succ m f).sLoop s h

theorem execOne_fuel_mono {f f' : Nat} (hf : f ≤ f') (m : Nat) (s : State) (o : Obj) (b : Bool)
    (h : (execOne f m s o b).2 ≠ .fuel) : execOne f' m s o b = execOne f m s o b :=
  (fuel_le m hf).one s o b h

theorem execBody_fuel_mono {f f' : Nat} (hf : f ≤ f') (m : Nat) (s : State) (o : Obj) (b : Bool)
    (h : (execBody f m s o b).2 ≠ .fuel) : execBody f' m s o b = execBody f m s o b :=
  (fuel_le m hf).body s o b h

theorem execTail_fuel_mono {f f' : Nat} (hf : f ≤ f') (m : Nat) (s : State) (o : Obj) (b c : Bool)
    (h : (execTail f m s o b c).2 ≠ .fuel) : execTail f' m s o b c = execTail f m s o b c :=
  (fuel_le m hf).tail s o b c h

theorem runBody_fuel_mono {f f' : Nat} (hf : f ≤ f') (m : Nat) (s : State) (r o i n : Nat)
    (h : (runBody f m s r o i n).2 ≠ .fuel) : runBody f' m s r o i n = runBody f m s r o i n :=
  (fuel_le m hf).run s r o i n h

theorem callBuiltin_fuel_mono {f f' : Nat} (hf : f ≤ f') (m : Nat) (s : State) (id : String)
    (h : (callBuiltin f m s id).2 ≠ .fuel) : callBuiltin f' m s id = callBuiltin f m s id :=
  (fuel_le m hf).call s id h

theorem forLoop_fuel_mono {f f' : Nat} (hf : f ≤ f') (m : Nat) (s : State) (v i l : Int) (p : Obj)
    (h : (forLoop f m s v i l p).2 ≠ .fuel) : forLoop f' m s v i l p = forLoop f m s v i l p :=
  (fuel_le m hf).forL s v i l p h

theorem repeatLoop_fuel_mono {f f' : Nat} (hf : f ≤ f') (m : Nat) (s : State) (n : Nat) (p : Obj)
    (h : (repeatLoop f m s n p).2 ≠ .fuel) : repeatLoop f' m s n p = repeatLoop f m s n p :=
  (fuel_le m hf).rep s n p h

theorem loopLoop_fuel_mono {f f' : Nat} (hf : f ≤ f') (m : Nat) (s : State) (p : Obj)
    (h : (loopLoop f m s p).2 ≠ .fuel) : loopLoop f' m s p = loopLoop f m s p :=
  (fuel_le m hf).loop s p h

theorem forallArr_fuel_mono {f f' : Nat} (hf : f ≤ f') (m : Nat) (s : State) (r o i n : Nat) (p : Obj)
    (h : (forallArr f m s r o i n p).2 ≠ .fuel) : forallArr f' m s r o i n p = forallArr f m s r o i n p :=
  (fuel_le m hf).fArr s r o i n p h

theorem forallStr_fuel_mono {f f' : Nat} (hf : f ≤ f') (m : Nat) (s : State) (r o i n : Nat) (p : Obj)
    (h : (forallStr f m s r o i n p).2 ≠ .fuel) : forallStr f' m s r o i n p = forallStr f m s r o i n p :=
  (fuel_le m hf).fStr s r o i n p h

theorem forallDict_fuel_mono {f f' : Nat} (hf : f ≤ f') (m : Nat) (s : State) (d : Nat) (ks : List Name) (p : Obj)
    (h : (forallDict f m s d ks p).2 ≠ .fuel) : forallDict f' m s d ks p = forallDict f m s d ks p :=
  (fuel_le m hf).fDict s d ks p h

theorem scanRun_fuel_mono {f f' : Nat} (hf : f ≤ f') (m : Nat) (s : State)
    (h : (scanRun f m s).2 ≠ .fuel) : scanRun f' m s = scanRun f m s :=
  (fuel_le m hf).sRun s h

theorem scanLoop_fuel_mono {f f' : Nat} (hf : f ≤ f') (m : Nat) (s : State)
    (h : (scanLoop f m s).2 ≠ .fuel) : scanLoop f' m s = scanLoop f m s :=
  (fuel_le m hf).sLoop s h

/-- fuel monotonicity of the top-level `Execute` -/
theorem execute_fuel_succ (f m : Nat) (s : State) (input : List UInt8) (fault : Option String)
    (h : (execute f m s input fault).2 ≠ .fuel) :
    execute (f + 1) m s input fault = execute f m s input fault :=
  rel_execute (Or.inl rfl) s input fault (fuel_succ m f).sRun h

theorem execute_fuel_mono {f f' : Nat} (hf : f ≤ f') (m : Nat) (s : State) (input : List UInt8)
    (fault : Option String) (h : (execute f m s input fault).2 ≠ .fuel) :
    execute f' m s input fault = execute f m s input fault :=
  rel_execute (Or.inl rfl) s input fault (fuel_le m hf).sRun h

#print axioms fuel_succ
#print axioms fuel_le
#print axioms execOne_fuel_mono
#print axioms scanRun_fuel_mono
#print axioms execute_fuel_succ
#print axioms execute_fuel_mono

end PsVerif.Proofs.InterpFuel
