import PsVerif.Proofs.T1Read
/-!
# C06 (reader side) — what `type1.Read` extracts from the interpreter's final state

`Model/T1Read.lean` models `type1.Read`: PFB unwrapping, `Execute` (budget 3 000 000, `CheckStart`), then the
extraction `extract vm dsc` of a font from the final virtual machine `vm` and the DSC comments.  The theorems below
are about the extraction and hold for EVERY `vm` (no bound, no well-formedness assumption).  The model is compared
with the Go reader by the verb `t1r` (`Driver/T1ReadDriver.lean`).

Notation: `privateOf vm`, `fontInfoOf vm`, `charStringsOf vm` are the dictionaries of the single font in
`FontDirectory`; `stageOf vm = some (enc, gs, ss)` gives the encoding as read, the decoded glyphs (name order) and
the recorded `seac` composites before these are resolved.

## (a) entries and defaults
`extract_fields`; `private_defaults`, `lenIV_default`, `info_defaults`, `fontMatrix_default`, `encoding_none`
(the documented defaults when entries are absent); per entry `…_present` (a present entry of the right type yields
its value) and `…_wrong_type` (a wrong type is **not an error**: it silently yields the default), with the error
cases `fontMatrix_invalid`, `encoding_invalid`.

## (b) lenIV
`lenIV_default`, `lenIV_present`, `lenIV_not_integer`; `lenIV_no_allocation`; `lenIV_usable_plain` (an entry that
is decoded at a `lenIV ≥ 0` always has its `lenIV` lead bytes); `lenIV_negative_plain`
(uses `Cipher.deobf_negative`) and `lenIV_negative_font`: a negative `lenIV` is **not** an error; every glyph
of the font silently becomes the empty glyph of width 0.

## (c) seac
`seac_composed`, `seac_fields`, `seac_base_unchanged`, `seac_independent`, `seac_self_accent`,
`seac_unresolved`, `seac_standard_codes`: the composite gets the base's outline followed by the accent's outline
moved by `(adx, ady)` (DESIGN.md 10.1: `asb` and the composite's own side bearing do not enter) and the base's
stems; it **keeps the width its own charstring declares**; the two codes are looked up in the **standard
encoding**, whatever `Encoding` the font has (also when it has none).  The base and the accent must be ordinary
glyphs: `seac_parts_not_composite` (a composite whose base or accent is the name of a composite of the font is left
as decoded), hence `seac_size_bound` / `seac_total_bound` (no glyph of the result has more than twice the commands
of the largest decoded glyph: chains of composites cannot double the outline at every link) and
`seac_order_independent` (the result does not depend on the order in which the composites are processed).

## (d) the glyph set
`glyph_names`, `glyph_names_sorted`, `glyphs_decoded`, `bad_charstring_fails`, `notdef_added`.

## (e) totality
`read_never_panics`.
-/
namespace PsVerif.Props.C06Read
open PsVerif.Base PsVerif.Model PsVerif.Model.T1Read PsVerif.Proofs.T1Read
open PsVerif.Model.T1Write (Bytes nameLe Matrix PrivateDict FontInfo)
open PsVerif.Model.T1Decode (Glyph Seac DErr decodeCharString)
set_option linter.unusedVariables false
set_option linter.unusedSimpArgs false

def str (s : String) : Bytes := s.toList.map (fun c => UInt8.ofNat c.toNat)

/-! ## (a) entries and defaults -/

/-- the fields of the result are the entry-wise functions `infoOf`, `privOf` of the font's dictionaries -/
theorem extract_fields {vm : VM} {dsc : List (String × String)} {f : Font} (h : extract vm dsc = .ok f) :
    ∃ fd fi pd, fontDictOf vm = some fd ∧ fontInfoOf vm = some fi ∧ privateOf vm = some pd ∧
      dictLookup fd "FontType" = some (.int 1) ∧
      fontMatrixOf vm (dictLookup fd "FontMatrix") = some f.info.fontMatrix ∧
      f.info = infoOf vm fd fi f.info.fontMatrix ∧ f.priv = privOf vm pd ∧ f.dates = datesOf dsc := by
  obtain ⟨fd, fi, fm, pd, enc, cs, gs, ss, gs1, h1, h2, h3, h4, h5, h6, h7, h8, h9, rfl⟩ := extract_ok h
  refine ⟨fd, fi, pd, h1, ?_, ?_, h2, h4, rfl, rfl, rfl⟩
  · simp [fontInfoOf, h1, h3]
  · simp [privateOf, h1, h5]

/-- the keys of the Private dictionary the reader looks at -/
def privateKeys : List Name :=
  ["BlueValues", "OtherBlues", "BlueScale", "BlueShift", "BlueFuzz", "StdHW", "StdVW", "ForceBold"]

/-- **defaults of the Private dictionary**: with none of the entries present the result is
`BlueValues = OtherBlues = nil`, `BlueScale = 0.039625`, `BlueShift = 7`, `BlueFuzz = 1`, `StdHW = StdVW = 0`,
`ForceBold = false` -/
theorem private_defaults (vm : VM) (pd : List (Name × Obj)) (h : ∀ k ∈ privateKeys, dictLookup pd k = none) :
    privOf vm pd = { blueValues := [], otherBlues := [], blueScale := real0039625, blueShift := 7, blueFuzz := 1,
                     stdHW := 0, stdVW := 0, forceBold := false } := by
  have h1 := h "BlueValues" (by simp [privateKeys])
  have h2 := h "OtherBlues" (by simp [privateKeys])
  have h3 := h "BlueScale" (by simp [privateKeys])
  have h4 := h "BlueShift" (by simp [privateKeys])
  have h5 := h "BlueFuzz" (by simp [privateKeys])
  have h6 := h "StdHW" (by simp [privateKeys])
  have h7 := h "StdVW" (by simp [privateKeys])
  have h8 := h "ForceBold" (by simp [privateKeys])
  simp [privOf, h1, h2, h3, h4, h5, h6, h7, h8, bluesOf, asArray, getReal, asInt, stdWOf, asBool]

/-- `0.039625`, `0.001` are the `float64`s nearest to the decimal texts -/
theorem real0039625_eq : real0039625 = SoftFloat.ofDecimal false 39625 (-6) := by decide +kernel
theorem real0001_eq : real0001 = SoftFloat.ofDecimal false 1 (-3) := by decide +kernel

theorem lenIV_default (pd : List (Name × Obj)) (h : dictLookup pd "lenIV" = none) : lenIVOf pd = 4 := by
  simp [lenIVOf, h, asInt]

theorem lenIV_present (pd : List (Name × Obj)) (n : Int) (h : dictLookup pd "lenIV" = some (.int n)) : lenIVOf pd = n := by
  simp [lenIVOf, h, asInt]

/-- a `lenIV` that is not an Integer (a Real such as `4.0` or `0.0` included) is ignored: 4 -/
theorem lenIV_not_integer (pd : List (Name × Obj)) (o : Obj) (h : dictLookup pd "lenIV" = some o) (ho : ∀ n, o ≠ .int n) :
    lenIVOf pd = 4 := by
  unfold lenIVOf
  rw [h]
  cases o <;> simp [asInt] at ho ⊢

theorem blueScale_present_real (vm : VM) (pd : List (Name × Obj)) (b : UInt64) (h : dictLookup pd "BlueScale" = some (.real b)) :
    (privOf vm pd).blueScale = b := by simp [privOf, h, getReal]

theorem blueScale_present_int (vm : VM) (pd : List (Name × Obj)) (i : Int) (h : dictLookup pd "BlueScale" = some (.int i)) :
    (privOf vm pd).blueScale = SoftFloat.ofInt i := by simp [privOf, h, getReal]

theorem blueScale_wrong_type (vm : VM) (pd : List (Name × Obj)) (o : Obj) (h : dictLookup pd "BlueScale" = some o)
    (h1 : ∀ b, o ≠ .real b) (h2 : ∀ i, o ≠ .int i) : (privOf vm pd).blueScale = real0039625 := by
  unfold privOf
  simp only [h]
  cases o <;> simp [getReal] at h1 h2 ⊢

theorem blueShift_present (vm : VM) (pd : List (Name × Obj)) (i : Int) (h : dictLookup pd "BlueShift" = some (.int i)) :
    (privOf vm pd).blueShift = wrap32 i := by simp [privOf, h, asInt]

/-- `int32(i)` is the identity on the range of `int32` -/
theorem wrap32_id (i : Int) (h : -2147483648 ≤ i ∧ i ≤ 2147483647) : wrap32 i = i := by
  unfold wrap32
  dsimp only
  split <;> omega

theorem wrap16_id (i : Int) (h : -32768 ≤ i ∧ i ≤ 32767) : wrap16 i = i := by
  unfold wrap16 T1Decode.wrap16
  dsimp only
  split <;> omega

/-- a `BlueShift` that is not an Integer (a Real included) silently gives 7 -/
theorem blueShift_wrong_type (vm : VM) (pd : List (Name × Obj)) (o : Obj) (h : dictLookup pd "BlueShift" = some o)
    (ho : ∀ i, o ≠ .int i) : (privOf vm pd).blueShift = 7 := by
  unfold privOf
  simp only [h]
  cases o <;> simp [asInt] at ho ⊢

theorem blueFuzz_present (vm : VM) (pd : List (Name × Obj)) (i : Int) (h : dictLookup pd "BlueFuzz" = some (.int i)) :
    (privOf vm pd).blueFuzz = wrap32 i := by simp [privOf, h, asInt]

theorem blueFuzz_wrong_type (vm : VM) (pd : List (Name × Obj)) (o : Obj) (h : dictLookup pd "BlueFuzz" = some o)
    (ho : ∀ i, o ≠ .int i) : (privOf vm pd).blueFuzz = 1 := by
  unfold privOf
  simp only [h]
  cases o <;> simp [asInt] at ho ⊢

theorem forceBold_present (vm : VM) (pd : List (Name × Obj)) (b : Bool) (h : dictLookup pd "ForceBold" = some (.bool b)) :
    (privOf vm pd).forceBold = b := by simp [privOf, h, asBool]

theorem int16sOf_ints (l : List Int) : int16sOf (l.map Obj.int) = some (l.map wrap16) := by
  induction l with
  | nil => rfl
  | cons a l ih => simp [int16sOf, ih]

/-- an array of integers is taken element by element (as `funit.Int16`) -/
theorem blueValues_present (vm : VM) (pd : List (Name × Obj)) (r off len : Nat) (l : List Int)
    (h : dictLookup pd "BlueValues" = some (.arr r off len)) (hl : vm.viewObjs r off len = l.map Obj.int) :
    (privOf vm pd).blueValues = l.map wrap16 := by
  simp [privOf, h, bluesOf, asArray, hl, int16sOf_ints]

theorem otherBlues_present (vm : VM) (pd : List (Name × Obj)) (r off len : Nat) (l : List Int)
    (h : dictLookup pd "OtherBlues" = some (.arr r off len)) (hl : vm.viewObjs r off len = l.map Obj.int) :
    (privOf vm pd).otherBlues = l.map wrap16 := by
  simp [privOf, h, bluesOf, asArray, hl, int16sOf_ints]

theorem int16sOf_bad (pre post : List Obj) (o : Obj) (ho : ∀ i, o ≠ .int i) : int16sOf (pre ++ o :: post) = none := by
  induction pre with
  | nil => cases o <;> simp [int16sOf] at ho ⊢
  | cons a pre ih =>
    cases a <;> simp [int16sOf, ih]

/-- one element that is not an Integer (a Real, say) silently drops the whole array -/
theorem blueValues_dropped (vm : VM) (pd : List (Name × Obj)) (r off len : Nat) (pre post : List Obj) (o : Obj)
    (h : dictLookup pd "BlueValues" = some (.arr r off len)) (hl : vm.viewObjs r off len = pre ++ o :: post)
    (ho : ∀ i, o ≠ .int i) : (privOf vm pd).blueValues = [] := by
  simp [privOf, h, bluesOf, asArray, hl, int16sOf_bad pre post o ho]

theorem stdHW_present_real (vm : VM) (pd : List (Name × Obj)) (r off len : Nat) (b : UInt64)
    (h : dictLookup pd "StdHW" = some (.arr r off len)) (hl : vm.viewObjs r off len = [.real b]) :
    (privOf vm pd).stdHW = b := by
  simp [privOf, h, stdWOf, asArray, hl, realOr0, getReal]

theorem stdHW_present_int (vm : VM) (pd : List (Name × Obj)) (r off len : Nat) (i : Int)
    (h : dictLookup pd "StdHW" = some (.arr r off len)) (hl : vm.viewObjs r off len = [.int i]) :
    (privOf vm pd).stdHW = SoftFloat.ofInt i := by
  simp [privOf, h, stdWOf, asArray, hl, realOr0, getReal]

theorem stdVW_present_real (vm : VM) (pd : List (Name × Obj)) (r off len : Nat) (b : UInt64)
    (h : dictLookup pd "StdVW" = some (.arr r off len)) (hl : vm.viewObjs r off len = [.real b]) :
    (privOf vm pd).stdVW = b := by
  simp [privOf, h, stdWOf, asArray, hl, realOr0, getReal]

theorem stdVW_present_int (vm : VM) (pd : List (Name × Obj)) (r off len : Nat) (i : Int)
    (h : dictLookup pd "StdVW" = some (.arr r off len)) (hl : vm.viewObjs r off len = [.int i]) :
    (privOf vm pd).stdVW = SoftFloat.ofInt i := by
  simp [privOf, h, stdWOf, asArray, hl, realOr0, getReal]

/-- an array of another length gives 0 -/
theorem stdHW_wrong_length (vm : VM) (pd : List (Name × Obj)) (r off len : Nat)
    (h : dictLookup pd "StdHW" = some (.arr r off len)) (hl : (vm.viewObjs r off len).length ≠ 1) :
    (privOf vm pd).stdHW = 0 := by
  simp only [privOf, h, stdWOf, asArray]
  split
  · rename_i x hx
    simp only [Option.some.injEq] at hx
    rw [hx] at hl
    simp at hl
  · rfl

/-! ### FontInfo, FontName, FontMatrix, Encoding -/

def infoKeys : List Name :=
  ["version", "Version", "Notice", "Copyright", "FullName", "FamilyName", "Weight", "ItalicAngle", "isFixedPitch",
   "UnderlinePosition", "UnderlineThickness"]

/-- **defaults of FontInfo**: empty strings, angle 0, not fixed pitch, underline 0/0; an absent `FontName` gives the
empty name (not the key under which the font was registered: the Go variable `key` is never assigned) -/
theorem info_defaults (vm : VM) (fd fi : List (Name × Obj)) (fm : Matrix)
    (h : ∀ k ∈ infoKeys, dictLookup fi k = none) (hn : dictLookup fd "FontName" = none) :
    infoOf vm fd fi fm = { fontName := [], version := [], notice := [], copyright := [], fullName := [], familyName := [],
                           weight := [], italicAngle := 0, isFixedPitch := false, underlinePosition := 0,
                           underlineThickness := 0, fontMatrix := fm } := by
  have h1 := h "version" (by simp [infoKeys])
  have h2 := h "Version" (by simp [infoKeys])
  have h3 := h "Notice" (by simp [infoKeys])
  have h4 := h "Copyright" (by simp [infoKeys])
  have h5 := h "FullName" (by simp [infoKeys])
  have h6 := h "FamilyName" (by simp [infoKeys])
  have h7 := h "Weight" (by simp [infoKeys])
  have h8 := h "ItalicAngle" (by simp [infoKeys])
  have h9 := h "isFixedPitch" (by simp [infoKeys])
  have h10 := h "UnderlinePosition" (by simp [infoKeys])
  have h11 := h "UnderlineThickness" (by simp [infoKeys])
  simp [infoOf, versionOf, h1, h2, h3, h4, h5, h6, h7, h8, h9, h10, h11, hn, asString, realOr0, getReal, asBool, fontNameOf]

theorem fontName_present (vm : VM) (fd fi : List (Name × Obj)) (fm : Matrix) (n : Name)
    (h : dictLookup fd "FontName" = some (.name n)) : (infoOf vm fd fi fm).fontName = nameBytes n := by
  simp [infoOf, h, fontNameOf]

theorem fontName_wrong_type (vm : VM) (fd fi : List (Name × Obj)) (fm : Matrix) (o : Obj)
    (h : dictLookup fd "FontName" = some o) (ho : ∀ n, o ≠ .name n) : (infoOf vm fd fi fm).fontName = [] := by
  unfold infoOf
  simp only [h]
  cases o <;> simp [fontNameOf] at ho ⊢

theorem notice_present (vm : VM) (fd fi : List (Name × Obj)) (fm : Matrix) (r off len : Nat)
    (h : dictLookup fi "Notice" = some (.str r off len)) : (infoOf vm fd fi fm).notice = vm.viewBytes r off len := by
  simp [infoOf, h, asString]

theorem copyright_present (vm : VM) (fd fi : List (Name × Obj)) (fm : Matrix) (r off len : Nat)
    (h : dictLookup fi "Copyright" = some (.str r off len)) : (infoOf vm fd fi fm).copyright = vm.viewBytes r off len := by
  simp [infoOf, h, asString]

theorem fullName_present (vm : VM) (fd fi : List (Name × Obj)) (fm : Matrix) (r off len : Nat)
    (h : dictLookup fi "FullName" = some (.str r off len)) : (infoOf vm fd fi fm).fullName = vm.viewBytes r off len := by
  simp [infoOf, h, asString]

theorem familyName_present (vm : VM) (fd fi : List (Name × Obj)) (fm : Matrix) (r off len : Nat)
    (h : dictLookup fi "FamilyName" = some (.str r off len)) : (infoOf vm fd fi fm).familyName = vm.viewBytes r off len := by
  simp [infoOf, h, asString]

theorem weight_present (vm : VM) (fd fi : List (Name × Obj)) (fm : Matrix) (r off len : Nat)
    (h : dictLookup fi "Weight" = some (.str r off len)) : (infoOf vm fd fi fm).weight = vm.viewBytes r off len := by
  simp [infoOf, h, asString]

/-- `version` when it is a non-empty string -/
theorem version_present (vm : VM) (fd fi : List (Name × Obj)) (fm : Matrix) (r off len : Nat)
    (h : dictLookup fi "version" = some (.str r off len)) (hne : vm.viewBytes r off len ≠ []) :
    (infoOf vm fd fi fm).version = vm.viewBytes r off len := by
  have : (vm.viewBytes r off len).length ≠ 0 := by
    intro e; exact hne (List.length_eq_zero_iff.mp e)
  simp [infoOf, versionOf, h, asString, this]

/-- the fallback: `Version` is consulted when `version` is absent (or not a string, or empty) -/
theorem version_fallback (vm : VM) (fd fi : List (Name × Obj)) (fm : Matrix) (r off len : Nat)
    (h0 : dictLookup fi "version" = none) (h : dictLookup fi "Version" = some (.str r off len)) :
    (infoOf vm fd fi fm).version = vm.viewBytes r off len := by
  simp [infoOf, versionOf, h0, h, asString]

theorem italicAngle_present_real (vm : VM) (fd fi : List (Name × Obj)) (fm : Matrix) (b : UInt64)
    (h : dictLookup fi "ItalicAngle" = some (.real b)) : (infoOf vm fd fi fm).italicAngle = b := by
  simp [infoOf, h, realOr0, getReal]

theorem italicAngle_present_int (vm : VM) (fd fi : List (Name × Obj)) (fm : Matrix) (i : Int)
    (h : dictLookup fi "ItalicAngle" = some (.int i)) : (infoOf vm fd fi fm).italicAngle = SoftFloat.ofInt i := by
  simp [infoOf, h, realOr0, getReal]

theorem underlinePosition_present_real (vm : VM) (fd fi : List (Name × Obj)) (fm : Matrix) (b : UInt64)
    (h : dictLookup fi "UnderlinePosition" = some (.real b)) : (infoOf vm fd fi fm).underlinePosition = b := by
  simp [infoOf, h, realOr0, getReal]

theorem underlinePosition_present_int (vm : VM) (fd fi : List (Name × Obj)) (fm : Matrix) (i : Int)
    (h : dictLookup fi "UnderlinePosition" = some (.int i)) : (infoOf vm fd fi fm).underlinePosition = SoftFloat.ofInt i := by
  simp [infoOf, h, realOr0, getReal]

theorem underlineThickness_present_real (vm : VM) (fd fi : List (Name × Obj)) (fm : Matrix) (b : UInt64)
    (h : dictLookup fi "UnderlineThickness" = some (.real b)) : (infoOf vm fd fi fm).underlineThickness = b := by
  simp [infoOf, h, realOr0, getReal]

theorem underlineThickness_present_int (vm : VM) (fd fi : List (Name × Obj)) (fm : Matrix) (i : Int)
    (h : dictLookup fi "UnderlineThickness" = some (.int i)) : (infoOf vm fd fi fm).underlineThickness = SoftFloat.ofInt i := by
  simp [infoOf, h, realOr0, getReal]

theorem isFixedPitch_present (vm : VM) (fd fi : List (Name × Obj)) (fm : Matrix) (b : Bool)
    (h : dictLookup fi "isFixedPitch" = some (.bool b)) : (infoOf vm fd fi fm).isFixedPitch = b := by
  simp [infoOf, h, asBool]

/-- **FontMatrix**: absent gives `[0.001 0 0 0.001 0 0]` -/
theorem fontMatrix_default (vm : VM) : fontMatrixOf vm none = some defaultFontMatrix := rfl

/-- … as does a value that is not an array, or an array whose length is not 6 -/
theorem fontMatrix_not_array (vm : VM) (o : Obj) (ho : ∀ r off len, o ≠ .arr r off len) :
    fontMatrixOf vm (some o) = some defaultFontMatrix := by
  cases o <;> simp [fontMatrixOf, asArray] at ho ⊢

theorem fontMatrix_wrong_length (vm : VM) (r off len : Nat) (h : (vm.viewObjs r off len).length ≠ 6) :
    fontMatrixOf vm (some (.arr r off len)) = some defaultFontMatrix := by
  simp [fontMatrixOf, asArray, h]

/-- six numbers are taken as they are (Integers converted) -/
theorem fontMatrix_present (vm : VM) (r off len : Nat) (a b c d e f : Obj) (a' b' c' d' e' f' : UInt64)
    (h : vm.viewObjs r off len = [a, b, c, d, e, f])
    (ha : getReal (some a) = some a') (hb : getReal (some b) = some b') (hc : getReal (some c) = some c')
    (hd : getReal (some d) = some d') (he : getReal (some e) = some e') (hf : getReal (some f) = some f') :
    fontMatrixOf vm (some (.arr r off len)) = some { a := a', b := b', c := c', d := d', e := e', f := f' } := by
  simp [fontMatrixOf, asArray, h, matrixOfObjs, ha, hb, hc, hd, he, hf]

/-- six elements one of which is not a number: the read fails ("invalid FontMatrix") -/
theorem fontMatrix_invalid (vm : VM) (dsc : List (String × String)) (fd : List (Name × Obj)) (r off len : Nat)
    (hfd : fontDictOf vm = some fd) (h : dictLookup fd "FontMatrix" = some (.arr r off len))
    (hl : (vm.viewObjs r off len).length = 6) (x : Obj) (hx : x ∈ vm.viewObjs r off len) (hr : getReal (some x) = none) :
    ∀ f, extract vm dsc ≠ .ok f := by
  intro f hf
  obtain ⟨fd', fi, fm, pd, enc, cs, gs, ss, gs1, h1, h2, h3, h4, _⟩ := extract_ok hf
  rw [hfd] at h1
  cases h1
  rw [h] at h4
  simp only [fontMatrixOf, asArray, hl, if_true] at h4
  generalize vm.viewObjs r off len = l at hl hx h4
  match l, hl with
  | [a, b, c, d, e, g], _ =>
    simp only [matrixOfObjs] at h4
    simp only [List.mem_cons, List.not_mem_nil, or_false] at hx
    rcases hx with rfl | rfl | rfl | rfl | rfl | rfl <;> simp [hr] at h4 <;> (split at h4 <;> simp_all)

/-- **Encoding**: absent, not an array, or an array whose length is not 256: no encoding -/
theorem encoding_none (vm : VM) (o : Option Obj)
    (h : ∀ r off len, o = some (.arr r off len) → (vm.viewObjs r off len).length ≠ 256) :
    encodingOf vm o = some [] := by
  unfold encodingOf
  cases o with
  | none => rfl
  | some o =>
    cases o <;> simp [asArray]
    rename_i r off len
    exact fun e => absurd e (h r off len rfl)

theorem namesOf_names (l : List Name) : namesOf (l.map Obj.name) = some (l.map nameBytes) := by
  induction l with
  | nil => rfl
  | cons a l ih => simp [namesOf, ih]

/-- an array of 256 names (`StandardEncoding` is one) is read name by name -/
theorem encoding_present (vm : VM) (r off len : Nat) (l : List Name) (hl : l.length = 256)
    (h : vm.viewObjs r off len = l.map Obj.name) :
    encodingOf vm (some (.arr r off len)) = some (l.map nameBytes) := by
  simp [encodingOf, asArray, h, hl, namesOf_names]

theorem namesOf_bad (pre post : List Obj) (o : Obj) (ho : ∀ n, o ≠ .name n) : namesOf (pre ++ o :: post) = none := by
  induction pre with
  | nil => cases o <;> simp [namesOf] at ho ⊢
  | cons a pre ih => cases a <;> simp [namesOf, ih]

/-- an array of 256 elements one of which is not a name: the read fails ("invalid Encoding array") -/
theorem encoding_invalid (vm : VM) (dsc : List (String × String)) (fd : List (Name × Obj)) (r off len : Nat)
    (hfd : fontDictOf vm = some fd) (h : dictLookup fd "Encoding" = some (.arr r off len))
    (pre post : List Obj) (o : Obj) (hv : vm.viewObjs r off len = pre ++ o :: post)
    (hl : (pre ++ o :: post).length = 256) (ho : ∀ n, o ≠ .name n) :
    ∀ f, extract vm dsc ≠ .ok f := by
  intro f hf
  obtain ⟨fd', fi, fm, pd, enc, cs, gs, ss, gs1, h1, h2, h3, h4, h5, h6, _⟩ := extract_ok hf
  rw [hfd] at h1
  cases h1
  rw [h] at h6
  simp [encodingOf, asArray, hv, hl, namesOf_bad pre post o ho] at h6

/-- the final encoding: a code whose name is a glyph of the result keeps it, every other code becomes `.notdef` -/
theorem encoding_final {vm : VM} {dsc : List (String × String)} {f : Font} (h : extract vm dsc = .ok f) :
    ∃ enc gs ss, stageOf vm = some (enc, gs, ss) ∧ f.encoding.length = enc.length ∧
      ∀ i, i < enc.length →
        f.encoding.getD i [] = if enc.getD i [] ∈ names f.glyphs then enc.getD i [] else notdef := by
  obtain ⟨enc, gs, ss, gs1, h1, h2, h3, h4⟩ := extract_ok_stage h
  refine ⟨enc, gs, ss, h1, ?_, ?_⟩
  · rw [h4, fixEncoding_length]
  · intro i hi
    rw [h4, h3, fixEncoding_getD _ _ _ hi]

/-! ## (b) lenIV -/

/-- the number of bytes produced for a charstring never exceeds the length of its cipher text, whatever `lenIV` is
(no allocation is driven by the number; the Go code used to evaluate `make([]byte, 0, len(cipher)-n)` for `n < 0`) -/
theorem lenIV_no_allocation (ob : Bytes) (n : Int) : (plainOf ob n).length ≤ ob.length := plainOf_length_le ob n

/-- a negative `lenIV`: every charstring (and subroutine) is treated as empty (`Cipher.deobf_negative`) -/
theorem lenIV_negative_plain (ob : Bytes) (n : Int) (h : n < 0) : plainOf ob n = [] := plainOf_negative ob n h

/-- … as is one that is longer than the charstring -/
theorem lenIV_too_long_plain (ob : Bytes) (n : Int) (h : (ob.length : Int) < n) : plainOf ob n = [] := plainOf_too_long ob n h

/-- a usable `lenIV`: the first `lenIV` bytes of the decrypted text are dropped -/
theorem lenIV_plain (ob : Bytes) (n : Int) (h0 : 0 ≤ n) (h1 : n ≤ ob.length) :
    plainOf ob n = toNats ((Cipher.decrypt Cipher.charstringR ob).drop n.toNat) := plainOf_ok ob n h0 h1

/-- an entry that the loop decodes at a `lenIV ≥ 0` is at least `lenIV` bytes long, so its plain text is the
decrypted text without the `lenIV` lead bytes (never the `nil` of a short charstring) -/
theorem lenIV_usable_plain (lenIV : Int) (es : List (Bytes × Option Bytes)) (n ob : Bytes) (h0 : 0 ≤ lenIV)
    (h : (n, ob) ∈ usableEntries lenIV es) :
    plainOf ob lenIV = toNats ((Cipher.decrypt Cipher.charstringR ob).drop lenIV.toNat) :=
  plainOf_ok ob lenIV h0 ((mem_usableEntries lenIV es n ob).mp h).2

/-- the empty glyph: no outline, no stems, width 0 -/
def emptyGlyph : Glyph := {}

/-- **a negative `lenIV` is not an error**: the read succeeds whenever it would otherwise, there are no composites,
and every glyph of the result is the empty glyph of width 0 — the font's outlines are silently lost -/
theorem lenIV_negative_font {vm : VM} {dsc : List (String × String)} {f : Font} {pd : List (Name × Obj)}
    (h : extract vm dsc = .ok f) (hp : privateOf vm = some pd) (hn : lenIVOf pd < 0) :
    ∀ p ∈ f.glyphs, p.2 = emptyGlyph := by
  obtain ⟨enc, gs, ss, gs1, h1, h2, h3, h4⟩ := extract_ok_stage h
  obtain ⟨fd, pd', cs, e1, e2, e3, e4, e5⟩ := stageOf_some h1
  rw [hp] at e2
  cases e2
  obtain ⟨_, k2, k3, _⟩ := decodeAll_ok _ _ _ gs ss e5
  obtain ⟨n1, n2, _⟩ := glyphsOf_negative (subrsOf vm pd (lenIVOf pd)) (lenIVOf pd) hn (usableEntries (lenIVOf pd) (csEntries vm cs))
  rw [← k2] at n1
  rw [← k3] at n2
  subst n2
  simp only [resolveSeacs, Option.some.injEq] at h2
  subst h2
  intro p hp
  rw [h3] at hp
  -- either a decoded glyph or the added `.notdef`
  unfold addNotdef at hp
  split at hp
  · exact n1 p hp
  · rcases List.mem_cons.mp ((insertE_perm _ gs).mem_iff.mp hp) with e | e
    · subst e
      show ({ widthX := _ } : Glyph) = emptyGlyph
      split
      · rename_i g hg
        have := n1 (space, g) (lookupG_mem hg)
        simp only at this
        rw [this]; rfl
      · rfl
    · exact n1 p e

/-! ## (c) composites -/

/-- what a composite becomes: outline and stems from the base and the accent, widths its own -/
theorem seac_fields (own base : Glyph) (acc : List T1Encode.Cmd) (s : Seac) :
    (composite own base acc s).cmds = base.cmds ++ acc.map (translate s.dx s.dy) ∧
    (composite own base acc s).hstem = base.hstem ∧ (composite own base acc s).vstem = base.vstem ∧
    (composite own base acc s).widthX = own.widthX ∧ (composite own base acc s).widthY = own.widthY :=
  ⟨rfl, rfl, rfl, rfl, rfl⟩

/-- the offsets recorded for `asb adx ady bchar achar seac` are `(adx, ady)`: `asb` is not used -/
theorem seac_offsets (d : T1Decode.DState) (asb adx ady : Rat) (b a : Int) (n : Nat)
    (hs : d.stack = [asb, adx, ady, (b : Rat), (a : Rat)])
    (hb : -9223372036854775808 ≤ b ∧ b ≤ 9223372036854775807) (ha : -9223372036854775808 ≤ a ∧ a ≤ 9223372036854775807) :
    T1Decode.execOp d 3078 n = .done { d with seacs := d.seacs ++ [{ base := b, accent := a, dx := adx, dy := ady }] } := by
  have gb : T1Decode.getInt (b : Rat) = some b := by
    simp [T1Decode.getInt, Rat.num_intCast, Rat.den_intCast, hb.1, hb.2]
  have ga : T1Decode.getInt (a : Rat) = some a := by
    simp [T1Decode.getInt, Rat.num_intCast, Rat.den_intCast, ha.1, ha.2]
  simp [T1Decode.execOp, hs, T1Decode.getD, gb, ga]

/-- the codes of `seac` are codes of the standard encoding: the table is `psenc.StandardEncoding` (256 names), and
neither `codesOK` nor `codeName` depends on the font -/
theorem seac_standard_codes : stdEnc.length = 256 ∧ codeName 101 = str "e" ∧ codeName 194 = str "acute" ∧
    codeName 193 = str "grave" ∧ codeName 0 = notdef ∧
    (∀ s : Seac, codesOK s = true ↔ (0 ≤ s.base ∧ s.base ≤ 255 ∧ 0 ≤ s.accent ∧ s.accent ≤ 255)) := by
  refine ⟨by decide +kernel, by decide +kernel, by decide +kernel, by decide +kernel, by decide +kernel, ?_⟩
  intro s
  simp [codesOK]

/-- **composition**: a composite (recorded once) whose two codes are in `0 … 255` and name, in the standard
encoding, decoded glyphs that are not composites themselves (`Composable` with the names of all composites of the
font) ends up with: the base's outline, then the accent's outline moved by `(adx, ady)`; the base's stems; the width
**of its own charstring** (`own` is the composite as decoded).  This holds whatever `Encoding` the font has and
whatever other composites it has — on the same base, on the same accent, before or after in name order. -/
theorem seac_composed {vm : VM} {dsc : List (String × String)} {f : Font} {enc : List Bytes}
    {gs : List (Bytes × Glyph)} {ss pre post : List SeacInfo} {si : SeacInfo} {own base accent : Glyph}
    (h : extract vm dsc = .ok f) (hs : stageOf vm = some (enc, gs, ss)) (hss : ss = pre ++ si :: post)
    (hc : Composable (compositeNames ss) gs si own base accent)
    (hpre : ∀ s ∈ pre, s.name ≠ si.name) (hpost : ∀ s ∈ post, s.name ≠ si.name) :
    lookupG f.glyphs si.name = some (composite own base accent.cmds si.seac) := by
  obtain ⟨enc', gs', ss', gs1, h1, h2, h3, h4⟩ := extract_ok_stage h
  rw [hs] at h1
  simp only [Option.some.injEq, Prod.mk.injEq] at h1
  obtain ⟨rfl, rfl, rfl⟩ := h1
  subst hss
  have := resolveSeacs_composite _ pre post si gs gs1 own base accent h2 hc hpre hpost
    (fun s hs => by simp [compositeNames]; exact Or.inl ⟨s, hs, rfl⟩) (by simp [compositeNames])
  rw [h3]
  exact lookupG_addNotdef_of_some _ _ _ this

/-- **no aliasing**: a glyph that is not itself a composite — a base or an accent in particular — is in the result
exactly as its charstring was decoded, however many composites are built on it -/
theorem seac_base_unchanged {vm : VM} {dsc : List (String × String)} {f : Font} {enc : List Bytes}
    {gs : List (Bytes × Glyph)} {ss : List SeacInfo} (h : extract vm dsc = .ok f) (hs : stageOf vm = some (enc, gs, ss))
    (n : Bytes) (g : Glyph) (hn : ∀ s ∈ ss, s.name ≠ n) (hg : lookupG gs n = some g) :
    lookupG f.glyphs n = some g := by
  obtain ⟨enc', gs', ss', gs1, h1, h2, h3, h4⟩ := extract_ok_stage h
  rw [hs] at h1
  simp only [Option.some.injEq, Prod.mk.injEq] at h1
  obtain ⟨rfl, rfl, rfl⟩ := h1
  rw [h3]
  apply lookupG_addNotdef_of_some
  rw [resolveSeacs_unchanged _ ss gs gs1 n h2 hn]
  exact hg

/-- **independence**: two composites on the same base both carry the base's decoded outline as a prefix and their
own widths; neither sees the other's accent -/
theorem seac_independent {vm : VM} {dsc : List (String × String)} {f : Font} {enc : List Bytes}
    {gs : List (Bytes × Glyph)} {ss p1 q1 p2 q2 : List SeacInfo} {s1 s2 : SeacInfo} {o1 o2 base a1 a2 : Glyph}
    (h : extract vm dsc = .ok f) (hs : stageOf vm = some (enc, gs, ss))
    (e1 : ss = p1 ++ s1 :: q1) (e2 : ss = p2 ++ s2 :: q2)
    (c1 : Composable (compositeNames ss) gs s1 o1 base a1) (c2 : Composable (compositeNames ss) gs s2 o2 base a2)
    (u1 : (∀ s ∈ p1, s.name ≠ s1.name) ∧ (∀ s ∈ q1, s.name ≠ s1.name))
    (u2 : (∀ s ∈ p2, s.name ≠ s2.name) ∧ (∀ s ∈ q2, s.name ≠ s2.name)) :
    (∃ g1, lookupG f.glyphs s1.name = some g1 ∧ g1.widthX = o1.widthX ∧
      g1.cmds = base.cmds ++ a1.cmds.map (translate s1.seac.dx s1.seac.dy)) ∧
    (∃ g2, lookupG f.glyphs s2.name = some g2 ∧ g2.widthX = o2.widthX ∧
      g2.cmds = base.cmds ++ a2.cmds.map (translate s2.seac.dx s2.seac.dy)) :=
  ⟨⟨_, seac_composed h hs e1 c1 u1.1 u1.2, rfl, rfl⟩, ⟨_, seac_composed h hs e2 c2 u2.1 u2.2, rfl, rfl⟩⟩

/-- **the parts of a composite must be ordinary glyphs**: if the standard name of the base code or of the accent code
is the name of some composite of the font, the composite is left as decoded (the glyph list is unchanged) -/
theorem seac_parts_not_composite (ss : List SeacInfo) (gs : List (Bytes × Glyph)) (si : SeacInfo)
    (h : (∃ s ∈ ss, s.name = codeName si.seac.base) ∨ (∃ s ∈ ss, s.name = codeName si.seac.accent)) :
    resolveOne (compositeNames ss) gs si = some gs := by
  apply resolveOne_parts_composite
  rcases h with ⟨s, hs, e⟩ | ⟨s, hs, e⟩
  · exact Or.inl (by simp only [compositeNames, List.mem_map]; exact ⟨s, hs, e⟩)
  · exact Or.inr (by simp only [compositeNames, List.mem_map]; exact ⟨s, hs, e⟩)

/-- the accent (or the base) is the composite itself — its own standard code as `achar` or `bchar`: since the
composite is a composite, it is left as decoded (before the repair the loop doubled the base's outline) -/
theorem seac_self_accent (ss : List SeacInfo) (gs : List (Bytes × Glyph)) (si : SeacInfo) (hsi : si ∈ ss)
    (ha : codeName si.seac.accent = si.name ∨ codeName si.seac.base = si.name) :
    resolveOne (compositeNames ss) gs si = some gs := by
  apply seac_parts_not_composite
  rcases ha with e | e
  · exact Or.inr ⟨si, hsi, e.symm⟩
  · exact Or.inl ⟨si, hsi, e.symm⟩

/-- a composite that cannot be composed — a code outside `0 … 255`, a part that is itself a composite, or a code
whose standard name is no glyph of the font — is **not an error**: the glyph stays as decoded (its own width, no
outline) -/
theorem seac_unresolved (comp : List Bytes) (gs : List (Bytes × Glyph)) (si : SeacInfo)
    (h : codesOK si.seac = false ∨ codeName si.seac.base ∈ comp ∨ codeName si.seac.accent ∈ comp ∨
      lookupG gs (codeName si.seac.base) = none ∨ lookupG gs (codeName si.seac.accent) = none) :
    resolveOne comp gs si = some gs :=
  resolveOne_skip comp gs si h

theorem mem_compositeNames (ss : List SeacInfo) (s : SeacInfo) (h : s ∈ ss) : s.name ∈ compositeNames ss := by
  simp only [compositeNames, List.mem_map]; exact ⟨s, h, rfl⟩

/-- **size bound** (the point of the repair): after the composites are resolved no glyph has more than twice as
many commands as the largest glyph *as decoded* — a chain of composites, each built on the previous one, cannot
double the outline at every link -/
theorem seac_size_bound (ss : List SeacInfo) (gs gs' : List (Bytes × Glyph))
    (h : resolveSeacs (compositeNames ss) ss gs = some gs') :
    ∀ p ∈ gs', p.2.cmds.length ≤ 2 * maxCmds gs :=
  resolveSeacs_size_bound _ ss gs gs' h (mem_compositeNames ss)

/-- … for the font that `type1.Read` returns -/
theorem seac_size_bound_font {vm : VM} {dsc : List (String × String)} {f : Font} {enc : List Bytes}
    {gs : List (Bytes × Glyph)} {ss : List SeacInfo} (h : extract vm dsc = .ok f) (hs : stageOf vm = some (enc, gs, ss)) :
    ∀ p ∈ f.glyphs, p.2.cmds.length ≤ 2 * maxCmds gs := by
  obtain ⟨enc', gs', ss', gs1, h1, h2, h3, h4⟩ := extract_ok_stage h
  rw [hs] at h1
  simp only [Option.some.injEq, Prod.mk.injEq] at h1
  obtain ⟨rfl, rfl, rfl⟩ := h1
  intro p hp
  rw [h3] at hp
  unfold addNotdef at hp
  split at hp
  · exact seac_size_bound ss gs gs1 h2 p hp
  · rcases List.mem_cons.mp ((insertE_perm _ gs1).mem_iff.mp hp) with e | e
    · subst e; exact Nat.zero_le _
    · exact seac_size_bound ss gs gs1 h2 p e

/-- the total number of outline commands after resolution is at most `2 · (number of glyphs) · (largest decoded
glyph)`.  (A bound linear in the file size does not exist for any reader that expands composites: `k` composites
on one glyph of `m` commands legitimately give `2·k·m` commands.) -/
theorem seac_total_bound (ss : List SeacInfo) (gs gs' : List (Bytes × Glyph))
    (h : resolveSeacs (compositeNames ss) ss gs = some gs') :
    totalCmds gs' ≤ gs.length * (2 * maxCmds gs) := by
  have hl : gs'.length = gs.length := by
    have := congrArg List.length (resolveSeacs_names _ ss gs gs' h)
    simpa [names] using this
  rw [← hl]
  exact totalCmds_le gs' _ (seac_size_bound ss gs gs' h)

/-- what each composite becomes, from the glyphs as decoded only (no composite reads another composite) -/
theorem seac_result (ss : List SeacInfo) (gs gs' : List (Bytes × Glyph))
    (h : resolveSeacs (compositeNames ss) ss gs = some gs') (hnd : (compositeNames ss).Nodup) :
    (∀ si ∈ ss, lookupG gs' si.name = (lookupG gs si.name).map (resolvedGlyph (compositeNames ss) gs si)) ∧
    (∀ n, (∀ s ∈ ss, s.name ≠ n) → lookupG gs' n = lookupG gs n) :=
  ⟨resolveSeacs_lookup _ ss gs gs' h (mem_compositeNames ss) hnd, fun n hn => resolveSeacs_unchanged _ ss gs gs' n h hn⟩

/-- **order independence**: the composites of a font (distinct names) processed in two different orders give the
same glyph under every name, and the same list of names; when the glyph names are distinct (a Go map) the two
results are equal.  (`type1.Read` processes them in name order; the theorem says nothing hinges on that.) -/
theorem seac_order_independent (ss1 ss2 : List SeacInfo) (gs g1 g2 : List (Bytes × Glyph))
    (hp : ss1.Perm ss2) (hnd : (compositeNames ss1).Nodup)
    (h1 : resolveSeacs (compositeNames ss1) ss1 gs = some g1) (h2 : resolveSeacs (compositeNames ss2) ss2 gs = some g2) :
    names g1 = names g2 ∧ (∀ n, lookupG g1 n = lookupG g2 n) ∧ ((names gs).Nodup → g1 = g2) := by
  have hc : ∀ n, n ∈ compositeNames ss2 ↔ n ∈ compositeNames ss1 := by
    intro n
    exact ((hp.map (·.name)).mem_iff).symm
  rw [resolveSeacs_comp_congr _ _ hc ss2 gs] at h2
  obtain ⟨a, b⟩ := resolveSeacs_perm (compositeNames ss1) ss1 ss2 gs g1 g2 hp hnd (mem_compositeNames ss1) h1 h2
  refine ⟨a, b, ?_⟩
  intro hn
  apply glyphs_ext g1 g2 a _ b
  rw [resolveSeacs_names _ ss1 gs g1 h1]
  exact hn

/-! ## (d) the glyph set -/

/-- **the glyph set**: the names of the result are `.notdef` and the keys of CharStrings whose value is a string
that is not shorter than `lenIV` (for a negative `lenIV`: every string); other entries are silently skipped -/
theorem glyph_names {vm : VM} {dsc : List (String × String)} {f : Font} (h : extract vm dsc = .ok f) :
    ∃ pd cs, privateOf vm = some pd ∧ charStringsOf vm = some cs ∧
      ∀ n, n ∈ names f.glyphs ↔
        n = notdef ∨ ∃ k v ob, (k, v) ∈ cs ∧ nameBytes k = n ∧ csValue vm v = some ob ∧ lenIVOf pd ≤ ob.length := by
  obtain ⟨enc, gs, ss, gs1, h1, h2, h3, h4⟩ := extract_ok_stage h
  obtain ⟨fd, pd, cs, e1, e2, e3, e4, e5⟩ := stageOf_some h1
  obtain ⟨_, _, _, k4⟩ := decodeAll_ok _ _ _ gs ss e5
  refine ⟨pd, cs, e2, e3, ?_⟩
  intro n
  rw [h3, mem_names_addNotdef, resolveSeacs_names _ ss gs gs1 h2, k4]
  apply or_congr Iff.rfl
  simp only [List.mem_map]
  constructor
  · rintro ⟨⟨m, ob⟩, hm, rfl⟩
    obtain ⟨q1, q2⟩ := (mem_usableEntries _ _ m ob).mp hm
    obtain ⟨k, o, r1, r2, r3⟩ := (mem_csEntries vm cs m (some ob)).mp q1
    exact ⟨k, o, ob, r1, r2, r3, q2⟩
  · rintro ⟨k, o, ob, r1, r2, r3, q2⟩
    exact ⟨(n, ob), (mem_usableEntries _ _ n ob).mpr ⟨(mem_csEntries vm cs n (some ob)).mpr ⟨k, o, r1, r2, r3⟩, q2⟩, rfl⟩

theorem glyph_names_sorted {vm : VM} {dsc : List (String × String)} {f : Font} (h : extract vm dsc = .ok f) :
    (names f.glyphs).Pairwise (fun a b => nameLe a b = true) := by
  obtain ⟨enc, gs, ss, gs1, h1, h2, h3, h4⟩ := extract_ok_stage h
  obtain ⟨fd, pd, cs, e1, e2, e3, e4, e5⟩ := stageOf_some h1
  obtain ⟨_, _, _, k4⟩ := decodeAll_ok _ _ _ gs ss e5
  have hs : SortedBy gs1 := by
    have := usableEntries_sorted (lenIVOf pd) _ (csEntries_sorted vm cs)
    unfold SortedBy at this ⊢
    have hn := (resolveSeacs_names _ ss gs gs1 h2).trans k4
    unfold names at hn
    rw [← List.pairwise_map (f := fun (p : Bytes × Glyph) => p.1) (R := fun a b => nameLe a b = true), hn,
      List.pairwise_map]
    exact this
  have := addNotdef_sorted gs1 hs
  rw [h3]
  unfold names SortedBy at *
  rw [List.pairwise_map]
  exact this

/-- **every glyph is what its charstring decodes to**: every usable entry decodes, the glyph list before the
composites are resolved is the list of decoded charstrings, in name order -/
theorem glyphs_decoded {vm : VM} {enc : List Bytes} {gs : List (Bytes × Glyph)} {ss : List SeacInfo}
    (hs : stageOf vm = some (enc, gs, ss)) :
    ∃ pd cs, privateOf vm = some pd ∧ charStringsOf vm = some cs ∧
      allDecode (subrsOf vm pd (lenIVOf pd)) (lenIVOf pd) (usableEntries (lenIVOf pd) (csEntries vm cs)) ∧
      gs = glyphsOf (subrsOf vm pd (lenIVOf pd)) (lenIVOf pd) (usableEntries (lenIVOf pd) (csEntries vm cs)) ∧
      ss = seacsOf (subrsOf vm pd (lenIVOf pd)) (lenIVOf pd) (usableEntries (lenIVOf pd) (csEntries vm cs)) := by
  obtain ⟨fd, pd, cs, e1, e2, e3, e4, e5⟩ := stageOf_some hs
  obtain ⟨k1, k2, k3, _⟩ := decodeAll_ok _ _ _ gs ss e5
  exact ⟨pd, cs, e2, e3, k1, k2, k3⟩

/-- **one bad charstring fails the whole read**: no partial font -/
theorem bad_charstring_fails {vm : VM} {dsc : List (String × String)} {pd cs : List (Name × Obj)}
    (hp : privateOf vm = some pd) (hc : charStringsOf vm = some cs) (k : Name) (v : Obj) (ob : Bytes)
    (hk : (k, v) ∈ cs) (hv : csValue vm v = some ob) (hl : lenIVOf pd ≤ ob.length) (e : DErr)
    (he : decodeCharString (subrsOf vm pd (lenIVOf pd)) (plainOf ob (lenIVOf pd)) = .error e) :
    ∀ f, extract vm dsc ≠ .ok f := by
  intro f hf
  obtain ⟨enc, gs, ss, gs1, h1, h2, h3, h4⟩ := extract_ok_stage hf
  obtain ⟨pd', cs', e2, e3, k1, _, _⟩ := glyphs_decoded h1
  rw [hp] at e2; cases e2
  rw [hc] at e3; cases e3
  obtain ⟨d, hd⟩ := k1 (nameBytes k, ob)
    ((mem_usableEntries _ _ _ ob).mpr ⟨(mem_csEntries vm cs _ (some ob)).mpr ⟨k, v, hk, rfl, hv⟩, hl⟩)
  rw [he] at hd
  cases hd

/-- a missing `.notdef` is added: empty, with the width of `space` (0 when there is none) -/
theorem notdef_added {vm : VM} {dsc : List (String × String)} {f : Font} (h : extract vm dsc = .ok f) :
    ∃ enc gs ss gs1, stageOf vm = some (enc, gs, ss) ∧ resolveSeacs (compositeNames ss) ss gs = some gs1 ∧
      (lookupG gs notdef = none → lookupG f.glyphs notdef = some (notdefFor gs1)) ∧
      (∀ g, lookupG gs1 notdef = some g → f.glyphs = gs1) := by
  obtain ⟨enc, gs, ss, gs1, h1, h2, h3, h4⟩ := extract_ok_stage h
  refine ⟨enc, gs, ss, gs1, h1, h2, ?_, ?_⟩
  · intro hn
    rw [h3]
    apply lookupG_addNotdef_absent
    rw [lookupG_eq_none_iff] at hn ⊢
    rw [resolveSeacs_names _ ss gs gs1 h2]
    exact hn
  · intro g hg
    rw [h3, lookupG_addNotdef_present gs1 g hg]

/-! ## (e) totality -/

/-- **`type1.Read` never panics**, whatever the input bytes: the interpreter does not (`C01NoPanic`), the charstring
decoder has no panic outcome, and the only unchecked pointer dereference of the extraction (`glyphs[seac.name]`)
always finds its glyph -/
theorem read_never_panics (input : List UInt8) (site : String) : readFont input ≠ .panic site :=
  readFont_no_panic input site

/-- the extraction alone, on every virtual machine -/
theorem extract_never_panics (vm : VM) (dsc : List (String × String)) (site : String) : extract vm dsc ≠ .panic site :=
  extract_no_panic vm dsc site

/-! ## the statements are not vacuous: the model run on small fonts (the same files the Go reader was run on) -/

def hexVal (c : Char) : Nat :=
  if '0' ≤ c ∧ c ≤ '9' then c.toNat - 48 else c.toNat - 87

def ofHex : List Char → List UInt8
  | a :: b :: r => UInt8.ofNat (hexVal a * 16 + hexVal b) :: ofHex r
  | _ => []

/-- empty FontInfo, no FontName / FontMatrix / Encoding, empty Private, one glyph `a`, no `.notdef` -/
def fontMinimal : List UInt8 := ofHex "25210a3132206469637420626567696e0a2f466f6e74496e666f20313220646963742064757020626567696e0a656e64206465660a2f466f6e74547970652031206465660a63757272656e746469637420656e640a647570202f5072697661746520323020646963742064757020626567696e0a2f5244207b737472696e672063757272656e7466696c6520657863682072656164737472696e6720706f707d20657865637574656f6e6c79206465660a2f4e44207b6465667d20657865637574656f6e6c79206465660a2f4e50207b7075747d20657865637574656f6e6c79206465660a3220696e646578202f43686172537472696e6773203220646963742064757020626567696e0a2f612032362052442010bf31706754cac6e70c055783ac4ead66f9af9f17500cab24c4204e440a656e640a656e640a726561646f6e6c79207075740a7075740a2f58206578636820646566696e65666f6e7420706f700a".toList

/-- StandardEncoding; glyphs `.notdef space a e acute grave`, composites `eacute` (e + acute, 120 200),
`egrave` (e + grave, -20 150; own width 555), `e.alt` (e + acute, 1 2) -/
def fontSeac : List UInt8 := ofHex "252150532d41646f6265466f6e742d312e303a2054657374203030312e3030300a25254372656174696f6e446174653a204d6f6e204a616e20322031353a30343a303520323030360a3132206469637420626567696e0a2f466f6e74496e666f20313220646963742064757020626567696e0a2f76657273696f6e20283030312e30303029206465660a2f4e6f74696365202861206e6f7469636529206465660a2f46756c6c4e616d6520285465737420466f6e7429206465660a2f46616d696c794e616d6520285465737429206465660a2f5765696768742028526567756c617229206465660a2f4974616c6963416e676c65202d31322e35206465660a2f6973466978656450697463682074727565206465660a2f556e6465726c696e65506f736974696f6e202d313030206465660a2f556e6465726c696e65546869636b6e6573732035302e35206465660a656e64206465660a2f466f6e744e616d65202f54657374206465660a2f456e636f64696e67205374616e64617264456e636f64696e67206465660a2f5061696e74547970652030206465660a2f466f6e74547970652031206465660a2f466f6e744d6174726978205b302e3030312030203020302e303031203020305d206465660a63757272656e746469637420656e640a647570202f5072697661746520323020646963742064757020626567696e0a2f5244207b737472696e672063757272656e7466696c6520657863682072656164737472696e6720706f707d20657865637574656f6e6c79206465660a2f4e44207b6465667d20657865637574656f6e6c79206465660a2f4e50207b7075747d20657865637574656f6e6c79206465660a3220696e646578202f43686172537472696e677320313020646963742064757020626567696e0a2f2e6e6f7464656620392052442010bf317079c757bf91204e440a2f737061636520392052442010bf317079c738be10204e440a2f612032362052442010bf31706754cac6e70c055783ac4ead66f9af9f17500cab24c4204e440a2f652033302052442010bf31705b07bfaf976a4df574416ab1bd6a6b94a5f70909e535290e495d204e440a2f61637574652032392052442010bf31704fa5f8005b0c91a8c6db1c0197c8724cdbf38bc2e5a561286c204e440a2f67726176652032302052442010bf317041865f6976193ca3c159ed8f778aee0b204e440a2f6561637574652031382052442010bf31705b07bfafbac320eec49cfd37266f204e440a2f6567726176652031372052442010bf31705e926c4fb2f6b4d33bc9672ec0204e440a2f652e616c742031362052442010bf31705b07bfafbab8c08b5d75c14e204e440a656e640a656e640a726561646f6e6c79207075740a7075740a647570202f466f6e744e616d6520676574206578636820646566696e65666f6e7420706f700a".toList

/-- `/lenIV -1 def` -/
def fontNegLenIV : List UInt8 := ofHex "252150532d41646f6265466f6e742d312e303a2054657374203030312e3030300a25254372656174696f6e446174653a204d6f6e204a616e20322031353a30343a303520323030360a3132206469637420626567696e0a2f466f6e74496e666f20313220646963742064757020626567696e0a2f76657273696f6e20283030312e30303029206465660a2f4e6f74696365202861206e6f7469636529206465660a2f46756c6c4e616d6520285465737420466f6e7429206465660a2f46616d696c794e616d6520285465737429206465660a2f5765696768742028526567756c617229206465660a2f4974616c6963416e676c65202d31322e35206465660a2f6973466978656450697463682074727565206465660a2f556e6465726c696e65506f736974696f6e202d313030206465660a2f556e6465726c696e65546869636b6e6573732035302e35206465660a656e64206465660a2f466f6e744e616d65202f54657374206465660a2f456e636f64696e67205374616e64617264456e636f64696e67206465660a2f5061696e74547970652030206465660a2f466f6e74547970652031206465660a2f466f6e744d6174726978205b302e3030312030203020302e303031203020305d206465660a63757272656e746469637420656e640a647570202f5072697661746520323020646963742064757020626567696e0a2f5244207b737472696e672063757272656e7466696c6520657863682072656164737472696e6720706f707d20657865637574656f6e6c79206465660a2f4e44207b6465667d20657865637574656f6e6c79206465660a2f4e50207b7075747d20657865637574656f6e6c79206465660a2f6c656e4956202d31206465660a3220696e646578202f43686172537472696e6773203420646963742064757020626567696e0a2f2e6e6f7464656620392052442010bf317079c757bf91204e440a2f737061636520392052442010bf317079c738be10204e440a2f612032362052442010bf31706754cac6e70c055783ac4ead66f9af9f17500cab24c4204e440a656e640a656e640a726561646f6e6c79207075740a7075740a647570202f466f6e744e616d6520676574206578636820646566696e65666f6e7420706f700a".toList

/-- all Private entries present -/
def fontPrivate : List UInt8 := ofHex "252150532d41646f6265466f6e742d312e303a2054657374203030312e3030300a25254372656174696f6e446174653a204d6f6e204a616e20322031353a30343a303520323030360a3132206469637420626567696e0a2f466f6e74496e666f20313220646963742064757020626567696e0a2f76657273696f6e20283030312e30303029206465660a2f4e6f74696365202861206e6f7469636529206465660a2f46756c6c4e616d6520285465737420466f6e7429206465660a2f46616d696c794e616d6520285465737429206465660a2f5765696768742028526567756c617229206465660a2f4974616c6963416e676c65202d31322e35206465660a2f6973466978656450697463682074727565206465660a2f556e6465726c696e65506f736974696f6e202d313030206465660a2f556e6465726c696e65546869636b6e6573732035302e35206465660a656e64206465660a2f466f6e744e616d65202f54657374206465660a2f456e636f64696e67205374616e64617264456e636f64696e67206465660a2f5061696e74547970652030206465660a2f466f6e74547970652031206465660a2f466f6e744d6174726978205b302e3030312030203020302e303031203020305d206465660a63757272656e746469637420656e640a647570202f5072697661746520323020646963742064757020626567696e0a2f5244207b737472696e672063757272656e7466696c6520657863682072656164737472696e6720706f707d20657865637574656f6e6c79206465660a2f4e44207b6465667d20657865637574656f6e6c79206465660a2f4e50207b7075747d20657865637574656f6e6c79206465660a2f426c756556616c756573205b2d3130203020353030203531305d206465660a2f4f74686572426c756573205b2d323530202d3234305d206465660a2f426c75655363616c6520302e3035206465660a2f426c756553686966742039206465660a2f426c756546757a7a2030206465660a2f5374644857205b35305d206465660a2f5374645657205b38302e355d206465660a2f466f726365426f6c642074727565206465660a3220696e646578202f43686172537472696e6773203420646963742064757020626567696e0a2f2e6e6f7464656620392052442010bf317079c757bf91204e440a2f737061636520392052442010bf317079c738be10204e440a2f612032362052442010bf31706754cac6e70c055783ac4ead66f9af9f17500cab24c4204e440a656e640a656e640a726561646f6e6c79207075740a7075740a647570202f466f6e744e616d6520676574206578636820646566696e65666f6e7420706f700a".toList

/-- a chain of composites (standard codes 65…68 = A…D): `A` plain, `B` = seac(A, A; 10 10), `C` = seac(B, B; 20 20),
`D` = seac(C, C; 30 30) -/
def fontChain : List UInt8 := ofHex "252150532d41646f6265466f6e742d312e303a205420310a3132206469637420626567696e0a2f466f6e74496e666f203220646963742064757020626567696e0a656e64206465660a2f466f6e744e616d65202f54206465660a2f456e636f64696e67205374616e64617264456e636f64696e67206465660a2f466f6e74547970652031206465660a63757272656e746469637420656e640a647570202f50726976617465203820646963742064757020626567696e0a2f5244207b737472696e672063757272656e7466696c6520657863682072656164737472696e6720706f707d20657865637574656f6e6c79206465660a2f4e44207b6465667d20657865637574656f6e6c79206465660a3220696e646578202f43686172537472696e6773203620646963742064757020626567696e0a2f2e6e6f7464656620392052442010bf317079c757bf91204e440a2f412031372052442010bf31706754cac6f988c8a50c1834671b204e440a2f422031342052442010bf31707ed7cef69354e98bf411204e440a2f432031352052442010bf31707ff0db444960cbcf477bfb204e440a2f442031352052442010bf31707c6c8734ed641c775d61c1204e440a656e640a656e640a726561646f6e6c79207075740a7075740a647570202f466f6e744e616d6520676574206578636820646566696e65666f6e7420706f700a".toList

/-- 25 links: `A` plain, `B` = seac(A, A), `C` = seac(B, B), …, `Z` = seac(Y, Y): before the repair `Z` had
`4 · 2^25` commands -/
def fontChain26 : List UInt8 := ofHex "252150532d41646f6265466f6e742d312e303a205420310a3132206469637420626567696e0a2f466f6e74496e666f203220646963742064757020626567696e0a656e64206465660a2f466f6e744e616d65202f54206465660a2f456e636f64696e67205374616e64617264456e636f64696e67206465660a2f466f6e74547970652031206465660a63757272656e746469637420656e640a647570202f50726976617465203820646963742064757020626567696e0a2f5244207b737472696e672063757272656e7466696c6520657863682072656164737472696e6720706f707d20657865637574656f6e6c79206465660a2f4e44207b6465667d20657865637574656f6e6c79206465660a3220696e646578202f43686172537472696e677320323820646963742064757020626567696e0a2f2e6e6f7464656620392052442010bf317079c757bf91204e440a2f412031372052442010bf31706754cac6f988c8a50c1834671b204e440a2f422031342052442010bf31707ec8a6a4b4756d2c840d204e440a2f432031342052442010bf31707ff65059cb0c7dc74dd1204e440a2f442031342052442010bf31707c69d19e45dac50500bf204e440a2f452031342052442010bf31707d9926e8bba4f357302f204e440a2f462031342052442010bf317062500848f12d742ef278204e440a2f472031342052442010bf31706386271ad854c3c7e535204e440a2f482031342052442010bf317060f1af843fcbd9491a3a204e440a2f492031352052442010bf31706121842760a6cd2d14f55c204e440a2f4a2031352052442010bf31706629fdb3a7eeef793f7c82204e440a2f4b2031352052442010bf3170675be5c449423fb01b2ae8204e440a2f4c2031352052442010bf317064b67aa26ffa7bd6fff8cc204e440a2f4d2031352052442010bf317065f84f036e98ae6d70f7dd204e440a2f4e2031352052442010bf31706aef0bf6a0db6dd1b614eb204e440a2f4f2031352052442010bf31706b11a3ef848301f627d1d7204e440a2f502031352052442010bf3170688c02874fb37583b28662204e440a2f512031352052442010bf317069bef8469d527338ec0673204e440a2f522031352052442010bf31706ea6939d97e4e967056abd204e440a2f532031352052442010bf31706fd7bd346f6f06d544250b204e440a2f542031352052442010bf31706c439a083cb38a09a407fa204e440a2f552031352052442010bf31706d74a24e916f5ef49d50f3204e440a2f562031352052442010bf3170524a8a20a7e77633fa118d204e440a2f572031352052442010bf3170537bab994837fd698fc27a204e440a2f582031352052442010bf317050d639d9394319205ba599204e440a2f592031352052442010bf317051188c6968c1af5bcb5d78204e440a2f5a2031352052442010bf317056005753723f09b76512c0204e440a656e640a656e640a726561646f6e6c79207075740a7075740a647570202f466f6e744e616d6520676574206578636820646566696e65666f6e7420706f700a".toList

/-- a custom `Encoding` (1 e, 2 acute, 3 eacute, 4 nothing); `x1` = `… 101 194 seac` (own width 555),
`eacute` = `… 1 2 seac`, `x2` = `… 1 4 seac` -/
def fontCustomEnc : List UInt8 := ofHex "252150532d41646f6265466f6e742d312e303a2054657374203030312e3030300a25254372656174696f6e446174653a204d6f6e204a616e20322031353a30343a303520323030360a3132206469637420626567696e0a2f466f6e74496e666f20313220646963742064757020626567696e0a2f76657273696f6e20283030312e30303029206465660a2f4e6f74696365202861206e6f7469636529206465660a2f46756c6c4e616d6520285465737420466f6e7429206465660a2f46616d696c794e616d6520285465737429206465660a2f5765696768742028526567756c617229206465660a2f4974616c6963416e676c65202d31322e35206465660a2f6973466978656450697463682074727565206465660a2f556e6465726c696e65506f736974696f6e202d313030206465660a2f556e6465726c696e65546869636b6e6573732035302e35206465660a656e64206465660a2f466f6e744e616d65202f54657374206465660a2f456e636f64696e67203235362061727261790a30203120323535207b3120696e6465782065786368202f2e6e6f74646566207075747d20666f720a6475702031202f65207075740a6475702032202f6163757465207075740a6475702033202f656163757465207075740a6475702034202f6e6f7468696e67207075740a726561646f6e6c79206465660a2f5061696e74547970652030206465660a2f466f6e74547970652031206465660a2f466f6e744d6174726978205b302e3030312030203020302e303031203020305d206465660a63757272656e746469637420656e640a647570202f5072697661746520323020646963742064757020626567696e0a2f5244207b737472696e672063757272656e7466696c6520657863682072656164737472696e6720706f707d20657865637574656f6e6c79206465660a2f4e44207b6465667d20657865637574656f6e6c79206465660a2f4e50207b7075747d20657865637574656f6e6c79206465660a3220696e646578202f43686172537472696e677320313020646963742064757020626567696e0a2f2e6e6f7464656620392052442010bf317079c757bf91204e440a2f737061636520392052442010bf317079c738be10204e440a2f612032362052442010bf31706754cac6e70c055783ac4ead66f9af9f17500cab24c4204e440a2f652033302052442010bf31705b07bfaf976a4df574416ab1bd6a6b94a5f70909e535290e495d204e440a2f61637574652032392052442010bf31704fa5f8005b0c91a8c6db1c0197c8724cdbf38bc2e5a561286c204e440a2f6561637574652031372052442010bf31705b07bfafbac320eec4e0528f1d204e440a2f78312031382052442010bf31705b07502ccf3b082d523e1ef4f72c204e440a2f78322031352052442010bf31705b07bfafbaa6591eefcf64204e440a2f78332031352052442010bf31705b07bfafbaa65919d5cb4c204e440a656e640a656e640a726561646f6e6c79207075740a7075740a647570202f466f6e744e616d6520676574206578636820646566696e65666f6e7420706f700a".toList

/-- no `Encoding` entry; `eacute` = `… 101 194 seac` with own width 555 -/
def fontNoEnc : List UInt8 := ofHex "252150532d41646f6265466f6e742d312e303a2054657374203030312e3030300a25254372656174696f6e446174653a204d6f6e204a616e20322031353a30343a303520323030360a3132206469637420626567696e0a2f466f6e74496e666f20313220646963742064757020626567696e0a2f76657273696f6e20283030312e30303029206465660a2f4e6f74696365202861206e6f7469636529206465660a2f46756c6c4e616d6520285465737420466f6e7429206465660a2f46616d696c794e616d6520285465737429206465660a2f5765696768742028526567756c617229206465660a2f4974616c6963416e676c65202d31322e35206465660a2f6973466978656450697463682074727565206465660a2f556e6465726c696e65506f736974696f6e202d313030206465660a2f556e6465726c696e65546869636b6e6573732035302e35206465660a656e64206465660a2f466f6e744e616d65202f54657374206465660a2f5061696e74547970652030206465660a2f466f6e74547970652031206465660a2f466f6e744d6174726978205b302e3030312030203020302e303031203020305d206465660a63757272656e746469637420656e640a647570202f5072697661746520323020646963742064757020626567696e0a2f5244207b737472696e672063757272656e7466696c6520657863682072656164737472696e6720706f707d20657865637574656f6e6c79206465660a2f4e44207b6465667d20657865637574656f6e6c79206465660a2f4e50207b7075747d20657865637574656f6e6c79206465660a3220696e646578202f43686172537472696e6773203720646963742064757020626567696e0a2f2e6e6f7464656620392052442010bf317079c757bf91204e440a2f737061636520392052442010bf317079c738be10204e440a2f612032362052442010bf31706754cac6e70c055783ac4ead66f9af9f17500cab24c4204e440a2f652033302052442010bf31705b07bfaf976a4df574416ab1bd6a6b94a5f70909e535290e495d204e440a2f61637574652032392052442010bf31704fa5f8005b0c91a8c6db1c0197c8724cdbf38bc2e5a561286c204e440a2f6561637574652031382052442010bf31705b07502ccf3b082d523e1ef4f72c204e440a656e640a656e640a726561646f6e6c79207075740a7075740a647570202f466f6e744e616d6520676574206578636820646566696e65666f6e7420706f700a".toList

/-- `/lenIV 1 def`; entries of 0 (`s0`, `raw0`), 1 (`raw1`), 2 (`s1` = endchar), 3 (`s2`), 4 (`s3`), 5 (`s4`) bytes -/
def fontShort : List UInt8 := ofHex "252150532d41646f6265466f6e742d312e303a2054657374203030312e3030300a25254372656174696f6e446174653a204d6f6e204a616e20322031353a30343a303520323030360a3132206469637420626567696e0a2f466f6e74496e666f20313220646963742064757020626567696e0a2f76657273696f6e20283030312e30303029206465660a2f4e6f74696365202861206e6f7469636529206465660a2f46756c6c4e616d6520285465737420466f6e7429206465660a2f46616d696c794e616d6520285465737429206465660a2f5765696768742028526567756c617229206465660a2f4974616c6963416e676c65202d31322e35206465660a2f6973466978656450697463682074727565206465660a2f556e6465726c696e65506f736974696f6e202d313030206465660a2f556e6465726c696e65546869636b6e6573732035302e35206465660a656e64206465660a2f466f6e744e616d65202f54657374206465660a2f456e636f64696e67205374616e64617264456e636f64696e67206465660a2f5061696e74547970652030206465660a2f466f6e74547970652031206465660a2f466f6e744d6174726978205b302e3030312030203020302e303031203020305d206465660a63757272656e746469637420656e640a647570202f5072697661746520323020646963742064757020626567696e0a2f5244207b737472696e672063757272656e7466696c6520657863682072656164737472696e6720706f707d20657865637574656f6e6c79206465660a2f4e44207b6465667d20657865637574656f6e6c79206465660a2f4e50207b7075747d20657865637574656f6e6c79206465660a2f6c656e49562031206465660a3220696e646578202f43686172537472696e677320313120646963742064757020626567696e0a2f2e6e6f746465662036205244201034eb1ad9d9204e440a2f73706163652036205244201034eb7538e6204e440a2f6120323320524420102af446509fb959550d52450c339cf1ce32c52a85fb50204e440a2f7330203020524420204e440a2f733120322052442010b1204e440a2f733220332052442010b6fe204e440a2f7333203420524420102f02a1204e440a2f7334203520524420103497d5fd204e440a2f72617730203020524420204e440a2f726177312031205244204d204e440a656e640a656e640a726561646f6e6c79207075740a7075740a647570202f466f6e744e616d6520676574206578636820646566696e65666f6e7420706f700a".toList

def check (input : List UInt8) (p : Font → Bool) : Bool :=
  match readFont input with
  | .ok f => p f
  | _ => false

def glyphCmds (f : Font) (n : String) : List T1Encode.Cmd :=
  match lookupG f.glyphs (str n) with
  | some g => g.cmds
  | none => []

def glyphWidth (f : Font) (n : String) : Rat :=
  match lookupG f.glyphs (str n) with
  | some g => g.widthX
  | none => -1

def outlineE : List T1Encode.Cmd :=
  [.moveTo 60 0, .lineTo 160 0, .lineTo 160 100, .curveTo 161 102 164 106 169 112, .closePath]

-- (a) the defaults
#guard check fontMinimal fun f =>
  f.priv.blueValues == [] && f.priv.otherBlues == [] && f.priv.blueScale == real0039625 && f.priv.blueShift == 7 &&
  f.priv.blueFuzz == 1 && f.priv.stdHW == 0 && f.priv.stdVW == 0 && f.priv.forceBold == false &&
  f.info.fontName == [] && f.info.version == [] && f.info.italicAngle == 0 && f.info.isFixedPitch == false &&
  f.info.fontMatrix == defaultFontMatrix && f.encoding == [] &&
  f.glyphs.map (·.1) == [str ".notdef", str "a"] && glyphWidth f ".notdef" == 0 && glyphWidth f "a" == 500
-- (a) present entries
#guard check fontPrivate fun f =>
  f.priv.blueValues == [-10, 0, 500, 510] && f.priv.otherBlues == [-250, -240] &&
  f.priv.blueScale == SoftFloat.ofDecimal false 5 (-2) && f.priv.blueShift == 9 && f.priv.blueFuzz == 0 &&
  f.priv.stdHW == SoftFloat.ofInt 50 && f.priv.stdVW == SoftFloat.ofDecimal false 805 (-1) && f.priv.forceBold == true &&
  f.info.fontName == str "Test" && f.info.italicAngle == SoftFloat.ofDecimal true 125 (-1) && f.encoding.length == 256
-- (b) a negative lenIV: the read succeeds and every glyph is empty
#guard check fontNegLenIV fun f =>
  f.glyphs.map (·.1) == [str ".notdef", str "a", str "space"] && f.glyphs.all (fun p => p.2.cmds == [] && p.2.widthX == 0)
-- (b)/(d) lenIV 1: only the entries of length 0 are skipped; a one-byte entry is an empty charstring
#guard check fontShort fun f =>
  f.glyphs.map (·.1) == [".notdef", "a", "raw1", "s1", "s2", "s3", "s4", "space"].map str &&
  glyphCmds f "raw1" == [] && glyphCmds f "s3" == [.moveTo 5 0]
-- (c) composites: base outline, then the accent moved by (adx, ady); the composite's own width; the base is unchanged;
-- three composites on one base do not influence each other
#guard check fontSeac fun f =>
  glyphCmds f "eacute" == glyphCmds f "e" ++ (glyphCmds f "acute").map (translate 120 200) &&
  glyphCmds f "egrave" == glyphCmds f "e" ++ (glyphCmds f "grave").map (translate (-20) 150) &&
  glyphCmds f "e.alt" == glyphCmds f "e" ++ (glyphCmds f "acute").map (translate 1 2) &&
  glyphCmds f "e" == outlineE &&
  glyphWidth f "egrave" == 555 && glyphWidth f "eacute" == 444 && glyphWidth f "e" == 444 && glyphWidth f "grave" == 300
-- (c) the codes are standard codes whatever the font's Encoding: `x1` (101, 194) is e + acute with its own width 555;
-- `eacute` (codes 1, 2 = .notdef in the standard encoding) is built on `.notdef`; x2 likewise
#guard check fontCustomEnc fun f =>
  glyphCmds f "x1" == outlineE ++ (glyphCmds f "acute").map (translate 120 200) && glyphWidth f "x1" == 555 &&
  glyphCmds f "eacute" == [] && glyphWidth f "eacute" == 444 && glyphCmds f "e" == outlineE
-- (c) … and when the font has no Encoding at all
#guard check fontNoEnc fun f =>
  f.encoding == [] && glyphCmds f "eacute" == outlineE ++ (glyphCmds f "acute").map (translate 120 200) &&
  glyphWidth f "eacute" == 555
-- (c) a chain: `B` (on the plain `A`) is composed, `C` (on the composite `B`) and `D` (on `C`) stay as decoded
#guard check fontChain fun f =>
  glyphCmds f "A" == [.moveTo 20 20, .lineTo 120 20, .lineTo 120 70, .closePath] &&
  glyphCmds f "B" == glyphCmds f "A" ++ (glyphCmds f "A").map (translate 10 10) &&
  glyphCmds f "C" == [] && glyphCmds f "D" == [] &&
  glyphWidth f "A" == 500 && glyphWidth f "B" == 100 && glyphWidth f "C" == 200 && glyphWidth f "D" == 300
-- (c) 25 links: no glyph has more than 2 · 4 commands
#guard check fontChain26 fun f =>
  f.glyphs.length == 27 && f.glyphs.all (fun p => p.2.cmds.length ≤ 8) && (glyphCmds f "B").length == 8 &&
  glyphCmds f "Z" == []
-- (d) names sorted
#guard check fontSeac fun f =>
  f.glyphs.map (·.1) == [".notdef", "a", "acute", "e", "e.alt", "eacute", "egrave", "grave", "space"].map str
-- error outcomes
#guard (match readFont (str "%!\n/F 3 dict def FontDirectory /F F put") with | .error .wrongFontType => true | _ => false)
#guard (match readFont (str "%!\n") with | .error .notOneFont => true | _ => false)
#guard (match readFont (str "hello") with | .error (.interp .noPS) => true | _ => false)
#guard (match readFont [] with | .error (.interp .noPS) => true | _ => false)

end PsVerif.Props.C06Read

#print axioms PsVerif.Props.C06Read.extract_fields
#print axioms PsVerif.Props.C06Read.private_defaults
#print axioms PsVerif.Props.C06Read.real0039625_eq
#print axioms PsVerif.Props.C06Read.real0001_eq
#print axioms PsVerif.Props.C06Read.lenIV_default
#print axioms PsVerif.Props.C06Read.lenIV_present
#print axioms PsVerif.Props.C06Read.lenIV_not_integer
#print axioms PsVerif.Props.C06Read.blueScale_present_real
#print axioms PsVerif.Props.C06Read.blueScale_present_int
#print axioms PsVerif.Props.C06Read.blueScale_wrong_type
#print axioms PsVerif.Props.C06Read.blueShift_present
#print axioms PsVerif.Props.C06Read.wrap32_id
#print axioms PsVerif.Props.C06Read.wrap16_id
#print axioms PsVerif.Props.C06Read.blueShift_wrong_type
#print axioms PsVerif.Props.C06Read.blueFuzz_present
#print axioms PsVerif.Props.C06Read.blueFuzz_wrong_type
#print axioms PsVerif.Props.C06Read.forceBold_present
#print axioms PsVerif.Props.C06Read.int16sOf_ints
#print axioms PsVerif.Props.C06Read.blueValues_present
#print axioms PsVerif.Props.C06Read.otherBlues_present
#print axioms PsVerif.Props.C06Read.int16sOf_bad
#print axioms PsVerif.Props.C06Read.blueValues_dropped
#print axioms PsVerif.Props.C06Read.stdHW_present_real
#print axioms PsVerif.Props.C06Read.stdHW_present_int
#print axioms PsVerif.Props.C06Read.stdVW_present_real
#print axioms PsVerif.Props.C06Read.stdVW_present_int
#print axioms PsVerif.Props.C06Read.stdHW_wrong_length
#print axioms PsVerif.Props.C06Read.info_defaults
#print axioms PsVerif.Props.C06Read.fontName_present
#print axioms PsVerif.Props.C06Read.fontName_wrong_type
#print axioms PsVerif.Props.C06Read.notice_present
#print axioms PsVerif.Props.C06Read.copyright_present
#print axioms PsVerif.Props.C06Read.fullName_present
#print axioms PsVerif.Props.C06Read.familyName_present
#print axioms PsVerif.Props.C06Read.weight_present
#print axioms PsVerif.Props.C06Read.version_present
#print axioms PsVerif.Props.C06Read.version_fallback
#print axioms PsVerif.Props.C06Read.italicAngle_present_real
#print axioms PsVerif.Props.C06Read.italicAngle_present_int
#print axioms PsVerif.Props.C06Read.underlinePosition_present_real
#print axioms PsVerif.Props.C06Read.underlinePosition_present_int
#print axioms PsVerif.Props.C06Read.underlineThickness_present_real
#print axioms PsVerif.Props.C06Read.underlineThickness_present_int
#print axioms PsVerif.Props.C06Read.isFixedPitch_present
#print axioms PsVerif.Props.C06Read.fontMatrix_default
#print axioms PsVerif.Props.C06Read.fontMatrix_not_array
#print axioms PsVerif.Props.C06Read.fontMatrix_wrong_length
#print axioms PsVerif.Props.C06Read.fontMatrix_present
#print axioms PsVerif.Props.C06Read.fontMatrix_invalid
#print axioms PsVerif.Props.C06Read.encoding_none
#print axioms PsVerif.Props.C06Read.namesOf_names
#print axioms PsVerif.Props.C06Read.encoding_present
#print axioms PsVerif.Props.C06Read.namesOf_bad
#print axioms PsVerif.Props.C06Read.encoding_invalid
#print axioms PsVerif.Props.C06Read.encoding_final
#print axioms PsVerif.Props.C06Read.lenIV_no_allocation
#print axioms PsVerif.Props.C06Read.lenIV_negative_plain
#print axioms PsVerif.Props.C06Read.lenIV_too_long_plain
#print axioms PsVerif.Props.C06Read.lenIV_plain
#print axioms PsVerif.Props.C06Read.lenIV_usable_plain
#print axioms PsVerif.Props.C06Read.lenIV_negative_font
#print axioms PsVerif.Props.C06Read.seac_fields
#print axioms PsVerif.Props.C06Read.seac_offsets
#print axioms PsVerif.Props.C06Read.seac_standard_codes
#print axioms PsVerif.Props.C06Read.seac_composed
#print axioms PsVerif.Props.C06Read.seac_base_unchanged
#print axioms PsVerif.Props.C06Read.seac_independent
#print axioms PsVerif.Props.C06Read.seac_parts_not_composite
#print axioms PsVerif.Props.C06Read.seac_self_accent
#print axioms PsVerif.Props.C06Read.seac_unresolved
#print axioms PsVerif.Props.C06Read.mem_compositeNames
#print axioms PsVerif.Props.C06Read.seac_size_bound
#print axioms PsVerif.Props.C06Read.seac_size_bound_font
#print axioms PsVerif.Props.C06Read.seac_total_bound
#print axioms PsVerif.Props.C06Read.seac_result
#print axioms PsVerif.Props.C06Read.seac_order_independent
#print axioms PsVerif.Props.C06Read.glyph_names
#print axioms PsVerif.Props.C06Read.glyph_names_sorted
#print axioms PsVerif.Props.C06Read.glyphs_decoded
#print axioms PsVerif.Props.C06Read.bad_charstring_fails
#print axioms PsVerif.Props.C06Read.notdef_added
#print axioms PsVerif.Props.C06Read.read_never_panics
#print axioms PsVerif.Props.C06Read.extract_never_panics
