import PsVerif.Proofs.PFBRefine
/-!
# C14 — the decoder refines "concatenate the segments", for every read pattern

Re-statement of the main results of `Proofs/PFBRefine.lean` under the names used in
DESIGN.md 8.14.  `segs` is any list of text (1) and binary (2) segments with lengths below
2^32, `tl` is either empty (input ends after a complete segment) or an end marker followed by
arbitrary bytes, `sizes` any list of caller buffer sizes, `sc` any short-read schedule of the
underlying reader.
-/
namespace PsVerif.Props.C14
open PsVerif.Model.PFB PsVerif.Proofs.PFBRefine

/-- the concatenation of everything the successive `Read` calls return is the prefix of the
specified output (text verbatim, binary as lower-case hex) of the total requested length -/
theorem pfb_all_schedules (segs : List Seg) (tl : List UInt8) (sc : List Nat) (sizes : List Nat)
    (hw : WF segs) (ht : TailOK tl) :
    ((drain { src := frame segs ++ tl, sched := sc } sizes).map (·.1)).flatten = (specOut segs).take sizes.sum :=
  pfb_refine_concat segs tl sc sizes hw ht

/-- the whole list of (bytes, error) results is a function of the specified output and the
buffer sizes only: independent of the schedule and of the segment boundaries -/
theorem pfb_schedule_independent (segs : List Seg) (tl : List UInt8) (sc1 sc2 : List Nat) (sizes : List Nat)
    (hw : WF segs) (ht : TailOK tl) :
    drain { src := frame segs ++ tl, sched := sc1 } sizes = drain { src := frame segs ++ tl, sched := sc2 } sizes := by
  rw [drain_spec sizes _ _ (pending_init segs tl sc1 hw ht), drain_spec sizes _ _ (pending_init segs tl sc2 hw ht)]

end PsVerif.Props.C14
