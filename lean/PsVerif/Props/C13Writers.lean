import PsVerif.Proofs.C13Writers
/-!
C13 for the two buffering writers (`eexecWriter`, `hexWriter`; model `Model/T1Writers.lean`): the stream
they produce on a writer that never fails, and what happens when the underlying writer fails at its
`k`-th call (0-based): the error is returned, and the underlying writer holds exactly the first `k`
blocks of the fault-free run.  All theorems are for ALL lists of chunks (any number, any lengths).

A result `r` of `runEexec`/`runHex` is `(r.1, r.2.1, r.2.2)` = (the `n` of every `Write(chunk)` call made,
`true` iff no call returned an error, the blocks accepted by the underlying writer, oldest first).
`Cipher.eexecR` is `55665`.
-/
namespace PsVerif.Props.C13
open PsVerif.Model PsVerif.Model.T1Writers PsVerif.Proofs.C13Writers

example : Cipher.eexecR = 55665 := rfl
example : iv = [0x81, 0, 0, 0] := by decide

/-! ## `eexecWriter` -/

theorem runEexec_eq (f : Option Nat) (chunks : List (List UInt8)) :
    runEexec f chunks =
      ((ewRun { buf := iv, R := Cipher.eexecR } (uwNew f) chunks).1,
       (ewRun { buf := iv, R := Cipher.eexecR } (uwNew f) chunks).2.1,
       (ewRun { buf := iv, R := Cipher.eexecR } (uwNew f) chunks).2.2.blocks) := by
  simp [runEexec, ewNew_eq]

/-- Fault-free: no error, every `Write` reports the whole chunk, the accepted blocks concatenate to the
cipher text of `iv ++ plain` - whatever the cut into chunks - and they are `full ++ [last]` with every
block of `full` exactly 512 bytes and `last` (written by `Close`, possibly EMPTY: a zero-length write)
of `(4 + len) % 512 < 512` bytes; so `(4 + len) / 512 + 1` underlying calls. -/
theorem eexec_stream (chunks : List (List UInt8)) :
    (runEexec none chunks).1 = chunks.map List.length ∧
    (runEexec none chunks).2.1 = true ∧
    (runEexec none chunks).2.2.flatten = Cipher.encrypt Cipher.eexecR (iv ++ chunks.flatten) ∧
    (∃ (full : List (List UInt8)) (last : List UInt8), (runEexec none chunks).2.2 = full ++ [last] ∧ (∀ b ∈ full, b.length = 512) ∧
      last.length < 512 ∧ last.length = (4 + chunks.flatten.length) % 512) ∧
    (runEexec none chunks).2.2.length = (4 + chunks.flatten.length) / 512 + 1 := by
  obtain ⟨full, last, h1, h2, h3, h4⟩ :=
    ewRun_ok { buf := iv, R := Cipher.eexecR } (uwNew none) chunks rfl (by decide)
  rw [runEexec_eq, h1]
  have hl := flatten_length_of_all 512 full h2
  have hlen := congrArg List.length h4
  simp only [List.length_append, encrypt_length, hl] at hlen
  have hiv : iv.length = 4 := rfl
  simp only [cap, hiv] at hlen h3 h2
  refine ⟨rfl, rfl, ?_, ⟨full, last, by simp [uwNew], h2, h3, by omega⟩, ?_⟩
  · simp [uwNew, h4]
  · simp only [uwNew, List.nil_append, List.length_append, List.length_cons, List.length_nil]; omega

/-- `uwNew (some k)` and `uwNew none` are twins -/
theorem twin_new (k : Nat) : Twin k (uwNew (some k)) (uwNew none) :=
  ⟨rfl, rfl, rfl, rfl, rfl, Nat.zero_le k⟩

/-- The underlying writer fails at call `k`.  If the fault-free run makes more than `k` underlying calls,
the run reports an error and the accepted blocks are exactly the first `k` blocks of the fault-free run
(nothing written twice, nothing skipped, nothing after the fault).  Otherwise the run is the fault-free run. -/
theorem eexec_fault_surfaces (k : Nat) (chunks : List (List UInt8)) :
    (k < (runEexec none chunks).2.2.length →
      (runEexec (some k) chunks).2.1 = false ∧
      (runEexec (some k) chunks).2.2 = (runEexec none chunks).2.2.take k) ∧
    ((runEexec none chunks).2.2.length ≤ k → runEexec (some k) chunks = runEexec none chunks) := by
  have hok := (eexec_stream chunks).2.1
  rw [runEexec_eq] at hok
  rw [runEexec_eq, runEexec_eq]
  rcases ewRun_twin { buf := iv, R := Cipher.eexecR } _ _ chunks (twin_new k) (by decide) with
    ⟨h1, h2, h3, h4⟩ | ⟨h1, h2, h3⟩
  · refine ⟨fun h => ?_, fun _ => ?_⟩
    · simp only at h; omega
    · simp only at hok; rw [h1, h2, h3, hok]
  · refine ⟨fun _ => ⟨h1, h2⟩, fun h => ?_⟩
    simp only at h; omega

/-- Per call: with the writers in agreement before the call (`Twin`: same blocks, same number of calls `≤ k`,
`w` fails at call `k`, `w0` never), `Write` returns an error exactly when the failing underlying call happens
during this `Write` - i.e. the error is returned by the call during which it happened, not later, not never. -/
theorem ewWrite_fault_surfaces (k : Nat) (e : EW) (w w0 : UW) (p : List UInt8)
    (ht : Twin k w w0) (hb : e.buf.length < 512) :
    (ewWrite e w p).2.2.2 = decide (k < (ewWrite e w0 p).2.1.calls) := by
  obtain ⟨new, e', g1, _⟩ := ewWrite_ok e w0 p ht.fa0 hb
  have hcalls : (ewWrite e w0 p).2.1.calls = (ewWrite e w0 p).2.1.blocks.length := by
    rw [g1]; simp [ht.len]
  rcases ewWriteLoop_twin (p.length + 1) e w w0 p 0 ht hb (by omega) with ⟨h1, _, _, h4⟩ | ⟨h1, _, h3⟩
  · have := h4.le
    simp only [ewWrite, h1]
    exact (decide_eq_false (by omega)).symm
  · simp only [ewWrite, h1] at hcalls ⊢
    exact (decide_eq_true (by omega)).symm

theorem ewClose_fault_surfaces (k : Nat) (e : EW) (w w0 : UW) (ht : Twin k w w0) :
    (ewClose e w).2.2 = decide (k < (ewClose e w0).2.1.calls) := by
  unfold ewClose
  rcases ewFlush_twin ht e with ⟨h1, _, h3, _⟩ | ⟨h1, _, h3⟩
  · have := h3.le
    rw [h1]; exact (decide_eq_false (by omega)).symm
  · rw [h1, ewFlush_ok _ _ ht.fa0]; have := ht.len; exact (decide_eq_true (by simp only; omega)).symm

/-! ## `hexWriter` -/

theorem runHex_eq (f : Option Nat) (chunks : List (List UInt8)) :
    runHex f chunks =
      ((hwRun { buf := hexOf [] } (uwNew f) chunks).1, (hwRun { buf := hexOf [] } (uwNew f) chunks).2.1,
       (hwRun { buf := hexOf [] } (uwNew f) chunks).2.2.blocks) := rfl

/-- Fault-free: no error, every `Write` reports the whole chunk, and the accepted blocks are the lines
`hexOf g ++ "\n"` for the data cut into groups `g` of 39 bytes (78 lower-case digits), the last group `rest`
shorter and its line present only if `rest` is non-empty; one underlying call per line, `⌈len/39⌉` in all. -/
theorem hex_stream (chunks : List (List UInt8)) :
    (runHex none chunks).1 = chunks.map List.length ∧
    (runHex none chunks).2.1 = true ∧
    (∃ (full : List (List UInt8)) (rest : List UInt8), (runHex none chunks).2.2 = full.map line ++ lastLine rest ∧
      (∀ g ∈ full, g.length = 39) ∧ rest.length < 39 ∧ full.flatten ++ rest = chunks.flatten) ∧
    (runHex none chunks).2.2.length = (chunks.flatten.length + 38) / 39 := by
  obtain ⟨full, rest, h1, h2, h3, h4⟩ := hwRun_ok (uwNew none) chunks [] rfl (by decide)
  rw [runHex_eq, h1]
  have hl := flatten_length_of_all 39 full h2
  have hlen := congrArg List.length h4
  simp only [List.length_append, hl, List.nil_append] at hlen
  refine ⟨rfl, rfl, ⟨full, rest, by simp [uwNew], h2, h3, by simpa using h4⟩, ?_⟩
  have hll : (lastLine rest).length = if rest.length = 0 then 0 else 1 := by
    unfold lastLine; cases rest <;> simp
  simp only [uwNew, List.nil_append, List.length_append, List.length_map, hll]
  split <;> omega

theorem hex_fault_surfaces (k : Nat) (chunks : List (List UInt8)) :
    (k < (runHex none chunks).2.2.length →
      (runHex (some k) chunks).2.1 = false ∧
      (runHex (some k) chunks).2.2 = (runHex none chunks).2.2.take k) ∧
    ((runHex none chunks).2.2.length ≤ k → runHex (some k) chunks = runHex none chunks) := by
  have hok := (hex_stream chunks).2.1
  rw [runHex_eq] at hok
  rw [runHex_eq, runHex_eq]
  rcases hwRun_twin _ _ chunks [] (twin_new k) (by decide) with ⟨h1, h2, h3, h4⟩ | ⟨h1, h2, h3⟩
  · refine ⟨fun h => ?_, fun _ => ?_⟩
    · simp only at h; omega
    · simp only at hok; rw [h1, h2, h3, hok]
  · refine ⟨fun _ => ⟨h1, h2⟩, fun h => ?_⟩
    simp only at h; omega

/-! ## the PFA form: `eexecWriter` writing into `hexWriter` writing into `w`, fault-free

Every block the `eexecWriter` hands down is one `Write` call on the `hexWriter`; then both are closed. -/
theorem eexec_then_hex (chunks : List (List UInt8)) :
    (runHex none (runEexec none chunks).2.2).2.1 = true ∧
    ∃ (full : List (List UInt8)) (rest : List UInt8), (runHex none (runEexec none chunks).2.2).2.2 = full.map line ++ lastLine rest ∧
      (∀ g ∈ full, g.length = 39) ∧ rest.length < 39 ∧
      full.flatten ++ rest = Cipher.encrypt Cipher.eexecR (iv ++ chunks.flatten) := by
  obtain ⟨_, h2, ⟨full, rest, h3, h4, h5, h6⟩, _⟩ := hex_stream (runEexec none chunks).2.2
  exact ⟨h2, full, rest, h3, h4, h5, by rw [h6, (eexec_stream chunks).2.2.1]⟩

/-! ## non-vacuity -/

example : (runHex none [[0xAB]]) = ([1], true, [[0x61, 0x62, 10]]) := by decide
example : (runHex none []) = ([], true, []) := by decide
example : hexTable = "0123456789abcdef".toList.map (fun c => c.toNat.toUInt8) := by decide
example : (runEexec none [[1, 2], [], [3]]).2.2 = [Cipher.encrypt 55665 [0x81, 0, 0, 0, 1, 2, 3]] := by decide
example : (runEexec (some 0) [[1, 2], [], [3]]) = ([2, 0, 1], false, []) := by decide
example : (runHex (some 0) [[1, 2], [], [3]]) = ([2, 0, 1], false, []) := by decide

/-! ## negative results: seeded variants violate `eexec_fault_surfaces`

`runV flush shadow` is `runEexec` with `flush` in place of `ewFlush`; with `shadow = true` the `Write` loop
drops the error of a failed flush (`err := w.flush()` shadowing the named result) and goes on. -/

def loopV (flush : EW → UW → EW × UW × Bool) (shadow : Bool) : Nat → EW → UW → Bytes → Nat → EW × UW × Nat × Bool
  | 0, e, w, _, n => (e, w, n, true)
  | fuel + 1, e, w, p, n =>
    if p.isEmpty then (e, w, n, false)
    else
      let k := min (cap - e.buf.length) p.length
      let e1 : EW := { e with buf := e.buf ++ p.take k }
      if e1.buf.length ≥ cap then
        let r := flush e1 w
        if r.2.2 && !shadow then (r.1, r.2.1, n + k, true)
        else loopV flush shadow fuel r.1 r.2.1 (p.drop k) (n + k)
      else loopV flush shadow fuel e1 w (p.drop k) (n + k)

def runLoopV (flush : EW → UW → EW × UW × Bool) (shadow : Bool) : EW → UW → List Bytes → List Nat × Bool × UW
  | e, w, [] => let r := flush e w; ([], !r.2.2, r.2.1)
  | e, w, p :: ps =>
    let r := loopV flush shadow (p.length + 2) e w p 0
    if r.2.2.2 then ([r.2.2.1], false, r.2.1)
    else let t := runLoopV flush shadow r.1 r.2.1 ps; (r.2.2.1 :: t.1, t.2.1, t.2.2)

def runV (flush : EW → UW → EW × UW × Bool) (shadow : Bool) (failAt : Option Nat) (chunks : List Bytes) :
    List Nat × Bool × List Bytes :=
  let t := runLoopV flush shadow { buf := [], R := Cipher.eexecR } (uwNew failAt) (iv :: chunks)
  (t.1.drop 1, t.2.1, t.2.2.blocks)

/-- `n, err := w.w.Write(w.buf[:w.pos]); if err != nil && n < w.pos { return err }`: the error is dropped
unless the write was short (a failing call accepts `n = 0` bytes) -/
def flushShort (e : EW) (w : UW) : EW × UW × Bool :=
  let cr := encLoop e.R e.buf
  let r := uwWrite w cr.1
  if r.2 && decide (0 < cr.1.length) then ({ buf := cr.1, R := cr.2 }, r.1, true)
  else ({ buf := [], R := cr.2 }, r.1, false)

/-- the variants are the model when nothing is changed (sanity of the local copy) -/
example : runV ewFlush false (some 1) [List.replicate 700 7, [1, 2, 3]] =
    runEexec (some 1) [List.replicate 700 7, [1, 2, 3]] := by decide +kernel
example : runV ewFlush false none [List.replicate 700 7, [1, 2, 3]] =
    runEexec none [List.replicate 700 7, [1, 2, 3]] := by decide +kernel

/-- 508 bytes: the fault-free run makes 2 calls (512 bytes, then the empty write of `Close`).  With the call of
`Close` failing, the variant reports success; `eexec_fault_surfaces` demands `false`. -/
theorem flushShort_swallows :
    1 < (runEexec none [List.replicate 508 0]).2.2.length ∧
    (runV flushShort false (some 1) [List.replicate 508 0]).2.1 = true ∧
    (runEexec (some 1) [List.replicate 508 0]).2.1 = false := by decide +kernel

/-- 1100 bytes in one chunk, call 0 failing: the `Write` whose flush error is shadowed reports success, the block
of the failed call is encrypted a second time and written, so the output is not a prefix of the fault-free one. -/
theorem shadowed_flush_swallows :
    0 < (runEexec none [List.replicate 1100 0]).2.2.length ∧
    (runV ewFlush true (some 0) [List.replicate 1100 0]).2.1 = true ∧
    (runV ewFlush true (some 0) [List.replicate 1100 0]).2.2 ≠ (runEexec none [List.replicate 1100 0]).2.2.take 0 ∧
    (runEexec (some 0) [List.replicate 1100 0]) = ([508], false, []) := by decide +kernel

/-- Resetting `pos` before the error check (`w.pos = 0; return err`) is NOT separated by these runs: the error
is still returned and the run stops, so the stale/reset buffer is never observed (same results for every input
that was tried; it matters only for callers that go on after an error). -/
def flushResetFirst (e : EW) (w : UW) : EW × UW × Bool :=
  let cr := encLoop e.R e.buf
  let r := uwWrite w cr.1
  ({ buf := [], R := cr.2 }, r.1, r.2)

example : runV flushResetFirst false (some 1) [List.replicate 700 7, List.replicate 700 8] =
    runEexec (some 1) [List.replicate 700 7, List.replicate 700 8] := by decide +kernel

#print axioms eexec_stream
#print axioms eexec_fault_surfaces
#print axioms ewWrite_fault_surfaces
#print axioms ewClose_fault_surfaces
#print axioms hex_stream
#print axioms hex_fault_surfaces
#print axioms eexec_then_hex
#print axioms flushShort_swallows
#print axioms shadowed_flush_swallows

end PsVerif.Props.C13
