import PsVerif.Model.PFBEager
import PsVerif.Proofs.PFBRefine
/-!
# C14 — sources that return their last bytes together with `io.EOF`

`Model/PFBEager.lean` is the model of `pfbReader.Read` over an *eager* `io.Reader` (`(n > 0, io.EOF)`), a legal
short-read pattern that `Model/PFB.lean` does not contain.  Proved here, for EVERY input (well formed, truncated,
garbage), every schedule and every list of caller buffer sizes:

* `sim` / `sim_read` — one `Read` call: same bytes; same error, or the eager run reports the error while the plain
  decoder is left in a state (`Early`) whose next non-empty `Read` returns that very error and no bytes;
* `pfb_eager_eof_same` — whole runs: same bytes in total, and the same final error unless the plain run has not ended
  within the given sizes; `pfb_eager_eof_same_flat` — equality of `flat` when the plain run ends;
* for well-formed streams `pfb_eager_all_schedules`, `pfb_eager_refine_eof`, `pfb_eager_schedule_independent`.

Auxiliary: `readFullE_gen` (`io.ReadFull` over an eager source as a function of `src`; it consumes the same schedule
entries as the plain one whenever it succeeds).
-/
namespace PsVerif.Props.C14
open PsVerif.Model.PFB PsVerif.Model.PFBEager PsVerif.Proofs.PFBRefine

theorem readFull_k0 (fuel : Nat) (src acc : List UInt8) (sc : List Nat) :
    readFull fuel src sc 0 acc = (acc, src, sc) := by
  cases fuel <;> simp [readFull]

theorem readFullE_gen : ∀ (fuel k : Nat) (src acc : List UInt8) (sc : List Nat), k < fuel →
    (readFullE fuel src sc k acc).1 = acc ++ src.take k ∧
    (readFullE fuel src sc k acc).2.2.1 = src.drop k ∧
    (readFullE fuel src sc k acc).2.1 =
      (if k ≤ src.length then none else some (if (acc ++ src).isEmpty then PErr.eof else PErr.unexpectedEOF)) ∧
    (k ≤ src.length → (readFullE fuel src sc k acc).2.2.2 = (readFull fuel src sc k acc).2.2) := by
  intro fuel
  induction fuel with
  | zero => intro k src acc sc h; omega
  | succ f ih =>
    intro k src acc sc hf
    by_cases h0 : k = 0
    · subst h0; simp [readFullE, readFull]
    · have hk0 : (k == 0) = false := by simp [h0]
      have hw1 := wantOf_bounds sc k (by omega)
      unfold readFullE readFull
      simp only [hk0, Bool.false_eq_true, if_false, rawReadE, rawRead]
      obtain ⟨w, hwe⟩ : ∃ w, wantOf sc k = w := ⟨_, rfl⟩
      simp only [hwe] at hw1 ⊢
      by_cases hle : src.length ≤ w
      · have h1 : src.drop w = [] := List.drop_eq_nil_of_le hle
        have h2 : src.take w = src := List.take_of_length_le hle
        simp only [h1, h2, List.isEmpty_nil, if_true]
        by_cases hk : k ≤ src.length
        · have h3 : src.take k = src := List.take_of_length_le (by omega)
          have h4 : src.drop k = [] := List.drop_eq_nil_of_le (by omega)
          have hne : src.isEmpty = false := by
            cases src with
            | nil => simp at hk; omega
            | cons x xs => rfl
          have hkk : k - src.length = 0 := by omega
          simp [hk, h3, h4, hne, hkk, readFull_k0]
        · have h3 : src.take k = src := List.take_of_length_le (by omega)
          have h4 : src.drop k = [] := List.drop_eq_nil_of_le (by omega)
          simp [hk, h3, h4]
      · have hne : (src.drop w).isEmpty = false := by
          rw [List.isEmpty_eq_false_iff]
          intro h
          have := congrArg List.length h
          simp at this; omega
        have hne2 : (src.take w).isEmpty = false := by
          rw [List.isEmpty_eq_false_iff]
          intro h
          have := congrArg List.length h
          rw [List.length_take] at this
          simp only [List.length_nil] at this; omega
        simp only [hne, hne2, Bool.false_eq_true, if_false, List.length_take]
        have hmin : min w src.length = w := by omega
        rw [hmin]
        obtain ⟨i1, i2, i3, i4⟩ := ih (k - w) (src.drop w) (acc ++ src.take w) sc.tail (by omega)
        rw [i1, i2, i3]
        refine ⟨?_, ?_, ?_, ?_⟩
        · rw [List.append_assoc]; congr 1
          rw [← List.take_add]; congr 1; omega
        · rw [List.drop_drop]; congr 1; omega
        · simp only [List.length_drop, List.append_assoc, List.take_append_drop]
          by_cases hk : k ≤ src.length
          · have : k - w ≤ src.length - w := by omega
            simp [hk, this]
          · have : ¬ k - w ≤ src.length - w := by omega
            simp [hk, this]
        · intro hk
          exact i4 (by simp only [List.length_drop]; omega)

theorem readFull_nil (f k : Nat) (sc : List Nat) (hk : 0 < k) : readFull (f + 1) [] sc k [] = ([], [], sc.tail) := by
  have : (k == 0) = false := by simp; omega
  simp [readFull, rawRead, this]

theorem readFullE_nil (f k : Nat) (sc : List Nat) (hk : 0 < k) :
    readFullE (f + 1) [] sc k [] = ([], some .eof, [], sc.tail) := by
  have : (k == 0) = false := by simp; omega
  have h2 : ¬ k = 0 := by omega
  simp [readFullE, rawReadE, this, h2]

theorem readFullE_k0 (fuel : Nat) (src acc : List UInt8) (sc : List Nat) :
    readFullE fuel src sc 0 acc = (acc, none, src, sc) := by
  cases fuel <;> simp [readFullE]

def Sim (a b : St) : Prop :=
  a.src = b.src ∧ a.state = b.state ∧ a.len = b.len ∧ a.tail = b.tail ∧ (b.src ≠ [] → a.sched = b.sched)

theorem Sim.rfl' (a : St) : Sim a a := ⟨rfl, rfl, rfl, rfl, fun _ => rfl⟩

/-- the plain decoder is one step behind: its source is exhausted and its next non-empty `Read` returns `x` -/
def Early (st : St) (x : PErr) : Prop :=
  st.src = [] ∧ ((st.state = 0 ∧ x = .eof) ∨ (st.state = 1 ∧ 0 < st.len ∧ x = .unexpectedEOF))

def Rel (rE r : List UInt8 × Option PErr × St) : Prop :=
  rE.1 = r.1 ∧
  ((rE.2.1 = none ∧ r.2.1 = none ∧ Sim rE.2.2 r.2.2) ∨
   (∃ x, rE.2.1 = some x ∧ r.2.1 = some x) ∨
   (∃ x, rE.2.1 = some x ∧ r.2.1 = none ∧ Early r.2.2 x))

theorem rel_err (o : List UInt8) (x : PErr) (a b : St) : Rel (o, some x, a) (o, some x, b) :=
  ⟨rfl, Or.inr (Or.inl ⟨x, rfl, rfl⟩)⟩

theorem catchup (st : St) (x : PErr) (h : Early st x) (fuel m : Nat) (out : List UInt8) :
    readLoop fuel st m out = (out, none, st) ∨ ∃ st', readLoop fuel st m out = (out, some x, st') := by
  cases fuel with
  | zero => left; rfl
  | succ f =>
    by_cases hm : m = 0
    · subst hm; left; exact loop_zero _ _ _
    · right
      obtain ⟨src, sc, state, len, t⟩ := st
      obtain ⟨hs, h⟩ := h
      simp only at hs h
      subst hs
      rcases h with ⟨h1, h2⟩ | ⟨h1, h2, h3⟩
      · subst h1 h2
        exact step_empty sc len t m f out (by omega)
      · subst h1 h3
        have hm0 : (m == 0) = false := by simp; omega
        have hk : ¬ (min m len = 0) := by omega
        rw [readLoop]
        have hkp : 0 < min m len := by omega
        simp [hm0, rawRead, hk, hkp]

theorem rel_catchup (o : List UInt8) (x : PErr) (a st : St) (r : List UInt8 × Option PErr × St) (he : Early st x)
    (h : r = (o, none, st) ∨ ∃ st', r = (o, some x, st')) : Rel (o, some x, a) r := by
  rcases h with h | ⟨st', h⟩
  · subst h; exact ⟨rfl, Or.inr (Or.inr ⟨x, rfl, rfl, he⟩)⟩
  · subst h; exact rel_err _ _ _ _

theorem sim_nil : ∀ (fuel : Nat) (scE sc : List Nat) (state : Int) (len : Nat) (t : UInt8) (n : Nat) (out : List UInt8),
    Rel (readLoopE fuel { src := [], sched := scE, state := state, len := len, tail := t } n out)
        (readLoop fuel { src := [], sched := sc, state := state, len := len, tail := t } n out) := by
  intro fuel
  induction fuel with
  | zero => intro scE sc state len t n out; exact ⟨rfl, Or.inl ⟨rfl, rfl, rfl, rfl, rfl, rfl, fun h => absurd rfl h⟩⟩
  | succ f ih =>
    intro scE sc state len t n out
    by_cases hn : n = 0
    · subst hn
      rw [readLoopE, readLoop]
      exact ⟨rfl, Or.inl ⟨rfl, rfl, rfl, rfl, rfl, rfl, fun h => absurd rfl h⟩⟩
    have hn0 : (n == 0) = false := by simp; omega
    by_cases h0 : state = 0
    · subst h0
      rw [readLoopE, readLoop]
      simp only [hn0, readFullE_nil 6 6 scE (by omega), readFull_nil 6 6 sc (by omega)]
      simp
      exact rel_err _ _ _ _
    by_cases hm1 : state = -1
    · subst hm1
      rw [readLoopE, readLoop]
      simp [hn0]
      exact ih _ _ _ _ _ _ _
    by_cases h1 : state = 1
    · subst h1
      rw [readLoopE, readLoop]
      by_cases hl : len = 0
      · subst hl
        simp [hn0, wantOf_zero]
        apply rel_catchup out .eof _ { src := [], sched := sc, state := 0, len := 0, tail := t }
        · exact ⟨rfl, Or.inl ⟨rfl, rfl⟩⟩
        · exact catchup _ _ ⟨rfl, Or.inl ⟨rfl, rfl⟩⟩ _ _ _
      · have hk : ¬ (min n len = 0) := by omega
        simp [hn0, rawRead, rawReadE, hk]
        have : 0 < len := by omega
        have hkp : 0 < min n len := by omega
        simp [this, hkp]
        exact rel_err _ _ _ _
    by_cases h2 : state = 2
    · subst h2
      rw [readLoopE, readLoop]
      by_cases hl : len = 0
      · subst hl
        simp [hn0, readFullE_k0, readFull_k0, hexLower]
        exact ih _ _ _ _ _ _ _
      · have hk : 0 < min ((n + 1) / 2) len := by omega
        simp only [hn0, readFullE_nil _ _ scE hk, readFull_nil _ _ sc hk]
        have : 0 < len := by omega
        simp [this, hk]
        exact rel_err _ _ _ _
    · rw [readLoopE, readLoop]
      simp [hn0, h0, hm1, h1, h2]
      exact rel_err _ _ _ _

theorem sim_same : ∀ (fuel : Nat), (∀ (a b : St) (n : Nat) (out : List UInt8), Sim a b →
      Rel (readLoopE fuel a n out) (readLoop fuel b n out)) →
    ∀ (src : List UInt8) (sc : List Nat) (state : Int) (len : Nat) (t : UInt8) (n : Nat) (out : List UInt8),
    src ≠ [] → n ≠ 0 →
    Rel (readLoopE (fuel + 1) { src := src, sched := sc, state := state, len := len, tail := t } n out)
        (readLoop (fuel + 1) { src := src, sched := sc, state := state, len := len, tail := t } n out) := by
  intro f ih src sc state len t n out hsrc hn
  have hn0 : (n == 0) = false := by simp; omega
  have hsl : 0 < src.length := by
    cases src with
    | nil => exact absurd rfl hsrc
    | cons x xs => simp
  have hse : src.isEmpty = false := by
    cases src with
    | nil => exact absurd rfl hsrc
    | cons x xs => rfl
  by_cases h0 : state = 0
  · subst h0
    rw [readLoopE, readLoop]
    simp only [hn0]
    obtain ⟨e1, e2, e3, e4⟩ := readFullE_gen 7 6 src [] sc (by omega)
    obtain ⟨p1, p2⟩ := readFull_gen 7 6 src [] sc (by omega)
    generalize readFullE 7 src sc 6 [] = rE at e1 e2 e3 e4
    generalize readFull 7 src sc 6 [] = rP at p1 p2 e4
    obtain ⟨bufE, errE, srcE, scE⟩ := rE
    obtain ⟨bufP, srcP, scP⟩ := rP
    simp only [List.nil_append] at e1 e2 e3 e4 p1 p2
    subst e1 e2 e3 p1 p2
    by_cases h6 : 6 ≤ src.length
    · have := e4 h6
      subst this
      have hl : (src.take 6).length = 6 := by simp only [List.length_take]; omega
      simp [h6, hl]
      split
      · exact rel_err _ _ _ _
      · exact ih _ _ _ _ (Sim.rfl' _)
    · have ht : src.take 6 = src := List.take_of_length_le (by omega)
      have hd : src.drop 6 = [] := List.drop_eq_nil_of_le (by omega)
      have hlt : src.length < 6 := by omega
      simp only [h6, ht, hd, hse, if_false, Bool.false_eq_true]
      simp [hlt, hsrc]
      split
      · exact rel_err _ _ _ _
      · split
        · exact rel_err _ _ _ _
        · exact ih _ _ _ _ ⟨rfl, rfl, rfl, rfl, fun h => absurd rfl h⟩
  by_cases hm1 : state = -1
  · subst hm1
    rw [readLoopE, readLoop]
    simp [hn0]
    exact ih _ _ _ _ (Sim.rfl' _)
  by_cases h1 : state = 1
  · subst h1
    rw [readLoopE, readLoop]
    by_cases hl : len = 0
    · subst hl
      simp [hn0, wantOf_zero, hse]
      exact ih _ _ _ _ (Sim.rfl' _)
    · have hk : ¬ (min n len = 0) := by omega
      have hkp : 0 < min n len := by omega
      have hw := wantOf_bounds sc (min n len) hkp
      simp only [hn0, rawRead, rawReadE]
      obtain ⟨w, hwe⟩ : ∃ w, wantOf sc (min n len) = w := ⟨_, rfl⟩
      simp only [hwe] at hw ⊢
      by_cases hle : src.length ≤ w
      · have ht : src.take w = src := List.take_of_length_le hle
        have hd : src.drop w = [] := List.drop_eq_nil_of_le hle
        simp [hk, ht, hd]
        have hns : ¬ (src = [] ∧ 0 < min n len) := fun h => hsrc h.1
        rw [if_neg hns]
        by_cases hlt : src.length < w
        · rw [if_pos hlt]
          exact rel_err _ _ _ _
        · rw [if_neg hlt]
          by_cases hz : len - src.length = 0
          · have hz' : ¬ 0 < len - src.length := by omega
            simp only [hz, if_true]
            exact rel_catchup _ _ _ _ _ ⟨rfl, Or.inl ⟨rfl, rfl⟩⟩ (catchup _ _ ⟨rfl, Or.inl ⟨rfl, rfl⟩⟩ _ _ _)
          · have hz' : 0 < len - src.length := by omega
            simp only [hz, hz', if_true, if_false]
            exact rel_catchup _ _ _ _ _ ⟨rfl, Or.inr ⟨rfl, hz', rfl⟩⟩
              (catchup _ _ ⟨rfl, Or.inr ⟨rfl, hz', rfl⟩⟩ _ _ _)
      · have hne : ¬ src.drop w = [] := by
          intro h
          have := congrArg List.length h
          simp at this; omega
        have hmin : min w src.length = w := by omega
        simp [hk, hne, hmin]
        have hns : ¬ (w = 0 ∧ 0 < min n len) := by omega
        rw [if_neg hns]
        exact ih _ _ _ _ (Sim.rfl' _)
  by_cases h2 : state = 2
  · subst h2
    rw [readLoopE, readLoop]
    simp only [hn0]
    obtain ⟨k, hk⟩ : ∃ k, min ((n + 1) / 2) len = k := ⟨_, rfl⟩
    simp only [hk]
    obtain ⟨e1, e2, e3, e4⟩ := readFullE_gen (k + 1) k src [] sc (by omega)
    obtain ⟨p1, p2⟩ := readFull_gen (k + 1) k src [] sc (by omega)
    generalize readFullE (k + 1) src sc k [] = rE at e1 e2 e3 e4
    generalize readFull (k + 1) src sc k [] = rP at p1 p2 e4
    obtain ⟨bufE, errE, srcE, scE⟩ := rE
    obtain ⟨bufP, srcP, scP⟩ := rP
    simp only [List.nil_append] at e1 e2 e3 e4 p1 p2
    subst e1 e2 e3 p1 p2
    by_cases hle : k ≤ src.length
    · have := e4 hle
      subst this
      have hl : (src.take k).length = k := by simp only [List.length_take]; omega
      simp [hle, hl]
      split
      · exact ih _ _ _ _ (Sim.rfl' _)
      · exact ih _ _ _ _ (Sim.rfl' _)
    · have hl : (src.take k).length = src.length := by simp only [List.length_take]; omega
      have hlt : src.length < k := by omega
      simp [hle, hl, hse, hlt]
      exact rel_err _ _ _ _
  · rw [readLoopE, readLoop]
    simp [hn0, h0, hm1, h1, h2]
    exact rel_err _ _ _ _

/-- **one `Read` call, any fuel**: from related states the eager and the plain loop deliver the same bytes and
either end alike, or the eager one reports the end one step before the plain one -/
theorem sim : ∀ (fuel : Nat) (a b : St) (n : Nat) (out : List UInt8), Sim a b →
    Rel (readLoopE fuel a n out) (readLoop fuel b n out) := by
  intro fuel
  induction fuel with
  | zero => intro a b n out h; exact ⟨rfl, Or.inl ⟨rfl, rfl, h⟩⟩
  | succ f ih =>
    intro a b n out h
    by_cases hn : n = 0
    · subst hn
      rw [readLoopE, readLoop]
      exact ⟨rfl, Or.inl ⟨rfl, rfl, h⟩⟩
    obtain ⟨srcE, scE, stateE, lenE, tE⟩ := a
    obtain ⟨src, sc, state, len, t⟩ := b
    obtain ⟨h1, h2, h3, h4, h5⟩ := h
    simp only at h1 h2 h3 h4 h5
    subst h1 h2 h3 h4
    by_cases hs : srcE = []
    · subst hs
      exact sim_nil _ _ _ _ _ _ _ _
    · have := h5 hs
      subst this
      exact sim_same f ih _ _ _ _ _ _ _ hs hn

theorem sim_read (a b : St) (n : Nat) (h : Sim a b) : Rel (readE a n) (read b n) := by
  unfold readE PsVerif.Model.PFB.read
  rw [h.1]
  exact sim _ _ _ _ _ h

/-- a plain decoder whose source is exhausted and that is one step behind delivers nothing more, and its next
non-empty `Read` returns the pending error -/
theorem early_read (st : St) (x : PErr) (h : Early st x) (n : Nat) :
    read st n = ([], none, st) ∨ ∃ st', read st n = ([], some x, st') :=
  catchup st x h _ _ _

theorem early_drain (st : St) (x : PErr) (h : Early st x) : ∀ ns : List Nat,
    (flat (drain st ns)).1 = [] ∧ ((flat (drain st ns)).2 = none ∨ (flat (drain st ns)).2 = some x) := by
  intro ns
  induction ns with
  | nil => exact ⟨rfl, Or.inl rfl⟩
  | cons n ns ih =>
    unfold drain
    rcases early_read st x h n with he | ⟨st', he⟩
    · rw [he]
      simp only [flat] at ih ⊢
      refine ⟨by simpa using ih.1, ?_⟩
      cases hd : drain st ns with
      | nil => left; simp
      | cons p ps =>
        rw [hd] at ih
        simpa [List.getLast?_cons_cons] using ih.2
    · rw [he]
      exact ⟨rfl, Or.inr rfl⟩

theorem flat_cons_none (o : List UInt8) (l : List (List UInt8 × Option PErr)) :
    flat ((o, none) :: l) = (o ++ (flat l).1, (flat l).2) := by
  cases l with
  | nil => simp [flat]
  | cons p ps => simp [flat, List.getLast?_cons_cons]

theorem sim_drain : ∀ (ns : List Nat) (a b : St), Sim a b →
    (flat (drainE a ns)).1 = (flat (drain b ns)).1 ∧
    ((flat (drainE a ns)).2 = (flat (drain b ns)).2 ∨ (flat (drain b ns)).2 = none) := by
  intro ns
  induction ns with
  | nil => intro a b _; exact ⟨rfl, Or.inl rfl⟩
  | cons n ns ih =>
    intro a b h
    have hr := sim_read a b n h
    unfold drainE drain
    generalize readE a n = rE at hr
    generalize PsVerif.Model.PFB.read b n = rP at hr
    obtain ⟨oE, eE, sE⟩ := rE
    obtain ⟨oP, eP, sP⟩ := rP
    obtain ⟨ho, hc⟩ := hr
    simp only at ho hc
    subst ho
    rcases hc with ⟨h1, h2, h3⟩ | ⟨x, h1, h2⟩ | ⟨x, h1, h2, h3⟩
    · subst h1 h2
      simp only [flat_cons_none]
      obtain ⟨i1, i2⟩ := ih sE sP h3
      exact ⟨by rw [i1], i2⟩
    · subst h1 h2
      exact ⟨rfl, Or.inl rfl⟩
    · subst h1 h2
      simp only [flat_cons_none]
      obtain ⟨d1, d2⟩ := early_drain sP x h3 ns
      refine ⟨by rw [d1]; simp [flat], ?_⟩
      rcases d2 with d | d
      · right; exact d
      · left; rw [d]; simp [flat]

/-- **C14 for eager sources** (`(n > 0, io.EOF)` on the last bytes): for every input `src` (well formed or not), every
short-read schedule `sched` and every list `ns` of caller buffer sizes, the decoder over the eager source delivers
the same bytes in total as over the plain source, and the run ends in the same error -- unless the plain run has not
ended yet within `ns` (the eager source may report the end one call earlier, when a caller buffer ends exactly with
the data). -/
theorem pfb_eager_eof_same (src : List UInt8) (sched ns : List Nat) :
    (flat (drainE { src := src, sched := sched } ns)).1 = (flat (drain { src := src, sched := sched } ns)).1 ∧
    ((flat (drainE { src := src, sched := sched } ns)).2 = (flat (drain { src := src, sched := sched } ns)).2 ∨
     (flat (drain { src := src, sched := sched } ns)).2 = none) :=
  sim_drain ns _ _ (Sim.rfl' _)

/-- a caller that reads until the plain run ends sees exactly the same thing from the eager run -/
theorem pfb_eager_eof_same_flat (src : List UInt8) (sched ns : List Nat)
    (hend : (flat (drain { src := src, sched := sched } ns)).2 ≠ none) :
    flat (drainE { src := src, sched := sched } ns) = flat (drain { src := src, sched := sched } ns) := by
  obtain ⟨h1, h2⟩ := pfb_eager_eof_same src sched ns
  rcases h2 with h | h
  · exact Prod.ext h1 h
  · exact absurd h hend

/-! ## well-formed streams: the eager run refines the same specification, whatever the schedule -/

/-- the bytes delivered over an eager source are the prefix of the specified output of the total requested length,
for every schedule (from `pfb_eager_eof_same` and `pfb_refine_concat`) -/
theorem pfb_eager_all_schedules (segs : List Seg) (tl : List UInt8) (sc ns : List Nat) (hw : WF segs) (ht : TailOK tl) :
    (flat (drainE { src := frame segs ++ tl, sched := sc } ns)).1 = (specOut segs).take ns.sum := by
  rw [(pfb_eager_eof_same _ sc ns).1]
  exact pfb_refine_concat segs tl sc ns hw ht

/-- once the caller asks for more than the stream holds, the eager run delivers exactly the specified output and
ends with `io.EOF` (never `io.ErrUnexpectedEOF`), with or without end marker, for every schedule -/
theorem pfb_eager_refine_eof (segs : List Seg) (tl : List UInt8) (sc ns : List Nat) (hw : WF segs) (ht : TailOK tl)
    (hsum : (specOut segs).length < ns.sum) :
    flat (drainE { src := frame segs ++ tl, sched := sc } ns) = (specOut segs, some .eof) := by
  obtain ⟨⟨pre, o, hd, _⟩, hb⟩ := pfb_refine_eof segs tl sc ns hw ht hsum
  have hP : flat (drain { src := frame segs ++ tl, sched := sc } ns) = (specOut segs, some .eof) := by
    refine Prod.ext hb ?_
    simp [flat, hd]
  rw [pfb_eager_eof_same_flat _ sc ns (by rw [hP]; simp), hP]

/-- the flattened result of the eager run does not depend on the schedule of the underlying reader -/
theorem pfb_eager_schedule_independent (segs : List Seg) (tl : List UInt8) (sc1 sc2 ns : List Nat) (hw : WF segs)
    (ht : TailOK tl) :
    (flat (drainE { src := frame segs ++ tl, sched := sc1 } ns)).1 =
      (flat (drainE { src := frame segs ++ tl, sched := sc2 } ns)).1 ∧
    ((specOut segs).length < ns.sum →
      flat (drainE { src := frame segs ++ tl, sched := sc1 } ns) =
        flat (drainE { src := frame segs ++ tl, sched := sc2 } ns)) := by
  refine ⟨?_, fun h => ?_⟩
  · rw [pfb_eager_all_schedules segs tl sc1 ns hw ht, pfb_eager_all_schedules segs tl sc2 ns hw ht]
  · rw [pfb_eager_refine_eof segs tl sc1 ns hw ht h, pfb_eager_refine_eof segs tl sc2 ns hw ht h]

/-! ## non-vacuity -/

/-- the witness of the seeded change (`err == io.EOF && r.len > 0` tested before `r.len -= k`): a complete text
segment without end marker ends with `io.EOF`, not `io.ErrUnexpectedEOF`, over an eager source -/
example : drainE { src := [0x80, 1, 5, 0, 0, 0, 104, 101, 108, 108, 111] } [100] =
    [([104, 101, 108, 108, 111], some .eof)] := by decide
/-- the eager run ends one call before the plain one when the buffer ends exactly with the data -/
example : drainE { src := [0x80, 1, 5, 0, 0, 0, 104, 101, 108, 108, 111] } [5, 1] =
    [([104, 101, 108, 108, 111], some .eof)] := by decide
example : drain { src := [0x80, 1, 5, 0, 0, 0, 104, 101, 108, 108, 111] } [5, 1] =
    [([104, 101, 108, 108, 111], none), ([], some .eof)] := by decide
example : drainE { src := [0x80, 1, 5, 0, 0, 0, 104, 101, 108, 108, 111], sched := [1, 1, 1, 1, 1, 1, 1, 1, 1, 1] } [3, 3] =
    [([104, 101, 108], none), ([108, 111], some .eof)] := by decide
/-- truncated text segment -/
example : drainE { src := [0x80, 1, 5, 0, 0, 0, 104, 101] } [2, 2] = [([104, 101], some .unexpectedEOF)] := by decide
example : drain { src := [0x80, 1, 5, 0, 0, 0, 104, 101] } [2, 2] =
    [([104, 101], none), ([], some .unexpectedEOF)] := by decide
/-- truncated binary segment: the bytes of a failed `io.ReadFull` are not delivered -/
example : drainE { src := [0x80, 2, 5, 0, 0, 0, 1, 2] } [4, 4] =
    [([48, 49, 48, 50], none), ([], some .unexpectedEOF)] := by decide
example : drainE { src := [0x80, 2, 5, 0, 0, 0, 1, 2] } [100] = [([], some .unexpectedEOF)] := by decide
/-- the short end marker, a lone byte, the empty stream -/
example : drainE { src := [0x80, 3] } [100] = [([], some .eof)] := by decide
example : drainE { src := [0x80] } [100] = [([], some .unexpectedEOF)] := by decide
example : drainE { src := [] } [100] = [([], some .eof)] := by decide
/-- text + binary + marker, odd buffers (parked nibble) -/
example : drainE { src := [0x80, 1, 2, 0, 0, 0, 65, 66, 0x80, 2, 2, 0, 0, 0, 0xab, 0xcd, 0x80, 3], sched := [2, 3, 1] }
    [3, 1, 7] = [([65, 66, 97], none), ([98], none), ([99, 100], some .eof)] := by decide
/-- `io.ReadFull` over an eager source: full buffer with EOF is a success, short is `ErrUnexpectedEOF`, nothing is `EOF` -/
example : readFullE 7 [1, 2, 3, 4, 5, 6] [4] 6 [] = ([1, 2, 3, 4, 5, 6], none, [], []) := by decide
example : readFullE 7 [1, 2, 3] [2] 6 [] = ([1, 2, 3], some .unexpectedEOF, [], []) := by decide
example : readFullE 7 [] [] 6 [] = ([], some .eof, [], []) := by decide

#print axioms readFullE_gen
#print axioms sim
#print axioms sim_drain
#print axioms pfb_eager_eof_same
#print axioms pfb_eager_eof_same_flat
#print axioms pfb_eager_all_schedules
#print axioms pfb_eager_refine_eof
#print axioms pfb_eager_schedule_independent

end PsVerif.Props.C14
