import PsVerif.Proofs.T1Write
import PsVerif.Props.C05
import PsVerif.Props.C06Round
/-!
# C08 — the Type 1 writer emits conforming files

Model: `PsVerif/Model/T1Write.lean` (`writeFont`, `writePDF`; byte-identical to `Font.Write` / `Font.WritePDF` on the
differential suite, see the driver `Driver/T1WriteDriver.lean`).  Proofs: `PsVerif/Proofs/T1Write.lean`.

## The domain

`Writable f` (decidable): no name makes `Name.PS` panic (`nameError f = false`: FontName, the names of an explicitly
written Encoding array and the glyph names consist of regular characters), the value is a Go value and the model
determines the output (`supported f`: `int16`/`int32` ranges, distinct glyph names, coordinates that are multiples
of 1/64 of absolute value ≤ 2^23, widths that round into `int32`), and the clear text and the encrypted portion are
shorter than 2^32 bytes (the PFB length fields are `uint32`).  For such fonts `writeFont f fmt = ok (assemble f fmt)`
for every format, and:

* (b) `writePDF_sizes`: the bytes written are `clear ++ cipher`, `length1 = |clear|`, `length2 = |cipher|`, nothing
  else is written; the binary file is the same bytes followed by a line feed and the trailer.
* (a) `pfb_framing`, `pfb_reads_back`: the PFB output is `frame [(1, clear), (2, cipher), (1, trailer)] ++ [0x80, 3]`
  (`PFBRefine.frame`: marker, type, little-endian length = byte count, data), well formed; hence the PFB reader
  model returns `clear ++ hex(cipher) ++ trailer`.
* (d) `charstring_dict`, `charstring_entry`, `charstrings_sorted`, `charstrings_complete`, `charstring_decodes`:
  the CharStrings dictionary is the concatenation of the entries `/name n RD <bytes> ND\n`, one per glyph, in sorted
  name order; `n` is the decimal byte count; the bytes deobfuscate (key 4330, lenIV 4) to `encodeCharString` of the
  glyph with the rounded widths; on the integer domain of C06 the charstring decoder gives the glyph back.
  The lead bytes are always `32 0 0 0` (`lead_bytes`).
* (c) `eexec_decrypts`, `eexec_binary_legal`, `pfa_hex_layout`, `pfa_hex_digits`, `pfa_line_full`, `pfa_line_last`,
  `reader_decrypts_binary`, `reader_decrypts_hex`: the cipher text decrypts (key 55665) to the four lead bytes
  `81 00 00 00` and the private text; its first byte is `X`, so it is neither white space nor are the first four
  bytes hexadecimal digits (the binary form is never mistaken for hex); the PFA form spells the same cipher bytes in
  lower-case hex, 39 bytes (78 digits) per line, and is a legal hex layout in the sense of C05; the scanner model
  of C05 (`beginEexec` + reads) recovers exactly the private text from either form.
* (e) `trailer`: eight lines of 64 zeros and `cleartomark`.
* `header_is_comment`, `written_header`: in front of `10 dict begin` stand exactly one or two comment lines
  (`%!FontType1-1.1: name version`, `%%CreationDate: date`): no line feed, carriage return or form feed other than the
  line ends the template writes — the point of the fix to the template helper `L` (findings 2 and 5 below).
* (f) `deterministic`: the output is a function of the font value and the format.

## Not covered

* that the clear text and the private text *parse* as the PostScript dictionaries they spell (only their shape as
  concatenations of template texts and serialised values is fixed by the model; `stringPS`/`namePS` round trips are
  C04);
* float64 rounding inside `encodeCharString` outside the exact subset (`unsupported`);
* partial output before an error.

## FINDINGS (Go behaviour confirmed on the real code; the model reproduces 1, 3, 4; 2 and 5 are fixed)

1. NaN and infinities are printed as tokens: `BlueScale = NaN` gives `/BlueScale NaN def` (the template's
   `gt` is "not (lt or eq)", true for NaN), `ItalicAngle = +Inf` gives `/ItalicAngle +Inf def`, `StdVW = -Inf` gives
   `/StdVW [-Inf] def`, a NaN matrix entry `/FontMatrix [NaN 0 0 0.001 0 0] def`.  `Write` returns no error; reading
   the file back fails (`undefined: load: /NaN not defined`).  See `finding_nan`.
2. (FIXED in /repo 127dc4d, mirrored in the model) `CreationDate` in a zone whose name contains a line feed
   (`time.FixedZone("X\n/FontName /Evil def", 3600)`) broke out of the `%%CreationDate:` comment: the text after the
   line feed was executed as PostScript.  The date now passes through `L`; see `header_is_comment`.
3. An `Encoding` whose length is not 256 (e.g. `nil`) is dropped silently: the font dictionary has no `/Encoding`
   entry at all (`finding_no_encoding`).
4. The default FontMatrix in `makeTemplateData` is dead code (`len(fontMatrix) != 6` on an array of 6): a font value
   with the zero matrix is written as `/FontMatrix [0 0 0 0 0 0] def`.
5. (FIXED in /repo 127dc4d, mirrored in the model) A form feed in the version string ended the header comment for
   a PLRM-conforming scanner (and for this library's scanner since 5fb0286): `Version = "1\fstop"` executed `stop`.
   `L` now replaces form feeds as well; see `header_is_comment`.

Findings 1, 3 and 4 are boundaries of the representable domain (NaN/Inf fields, Encoding of length ≠ 256, zero
matrix); `finding_nan` and `finding_no_encoding` document them on the model.
-/
namespace PsVerif.Props.C08
open PsVerif.Model PsVerif.Model.T1Write PsVerif.Model.Cipher
open PsVerif.Proofs.T1Write

/-- the domain of the theorems -/
def Writable (f : Font) : Prop :=
  nameError f = false ∧ supported f = true ∧
    (sectionA f true).length < 4294967296 ∧ (cipherPart f).length < 4294967296

instance (f : Font) : Decidable (Writable f) := by unfold Writable; infer_instance

/-- on the domain every format is written -/
theorem writes (f : Font) (h : Writable f) (fmt : Format) : writeFont f fmt = .ok (assemble f fmt) :=
  (writeFont_ok f fmt _).mpr ⟨h.1, h.2.1, rfl⟩

/-- and conversely an `ok` outcome is `assemble` -/
theorem ok_is_assemble (f : Font) (fmt : Format) (out : Bytes) (h : writeFont f fmt = .ok out) :
    out = assemble f fmt := ((writeFont_ok f fmt out).mp h).2.2

/-- the layout of the four formats -/
theorem layout (f : Font) :
    assemble f .pfa = sectionA f true ++ hexGo 0 (cipherPart f) ++ sectionC true ∧
    assemble f .binary = sectionA f true ++ cipherPart f ++ [10] ++ sectionC true ∧
    assemble f .noEExec = sectionA f false ++ sectionB f false ∧
    sectionA f true = sectionA f false ++ piece 24 ∧          -- `currentfile eexec`
    sectionB f true = sectionB f false ++ piece 62 :=          -- `mark currentfile closefile`
  ⟨rfl, rfl, by simp [assemble, sectionC], sectionA_eexec f, sectionB_eexec f⟩

/-! ## (b) WritePDF -/

/-- **`WritePDF` reports exactly the sizes of the clear-text and encrypted portions**, and writes nothing else -/
theorem writePDF_sizes (f : Font) (out : Bytes) (l1 l2 : Nat) (h : writePDF f = .ok (out, l1, l2)) :
    out = sectionA f true ++ cipherPart f ∧
    l1 = (sectionA f true).length ∧ l2 = (cipherPart f).length ∧
    out.length = l1 + l2 ∧ out.take l1 = sectionA f true ∧ out.drop l1 = cipherPart f ∧
    decrypt eexecR (out.drop l1) = eexecIV ++ sectionB f true ∧
    writeFont f .binary = .ok (out ++ 10 :: sectionC true) := by
  obtain ⟨h1, h2, h3, h4, h5⟩ := (writePDF_ok f out l1 l2).mp h
  have key : ∀ (a c : Bytes), (a ++ c).length = a.length + c.length ∧ (a ++ c).take a.length = a ∧
      (a ++ c).drop a.length = c := by intro a c; simp
  obtain ⟨k1, k2, k3⟩ := key (sectionA f true) (cipherPart f)
  refine ⟨h3, h4, h5, ?_, ?_, ?_, ?_, ?_⟩
  · rw [h3, h4, h5]; exact k1
  · rw [h3, h4]; exact k2
  · rw [h3, h4]; exact k3
  · rw [h3, h4, k3]; exact cipherPart_decrypt f
  · rw [(writeFont_ok f .binary _).mpr ⟨h1, h2, rfl⟩, h3]
    simp only [assemble]
    generalize sectionC true = t
    simp

theorem writePDF_defined (f : Font) (h : Writable f) :
    writePDF f = .ok (sectionA f true ++ cipherPart f, (sectionA f true).length, (cipherPart f).length) :=
  (writePDF_ok f _ _ _).mpr ⟨h.1, h.2.1, rfl, rfl, rfl⟩

/-- `WritePDF` succeeds exactly when `Write` does -/
theorem writePDF_ok_iff (f : Font) (fmt : Format) :
    (∃ r, writePDF f = .ok r) ↔ (∃ out, writeFont f fmt = .ok out) := by
  constructor
  · rintro ⟨⟨out, l1, l2⟩, h⟩
    obtain ⟨h1, h2, _⟩ := (writePDF_ok f out l1 l2).mp h
    exact ⟨_, (writeFont_ok f fmt _).mpr ⟨h1, h2, rfl⟩⟩
  · rintro ⟨out, h⟩
    obtain ⟨h1, h2, _⟩ := (writeFont_ok f fmt out).mp h
    exact ⟨_, (writePDF_ok f _ _ _).mpr ⟨h1, h2, rfl, rfl, rfl⟩⟩

/-! ## (a) PFB -/

open PsVerif.Proofs.PFBRefine in
/-- the three segments of the PFB form -/
def pfbSegs (f : Font) : List Seg := [⟨1, sectionA f true⟩, ⟨2, cipherPart f⟩, ⟨1, sectionC true⟩]

open PsVerif.Proofs.PFBRefine in
theorem wf_three (a c t : Bytes) (ha : a.length < 4294967296) (hc : c.length < 4294967296)
    (ht : t.length < 4294967296) : WF [⟨1, a⟩, ⟨2, c⟩, ⟨1, t⟩] := by
  intro s hs
  simp only [List.mem_cons, List.not_mem_nil, or_false] at hs
  rcases hs with rfl | rfl | rfl
  · exact ⟨Or.inl rfl, ha⟩
  · exact ⟨Or.inr rfl, hc⟩
  · exact ⟨Or.inl rfl, ht⟩

open PsVerif.Proofs.PFBRefine in
/-- **PFB framing**: segments (1, clear text), (2, cipher text), (1, trailer), each with its byte count as the
little-endian length field, then the end marker -/
theorem pfb_framing (f : Font) (h : Writable f) :
    writeFont f .pfb = .ok (frame (pfbSegs f) ++ [0x80, 3]) ∧ WF (pfbSegs f) := by
  have hT : (sectionC true).length < 4294967296 := by have := sectionC_length; omega
  refine ⟨?_, ?_⟩
  · rw [writes f h, assemble_pfb_frame f h.2.2.1 h.2.2.2 hT]; rfl
  · exact wf_three _ _ _ h.2.2.1 h.2.2.2 hT

open PsVerif.Proofs.PFBRefine PsVerif.Model.PFB in
/-- **the PFB reader reads it back**: successive `Read` calls of the reader model (any buffer sizes whose sum exceeds
the text, any delivery schedule of the underlying reader) return the clear text, the cipher text in lower-case
hexadecimal and the trailer, then EOF -/
theorem pfb_reads_back (f : Font) (h : Writable f) (sc sizes : List Nat)
    (hsum : (sectionA f true ++ hexLower (cipherPart f) ++ sectionC true).length < sizes.sum) :
    ((drain { src := assemble f .pfb, sched := sc } sizes).map (·.1)).flatten
      = sectionA f true ++ hexLower (cipherPart f) ++ sectionC true := by
  have hT : (sectionC true).length < 4294967296 := by have := sectionC_length; omega
  rw [assemble_pfb_frame f h.2.2.1 h.2.2.2 hT]
  have e : specOut (pfbSegs f) = sectionA f true ++ hexLower (cipherPart f) ++ sectionC true := by
    simp [pfbSegs, specOut]
  have := (pfb_refine_eof (pfbSegs f) [0x80, 3] sc sizes (pfb_framing f h).2 (Or.inr ⟨[], rfl⟩) (by rw [e]; exact hsum)).2
  rw [e] at this
  exact this

/-! ## (d) charstrings -/

/-- the CharStrings dictionary: head (with the entry count), one entry per element of `charStrings f`, tail -/
theorem charstring_dict (f : Font) (e : Bool) :
    sectionB f e = privateHead f ++ (charStrings f).flatMap csEntry ++ privateTail e ∧
    (charStrings f).length = f.glyphs.length :=
  ⟨rfl, charStrings_length f⟩

/-- **the lead bytes**: the deterministic search always ends at `32 0 0 0` -/
theorem lead_bytes (g : Glyph) : obfGlyph g = obfuscate [32, 0, 0, 0] (csBytes g) := obfGlyph_eq g

/-- **one entry**: `/name n RD <n bytes> ND`, `n` the decimal byte count, the bytes deobfuscate to the charstring
the encoder produces for the glyph of that name -/
theorem charstring_entry (f : Font) (name obf : Bytes) (h : (name, obf) ∈ charStrings f) :
    csEntry (name, obf) = 47 :: name ++ [32] ++ decN obf.length ++ [32, 82, 68, 32] ++ obf ++ [32, 78, 68, 10] ∧
    AFM.parseNat ((decN obf.length).map UInt8.toNat) = obf.length ∧
    ∃ g, (name, g) ∈ f.glyphs ∧ obf = obfGlyph g ∧ deobfuscate obf 4 = some (csBytes g) ∧
      (csBytes g).map UInt8.toNat = T1Encode.encodeCharString g.outline (wInt g.widthX) (wInt g.widthY) := by
  refine ⟨csEntry_shape name obf, decN_reads_back _, ?_⟩
  obtain ⟨g, hg, he⟩ := (mem_charStrings f (name, obf)).mp h
  simp only at hg he
  exact ⟨g, hg, he, by rw [he]; exact obfGlyph_deobf g, csBytes_toNat g⟩

/-- every glyph has its entry -/
theorem charstrings_complete (f : Font) (name : Bytes) (g : Glyph) (h : (name, g) ∈ f.glyphs) :
    (name, obfGlyph g) ∈ charStrings f :=
  (mem_charStrings f (name, obfGlyph g)).mpr ⟨g, h, rfl⟩

/-- **sorted order**, and the names are exactly the glyph names -/
theorem charstrings_sorted (f : Font) :
    ((charStrings f).map (·.1)).Pairwise (fun a b => nameLe a b = true) ∧
    ((charStrings f).map (·.1)).Perm (f.glyphs.map (·.1)) :=
  ⟨charStrings_sorted f, charStrings_names_perm f⟩

/-- **the charstring decodes back to the glyph** (C06): on the integer domain of C06 the decoder model, run on the
deobfuscated bytes of the entry, yields the glyph in the decoder's normal form with the rounded widths -/
theorem charstring_decodes (g : Glyph)
    (h : PsVerif.Props.C06Round.IntDomain g.outline (wInt g.widthX) (wInt g.widthY)) :
    ∃ plain, deobfuscate (obfGlyph g) 4 = some plain ∧
      T1Decode.decodeCharString [] (plain.map UInt8.toNat)
        = .ok (PsVerif.Props.C06Round.decoded g.outline (wInt g.widthX) (wInt g.widthY)) := by
  refine ⟨csBytes g, obfGlyph_deobf g, ?_⟩
  rw [csBytes_toNat]
  exact PsVerif.Props.C06Round.decode_encode_int [] g.outline _ _ h

/-! ## (c) the eexec section -/

/-- **the encrypted portion decrypts** (key 55665) to the four lead bytes `81 00 00 00` and the private text -/
theorem eexec_decrypts (f : Font) :
    decrypt eexecR (cipherPart f) = [0x81, 0, 0, 0] ++ sectionB f true ∧
    (cipherPart f).length = 4 + (sectionB f true).length := by
  refine ⟨?_, cipherPart_length f⟩
  rw [cipherPart_decrypt, eexecIV_eq]

open PsVerif.Proofs.EexecStream in
/-- **a reader chooses the right mode**: the first cipher byte is `X`: not white space, not a hex digit -/
theorem eexec_binary_legal (f : Font) :
    (∃ t, cipherPart f = 88 :: t) ∧ BinaryLegal (cipherPart f) := by
  obtain ⟨b, c, d, t, h⟩ := cipherPart_head f
  exact ⟨⟨_, h⟩, cipherPart_binaryLegal f⟩

open PsVerif.Proofs.EexecStream in
/-- **PFA**: between `currentfile eexec` and the trailer stands a legal hexadecimal layout (C05) of the cipher text,
followed by a line feed -/
theorem pfa_hex_layout (f : Font) :
    ∃ t, assemble f .pfa = sectionA f true ++ t ++ [10] ++ sectionC true ∧ HexLayout (cipherPart f) t := by
  obtain ⟨b, c, d, r, h⟩ := cipherPart_head f
  obtain ⟨t, e, hl⟩ := hexGo_hexLayout 88 b (c :: d :: r)
  refine ⟨t, ?_, by rw [h]; exact hl⟩
  simp only [assemble, h, e, List.append_assoc]

/-- the hex digits are lower case and spell the cipher text: without the line feeds the text is `hexLower cipher` -/
theorem pfa_hex_digits (f : Font) :
    (hexGo 0 (cipherPart f)).filter (fun b => b != 10) = PFB.hexLower (cipherPart f) := hexGo_filter _ 0

/-- line length: 39 bytes (78 digits), then a line feed -/
theorem pfa_line_full (a b : Bytes) (h : a.length = 39) :
    hexGo 0 (a ++ b) = PFB.hexLower a ++ 10 :: hexGo 0 b :=
  hexGo_full_line a b 0 (by omega) (by intro e; rw [e] at h; simp at h)

/-- the last line (1 to 38 bytes) ends with a line feed; nothing is written for no bytes -/
theorem pfa_line_last (a : Bytes) (h0 : a ≠ []) (h : a.length < 39) :
    hexGo 0 a = PFB.hexLower a ++ [10] ∧ hexGo 0 [] = [] :=
  ⟨hexGo_line a 0 (by omega) (Or.inr h0), rfl⟩

open PsVerif.Model.Scan PsVerif.Proofs.EexecStream in
/-- **the scanner decrypts the binary form**: from a clear scanner state whose pending input is white space, the
cipher text and `rest`, `beginEexec` succeeds and reading `|private text|` bytes returns the private text; what
remains is `rest` -/
theorem reader_decrypts_binary (f : Font) (s0 : Scanner) (ws rest : Bytes) (hc : Clear s0)
    (hpk : s0.peek.length ≤ 4) (hws : ∀ a ∈ ws, isEexecSpace a = true)
    (hs : s0.peek ++ s0.src = ws ++ cipherPart f ++ rest) :
    ∃ s1 s', beginEexec s0 = (.ok (), s1) ∧
      readN (sectionB f true).length [] s1 = (.ok (sectionB f true, none), s') ∧
      s'.peek = [] ∧ s'.src = rest := by
  have hl : BinaryLegal (encrypt eexecR (eexecIV ++ sectionB f true)) := cipherPart_binaryLegal f
  obtain ⟨s1, s', sp', h1, _, h3, h4, _, _, h7, _⟩ :=
    PsVerif.Props.C05.eexec_stream_binary s0 ws eexecIV (sectionB f true) rest hc hpk (by rw [eexecIV_eq]; rfl) hws hl
      hs (sectionB f true).length (Nat.le_refl _)
  refine ⟨s1, s', h1, by simpa using h3, h4, ?_⟩
  rw [h7, List.drop_of_length_le, List.nil_append]
  rw [PsVerif.Props.Cipher.encrypt_length, List.length_append, eexecIV_eq]
  simp

open PsVerif.Model.Scan PsVerif.Proofs.EexecStream in
/-- **the scanner decrypts the PFA form**: the same for the hexadecimal lines the writer emits; the line feed after
the last digit stays in front of `rest` -/
theorem reader_decrypts_hex (f : Font) (s0 : Scanner) (ws rest : Bytes) (hc : Clear s0)
    (hpk : s0.peek.length ≤ 4) (hws : ∀ a ∈ ws, isEexecSpace a = true)
    (hs : s0.peek ++ s0.src = ws ++ hexGo 0 (cipherPart f) ++ rest) :
    ∃ s1 s', beginEexec s0 = (.ok (), s1) ∧
      readN (sectionB f true).length [] s1 = (.ok (sectionB f true, none), s') ∧
      s'.peek = [] ∧ s'.src = 10 :: rest := by
  obtain ⟨b, c, d, r, h⟩ := cipherPart_head f
  obtain ⟨t, e, hl⟩ := hexGo_hexLayout 88 b (c :: d :: r)
  rw [← h] at e hl
  have hl' : HexLayout (encrypt eexecR (eexecIV ++ sectionB f true)) t := hl
  have hs' : s0.peek ++ s0.src = ws ++ t ++ (10 :: rest) := by rw [hs, e]; simp
  obtain ⟨s1, s', sp', t1, t', h1, _, _, h4, h5, _, _, h8, h9, _⟩ :=
    PsVerif.Props.C05.eexec_stream_hex s0 ws eexecIV (sectionB f true) t (10 :: rest) hc hpk (by rw [eexecIV_eq]; rfl)
      hws hl' hs' (sectionB f true).length (Nat.le_refl _)
  refine ⟨s1, s', h1, by simpa using h4, h5, ?_⟩
  rw [List.drop_of_length_le] at h8
  · cases h8
    rw [h9]; rfl
  · rw [PsVerif.Props.Cipher.encrypt_length, List.length_append, eexecIV_eq]
    simp

/-! ## (e) the trailer -/

/-- **the trailer**: eight lines of 64 zeros, then `cleartomark`, each ended by a line feed; 532 bytes -/
theorem trailer :
    sectionC true =
      zeros64 ++ zeros64 ++ zeros64 ++ zeros64 ++ zeros64 ++ zeros64 ++ zeros64 ++ zeros64 ++
        [99, 108, 101, 97, 114, 116, 111, 109, 97, 114, 107, 10] ∧
    zeros64 = List.replicate 64 48 ++ [10] ∧ (sectionC true).length = 532 ∧ sectionC false = [] :=
  ⟨sectionC_eq, rfl, sectionC_length, rfl⟩

/-! ## the header comments -/

/-- one header line, or two -/
def headerOf (l1 : Bytes) : Option Bytes → Bytes
  | none => l1 ++ [10]
  | some l2 => l1 ++ [10] ++ l2 ++ [10]

/-- **the header consists of comment lines only**, for EVERY font value and date text: section A is the header
followed by the dictionary part, which starts with `10 dict begin`; the header is the line `%!FontType1-1.1: …` and,
when there is a date, the line `%%CreationDate: …`, each ended by the line feed of the template; the date line
contains no line feed, carriage return or form feed whatever the date text is, and the first line contains none
whatever the version is, provided the FontName consists of regular characters — and when it does not, `Write` returns
an error (`error_iff`, `written_header`). -/
theorem header_is_comment (f : Font) (e : Bool) :
    sectionA f e = header f ++ sectionABody f e ∧
    header f = headerOf (headerLine1 f) (f.creationDate.map headerLine2) ∧
    (headerLine1 f).take 2 = [37, 33] ∧                                           -- `%!`
    (∀ d, (headerLine2 d).take 2 = [37, 37]) ∧                                    -- `%%`
    (∀ d, ∀ b ∈ headerLine2 d, isBreak b = false) ∧
    (Ser.namePSPanics f.info.fontName = false → ∀ b ∈ headerLine1 f, isBreak b = false) ∧
    (sectionABody f e).take 14 = [49, 48, 32, 100, 105, 99, 116, 32, 98, 101, 103, 105, 110, 10] := by
  refine ⟨rfl, ?_, ?_, ?_, headerLine2_no_break, headerLine1_no_break f, ?_⟩
  · unfold header headerOf
    rw [piece3, piece5]
    cases f.creationDate <;> simp
  · unfold headerLine1; rw [piece1]; rfl
  · intro d; unfold headerLine2; rw [piece4]; rfl
  · have h6 := piece6_head
    have hl : 14 ≤ (piece 6).length := by
      have := congrArg List.length h6
      simp only [List.length_take, List.length_cons, List.length_nil] at this
      omega
    unfold sectionABody
    simp only [List.append_assoc]
    rw [List.take_append_of_le_length hl, h6]

/-- whenever `Write` succeeds, no byte of the first header line ends a comment -/
theorem written_header (f : Font) (fmt : Format) (out : Bytes) (h : writeFont f fmt = .ok out) :
    ∀ b ∈ headerLine1 f, isBreak b = false := by
  have hn := ((writeFont_ok f fmt out).mp h).1
  unfold nameError at hn
  simp only [Bool.or_eq_false_iff] at hn
  exact headerLine1_no_break f hn.1.1

/-- the same for the template helper alone: `L` removes exactly the three bytes that end a comment -/
theorem L_spec (s : Bytes) :
    (oneLine s).length = s.length ∧ (∀ b ∈ oneLine s, isBreak b = false) ∧
    ((∀ b ∈ s, isBreak b = false) → oneLine s = s) := by
  refine ⟨by simp [oneLine], oneLine_no_break s, ?_⟩
  intro h
  unfold oneLine
  conv => rhs; rw [← List.map_id s]
  apply List.map_congr_left
  intro b hb
  simp [h b hb]

/-- the two inputs of the former findings: `Version = "1\fstop"` and a zone name with a line feed -/
example : oneLine [49, 12, 115, 116, 111, 112] = [49, 32, 115, 116, 111, 112] := by decide
example : headerLine2 (str "2024-01-02 03:04:05 +0100 X\n/FontName /Evil def")
    = str "%%CreationDate: 2024-01-02 03:04:05 +0100 X /FontName /Evil def" := by decide +kernel

/-! ## (f) determinism -/

/-- **determinism** (used by C17): the bytes written are a function of the font value and the format — there is no
other input (no clock, no random source: the lead bytes are constants) -/
theorem deterministic (f f' : Font) (fmt fmt' : Format) (hf : f = f') (hm : fmt = fmt') :
    writeFont f fmt = writeFont f' fmt' ∧ writePDF f = writePDF f' := by
  subst hf hm; exact ⟨rfl, rfl⟩

/-! ## errors -/

/-- Go returns an error exactly when some name that is written with `Name.PS` contains a byte that is not a regular
character -/
theorem error_iff (f : Font) (fmt : Format) : writeFont f fmt = .error .error ↔ nameError f = true :=
  writeFont_error f fmt

/-! ## non-vacuity: a concrete two-glyph font in the domain -/

def f001 : UInt64 := 0x3f50624dd2f1a9fc  -- 0.001

/-- FontName `Test`, version `1.000`, ItalicAngle -11.5, two glyphs (`A` and `.notdef` with a stem hint, given in
unsorted order), BlueValues, StdHW, StandardEncoding -/
def sample : Font :=
  { info := { fontName := str "Test", version := str "1.000", notice := str "Notice", copyright := [],
              fullName := str "Test Font", familyName := str "Test", weight := str "Bold",
              italicAngle := 0xc027000000000000, isFixedPitch := false,
              underlinePosition := 0x4028000000000000, underlineThickness := 0x402c000000000000,
              fontMatrix := ⟨f001, 0, 0, f001, 0, 0⟩ },
    glyphs := [(str "A", { outline := { cmds := [.moveTo 0 10, .lineTo 200 10, .lineTo 100 110, .closePath],
                                        hstem := [], vstem := [] },
                           widthX := 200, widthY := 0 }),
               (notdef, { outline := { cmds := [.moveTo 10 10, .lineTo 20 10, .lineTo 20 20, .lineTo 10 20, .closePath],
                                       hstem := [0, 20], vstem := [] },
                          widthX := 100, widthY := 0 })],
    priv := { blueValues := [0, 10], otherBlues := [], blueScale := 0x3fa449ba5e353f7d, blueShift := 7, blueFuzz := 1,
              stdHW := 0x4024000000000000, stdVW := 0, forceBold := false },
    encoding := stdEnc, creationDate := none }

example : Writable sample := by decide +kernel

/-- the clear text, byte for byte what Go writes for this font -/
example : sectionA sample true = str "%!FontType1-1.1: Test 1.000\n10 dict begin\n/FontInfo 11 dict dup begin\n/version (1.000) def\n/Notice (Notice) def\n/FullName (Test Font) def\n/FamilyName (Test) def\n/Weight (Bold) def\n/ItalicAngle -11.5 def\n/isFixedPitch false def\n/UnderlinePosition 12 def\n/UnderlineThickness 14 def\nend def\n/FontName /Test def\n/Encoding StandardEncoding def\n/PaintType 0 def\n/FontType 1 def\n/FontMatrix [0.001 0 0 0.001 0 0] def\n/FontBBox [0 0 0 0] def\ncurrentdict end\ncurrentfile eexec\n" := by
  decide +kernel

/-- the charstrings, sorted, byte for byte what Go writes -/
example : charStrings sample =
    [(notdef, [48, 140, 95, 91, 7, 214, 46, 132, 25, 58, 7, 10, 65, 222, 206, 205, 19, 196, 252, 122, 121]),
     (str "A", [48, 140, 95, 91, 7, 206, 236, 125, 0, 235, 108, 21, 225, 72, 164, 185, 57, 150])] := by
  decide +kernel

/-- sizes as Go reports them: PFA 1948, PFB 1488, binary 1469, no eexec 887 bytes; `WritePDF` 468 + 468 -/
example : (assemble sample .pfa).length = 1948 ∧ (assemble sample .pfb).length = 1488 ∧
    (assemble sample .binary).length = 1469 ∧ (assemble sample .noEExec).length = 887 := by decide +kernel
example : (writePDF sample).toOption.map (fun r => (r.1.length, r.2)) = some (936, 468, 468) := by decide +kernel
example : (assemble sample .pfb).take 6 = [128, 1, 212, 1, 0, 0] := by decide +kernel

/-- both glyphs are in the integer domain of C06: their entries decode back -/
example : ∀ p ∈ sample.glyphs,
    PsVerif.Props.C06Round.IntDomain p.2.outline (wInt p.2.widthX) (wInt p.2.widthY) := by decide +kernel

/-! ## findings, on the model -/

/-- finding 1: for a NaN BlueScale the template condition `or (lt .BlueScale .039624) (gt .BlueScale .039626)` holds,
so `privateHead` contains the line `/BlueScale ` ++ `fmtV NaN` ++ ` def`, and NaN / +Inf are printed as the tokens
`NaN` / `+Inf` -/
theorem finding_nan :
    (flt PsVerif.Base.SoftFloat.qNaN blueScaleLo || fgt PsVerif.Base.SoftFloat.qNaN blueScaleHi) = true ∧
    fmtV PsVerif.Base.SoftFloat.qNaN = [78, 97, 78] ∧
    fmtV PsVerif.Base.SoftFloat.posInf = [43, 73, 110, 102] := by
  have hn : PsVerif.Base.SoftFloat.isNaN PsVerif.Base.SoftFloat.qNaN = true := by decide +kernel
  have hi : PsVerif.Base.SoftFloat.isNaN PsVerif.Base.SoftFloat.posInf = false := by decide +kernel
  have hi2 : PsVerif.Base.SoftFloat.isInf PsVerif.Base.SoftFloat.posInf = true := by decide +kernel
  have hi3 : PsVerif.Base.SoftFloat.signOf PsVerif.Base.SoftFloat.posInf = false := by decide +kernel
  refine ⟨by simp [flt, fgt, PsVerif.Base.SoftFloat.eq, hn], ?_, ?_⟩
  · unfold fmtV fmtV? fmtVNat
    simp [hn, AFM.kNaN, ofNats]
  · unfold fmtV fmtV? fmtVNat
    simp [hi, hi2, hi3, AFM.kPInf, ofNats]

/-- finding 3: an encoding whose length is not 256 leaves no trace in the output -/
theorem finding_no_encoding (enc : List Bytes) (b : Bool) (h : enc.length ≠ 256) : writeEncoding enc b = [] := by
  unfold writeEncoding
  simp [h]

end PsVerif.Props.C08

#print axioms PsVerif.Props.C08.writes
#print axioms PsVerif.Props.C08.writePDF_sizes
#print axioms PsVerif.Props.C08.writePDF_defined
#print axioms PsVerif.Props.C08.writePDF_ok_iff
#print axioms PsVerif.Props.C08.pfb_framing
#print axioms PsVerif.Props.C08.pfb_reads_back
#print axioms PsVerif.Props.C08.charstring_dict
#print axioms PsVerif.Props.C08.lead_bytes
#print axioms PsVerif.Props.C08.charstring_entry
#print axioms PsVerif.Props.C08.charstrings_complete
#print axioms PsVerif.Props.C08.charstrings_sorted
#print axioms PsVerif.Props.C08.charstring_decodes
#print axioms PsVerif.Props.C08.eexec_decrypts
#print axioms PsVerif.Props.C08.eexec_binary_legal
#print axioms PsVerif.Props.C08.pfa_hex_layout
#print axioms PsVerif.Props.C08.pfa_hex_digits
#print axioms PsVerif.Props.C08.pfa_line_full
#print axioms PsVerif.Props.C08.pfa_line_last
#print axioms PsVerif.Props.C08.reader_decrypts_binary
#print axioms PsVerif.Props.C08.reader_decrypts_hex
#print axioms PsVerif.Props.C08.trailer
#print axioms PsVerif.Props.C08.header_is_comment
#print axioms PsVerif.Props.C08.written_header
#print axioms PsVerif.Props.C08.L_spec
#print axioms PsVerif.Props.C08.deterministic
#print axioms PsVerif.Props.C08.error_iff
#print axioms PsVerif.Props.C08.layout
#print axioms PsVerif.Props.C08.finding_nan
#print axioms PsVerif.Props.C08.finding_no_encoding
