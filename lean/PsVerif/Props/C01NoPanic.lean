import PsVerif.Proofs.WFState
/-!
# C01 — hostile input never crashes the readers: the interpreter never panics

In the model every Go operation that could panic (slice index out of range, nil map, type
assertion, `make` with a negative length, …) is an explicit result `Res.err (Err.panic site)`.
Proved here, for EVERY input byte string, every reader fault, every budget `MaxOps` and every
fuel: `Execute` on a fresh interpreter — and on any interpreter reached by earlier `Execute`
calls, with `CheckStart` set or not — never returns such a result.

The proof (`Proofs/WFState.lean`, on top of `Proofs/WF.lean`) is an invariant argument:
the state invariant `WFS` (every view on the stack, in arrays, dictionaries and CMap tables lies
inside a store of the right kind; every `builtin` value is dispatched; the dictionary stack
has at least two entries; the scanner's sticky error is not a panic and replay mode is only on
while an eexec section is being opened) holds for `newInterpreter`, is preserved by all 13
functions of the interpreter's mutual block and by every scanner action, and excludes every
panic site of the model.

History: the first proof attempt failed at the `}` branch of `executeOne`
(`make(Procedure, b-a)` with `b < a`) and produced the input `hostile` below, which crashed
the unchanged Go code with `makeslice: len out of range`; the repository was repaired
(`fix:` commit) and the model follows the repaired code.  The statement is therefore not
vacuous: the `#guard`s at the end evaluate the model on that input and on other inputs that
used to crash.
-/
namespace PsVerif.Props.C01NoPanic
open PsVerif.Model PsVerif.Proofs.WF PsVerif.Proofs.WFState

/-- **C01 (interpreter part)**: whatever the input, the fault of the underlying reader, the
execution budget and the fuel, `Execute` on a fresh interpreter does not panic -/
theorem execute_no_panic (fuel m : Nat) (input : List UInt8) (fault : Option String) (site : String) :
    (execute fuel m newInterpreter input fault).2 ≠ .err (.panic site) :=
  (execute_post fuel m newInterpreter wfs_newInterpreter input fault).2.2.2 site

/-- the same with `CheckStart` switched on -/
theorem execute_no_panic_checkStart (fuel m : Nat) (input : List UInt8) (fault : Option String) (site : String) :
    (execute fuel m { newInterpreter with checkStart := true } input fault).2 ≠ .err (.panic site) :=
  (execute_post fuel m { newInterpreter with checkStart := true } ⟨wf_newVM, scOK_fresh [] none⟩
    input fault).2.2.2 site

/-- a well-formed interpreter stays well-formed over a call of `Execute` (whatever its
outcome) and the call does not panic -/
theorem execute_keeps_wfs (fuel m : Nat) (s : State) (h : WFS s) (input : List UInt8) (fault : Option String) :
    WFS (execute fuel m s input fault).1 ∧ ∀ site, (execute fuel m s input fault).2 ≠ .err (.panic site) :=
  ⟨(execute_post fuel m s h input fault).1, (execute_post fuel m s h input fault).2.2.2⟩

/-- one `Execute` call: fuel, budget, `CheckStart` as set by the caller, input, reader fault -/
structure Job where
  fuel : Nat
  maxOps : Nat
  checkStart : Bool
  input : List UInt8
  fault : Option String

/-- the interpreter after a sequence of `Execute` calls (results ignored, as a caller may) -/
def runJobs : State → List Job → State
  | s, [] => s
  | s, j :: js => runJobs (execute j.fuel j.maxOps { s with checkStart := j.checkStart } j.input j.fault).1 js

theorem runJobs_wfs : ∀ (jobs : List Job) (s : State), WFS s → WFS (runJobs s jobs)
  | [], _, h => h
  | j :: js, s, h =>
    runJobs_wfs js _ (execute_post j.fuel j.maxOps { s with checkStart := j.checkStart } ⟨h.vm, h.sc⟩
      j.input j.fault).1

/-- **re-use**: after any sequence of earlier `Execute` calls on the same interpreter
(each with its own input, fault, budget and `CheckStart` setting, each ending in any way:
normally, with an error, at the budget limit) a further call still does not panic -/
theorem execute_no_panic_reused (jobs : List Job) (fuel m : Nat) (input : List UInt8)
    (fault : Option String) (site : String) :
    (execute fuel m (runJobs newInterpreter jobs) input fault).2 ≠ .err (.panic site) :=
  (execute_post fuel m _ (runJobs_wfs jobs _ wfs_newInterpreter) input fault).2.2.2 site

/-! ### the statement is not vacuous: the model run on inputs that used to crash the Go code -/

def bytesOf (s : String) : List UInt8 := s.toList.map (fun c => UInt8.ofNat c.toNat)

/-- found by the first proof attempt: `{` inside an eexec section, a scanner error that ends
the section without `EndEexec`, the error handler swallowed by deferred mode, the enclosing
procedure's last token emptying the stack through the `recurseTail` path, then `}` -/
def hostile : List UInt8 :=
  bytesOf "mark { currentfile eexec cleartomark } exec " ++
    Cipher.encrypt Cipher.eexecR (bytesOf "XXXX{ <x } ")

-- before the repair this was `.err (.panic "makeslice: len out of range")` (and a Go panic)
#guard (execute 1000 0 newInterpreter hostile none).2 == .err (.ps "syntaxerror")
#guard (execute 1000 0 newInterpreter (bytesOf "1 2 9223372036854775807 copy") none).2 == .err (.ps "stackunderflow")
#guard (execute 1000 0 newInterpreter (bytesOf "(abc) 9223372036854775807 (x) putinterval") none).2 == .err (.ps "rangecheck")
#guard (execute 1000 0 newInterpreter (bytesOf "errordict /typecheck get exec") none).2 == .ok
#guard (execute 100000 0 newInterpreter (bytesOf "/f { f 1 } def f") none).2 == .err (.ps "execstackoverflow")
#guard (execute 1000 50 newInterpreter (bytesOf "{ } loop") none).2 == .err .limit

end PsVerif.Props.C01NoPanic

#print axioms PsVerif.Props.C01NoPanic.execute_no_panic
#print axioms PsVerif.Props.C01NoPanic.execute_no_panic_checkStart
#print axioms PsVerif.Props.C01NoPanic.execute_keeps_wfs
#print axioms PsVerif.Props.C01NoPanic.execute_no_panic_reused
