import PsVerif.Props.C16
/-!
# C16 — the finite parts that are decided by complete kernel evaluation over the tables

These take minutes (the kernel walks the 4,281-entry list for every look-up), so they are
built and audited by the thorough tier only.
-/
namespace PsVerif.Props.C16Slow
open PsVerif.Model.Names PsVerif.Props.C16

/-- digits of a packed key: the name it stands for -/
def unpack : Nat → Nat → List Nat
  | 0, _ => []
  | fuel + 1, k => if k ≤ 1 then [] else unpack fuel (k / 256) ++ [k % 256]

/-- no key of either table contains a period or an underscore (so `agl_entries` and
`dingbat_entries` apply to every entry) -/
theorem keys_noSep :
    (glyphlist.all fun e => (unpack 64 e.1).all fun c => c != 46 && c != 95) = true ∧
    (dingbatsTable.all fun e => (unpack 64 e.1).all fun c => c != 46 && c != 95) = true := by
  constructor <;> decide +kernel

/-! ## round trip through the AGLFN names and the compatibility table (finite parts) -/

/-- every name `FromUnicode` can take from aglfn.txt maps back to exactly its character -/
theorem aglfn_roundtrip :
    (PsVerif.Generated.Aglfn.entries.all fun e =>
      match aglfnName e.1 with
      | some n => toUnicode n false == [e.1]
      | none => false) = true := by decide +kernel

/-- compatibility expansions: at least two characters each, pairwise different, so `expand`
is injective and never yields a single character that is someone else's -/
theorem compat_injective :
    (PsVerif.Generated.Compat.compat.all fun e => e.2.length ≥ 2) = true ∧
    ((PsVerif.Generated.Compat.compat.map (·.2)).Nodup) ∧
    ((PsVerif.Generated.Compat.compat.map (·.1)).Nodup) := by
  refine ⟨by decide +kernel, by decide +kernel, by decide +kernel⟩

/-- each character of every compatibility expansion has a name that maps back to it and
contains no separator, hence the whole expansion round-trips -/
theorem compat_roundtrip :
    (PsVerif.Generated.Compat.compat.all fun e => toUnicode (fromUnicode e.1) false == e.2) = true := by
  decide +kernel

/-- round trip for the first 256 characters, evaluated by the kernel;
the statement for every scalar value is checked exhaustively on the implementation by the
`names` suite and on the model for a sixteenth of all values -/
theorem from_to_unicode_256 :
    ((List.range 256).all fun r => toUnicode (fromUnicode r) false == expand r) = true := by
  decide +kernel


end PsVerif.Props.C16Slow
