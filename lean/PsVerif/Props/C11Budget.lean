import PsVerif.Proofs.InterpBudget
/-!
# C11 — a program that stays within the budget ends in exactly the state it reaches without one;
the model's results do not depend on the fuel
-/
namespace PsVerif.Props.C11
open PsVerif.Model

/-- **budget transparency**: if the run with budget `m` does not end with the budget error,
the run without a budget returns exactly the same state and result -/
theorem budget_transparent (fuel m : Nat) (s : State) (input : List UInt8) (fault : Option String)
    (h : (execute fuel m s input fault).2 ≠ .err .limit) :
    execute fuel 0 s input fault = execute fuel m s input fault :=
  PsVerif.Proofs.InterpBudget.execute_budget fuel m s input fault h

/-- **fuel independence**: once the model has enough fuel to finish, more fuel changes nothing
(so `Res.fuel` is the only way fuel can show, and every theorem "for all fuel" speaks about
the one result the Go code computes) -/
theorem fuel_independent {f f' : Nat} (hf : f ≤ f') (m : Nat) (s : State) (input : List UInt8)
    (fault : Option String) (h : (execute f m s input fault).2 ≠ .fuel) :
    execute f' m s input fault = execute f m s input fault :=
  PsVerif.Proofs.InterpFuel.execute_fuel_mono hf m s input fault h

end PsVerif.Props.C11
