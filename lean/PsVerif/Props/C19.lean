import PsVerif.Model.Query
/-!
# C19 — query methods

Glyph list order, glyph and font boxes, widths; for every glyph set, encoding, list of end
points and — for the font box — every order in which the Go map is iterated.
-/
namespace PsVerif.Props.C19
open PsVerif.Model.Query

/-! ## names are totally ordered bytewise -/

theorem nameLt_irrefl (a : GName) : nameLt a a = false := by
  induction a with
  | nil => rfl
  | cons x xs ih => simp [nameLt, ih]

theorem nameLt_trans {a b c : GName} (h1 : nameLt a b = true) (h2 : nameLt b c = true) : nameLt a c = true := by
  induction a generalizing b c with
  | nil =>
    cases c with
    | nil => cases b <;> simp [nameLt] at h1 h2
    | cons z zs => rfl
  | cons x xs ih =>
    cases b with
    | nil => simp [nameLt] at h1
    | cons y ys =>
      cases c with
      | nil => simp [nameLt] at h2
      | cons z zs =>
        simp only [nameLt] at h1 h2 ⊢
        by_cases hxy : x < y
        · by_cases hyz : y < z
          · have : x < z := by omega
            simp [this]
          · by_cases hzy : z < y
            · simp [hyz, hzy] at h2
            · have : y = z := by omega
              subst this; simp [hxy]
        · by_cases hyx : y < x
          · simp [hxy, hyx] at h1
          · have hxy' : x = y := by omega
            subst hxy'
            simp only [hxy, if_false] at h1
            by_cases hyz : x < z
            · simp [hyz]
            · by_cases hzy : z < x
              · simp [hyz, hzy] at h2
              · simp only [hyz, hzy, if_false] at h2 ⊢
                exact ih h1 h2

theorem nameLt_total (a b : GName) : nameLt a b = true ∨ a = b ∨ nameLt b a = true := by
  induction a generalizing b with
  | nil => cases b <;> simp [nameLt]
  | cons x xs ih =>
    cases b with
    | nil => simp [nameLt]
    | cons y ys =>
      simp only [nameLt]
      by_cases hxy : x < y
      · simp [hxy]
      · by_cases hyx : y < x
        · simp [hxy, hyx]
        · have : x = y := by omega
          subst this
          simp only [hxy, if_false, List.cons.injEq, true_and]
          exact ih ys

theorem nameLt_asymm {a b : GName} (h : nameLt a b = true) : nameLt b a = false := by
  cases hb : nameLt b a with
  | false => rfl
  | true => have := nameLt_trans h hb; rw [nameLt_irrefl] at this; cases this

theorem nameLe_total (a b : GName) : nameLe a b = true ∨ nameLe b a = true := by
  unfold nameLe
  rcases nameLt_total a b with h | h | h
  · left; simp [nameLt_asymm h]
  · subst h; left; simp [nameLt_irrefl]
  · right; simp [nameLt_asymm h]

theorem nameLe_trans {a b c : GName} (h1 : nameLe a b = true) (h2 : nameLe b c = true) : nameLe a c = true := by
  unfold nameLe at *
  simp only [Bool.not_eq_true'] at *
  cases hca : nameLt c a with
  | false => rfl
  | true =>
    -- c < a; from ¬ b < a and totality: a ≤ b …
    rcases nameLt_total a b with hab | hab | hab
    · have := nameLt_trans hca hab; rw [h2] at this; cases this
    · subst hab; rw [h2] at hca; cases hca
    · rw [h1] at hab; cases hab

/-! ## the glyph list -/

theorem keyLe_total (enc : List GName) (a b : GName) : (keyLe enc a b || keyLe enc b a) = true := by
  unfold keyLe
  simp only
  by_cases h : orderOf enc a = orderOf enc b
  · simp only [h, bne_self_eq_false, Bool.false_eq_true, if_false]
    rcases nameLe_total a b with h1 | h1 <;> simp [h1]
  · have h1 : (orderOf enc a != orderOf enc b) = true := by simp [h]
    have h2 : (orderOf enc b != orderOf enc a) = true := by simp [Ne.symm h]
    simp only [h1, h2, if_true, Bool.or_eq_true, decide_eq_true_eq]
    omega

theorem keyLe_trans (enc : List GName) (a b c : GName) (h1 : keyLe enc a b = true) (h2 : keyLe enc b c = true) :
    keyLe enc a c = true := by
  unfold keyLe at *
  simp only at *
  by_cases hab : orderOf enc a = orderOf enc b
  · by_cases hbc : orderOf enc b = orderOf enc c
    · simp only [hab, hbc, bne_self_eq_false, Bool.false_eq_true, if_false] at *
      exact nameLe_trans h1 h2
    · have : (orderOf enc b != orderOf enc c) = true := by simp [hbc]
      simp only [hab, this, if_true, decide_eq_true_eq] at h2 ⊢
      simp [h2]
  · have hab' : (orderOf enc a != orderOf enc b) = true := by simp [hab]
    simp only [hab', if_true, decide_eq_true_eq] at h1
    by_cases hbc : orderOf enc b = orderOf enc c
    · rw [← hbc]; simp [hab', h1]
    · have hbc' : (orderOf enc b != orderOf enc c) = true := by simp [hbc]
      simp only [hbc', if_true, decide_eq_true_eq] at h2
      have : orderOf enc a ≠ orderOf enc c := by omega
      have hac' : (orderOf enc a != orderOf enc c) = true := by simp [this]
      simp only [hac', if_true, decide_eq_true_eq]
      omega

/-- the list is a permutation of the glyph names plus `.notdef` if that is missing … -/
theorem glyphlist_perm (keys enc : List GName) :
    (glyphList keys enc).Perm (if keys.contains notdef then keys else keys ++ [notdef]) := by
  unfold glyphList
  exact List.mergeSort_perm _ _

/-- … so it contains each glyph exactly once, -/
theorem glyphlist_nodup (keys enc : List GName) (h : keys.Nodup) : (glyphList keys enc).Nodup := by
  apply (glyphlist_perm keys enc).symm.nodup
  split
  · exact h
  · rename_i hc
    rw [List.nodup_append]
    refine ⟨h, by simp, ?_⟩
    intro a ha b hb
    simp only [List.mem_singleton] at hb
    subst hb
    intro heq
    subst heq
    exact hc (List.contains_iff_mem.mpr ha)

/-- its length is the reported glyph count, -/
theorem glyphlist_length (keys enc : List GName) : (glyphList keys enc).length = numGlyphs keys := by
  rw [(glyphlist_perm keys enc).length_eq]
  unfold numGlyphs
  split <;> simp

/-- it is sorted by (ordering key, name): `.notdef` (−1), encoded glyphs by code, the rest (256) by name, -/
theorem glyphlist_sorted (keys enc : List GName) :
    (glyphList keys enc).Pairwise (fun a b => keyLe enc a b = true) := by
  unfold glyphList
  exact List.pairwise_mergeSort (fun a b c h1 h2 => keyLe_trans enc a b c h1 h2) (fun a b => keyLe_total enc a b) _

theorem orderOf_nonneg (enc : List GName) (a : GName) (h : a ≠ notdef) : 0 ≤ orderOf enc a := by
  unfold orderOf
  have : (a == notdef) = false := by simp [h]
  simp only [this, Bool.false_eq_true, if_false]
  split <;> omega

/-- and it starts with `.notdef` -/
theorem glyphlist_head (keys enc : List GName) : (glyphList keys enc).head? = some notdef := by
  have hmem : notdef ∈ glyphList keys enc := by
    apply (glyphlist_perm keys enc).symm.subset
    split
    · rename_i h; exact List.contains_iff_mem.mp h
    · simp
  have hs := glyphlist_sorted keys enc
  generalize glyphList keys enc = l at hmem hs
  cases l with
  | nil => cases hmem
  | cons x xs =>
    simp only [List.head?_cons, Option.some.injEq]
    rcases List.mem_cons.mp hmem with h | h
    · exact h.symm
    · have hle := (List.pairwise_cons.mp hs).1 notdef h
      by_cases hx : x = notdef
      · exact hx
      · exfalso
        have h0 := orderOf_nonneg enc x hx
        unfold keyLe at hle
        have hn : orderOf enc notdef = -1 := by simp [orderOf]
        simp only [hn] at hle
        have hne : (orderOf enc x != -1) = true := by simp; omega
        simp only [hne, if_true, decide_eq_true_eq] at hle
        omega

/-! ## glyph boxes -/

def xs (ps : Points) : List Int := ps.map (·.1)
def ys (ps : Points) : List Int := ps.map (·.2)

theorem bboxLoop_false (ps : Points) (r : Rect) :
    bboxLoop ps false r =
      ⟨(xs ps).foldl min r.llx, (ys ps).foldl min r.lly, (xs ps).foldl max r.urx, (ys ps).foldl max r.ury⟩ := by
  induction ps generalizing r with
  | nil => rfl
  | cons p ps ih =>
    obtain ⟨x, y⟩ := p
    simp only [bboxLoop, Bool.false_or, xs, ys, List.map_cons, List.foldl_cons]
    rw [ih]
    simp only [xs, ys]
    congr 1 <;> (congr 1; simp only [decide_eq_true_eq]; split <;> omega)

theorem foldl_min_le (l : List Int) (a : Int) : l.foldl min a ≤ a ∧ ∀ x ∈ l, l.foldl min a ≤ x := by
  induction l generalizing a with
  | nil => simp
  | cons y l ih =>
    simp only [List.foldl_cons]
    have := ih (min a y)
    refine ⟨by omega, ?_⟩
    intro x hx
    rcases List.mem_cons.mp hx with h | h
    · subst h; omega
    · exact this.2 x h

theorem le_foldl_min (l : List Int) (a b : Int) (ha : b ≤ a) (hl : ∀ x ∈ l, b ≤ x) : b ≤ l.foldl min a := by
  induction l generalizing a with
  | nil => simpa
  | cons y l ih =>
    simp only [List.foldl_cons]
    exact ih (min a y) (by have := hl y (by simp); omega) (fun x hx => hl x (by simp [hx]))

theorem foldl_max_ge (l : List Int) (a : Int) : a ≤ l.foldl max a ∧ ∀ x ∈ l, x ≤ l.foldl max a := by
  induction l generalizing a with
  | nil => simp
  | cons y l ih =>
    simp only [List.foldl_cons]
    have := ih (max a y)
    refine ⟨by omega, ?_⟩
    intro x hx
    rcases List.mem_cons.mp hx with h | h
    · subst h; omega
    · exact this.2 x h

theorem foldl_max_le (l : List Int) (a b : Int) (ha : a ≤ b) (hl : ∀ x ∈ l, x ≤ b) : l.foldl max a ≤ b := by
  induction l generalizing a with
  | nil => simpa
  | cons y l ih =>
    simp only [List.foldl_cons]
    exact ih (max a y) (by have := hl y (by simp); omega) (fun x hx => hl x (by simp [hx]))

/-- the rectangle `r` contains the point -/
def inside (r : Rect) (p : Int × Int) : Prop := r.llx ≤ p.1 ∧ p.1 ≤ r.urx ∧ r.lly ≤ p.2 ∧ p.2 ≤ r.ury

/-- **the glyph box is the smallest rectangle containing the end points**: it contains each
of them, and every rectangle that contains them all contains the box; no points ⇒ zero box -/
theorem bbox_smallest (ps : Points) :
    (∀ p ∈ ps, inside (glyphBBox ps) p) ∧
    (∀ r : Rect, ps ≠ [] → (∀ p ∈ ps, inside r p) →
      r.llx ≤ (glyphBBox ps).llx ∧ (glyphBBox ps).urx ≤ r.urx ∧ r.lly ≤ (glyphBBox ps).lly ∧ (glyphBBox ps).ury ≤ r.ury) ∧
    (ps = [] → glyphBBox ps = Rect.zero) := by
  cases ps with
  | nil => exact ⟨by simp, by simp, fun _ => rfl⟩
  | cons p0 ps =>
    obtain ⟨x0, y0⟩ := p0
    have hb : glyphBBox ((x0, y0) :: ps) =
        ⟨(xs ps).foldl min x0, (ys ps).foldl min y0, (xs ps).foldl max x0, (ys ps).foldl max y0⟩ := by
      simp only [glyphBBox, bboxLoop, Bool.true_or, if_true]
      rw [bboxLoop_false]
    rw [hb]
    refine ⟨?_, ?_, by simp⟩
    · intro p hp
      have a1 := foldl_min_le (xs ps) x0
      have a2 := foldl_min_le (ys ps) y0
      have a3 := foldl_max_ge (xs ps) x0
      have a4 := foldl_max_ge (ys ps) y0
      rcases List.mem_cons.mp hp with h | h
      · subst h; exact ⟨a1.1, a3.1, a2.1, a4.1⟩
      · have hx : p.1 ∈ xs ps := List.mem_map_of_mem h
        have hy : p.2 ∈ ys ps := List.mem_map_of_mem h
        exact ⟨a1.2 _ hx, a3.2 _ hx, a2.2 _ hy, a4.2 _ hy⟩
    · intro r _ hr
      have h0 := hr (x0, y0) (by simp)
      have hxs : ∀ x ∈ xs ps, r.llx ≤ x ∧ x ≤ r.urx := by
        intro x hx
        obtain ⟨p, hp, rfl⟩ := List.mem_map.mp hx
        have := hr p (by simp [hp]); exact ⟨this.1, this.2.1⟩
      have hys : ∀ y ∈ ys ps, r.lly ≤ y ∧ y ≤ r.ury := by
        intro y hy
        obtain ⟨p, hp, rfl⟩ := List.mem_map.mp hy
        have := hr p (by simp [hp]); exact ⟨this.2.2.1, this.2.2.2⟩
      exact ⟨le_foldl_min _ _ _ h0.1 (fun x hx => (hxs x hx).1),
             foldl_max_le _ _ _ h0.2.1 (fun x hx => (hxs x hx).2),
             le_foldl_min _ _ _ h0.2.2.1 (fun y hy => (hys y hy).1),
             foldl_max_le _ _ _ h0.2.2.2 (fun y hy => (hys y hy).2)⟩

/-! ## the font box: union of the non-zero glyph boxes, whatever the map order -/

def proper (r : Rect) : Prop := r.llx ≤ r.urx ∧ r.lly ≤ r.ury

theorem glyphBBox_proper (ps : Points) : proper (glyphBBox ps) := by
  cases ps with
  | nil => simp [glyphBBox, bboxLoop, proper, Rect.zero]
  | cons p ps =>
    have := (bbox_smallest (p :: ps)).1 p (by simp)
    unfold inside at this
    unfold proper; omega

/-- the `first`-flag loop of `Font.FontBBox` is a plain fold of `Extend` from the zero box -/
theorem fontBBox_eq_fold (boxes : List Rect) : fontBBox boxes = boxes.foldl Rect.extend Rect.zero := by
  have key : ∀ (bs : List Rect) (first : Bool) (acc : Rect), (first = true → acc = Rect.zero) →
      fontBBoxLoop bs first acc = bs.foldl Rect.extend acc := by
    intro bs
    induction bs with
    | nil => intros; rfl
    | cons b bs ih =>
      intro first acc h
      simp only [fontBBoxLoop, List.foldl_cons]
      by_cases hz : b.isZero = true
      · simp only [hz, if_true]
        have : acc.extend b = acc := by simp [Rect.extend, hz]
        rw [this]; exact ih first acc h
      · simp only [hz, Bool.false_eq_true, if_false]
        cases first with
        | true =>
          have := h rfl; subst this
          have : Rect.zero.extend b = b := by
            simp only [Rect.extend, hz, Bool.false_eq_true, if_false]
            rfl
          simp only [if_true, this]
          exact ih false b (by simp)
        | false =>
          simp only [Bool.false_eq_true, if_false]
          exact ih false _ (by simp)
  exact key boxes true Rect.zero (fun _ => rfl)

theorem isZero_iff (r : Rect) : r.isZero = true ↔ r.llx = 0 ∧ r.lly = 0 ∧ r.urx = 0 ∧ r.ury = 0 := by
  simp [Rect.isZero, and_assoc]

/-- two proper boxes can be added in either order -/
theorem extend_comm (z x y : Rect) (hx : proper x) (hy : proper y) :
    (z.extend x).extend y = (z.extend y).extend x := by
  unfold proper at hx hy
  by_cases hxz : x.isZero = true
  · have e1 : ∀ r : Rect, r.extend x = r := fun r => by simp [Rect.extend, hxz]
    rw [e1, e1]
  · by_cases hyz : y.isZero = true
    · have e1 : ∀ r : Rect, r.extend y = r := fun r => by simp [Rect.extend, hyz]
      rw [e1, e1]
    · have hx0 := (not_congr (isZero_iff x)).mp hxz
      have hy0 := (not_congr (isZero_iff y)).mp hyz
      by_cases hzz : z.isZero = true
      · -- z zero: (x ∪ y) = (y ∪ x), both non-zero
        simp only [Rect.extend, hxz, hyz, hzz, Bool.false_eq_true, if_false, if_true]
        congr 1 <;> omega
      · have hz0 := (not_congr (isZero_iff z)).mp hzz
        have n1 : ¬ ((⟨min z.llx x.llx, min z.lly x.lly, max z.urx x.urx, max z.ury x.ury⟩ : Rect).isZero = true) := by
          rw [isZero_iff]; simp only; omega
        have n2 : ¬ ((⟨min z.llx y.llx, min z.lly y.lly, max z.urx y.urx, max z.ury y.ury⟩ : Rect).isZero = true) := by
          rw [isZero_iff]; simp only; omega
        simp only [Rect.extend, hxz, hyz, hzz, n1, n2, Bool.false_eq_true, if_false]
        congr 1 <;> omega

/-- **the font box does not depend on the order in which the glyphs are visited** -/
theorem fontBBox_order_indep (b1 b2 : List Rect) (hp : b1.Perm b2) (h : ∀ b ∈ b1, proper b) :
    fontBBox b1 = fontBBox b2 := by
  rw [fontBBox_eq_fold, fontBBox_eq_fold]
  exact hp.foldl_eq' (fun x hx y hy z => extend_comm z x y (h x hx) (h y hy)) _

/-- the afm variant (`bbox.Extend(g.BBox)` over all glyphs) likewise -/
theorem afmFontBBox_order_indep (b1 b2 : List Rect) (hp : b1.Perm b2) (h : ∀ b ∈ b1, proper b) :
    afmFontBBox b1 = afmFontBBox b2 :=
  hp.foldl_eq' (fun x hx y hy z => extend_comm z x y (h x hx) (h y hy)) _

/-! ## widths -/

/-- a present glyph gets its own width, an absent one `.notdef`'s, or 0 when there is none -/
theorem width_spec (widths : List (GName × Int)) (name : GName) :
    (∀ w, widths.find? (fun p => p.1 == name) = some (name, w) → glyphWidth widths name = w) ∧
    (widths.find? (fun p => p.1 == name) = none →
      glyphWidth widths name = glyphWidth widths notdef ∨ name = notdef) ∧
    (widths.find? (fun p => p.1 == name) = none → widths.find? (fun p => p.1 == notdef) = none →
      glyphWidth widths name = 0) := by
  refine ⟨?_, ?_, ?_⟩
  · intro w h; simp [glyphWidth, h]
  · intro h
    by_cases hn : name = notdef
    · right; exact hn
    · left
      simp only [glyphWidth, h]
      cases hd : widths.find? (fun p => p.1 == notdef) <;> simp [hd]
  · intro h1 h2; simp [glyphWidth, h1, h2]

end PsVerif.Props.C19
