import PsVerif.Props.C16Slow
import PsVerif.Proofs.NamesRoundTrip
/-!
# C16 — the round trip for every Unicode scalar value

`Proofs/NamesRoundTrip.lean` proves `toUnicode (fromUnicode r) false = expand r` for all `r`
from finite facts about the tables; the one slow fact (every AGLFN name maps back to its
character) is `C16Slow.aglfn_roundtrip`.  Built by the thorough tier.
-/
namespace PsVerif.Props.C16Full
open PsVerif.Model.Names PsVerif.Proofs.NamesRoundTrip

theorem aglfn_roundtrip_all : AglfnRoundTrip := by
  intro e he
  have := List.all_eq_true.mp PsVerif.Props.C16Slow.aglfn_roundtrip e he
  cases hn : aglfnName e.1 with
  | none => simp only [hn] at this; cases this
  | some n => simp only [hn, beq_iff_eq] at this; exact ⟨n, rfl, this⟩

/-- **for every Unicode scalar value, the glyph name chosen for it maps back to exactly that
character, or to its documented compatibility expansion** -/
theorem from_to_unicode (r : Nat) (hr : r < 0x110000) (hs : ¬ (0xD800 ≤ r ∧ r < 0xE000)) :
    toUnicode (fromUnicode r) false = expand r :=
  from_to_unicode_of_aglfn aglfn_roundtrip_all r hr hs

end PsVerif.Props.C16Full
