import PsVerif.Proofs.SplitExec
import PsVerif.Model.Init
/-!
# C12, last sentence: one program fed in several `Execute` calls

"Feeding a program to one interpreter in several consecutive calls, split at token boundaries,
is equivalent to feeding the concatenation in one call."

All results are about the model (`Model/Interp.lean`, `Model/Scanner.lean`) and hold for
**every** interpreter state `s`, every budget `m` and all inputs.

## What "split at a token boundary" means: `cleanRun f m s a`

`cleanRun f m s a : Option (State × Nat)` (`Proofs/SplitExec.lean`) is a computable check on the
run of the first part `a` alone, started in `s` with fuel `f`.  It follows `Execute` token by
token and answers `some …` iff

1. (if `CheckStart` is set) the header test succeeds without the look-ahead touching the end of `a`;
2. every token is scanned and executed with result `ok` and afterwards the scanner's sticky error
   is still unset, i.e. *neither the scanner nor an operator asked the reader for a byte beyond
   the end of `a`*.  This excludes, and each exclusion is necessary (counterexamples below):
   a first call that ends by `stop`/`exit`/an error; a last token that is a name or number
   directly followed by the end (its end is only known when a delimiter is seen: `12` + `34`);
   `currentfile` operators (`eexec`, `readstring`, …) that consume up to the end of the call's
   input; an unterminated string, hex string or comment;
3. the last `scanToken` of the call then skips white space and comments by whole turns of the
   `SkipWhiteSpace` loop, none of which touches the end of `a`, and finds the end in the look-ahead
   at the head of that loop **at the start of a line** (`col = 0`, no pending CR), with nothing
   buffered, no eexec section open and the eexec cipher state untouched (`wsEnd`, `atEnd`).  The
   start of a line is needed because
   DSC comments are recognised in column 0 only (`"1 "` + `"%%Title: x\n"`); a DSC comment as
   the very last line of `a` is *not* accepted, because its reader looks ahead for a `%%+`
   continuation line (`"%%Title: x\n"` + `"%%+ y\n"`).

## The statement (`execute_split`)

If `(cleanRun f m s a).isSome` then the first call returns `ok`, and for every second part `b`
and all fuels for which neither run is cut short by the model (`Good r := r ≠ Res.fuel`; the
scanner model's own fuel never runs out here, `ws_noSF`), the single call over `a ++ b` from `s`
and the call over `b` from the state left by the first call

* return the same result (also when that is an error, `stop`, `invalidexit`, the budget error …),
* leave the same interpreter state: `vm` (operand stack, dictionary stack, heap, CMap scratch),
  `numOps`, `checkStart`, `execDepth`, `errors`, `procStart`, `scannerDepth`, `dsc` (Go: `intp.DSC`),
  `hiDepth`, `hiErrors` are **equal, whatever the result**; the scanner agrees in `src`, `peek`, `eexec`, `r`, `col`, `crSeen`, `err`, `fault`,
  `regurgitate` and differs exactly by the line counter (`+ line` of the first call) and by the
  structured comments of the first part in front of its `dsc`;

(Before the fix of `Execute` that this property led to, `dsc` was equal only for result `ok`: a
failing call dropped the structured comments of its whole input, so the single call lost those
of the first part while the two calls had kept them.  See "former finding" below.)

`execute_split_good`: if the single call is not cut short by the model, neither is the second call.
`execute_split_many` is the same for any number of parts (induction over the list of parts).
`frame_property` is the underlying lemma for all thirteen functions of the interpreter model.

Not covered (the statement may still hold, but `cleanRun` rejects the first part): a first part
whose last line is a DSC comment (`"%%EndProlog\n"` + …), because of the `%%+` look-ahead — equal
outcomes there would need `b` not to start with `%%+` and a proof that the scanner does not depend
on how the unread bytes are divided between its look-ahead buffer and its source; a first part
that ends with CR (the LF of a CR LF pair in the next call); first parts ending in white space
other than a line end (fine unless the second part starts with `%%`).
-/
namespace PsVerif.Props.C12Split
open PsVerif.Model PsVerif.Proofs.SplitExec

/-- **C12 (two calls).**  See the header for the meaning of `cleanRun`, `Good` and `ext`. -/
theorem execute_split {f m : Nat} {s : State} {a : List UInt8} (hc : (cleanRun f m s a).isSome = true) :
    (execute f m s a none).2 = .ok ∧
    (execute f m s a none).1.dsc = s.dsc ++ (execute f m s a none).1.scanner.dsc ∧
    ∀ (b : List UInt8) (F1 F2 : Nat),
      Good (execute F1 m s (a ++ b) none).2 →
      Good (execute F2 m (execute f m s a none).1 b none).2 →
      execute F1 m s (a ++ b) none =
        ({ (execute F2 m (execute f m s a none).1 b none).1 with
            scanner := ext [] (execute f m s a none).1.scanner.line (execute f m s a none).1.scanner.dsc
              (execute F2 m (execute f m s a none).1 b none).1.scanner },
         (execute F2 m (execute f m s a none).1 b none).2) :=
  split_two hc

/-- the fields that are compared, spelled out -/
theorem execute_split_fields {f m : Nat} {s : State} {a : List UInt8} (hc : (cleanRun f m s a).isSome = true)
    (b : List UInt8) (F1 F2 : Nat)
    (g1 : Good (execute F1 m s (a ++ b) none).2)
    (g2 : Good (execute F2 m (execute f m s a none).1 b none).2) :
    let P1 := execute F1 m s (a ++ b) none
    let P2 := execute F2 m (execute f m s a none).1 b none
    P1.2 = P2.2 ∧ P1.1.vm = P2.1.vm ∧ P1.1.numOps = P2.1.numOps ∧ P1.1.checkStart = P2.1.checkStart ∧
    P1.1.execDepth = P2.1.execDepth ∧ P1.1.errors = P2.1.errors ∧ P1.1.procStart = P2.1.procStart ∧
    P1.1.scannerDepth = P2.1.scannerDepth ∧ P1.1.hiDepth = P2.1.hiDepth ∧ P1.1.hiErrors = P2.1.hiErrors ∧
    P1.1.dsc = P2.1.dsc ∧
    P1.1.scanner.src = P2.1.scanner.src ++ [] ∧ P1.1.scanner.peek = P2.1.scanner.peek ∧
    P1.1.scanner.eexec = P2.1.scanner.eexec ∧ P1.1.scanner.col = P2.1.scanner.col ∧
    P1.1.scanner.crSeen = P2.1.scanner.crSeen ∧ P1.1.scanner.err = P2.1.scanner.err ∧
    P1.1.scanner.line = (execute f m s a none).1.scanner.line + P2.1.scanner.line ∧
    P1.1.scanner.dsc = (execute f m s a none).1.scanner.dsc ++ P2.1.scanner.dsc := by
  intro P1 P2
  obtain ⟨_, hd, h⟩ := split_two hc
  have e := h b F1 F2 g1 g2
  have e' : P1 = _ := e
  refine ⟨?_, ?_, ?_, ?_, ?_, ?_, ?_, ?_, ?_, ?_, ?_, ?_, ?_, ?_, ?_, ?_, ?_, ?_, ?_⟩
  all_goals first
    | (rw [e']; done)
    | (rw [e']; rfl)

/-- if the single call is not cut short by the model then neither is the second call -/
theorem execute_split_good {f m : Nat} {s : State} {a : List UInt8} (hc : (cleanRun f m s a).isSome = true)
    (b : List UInt8) (F1 : Nat) (g1 : Good (execute F1 m s (a ++ b) none).2) :
    Good (execute (F1 + f + 1 + 1) m (execute f m s a none).1 b none).2 :=
  split_two_good hc b F1 g1

/-- **C12 (any number of calls).**  `ChainOK f m s parts`: every part is accepted by `cleanRun`
when it is run after the parts before it.  `endState`: the state after feeding the parts one by
one.  `SplitRel P1 P2 := ∃ l pre, P1 = ({ P2.1 with scanner := ext [] l pre P2.1.scanner }, P2.2)`:
the relation of `execute_split` (same result; same state up to the scanner's line counter and
list of structured comments). -/
theorem execute_split_many (f m : Nat) (parts : List (List UInt8)) (s : State) (b : List UInt8)
    (h : ChainOK f m s parts) (F1 F2 : Nat)
    (g1 : Good (execute F1 m s (parts.flatten ++ b) none).2)
    (g2 : Good (execute F2 m (endState f m s parts) b none).2) :
    SplitRel (execute F1 m s (parts.flatten ++ b) none) (execute F2 m (endState f m s parts) b none) :=
  split_many f m parts s b h F1 F2 g1 g2

/-- … and the last call is not cut short by the model when the single call is not -/
theorem execute_split_many_good (f m : Nat) (parts : List (List UInt8)) (s : State) (b : List UInt8)
    (h : ChainOK f m s parts) (F1 : Nat) (g1 : Good (execute F1 m s (parts.flatten ++ b) none).2) :
    ∃ F2, Good (execute F2 m (endState f m s parts) b none).2 :=
  split_many_good f m parts s b h F1 g1

/-- **Frame property** of the whole interpreter model: a call of any of the thirteen functions
that ends without its scanner having looked beyond the end of its source (`Quiet`), and not
with the scanner model's out-of-fuel failure, does exactly the same when `b` is appended to the
source (and `l` is added to the line counter, `pre` put in front of the scanner's structured
comments, the interpreter's list replaced by `dd`). -/
theorem frame_property (b : List UInt8) (l : Nat) (pre dd : List (String × String)) (m f : Nat) :
    AllFr b l pre dd f m := allFr m f

/-! ## Non-vacuity: a program split inside an open procedure body -/

/-- `"/f { 1 2\n"` -/
def exA : List UInt8 := [47, 102, 32, 123, 32, 49, 32, 50, 10]
/-- `"add } def f\n"` -/
def exB : List UInt8 := [97, 100, 100, 32, 125, 32, 100, 101, 102, 32, 102, 10]

theorem exA_clean : (cleanRun 50 0 newInterpreter exA).isSome = true := by decide +kernel

/-- the first call ends inside the open procedure body, with `/f 1 2` on the operand stack -/
example : (execute 50 0 newInterpreter exA none).1.procStart = [1] ∧
    (execute 50 0 newInterpreter exA none).1.vm.stack = [.int 2, .int 1, .name "f"] := by decide +kernel

/-- the theorem applied: both ways of running the program agree -/
example : execute 50 0 newInterpreter (exA ++ exB) none =
    ({ (execute 50 0 (execute 50 0 newInterpreter exA none).1 exB none).1 with
        scanner := ext [] (execute 50 0 newInterpreter exA none).1.scanner.line
          (execute 50 0 newInterpreter exA none).1.scanner.dsc
          (execute 50 0 (execute 50 0 newInterpreter exA none).1 exB none).1.scanner },
     (execute 50 0 (execute 50 0 newInterpreter exA none).1 exB none).2) :=
  (execute_split exA_clean).2.2 exB 50 50 (by decide +kernel) (by decide +kernel)

/-- … and the program does what it should: `3` is left on the stack -/
example : (execute 50 0 newInterpreter (exA ++ exB) none).2 = .ok ∧
    (execute 50 0 newInterpreter (exA ++ exB) none).1.vm.stack = [.int 3] ∧
    (execute 50 0 (execute 50 0 newInterpreter exA none).1 exB none).1.vm.stack = [.int 3] := by decide +kernel

/-- three calls: `"/f {\n"`, `" 1 2\n"`, `"add } def f\n"` -/
def exParts : List (List UInt8) := [[47, 102, 32, 123, 10], [32, 49, 32, 50, 10]]

theorem exParts_ok : ChainOK 50 0 newInterpreter exParts := by
  refine ⟨by decide +kernel, by decide +kernel, trivial⟩

example : SplitRel (execute 50 0 newInterpreter (exParts.flatten ++ exB) none)
    (execute 50 0 (endState 50 0 newInterpreter exParts) exB none) :=
  execute_split_many 50 0 exParts newInterpreter exB exParts_ok 50 50 (by decide +kernel) (by decide +kernel)

/-! ## The former finding, and why the side conditions are needed (all confirmed on the Go code as well) -/

/-- **Former finding (fixed).**  Split at a clean line boundary, the second part fails (`foo` is
undefined): `a = "%%Title: x\n1 2 add\n"`, `b = "foo\n"`.  Go's `Execute` used to append `s.DSC`
to `intp.DSC` only when it returned `nil`, so the single call ended with `DSC` empty while the two
calls kept `{Title x}` of the first part.  `Execute` (and the model) now append the comments seen
so far whether or not the call fails; both runs end with `DSC = [{Title x}]`, as
`execute_split` says. -/
def dscA : List UInt8 := [37, 37, 84, 105, 116, 108, 101, 58, 32, 120, 10, 49, 32, 50, 32, 97, 100, 100, 10]
def dscB : List UInt8 := [102, 111, 111, 10]

example : (cleanRun 50 0 newInterpreter dscA).isSome = true ∧
    (execute 50 0 newInterpreter (dscA ++ dscB) none).2 = .err (.ps "undefined") ∧
    (execute 50 0 (execute 50 0 newInterpreter dscA none).1 dscB none).2 = .err (.ps "undefined") ∧
    (execute 50 0 newInterpreter (dscA ++ dscB) none).1.dsc = [("Title", "x")] ∧
    (execute 50 0 (execute 50 0 newInterpreter dscA none).1 dscB none).1.dsc = [("Title", "x")] := by
  decide +kernel

#eval ((execute 50 0 newInterpreter (dscA ++ dscB) none).1.dsc,
  (execute 50 0 (execute 50 0 newInterpreter dscA none).1 dscB none).1.dsc)

/-- a DSC comment and its `%%+` continuation line in different calls: `"%%Title: x\n"` + `"%%+ y\n"`
(not accepted by `cleanRun`: the reader of the comment looks ahead beyond the end of the first part) -/
example : (cleanRun 50 0 newInterpreter [37, 37, 84, 105, 116, 108, 101, 58, 32, 120, 10]).isSome = false ∧
    (execute 50 0 newInterpreter ([37, 37, 84, 105, 116, 108, 101, 58, 32, 120, 10] ++ [37, 37, 43, 32, 121, 10]) none).1.dsc
      = [("Title", "x y")] ∧
    (execute 50 0 (execute 50 0 newInterpreter [37, 37, 84, 105, 116, 108, 101, 58, 32, 120, 10] none).1
      [37, 37, 43, 32, 121, 10] none).1.dsc = [("Title", "x"), ("+", "y")] := by
  decide +kernel

/-- a split after white space that is not a line end: `"1 "` + `"%%Title: x\n"`; the comment is a
DSC comment only for the second call (column 0) -/
example : (cleanRun 50 0 newInterpreter [49, 32]).isSome = false ∧
    (execute 50 0 newInterpreter ([49, 32] ++ [37, 37, 84, 105, 116, 108, 101, 58, 32, 120, 10]) none).1.dsc = [] ∧
    (execute 50 0 (execute 50 0 newInterpreter [49, 32] none).1
      [37, 37, 84, 105, 116, 108, 101, 58, 32, 120, 10] none).1.dsc = [("Title", "x")] := by
  decide +kernel

/-- a split inside a number: `"12"` + `"34\n"` -/
example : (cleanRun 50 0 newInterpreter [49, 50]).isSome = false ∧
    (execute 50 0 newInterpreter ([49, 50] ++ [51, 52, 10]) none).1.vm.stack = [.int 1234] ∧
    (execute 50 0 (execute 50 0 newInterpreter [49, 50] none).1 [51, 52, 10] none).1.vm.stack = [.int 34, .int 12] := by
  decide +kernel

/-- the first call ends by `stop`: `"1 stop\n"` + `"2\n"`; `stop` ends the call it is in -/
example : (cleanRun 50 0 newInterpreter [49, 32, 115, 116, 111, 112, 10]).isSome = false ∧
    (execute 50 0 newInterpreter [49, 32, 115, 116, 111, 112, 10] none).2 = .ok ∧
    (execute 50 0 newInterpreter ([49, 32, 115, 116, 111, 112, 10] ++ [50, 10]) none).1.vm.stack = [.int 1] ∧
    (execute 50 0 (execute 50 0 newInterpreter [49, 32, 115, 116, 111, 112, 10] none).1 [50, 10] none).1.vm.stack
      = [.int 2, .int 1] := by
  decide +kernel

/-- a split inside a string: `"(abc\n"` + `"def) length\n"`; the first call returns `ok` although
the string is not closed (the end of the input inside a string literal is reported as `io.EOF`,
which `executeScanner` takes for the normal end) -/
example : (cleanRun 50 0 newInterpreter [40, 97, 98, 99, 10]).isSome = false ∧
    (execute 50 0 newInterpreter [40, 97, 98, 99, 10] none).2 = .ok ∧
    (execute 50 0 newInterpreter ([40, 97, 98, 99, 10] ++ [100, 101, 102, 41, 32, 108, 101, 110, 103, 116, 104, 10]) none).1.vm.stack
      = [.int 7] ∧
    (execute 50 0 (execute 50 0 newInterpreter [40, 97, 98, 99, 10] none).1
      [100, 101, 102, 41, 32, 108, 101, 110, 103, 116, 104, 10] none).2 = .err (.ps "stackunderflow") := by
  decide +kernel

end PsVerif.Props.C12Split

#print axioms PsVerif.Props.C12Split.execute_split
#print axioms PsVerif.Props.C12Split.execute_split_fields
#print axioms PsVerif.Props.C12Split.execute_split_good
#print axioms PsVerif.Props.C12Split.execute_split_many
#print axioms PsVerif.Props.C12Split.execute_split_many_good
#print axioms PsVerif.Props.C12Split.frame_property
#print axioms PsVerif.Props.C12Split.exA_clean
#print axioms PsVerif.Props.C12Split.exParts_ok
