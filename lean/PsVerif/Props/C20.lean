import PsVerif.Model.T1Num
import PsVerif.Proofs.T1Drift
/-!
# C20 — charstring numbers, integer part

`int_rt`: every 32-bit integer is written in a form that decodes to the same integer;
`int_format`: each of the four formats is used in its proper range.
-/
namespace PsVerif.Props.C20
open PsVerif.Model.T1Num

theorem byteOf_lt (e : Int) : byteOf e < 256 := by
  unfold byteOf; omega

/-- all bytes written are bytes -/
theorem appendInt_bytes (x : Int) : ∀ b ∈ appendInt x, b < 256 := by
  intro b hb
  unfold appendInt at hb
  split at hb
  · simp at hb; subst hb; exact byteOf_lt _
  · split at hb
    · simp at hb; rcases hb with hb | hb <;> subst hb <;> exact byteOf_lt _
    · split at hb
      · simp at hb; rcases hb with hb | hb <;> subst hb <;> exact byteOf_lt _
      · simp at hb
        rcases hb with hb | hb | hb | hb | hb <;> subst hb <;> first | omega | exact byteOf_lt _

/-- **C20 integer round trip**, for every 32-bit integer and every following byte string. -/
theorem int_rt (x : Int) (h : inInt32 x) (t : List Nat) :
    decodeNum (appendInt x ++ t) = .ok x t := by
  unfold inInt32 at h
  unfold appendInt
  split
  · -- one byte
    rename_i h1
    simp only [List.cons_append, List.nil_append, decodeNum, byteOf]
    have : (((x + 139) % 256).toNat : Int) = x + 139 := by omega
    have hb : 32 ≤ ((x + 139) % 256).toNat ∧ ((x + 139) % 256).toNat ≤ 246 := by omega
    simp only [hb, and_self, if_true, this]
    congr 1; omega
  · split
    · -- positive two-byte
      rename_i h1 h2
      simp only [List.cons_append, List.nil_append, decodeNum, byteOf]
      have hq : Int.tdiv (x - 108) 256 = (x - 108) / 256 := by
        rw [Int.tdiv_eq_ediv_of_nonneg (by omega)]
      have hr : Int.tmod (x - 108) 256 = (x - 108) % 256 := by
        rw [Int.tmod_eq_emod_of_nonneg (by omega)]
      rw [hq, hr]
      have e1 : ((((x - 108) / 256 + 247) % 256).toNat : Int) = (x - 108) / 256 + 247 := by omega
      have e2 : ((((x - 108) % 256) % 256).toNat : Int) = (x - 108) % 256 := by omega
      have hb1 : ¬ (32 ≤ (((x - 108) / 256 + 247) % 256).toNat ∧ (((x - 108) / 256 + 247) % 256).toNat ≤ 246) := by omega
      have hb2 : 247 ≤ (((x - 108) / 256 + 247) % 256).toNat ∧ (((x - 108) / 256 + 247) % 256).toNat ≤ 250 := by omega
      simp only [hb1, hb2, and_self, if_true, if_false, e1, e2]
      congr 1; omega
    · split
      · -- negative two-byte
        rename_i h1 h2 h3
        simp only [List.cons_append, List.nil_append, decodeNum, byteOf]
        have hq : Int.tdiv (-x - 108) 256 = (-x - 108) / 256 := by
          rw [Int.tdiv_eq_ediv_of_nonneg (by omega)]
        have hr : Int.tmod (-x - 108) 256 = (-x - 108) % 256 := by
          rw [Int.tmod_eq_emod_of_nonneg (by omega)]
        rw [hq, hr]
        have e1 : ((((-x - 108) / 256 + 251) % 256).toNat : Int) = (-x - 108) / 256 + 251 := by omega
        have e2 : ((((-x - 108) % 256) % 256).toNat : Int) = (-x - 108) % 256 := by omega
        have hb1 : ¬ (32 ≤ (((-x - 108) / 256 + 251) % 256).toNat ∧ (((-x - 108) / 256 + 251) % 256).toNat ≤ 246) := by omega
        have hb2 : ¬ (247 ≤ (((-x - 108) / 256 + 251) % 256).toNat ∧ (((-x - 108) / 256 + 251) % 256).toNat ≤ 250) := by omega
        have hb3 : 251 ≤ (((-x - 108) / 256 + 251) % 256).toNat ∧ (((-x - 108) / 256 + 251) % 256).toNat ≤ 254 := by omega
        simp only [hb1, hb2, hb3, and_self, if_true, if_false, e1, e2]
        congr 1; omega
      · -- five bytes
        simp only [List.cons_append, List.nil_append, decodeNum, byteOf, sar, int32OfBytes]
        simp only [show ¬ (32 ≤ 255 ∧ 255 ≤ 246) by omega, show ¬ (247 ≤ 255 ∧ 255 ≤ 250) by omega,
          show ¬ (251 ≤ 255 ∧ 255 ≤ 254) by omega, if_false, if_true]
        congr 1
        have p24 : (2 : Int) ^ 24 = 16777216 := by decide
        have p16 : (2 : Int) ^ 16 = 65536 := by decide
        have p8 : (2 : Int) ^ 8 = 256 := by decide
        have p31 : (2 : Int) ^ 31 = 2147483648 := by decide
        have p32 : (2 : Int) ^ 32 = 4294967296 := by decide
        rw [p24, p16, p8, p31, p32] at *
        have a1 : (((x / 16777216 % 256).toNat : Nat) : Int) = x / 16777216 % 256 := by omega
        have a2 : (((x / 65536 % 256).toNat : Nat) : Int) = x / 65536 % 256 := by omega
        have a3 : (((x / 256 % 256).toNat : Nat) : Int) = x / 256 % 256 := by omega
        have a4 : (((x % 256).toNat : Nat) : Int) = x % 256 := by omega
        rw [a1, a2, a3, a4]
        split <;> omega

/-- each format in its proper range (lengths 1, 2, 2, 5 and the lead-byte classes) -/
theorem int_format (x : Int) (h : inInt32 x) :
    ((-107 ≤ x ∧ x ≤ 107) → (appendInt x).length = 1) ∧
    ((108 ≤ x ∧ x ≤ 1131) → ∃ b0 b1, appendInt x = [b0, b1] ∧ 247 ≤ b0 ∧ b0 ≤ 250) ∧
    ((-1131 ≤ x ∧ x ≤ -108) → ∃ b0 b1, appendInt x = [b0, b1] ∧ 251 ≤ b0 ∧ b0 ≤ 254) ∧
    ((x < -1131 ∨ 1131 < x) → ∃ b1 b2 b3 b4, appendInt x = [255, b1, b2, b3, b4]) := by
  refine ⟨?_, ?_, ?_, ?_⟩
  · intro h1; simp [appendInt, h1]
  · intro h1
    have n1 : ¬ (-107 ≤ x ∧ x ≤ 107) := by omega
    refine ⟨_, _, by simp only [appendInt, n1, h1, and_self, if_true, if_false]; rfl, ?_⟩
    simp only [byteOf]
    rw [Int.tdiv_eq_ediv_of_nonneg (by omega)]
    omega
  · intro h1
    have n1 : ¬ (-107 ≤ x ∧ x ≤ 107) := by omega
    have n2 : ¬ (108 ≤ x ∧ x ≤ 1131) := by omega
    refine ⟨_, _, by simp only [appendInt, n1, n2, h1, and_self, if_true, if_false]; rfl, ?_⟩
    simp only [byteOf]
    rw [Int.tdiv_eq_ediv_of_nonneg (by omega)]
    omega
  · intro h1
    have n1 : ¬ (-107 ≤ x ∧ x ≤ 107) := by omega
    have n2 : ¬ (108 ≤ x ∧ x ≤ 1131) := by omega
    have n3 : ¬ (-1131 ≤ x ∧ x ≤ -108) := by omega
    exact ⟨_, _, _, _, by simp only [appendInt, n1, n2, n3, if_false]; rfl⟩

/-- non-vacuity: the hypotheses are met at the format boundaries -/
example : inInt32 (-2147483648) ∧ inInt32 2147483647 ∧ inInt32 108 ∧ inInt32 (-1131) := by decide
example : decodeNum (appendInt (-2147483648) ++ [14]) = .ok (-2147483648) [14] := by decide
example : appendInt 1131 = [250, 255] ∧ appendInt (-1131) = [254, 255] ∧ appendInt 1132 = [255, 0, 0, 4, 108] := by decide

/-! ## fractional values and drift -/

open PsVerif.Model.T1Encode PsVerif.Proofs.T1Encode PsVerif.Proofs.T1Drift

/-- **approximation bound**: for every requested value with `|x| ≤ 2·10^7` the value
written (`p q div`, or the integer itself) differs from it by at most 1/214.
(The property quantifies over `|x| < 10^6`.) -/
theorem approx_bound (x : Rat) (hx : -20000000 ≤ x ∧ x ≤ 20000000) :
    ((appendNumber x).2 - x).abs ≤ 1/214 := by
  have h := val_close x hx
  exact (abs_le_iff _ _).mpr ⟨h.1, by unfold val at h; grind⟩

/-- coordinate bound used for paths: `2K + 1 ≤ 2·10^7` -/
def K : Rat := 9999999

theorem val_near (x : Rat) (hx : bdd (2 * K + 1) x) : near (1/214) (val x) x := by
  unfold bdd K at hx
  have := val_close x (by unfold M; constructor <;> grind)
  exact this

/-- generalised statement for the induction: from any tracked position that is within
1/214 of the true current point -/
theorem no_drift_from (cs : List Cmd) (px py X Y : Rat)
    (hpx : near (1/214) px X) (hpy : near (1/214) py Y) (hX : bdd K X) (hY : bdd K Y)
    (hc : ∀ c ∈ cs, bddCmd K c) :
    Forall2 (closeCmd (1/214)) cs (decodeInstrs px py (encodeCmds val px py cs)) := by
  induction cs generalizing px py X Y with
  | nil => exact Forall2.nil
  | cons c cs ih =>
    have hs := step val (1/214) K (by rw [eps_val]; grind) (by grind) (by unfold K; grind) val_near
      px py X Y hpx hpy hX hY c (hc c (by simp))
    obtain ⟨hpos, hclose, hnx, hny, hbx, hby⟩ := hs
    simp only [encodeCmds, decodeInstrs]
    refine Forall2.cons hclose ?_
    rw [hpos]
    exact ih _ _ _ _ hnx hny hbx hby (fun c' hc' => hc c' (by simp [hc']))

/-- **no drift**: for a path of any length whose coordinates are bounded by `K`, every
coordinate of every point the decoder reconstructs from the encoder's output is within
1/214 of the original; commands keep their kind and order. -/
theorem no_drift (cs : List Cmd) (hc : ∀ c ∈ cs, bddCmd K c) :
    Forall2 (closeCmd (1/214)) cs (decodeInstrs 0 0 (encodeCmds val 0 0 cs)) := by
  have z : near (1/214) 0 0 := by unfold near; grind
  have b : bdd K 0 := by unfold bdd K; grind
  exact no_drift_from cs 0 0 0 0 z z b b hc

/-- the decoder tracks the encoder's position exactly (no accumulation at all) -/
theorem positions_agree (ap : Rat → Rat) (px py : Rat) (c : Cmd) :
    (decodeInstr px py (encodeCmd ap px py c).1).2 = (encodeCmd ap px py c).2 := by
  cases c <;> simp only [encodeCmd] <;> (repeat' split) <;> simp only [decodeInstr] <;> congr 1 <;> grind

/-- non-vacuity: a concrete fractional path meets the hypotheses of `no_drift` -/
example : ∀ c ∈ [Cmd.moveTo 100 (-3/8), .curveTo (1/2) 0 (3/4) (5/2) (3/4) 7, .closePath], bddCmd K c := by
  intro c hc
  simp only [List.mem_cons, List.not_mem_nil, or_false] at hc
  rcases hc with h | h | h <;> subst h <;> simp only [bddCmd, bdd, K] <;> (try trivial) <;>
    (refine ⟨⟨?_, ?_⟩, ?_⟩ <;> grind)

end PsVerif.Props.C20
