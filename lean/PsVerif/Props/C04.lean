import PsVerif.Proofs.ScanRoundTrip
import PsVerif.Model.Interp
/-
C04, last sentence: "The library's own PostScript serialisation of any byte string, and of any name
made of regular characters, reads back to the identical value."

Stated on the models `Ser.stringPS` / `Ser.namePS` (`String.PS`, `Name.PS` of `object.go`, compared with
the Go code byte for byte by the `ser` driver verb) and `Scan.scanToken` (`ScanToken` of `scanner.go`),
at the level where the bytes are visible: the token `Tok.str bs` for strings (the interpreter then
copies exactly these bytes into a fresh heap cell, `objOfTok_str`), and `Obj.name (bytesToString n)` for
names (`bytesToString` is injective, `name_determines_bytes`).

All byte strings (all 256 byte values, any length, NO length bound) and all names of regular characters
(any length, the empty name included) are covered; the text following the serialisation is arbitrary.
Nothing is left open here: there are no `_partial` results.
-/
namespace PsVerif.Props.C04
open PsVerif.Model PsVerif.Model.Scan PsVerif.Model.Ser PsVerif.Proofs.ScanRoundTrip

/-- the scanner state `Interpreter.Execute` installs for the input `input` (no read fault) -/
def fresh (input : List UInt8) : Scanner := { src := input }

/-- regular characters, as the tokenizer defines them: not white space (bytes 0..32) and none of
`( ) < > [ ] { } / %` -/
def regular (b : UInt8) : Prop :=
  32 < b ∧ b ≠ 40 ∧ b ≠ 41 ∧ b ≠ 60 ∧ b ≠ 62 ∧ b ≠ 91 ∧ b ≠ 93 ∧ b ≠ 123 ∧ b ≠ 125 ∧ b ≠ 47 ∧ b ≠ 37

theorem regular_iff (b : UInt8) : regular b ↔ isRegular b = true := by
  unfold regular isRegular
  by_cases h : b ≤ 32
  · have : ¬ (32 < b) := UInt8.not_lt.mpr h
    simp [h, this]
  · have : 32 < b := UInt8.not_le.mp h
    simp [h, this, and_assoc]

instance : DecidablePred regular := fun b => by unfold regular; infer_instance

theorem all_regular (n : List UInt8) (hn : ∀ b ∈ n, regular b) : n.all isRegular = true := by
  simp only [List.all_eq_true]
  exact fun b hb => (regular_iff b).mp (hn b hb)

/-- `Name.PS` does not panic exactly on the names made of regular characters -/
theorem namePS_defined_iff (n : List UInt8) : namePSPanics n = false ↔ ∀ b ∈ n, regular b := by
  simp [namePSPanics, regular_iff]

/-! ### strings -/

/-- **C04 (strings), general form.**  For EVERY byte string `bs` and EVERY continuation `rest`: from any
scanner state with an empty peek buffer and eexec decoding off, the token reader on `String(bs).PS()`
followed by `rest` returns the string token with exactly the bytes `bs`, leaves exactly `rest` unread,
peeks nothing, and touches nothing but the position bookkeeping (`line`, `col`, `crSeen`). -/
theorem string_roundtrip_from (s : Scanner) (bs rest : List UInt8) (hp : s.peek = []) (he : s.eexec = 0)
    (hs : s.src = stringPS bs ++ rest) :
    (scanToken s).1 = .ok (.str bs) ∧
    (scanToken s).2.src = rest ∧ (scanToken s).2.peek = [] ∧
    (scanToken s).2.eexec = s.eexec ∧ (scanToken s).2.err = s.err ∧ (scanToken s).2.fault = s.fault ∧
    (scanToken s).2.regurgitate = s.regurgitate ∧ (scanToken s).2.r = s.r ∧ (scanToken s).2.dsc = s.dsc ∧
    (scanToken s).2.crSeen = false := by
  have hr : Ready s := ⟨hp, he⟩
  rw [scanToken_stringPS s bs rest hr hs]
  obtain ⟨g1, g2, g3, g4, g5, g6, g7⟩ := advs_frame s (stringPS bs)
  refine ⟨rfl, advs_src s _ _ hs, g2.trans hp, g4, g7, g1, g3, g5, g6, ?_⟩
  -- the last byte consumed is `)`
  have e : stringPS bs = (40 :: escBytes (balanced bs) bs) ++ [41] := by simp [stringPS]
  show (advs s (stringPS bs)).crSeen = false
  rw [e, advs_append]
  generalize advs s (40 :: escBytes (balanced bs) bs) = s'
  simp [advs, adv, bump]

/-- **C04 (strings).**  On a fresh scanner: `String(bs).PS()` followed by ANY bytes reads back as `bs`;
the rest of the input is unread. -/
theorem string_roundtrip (bs rest : List UInt8) :
    (scanToken (fresh (stringPS bs ++ rest))).1 = .ok (.str bs) ∧
    (scanToken (fresh (stringPS bs ++ rest))).2.src = rest ∧
    (scanToken (fresh (stringPS bs ++ rest))).2.peek = [] ∧
    (scanToken (fresh (stringPS bs ++ rest))).2.err = none := by
  obtain ⟨h1, h2, h3, _, h5, _⟩ := string_roundtrip_from (fresh (stringPS bs ++ rest)) bs rest rfl rfl rfl
  exact ⟨h1, h2, h3, h5⟩

/-- the fuel `ReadString` passes to its loop (`fuelOf` of the state after the opening parenthesis) is at
least one more than the number of loop iterations needed (`bs.length + 1`) -/
theorem string_fuel (s : Scanner) (bs rest : List UInt8) (hs : s.src = escBytes (balanced bs) bs ++ 41 :: rest) :
    bs.length + 1 ≤ fuelOf s := by
  obtain ⟨f, hf⟩ := fuel_suffices s bs rest hs
  omega

/-- what the interpreter does with a string token: a fresh heap cell holding exactly the bytes -/
theorem objOfTok_str (st : State) (bs : List UInt8) :
    ∃ r, (objOfTok st (.str bs)).2 = .str r 0 bs.length ∧
      ((objOfTok st (.str bs)).1.vm.getBytes r).toList = bs := by
  refine ⟨st.vm.heap.size, rfl, ?_⟩
  simp [objOfTok, VM.alloc, VM.getBytes]

/-! ### names -/

/-- **C04 (names), general form.**  For every name `n` of regular characters (any length, empty allowed),
every byte `d` that is not regular (white space or a delimiter) and every `rest`: the token reader on
`Name(n).PS()`, `d`, `rest` returns the literal name `n`; `d` is peeked but not consumed, `rest` is unread. -/
theorem name_roundtrip_from (s : Scanner) (n : List UInt8) (d : UInt8) (rest : List UInt8)
    (hp : s.peek = []) (he : s.eexec = 0) (hn : ∀ b ∈ n, regular b) (hd : ¬ regular d)
    (hs : s.src = namePS n ++ d :: rest) :
    (scanToken s).1 = .ok (.obj (.name (bytesToString n))) ∧
    (scanToken s).2.src = rest ∧ (scanToken s).2.peek = [d] ∧ (scanToken s).2.err = s.err := by
  have hr : Ready s := ⟨hp, he⟩
  have hd' : isRegular d = false := by
    cases h : isRegular d with
    | false => rfl
    | true => exact absurd ((regular_iff d).mpr h) hd
  rw [scanToken_namePS s n d rest hr (all_regular n hn) hd' hs]
  have h1 := advs_src s (namePS n) (d :: rest) hs
  obtain ⟨_, _, _, _, _, _, g7⟩ := advs_frame s (namePS n)
  refine ⟨rfl, ?_, rfl, g7⟩
  show (advs s (namePS n)).src.tail = rest
  rw [h1]; rfl

/-- **C04 (names).**  On a fresh scanner: `Name(n).PS()` followed by a space and ANY bytes reads back as the
literal name `n`. -/
theorem name_roundtrip (n rest : List UInt8) (hn : ∀ b ∈ n, regular b) :
    (scanToken (fresh (namePS n ++ [32] ++ rest))).1 = .ok (.obj (.name (bytesToString n))) ∧
    (scanToken (fresh (namePS n ++ [32] ++ rest))).2.src = rest ∧
    (scanToken (fresh (namePS n ++ [32] ++ rest))).2.peek = [32] := by
  have hd : ¬ regular 32 := by intro h; exact absurd h.1 (by decide)
  obtain ⟨h1, h2, h3, _⟩ := name_roundtrip_from (fresh (namePS n ++ [32] ++ rest)) n 32 rest rfl rfl hn hd
    (by simp [fresh])
  exact ⟨h1, h2, h3⟩

/-- a name that ends the input -/
theorem name_roundtrip_eof (n : List UInt8) (hn : ∀ b ∈ n, regular b) :
    (scanToken (fresh (namePS n))).1 = .ok (.obj (.name (bytesToString n))) ∧
    (scanToken (fresh (namePS n))).2.src = [] ∧ (scanToken (fresh (namePS n))).2.peek = [] := by
  rw [scanToken_namePS_eof (fresh (namePS n)) n ⟨rfl, rfl⟩ rfl rfl (all_regular n hn) rfl]
  obtain ⟨_, g2, _⟩ := advs_frame (fresh (namePS n)) (namePS n)
  refine ⟨rfl, ?_, g2⟩
  exact advs_src (fresh (namePS n)) (namePS n) [] (by simp [fresh])

/-- the name object determines the bytes: two byte strings giving the same name are equal -/
theorem name_determines_bytes (a b : List UInt8) (h : Obj.name (bytesToString a) = Obj.name (bytesToString b)) :
    a = b := by
  injection h with h
  exact bytesToString_injective a b h

/-! ### non-vacuity -/

/-- parentheses (unbalanced), a backslash, CR, LF, NUL and a byte ≥ 128 -/
def ex1 : List UInt8 := [40, 41, 41, 92, 13, 10, 0, 200, 40]
/-- balanced parentheses, left as they are -/
def ex2 : List UInt8 := [40, 40, 41, 92, 13, 10, 0, 255, 41]

example : stringPS ex1 = [40, 92, 40, 92, 41, 92, 41, 92, 92, 92, 114, 10, 0, 200, 92, 40, 41] := by decide
example : stringPS ex2 = [40, 40, 40, 41, 92, 92, 92, 114, 10, 0, 255, 41, 41] := by decide

/-- the bytes of a string token (for evaluating the model in the examples) -/
def strOf : Except Err Tok → Option (List UInt8)
  | .ok (.str b) => some b
  | _ => none

-- instances of the theorem
example : (scanToken (fresh (stringPS ex1 ++ [47, 120]))).1 = .ok (.str ex1) := (string_roundtrip ex1 _).1
example : (scanToken (fresh (stringPS ex2 ++ [40, 41]))).2.src = [40, 41] := (string_roundtrip ex2 _).2.1
-- the same by evaluating the scanner model (independent of the proof)
example : strOf (scanToken (fresh (stringPS ex1 ++ [47, 120]))).1 = some ex1 := by decide +kernel
example : strOf (scanToken (fresh (stringPS ex2 ++ [40, 41]))).1 = some ex2 := by decide +kernel
example : (scanToken (fresh (stringPS ex2 ++ [40, 41]))).2.src = [40, 41] := by decide +kernel
-- the hypotheses of the general form are satisfiable
example : (scanToken { src := stringPS ex1 ++ [1], line := 7, col := 3, crSeen := true, err := some .eof }).1 =
    .ok (.str ex1) := (string_roundtrip_from _ ex1 [1] rfl rfl rfl).1

/-- `abc.d-e` and a name with bytes ≥ 128 -/
def exn : List UInt8 := [97, 98, 99, 46, 100, 45, 101, 200, 255]
example : ∀ b ∈ exn, regular b := by decide
example : namePS exn = [47, 97, 98, 99, 46, 100, 45, 101, 200, 255] := by decide
example : (scanToken (fresh (namePS exn ++ [32] ++ [49]))).1 = .ok (.obj (.name (bytesToString exn))) :=
  (name_roundtrip exn [49] (by decide)).1
/-- the bytes of a literal-name token -/
def nameOf : Except Err Tok → Option (List UInt8)
  | .ok (.obj (.name s)) => some (stringToBytes s)
  | _ => none
/-- info: (some [97, 98, 99, 46, 100, 45, 101, 200, 255], [49], [32]) -/
#guard_msgs in
#eval (nameOf (scanToken (fresh (namePS exn ++ [32] ++ [49]))).1,
  (scanToken (fresh (namePS exn ++ [32] ++ [49]))).2.src, (scanToken (fresh (namePS exn ++ [32] ++ [49]))).2.peek)
/-- info: (some [40, 41, 41, 92, 13, 10, 0, 200, 40], [47, 120]) -/
#guard_msgs in
#eval (strOf (scanToken (fresh (stringPS ex1 ++ [47, 120]))).1, (scanToken (fresh (stringPS ex1 ++ [47, 120]))).2.src)
example : namePSPanics [97, 32] = true := by decide

#print axioms string_roundtrip_from
#print axioms string_roundtrip
#print axioms string_fuel
#print axioms objOfTok_str
#print axioms name_roundtrip_from
#print axioms name_roundtrip
#print axioms name_roundtrip_eof
#print axioms name_determines_bytes
#print axioms namePS_defined_iff

end PsVerif.Props.C04
