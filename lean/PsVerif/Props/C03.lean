import PsVerif.Model.Init
/-!
# C03 — procedures, name lookup and control flow

Statements about `execOne`/`execBody`/`execTail` and the looping operators of the model
(`Model/Interp.lean`): deferred procedure bodies, a procedure met inside a running body is
pushed wherever it stands, top-down lookup, one branch of conditionals, loop exits.
-/
namespace PsVerif.Props.C03
open PsVerif.Model

/-- `{` opens a procedure body: nothing is executed, the start position is recorded -/
theorem open_brace (f m : Nat) (s : State) (b : Bool) (h : s.vm.stack.length ≤ 500) :
    execBody (f + 1) m s (.op "{") b = ({ s with procStart := s.vm.stack.length :: s.procStart }, .ok) := by
  simp only [execBody]
  have : ¬ s.vm.stack.length > maxOperandStackDepth := by unfold maxOperandStackDepth; omega
  simp [this, okS]

/-- while a body is open every object other than the braces is pushed unexecuted
(operators included) and no operation is counted -/
theorem deferred_push (f m : Nat) (s : State) (o : Obj) (b : Bool) (h : s.vm.stack.length ≤ 500)
    (hopen : s.procStart ≠ []) (h1 : o ≠ .op "}") (h2 : o ≠ .op "{") :
    execBody (f + 1) m s o b = (pushS s o, .ok) := by
  simp only [execBody]
  have : ¬ s.vm.stack.length > maxOperandStackDepth := by unfold maxOperandStackDepth; omega
  have e : s.procStart.isEmpty = false := by cases hp : s.procStart <;> simp_all
  simp [this, h1, h2, e, okS]

/-- `}` turns the objects pushed since the matching `{` into one procedure object, in order -/
theorem close_brace (f m : Nat) (s : State) (b : Bool) (a : Nat) (ps : List Nat) (h : s.vm.stack.length ≤ 500)
    (hp : s.procStart = a :: ps) (ha : a ≤ s.vm.stack.length) :
    ∃ r, execBody (f + 1) m s (.op "}") b =
      ({ s with procStart := ps,
                vm := { (s.vm.alloc (.objs ((s.vm.stack.take (s.vm.stack.length - a)).reverse.toArray))).1 with
                          stack := .proc r 0 (s.vm.stack.length - a) :: s.vm.stack.drop (s.vm.stack.length - a) } }, .ok)
      ∧ r = s.vm.heap.size := by
  refine ⟨s.vm.heap.size, ?_, rfl⟩
  simp only [execBody]
  have h0 : ¬ s.vm.stack.length > maxOperandStackDepth := by unfold maxOperandStackDepth; omega
  have h1 : ¬ s.vm.stack.length < a := by omega
  simp [h0, hp, h1, okS, VM.alloc]

/-- an unmatched `}` is a syntax error -/
theorem close_brace_unmatched (f m : Nat) (s : State) (b : Bool) (h : s.vm.stack.length ≤ 500)
    (hp : s.procStart = []) : execBody (f + 1) m s (.op "}") b = (s, .err (.ps "syntaxerror")) := by
  simp only [execBody]
  have h0 : ¬ s.vm.stack.length > maxOperandStackDepth := by unfold maxOperandStackDepth; omega
  simp [h0, hp, psErrS]

/-- **a procedure object met while a body is running is pushed, not run**: every element of a
body — first, middle or last — is executed with `execProc = false`, and then -/
theorem proc_element_pushed (f m : Nat) (s : State) (r o l : Nat) (h : s.vm.stack.length ≤ 500)
    (hp : s.procStart = []) (hb : ¬ (m > 0 ∧ s.numOps + 1 > m)) :
    execOne (f + 3) m s (.proc r o l) false = (pushS { s with numOps := s.numOps + 1 } (.proc r o l), .ok) := by
  simp only [execOne, execBody]
  have h0 : ¬ s.vm.stack.length > maxOperandStackDepth := by unfold maxOperandStackDepth; omega
  have e1 : (Obj.proc r o l == Obj.op "}") = false := by simp
  have e2 : (Obj.proc r o l == Obj.op "{") = false := by simp
  have e3 : s.procStart.isEmpty = true := by rw [hp]; rfl
  simp only [h0, if_false, e1, e2, e3, Bool.not_true, Bool.false_eq_true]
  unfold execTail
  simp [hb, okS]

/-- the elements before the last one are run by `runBody` with `execProc = false` … -/
theorem runBody_step (f m : Nat) (s : State) (r o i t : Nat) (tok : Obj)
    (ht : (s.vm.getObjs r)[o + i]? = some tok) :
    runBody (f + 1) m s r o i (t + 1) =
      (if (execOne f m s tok false).2 = .ok then runBody f m (execOne f m s tok false).1 r o (i + 1) t
       else execOne f m s tok false) := by
  simp only [runBody, ht]
  generalize execOne f m s tok false = p
  obtain ⟨s1, r1⟩ := p
  cases r1 <;> simp

/-- … and so is the last one (the tail call keeps `execProc = false`; repaired defect).  A procedure
that was called by name (`counted = false`) occupies one level of the execution stack while it runs. -/
theorem tail_element (f m : Nat) (s : State) (r o l : Nat) (c : Bool) (hl : l ≠ 0)
    (hb : ¬ (m > 0 ∧ s.numOps + 1 > m)) (hd : c = true ∨ s.execDepth < execDepthLimit) :
    execTail (f + 1) m s (.proc r o l) true c =
      leaveLevel c
        (let p := runBody f m (enterLevel c { s with numOps := s.numOps + 1 }) r o 0 (l - 1)
         if p.2 = .ok then
           match (p.1.vm.getObjs r)[o + (l - 1)]? with
           | some last => execTail f m p.1 last false true
           | none => (p.1, .err (.panic "procedure view outside its store"))
         else p) := by
  conv => lhs; unfold execTail
  simp only [hb, if_false, if_true]
  have : (l == 0) = false := by simp [hl]
  simp only [this, Bool.false_eq_true, if_false]
  have hlev : (!c && decide (s.execDepth ≥ execDepthLimit)) = false := by
    rcases hd with rfl | hd
    · rfl
    · have : ¬ s.execDepth ≥ execDepthLimit := by omega
      simp [this]
  simp only [hlev, Bool.false_eq_true, if_false]
  congr 1
  generalize runBody f m (enterLevel c { s with numOps := s.numOps + 1 }) r o 0 (l - 1) = p
  obtain ⟨s1, r1⟩ := p
  cases r1 <;> simp <;> rfl

/-- a procedure called by name at execution depth 100 is refused (repaired defect: such calls used to
recurse on the Go stack without any limit) -/
theorem named_call_depth_limit (f m : Nat) (s : State) (r o l : Nat) (hl : l ≠ 0)
    (hb : ¬ (m > 0 ∧ s.numOps + 1 > m)) (hd : s.execDepth ≥ execDepthLimit) :
    execTail (f + 1) m s (.proc r o l) true false =
      ({ s with numOps := s.numOps + 1 }, .err (.ps "execstackoverflow")) := by
  unfold execTail
  have : (l == 0) = false := by simp [hl]
  simp [hb, this, hd, psErrS]

/-- executable names are looked up through the dictionary stack from the top: the value in
the topmost dictionary that knows the name wins -/
theorem lookup_topdown (v : VM) (n : Name) (d : Nat) (ds : List Nat) (h : v.dictStack = d :: ds) :
    lookupName v n = (match v.dictGet d n with
                      | some x => some x
                      | none => lookupName { v with dictStack := ds } n) := by
  unfold lookupName
  rw [h]
  simp only [List.findSome?_cons]
  cases hd : v.dictGet d n <;> simp [VM.dictGet, VM.getDict]

/-- an executable name is replaced by its value, which is then executed -/
theorem exec_name (f m : Nat) (s : State) (n : Name) (x : Obj) (b c : Bool)
    (hb : ¬ (m > 0 ∧ s.numOps + 1 > m)) (hl : lookupName s.vm n = some x) :
    execTail (f + 1) m s (.op n) b c = execTail f m { s with numOps := s.numOps + 1 } x true c := by
  conv => lhs; unfold execTail
  simp [hb, hl]

theorem exec_name_undefined (f m : Nat) (s : State) (n : Name) (b c : Bool)
    (hb : ¬ (m > 0 ∧ s.numOps + 1 > m)) (hl : lookupName s.vm n = none) :
    execTail (f + 1) m s (.op n) b c = ({ s with numOps := s.numOps + 1 }, .err (.ps "undefined")) := by
  unfold execTail
  simp [hb, hl, psErrS]

/-- `if` runs its procedure exactly when the condition is true -/
theorem if_spec (f m : Nat) (s : State) (c : Bool) (p : Obj) (rest : List Obj)
    (h : s.vm.stack = p :: .bool c :: rest) :
    callBuiltin (f + 1) m s "if" =
      (if c then execOne f m (setStack s rest) p true else (setStack s rest, .ok)) := by
  unfold callBuiltin
  simp [h, okS]

/-- `ifelse` runs exactly one of the two procedures -/
theorem ifelse_spec (f m : Nat) (s : State) (c : Bool) (p1 p2 : Obj) (rest : List Obj)
    (h : s.vm.stack = p2 :: p1 :: .bool c :: rest) :
    callBuiltin (f + 1) m s "ifelse" =
      (if c then execOne f m (setStack s rest) p1 true else execOne f m (setStack s rest) p2 true) := by
  unfold callBuiltin
  simp [h]

/-- what a looping operator does with the result of one turn of its body: `exit` ends the
loop normally, `ok` continues with `next`, anything else (errors, `stop`, the budget error)
is passed on -/
def afterTurn (p : State × Res) (next : State → State × Res) : State × Res :=
  if p.2 = .err .exit then (p.1, .ok) else if p.2 = .ok then next p.1 else p

/-- one turn of `repeat`: `exit` in the body ends the loop (repaired defect: it used to test
for `stop`) -/
theorem repeat_step (f m : Nat) (s : State) (n : Nat) (p : Obj) :
    repeatLoop (f + 1) m s (n + 1) p = afterTurn (execOne f m s p true) (fun s1 => repeatLoop f m s1 n p) := by
  simp only [repeatLoop, afterTurn]
  generalize execOne f m s p true = q
  obtain ⟨s1, r1⟩ := q
  cases r1 with
  | err e => cases e <;> simp [okS]
  | _ => simp [okS]

theorem repeat_zero (f m : Nat) (s : State) (p : Obj) : repeatLoop (f + 1) m s 0 p = (s, .ok) := by
  simp [repeatLoop, okS]

/-- one turn of `for`: termination test on the control value, the control value is pushed
for the body; the loop also ends when the next control value would leave the integer range
(repaired defect: it used to wrap around and run until the budget was used up) -/
theorem for_step (f m : Nat) (s : State) (v inc lim : Int) (p : Obj) :
    forLoop (f + 1) m s v inc lim p =
      (if (inc > 0 ∧ v > lim) ∨ (inc < 0 ∧ v < lim) then (s, .ok)
       else afterTurn (execOne f m (pushS s (.int v)) p true)
         (fun s1 => if (inc > 0 ∧ v > maxInt64 - inc) ∨ (inc < 0 ∧ v < minInt64 - inc) then (s1, .ok)
                    else forLoop f m s1 (wrap64 (v + inc)) inc lim p)) := by
  simp only [forLoop, afterTurn]
  split
  · simp [okS]
  · generalize execOne f m (pushS s (.int v)) p true = q
    obtain ⟨s1, r1⟩ := q
    cases r1 with
    | err e => cases e <;> simp [okS]
    | ok => simp [okS]
    | fuel => simp [okS]

/-- `loop` repeats until the body exits -/
theorem loop_step (f m : Nat) (s : State) (p : Obj) :
    loopLoop (f + 1) m s p = afterTurn (execOne f m s p true) (fun s1 => loopLoop f m s1 p) := by
  simp only [loopLoop, afterTurn]
  generalize execOne f m s p true = q
  obtain ⟨s1, r1⟩ := q
  cases r1 with
  | err e => cases e <;> simp [okS]
  | _ => simp [okS]

/-- `forall` over an array pushes each element in order -/
theorem forall_array_step (f m : Nat) (s : State) (r o i t : Nat) (p x : Obj)
    (hx : (s.vm.getObjs r)[o + i]? = some x) :
    forallArr (f + 1) m s r o i (t + 1) p =
      afterTurn (execOne f m (pushS s x) p true) (fun s1 => forallArr f m s1 r o (i + 1) t p) := by
  simp only [forallArr, afterTurn, hx]
  generalize execOne f m (pushS s x) p true = q
  obtain ⟨s1, r1⟩ := q
  cases r1 with
  | err e => cases e <;> simp [okS]
  | _ => simp [okS]

/-- `forall` over a string pushes each byte as an integer -/
theorem forall_string_step (f m : Nat) (s : State) (r o i t : Nat) (p : Obj) (c : UInt8)
    (hx : (s.vm.getBytes r)[o + i]? = some c) :
    forallStr (f + 1) m s r o i (t + 1) p =
      afterTurn (execOne f m (pushS s (.int c.toNat)) p true) (fun s1 => forallStr f m s1 r o (i + 1) t p) := by
  simp only [forallStr, afterTurn, hx]
  generalize execOne f m (pushS s (.int c.toNat)) p true = q
  obtain ⟨s1, r1⟩ := q
  cases r1 with
  | err e => cases e <;> simp [okS]
  | _ => simp [okS]

/-- at top level a stray `exit` becomes `invalidexit` and `stop` ends the program without error -/
theorem exit_outside (fuel m : Nat) (s : State) (input : List UInt8) (fault : Option String)
    (h : (scanRun fuel m { s with scanner := { src := input, fault := fault } }).2 = .err .exit) :
    (execute fuel m s input fault).2 = .err (.ps "invalidexit") := by
  unfold execute
  dsimp only
  generalize scanRun fuel m { s with scanner := { src := input, fault := fault } } = p at h ⊢
  obtain ⟨s1, r⟩ := p
  simp only at h
  subst h
  rfl

theorem stop_ends (fuel m : Nat) (s : State) (input : List UInt8) (fault : Option String)
    (h : (scanRun fuel m { s with scanner := { src := input, fault := fault } }).2 = .err .stop) :
    (execute fuel m s input fault).2 = .ok := by
  unfold execute
  dsimp only
  generalize scanRun fuel m { s with scanner := { src := input, fault := fault } } = p at h ⊢
  obtain ⟨s1, r⟩ := p
  simp only at h
  subst h
  rfl

end PsVerif.Props.C03
