import PsVerif.Props.C02
/-!
# C02 (continued) — `mul`, error names, dictionary / array / string operators
-/
namespace PsVerif.Props.C02
open PsVerif.Model

/-! ## `mul`: exact, overflow promoted to real -/

theorem wrap64_range (x : Int) : inInt64 (wrap64 x) := by
  unfold inInt64 minInt64 maxInt64 wrap64
  simp only
  split <;> omega

theorem mul_ovf (a b : Int) (ha : inInt64 a) (hb : inInt64 b) :
    mulOverflow a b (wrap64 (a * b)) = !decide (inInt64 (a * b)) := by
  unfold mulOverflow
  by_cases ha0 : a = 0
  · subst ha0
    simp [inInt64, minInt64, maxInt64]
  by_cases h : inInt64 (a * b)
  · rw [wrap64_id _ h, Int.mul_tdiv_cancel_left b ha0, wrap64_id _ hb]
    have : ¬ (a = -1 ∧ b = minInt64) := by
      rintro ⟨rfl, rfl⟩
      revert h; decide
    simp only [h, decide_true, Bool.not_true, bne_self_eq_false, Bool.false_or, Bool.and_eq_false_imp,
      bne_iff_ne, ne_eq, Bool.and_eq_false_imp, beq_iff_eq, beq_eq_false_iff_ne]
    intro _ h1 h2
    exact this ⟨h1, h2⟩
  · simp only [h, decide_false, Bool.not_false]
    have hc := wrap64_range (a * b)
    generalize hcd : wrap64 (a * b) = c at hc
    have hq1 := Int.natAbs_tdiv_le_natAbs c a
    have hr1 := Int.natAbs_tmod c a
    have hr2 := Nat.mod_lt c.natAbs (show 0 < a.natAbs by omega)
    have hdm := Int.tmod_add_mul_tdiv c a
    generalize hqd : Int.tdiv c a = q at *
    generalize hrd : Int.tmod c a = r at *
    by_cases hsp : a = -1 ∧ b = minInt64
    · simp [hsp]
    · have hne : wrap64 q ≠ b := by
        intro hqb
        unfold inInt64 minInt64 maxInt64 at *
        by_cases hq : -9223372036854775808 ≤ q ∧ q ≤ 9223372036854775807
        · rw [wrap64_id _ hq] at hqb
          subst hqb
          generalize a * q = p at *
          subst hcd
          unfold wrap64 at hdm hc
          simp only at hdm hc
          split at hdm <;> omega
        · -- q = 2^63: c = minint, a = -1
          have hq63 : q = 9223372036854775808 := by omega
          subst hq63
          have hbm : b = -9223372036854775808 := by rw [← hqb]; decide
          have : a = -1 := by omega
          exact hsp ⟨this, hbm⟩
      simp [ha0, hne]

/-- `mul` on two integers: the exact product when it is representable, otherwise the real product -/
theorem mul_exact (v : VM) (a b : Int) (rest : List Obj) (ha : inInt64 a) (hb : inInt64 b)
    (hst : v.stack = .int b :: .int a :: rest) :
    bMul v = ({ v with stack := (if inInt64 (a * b) then .int (a * b) else .real (fmul (realOfInt a) (realOfInt b))) :: rest }, .ok) := by
  unfold bMul arith
  rw [hst]
  simp only [isNumber, Bool.not_true, Bool.or_self, Bool.false_eq_true, if_false, VM.push, okRes, mul_ovf a b ha hb]
  by_cases h : inInt64 (a * b)
  · simp [h, wrap64_id _ h]
  · simp [h]

/-! ## errors of the stack operators -/

theorem dup_underflow (v : VM) (h : v.stack = []) : (bDup v).2 = .err (.ps "stackunderflow") := by
  unfold bDup; rw [h]; rfl

theorem exch_underflow (v : VM) (h : v.stack.length < 2) : (bExch v).2 = .err (.ps "stackunderflow") := by
  unfold bExch
  match hs : v.stack, h with
  | [], _ => rfl
  | [_], _ => rfl

theorem index_underflow (v : VM) (h : v.stack.length < 2) : (bIndex v).2 = .err (.ps "stackunderflow") := by
  unfold bIndex
  match hs : v.stack, h with
  | [], _ => rfl
  | [_], _ => rfl

theorem index_typecheck (v : VM) (top b : Obj) (rest : List Obj) (h : v.stack = top :: b :: rest)
    (ht : ∀ i, top ≠ .int i) : (bIndex v).2 = .err (.ps "typecheck") := by
  unfold bIndex
  rw [h]
  cases top <;> first | rfl | exact absurd rfl (ht _)

theorem index_rangecheck (v : VM) (i : Int) (b : Obj) (rest : List Obj) (h : v.stack = .int i :: b :: rest)
    (hi : i < 0 ∨ i ≥ (b :: rest).length) : (bIndex v).2 = .err (.ps "rangecheck") := by
  unfold bIndex
  rw [h]
  simp only [hi, if_true, psErr]

theorem roll_underflow (v : VM) (h : v.stack.length < 2) : (bRoll v).2 = .err (.ps "stackunderflow") := by
  unfold bRoll
  match hs : v.stack, h with
  | [], _ => rfl
  | [_], _ => rfl

/-- the count of `roll` is not an integer -/
theorem roll_typecheck_count (v : VM) (jo no : Obj) (rest : List Obj) (h : v.stack = jo :: no :: rest)
    (ht : ∀ n, no ≠ .int n) : (bRoll v).2 = .err (.ps "typecheck") := by
  unfold bRoll
  rw [h]
  cases no <;> first | rfl | exact absurd rfl (ht _)

/-- the amount of `roll` is not an integer (the count being a valid one) -/
theorem roll_typecheck_amount (v : VM) (jo : Obj) (n : Int) (rest : List Obj) (h : v.stack = jo :: .int n :: rest)
    (hn : 0 ≤ n ∧ n ≤ rest.length) (ht : ∀ j, jo ≠ .int j) : (bRoll v).2 = .err (.ps "typecheck") := by
  unfold bRoll
  rw [h]
  have h1 : ¬ (n < 0 ∨ n > rest.length) := by omega
  simp only [h1, if_false]
  cases jo <;> first | rfl | exact absurd rfl (ht _)

theorem roll_rangecheck (v : VM) (jo : Obj) (n : Int) (rest : List Obj) (h : v.stack = jo :: .int n :: rest)
    (hn : n < 0 ∨ n > rest.length) : (bRoll v).2 = .err (.ps "rangecheck") := by
  unfold bRoll
  rw [h]
  simp only [hn, if_true, psErr]

theorem copy_underflow (v : VM) (h : v.stack = []) : (bCopy v).2 = .err (.ps "stackunderflow") := by
  unfold bCopy; rw [h]; rfl

/-- `n copy` with fewer than `n` elements below the count -/
theorem copy_n_underflow (v : VM) (n : Int) (rest : List Obj) (h : v.stack = .int n :: rest)
    (hn : 0 ≤ n) (hlen : n > rest.length) : (bCopy v).2 = .err (.ps "stackunderflow") := by
  unfold bCopy
  rw [h]
  have h1 : ¬ n < 0 := by omega
  simp only [h1, hlen, if_false, if_true, psErr]

theorem copy_n_rangecheck (v : VM) (n : Int) (rest : List Obj) (h : v.stack = .int n :: rest)
    (hn : n < 0) : (bCopy v).2 = .err (.ps "rangecheck") := by
  unfold bCopy
  rw [h]
  simp only [hn, if_true, psErr]

/-- composite `copy` with a single (non-integer) operand -/
theorem copy_underflow_one (v : VM) (b : Obj) (h : v.stack = [b]) (hb : ∀ n, b ≠ .int n) :
    (bCopy v).2 = .err (.ps "stackunderflow") := by
  unfold bCopy
  rw [h]
  cases b <;> first | rfl | exact absurd rfl (hb _)

/-- classification used by `copy`: the kinds of composite object it accepts -/
def copyKind : Obj → Nat
  | .arr .. => 1
  | .dict _ => 2
  | .str .. => 3
  | _ => 0

/-- composite `copy`: the source is not an array, dictionary or string, or the destination
is not of the same kind -/
theorem copy_typecheck (v : VM) (a b : Obj) (rest : List Obj) (h : v.stack = b :: a :: rest)
    (hb : ∀ n, b ≠ .int n) (hk : copyKind a = 0 ∨ copyKind b ≠ copyKind a) :
    (bCopy v).2 = .err (.ps "typecheck") := by
  unfold bCopy
  rw [h]
  cases b <;> first | exact absurd rfl (hb _) | (cases a <;> first | rfl | (simp [copyKind] at hk))

theorem copy_arr_rangecheck (v : VM) (r o l r2 o2 l2 : Nat) (rest : List Obj)
    (h : v.stack = .arr r2 o2 l2 :: .arr r o l :: rest) (hl : l2 < l) :
    (bCopy v).2 = .err (.ps "rangecheck") := by
  unfold bCopy
  rw [h]
  simp only [hl, if_true, psErr]

theorem copy_str_rangecheck (v : VM) (r o l r2 o2 l2 : Nat) (rest : List Obj)
    (h : v.stack = .str r2 o2 l2 :: .str r o l :: rest) (hl : l2 < l) :
    (bCopy v).2 = .err (.ps "rangecheck") := by
  unfold bCopy
  rw [h]
  simp only [hl, if_true, psErr]

/-! ## errors of the arithmetic and boolean operators -/

theorem arith_underflow (iop ovf fop) (v : VM) (h : v.stack.length < 2) :
    (arith iop ovf fop v).2 = .err (.ps "stackunderflow") := by
  unfold arith
  match hs : v.stack, h with
  | [], _ => rfl
  | [_], _ => rfl

theorem arith_typecheck (iop ovf fop) (v : VM) (a b : Obj) (rest : List Obj) (h : v.stack = b :: a :: rest)
    (hn : isNumber a = false ∨ isNumber b = false) : (arith iop ovf fop v).2 = .err (.ps "typecheck") := by
  unfold arith
  rw [h]
  rcases hn with hn | hn <;> simp [hn, psErr]

theorem sub_underflow (v : VM) (h : v.stack.length < 2) : (bSub v).2 = .err (.ps "stackunderflow") :=
  arith_underflow _ _ _ v h
theorem mul_underflow (v : VM) (h : v.stack.length < 2) : (bMul v).2 = .err (.ps "stackunderflow") :=
  arith_underflow _ _ _ v h
theorem sub_typecheck (v : VM) (a b : Obj) (rest : List Obj) (h : v.stack = b :: a :: rest)
    (hn : isNumber a = false ∨ isNumber b = false) : (bSub v).2 = .err (.ps "typecheck") :=
  arith_typecheck _ _ _ v a b rest h hn
theorem mul_typecheck (v : VM) (a b : Obj) (rest : List Obj) (h : v.stack = b :: a :: rest)
    (hn : isNumber a = false ∨ isNumber b = false) : (bMul v).2 = .err (.ps "typecheck") :=
  arith_typecheck _ _ _ v a b rest h hn

theorem abs_underflow (v : VM) (h : v.stack = []) : (bAbs v).2 = .err (.ps "stackunderflow") := by
  unfold bAbs; rw [h]; rfl
theorem abs_typecheck (v : VM) (x : Obj) (rest : List Obj) (h : v.stack = x :: rest)
    (hn : isNumber x = false) : (bAbs v).2 = .err (.ps "typecheck") := by
  unfold bAbs
  rw [h]
  cases x <;> first | rfl | (simp [isNumber] at hn)

/-- `and`/`or` accept two booleans or two integers -/
def boolOrIntPair (a b : Obj) : Bool :=
  match a, b with
  | .bool _, .bool _ => true
  | .int _, .int _ => true
  | _, _ => false

theorem and_underflow (v : VM) (h : v.stack.length < 2) : (bAnd v).2 = .err (.ps "stackunderflow") := by
  unfold bAnd
  match hs : v.stack, h with
  | [], _ => rfl
  | [_], _ => rfl
theorem or_underflow (v : VM) (h : v.stack.length < 2) : (bOr v).2 = .err (.ps "stackunderflow") := by
  unfold bOr
  match hs : v.stack, h with
  | [], _ => rfl
  | [_], _ => rfl
theorem and_typecheck (v : VM) (a b : Obj) (rest : List Obj) (h : v.stack = b :: a :: rest)
    (hn : boolOrIntPair a b = false) : (bAnd v).2 = .err (.ps "typecheck") := by
  unfold bAnd
  rw [h]
  cases a <;> cases b <;> first | rfl | (simp [boolOrIntPair] at hn)
theorem or_typecheck (v : VM) (a b : Obj) (rest : List Obj) (h : v.stack = b :: a :: rest)
    (hn : boolOrIntPair a b = false) : (bOr v).2 = .err (.ps "typecheck") := by
  unfold bOr
  rw [h]
  cases a <;> cases b <;> first | rfl | (simp [boolOrIntPair] at hn)
theorem and_bool (v : VM) (x y : Bool) (rest : List Obj) (h : v.stack = .bool y :: .bool x :: rest) :
    bAnd v = ({ v with stack := .bool (x && y) :: rest }, .ok) := by unfold bAnd; rw [h]; rfl
theorem or_bool (v : VM) (x y : Bool) (rest : List Obj) (h : v.stack = .bool y :: .bool x :: rest) :
    bOr v = ({ v with stack := .bool (x || y) :: rest }, .ok) := by unfold bOr; rw [h]; rfl

theorem not_underflow (v : VM) (h : v.stack = []) : (bNot v).2 = .err (.ps "stackunderflow") := by
  unfold bNot; rw [h]; rfl
theorem not_typecheck (v : VM) (x : Obj) (rest : List Obj) (h : v.stack = x :: rest)
    (hb : ∀ b, x ≠ .bool b) (hi : ∀ i, x ≠ .int i) : (bNot v).2 = .err (.ps "typecheck") := by
  unfold bNot
  rw [h]
  cases x <;> first | rfl | exact absurd rfl (hb _) | exact absurd rfl (hi _)
theorem not_bool (v : VM) (x : Bool) (rest : List Obj) (h : v.stack = .bool x :: rest) :
    bNot v = ({ v with stack := .bool (!x) :: rest }, .ok) := by unfold bNot; rw [h]; rfl

theorem eq_underflow (v : VM) (h : v.stack.length < 2) : (bEq v).2 = .err (.ps "stackunderflow") := by
  unfold bEq bEqNe
  match hs : v.stack, h with
  | [], _ => rfl
  | [_], _ => rfl
theorem ne_underflow (v : VM) (h : v.stack.length < 2) : (bNe v).2 = .err (.ps "stackunderflow") := by
  unfold bNe bEqNe
  match hs : v.stack, h with
  | [], _ => rfl
  | [_], _ => rfl

/-- objects that `eq` cannot compare: anything but numbers, strings, names (and two dictionaries) -/
def comparable : Obj → Bool
  | .int _ | .real _ | .str .. | .name _ => true
  | _ => false

theorem equalObjs_none (v : VM) (a b : Obj) (hd : ∀ x y, ¬ (a = .dict x ∧ b = .dict y))
    (hn : comparable a = false ∨ comparable b = false) : equalObjs v a b = none := by
  rcases hn with hn | hn
  · cases a <;> first | (simp [comparable] at hn; done) | (cases b <;> first | rfl | exact absurd ⟨rfl, rfl⟩ (hd _ _))
  · cases b <;> first | (simp [comparable] at hn; done) |
      (cases a <;> first | rfl | exact absurd ⟨rfl, rfl⟩ (hd _ _) | simp [equalObjs, normalize])

theorem eq_typecheck (v : VM) (a b : Obj) (rest : List Obj) (h : v.stack = b :: a :: rest)
    (hd : ∀ x y, ¬ (a = .dict x ∧ b = .dict y))
    (hn : comparable a = false ∨ comparable b = false) : (bEq v).2 = .err (.ps "typecheck") := by
  unfold bEq bEqNe
  rw [h]
  simp only [equalObjs_none v a b hd hn, psErr]
theorem ne_typecheck (v : VM) (a b : Obj) (rest : List Obj) (h : v.stack = b :: a :: rest)
    (hd : ∀ x y, ¬ (a = .dict x ∧ b = .dict y))
    (hn : comparable a = false ∨ comparable b = false) : (bNe v).2 = .err (.ps "typecheck") := by
  unfold bNe bEqNe
  rw [h]
  simp only [equalObjs_none v a b hd hn, psErr]

/-! ## errors of `array`, `string`, `dict` -/

theorem array_underflow (v : VM) (h : v.stack = []) : (bArray v).2 = .err (.ps "stackunderflow") := by
  unfold bArray; rw [h]; rfl
theorem array_typecheck (v : VM) (x : Obj) (rest : List Obj) (h : v.stack = x :: rest)
    (ht : ∀ n, x ≠ .int n) : (bArray v).2 = .err (.ps "typecheck") := by
  unfold bArray
  rw [h]
  cases x <;> first | rfl | exact absurd rfl (ht _)
theorem array_rangecheck (v : VM) (n : Int) (rest : List Obj) (h : v.stack = .int n :: rest)
    (hn : n < 0) : (bArray v).2 = .err (.ps "rangecheck") := by
  unfold bArray
  rw [h]
  simp only [hn, if_true, psErr]
theorem array_limitcheck (v : VM) (n : Int) (rest : List Obj) (h : v.stack = .int n :: rest)
    (hn : n > 65536) : (bArray v).2 = .err (.ps "limitcheck") := by
  unfold bArray
  rw [h]
  have h1 : ¬ n < 0 := by omega
  have h2 : n > maxArraySize := hn
  simp only [h1, h2, if_false, if_true, psErr]

theorem string_underflow (v : VM) (h : v.stack = []) : (bString v).2 = .err (.ps "stackunderflow") := by
  unfold bString; rw [h]; rfl
theorem string_typecheck (v : VM) (x : Obj) (rest : List Obj) (h : v.stack = x :: rest)
    (ht : ∀ n, x ≠ .int n) : (bString v).2 = .err (.ps "typecheck") := by
  unfold bString
  rw [h]
  cases x <;> first | rfl | exact absurd rfl (ht _)
theorem string_rangecheck (v : VM) (n : Int) (rest : List Obj) (h : v.stack = .int n :: rest)
    (hn : n < 0) : (bString v).2 = .err (.ps "rangecheck") := by
  unfold bString
  rw [h]
  simp only [hn, if_true, psErr]
theorem string_limitcheck (v : VM) (n : Int) (rest : List Obj) (h : v.stack = .int n :: rest)
    (hn : n > 65536) : (bString v).2 = .err (.ps "limitcheck") := by
  unfold bString
  rw [h]
  have h1 : ¬ n < 0 := by omega
  have h2 : n > maxStringSize := hn
  simp only [h1, h2, if_false, if_true, psErr]

theorem dict_underflow (v : VM) (h : v.stack = []) : (bDict v).2 = .err (.ps "stackunderflow") := by
  unfold bDict; rw [h]; rfl
theorem dict_typecheck (v : VM) (x : Obj) (rest : List Obj) (h : v.stack = x :: rest)
    (ht : ∀ n, x ≠ .int n) : (bDict v).2 = .err (.ps "typecheck") := by
  unfold bDict
  rw [h]
  cases x <;> first | rfl | exact absurd rfl (ht _)
theorem dict_rangecheck (v : VM) (n : Int) (rest : List Obj) (h : v.stack = .int n :: rest)
    (hn : n < 0) : (bDict v).2 = .err (.ps "rangecheck") := by
  unfold bDict
  rw [h]
  simp only [hn, if_true, psErr]
theorem dict_limitcheck (v : VM) (n : Int) (rest : List Obj) (h : v.stack = .int n :: rest)
    (hn : n > 65536) : (bDict v).2 = .err (.ps "limitcheck") := by
  unfold bDict
  rw [h]
  have h1 : ¬ n < 0 := by omega
  have h2 : n > maxDictSize := hn
  simp only [h1, h2, if_false, if_true, psErr]

/-- the successful cases: a fresh store, referenced by a view of the whole of it -/
theorem array_spec (v : VM) (n : Nat) (rest : List Obj) (h : v.stack = .int n :: rest) (hn : n ≤ 65536) :
    bArray v = ({ v with stack := .arr v.heap.size 0 n :: rest,
                         heap := v.heap.push (.objs (Array.replicate n .file)) }, .ok) := by
  unfold bArray
  rw [h]
  have h1 : ¬ (n : Int) < 0 := by omega
  have h2 : ¬ (n : Int) > maxArraySize := by unfold maxArraySize; omega
  simp only [h1, h2, if_false, VM.alloc, VM.push, okRes, Int.toNat_natCast]
theorem string_spec (v : VM) (n : Nat) (rest : List Obj) (h : v.stack = .int n :: rest) (hn : n ≤ 65536) :
    bString v = ({ v with stack := .str v.heap.size 0 n :: rest,
                          heap := v.heap.push (.bytes (Array.replicate n 0)) }, .ok) := by
  unfold bString
  rw [h]
  have h1 : ¬ (n : Int) < 0 := by omega
  have h2 : ¬ (n : Int) > maxStringSize := by unfold maxStringSize; omega
  simp only [h1, h2, if_false, VM.alloc, VM.push, okRes, Int.toNat_natCast]
theorem dict_spec (v : VM) (n : Nat) (rest : List Obj) (h : v.stack = .int n :: rest) (hn : n ≤ 65536) :
    bDict v = ({ v with stack := .dict v.heap.size :: rest, heap := v.heap.push (.dict []) }, .ok) := by
  unfold bDict
  rw [h]
  have h1 : ¬ (n : Int) < 0 := by omega
  have h2 : ¬ (n : Int) > maxDictSize := by unfold maxDictSize; omega
  simp only [h1, h2, if_false, VM.alloc, VM.push, okRes]

/-! ## errors of the dictionary operators -/

theorem begin_underflow (v : VM) (h : v.stack = []) : (bBegin v).2 = .err (.ps "stackunderflow") := by
  unfold bBegin; rw [h]; rfl
theorem begin_typecheck (v : VM) (x : Obj) (rest : List Obj) (h : v.stack = x :: rest)
    (hd : v.dictStack.length < 20) (ht : ∀ r, x ≠ .dict r) : (bBegin v).2 = .err (.ps "typecheck") := by
  unfold bBegin
  rw [h]
  have h1 : ¬ v.dictStack.length ≥ maxDictStackDepth := by unfold maxDictStackDepth; omega
  simp only [h1, if_false]
  cases x <;> first | rfl | exact absurd rfl (ht _)
theorem begin_dictstackoverflow (v : VM) (x : Obj) (rest : List Obj) (h : v.stack = x :: rest)
    (hd : v.dictStack.length ≥ 20) : (bBegin v).2 = .err (.ps "dictstackoverflow") := by
  unfold bBegin
  rw [h]
  have h1 : v.dictStack.length ≥ maxDictStackDepth := hd
  simp only [h1, if_true, psErr]
theorem end_dictstackunderflow (v : VM) (h : v.dictStack.length ≤ 2) :
    (bEnd v).2 = .err (.ps "dictstackunderflow") := by
  unfold bEnd
  simp only [h, if_true, psErr]

theorem def_underflow (v : VM) (h : v.stack.length < 2) : (bDef v).2 = .err (.ps "stackunderflow") := by
  unfold bDef
  match hs : v.stack, h with
  | [], _ => rfl
  | [_], _ => rfl
theorem def_typecheck (v : VM) (x k : Obj) (rest : List Obj) (h : v.stack = x :: k :: rest)
    (ht : ∀ n, k ≠ .name n) : (bDef v).2 = .err (.ps "typecheck") := by
  unfold bDef
  rw [h]
  cases k <;> first | rfl | exact absurd rfl (ht _)

theorem load_underflow (v : VM) (h : v.stack = []) : (bLoad v).2 = .err (.ps "stackunderflow") := by
  unfold bLoad; rw [h]; rfl
theorem load_typecheck (v : VM) (k : Obj) (rest : List Obj) (h : v.stack = k :: rest)
    (ht : ∀ n, k ≠ .name n) : (bLoad v).2 = .err (.ps "typecheck") := by
  unfold bLoad
  rw [h]
  cases k <;> first | rfl | exact absurd rfl (ht _)
theorem load_undefined (v : VM) (n : Name) (rest : List Obj) (h : v.stack = .name n :: rest)
    (hu : lookupName v n = none) : (bLoad v).2 = .err (.ps "undefined") := by
  unfold bLoad
  rw [h]
  simp only [hu, psErr]

theorem known_underflow (v : VM) (h : v.stack.length < 2) : (bKnown v).2 = .err (.ps "stackunderflow") := by
  unfold bKnown
  match hs : v.stack, h with
  | [], _ => rfl
  | [_], _ => rfl
theorem known_typecheck_dict (v : VM) (k d : Obj) (rest : List Obj) (h : v.stack = k :: d :: rest)
    (ht : ∀ r, d ≠ .dict r) : (bKnown v).2 = .err (.ps "typecheck") := by
  unfold bKnown
  rw [h]
  cases d <;> first | rfl | exact absurd rfl (ht _)
theorem known_typecheck_key (v : VM) (k : Obj) (r : Nat) (rest : List Obj) (h : v.stack = k :: .dict r :: rest)
    (ht : ∀ n, k ≠ .name n) : (bKnown v).2 = .err (.ps "typecheck") := by
  unfold bKnown
  rw [h]
  cases k <;> first | rfl | exact absurd rfl (ht _)

theorem where_underflow (v : VM) (h : v.stack = []) : (bWhere v).2 = .err (.ps "stackunderflow") := by
  unfold bWhere; rw [h]; rfl
theorem where_typecheck (v : VM) (k : Obj) (rest : List Obj) (h : v.stack = k :: rest)
    (ht : ∀ n, k ≠ .name n) : (bWhere v).2 = .err (.ps "typecheck") := by
  unfold bWhere
  rw [h]
  cases k <;> first | rfl | exact absurd rfl (ht _)

theorem maxlength_underflow (v : VM) (h : v.stack = []) : (bMaxlength v).2 = .err (.ps "stackunderflow") := by
  unfold bMaxlength; rw [h]; rfl
theorem maxlength_typecheck (v : VM) (x : Obj) (rest : List Obj) (h : v.stack = x :: rest)
    (ht : ∀ r, x ≠ .dict r) : (bMaxlength v).2 = .err (.ps "typecheck") := by
  unfold bMaxlength
  rw [h]
  cases x <;> first | rfl | exact absurd rfl (ht _)

/-- objects that have a `length` -/
def hasLength : Obj → Bool
  | .arr .. | .proc .. | .str .. | .dict _ | .name _ | .op _ => true
  | _ => false

theorem length_underflow (v : VM) (h : v.stack = []) : (bLength v).2 = .err (.ps "stackunderflow") := by
  unfold bLength; rw [h]; rfl
theorem length_typecheck (v : VM) (x : Obj) (rest : List Obj) (h : v.stack = x :: rest)
    (ht : hasLength x = false) : (bLength v).2 = .err (.ps "typecheck") := by
  unfold bLength
  rw [h]
  cases x <;> first | rfl | (simp [hasLength] at ht)

/-! ## errors of `get`, `put`, `getinterval`, `putinterval` -/

/-- the kind of selector a container wants: 1 = integer index, 2 = name key, 0 = not a container -/
def selKind : Obj → Nat
  | .arr .. | .proc .. | .str .. => 1
  | .dict _ => 2
  | _ => 0

theorem get_underflow (v : VM) (h : v.stack.length < 2) : (bGet v).2 = .err (.ps "stackunderflow") := by
  unfold bGet
  match hs : v.stack, h with
  | [], _ => rfl
  | [_], _ => rfl
/-- the container is not an array, procedure, string or dictionary -/
theorem get_typecheck_obj (v : VM) (sel obj : Obj) (rest : List Obj) (h : v.stack = sel :: obj :: rest)
    (ht : selKind obj = 0) : (bGet v).2 = .err (.ps "typecheck") := by
  unfold bGet
  rw [h]
  cases obj <;> first | rfl | (simp [selKind] at ht)
/-- an array, procedure or string indexed by something that is not an integer -/
theorem get_typecheck_index (v : VM) (sel obj : Obj) (rest : List Obj) (h : v.stack = sel :: obj :: rest)
    (hk : selKind obj = 1) (ht : ∀ i, sel ≠ .int i) : (bGet v).2 = .err (.ps "typecheck") := by
  unfold bGet
  rw [h]
  cases obj <;> first | (simp [selKind] at hk; done) | (cases sel <;> first | rfl | exact absurd rfl (ht _))
/-- a dictionary looked up with something that is not a name -/
theorem get_typecheck_key (v : VM) (sel : Obj) (r : Nat) (rest : List Obj) (h : v.stack = sel :: .dict r :: rest)
    (ht : ∀ n, sel ≠ .name n) : (bGet v).2 = .err (.ps "typecheck") := by
  unfold bGet
  rw [h]
  cases sel <;> first | rfl | exact absurd rfl (ht _)
theorem get_rangecheck (v : VM) (r o l : Nat) (i : Int) (rest : List Obj)
    (h : v.stack = .int i :: .arr r o l :: rest) (hi : i < 0 ∨ i ≥ l) :
    (bGet v).2 = .err (.ps "rangecheck") := by
  unfold bGet
  rw [h]
  simp only [hi, if_true, psErr]
theorem get_rangecheck_proc (v : VM) (r o l : Nat) (i : Int) (rest : List Obj)
    (h : v.stack = .int i :: .proc r o l :: rest) (hi : i < 0 ∨ i ≥ l) :
    (bGet v).2 = .err (.ps "rangecheck") := by
  unfold bGet
  rw [h]
  simp only [hi, if_true, psErr]
theorem get_rangecheck_str (v : VM) (r o l : Nat) (i : Int) (rest : List Obj)
    (h : v.stack = .int i :: .str r o l :: rest) (hi : i < 0 ∨ i ≥ l) :
    (bGet v).2 = .err (.ps "rangecheck") := by
  unfold bGet
  rw [h]
  simp only [hi, if_true, psErr]
theorem get_undefined (v : VM) (r : Nat) (n : Name) (rest : List Obj)
    (h : v.stack = .name n :: .dict r :: rest) (hu : dictLookup (v.getDict r) n = none) :
    (bGet v).2 = .err (.ps "undefined") := by
  unfold bGet
  rw [h]
  simp only [VM.dictGet, hu, psErr]

theorem put_underflow (v : VM) (h : v.stack.length < 3) : (bPut v).2 = .err (.ps "stackunderflow") := by
  unfold bPut
  match hs : v.stack, h with
  | [], _ => rfl
  | [_], _ => rfl
  | [_, _], _ => rfl
theorem put_typecheck_obj (v : VM) (x sel obj : Obj) (rest : List Obj) (h : v.stack = x :: sel :: obj :: rest)
    (ht : selKind obj = 0) : (bPut v).2 = .err (.ps "typecheck") := by
  unfold bPut
  rw [h]
  cases obj <;> first | rfl | (simp [selKind] at ht)
theorem put_typecheck_index (v : VM) (x sel obj : Obj) (rest : List Obj) (h : v.stack = x :: sel :: obj :: rest)
    (hk : selKind obj = 1) (ht : ∀ i, sel ≠ .int i) : (bPut v).2 = .err (.ps "typecheck") := by
  unfold bPut
  rw [h]
  cases obj <;> first | (simp [selKind] at hk; done) | (cases sel <;> first | rfl | exact absurd rfl (ht _))
theorem put_typecheck_key (v : VM) (x sel : Obj) (r : Nat) (rest : List Obj)
    (h : v.stack = x :: sel :: .dict r :: rest) (ht : ∀ n, sel ≠ .name n) :
    (bPut v).2 = .err (.ps "typecheck") := by
  unfold bPut
  rw [h]
  cases sel <;> first | rfl | exact absurd rfl (ht _)
/-- storing a non-integer into a string -/
theorem put_typecheck_char (v : VM) (x : Obj) (r o l : Nat) (i : Int) (rest : List Obj)
    (h : v.stack = x :: .int i :: .str r o l :: rest) (hi : 0 ≤ i ∧ i < l) (ht : ∀ c, x ≠ .int c) :
    (bPut v).2 = .err (.ps "typecheck") := by
  unfold bPut
  rw [h]
  have h1 : ¬ (i < 0 ∨ i ≥ l) := by omega
  simp only [h1, if_false]
  cases x <;> first | rfl | exact absurd rfl (ht _)
theorem put_rangecheck (v : VM) (x : Obj) (r o l : Nat) (i : Int) (rest : List Obj)
    (h : v.stack = x :: .int i :: .arr r o l :: rest) (hi : i < 0 ∨ i ≥ l) :
    (bPut v).2 = .err (.ps "rangecheck") := by
  unfold bPut
  rw [h]
  simp only [hi, if_true, psErr]
theorem put_rangecheck_proc (v : VM) (x : Obj) (r o l : Nat) (i : Int) (rest : List Obj)
    (h : v.stack = x :: .int i :: .proc r o l :: rest) (hi : i < 0 ∨ i ≥ l) :
    (bPut v).2 = .err (.ps "rangecheck") := by
  unfold bPut
  rw [h]
  simp only [hi, if_true, psErr]
theorem put_rangecheck_str (v : VM) (x : Obj) (r o l : Nat) (i : Int) (rest : List Obj)
    (h : v.stack = x :: .int i :: .str r o l :: rest) (hi : i < 0 ∨ i ≥ l) :
    (bPut v).2 = .err (.ps "rangecheck") := by
  unfold bPut
  rw [h]
  simp only [hi, if_true, psErr]
/-- a character code outside 0..255 -/
theorem put_rangecheck_char (v : VM) (c : Int) (r o l : Nat) (i : Int) (rest : List Obj)
    (h : v.stack = .int c :: .int i :: .str r o l :: rest) (hi : 0 ≤ i ∧ i < l) (hc : c < 0 ∨ c > 255) :
    (bPut v).2 = .err (.ps "rangecheck") := by
  unfold bPut
  rw [h]
  have h1 : ¬ (i < 0 ∨ i ≥ l) := by omega
  simp only [h1, hc, if_false, if_true, psErr]

/-- `getinterval`/`putinterval` work on arrays and strings -/
def intervalKind : Obj → Nat
  | .arr .. => 1
  | .str .. => 2
  | _ => 0
def viewLen : Obj → Nat
  | .arr _ _ l | .str _ _ l | .proc _ _ l => l
  | _ => 0

theorem getinterval_underflow (v : VM) (h : v.stack.length < 3) :
    (bGetinterval v).2 = .err (.ps "stackunderflow") := by
  unfold bGetinterval
  match hs : v.stack, h with
  | [], _ => rfl
  | [_], _ => rfl
  | [_, _], _ => rfl
theorem getinterval_typecheck_obj (v : VM) (cnt idx obj : Obj) (rest : List Obj)
    (h : v.stack = cnt :: idx :: obj :: rest) (ht : intervalKind obj = 0) :
    (bGetinterval v).2 = .err (.ps "typecheck") := by
  unfold bGetinterval
  rw [h]
  cases obj <;> first | rfl | (simp [intervalKind] at ht)
theorem getinterval_typecheck_index (v : VM) (cnt idx obj : Obj) (rest : List Obj)
    (h : v.stack = cnt :: idx :: obj :: rest) (hk : intervalKind obj ≠ 0) (ht : ∀ i, idx ≠ .int i) :
    (bGetinterval v).2 = .err (.ps "typecheck") := by
  unfold bGetinterval
  rw [h]
  cases obj <;> first | (simp [intervalKind] at hk; done) | (cases idx <;> first | rfl | exact absurd rfl (ht _))
theorem getinterval_typecheck_count (v : VM) (cnt obj : Obj) (i : Int) (rest : List Obj)
    (h : v.stack = cnt :: .int i :: obj :: rest) (hk : intervalKind obj ≠ 0)
    (hi : 0 ≤ i ∧ i ≤ viewLen obj) (ht : ∀ c, cnt ≠ .int c) :
    (bGetinterval v).2 = .err (.ps "typecheck") := by
  unfold bGetinterval
  rw [h]
  cases obj <;> first | (simp [intervalKind] at hk; done) |
    (rename_i r o l
     simp only [viewLen] at hi
     have h1 : ¬ (i < 0 ∨ i > (l : Int)) := by omega
     simp only [h1, if_false]
     cases cnt <;> first | rfl | exact absurd rfl (ht _))
theorem getinterval_rangecheck_index (v : VM) (cnt obj : Obj) (i : Int) (rest : List Obj)
    (h : v.stack = cnt :: .int i :: obj :: rest) (hk : intervalKind obj ≠ 0)
    (hi : i < 0 ∨ i > viewLen obj) : (bGetinterval v).2 = .err (.ps "rangecheck") := by
  unfold bGetinterval
  rw [h]
  cases obj <;> first | (simp [intervalKind] at hk; done) |
    (simp only [viewLen] at hi
     simp only [hi, if_true, psErr])
theorem getinterval_rangecheck_count (v : VM) (obj : Obj) (i c : Int) (rest : List Obj)
    (h : v.stack = .int c :: .int i :: obj :: rest) (hk : intervalKind obj ≠ 0)
    (hi : 0 ≤ i ∧ i ≤ viewLen obj) (hc : c < 0 ∨ c > viewLen obj - i) :
    (bGetinterval v).2 = .err (.ps "rangecheck") := by
  unfold bGetinterval
  rw [h]
  cases obj <;> first | (simp [intervalKind] at hk; done) |
    (rename_i r o l
     simp only [viewLen] at hi hc
     have h1 : ¬ (i < 0 ∨ i > (l : Int)) := by omega
     simp only [h1, hc, if_false, if_true, psErr])

theorem putinterval_underflow (v : VM) (h : v.stack.length < 3) :
    (bPutinterval v).2 = .err (.ps "stackunderflow") := by
  unfold bPutinterval
  match hs : v.stack, h with
  | [], _ => rfl
  | [_], _ => rfl
  | [_, _], _ => rfl
theorem putinterval_typecheck_index (v : VM) (src idx dst : Obj) (rest : List Obj)
    (h : v.stack = src :: idx :: dst :: rest) (ht : ∀ i, idx ≠ .int i) :
    (bPutinterval v).2 = .err (.ps "typecheck") := by
  unfold bPutinterval
  rw [h]
  cases idx <;> first | rfl | exact absurd rfl (ht _)
/-- destination not an array or string, or source of a different kind -/
theorem putinterval_typecheck (v : VM) (src dst : Obj) (i : Int) (rest : List Obj)
    (h : v.stack = src :: .int i :: dst :: rest) (hi : 0 ≤ i)
    (hk : intervalKind dst = 0 ∨ intervalKind src ≠ intervalKind dst) :
    (bPutinterval v).2 = .err (.ps "typecheck") := by
  unfold bPutinterval
  rw [h]
  have h1 : ¬ i < 0 := by omega
  simp only [h1, if_false]
  cases dst <;> first | rfl | (cases src <;> first | rfl | (simp [intervalKind] at hk))
theorem putinterval_rangecheck_neg (v : VM) (src dst : Obj) (i : Int) (rest : List Obj)
    (h : v.stack = src :: .int i :: dst :: rest) (hi : i < 0) :
    (bPutinterval v).2 = .err (.ps "rangecheck") := by
  unfold bPutinterval
  rw [h]
  simp only [hi, if_true, psErr]
theorem putinterval_rangecheck (v : VM) (r o l r2 o2 l2 : Nat) (i : Int) (rest : List Obj)
    (h : v.stack = .arr r2 o2 l2 :: .int i :: .arr r o l :: rest) (hi : i < 0 ∨ i + l2 > l) :
    (bPutinterval v).2 = .err (.ps "rangecheck") := by
  unfold bPutinterval
  rw [h]
  by_cases h0 : i < 0
  · simp only [h0, if_true, psErr]
  · have h2 : i > (l : Int) - l2 := by omega
    simp only [h0, h2, if_false, if_true, psErr]
theorem putinterval_rangecheck_str (v : VM) (r o l r2 o2 l2 : Nat) (i : Int) (rest : List Obj)
    (h : v.stack = .str r2 o2 l2 :: .int i :: .str r o l :: rest) (hi : i < 0 ∨ i + l2 > l) :
    (bPutinterval v).2 = .err (.ps "rangecheck") := by
  unfold bPutinterval
  rw [h]
  by_cases h0 : i < 0
  · simp only [h0, if_true, psErr]
  · have h2 : i > (l : Int) - l2 := by omega
    simp only [h0, h2, if_false, if_true, psErr]

/-! ## errors of the font and resource operators -/

theorem definefont_underflow (v : VM) (h : v.stack.length < 2) :
    (bDefinefont v).2 = .err (.ps "stackunderflow") := by
  unfold bDefinefont
  match hs : v.stack, h with
  | [], _ => rfl
  | [_], _ => rfl
theorem definefont_typecheck_key (v : VM) (font k : Obj) (rest : List Obj) (h : v.stack = font :: k :: rest)
    (ht : ∀ n, k ≠ .name n) : (bDefinefont v).2 = .err (.ps "typecheck") := by
  unfold bDefinefont
  rw [h]
  cases k <;> first | rfl | exact absurd rfl (ht _)
theorem definefont_typecheck_font (v : VM) (font : Obj) (n : Name) (rest : List Obj)
    (h : v.stack = font :: .name n :: rest) (ht : ∀ r, font ≠ .dict r) :
    (bDefinefont v).2 = .err (.ps "typecheck") := by
  unfold bDefinefont
  rw [h]
  cases font <;> first | rfl | exact absurd rfl (ht _)

theorem findfont_underflow (v : VM) (h : v.stack = []) : (bFindfont v).2 = .err (.ps "stackunderflow") := by
  unfold bFindfont; rw [h]; rfl
theorem findfont_typecheck (v : VM) (k : Obj) (rest : List Obj) (h : v.stack = k :: rest)
    (ht : ∀ n, k ≠ .name n) : (bFindfont v).2 = .err (.ps "typecheck") := by
  unfold bFindfont
  rw [h]
  cases k <;> first | rfl | exact absurd rfl (ht _)
theorem findfont_invalidfont (v : VM) (n : Name) (rest : List Obj) (h : v.stack = .name n :: rest)
    (hu : dictLookup (v.getDict v.roots.fontDirectory) n = none) :
    (bFindfont v).2 = .err (.ps "invalidfont") := by
  unfold bFindfont
  rw [h]
  simp only [VM.dictGet, hu, psErr]

theorem findresource_underflow (v : VM) (h : v.stack.length < 2) :
    (bFindresource v).2 = .err (.ps "stackunderflow") := by
  unfold bFindresource
  match hs : v.stack, h with
  | [], _ => rfl
  | [_], _ => rfl
theorem findresource_typecheck (v : VM) (cat key : Obj) (rest : List Obj) (h : v.stack = cat :: key :: rest)
    (ht : ∀ n, cat ≠ .name n) : (bFindresource v).2 = .err (.ps "typecheck") := by
  unfold bFindresource
  rw [h]
  cases cat <;> first | rfl | exact absurd rfl (ht _)
/-- unknown resource category -/
theorem findresource_undefined (v : VM) (c : Name) (key : Obj) (rest : List Obj)
    (h : v.stack = .name c :: key :: rest)
    (hu : dictLookup (v.getDict v.roots.resources) c = none) :
    (bFindresource v).2 = .err (.ps "undefined") := by
  unfold bFindresource
  rw [h]
  simp only [VM.dictGet, hu, psErr]
/-- the key is neither a name nor a string -/
theorem findresource_undefinedresource_key (v : VM) (c : Name) (key catv : Obj) (rest : List Obj)
    (h : v.stack = .name c :: key :: rest)
    (hc : dictLookup (v.getDict v.roots.resources) c = some catv)
    (hn : ∀ n, key ≠ .name n) (hs : ∀ r o l, key ≠ .str r o l) :
    (bFindresource v).2 = .err (.ps "undefinedresource") := by
  unfold bFindresource
  rw [h]
  simp only [VM.dictGet, hc]
  cases key <;> first | rfl | exact absurd rfl (hn _) | exact absurd rfl (hs _ _ _)
/-- no such instance in the category -/
theorem findresource_undefinedresource (v : VM) (c k : Name) (cd : Nat) (rest : List Obj)
    (h : v.stack = .name c :: .name k :: rest)
    (hc : dictLookup (v.getDict v.roots.resources) c = some (.dict cd))
    (hu : dictLookup (v.getDict cd) k = none) :
    (bFindresource v).2 = .err (.ps "undefinedresource") := by
  unfold bFindresource
  rw [h]
  simp only [VM.dictGet, hc, hu, psErr]
theorem findresource_spec (v : VM) (c k : Name) (cd : Nat) (x : Obj) (rest : List Obj)
    (h : v.stack = .name c :: .name k :: rest)
    (hc : dictLookup (v.getDict v.roots.resources) c = some (.dict cd))
    (hu : dictLookup (v.getDict cd) k = some x) :
    bFindresource v = ({ v with stack := x :: rest }, .ok) := by
  unfold bFindresource
  rw [h]
  simp only [VM.dictGet, hc, hu, okRes]

theorem defineresource_underflow (v : VM) (h : v.stack.length < 3) :
    (bDefineresource v).2 = .err (.ps "stackunderflow") := by
  unfold bDefineresource
  match hs : v.stack, h with
  | [], _ => rfl
  | [_], _ => rfl
  | [_, _], _ => rfl
theorem defineresource_typecheck_key (v : VM) (cls inst key : Obj) (rest : List Obj)
    (h : v.stack = cls :: inst :: key :: rest) (ht : ∀ n, key ≠ .name n) :
    (bDefineresource v).2 = .err (.ps "typecheck") := by
  unfold bDefineresource
  rw [h]
  cases key <;> first | rfl | exact absurd rfl (ht _)
theorem defineresource_typecheck_category (v : VM) (cls inst : Obj) (k : Name) (rest : List Obj)
    (h : v.stack = cls :: inst :: .name k :: rest) (ht : ∀ n, cls ≠ .name n) :
    (bDefineresource v).2 = .err (.ps "typecheck") := by
  unfold bDefineresource
  rw [h]
  cases cls <;> first | rfl | exact absurd rfl (ht _)
theorem defineresource_undefined (v : VM) (inst : Obj) (c k : Name) (rest : List Obj)
    (h : v.stack = .name c :: inst :: .name k :: rest)
    (hu : dictLookup (v.getDict v.roots.resources) c = none) :
    (bDefineresource v).2 = .err (.ps "undefined") := by
  unfold bDefineresource
  rw [h]
  simp only [VM.dictGet, hu, psErr]

/-- a `CMap` instance must be a dictionary whose `CodeMap` entry is a `*CMapInfo` -/
theorem defineresource_typecheck_cmap (v : VM) (inst : Obj) (k : Name) (cd : Nat) (rest : List Obj)
    (h : v.stack = .name "CMap" :: inst :: .name k :: rest)
    (hc : dictLookup (v.getDict v.roots.resources) "CMap" = some (.dict cd))
    (ht : ∀ d, inst ≠ .dict d) :
    (bDefineresource v).2 = .err (.ps "typecheck") := by
  unfold bDefineresource
  rw [h]
  simp only [VM.dictGet, hc]
  cases inst <;> first | exact absurd rfl (ht _) | simp [psErr]

/-- the successful case for a category other than `CMap` -/
theorem defineresource_spec (v : VM) (inst : Obj) (c k : Name) (cd : Nat) (rest : List Obj)
    (h : v.stack = .name c :: inst :: .name k :: rest)
    (hc : dictLookup (v.getDict v.roots.resources) c = some (.dict cd)) (hne : c ≠ "CMap") :
    bDefineresource v = ({ (v.dictPut cd k inst) with stack := inst :: rest }, .ok) := by
  unfold bDefineresource
  rw [h]
  simp only [VM.dictGet, hc]
  simp [hne, okRes]

theorem definefont_spec (v : VM) (d : Nat) (n : Name) (rest : List Obj)
    (h : v.stack = .dict d :: .name n :: rest) :
    bDefinefont v = ({ (v.dictPut v.roots.fontDirectory n (.dict d)) with stack := .dict d :: rest }, .ok) := by
  unfold bDefinefont; rw [h]; rfl
theorem findfont_spec (v : VM) (n : Name) (f : Obj) (rest : List Obj) (h : v.stack = .name n :: rest)
    (hf : dictLookup (v.getDict v.roots.fontDirectory) n = some f) :
    bFindfont v = ({ v with stack := f :: rest }, .ok) := by
  unfold bFindfont
  rw [h]
  simp only [VM.dictGet, hf, okRes]

/-! ## `type` -/

theorem type_underflow (v : VM) (h : v.stack = []) : (bType v).2 = .err (.ps "stackunderflow") := by
  unfold bType; rw [h]; rfl

/-- the type names of the reference -/
def typeName : Obj → Name
  | .arr .. | .proc .. => "arraytype"
  | .bool _ => "booleantype"
  | .dict _ => "dicttype"
  | .file => "filetype"
  | .int _ => "integertype"
  | .name _ | .op _ => "nametype"
  | .builtin _ => "operatortype"
  | .real _ => "realtype"
  | .str .. => "stringtype"
  | .mark => "marktype"
  | .cmapInfo _ => ""

/-- `type` leaves its operand and pushes the type name (Go: the operand is not popped) -/
theorem type_spec (v : VM) (x : Obj) (rest : List Obj) (h : v.stack = x :: rest) (hx : ∀ r, x ≠ .cmapInfo r) :
    bType v = ({ v with stack := .name (typeName x) :: x :: rest }, .ok) := by
  unfold bType
  rw [h]
  cases x <;> first | exact absurd rfl (hx _) | simp [typeName, VM.push, okRes, h]
theorem type_typecheck (v : VM) (r : Nat) (rest : List Obj) (h : v.stack = .cmapInfo r :: rest) :
    (bType v).2 = .err (.ps "typecheck") := by
  unfold bType
  rw [h]
  simp [psErr]

/-! ## marks: `cleartomark`, `]`, `>>` -/

theorem splitAtMark_none (st : List Obj) : ∀ acc, Obj.mark ∉ st → splitAtMark acc st = none := by
  induction st with
  | nil => intro acc _; rfl
  | cons o rest ih =>
    intro acc hm
    have h1 : o ≠ .mark := fun e => hm (e ▸ List.mem_cons_self)
    have h2 : Obj.mark ∉ rest := fun e => hm (List.mem_cons_of_mem _ e)
    cases o <;> first | exact absurd rfl h1 | (simp only [splitAtMark]; exact ih _ h2)

theorem splitAtMark_some (above below : List Obj) :
    ∀ acc, Obj.mark ∉ above → splitAtMark acc (above ++ .mark :: below) = some (acc.reverse ++ above, below) := by
  induction above with
  | nil => intro acc _; simp [splitAtMark]
  | cons o rest ih =>
    intro acc hm
    have h1 : o ≠ .mark := fun e => hm (e ▸ List.mem_cons_self)
    have h2 : Obj.mark ∉ rest := fun e => hm (List.mem_cons_of_mem _ e)
    cases o <;> first | exact absurd rfl h1 |
      (simp only [List.cons_append, splitAtMark]; rw [ih _ h2]; simp)

/-- no mark on the stack -/
theorem toMark_none (st : List Obj) (h : Obj.mark ∉ st) : toMark st = none := splitAtMark_none st [] h
/-- `toMark` splits at the topmost mark -/
theorem toMark_some (above below : List Obj) (h : Obj.mark ∉ above) :
    toMark (above ++ .mark :: below) = some (above, below) := by
  unfold toMark; rw [splitAtMark_some above below [] h]; rfl

theorem cleartomark_unmatchedmark (v : VM) (h : Obj.mark ∉ v.stack) :
    (bCleartomark v).2 = .err (.ps "unmatchedmark") := by
  unfold bCleartomark; rw [toMark_none _ h]; rfl
theorem listEnd_unmatchedmark (v : VM) (h : Obj.mark ∉ v.stack) :
    (bListEnd v).2 = .err (.ps "unmatchedmark") := by
  unfold bListEnd; rw [toMark_none _ h]; rfl
theorem dictEnd_unmatchedmark (v : VM) (h : Obj.mark ∉ v.stack) :
    (bDictEnd v).2 = .err (.ps "unmatchedmark") := by
  unfold bDictEnd; rw [toMark_none _ h]; rfl

/-- `cleartomark` removes everything down to and including the topmost mark -/
theorem cleartomark_spec (v : VM) (above below : List Obj) (h : v.stack = above ++ .mark :: below)
    (hm : Obj.mark ∉ above) : bCleartomark v = ({ v with stack := below }, .ok) := by
  unfold bCleartomark; rw [h, toMark_some _ _ hm]; rfl

/-- `]` builds a fresh array holding the objects above the topmost mark, bottom-most first -/
theorem listEnd_spec (v : VM) (above below : List Obj) (h : v.stack = above ++ .mark :: below)
    (hm : Obj.mark ∉ above) :
    bListEnd v = ({ v with stack := .arr v.heap.size 0 above.length :: below,
                           heap := v.heap.push (.objs above.reverse.toArray) }, .ok) := by
  unfold bListEnd; rw [h, toMark_some _ _ hm]; rfl

/-- and the new array's elements are those objects in the order they were pushed -/
theorem listEnd_elements (v : VM) (above below : List Obj) (h : v.stack = above ++ .mark :: below)
    (hm : Obj.mark ∉ above) :
    (bListEnd v).1.viewObjs v.heap.size 0 above.length = above.reverse := by
  rw [listEnd_spec v above below h hm]
  simp [VM.viewObjs, VM.getObjs]
  exact List.take_of_length_le (by simp)

/-- the key/value sequence `k₁ v₁ … kₙ vₙ` -/
def flatPairs (ps : List (Name × Obj)) : List Obj := ps.flatMap (fun p => [.name p.1, p.2])

theorem fillDict_pairs (ps : List (Name × Obj)) :
    ∀ d, fillDict (flatPairs ps) d = some (ps.foldl (fun acc p => dictInsert acc p.1 p.2) d) := by
  induction ps with
  | nil => intro d; rfl
  | cons p ps ih => intro d; simp only [flatPairs, List.flatMap_cons, List.cons_append, List.nil_append, fillDict, List.foldl_cons]; exact ih _

/-- a key that is not a name -/
theorem fillDict_badkey (ps : List (Name × Obj)) (k : Obj) (tl : List Obj) (hk : ∀ n, k ≠ .name n) :
    ∀ d, fillDict (flatPairs ps ++ k :: tl) d = none := by
  induction ps with
  | nil => intro d; cases k <;> first | exact absurd rfl (hk _) | simp [flatPairs, fillDict]
  | cons p ps ih => intro d; simp only [flatPairs, List.flatMap_cons, List.cons_append, List.nil_append, fillDict]; exact ih _

/-- `>>` with an odd number of objects above the mark -/
theorem dictEnd_rangecheck (v : VM) (above below : List Obj) (h : v.stack = above ++ .mark :: below)
    (hm : Obj.mark ∉ above) (hodd : above.length % 2 = 1) :
    (bDictEnd v).2 = .err (.ps "rangecheck") := by
  unfold bDictEnd; rw [h, toMark_some _ _ hm]
  simp [hodd, psErr]

/-- `>>` with a key that is not a name (the objects in push order being `k₁ v₁ … k v …`) -/
theorem dictEnd_typecheck (v : VM) (above below : List Obj) (h : v.stack = above ++ .mark :: below)
    (hm : Obj.mark ∉ above) (heven : above.length % 2 = 0)
    (ps : List (Name × Obj)) (k : Obj) (tl : List Obj) (hk : ∀ n, k ≠ .name n)
    (habove : above.reverse = flatPairs ps ++ k :: tl) :
    (bDictEnd v).2 = .err (.ps "typecheck") := by
  unfold bDictEnd; rw [h, toMark_some _ _ hm]
  simp [heven, habove, fillDict_badkey ps k tl hk, psErr]

/-- `<< k₁ v₁ … kₙ vₙ >>` builds a fresh dictionary by inserting the pairs in order -/
theorem dictEnd_spec (v : VM) (above below : List Obj) (ps : List (Name × Obj))
    (h : v.stack = above ++ .mark :: below) (hm : Obj.mark ∉ above)
    (habove : above.reverse = flatPairs ps) :
    bDictEnd v = ({ v with stack := .dict v.heap.size :: below,
                           heap := v.heap.push (.dict (ps.foldl (fun acc p => dictInsert acc p.1 p.2) [])) }, .ok) := by
  have hlen : above.length % 2 = 0 := by
    have : above.length = (flatPairs ps).length := by rw [← habove, List.length_reverse]
    rw [this]
    clear habove this h hm
    induction ps with
    | nil => rfl
    | cons p ps ih => simp only [flatPairs, List.flatMap_cons, List.length_append, List.length_cons, List.length_nil] at ih ⊢; omega
  unfold bDictEnd; rw [h, toMark_some _ _ hm]
  simp [hlen, habove, fillDict_pairs, VM.alloc, okRes]

end PsVerif.Props.C02
